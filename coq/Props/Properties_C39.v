(* C39 -- OnceFunction invokes and destroys its callable exactly once.
   Statements only; proofs are in Proofs/C39Proofs.v.  Model: Model/OnceFnModel.v (dispenso/once_function.h,
   dispenso/detail/once_callable_impl.h), lifetime ledgers: Base/Life.v, nextPow2 / alignedMalloc: Model/BitMathModel.v.

   Reading guide.  All theorems quantify over
     o     an address oracle (where the OnceFunction variables live, which blocks the pool / ::malloc return)
           satisfying [oracle_ok] (variables 64-aligned, pool blocks aligned to their size class, malloc arbitrary);
     ops   an operation sequence over nv OnceFunction variables: construction from ANY functor type given by its
           size sz and alignment al as integers ([types_ok]: al a power of two, sz a positive multiple, both <= 2^40),
           default construction, move construction / assignment chains, operator(), cleanupNotRun(), destruction;
     [arun (ainit nv) ops = Some (av, aevss)]: the sequence respects the documented protocol (operator() /
           cleanupNotRun() only on a OnceFunction that currently owns a callable); aevss are the protocol's events per
           operation (AInvoke / ADestroy / AAbandon), av says which variable owns which callable at the end;
     [run o (init nv) ops = Some (s, evss)]: the concrete model (bytes, memcpy moves, inline/spill storage, ledgers)
           ran the sequence; evss are the constructor / call / destructor / allocation events per operation with
           their locations and alignment flags; [project] keeps those about STORED callables.
   Expected and obtained: the property HOLDS. *)
From Coq Require Import ZArith List Bool.
From Coq Require Import Sorting.Permutation.
From DV Require Import Base.Life Model.OnceFnModel Proofs.C39Proofs.
Import ListNotations.
Local Open Scope Z_scope.

(* a protocol-respecting sequence is executable on the concrete model (no call through uninitialised bytes etc.) *)
Theorem C39_protocol_runs : forall o nv ops av aevss, oracle_ok o -> types_ok ops = true ->
  arun (ainit nv) ops = Some (av, aevss) -> exists s evss, run o (init nv) ops = Some (s, evss).
Proof. exact protocol_runs_proof. Qed.
Print Assumptions C39_protocol_runs.

(* the callable is invoked exactly when called: per operation the invocations of the concrete model are those of
   the protocol, which are: none, except for operator() on the owner of t, which invokes t (second theorem);
   and no callable is ever invoked twice *)
Theorem C39_once_invoke_at_most_once : forall o nv ops av aevss s evss,
  oracle_ok o -> types_ok ops = true -> NoDup (make_tags ops) ->
  arun (ainit nv) ops = Some (av, aevss) -> run o (init nv) ops = Some (s, evss) ->
  map (fun e => invoked (project e)) evss = map invoked aevss /\
  NoDup (invoked (concat (map project evss))).
Proof. exact at_most_once_proof. Qed.
Print Assumptions C39_once_invoke_at_most_once.

Theorem C39_invoked_exactly_on_call : forall av x av' e, astep av x = Some (av', e) ->
  invoked e = match x with OCall i => match nget av i with Some (Some t) => [t] | _ => [] end | _ => [] end.
Proof. exact astep_invokes_on_call. Qed.
Print Assumptions C39_invoked_exactly_on_call.

(* destroyed exactly once, on that call or on cleanupNotRun(): per operation the destructions of stored callables
   are those of the protocol; none is destroyed twice; the ledgers of callables and of spill blocks see no misuse
   (no double destroy, no use after destroy, no double free); every callable ever stored ends up in exactly one of
   destroyed / abandoned / still owned; and when nothing is abandoned or still owned every constructed object has
   been destroyed and every block freed *)
Theorem C39_once_destroy_exactly_once : forall o nv ops av aevss s evss,
  oracle_ok o -> types_ok ops = true -> NoDup (make_tags ops) ->
  arun (ainit nv) ops = Some (av, aevss) -> run o (init nv) ops = Some (s, evss) ->
  map (fun e => destroyed (project e)) evss = map destroyed aevss /\
  NoDup (destroyed (concat (map project evss))) /\
  ok (st_led s) /\ ok (st_heap s) /\
  Permutation (make_tags ops) (destroyed (concat aevss) ++ abandoned (concat aevss) ++ owned av) /\
  (abandoned (concat aevss) = [] -> owned av = [] ->
     balanced (st_led s) /\ balanced (st_heap s) /\ n_ctor (st_led s) = n_dtor (st_led s)).
Proof. exact destroy_once_proof. Qed.
Print Assumptions C39_once_destroy_exactly_once.

(* What if neither operator() nor cleanupNotRun() happens (the OnceFunction is dropped or overwritten while it
   owns its callable, or simply still owns it at the end)?  OnceFunction has no destructor: the callable stays
   alive, exactly one live object per such callable -- the leak the class documentation announces. *)
Theorem C39_neither_leaks : forall o nv ops av aevss s evss, oracle_ok o -> types_ok ops = true ->
  arun (ainit nv) ops = Some (av, aevss) -> run o (init nv) ops = Some (s, evss) ->
  live_count (st_led s) = Z.of_nat (length (owned av)) + Z.of_nat (length (abandoned (concat aevss))) /\
  (balanced (st_led s) <-> owned av = [] /\ abandoned (concat aevss) = []).
Proof. exact neither_leaks_proof. Qed.
Print Assumptions C39_neither_leaks.

(* the callable is constructed, called and destroyed at an address satisfying its alignment (inline: buf_ is at
   offset 0 of a 64-aligned object and inline requires alignof <= 64; spill: the block is aligned to its size class
   nextPow2(max(sizeof, alignof)) >= alignof, from the pool up to 256 bytes, from alignedMalloc above), and spill
   blocks are aligned to their size class *)
Theorem C39_once_storage_aligned : forall o nv ops av aevss s evss, oracle_ok o -> types_ok ops = true ->
  arun (ainit nv) ops = Some (av, aevss) -> run o (init nv) ops = Some (s, evss) ->
  forallb (forallb ev_aligned) evss = true.
Proof. exact aligned_proof. Qed.
Print Assumptions C39_once_storage_aligned.

(* moving transfers the obligations: after any protocol-respecting sequence (any chain of move constructions and
   move assignments included), the variable that owns callable t holds bytes that designate the live callable t,
   and operator() on it invokes and destroys exactly t, at an aligned address *)
Theorem C39_move_transfers : forall o nv ops av aevss s evss, oracle_ok o -> types_ok ops = true ->
  arun (ainit nv) ops = Some (av, aevss) -> run o (init nv) ops = Some (s, evss) ->
  forall i t, nget av i = Some (Some t) ->
    (exists p, nget (st_vars s) i = Some (Some p) /\ p_tag p = t /\ lget (st_led s) (p_ser p) = Alive) /\
    (exists s2 evs, step o s (OCall i) = Some (s2, evs) /\ project evs = [AInvoke t; ADestroy t] /\
                    forallb ev_aligned evs = true).
Proof. exact move_transfers_proof. Qed.
Print Assumptions C39_move_transfers.

(* the hypotheses are satisfiable: a concrete oracle, and a sequence over 4 variables with an inline callable
   (24 bytes), a pool-spilled one (128 bytes, alignment 128 -> class 128), an alignedMalloc-spilled one (600 bytes ->
   1024), a move chain 0 -> 3 -> 1, a move assignment, a call, a clean-up, and two callables dropped while owned (leaked: 2 live objects, 2 live blocks) *)
Example C39_nonvacuous :
  let ops := [OMake 0 24 8 1 false; OMake 1 128 128 2 true; OMake 2 600 8 3 false; OMoveCtor 3 0; ODrop 0;
              ODrop 1; OMoveCtor 1 3; ODefault 0; OMoveAssign 0 2; OCall 1; OCleanup 0; ODrop 2; OMake 2 57 1 4 false; ODrop 2] in
  oracle_ok oracle0 /\ types_ok ops = true /\ NoDup (make_tags ops) /\
  option_map (fun r => (fst r, concat (snd r))) (arun (ainit 4) ops) =
    Some ([Some None; Some None; None; Some None], [AAbandon 2; AInvoke 1; ADestroy 1; ADestroy 3; AAbandon 4]) /\
  option_map (fun r => (ledger_obs (st_led (fst r)), ledger_obs (st_heap (fst r)))) (run oracle0 (init 4) ops) =
    Some ([4; 1; 3; 0; 0; 6; 2; 0; 0; 0; 0; 0; 0], [3; 0; 0; 0; 0; 1; 2; 0; 0; 0; 0; 0; 0]).
Proof.
  split; [exact oracle0_ok|]. split; [vm_compute; reflexivity|].
  split; [repeat constructor; simpl; intuition discriminate|]. split; vm_compute; reflexivity.
Qed.

(* the concrete model describes what the code does also OUTSIDE the protocol: calling a OnceFunction twice goes
   through the stale bytes and uses / destroys a dead callable (in a DISPENSO_DEBUG build an assert fires instead) *)
Example C39_misuse_is_visible :
  option_map (fun r => status (st_led (fst r))) (run oracle0 (init 1) [OMake 0 8 8 1 false; OCall 0; OCall 0])
    = Some (LErr UseDead 1).
Proof. vm_compute. reflexivity. Qed.
