(* C09 -- pool shutdown, resize and setSignalingWake always complete (without relying on the sleep backstop).
   Statements only.  Model: Model/WakeModel.v (one step = one atomic access / futex call of detail::PoolWakeState,
   detail::EpochWaiter, and the wake-relevant skeleton of ThreadPool::threadLoopImpl / ~ThreadPool / resizeLocked; any number of
   threads and groups; any schedule; ONE futex per group, FUTEX_WAKE n wakes n ARBITRARY waiters).
   resize() and setSignalingWake() run the same sequence as the destructor (resizeLocked: stop all; wakeAll; join all), modelled as
   the operation OShutdown.  Tie: lockstep under harness/vsched.h on the real PoolWakeState / EpochWaiter (props/C09.py) and
   end-to-end replays on a real ThreadPool. *)
From Coq Require Import ZArith List Bool Lia.
From DV Require Import Base.MachInt Base.Sched Model.WakeModel Proofs.WakeLemmas Proofs.C09Proofs.
Import ListNotations.
Local Open Scope Z_scope.

(* The full statement one would like: worker i = thread i runs threadLoopImpl, thread n runs stop-all; wakeAll; join-all, the
   other threads run ANY submissions / wake operations; in every reachable state (timeout-free, any schedule, any futex waiter
   choice) in which the shutdown's wakeAll is complete no worker is parked in the futex. *)
Definition C09_full_statement : Prop :=
  forall c others s, (0 < c_gs c)%nat -> (0 < c_n c)%nat -> c_wake c = true ->
    reach step (init c (pool_progs c others)) s -> wrapped (wks s) = false -> wakeall_complete c s ->
    forall i th, (i < c_n c)%nat -> nth_error (threads s) i = Some th -> forall j w, tpc th <> PBlocked j w.

(* It is FALSE of the code as written.  Witness: 2 workers parked; schedule() claims sleepMask bit 0 and its FUTEX_WAKE(1) on the
   group futex wakes waiter 1 instead; worker 1 leaves the sleep section (mask = 0 while worker 0 still sleeps); stop all; wakeAll
   sees mask 0 and only bumps the epoch; worker 1 exits; worker 0 stays parked with running = false, the shutdown thread is blocked
   in join, nothing is enabled. *)
Theorem C09_refuted :
  exists s, reach step (init refute_cfg refute_progs) s /\ wrapped (wks s) = false /\
            wakeall_complete refute_cfg s /\
            (exists th, nth_error (threads s) 0 = Some th /\ tpc th = PBlocked 0 WLoop) /\
            nth 0 (runflags (pl s)) true = false /\
            cands s = [].
Proof. exact refuted_reach. Qed.
Print Assumptions C09_refuted.

Theorem C09_refutes_full_statement : ~ C09_full_statement.
Proof.
  intros F. destruct refuted_reach as (s & R & W & WC & (th & N & P) & _ & _).
  apply (F refute_cfg [[OSchedule]] s ltac:(cbn; lia) ltac:(cbn; lia) eq_refl R W WC O th ltac:(cbn; lia) N O WLoop P).
Qed.
Print Assumptions C09_refutes_full_statement.

(* It HOLDS on the complement of the finding's domain: no claimAndWakeOne / tryClaimSleeper takes part (claim_free: the other
   threads run wakeRange, cascadeWakeSeed, cascadeWake, wakeAll, scheduleBulkToRings, stop, pushes, polls, joins -- the operations
   that leave the sleepMask bits to their owners).  stop_reaches_all: for ANY number of threads and groups, any phase each worker is
   in when stop arrives (Top, polling, spinning, between markIdle and enterSleep, between enterSleep and the running() re-check,
   between the re-check and the epoch loads, in FUTEX_WAIT, woken), any schedule, with or without timeouts: once the shutdown's
   wakeAll is complete every worker (a) is not parked, (b) cannot park again (if it is past its re-check its local epoch is below
   the group epoch, so the epoch check / FUTEX_WAIT fails), (c) has running = false, (d) has returned or is enabled -- so no
   timeout-free state is stuck with a live worker parked.  [wrapped = false]: fewer than 2^32 bumps of one epoch word. *)
Theorem C09_holds_except : forall c, (0 < c_gs c)%nat -> (0 < c_n c)%nat -> c_wake c = true ->
  forall producers s,
    claim_free producers = true -> reach step (init c (pool_progs c producers)) s -> wrapped (wks s) = false ->
    wakeall_complete c s ->
    forall i, (i < c_n c)%nat -> exists th, nth_error (threads s) i = Some th /\
      (forall j w, tpc th <> PBlocked j w) /\
      (committed (tpc th) = true -> lep th < nth (grp c i) (epochs (wks s)) 0) /\
      nth i (runflags (pl s)) true = false /\
      (tpc th = PDone \/ In i (cands s)).
Proof. exact stop_reaches_all. Qed.
Print Assumptions C09_holds_except.

(* the key invariant, group by group and at every moment of the wakeAll pass: a worker of an already-passed group that is beyond
   its running() re-check holds a local epoch strictly below the group epoch (it has not yet seen the bump) and is not parked *)
Theorem C09_bumped_epoch_not_yet_rechecked : forall c, (0 < c_gs c)%nat -> (0 < c_n c)%nat -> c_wake c = true ->
  forall producers s i,
    claim_free producers = true -> reach step (init c (pool_progs c producers)) s -> wrapped (wks s) = false ->
    (i < c_n c)%nat -> gdone (spc_of c s) (grp c i) = true ->
    exists th, nth_error (threads s) i = Some th /\ (forall j w, tpc th <> PBlocked j w) /\
               (committed (tpc th) = true -> lep th < nth (grp c i) (epochs (wks s)) 0).
Proof. exact bumped_epoch_not_yet_rechecked. Qed.
Print Assumptions C09_bumped_epoch_not_yet_rechecked.

(* the whole inductive invariant (sleepMask bit i set iff worker i is inside its sleep section; local epoch <= group epoch; ...) *)
Theorem C09_shutdown_invariant : forall c, (0 < c_gs c)%nat -> (0 < c_n c)%nat -> c_wake c = true ->
  forall producers s, claim_free producers = true -> reach step (init c (pool_progs c producers)) s -> Inv c s.
Proof. exact shutdown_invariant. Qed.
Print Assumptions C09_shutdown_invariant.

(* afterwards no worker of the previous configuration is still running: when the joins have returned every worker thread has *)
Theorem C09_join_then_no_old_worker : forall c, (0 < c_gs c)%nat -> (0 < c_n c)%nat -> c_wake c = true ->
  forall producers s,
    claim_free producers = true -> reach step (init c (pool_progs c producers)) s -> wrapped (wks s) = false ->
    spc_of c s = PDone ->
    forall i, (i < c_n c)%nat -> exists th, nth_error (threads s) i = Some th /\ tpc th = PDone.
Proof. exact join_then_no_old_worker. Qed.
Print Assumptions C09_join_then_no_old_worker.

(* poll mode (enableEpochWaiter_ = false): no wake is ever issued for a parked worker -- the poll period IS the mechanism.  With
   timed waits treated as ordinary steps (c_tmo = true) a worker blocked in the futex is always enabled and its step leaves the wait. *)
Theorem C09_poll_mode_blocked_is_enabled : forall s t th i w,
  c_tmo (cf s) = true -> nth_error (threads s) t = Some th -> tpc th = PBlocked i w ->
  In t (cands s) /\ exists o, tstep (cf s) (wks s) (pl s) (length (threads s)) th = Some o /\ tpc (o_th o) = PWf2 i w.
Proof. intros s t th i w Tm N P. split; [eapply blocked_is_candidate_with_timeouts; eauto | apply blocked_step_with_timeouts; auto]. Qed.
Print Assumptions C09_poll_mode_blocked_is_enabled.

(* every state the executable scheduler visits is reachable, so the theorems apply to the runs compared with the real code *)
Theorem C09_run_reach : forall fuel c progs sched, reach step (init c progs) (fst (fst (run_wake fuel c progs sched))).
Proof. intros. apply run_reach. apply reach_refl. Qed.
Print Assumptions C09_run_reach.

(* non-vacuity: (1) a claim-free 2-worker pool whose workers are parked when stop arrives: the shutdown completes and all threads
   return; (2) poll mode with timeouts: completes as well *)
Example C09_nonvacuous :
  claim_free [[ORings 2]] = true /\
  snd (run_wake 300 (CFG 2 8 4 true 1 false) (pool_progs (CFG 2 8 4 true 1 false) [[ORings 2]]) (repeat 0 300)) = SDone /\
  snd (run_wake 300 (CFG 2 8 4 false 1 true) (pool_progs (CFG 2 8 4 false 1 true) [[OPushCentral]]) (repeat 0 300)) = SDone.
Proof. vm_compute. repeat split; reflexivity. Qed.
