(* C33 -- ConcurrentVector concurrent growth is exact.
   Statements only.  Model: Model/CVecGrowModel.v (one step = one atomic access of size_ / buffers_[k], one iteration of
   the spin-wait on a not yet published buffer, or one element construction; any number of threads; any schedule), with the
   bucket arithmetic of Model/CVecModel.v.  Tie: lockstep under harness/vsched.h + native stress (props/C33.py).

   Part 1 (arithmetic, all strategies, all firstBucketShift >= 0, all partitions of [0,n) into consecutive reservations):
     the allocation list of a reservation is exactly the set of buckets whose trigger index it covers; hence every bucket
     has exactly one allocating reservation, and that reservation does not start after any reservation touching the bucket.
   Part 2 (all interleavings): disjoint consecutive ranges, write-once buffer pointers, every position constructed exactly
     once into an allocated buffer with the tag of its reservation, final size = total growth, spin-waits always have a
     committed, non-blocked allocator, and every call returns under every fair schedule. *)
From Coq Require Import ZArith List Bool.
From DV Require Import Base.MachInt Base.Sched Model.CVecModel Model.CVecGrowModel Proofs.C33Proofs.
Import ListNotations.
Local Open Scope Z_scope.

(* ------------------------------------------------------------------------------------------------ Part 1 *)
(* allocAsNecessaryImpl(binfo) (emplace_back at index i) tries to assign bucket k iff i is k's trigger index *)
Theorem C33_allocs_single : forall strat shift i k, 0 <= shift -> 0 <= i ->
  (In k (allocs1 strat shift i) <-> 1 <= k /\ trigger strat shift k = i).
Proof. exact allocs1_spec. Qed.
Print Assumptions C33_allocs_single.

(* allocAsNecessaryImpl(binfo, rangeLen, bend) (growth by d at index i) tries to assign bucket k iff [i, i+d) covers k's trigger *)
Theorem C33_allocs_range : forall strat shift i d k, 0 <= shift -> 0 <= i -> 0 <= d ->
  (In k (allocsN strat shift i d) <-> 1 <= k /\ i <= trigger strat shift k < i + d).
Proof. exact allocsN_spec. Qed.
Print Assumptions C33_allocs_range.

(* consecutive reservations are pairwise disjoint *)
Theorem C33_partition_disjoint : forall f l1 r1 l2 r2 l3 x,
  partition_from f (l1 ++ r1 :: l2 ++ r2 :: l3) -> pcovers r1 x -> ~ pcovers r2 x.
Proof. exact partition_disjoint. Qed.
Print Assumptions C33_partition_disjoint.

(* unique_allocator: in any partition of [0,n) into consecutive reservations (single or range, any deltas >= 0), every
   bucket k >= 1 whose trigger index is below n is in the allocation list of EXACTLY ONE reservation -- which is what makes
   tryAssignBuffer's load-then-store (no CAS) safe *)
Theorem C33_unique_allocator : forall strat shift l k,
  0 <= shift -> partition_from 0 l -> 1 <= k -> trigger strat shift k < ptotal l ->
  exists l1 r l2, l = l1 ++ r :: l2 /\ In k (allocs_of strat shift r) /\
                  (forall r', In r' (l1 ++ l2) -> ~ In k (allocs_of strat shift r')).
Proof. exact unique_allocator. Qed.
Print Assumptions C33_unique_allocator.

(* allocator_precedes: every bucket k >= 1 that a reservation r waits for (all buckets it constructs into, and the bucket
   of its end position) is allocated by r itself or by a reservation with a smaller start *)
Theorem C33_allocator_precedes : forall strat shift l1 r l2 k,
  0 <= shift -> partition_from 0 (l1 ++ r :: l2) -> 1 <= k -> In k (waits_of shift r) ->
  exists r', In r' (l1 ++ [r]) /\ In k (allocs_of strat shift r') /\ p_start r' <= p_start r.
Proof. exact allocator_precedes. Qed.
Print Assumptions C33_allocator_precedes.

(* ------------------------------------------------------------------------------------------------ Part 2 *)
(* distinct_indices: in every reachable state the fetch_add reservations tile [0, size): consecutive, pairwise disjoint,
   covering, and size is the sum of the deltas handed out so far *)
Theorem C33_distinct_indices : forall strat shift, 0 <= shift -> forall progs, Forall (Forall wf_op) progs ->
  forall s, reach (gstep strat shift) (init progs) s ->
  lchain (g_rlog (sh s)) (g_size (sh s)) /\ g_size (sh s) = rtotal (g_rlog (sh s)) /\
  (forall r r' x, In r (g_rlog (sh s)) -> In r' (g_rlog (sh s)) -> covers r x -> covers r' x -> r = r') /\
  (forall x, 0 <= x < g_size (sh s) -> exists r, In r (g_rlog (sh s)) /\ covers r x).
Proof. exact grow_distinct_indices. Qed.
Print Assumptions C33_distinct_indices.

(* pointers_stable: a buffer pointer that is non-null never changes again (no step of any thread, in any later state):
   elements never move, references and iterators stay valid *)
Theorem C33_pointers_stable : forall strat shift, 0 <= shift -> forall progs, Forall (Forall wf_op) progs ->
  forall s s2 k, reach (gstep strat shift) (init progs) s -> reach (gstep strat shift) s s2 ->
  lookup k (g_bufs (sh s)) <> 0 -> lookup k (g_bufs (sh s2)) = lookup k (g_bufs (sh s)).
Proof. exact grow_pointers_stable. Qed.
Print Assumptions C33_pointers_stable.

(* consequence used by the range variant: a buffer pointer that is null when tryAssignBuffer stores it was null when the
   sizing loop of the same call looked at it, so the block allocated by that call has room for it *)
Theorem C33_null_backwards : forall strat shift, 0 <= shift -> forall progs, Forall (Forall wf_op) progs ->
  forall s s2 k, reach (gstep strat shift) (init progs) s -> reach (gstep strat shift) s s2 ->
  lookup k (g_bufs (sh s2)) = 0 -> lookup k (g_bufs (sh s)) = 0.
Proof. exact grow_null_backwards. Qed.
Print Assumptions C33_null_backwards.

(* no_overwrite: no position is constructed twice; every construction goes into a bucket whose buffer is allocated at that
   moment and writes the tag its (unique) covering reservation assigns to that position *)
Theorem C33_no_overwrite : forall strat shift, 0 <= shift -> forall progs, Forall (Forall wf_op) progs ->
  forall s, reach (gstep strat shift) (init progs) s ->
  NoDup (map gc_idx (g_cells (sh s))) /\
  (forall c, In c (g_cells (sh s)) -> gc_buf c <> 0 /\
     exists r, In r (g_rlog (sh s)) /\ covers r (gc_idx c) /\ gc_tag c = tag_of r (gc_idx c)).
Proof. exact grow_no_overwrite. Qed.
Print Assumptions C33_no_overwrite.

(* no element is lost: once every thread has returned, exactly the positions 0 .. size-1 have been constructed *)
Theorem C33_final_exact : forall strat shift, 0 <= shift -> forall progs, Forall (Forall wf_op) progs ->
  forall s, reach (gstep strat shift) (init progs) s -> finished s = true ->
  forall x, 0 <= x < g_size (sh s) <-> In x (map gc_idx (g_cells (sh s))).
Proof. exact grow_final_exact. Qed.
Print Assumptions C33_final_exact.

(* final_size: for programs of push_back / grow_by* calls the final size is the total growth of all calls
   (with grow_to_at_least the growth of a call depends on the schedule: C33_distinct_indices gives size = sum of the deltas) *)
Theorem C33_final_size : forall strat shift progs s, Forall (Forall no_growto) progs ->
  reach (gstep strat shift) (init progs) s -> finished s = true -> g_size (sh s) = static_total progs.
Proof. exact grow_final_size. Qed.
Print Assumptions C33_final_size.

(* The spin-wait.  Safety core: a thread spinning on a null buffer pointer is never alone -- another thread whose NEXT step
   is a non-blocking load or store of its allocation phase is committed to storing exactly that pointer ... *)
Theorem C33_wait_progress : forall strat shift, 0 <= shift -> forall progs, Forall (Forall wf_op) progs ->
  forall s t rng k rest, reach (gstep strat shift) (init progs) s ->
  agof s t = MWait rng k :: rest -> lookup k (g_bufs (sh s)) = 0 ->
  exists t' m' rest', t' <> t /\ agof s t' = m' :: rest' /\ (rank m' = 1 \/ rank m' = 2)%nat /\ pendingA k (agof s t').
Proof. exact grow_wait_progress. Qed.
Print Assumptions C33_wait_progress.

(* ... hence some thread can always take a step that is not a failed spin iteration ... *)
Theorem C33_some_thread_progresses : forall strat shift, 0 <= shift -> forall progs, Forall (Forall wf_op) progs ->
  forall s, reach (gstep strat shift) (init progs) s -> finished s = false ->
  exists t m rest, agof s t = m :: rest /\ (forall rng k, m = MWait rng k -> lookup k (g_bufs (sh s)) <> 0).
Proof. exact grow_some_thread_progresses. Qed.
Print Assumptions C33_some_thread_progresses.

(* ... and therefore every growth call returns under EVERY FAIR schedule: [pick n] is the thread scheduled at time n (threads
   that have returned are skipped), fairness = every thread is scheduled again and again; [sigma] is the resulting run.
   (Every step other than a failed spin iteration decreases a lexicographic measure; a failed spin leaves the state unchanged.) *)
Theorem C33_terminates_under_fairness : forall strat shift, 0 <= shift -> forall progs, Forall (Forall wf_op) progs ->
  forall pick : nat -> nat, (forall t n, (t < length progs)%nat -> exists n', (n <= n')%nat /\ pick n' = t) ->
  exists n, finished (sigma strat shift progs pick n) = true.
Proof. exact grow_terminates. Qed.
Print Assumptions C33_terminates_under_fairness.

Theorem C33_fair_run_reach : forall strat shift progs pick n, reach (gstep strat shift) (init progs) (sigma strat shift progs pick n).
Proof. exact sigma_reach. Qed.
Print Assumptions C33_fair_run_reach.

(* the whole inductive invariant (Proofs/C33Proofs.v, Record Inv) holds in every reachable state *)
Theorem C33_invariant : forall strat shift, 0 <= shift -> forall progs s, Forall (Forall wf_op) progs ->
  reach (gstep strat shift) (init progs) s -> SInv strat shift s.
Proof. exact reach_inv_grow. Qed.
Print Assumptions C33_invariant.

(* every state the executable scheduler visits is reachable, so the theorems apply to the runs compared with the real code *)
Theorem C33_run_reach : forall strat shift fuel progs sched,
  reach (gstep strat shift) (init progs) (fst (fst (run_grow strat shift fuel progs sched))).
Proof. intros. apply run_reach. apply reach_refl. Qed.
Print Assumptions C33_run_reach.

(* non-vacuity: kAsNeeded, first bucket of one element, three threads growing across five bucket boundaries under an
   interleaved schedule: the run finishes, the size is the total growth (grow_to_at_least(12) loaded size 6 and added 6), the
   contents are the tags at the positions the reservations got, buckets 0..5 are allocated; and a partition in which bucket 3 has exactly one allocator *)
Example C33_nonvacuous :
  Forall (Forall wf_op) [[GPush 1; GGrow 3 10 1]; [GGrow 5 20 1; GPush 2]; [GGrowTo 12 30]] /\
  (let '(s, tr, st) := run_grow 2 0 200 [[GPush 1; GGrow 3 10 1]; [GGrow 5 20 1; GPush 2]; [GGrowTo 12 30]]
                         [0;1;2;0;1;2;0;1;2;0;1;2;0;1;2;0;1;2;0;1;2;0;1;2;0;1;2;0;1;2;0;1;2;0;1;2;0;1;2;0;1;2;0;1;2;0;1;2;0;1;2;0;1;2;0;0;0;0;0;0;0;0;0;0;0;0;0;0;0;0;0;0;0;0;0;0;0;0;0;0] in
   st = SDone /\ g_size (sh s) = 16 /\ contents (sh s) = [1; 20; 21; 22; 23; 24; 30; 30; 30; 30; 30; 30; 10; 11; 12; 2] /\
   allocated (sh s) = [0; 1; 2; 3; 4; 5] /\ map (fun th => rev (res th)) (threads s) = [[0; 12]; [1; 15]; [6]]) /\
  partition_from 0 [PR true 0 1; PR false 1 5; PR false 6 3; PR true 9 1] /\
  allocs_of 2 0 (PR false 1 5) = [2; 3] /\ allocs_of 2 0 (PR false 6 3) = [4] /\ allocs_of 2 0 (PR true 9 1) = [].
Proof.
  split; [repeat constructor; cbn; try exact I; discriminate|].
  split; [vm_compute; repeat split; reflexivity|].
  split; [cbn; repeat split; try reflexivity; try discriminate; intros; try reflexivity|].
  vm_compute. repeat split; reflexivity.
Qed.
