(* C30 -- Graph executors respect dependencies and run each node once.
   Statements only; proofs are in Proofs/C30Proofs.v.

   Model (Model/GraphModel.v): counters are size_t values (kCompleted = 2^64-1, arithmetic wraps); the three executors are
   one interleaving semantics [step x wave s tid] over tasks whose atomic steps are the shared-memory accesses of
   graph_executor.cpp / graph_executor_impl.h:  wave = true  = SingleThreadExecutor (schedule pick_seq) and
   ParallelForExecutor (any schedule), wave = false = ConcurrentTaskSetExecutor (any schedule; a task = one
   evaluateNodeConcurrently invocation with its inlineNext continuation).  The log is newest-first.

   RESULT: the property as stated (any graph built by node additions / dependsOn / subgraph ops, executed by any
   executor) is FALSE for the code: dependsOn does not touch numIncompletePredecessors_, so a freshly built graph has all
   counters 0, every node is a start node, and dependencies are ignored (C30_refuted; reproduced on the real code by
   harness/h_graph.cpp, finding "fresh-graph-ignores-dependencies").  It HOLDS for every prepared counter state
   (preparedb = what setAllNodesIncomplete / ForwardPropagator establish), for every schedule (C30_holds_except). *)
From Coq Require Import ZArith List Bool PArith FMapPositive Lia.
From DV Require Import Base.MachInt Model.GraphModel Model.C30Check Proofs.C30Proofs Proofs.C30TermProofs Proofs.GraphClearProofs.
Import ListNotations.
Local Open Scope Z_scope.

Definition build (bip : bool) (ops : list op) : option graph :=
  fold_left (fun og o => match og with Some g => apply_op g o | None => None end) ops (Some (empty_graph bip)).

(* what C30 asks of one execution (x = structure, c = counters when the executor is called, s = a state reached by some schedule) *)
Definition exec_ok_safety (x : xg) (c : zmap) (s : st) : Prop :=
  (* nobody runs twice *)
  (forall n, (countp n (started_l (s_log s)) <= 1)%nat /\ (countp n (finl (s_log s)) <= 1)%nat) /\
  (* only incomplete nodes of the graph run *)
  (forall n, In n (started_l (s_log s)) -> In n (x_nodes x) /\ incb c n = true) /\
  (* a node starts only after every predecessor that was incomplete has finished *)
  respects_dependencies x c (s_log s) /\
  (* executed nodes are complete afterwards *)
  (forall n, In n (finl (s_log s)) -> getz (s_cnt s) n = K64 /\ In n (started_l (s_log s))) /\
  (* already-complete nodes are not run and stay complete *)
  (forall n, In n (x_nodes x) -> incb c n = false -> getz (s_cnt s) n = K64 /\ ~ In n (started_l (s_log s))).

Definition exec_ok_final (x : xg) (c : zmap) (s : st) : Prop :=
  quiescent s = true ->
  forall n, In n (x_nodes x) ->
    getz (s_cnt s) n = K64 /\ (incb c n = true -> countp n (started_l (s_log s)) = 1%nat /\ countp n (finl (s_log s)) = 1%nat).

(* the property at full strength: any graph the construction ops can build, any executor, any schedule *)
Definition C30_full_statement : Prop :=
  forall bip ops g, build bip ops = Some g -> acyclic (xg_of g) ->
  forall wave sched,
    let s := run_sched (xg_of g) wave (init_st (xg_of g) (g_cnt g)) sched in
    exec_ok_safety (xg_of g) (g_cnt g) s /\ exec_ok_final (xg_of g) (g_cnt g) s.

(* chain 3 -> 2 -> 1 created in reverse order and executed directly *)
Definition fresh_chain_ops : list op := [ONode 0; ONode 0; ONode 0; ODep 2 3; ODep 1 2].

Theorem C30_refuted :
  exists g, build false fresh_chain_ops = Some g /\ acyclic (xg_of g) /\
    (forall n, In n (g_nodes g) -> incb (g_cnt g) n = true) /\
    c30_finding_domain (xg_of g) (g_cnt g) = true /\
    (* SingleThreadExecutor runs 1, 2, 3: node 1 starts before its predecessor 2 has finished; 1 and 2 do not end complete *)
    (let s := exec_seq (xg_of g) (g_cnt g) in
     quiescent s = true /\ rev (started_l (s_log s)) = [1; 2; 3]%positive /\
     ~ respects_dependencies (xg_of g) (g_cnt g) (s_log s) /\ getz (s_cnt s) 1 <> K64) /\
    (* ConcurrentTaskSetExecutor / ParallelForExecutor: same after the very first step of the task of node 1 *)
    (forall wave, ~ respects_dependencies (xg_of g) (g_cnt g) (s_log (run_sched (xg_of g) wave (init_st (xg_of g) (g_cnt g)) [1%nat]))).
Proof. exact C30_refuted_proof. Qed.
Print Assumptions C30_refuted.

Theorem C30_full_statement_false : ~ C30_full_statement.
Proof. exact C30_full_statement_false_proof. Qed.
Print Assumptions C30_full_statement_false.

(* Outside the finding's domain the property holds: every executor, every schedule, every structure (any node list /
   dependents lists -- not only those the construction ops build), every prepared counter state. *)
Theorem C30_holds_except : forall x c wave sched,
  c30_finding_domain x c = false ->
  let s := run_sched x wave (init_st x c) sched in
  exec_ok_safety x c s /\ (acyclic x -> exec_ok_final x c s).
Proof. exact C30_holds_except_proof. Qed.
Print Assumptions C30_holds_except.

(* the single-thread executor and the schedule used by the correspondence are instances *)
Theorem C30_single_thread : forall x c,
  c30_finding_domain x c = false ->
  let s := exec_seq x c in exec_ok_safety x c s /\ (acyclic x -> exec_ok_final x c s).
Proof. exact C30_single_thread_proof. Qed.
Print Assumptions C30_single_thread.

(* no deadlock: until everything has run, some thread can take a step ... *)
Theorem C30_progress : forall x wave s,
  quiescent s = false -> (wave = true \/ s_buf s = []) -> exists t, step x wave s t <> None.
Proof. exact progress. Qed.
Print Assumptions C30_progress.

(* ... and termination: under ANY schedule at most 4*|nodes| + 2*|edges| steps take effect (effective counts the schedule
   entries whose thread could move), so every fair execution reaches quiescence, where by C30_holds_except every incomplete
   node has run exactly once; the single-thread executor model reaches it within its fuel *)
Theorem C30_bounded_steps : forall x wave c sched, c30_finding_domain x c = false ->
  (effective x wave (init_st x c) sched <= 4 * length (x_nodes x) + 2 * edge_count x)%nat.
Proof. exact C30_bounded_proof. Qed.
Print Assumptions C30_bounded_steps.

Theorem C30_single_thread_terminates : forall x c, c30_finding_domain x c = false -> quiescent (exec_seq x c) = true.
Proof. exact C30_terminates_proof. Qed.
Print Assumptions C30_single_thread_terminates.

(* setAllNodesIncomplete establishes the prepared state on every well-formed graph (wfgb: numPredecessors_ = number of
   occurrences in dependents_ lists, dependents are nodes of the graph, no duplicate nodes) ... *)
Theorem C30_setAll_prepares : forall g, wfgb g = true ->
  c30_finding_domain (xg_of (set_all_incomplete g)) (g_cnt (set_all_incomplete g)) = false.
Proof. intros g H. unfold c30_finding_domain. rewrite (setAll_prepared g H). reflexivity. Qed.
Print Assumptions C30_setAll_prepares.

(* ... and the construction ops keep graphs well-formed.  Subgraph::clear() with its edge surgery
   (decrementDependentCounters / markNodesWithPredicessors / removePredecessorDependencies: swap-remove loop with a budget and an
   early return): afterwards no dependents_ list of a surviving node mentions a destroyed node and every
   numPredecessors_ equals the number of occurrences in the remaining dependents_ lists.
   small_graph = fewer than 2^64-1 edges (the size_t budget of clear() does not wrap); fresh_ok = ids come from the counter. *)
Theorem C30_clear_edge_surgery_correct : forall g sg,
  wfgb g = true -> small_graph g -> fresh_ok g ->
  let g' := clear_subgraph g sg in
  wfgb g' = true /\ fresh_ok g' /\ small_graph g' /\
  (forall n, In n (g_nodes g') -> In n (g_nodes g)) /\
  (forall p d, In p (g_nodes g') -> In d (getl (g_deps g') p) -> In d (g_nodes g')) /\
  (forall d, In d (g_nodes g') -> getz (g_np g') d = Z.of_nat (np_count g' d)).
Proof. exact clear_wf_proof. Qed.
Print Assumptions C30_clear_edge_surgery_correct.

Theorem C30_construction_wf : forall g o,
  wfgb g = true -> small_graph g -> fresh_ok g -> op_valid g o ->
  match o with OSub | ONode _ | ODep _ _ | OBip _ _ | OClear _ => True | _ => False end ->
  forall g', apply_op g o = Some g' -> small_graph g' -> wfgb g' = true /\ fresh_ok g'.
Proof. exact construction_wf_proof. Qed.
Print Assumptions C30_construction_wf.

(* the hypotheses are satisfiable by non-trivial inputs: a diamond with a duplicated edge (a) fully prepared and run by the
   concurrent executor under an interleaved schedule of three tasks, (b) partially re-evaluated (node 3 marked, ForwardPropagator):
   complete and incomplete nodes mixed, counter 2 on node 4 *)
Example C30_nonvacuous :
  (exists g, build false [OSub; ONode 0; ONode 1; ONode 1; ONode 0; ONode 0; ONode 0; ODep 2 1; ODep 3 1; ODep 4 2; ODep 4 3; ODep 4 3;
                          ODep 5 4; ODep 6 2; OSetAll] = Some g /\
     c30_finding_domain (xg_of g) (g_cnt g) = false /\
     let s := run_sched (xg_of g) false (init_st (xg_of g) (g_cnt g)) (concat (repeat [2; 1; 3]%nat 30)) in
     quiescent s = true /\ rev (started_l (s_log s)) = [1; 3; 2; 6; 4; 5]%positive) /\
  (exists g, build false [OSub; ONode 0; ONode 1; ONode 1; ONode 0; ONode 0; ONode 0; ODep 2 1; ODep 3 1; ODep 4 2; ODep 4 3; ODep 4 3;
                          ODep 5 4; ODep 6 2; OCompl 1; OCompl 2; OCompl 3; OCompl 4; OCompl 5; OCompl 6; OInc 3; OProp] = Some g /\
     c30_finding_domain (xg_of g) (g_cnt g) = false /\ getz (g_cnt g) 4 = 2 /\
     let s := exec_seq (xg_of g) (g_cnt g) in
     quiescent s = true /\ rev (started_l (s_log s)) = [3; 4; 5]%positive).
Proof. split; (eexists; split; [vm_compute; reflexivity|]); vm_compute; repeat split; reflexivity. Qed.
