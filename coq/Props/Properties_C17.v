(* C17 -- Static chunking arithmetic partitions ranges exactly.
   Statements only; every proof is `exact`/`apply` of a lemma from Proofs/ or GenTie/.
   All theorems speak about the definitions REGENERATED from /repo (Gen/GenChunk.v). *)
From Coq Require Import ZArith List Bool Lia.
From DV Require Import Base.MachInt Model.ChunkModel Proofs.ChunkProofs Proofs.StaticBoundsProofs Gen.GenChunk GenTie.ChunkGenTie
  Model.ParForModel Proofs.C17Proofs.
Import ListNotations.
Local Open Scope Z_scope.

(* staticChunkSize: t chunks of size c followed by (chunks - t) chunks of size c-1 add up to items;
   sizes differ by at most one; the larger ones come first (indices < t). *)
Theorem C17_staticChunkSize : forall items chunks, 0 <= items -> 0 < chunks ->
  let '(t, c) := gen_staticChunkSize items chunks in
  0 <= t <= chunks /\ 0 <= c /\ (t < chunks -> 1 <= c) /\ (0 < items -> 0 < t) /\
  t * c + (chunks - t) * (c - 1) = items /\ c <= items.
Proof. exact C17_staticChunkSize_proof. Qed.
Print Assumptions C17_staticChunkSize.

(* granular variant: unit = granularity; both sizes are multiples of it *)
Theorem C17_staticChunkSizeGranular : forall items chunks g, 0 <= items -> 0 < chunks -> 1 <= g -> (g | items) ->
  let '(t, c) := gen_staticChunkSizeGranular items chunks g in
  let u := unit_of g in
  0 <= t <= chunks /\ 0 <= c /\ (u | c) /\ (t < chunks -> u <= c) /\ (0 < items -> 0 < t) /\
  t * c + (chunks - t) * (c - u) = items /\ c <= items.
Proof. exact C17_staticChunkSizeGranular_proof. Qed.
Print Assumptions C17_staticChunkSizeGranular.

(* the sizes callers derive (ceil for index < transition, ceil - unit after) sum to items ... *)
Theorem C17_sizes_sum : forall items chunks g, 0 <= items -> 0 < chunks -> 1 <= g -> (g | items) ->
  sum_len (gen_chunk_len items chunks g) (Z.to_nat chunks) = items.
Proof. exact C17_sizes_sum_proof. Qed.
Print Assumptions C17_sizes_sum.

(* ... are non-increasing in the index, differ by at most one unit, and are multiples of the unit *)
Theorem C17_sizes_shape : forall items chunks g i j,
  0 <= items -> 0 < chunks -> 1 <= g -> (g | items) -> 0 <= i <= j -> j < chunks ->
  0 <= gen_chunk_len items chunks g j <= gen_chunk_len items chunks g i /\
  gen_chunk_len items chunks g i - gen_chunk_len items chunks g j <= unit_of g /\
  (unit_of g | gen_chunk_len items chunks g i).
Proof. exact C17_sizes_shape_proof. Qed.
Print Assumptions C17_sizes_shape.

(* per-chunk boundaries of parallel_for (StaticChunkMapper regenerated from the source, configuration as
   parallel_for_staticImpl builds it): a contiguous partition of [s,e) for every integer kind, with the
   lengths above.  Domain: s <= e in the kind, g | e - s, no ssize_t overflow, and for int32/int64 the
   products stay in the type (signed overflow is UB). *)
Theorem C17_boundaries_partition : forall kn s e n g,
  (kn < 8)%nat -> let k := nth kn all_kinds I8 in
  in_kind k s -> in_kind k e -> s <= e -> 1 <= n -> 1 <= g -> (g | e - s) -> e - s + n < 2 ^ 63 ->
  (ik_signed k = true -> 32 <= ik_w k -> e - s <= kmax k /\ n <= kmax k) ->
  contiguous s (gen_static_bounds kn s e n g) e /\
  forall i, (i < Z.to_nat n)%nat ->
    let '(a, b) := nth i (gen_static_bounds kn s e n g) (0, 0) in b - a = gen_chunk_len (e - s) n g (Z.of_nat i).
Proof. exact C17_boundaries_partition_proof. Qed.
Print Assumptions C17_boundaries_partition.

(* for_each_n's offsets *)
Theorem C17_foreach_offsets : forall n nt, 0 <= n -> 1 <= nt -> contiguous 0 (foreach_bounds n nt) n.
Proof. exact foreach_bounds_contiguous. Qed.
Print Assumptions C17_foreach_offsets.

(* the hypotheses are satisfiable by a non-trivial input *)
Example C17_nonvacuous :
  gen_static_bounds 4 3 1003 7 8 = [(3,147);(147,291);(291,435);(435,579);(579,723);(723,867);(867,1003)]
  /\ gen_staticChunkSizeGranular 1000 7 8 = (6, 144).
Proof. split; vm_compute; reflexivity. Qed.
