(* C29 -- Pipeline exceptions terminate cleanly without leaks.
   Statements only.  Model: Model/PipelineModel.v with throwing stages / a throwing generator, TaskSetBase::trySetCurrentException
   (compare-exchange, then the cancel store), hasException() checks, the discard path of wait() (cleanupNotRun), the RAII guards,
   the cancelled check of packageTask.  Any number of stages / items / threads, every interleaving.
   The property as stated was FALSE of the code in three ways; two are repaired in /repo (0db1b9f hang, eb2d079 escape: their
   witnesses are kept as regression Examples), the leak remains (C29_refuted, replayed on the real code by props/C29.py);
   the parts that do hold are proved for all schedules.
   Tie: lockstep under harness/vsched.h on the real dispenso::pipeline with lifetime-tracked payloads (props/C29.py). *)
From Coq Require Import ZArith List Bool Lia.
From DV Require Import Base.MachInt Base.Sched Model.PipelineModel Proofs.PipelineProofs Proofs.C27Proofs Proofs.C27FlowProofs
                       Proofs.C27OnceProofs Proofs.C27PhaseProofs Proofs.C29Proofs.
Import ListNotations.
Local Open Scope Z_scope.

(* The statement one would like: whenever some stage throws, pipeline() returns (rethrowing), every payload has been destroyed
   (no task skipped by the cancelled wrapper with its payload inside an undestroyed OnceFunction: log kind 8; nothing stranded in
   a gate queue: kind 11), and it does so from every reachable state. *)
Definition C29_full_statement : Prop :=
  forall c s, (0 < nstages c)%nat -> reach (mstep c) (init c) s ->
    (exists s', reach (mstep c) s s' /\ done (sh s') = true) /\
    (done (sh s) = true -> forall e, In e (log (sh s)) -> e_kind e <> 8 /\ e_kind e <> 11).

(* ---------- FALSE (remaining known finding), witness (leak): pipeline() has returned, rethrowing exception 1001, and the task of item 0, which was in
   the pool when the exception was captured, was skipped by the cancelled packageTask wrapper: the OnceFunction it wraps is never
   invoked nor cleaned up, its payload is never destroyed. ---------- *)
Theorem C29_refuted :
  has_throw c_leak = true /\
  exists s, reach (mstep c_leak) (init c_leak) s /\ done (sh s) = true /\ result (sh s) = Some 1001 /\
            exists e, In e (log (sh s)) /\ e_kind e = 8.
Proof. exact leak_refuted. Qed.
Print Assumptions C29_refuted.

(* ---------- REPAIRED in /repo 0db1b9f (was: FALSE, pipeline() never returns).  Two generator instances; the second one is still
   queued when a stage throws and is skipped by the cancelled wrapper.  Its CompletionGuard, now owned by the task by value, counts
   the latch down when the skipped functor is destroyed.  Regression: the former witness run returns, rethrowing 1000. ---------- *)
Example C29_hang_regression :
  has_throw c_hang = true /\ done (sh s_hang) = true /\ result (sh s_hang) = Some 1000 /\ compl (sh s_hang) = 0 /\
  existsb (fun e => e_kind e =? 13) (log (sh s_hang)) = true.
Proof. exact hang_fixed. Qed.
(* In every reachable state of every pipeline the completion latch equals the number of generator instances that have not yet passed
   their CompletionGuard (not yet dispatched, queued, popped, running, or skipped with the guard pending: measure m_genc): a positive
   latch always has an owner who will count it down. *)
Theorem C29_completion_latch_owned : forall c s,
  (0 < nstages c)%nat -> reach (mstep c) (init c) s -> compl (sh s) = total (m_genc c) s.
Proof. exact latch_owned. Qed.
Print Assumptions C29_completion_latch_owned.

(* ---------- REPAIRED in /repo eb2d079 (was: FALSE, an exception leaves pipeline() through execute() while generator tasks still
   reference the pipes).  The generator functor records its exception in the task set itself.  Regression: the former witness
   (poolLoadFactor_ 0, instance run inline inside execute(), generator throws) returns with exception 0, pool empty. ---------- *)
Example C29_escape_regression :
  has_throw c_esc = true /\ done (sh s_esc) = true /\ result (sh s_esc) = Some 0 /\ pout (sh s_esc) = 0 /\
  map escaping (threads s_esc) = [false; false].
Proof. exact escape_fixed. Qed.
(* A generator functor never lets an exception out: after any of its steps the thread is not unwinding. *)
Theorem C29_generator_catches : forall c t s th pc r ch s1 th1 ch1 site wake,
  stack th = FGen pc :: r -> mstep_thread c t s th ch = Some (s1, th1, ch1, site, wake) -> unw th1 = None.
Proof. exact generator_catches. Qed.
Print Assumptions C29_generator_catches.

(* ---------- TRUE on the complement of the remaining finding's domain (no stage throws, [has_throw c = false]): no payload is ever skipped or
   stranded and pipeline() returns normally. ---------- *)
Theorem C29_holds_except : forall c s,
  has_throw c = false -> (0 < nstages c)%nat -> reach (mstep c) (init c) s ->
  (forall e, In e (log (sh s)) -> e_kind e <> 8 /\ e_kind e <> 11) /\ (forall r, result (sh s) = Some r -> r = -1).
Proof. exact holds_except. Qed.
Print Assumptions C29_holds_except.

(* ---------- TRUE for every configuration and every interleaving ---------- *)
(* pipeline() rethrows exactly when an exception was captured, and it rethrows the one captured by the first (and until then only)
   successful compare-exchange of trySetCurrentException ([caps] = captured exception ids in the log) *)
Theorem C29_first_exception_rethrown : forall c s t ch s' ch' site r,
  reach (mstep c) (init c) s -> mstep c s t ch = Some (s', ch', site) ->
  result (sh s) = None -> result (sh s') = Some r ->
  (exc (sh s) = None /\ r = -1 /\ caps (log (sh s')) = []) \/ (exc (sh s) = Some r /\ caps (log (sh s')) = [r]).
Proof. exact first_exception_rethrown. Qed.
Print Assumptions C29_first_exception_rethrown.

(* no item is processed by any stage twice, exceptions or not *)
Theorem C29_no_item_twice : forall c s j tag,
  (0 < nstages c)%nat -> reach (mstep c) (init c) s -> count_ev 1 j tag (log (sh s)) <= 1.
Proof. exact each_item_each_stage_at_most_once. Qed.
Print Assumptions C29_no_item_twice.

(* a generator instance that observes the exception produces nothing more: it goes to its CompletionGuard, and from there only to
   the notification and out *)
Theorem C29_generator_stops : forall c t s th r ch s1 th1 ch1 site wake,
  stack th = FGen GExc :: r -> unw th = None -> has_exc s = true ->
  mstep_thread c t s th ch = Some (s1, th1, ch1, site, wake) -> stack th1 = FGen GDone :: r /\ s1 = s.
Proof. exact generator_stops. Qed.
Print Assumptions C29_generator_stops.
Theorem C29_generator_done_is_final : forall c t s th r ch s1 th1 ch1 site wake pc,
  stack th = FGen pc :: r -> gen_live pc = false \/ pc = GDone ->
  mstep_thread c t s th ch = Some (s1, th1, ch1, site, wake) ->
  stack th1 = r \/ exists pc', stack th1 = FGen pc' :: r /\ (pc' = GNStore \/ pc' = GNWake).
Proof. exact generator_done_is_final. Qed.
Print Assumptions C29_generator_done_is_final.

(* the pool stays usable: at the step at which pipeline() returns the task set counts no task (outstandingTaskCount_ = pout - gx = 0),
   nothing of this pipeline is queued, and the only wrappers still on a stack are those of skipped generator tasks whose functor is
   being destroyed (PEnd: latch count-down by the guard, which co-owns the completion event, then the workRemaining_ decrement) *)
Theorem C29_pool_usable_after : forall c s t ch s' ch' site,
  reach (mstep c) (init c) s -> mstep c s t ch = Some (s', ch', site) -> done (sh s) = false -> done (sh s') = true ->
  pout (sh s') - gx (sh s') = 0 /\ bag (sh s') = [] /\
  forall th, In th (threads s') -> forall f, In f (stack th) -> match f with FPool _ PEnd => True | FPool _ _ => False | _ => True end.
Proof. exact pool_usable_after. Qed.
Print Assumptions C29_pool_usable_after.

(* the gate counters stay consistent through exceptions (resources_ + holders + slots lost to skipped tasks = limit): see
   Properties_C28.v, C28_slot_invariant, which holds with throwing stages as well *)

(* non-vacuity of the positive theorems: the leak run itself is a run with an exception in which pipeline() returns *)
Example C29_nonvacuous :
  done (sh s_leak) = true /\ result (sh s_leak) = Some 1001 /\ caps (log (sh s_leak)) = [1001] /\ pout (sh s_leak) = 0.
Proof. vm_compute. repeat split; reflexivity. Qed.
