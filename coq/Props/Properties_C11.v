(* C11 -- memory safe and leak free, including error paths.          PARTIAL BY NATURE: a roll-up.

   The property quantifies over ALL programs using the WHOLE library.  No Gallina semantics of the whole library
   exists in this development, so that statement cannot be proved; what IS proved is its reading on every mechanism
   that has a lifetime / ownership / allocator model (built and tied to the source by the owning property's check):
   one theorem C11_<component>_<aspect> per mechanism, each a corollary (Proofs/C11Proofs.v: projections only) of the
   component theorems, stated over the component's own model:

     no ledger error  = no out-of-bounds index into a model buffer, no access to Dead / uninitialised cells,
                        no double destroy / double free, nothing alive at the end.

   Modules are Required, not Imported (the component models all call their functions step / init / run).
   C11_covered_mechanisms names exactly what is covered; C11_partial is the roll-up; C11_full_statement (documentation,
   NOT proved -- in fact refuted through C26's teardown finding, C11_refuted) and C11_not_covered say what is not.
   Everything outside the listed mechanisms is covered by NO theorem: for that part the check (props/C11.py) only SEARCHES
   for failing inputs with ASan + UBSan + LSan builds of the existing harnesses (Model/C11Check.v judges the reports). *)
From Coq Require Import ZArith List Bool Permutation String.
From DV Require Import Base.Life Base.Sched Model.C11Check Proofs.C11Proofs.
Import ListNotations.
Local Open Scope Z_scope.

(* ---- OnceFunction (C39): for every protocol-respecting sequence of make / move / call / cleanupNotRun / drop over any
   number of variables: the ledgers of callables and of spill blocks record no misuse (no double destroy, no use after
   destroy, no double free), no callable is destroyed twice, construction / call / destruction happen at aligned
   addresses, and when no owner was dropped or is still pending nothing is alive and every block is freed *)
Theorem C11_oncefn_no_ledger_error : forall o nv ops av aevss s evss,
  OnceFnModel.oracle_ok o -> OnceFnModel.types_ok ops = true -> NoDup (OnceFnModel.make_tags ops) ->
  OnceFnModel.arun (OnceFnModel.ainit nv) ops = Some (av, aevss) -> OnceFnModel.run o (OnceFnModel.init nv) ops = Some (s, evss) ->
  ok (OnceFnModel.st_led s) /\ ok (OnceFnModel.st_heap s) /\
  NoDup (OnceFnModel.destroyed (List.concat (map OnceFnModel.project evss))) /\
  forallb (forallb OnceFnModel.ev_aligned) evss = true /\
  (OnceFnModel.abandoned (List.concat aevss) = [] -> OnceFnModel.owned av = [] ->
     balanced (OnceFnModel.st_led s) /\ balanced (OnceFnModel.st_heap s) /\
     n_ctor (OnceFnModel.st_led s) = n_dtor (OnceFnModel.st_led s)).
Proof. exact oncefn_safe_proof. Qed.
Print Assumptions C11_oncefn_no_ledger_error.

(* ---- OpResult (C40): every operation sequence: no lifetime misuse, live objects are exactly the contents of the engaged
   variables, and once all variables are destroyed nothing is alive (constructions = destructions) *)
Theorem C11_opresult_no_ledger_error : forall nv ops s, OpResultModel.run (OpResultModel.init nv) ops = Some s ->
  ok (OpResultModel.st_led s) /\
  (forall id, is_live (lget (OpResultModel.st_led s) id) = true ->
     exists i t, id = OpResultModel.slot i /\ OpResultModel.vget (OpResultModel.st_vars s) i = Some (Some t)) /\
  (OpResultModel.all_gone (OpResultModel.st_vars s) = true ->
     balanced (OpResultModel.st_led s) /\ n_ctor (OpResultModel.st_led s) = n_dtor (OpResultModel.st_led s)).
Proof. exact opresult_safe_proof. Qed.
Print Assumptions C11_opresult_no_ledger_error.

(* ---- SmallVector (C38): every history valid for std::vector, any inline capacity, any allocator: the run ends in Ok --
   the model's run returns Err at the first construction over a live element (EDoubleCtor), destruction / read /
   assignment of a dead, moved-from or freed one (EDtorDead EReadDead EReadFreed EReadMoved EAssignDead), access outside
   the storage block (EOob), second release of a block (EDoubleFree), or storage released with a live element (ELeak) --
   and when every vector is destroyed constructions = destructions and every heap block has been released *)
Theorem C11_smallvec_no_ledger_error : forall alloc N szT K ops sp', (1 <= N)%nat ->
  SmallVecModel.spec_run ops (SmallVecModel.spec_init K) = Some sp' ->
  exists s g, SmallVecModel.run alloc N szT ops (SmallVecModel.init_slots K) SmallVecModel.led0 = SmallVecLife.Ok (s, g) /\
    (Forall (eq None) sp' ->
       SmallVecLife.nctor g = SmallVecLife.ndtor g /\
       Forall (fun b => SmallVecLife.b_live b = false) (SmallVecLife.blocks g)).
Proof. exact smallvec_safe_proof. Qed.
Print Assumptions C11_smallvec_no_ledger_error.

(* heap storage is aligned for every element type (UBSan: no misaligned construction), over-aligned ones included *)
Theorem C11_smallvec_heap_aligned : forall onew amalloc al N szT K ops sp', (1 <= N)%nat ->
  (forall c n, (16 | onew c n)) -> (forall c n a, C38Proofs.is_pow2 a -> (a | amalloc c n a)) -> C38Proofs.is_pow2 al -> (al | szT) ->
  SmallVecModel.spec_run ops (SmallVecModel.spec_init K) = Some sp' ->
  exists s g, SmallVecModel.run (SmallVecModel.allocate_oracle onew amalloc al) N szT ops (SmallVecModel.init_slots K) SmallVecModel.led0
              = SmallVecLife.Ok (s, g) /\
    forall k v i, nth_error s k = Some (Some v) -> SmallVecModel.heapb v = true ->
      (al | SmallVecModel.elem_addr szT (SmallVecModel.data_addr al 0 g v) i).
Proof. exact Properties_C38.C38_heap_aligned. Qed.
Print Assumptions C11_smallvec_heap_aligned.

(* ---- ConcurrentVector, sequential API (C32): every operation sequence within std::vector's preconditions: no lifetime
   misuse, no access outside allocated bucket storage (cl_bad), no live element lost with its storage, as many destructor
   calls as constructions *)
Theorem C11_cvec_no_ledger_error : forall tr max_n ops, CVecOpsProofs.fits tr max_n -> CVecModel.seq_pre max_n ops = true ->
  let L := CVecModel.run_all tr ops in
  CVecModel.cl_errs L = [] /\ CVecModel.cl_bad L = 0 /\ CVecModel.cl_glive L = 0 /\ CVecModel.cl_gmoved L = 0 /\
  c_value (CVecModel.cl_cnt L) + c_copy (CVecModel.cl_cnt L) + c_move (CVecModel.cl_cnt L) = c_dtor (CVecModel.cl_cnt L).
Proof. exact cvec_safe_proof. Qed.
Print Assumptions C11_cvec_no_ledger_error.

(* ---- ConcurrentVector, concurrent growth (C33): all interleavings: no position is constructed twice, every construction
   goes into an allocated buffer, a published buffer pointer never changes (references stay valid) *)
Theorem C11_cvecgrow_no_overwrite : forall strat shift, 0 <= shift -> forall progs, Forall (Forall C33Proofs.wf_op) progs ->
  forall s, reach (CVecGrowModel.gstep strat shift) (CVecGrowModel.init progs) s ->
  NoDup (map CVecGrowModel.gc_idx (CVecGrowModel.g_cells (CVecGrowModel.sh s))) /\
  (forall c, In c (CVecGrowModel.g_cells (CVecGrowModel.sh s)) -> CVecGrowModel.gc_buf c <> 0) /\
  (forall s2 k, reach (CVecGrowModel.gstep strat shift) s s2 ->
     CVecGrowModel.lookup k (CVecGrowModel.g_bufs (CVecGrowModel.sh s)) <> 0 ->
     CVecGrowModel.lookup k (CVecGrowModel.g_bufs (CVecGrowModel.sh s2)) = CVecGrowModel.lookup k (CVecGrowModel.g_bufs (CVecGrowModel.sh s))).
Proof. exact cvecgrow_safe_proof. Qed.
Print Assumptions C11_cvecgrow_no_overwrite.

(* ---- MPMCRingBuffer (C34): every reachable state of any number of producers / consumers (capacity >= 2): the slot ledger
   records no misuse; a consumer about to hand its slot back has already destroyed the payload; the destructor at
   quiescence records no misuse and leaves nothing alive *)
Theorem C11_mpmc_no_ledger_error : forall n progs s, 2 <= n -> reach MpmcModel.gstep (MpmcModel.init n progs) s ->
  l_errs (MpmcModel.led s) = [] /\
  (forall t th h0 v, nth_error (MpmcModel.threads s) t = Some th -> MpmcModel.tpc th = MpmcModel.PPopStoreSeq h0 v ->
     is_live (lget (MpmcModel.led s) (h0 mod MpmcModel.N s)) = false) /\
  (MpmcModel.quiescent s = true -> MpmcModel.tail s < 2 ^ 62 ->
     l_errs (MpmcModel.dtor s) = [] /\ forall i, 0 <= i < MpmcModel.N s -> is_live (lget (MpmcModel.dtor s) i) = false).
Proof. exact mpmc_safe_proof. Qed.
Print Assumptions C11_mpmc_no_ledger_error.

(* ---- SPSCRingBuffer (C35): same reading for one producer and one consumer, single and batch operations *)
Theorem C11_spsc_no_ledger_error : forall k p0 p1 s, Properties_C35.C35_domain k p0 p1 ->
  reach SpscModel.step (SpscModel.init k p0 p1) s ->
  l_errs (SpscModel.led s) = [] /\
  match SpscModel.tpc (SpscModel.th1 s) with
  | SpscModel.PPopStoreHead c v => is_live (lget (SpscModel.led s) c) = false
  | SpscModel.PQStoreHead hp cnt acc =>
      forall j, 0 <= j < cnt -> is_live (lget (SpscModel.led s) ((C35Proofs.zlen (SpscModel.popped s) + j) mod SpscModel.K s)) = false
  | _ => True
  end /\
  (C35Proofs.rl (SpscModel.tpc (SpscModel.th1 s)) = [] -> C35Proofs.wl (SpscModel.tpc (SpscModel.th0 s)) = [] ->
     l_errs (SpscModel.dtor s) = [] /\ forall i, 0 <= i < SpscModel.K s -> is_live (lget (SpscModel.dtor s) i) = false).
Proof. exact spsc_safe_proof. Qed.
Print Assumptions C11_spsc_no_ledger_error.

(* ---- ChaseLevDeque (C36): elements are trivially copyable; the memory-safety content is the index bound: the live window
   [top, bottom) never exceeds the buffer (bottom - top may transiently be -1 during a pop on empty) *)
Theorem C11_chaselev_index_bounded : forall cp i0 oprog tprogs s, ChaseLevLemmas.pow2cap cp -> C36Proofs.wf_thieves tprogs ->
  reach ChaseLevModel.step (ChaseLevModel.init cp i0 oprog tprogs) s ->
  ChaseLevModel.bot s - ChaseLevModel.top s <= ChaseLevModel.cap s /\ ChaseLevModel.top s <= ChaseLevModel.bot s + 1.
Proof. exact chaselev_safe_proof. Qed.
Print Assumptions C11_chaselev_index_bounded.

(* ---- ConcurrentObjectArena (C37): concurrent grow_by never reads a buffer-table entry that was never written (c_ub is the
   model's sticky flag for exactly that); the copy constructor is defined on every arena (copy_ctor = None is "indexes past
   the table / copies an unwritten entry": the repaired defect) and deep (fresh buffers only: the two destructors free
   disjoint storage) *)
Theorem C11_arena_no_uninit_read :
  (forall a0 nid deltas s, C37Proofs.arena_wf a0 -> Forall (fun d => 0 <= d) deltas ->
     reach ArenaModel.step (ArenaModel.init_state a0 nid deltas) s -> ArenaModel.c_ub s = false) /\
  (forall a nid, C37Proofs.arena_ok a ->
     exists c n', ArenaModel.copy_ctor a nid = Some (c, n') /\
       (forall b bf, ArenaModel.get_buf c b = Some bf -> (nid <= ArenaModel.bid bf < n')%nat) /\ C37Proofs.arena_ok c).
Proof. exact arena_safe_proof. Qed.
Print Assumptions C11_arena_no_uninit_read.

(* ---- SmallBufferAllocator (C41): all interleavings, any central container meeting the multiset specification
   (moodycamel's queue is NOT modelled: it enters as this hypothesis): every chunk is in exactly one place, alloc never
   returns a chunk that is still live; carving: chunks lie inside their slab, are aligned to the chunk size, are disjoint *)
Theorem C11_smallbuf_blocks_exclusive :
  (forall Q qenq qdeq qcont c, sba_queue_spec Q qenq qdeq qcont -> 0 < SmallBufModel.ideal c <= SmallBufModel.pm c ->
   forall (q0 : Q) progs s, qcont q0 = [] ->
     reach (SmallBufModel.step Q qenq qdeq c) (SmallBufModel.init Q q0 progs) s ->
     NoDup (SmallBufModel.all_blocks Q qcont c s) /\
     (forall t ch s' ch' site b, SmallBufModel.step Q qenq qdeq c s t ch = Some (s', ch', site) ->
        SmallBufModel.user s' = SmallBufModel.user s ++ [b] -> ~ In b (SmallBufModel.user s))) /\
  (forall c chunk (base : Z -> Z), 0 < chunk -> 0 < SmallBufModel.pm c -> SmallBufModel.pm c * chunk <= SmallBufModel.mbytes c ->
     (forall k, base k mod chunk = 0) ->
     (forall k k', k <> k' -> base k + SmallBufModel.mbytes c <= base k' \/ base k' + SmallBufModel.mbytes c <= base k) ->
     (forall b, C41Proofs.addr c chunk base b mod chunk = 0) /\
     (forall b, base (b / SmallBufModel.pm c) <= C41Proofs.addr c chunk base b /\
                C41Proofs.addr c chunk base b + chunk <= base (b / SmallBufModel.pm c) + SmallBufModel.mbytes c) /\
     (forall b b', b <> b' -> C41Proofs.addr c chunk base b + chunk <= C41Proofs.addr c chunk base b' \/
                              C41Proofs.addr c chunk base b' + chunk <= C41Proofs.addr c chunk base b)).
Proof. exact smallbuf_safe_proof. Qed.
Print Assumptions C11_smallbuf_blocks_exclusive.

(* ---- PoolAllocator (C42): every operation sequence, any backing allocator returning disjoint slabs: chunks lie inside
   slabs, no chunk is handed out while outstanding, the destructor frees each slab exactly once (no leak, no double free) *)
Theorem C11_poolalloc_chunks_owned_once : forall cs asz, 1 <= cs <= asz -> forall allocf : list Z -> Z,
  (forall live b, In b live -> allocf live + asz <= b \/ b + asz <= allocf live) ->
  forall ops r, PoolAllocModel.run cs asz allocf ops PoolAllocModel.rs_init = Some r ->
  (forall p, In p (PoolAllocModel.rs_out r ++ PoolAllocModel.pa_chunks (PoolAllocModel.rs_pa r)) ->
     C42Proofs.in_slab cs asz allocf (PoolAllocModel.rs_pa r) p) /\
  NoDup (PoolAllocModel.rs_out r) /\
  (forall r' p c, PoolAllocModel.step_op cs asz allocf r PoolAllocModel.Alloc = Some (r', PoolAllocModel.EvAlloc p c) ->
     ~ In p (PoolAllocModel.rs_out r)) /\
  Permutation (PoolAllocModel.dtor_calls (PoolAllocModel.rs_pa r)) (PoolAllocModel.pa_slabs (PoolAllocModel.rs_pa r)) /\
  NoDup (PoolAllocModel.pa_slabs (PoolAllocModel.rs_pa r)).
Proof. exact poolalloc_safe_proof. Qed.
Print Assumptions C11_poolalloc_chunks_owned_once.

(* ---- alignedMalloc / alignedFree (C44): for any word-aligned block ::malloc returns: the result is aligned, the recovery
   word and the user's bytes lie inside the block, and alignedFree passes exactly malloc's pointer to ::free whatever
   the user wrote into his bytes *)
Theorem C11_alignedmalloc_within_block : forall k p bytes m,
  0 <= k <= 63 -> 0 < p -> (8 | p) -> 0 <= bytes -> p + (bytes + Z.max (2 ^ k) 8) < 2 ^ 64 ->
  let a := 2 ^ k in
  let '(m', ret) := BitMathModel.alignedMalloc_m m p a in
  (a | ret) /\ p + 8 <= ret /\ ret + bytes <= p + BitMathModel.am_request bytes a /\
  (forall ws, (forall x b, In (x, b) ws -> ret <= x < ret + bytes) ->
     BitMathModel.alignedFree_m (BitMathProofs.write_all m' ws) ret = Some p).
Proof. exact alignedmalloc_safe_proof. Qed.
Print Assumptions C11_alignedmalloc_within_block.

(* ---- Future shared state (C18): all interleavings of handle copies / releases / run / wait / then: no step touches the
   state after the dealloc step, dealloc happens exactly when the count is zero, and the state is not freed under a
   thread that is inside an operation *)
Theorem C11_future_no_touch_after_dealloc : forall B c ds s, C18Proofs.wf_init B c ds ->
  reach FutureModel.step (FutureModel.init c ds) s ->
  FutureModel.bad_touch (FutureModel.sh s) = false /\
  FutureModel.freed (FutureModel.sh s) = (if FutureModel.refc (FutureModel.sh s) =? 0 then 1 else 0) /\
  (forall th, In th (FutureModel.threads s) -> FutureModel.tpc th <> FutureModel.PStart -> FutureModel.tpc th <> FutureModel.PDone ->
     FutureModel.freed (FutureModel.sh s) = 0).
Proof. exact future_safe_proof. Qed.
Print Assumptions C11_future_no_touch_after_dealloc.

(* ---- TimedTask teardown (C26 d).  At full strength -- once ~TimedTask has returned nothing accesses the freed closure --
   the statement is FALSE of the code (C26 finding dtor-passes-inprogress-spin-while-func-call-in-flight; reproduced under
   ASan as a heap-use-after-free by props/C26.py and props/C11.py).  What holds: when the destructor's successful
   inProgress load finds the scheduler role not holding a ticket, nothing ever touches the functor again *)
Theorem C11_timedtask_teardown_refuted :
  ~ (forall N npool rs prog s s', 0 <= N < 2 ^ 32 -> reach TimedTaskModel.step (TimedTaskModel.init N npool rs prog) s ->
       TimedTaskModel.dtor_ret (TimedTaskModel.g s) = true -> reach TimedTaskModel.step s s' ->
       TimedTaskModel.uaf (TimedTaskModel.g s') = 0).
Proof. exact timedtask_teardown_refuted. Qed.
Print Assumptions C11_timedtask_teardown_refuted.

Theorem C11_timedtask_teardown_holds_except : forall N npool rs prog s s',
  0 <= N < 2 ^ 32 -> reach TimedTaskModel.step (TimedTaskModel.init N npool rs prog) s ->
  TimedTaskModel.up s = TimedTaskModel.UDtorSpin -> TimedTaskModel.inprog (TimedTaskModel.m s) = 0 ->
  C26Proofs.holds_ticket (TimedTaskModel.sp s) = false -> reach TimedTaskModel.step s s' ->
  TimedTaskModel.acc (TimedTaskModel.g s') = TimedTaskModel.acc (TimedTaskModel.g s) /\
  TimedTaskModel.badcall (TimedTaskModel.g s') = TimedTaskModel.badcall (TimedTaskModel.g s).
Proof. exact timedtask_teardown_except_proof. Qed.
Print Assumptions C11_timedtask_teardown_holds_except.

(* a second closure use-after-free, without the destructor (C26_observed_false_return_frees_functor_in_use): timesToRun 2,
   two pool threads, the first invocation returns false: the wrapper's func = {} frees the closure that the scheduler role
   is executing.  Not part of any covered mechanism; reproduced under ASan (finding C26-false-return-func-uaf) *)
Theorem C11_timedtask_false_return_uaf_refuted :
  exists s, reach TimedTaskModel.step (TimedTaskModel.init 2 2 [false] []) s /\
            TimedTaskModel.dtor_ret (TimedTaskModel.g s) = false /\ 0 < TimedTaskModel.uaf (TimedTaskModel.g s).
Proof. exact timedtask_false_return_uaf_proof. Qed.
Print Assumptions C11_timedtask_false_return_uaf_refuted.

(* ---- arithmetic UB (C15, C17): staticChunkSize(ssize_t items, ssize_t chunks) as REGENERATED from the source: in C17's
   domain the divisor is non-zero and every intermediate of the signed arithmetic is representable (no division by zero,
   no signed overflow); for_each never passes a zero chunk count (the former division by zero, C15) *)
Theorem C11_chunk_arith_no_ub :
  (forall c, ForEachModel.fe_numThreads c <> 0) /\
  (forall items chunks, 0 <= items -> 0 < chunks -> items + chunks < 2 ^ 63 ->
     let ceil := Z.quot (items + chunks - 1) chunks in
     let numLeft := ceil * chunks - items in
     GenChunk.gen_staticChunkSize items chunks = (chunks - numLeft, ceil) /\
     chunks <> 0 /\
     in_ssize (items + chunks) /\ in_ssize (items + chunks - 1) /\ in_ssize ceil /\ in_ssize (ceil * chunks) /\
     in_ssize numLeft /\ in_ssize (chunks - numLeft)).
Proof. exact chunk_arith_safe_proof. Qed.
Print Assumptions C11_chunk_arith_no_ub.

(* ---- the roll-up.  C11_safe m (Proofs/C11Proofs.v) is, per mechanism, exactly the statement of the theorem above
   (for MTimedTaskTeardown: the holds_except form). *)
Definition C11_covered_mechanisms : list string := map mech_name all_mechanisms.

Theorem C11_partial : (forall m : mechanism, In m all_mechanisms) /\ (forall m : mechanism, C11_safe m).
Proof. exact (conj all_mechanisms_exhaustive partial_proof). Qed.
Print Assumptions C11_partial.

(* What is NOT proved.
   (a) C11 as stated: C11_statement_for L (Model/C11Check.v) for a semantics L of whole programs over the whole library,
       including throwing user code, cancellation and shutdown.  No such L exists in this development; nothing is claimed.
   (b) Even restricted to the modelled mechanisms the statement at full strength is false, because of TimedTask teardown: *)
Definition C11_full_statement : Prop :=
  (forall m : mechanism, C11_safe m) /\
  (forall N npool rs prog s s', 0 <= N < 2 ^ 32 -> reach TimedTaskModel.step (TimedTaskModel.init N npool rs prog) s ->
     TimedTaskModel.dtor_ret (TimedTaskModel.g s) = true -> reach TimedTaskModel.step s s' ->
     TimedTaskModel.uaf (TimedTaskModel.g s') = 0).

Theorem C11_refuted : ~ C11_full_statement.
Proof. exact modelled_full_refuted. Qed.
Print Assumptions C11_refuted.

(* parts of the library for which no memory-safety statement can even be written here (Model/C11Check.v) *)
Definition C11_not_covered : list string := not_covered_names.

(* the sanitizer judge (search ladder step 5): clean exactly when there is no report; a suppressed report is a
   use-after-free of a TimedTask case that C26's own judge placed inside one of its finding domains *)
Theorem C11_judge_clean_iff_no_report : forall r, judge_san r = 0 <-> snd (fst r) = 0.
Proof. exact judge_san_clean_iff. Qed.
Print Assumptions C11_judge_clean_iff_no_report.

Theorem C11_judge_suppression_within_c26_domains : forall r, judge_san r = 4 \/ judge_san r = 5 ->
  fst (fst r) = H_TIMEDTASK /\ snd (fst r) = K_UAF /\ (Z.testbit (snd r) 1 = true \/ Z.testbit (snd r) 3 = true).
Proof. exact judge_san_known_sound. Qed.
Print Assumptions C11_judge_suppression_within_c26_domains.

(* the hypotheses are satisfiable / the definitions compute: an OpResult program over three variables with copies, moves of
   engaged values and assignments that ends with everything destroyed (9 constructions, 9 destructions, no misuse); the
   staticChunkSize arithmetic on a concrete input; the judge on one record of each class *)
Example C11_nonvacuous :
  (let ops := [OpResultModel.OValueMove 0 5; OpResultModel.OCopy 1 0; OpResultModel.OMove 2 1; OpResultModel.OMoveAssign 1 2;
               OpResultModel.OCopyAssign 2 0; OpResultModel.OEmplace 1 9; OpResultModel.OPoke 1 4; OpResultModel.OCopyAssign 0 1;
               OpResultModel.OMoveAssign 2 0; OpResultModel.ODestroy 0; OpResultModel.ODestroy 1; OpResultModel.ODestroy 2] in
   option_map (fun s => (okb (OpResultModel.st_led s), OpResultModel.all_gone (OpResultModel.st_vars s),
                         n_ctor (OpResultModel.st_led s), n_dtor (OpResultModel.st_led s), live_count (OpResultModel.st_led s)))
              (OpResultModel.run (OpResultModel.init 3) ops) = Some (true, true, 9, 9, 0)) /\
  GenChunk.gen_staticChunkSize 10 4 = (2, 3) /\
  map judge_san [(1, 0, 0); (4, 1, 0); (6, 7, 0); (11, 2, 2); (11, 2, 8); (11, 2, 12); (11, 2, 4); (11, 2, 1); (11, 1, 2); (3, 2, 2)] = [0; 2; 2; 4; 5; 5; 2; 2; 2; 2] /\
  List.length C11_covered_mechanisms = 15%nat.
Proof. vm_compute. repeat split; reflexivity. Qed.
