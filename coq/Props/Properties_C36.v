(* C36 -- ChaseLevDeque delivers each element exactly once.
   Statements only.  Model: Model/ChaseLevModel.v -- try_push / try_pop (owner = thread 0) and try_steal (any thread) of
   dispenso/chase_lev_deque.h exactly as written, one step per atomic access of top_/bottom_ and per slot access; one owner,
   ANY number of thieves, ANY schedule, ANY power-of-two capacity, any initial index.
   MEMORY MODEL: sequentially consistent interleaving; the two seq_cst fences are no-ops in it.  Correctness under the C++
   weak memory model hinges on exactly those fences and is NOT shown here.
   Tie: lockstep under harness/vsched.h (props/C36.py, harness/h_chaselev.cpp, Model/C36Check.v). *)
From Coq Require Import ZArith List Bool Permutation.
From DV Require Import Base.MachInt Base.Sched Model.ChaseLevModel Proofs.ChaseLevLemmas Proofs.C36Proofs.
Import ListNotations.
Local Open Scope Z_scope.

(* pushed s   = values of the owner's successful try_push calls so far,
   returned s = values returned by successful try_pop / try_steal calls of all threads so far,
   content s  = slots[top .. bottom') oldest first, bottom' = bottom_ (+1 while the owner has decremented bottom_ for a pop
                that has not completed); in a quiescent state exactly slots[top_ .. bottom_)  (C36_quiescent_content). *)

(* exactly once, as multisets (values need not be distinct): in EVERY reachable state, pushed = returned + still inside *)
Theorem C36_cl_exactly_once : forall cp i0 oprog tprogs s,
  pow2cap cp -> wf_thieves tprogs -> reach step (init cp i0 oprog tprogs) s ->
  Permutation (pushed s) (returned s ++ content s).
Proof. exact cl_exactly_once. Qed.
Print Assumptions C36_cl_exactly_once.

(* with tagged (distinct) elements: no element is returned twice or returned and still inside; exactly the pushed ones appear *)
Theorem C36_cl_no_duplicates : forall cp i0 oprog tprogs s,
  pow2cap cp -> wf_thieves tprogs -> reach step (init cp i0 oprog tprogs) s ->
  NoDup (pushed s) -> NoDup (returned s ++ content s) /\ (forall v, In v (returned s ++ content s) <-> In v (pushed s)).
Proof. exact cl_no_duplicates. Qed.
Print Assumptions C36_cl_no_duplicates.

Theorem C36_quiescent_content : forall s, quiescent s = true -> content s = cont (top s) (bot s) (slots s) (cap s).
Proof. exact quiescent_content. Qed.
Print Assumptions C36_quiescent_content.

(* the content is kept in push order (a subsequence of the chronological list of successful pushes) ... *)
Theorem C36_content_in_push_order : forall cp i0 oprog tprogs s,
  pow2cap cp -> wf_thieves tprogs -> reach step (init cp i0 oprog tprogs) s -> sublist (content s) (rev (pushed s)).
Proof. exact cl_content_in_push_order. Qed.
Print Assumptions C36_content_in_push_order.

(* ... a successful owner pop removes its LAST (newest) element -- including the last-element CAS path ... *)
Theorem C36_owner_pop_newest : forall cp i0 oprog tprogs s ch s' ch' site v,
  pow2cap cp -> wf_thieves tprogs -> reach step (init cp i0 oprog tprogs) s ->
  step s 0 ch = Some (s', ch', site) -> res (owner s') = (RPopOk, v) :: res (owner s) ->
  content s = content s' ++ [v].
Proof. exact owner_pop_newest. Qed.
Print Assumptions C36_owner_pop_newest.

(* ... and a successful steal by any thread removes its FIRST (oldest) element *)
Theorem C36_steal_oldest : forall cp i0 oprog tprogs s t ch s' ch' site th th' v,
  pow2cap cp -> wf_thieves tprogs -> reach step (init cp i0 oprog tprogs) s ->
  step s t ch = Some (s', ch', site) -> thr s t = Some th -> thr s' t = Some th' -> res th' = (RStealOk, v) :: res th ->
  content s = v :: content s'.
Proof. exact steal_oldest. Qed.
Print Assumptions C36_steal_oldest.

Theorem C36_push_appends : forall cp i0 oprog tprogs s ch s' ch' site v,
  pow2cap cp -> wf_thieves tprogs -> reach step (init cp i0 oprog tprogs) s ->
  step s 0 ch = Some (s', ch', site) -> res (owner s') = (RPushOk, v) :: res (owner s) ->
  content s' = content s ++ [v].
Proof. exact push_appends. Qed.
Print Assumptions C36_push_appends.

(* every other step (intermediate accesses, failed operations, lost CAS races) leaves the content unchanged *)
Theorem C36_other_steps_keep_content : forall cp i0 oprog tprogs s t ch s' ch' site th th',
  pow2cap cp -> wf_thieves tprogs -> reach step (init cp i0 oprog tprogs) s ->
  step s t ch = Some (s', ch', site) -> thr s t = Some th -> thr s' t = Some th' ->
  (forall v, res th' <> (RPushOk, v) :: res th /\ res th' <> (RPopOk, v) :: res th /\ res th' <> (RStealOk, v) :: res th) ->
  content s' = content s.
Proof. exact other_steps_keep_content. Qed.
Print Assumptions C36_other_steps_keep_content.

(* never more than Capacity elements, logically and as bottom_ - top_ (which may transiently be -1 during a pop on empty) *)
Theorem C36_cl_bounded : forall cp i0 oprog tprogs s,
  pow2cap cp -> wf_thieves tprogs -> reach step (init cp i0 oprog tprogs) s ->
  Z.of_nat (length (content s)) <= cap s /\ bot s - top s <= cap s /\ top s <= bot s + 1.
Proof. exact cl_bounded. Qed.
Print Assumptions C36_cl_bounded.

(* quiescent state (no operation in flight): try_pop run to completion succeeds iff the deque is non-empty (and returns the newest) *)
Theorem C36_quiescent_pop_iff_nonempty : forall s,
  Inv s -> quiescent s = true -> tpc (owner s) = PPopLoadB ->
  exists n s' g v, solo n s 0 = Some s' /\ res (owner s') = (g, v) :: res (owner s) /\ at_entry (owner s') = true /\
    (g = RPopOk <-> content s <> []) /\
    ((g = RPopOk /\ content s = content s' ++ [v]) \/ (g = RPopFail /\ content s = [] /\ content s' = [])).
Proof. exact quiescent_pop_iff_nonempty. Qed.
Print Assumptions C36_quiescent_pop_iff_nonempty.

(* ... and try_steal by any thread succeeds iff the deque is non-empty (and returns the oldest) *)
Theorem C36_quiescent_steal_iff_nonempty : forall s t th,
  Inv s -> quiescent s = true -> thr s t = Some th -> tpc th = PStealLoadT ->
  exists n s' th' g v, solo n s t = Some s' /\ thr s' t = Some th' /\ res th' = (g, v) :: res th /\ at_entry th' = true /\
    (g = RStealOk <-> content s <> []) /\
    ((g = RStealOk /\ content s = v :: content s') \/ (g = RStealFail /\ content s = [] /\ content s' = [])).
Proof. exact quiescent_steal_iff_nonempty. Qed.
Print Assumptions C36_quiescent_steal_iff_nonempty.

(* Inv (the hypothesis of the two theorems above) holds in every reachable state *)
Theorem C36_invariant : forall cp i0 oprog tprogs s,
  pow2cap cp -> wf_thieves tprogs -> reach step (init cp i0 oprog tprogs) s -> Inv s.
Proof. exact cl_invariant. Qed.
Print Assumptions C36_invariant.

(* every state the executable scheduler visits is reachable, so the theorems apply to the runs compared with the real code *)
Theorem C36_run_reach : forall fuel cp i0 oprog tprogs sched,
  reach step (init cp i0 oprog tprogs) (fst (fst (run_cl fuel cp i0 oprog tprogs sched))).
Proof. exact cl_run_reach. Qed.
Print Assumptions C36_run_reach.

(* the last-element race, both outcomes, as concrete schedules (one element, owner pops while a thief steals):
   A: the thief's CAS comes first -> steal returns 7, the owner's CAS fails;  B: the owner's CAS comes first *)
Example C36_last_element_race_thief_wins :
  let '(s, _, st) := run_cl 40 4 0 [OPush 7; OPop] [[OSteal]] [0;0;0;0;0; 0;0;0;0;0; 1;1;1;1;1; 0] in
  st = SDone /\ res (owner s) = [(RPopFail, 0); (RPushOk, 7)] /\ map res (thieves s) = [[(RStealOk, 7)]] /\
  returned s = [7] /\ content s = [].
Proof. vm_compute. repeat split; reflexivity. Qed.

Example C36_last_element_race_owner_wins :
  let '(s, _, st) := run_cl 40 4 0 [OPush 7; OPop] [[OSteal]] [0;0;0;0;0; 1;1;1;1; 0;0;0;0;0;0; 0] in
  st = SDone /\ res (owner s) = [(RPopOk, 7); (RPushOk, 7)] /\ map res (thieves s) = [[(RStealFail, 0)]] /\
  returned s = [7] /\ content s = [].
Proof. vm_compute. repeat split; reflexivity. Qed.

(* non-vacuity: capacity 2 started at index -1 (wrap-around of the masked index), 2 thieves; the run completes, one push was
   refused (full), every pushed element was delivered exactly once or is still inside *)
Example C36_nonvacuous :
  pow2cap 2 /\ wf_thieves [[OSteal; OSteal]; [OSteal]] /\
  let '(s, _, st) := run_cl 200 2 (-1) [OPush 1; OPush 2; OPush 3; OPop; OPush 4; OPop; OPop] [[OSteal; OSteal]; [OSteal]]
                       [0;0;0;0;0;0;0;0;0;1;1;2;2;2;0;0;0;0;1;1;1;0;0;0;0;2;2;0;0;0;0;0;0;0;0;0;0;0;0;0;0;0;0;0;0;0;0;0;0;0;0;0;0;0;0;0;0;0;0;0;0;0;0;0;0;0;0] in
  st = SDone /\ pushed s = [4; 2; 1] /\ returned s = [4; 2; 1] /\ content s = [] /\
  res (owner s) = [(RPopFail, 0); (RPopOk, 4); (RPushOk, 4); (RPopOk, 2); (RPushFull, 3); (RPushOk, 2); (RPushOk, 1)] /\
  map res (thieves s) = [[(RStealFail, 0); (RStealOk, 1)]; [(RStealFail, 0)]].
Proof.
  split; [exists 1; split; [discriminate | reflexivity]|]. split; [repeat constructor|].
  vm_compute. repeat split; reflexivity.
Qed.
