(* C21 -- CompletionEvent and Latch waits never miss a wake-up.
   Statements only.  Model: Model/EventModel.v (one step = one atomic access / futex call of
   detail::CompletionEventImpl, CompletionEvent, Latch; any number of threads; any schedule; futex semantics:
   compare-and-block, wake-all).  Tie: lockstep under harness/vsched.h (props/C21.py). *)
From Coq Require Import ZArith List Bool.
From DV Require Import Base.MachInt Base.Sched Model.EventModel Proofs.C21Proofs.
Import ListNotations.
Local Open Scope Z_scope.

(* Full statement: for every program over the public operations (CompletionEvent programs with target 1, Latch programs with
   target 0; count_down with ANY n), any number of threads, every schedule, with or without timed waits timing out:
   no reachable state has a waiter asleep in the futex while the word holds the value it waits for and nobody is about to wake.
   (Before the repair "fix: Latch::count_down(n) ..." in /repo this was refuted by Latch l(3); wait(); count_down(3) --
   see known_findings.json, entry fixed: property=C21.) *)
Theorem C21_no_lost_wakeup : forall tgt w0 tm progs s,
  in32 w0 -> Forall (Forall (wf_op tgt)) progs -> reach step (init w0 tm progs) s ->
  (forall th, In th (threads s) -> ~ is_pending th) ->
  forall th, In th (threads s) -> is_blocked th -> word s <> tgt.
Proof. exact quiescent_not_lost. Qed.
Print Assumptions C21_no_lost_wakeup.

(* the former refutation witness now completes *)
Theorem C21_former_witness_completes :
  let '(s, tr, st) := run_event 20 3 false [[OWait 0]; [OCountDown 3]] [0; 0; 0; 1; 1; 0; 0; 0; 0; 0; 0; 0; 0; 0; 0] in
  st = SDone /\ word s = 0.
Proof. exact former_witness_completes. Qed.
Print Assumptions C21_former_witness_completes.

(* stronger, state by state: a sleeping waiter + completed word implies a committed wake-all *)
Theorem C21_wake_pending_invariant : forall tgt w0 tm progs s,
  in32 w0 -> Forall (Forall (wf_op tgt)) progs -> reach step (init w0 tm progs) s -> Inv tgt s.
Proof. exact no_lost_wakeup. Qed.
Print Assumptions C21_wake_pending_invariant.

Theorem C21_blocked_waits_for_target : forall tgt w0 tm progs s th v b,
  in32 w0 -> Forall (Forall (wf_op tgt)) progs -> reach step (init w0 tm progs) s ->
  In th (threads s) -> tpc th = PBlocked v b -> v = tgt.
Proof. exact blocked_waits_for_tgt. Qed.
Print Assumptions C21_blocked_waits_for_target.

(* safety half: wait(v) leaves its loop only at a load that read v *)
Theorem C21_wait_returns_only_when_complete : forall s t ch s' ch' site th v kind,
  nth_error (threads s) t = Some th -> tpc th = PWaitLoad v kind ->
  step s t ch = Some (s', ch', site) ->
  forall th', nth_error (threads s') t = Some th' ->
  (exists b, tpc th' = PWaitFutex v (word s) b) \/ word s = v.
Proof. exact wait_returns_only_when_complete. Qed.
Print Assumptions C21_wait_returns_only_when_complete.

(* every state the executable scheduler visits is reachable, so the theorems apply to the runs compared with the real code *)
Theorem C21_run_reach : forall fuel w0 tm progs sched,
  reach step (init w0 tm progs) (fst (fst (run_event fuel w0 tm progs sched))).
Proof. intros. apply run_reach. apply reach_refl. Qed.
Print Assumptions C21_run_reach.

(* non-vacuity: a 3-thread latch program in the domain whose run ends with every waiter released *)
Example C21_nonvacuous :
  Forall (Forall (wf_op 0)) [[OWait 0]; [OCountDown 2]; [OArrive]] /\
  snd (run_event 60 3 false [[OWait 0]; [OCountDown 2]; [OArrive]]
         [0;0;0;1;1;1;2;2;0;0;0;0;0;0;0;0;0;0;0;0;0;0;0;0;0;0;0;0;0;0]) = SDone.
Proof.
  split; [|vm_compute; reflexivity].
  repeat constructor.
Qed.
