(* C21 -- CompletionEvent and Latch waits never miss a wake-up.
   Statements only.  Model: Model/EventModel.v (one step = one atomic access / futex call of
   detail::CompletionEventImpl, CompletionEvent, Latch; any number of threads; any schedule; futex semantics:
   compare-and-block, wake-all).  Tie: lockstep under harness/vsched.h (props/C21.py). *)
From Coq Require Import ZArith List Bool.
From DV Require Import Base.MachInt Base.Sched Model.EventModel Proofs.C21Proofs.
Import ListNotations.
Local Open Scope Z_scope.

(* The full statement one would like: for every program over the public operations, every schedule: no reachable
   state has a waiter asleep in the futex while the word holds the value it waits for and nobody is about to wake. *)
Definition C21_full_statement : Prop :=
  forall tgt w0 tm progs s, in32 w0 ->
    Forall (Forall (fun o => match o with OCountDown _ => tgt = 0 | ONotify v => in32 v | OWait v | OWaitFor v _ => v = tgt
                                      | OArrive => tgt = 0 | OReset => tgt <> 0 | _ => True end)) progs ->
    reach step (init w0 tm progs) s ->
    (forall th, In th (threads s) -> ~ is_pending th) ->
    forall th, In th (threads s) -> is_blocked th -> word s <> tgt.

(* It is FALSE of the code as written: Latch::count_down(n) notifies only when the previous value is exactly 1. *)
Theorem C21_refuted :
  exists s, reach step (init 3 false [[OWait 0]; [OCountDown 3]]) s /\ word s = 0 /\
            (forall th, In th (threads s) -> ~ is_pending th) /\
            (exists th, In th (threads s) /\ tpc th = PBlocked 0 0).
Proof. exact refuted_reach. Qed.
Print Assumptions C21_refuted.

(* It HOLDS on the complement of that finding's domain: all programs whose count_down calls use n = 1
   (wf_op: CompletionEvent programs with tgt = 1, Latch programs with tgt = 0), any number of threads, all schedules,
   with or without timed waits timing out. *)
Theorem C21_holds_except : forall tgt w0 tm progs s,
  in32 w0 -> Forall (Forall (wf_op tgt)) progs -> reach step (init w0 tm progs) s ->
  (forall th, In th (threads s) -> ~ is_pending th) ->
  forall th, In th (threads s) -> is_blocked th -> word s <> tgt.
Proof. exact quiescent_not_lost. Qed.
Print Assumptions C21_holds_except.

(* stronger, state by state: a sleeping waiter + completed word implies a committed wake-all *)
Theorem C21_wake_pending_invariant : forall tgt w0 tm progs s,
  in32 w0 -> Forall (Forall (wf_op tgt)) progs -> reach step (init w0 tm progs) s -> Inv tgt s.
Proof. exact no_lost_wakeup. Qed.
Print Assumptions C21_wake_pending_invariant.

Theorem C21_blocked_waits_for_target : forall tgt w0 tm progs s th v b,
  in32 w0 -> Forall (Forall (wf_op tgt)) progs -> reach step (init w0 tm progs) s ->
  In th (threads s) -> tpc th = PBlocked v b -> v = tgt.
Proof. exact blocked_waits_for_tgt. Qed.
Print Assumptions C21_blocked_waits_for_target.

(* safety half: wait(v) leaves its loop only at a load that read v *)
Theorem C21_wait_returns_only_when_complete : forall s t ch s' ch' site th v kind,
  nth_error (threads s) t = Some th -> tpc th = PWaitLoad v kind ->
  step s t ch = Some (s', ch', site) ->
  forall th', nth_error (threads s') t = Some th' ->
  (exists b, tpc th' = PWaitFutex v (word s) b) \/ word s = v.
Proof. exact wait_returns_only_when_complete. Qed.
Print Assumptions C21_wait_returns_only_when_complete.

(* every state the executable scheduler visits is reachable, so the theorems apply to the runs compared with the real code *)
Theorem C21_run_reach : forall fuel w0 tm progs sched,
  reach step (init w0 tm progs) (fst (fst (run_event fuel w0 tm progs sched))).
Proof. intros. apply run_reach. apply reach_refl. Qed.
Print Assumptions C21_run_reach.

(* non-vacuity: a 3-thread latch program in the domain whose run ends with every waiter released *)
Example C21_nonvacuous :
  Forall (Forall (wf_op 0)) [[OWait 0]; [OCountDown 1; OCountDown 1]; [OArrive]] /\
  snd (run_event 60 3 false [[OWait 0]; [OCountDown 1; OCountDown 1]; [OArrive]]
         [0;0;0;1;1;1;2;2;0;0;0;0;0;0;0;0;0;0;0;0;0;0;0;0;0;0;0;0;0;0]) = SDone.
Proof.
  split; [|vm_compute; reflexivity].
  repeat constructor.
Qed.
