(* C26 -- TimedTask run count, cancellation and teardown.   Statements only.
   Model: Model/TimedTaskModel.v -- one timed task; tid 0 = scheduler role (run-loop pick, kickOffTask, the lambda stored
   in TimedTaskImpl::func), tid 1 = user thread owning the TimedTask handle (any program over cancel / detach / calls /
   ~TimedTask), tid 2.. = any number of pool threads running the `wrap` closures; one step per atomic access of
   TimedTaskImpl and per access of the func cell; ghost counters: tickets (fetch_sub results >= 1), starts (invocations
   of the functor), acc (closure accesses), uaf (closure accesses after func = {}), badcall (calls of the emptied func).
   Clock layer: the run loop may pick the task only when nextAbsTime - now < eps (eps = kSmallTimeBuffer).
   Tie: lockstep under harness/vsched.h + native one-sided timing (props/C26.py). *)
From Coq Require Import ZArith List Bool.
From DV Require Import Base.MachInt Base.Sched Model.TimedTaskModel Proofs.C26Proofs.
Import ListNotations.
Local Open Scope Z_scope.

(* The property at full strength, clause by clause, over all schedules: *)
Definition C26_full_statement : Prop :=
  forall N npool rs prog s, 0 <= N < 2 ^ 32 -> reach step (init N npool rs prog) s ->
    (* (a) at most timesToRun invocations *)
    starts (g s) <= N /\
    forall s', reach step s s' ->
      (* (a') none that starts after an invocation returned false *)
      (false_ret (g s) = true -> starts (g s') = starts (g s)) /\
      (* (c) none that starts after cancel() returned *)
      (cancel_ret (g s) = true -> starts (g s') = starts (g s)) /\
      (* (d) after the destructor returned nothing touches the functor: no closure access, no invocation, no call of func *)
      (dtor_ret (g s) = true -> touches s' = touches s).
(* (b) "never before its first scheduled time" lives in the clock layer: C26_not_before_first_time_minus_eps below. *)

(* ---- (a) run count: invocations <= tickets handed out by fetch_sub <= timesToRun, in every reachable state ---- *)
Theorem C26_at_most_timesToRun : forall N, 0 <= N < 2 ^ 32 -> forall npool rs prog s,
  reach step (init N npool rs prog) s ->
  0 <= starts (g s) <= tickets (g s) /\ tickets (g s) <= N.
Proof. exact at_most_timesToRun. Qed.
Print Assumptions C26_at_most_timesToRun.

(* once ANY store of 0 to timesToRun has executed (cancel(), the destructor's cancel, a false return) fetch_sub hands out
   no further ticket; the invocations that can still start are bounded by the tickets already taken *)
Theorem C26_no_ticket_after_zero_store : forall N, 0 <= N < 2 ^ 32 -> forall npool rs prog s s',
  reach step (init N npool rs prog) s -> zeroed (g s) = true -> reach step s s' ->
  tickets (g s') = tickets (g s) /\ starts (g s') <= tickets (g s).
Proof. exact no_ticket_after_zero_store. Qed.
Print Assumptions C26_no_ticket_after_zero_store.

(* ---- (b) timing, with eps = kSmallTimeBuffer: in every clocked run (any interleaving of clock ticks and thread steps)
   every invocation starts later than firstTime - eps.  Firing up to eps EARLY is possible by design (the run loop and
   addTimedTask fire when timeRemaining < eps): an observation, not an alarm. ---- *)
Theorem C26_not_before_first_time_minus_eps : forall eps period steady N first npool rs prog,
  0 <= N < 2 ^ 32 -> forall t0 evs s,
  crun eps period steady (cinit t0 first N npool rs prog) evs = Some s ->
  Forall (fun t => first - eps < t) (tlog s).
Proof. exact not_before_first_time_minus_eps. Qed.
Print Assumptions C26_not_before_first_time_minus_eps.

(* observation (not an alarm): the bound is tight -- with eps = 10 us the run loop does fire 9.999 us before the scheduled time *)
Theorem C26_observed_fires_eps_early :
  match crun 10000 0 false (cinit 990001 1000000 1 1 [] []) we_evs with
  | Some s => tlog s = [1000000 - 10000 + 1] /\ starts (g (base s)) = 1
  | None => False
  end.
Proof. exact eps_early_possible. Qed.
Print Assumptions C26_observed_fires_eps_early.

Theorem C26_clocked_refines_untimed : forall eps period steady s t s',
  cstep eps period steady s (Thr t) = Some s' -> exists ch' site, step (base s) t [] = Some (base s', ch', site).
Proof. exact clocked_refines_untimed. Qed.
Print Assumptions C26_clocked_refines_untimed.

(* ---- (c) cancellation.  From ANY state in which the cancelled bit is set, the invocations that can still start are
   exactly bounded by the wrappers that are between their flag load and f() at that moment ---- *)
Theorem C26_starts_bounded_after_cancelled_bit : forall s s',
  fcanc (m s) = true -> reach step s s' ->
  starts (g s) <= starts (g s') <= starts (g s) + cnt atcall (pool s).
Proof. exact starts_bounded_after_cancelled. Qed.
Print Assumptions C26_starts_bounded_after_cancelled_bit.

(* "never starts after cancel() has returned" is FALSE of the code as written ... *)
Theorem C26_refuted_cancel :
  exists s s', reach step (init 1 1 [] [UCancel]) s /\ cancel_ret (g s) = true /\ up s = UDone /\
               reach step s s' /\ starts (g s) < starts (g s').
Proof. exact refuted_cancel. Qed.
Print Assumptions C26_refuted_cancel.

(* ... and holds on the complement of that window: no wrapper between its flag load and f() when cancel() returns *)
Theorem C26_holds_except_cancel : forall N npool rs prog s s',
  0 <= N < 2 ^ 32 -> reach step (init N npool rs prog) s ->
  cancel_ret (g s) = true -> wrapper_in_window s = false -> reach step s s' -> starts (g s') = starts (g s).
Proof. exact no_start_after_cancel_except. Qed.
Print Assumptions C26_holds_except_cancel.

(* the same window after an invocation returned false (needs two pool threads: overlapping invocations) *)
Theorem C26_refuted_false :
  exists s s', reach step (init 2 2 [false] []) s /\ false_ret (g s) = true /\ reach step s s' /\ starts (g s) < starts (g s').
Proof. exact refuted_false. Qed.
Print Assumptions C26_refuted_false.

Theorem C26_holds_except_false : forall s s',
  false_ret (g s) = true -> fcanc (m s) = true -> wrapper_in_window s = false -> reach step s s' ->
  starts (g s') = starts (g s).
Proof. exact no_start_after_false_except. Qed.
Print Assumptions C26_holds_except_false.

(* ---- (d) teardown.  "The destructor returns only when no invocation is in progress and none can start" -- and nothing
   touches the functor afterwards -- is FALSE of the code as written: the destructor's inProgress == 0 spin passes while
   the scheduler role is between func's cancelled-check and inProgress++; func = {} then frees the closure that thread is
   executing, and the thread goes on to read it (use-after-free: uaf > 0). ---- *)
Theorem C26_refuted_dtor :
  exists s s', reach step (init 1 1 [] [UDtor]) s /\ dtor_ret (g s) = true /\ up s = UDone /\
               reach step s s' /\ acc (g s) < acc (g s') /\ 0 < uaf (g s').
Proof. exact refuted_dtor. Qed.
Print Assumptions C26_refuted_dtor.

(* It holds on the complement of that finding's domain: when the destructor's successful inProgress load (state s) finds
   the scheduler role NOT holding a ticket (not between a fetch_sub that returned >= 1 and the end of the call of func),
   then from that moment on nothing ever touches the functor: no closure access, no invocation, no call of the emptied func. *)
Theorem C26_holds_except_dtor : forall N npool rs prog s s',
  0 <= N < 2 ^ 32 -> reach step (init N npool rs prog) s ->
  up s = UDtorSpin -> inprog (m s) = 0 -> holds_ticket (sp s) = false ->
  reach step s s' -> touches s' = touches s.
Proof. exact dtor_quiescent_except_b. Qed.
Print Assumptions C26_holds_except_dtor.

(* the inProgress counter is exact: it counts the wrappers handed to the pool and not yet finished (so the spin does
   wait for every wrapper, including one that is between its flag load and f()) *)
Theorem C26_inprogress_exact : forall N npool rs prog s,
  0 <= N < 2 ^ 32 -> reach step (init N npool rs prog) s ->
  inprog (m s) = q (m s) + cnt inwrap (pool s) + insched (sp s).
Proof. exact inprogress_exact. Qed.
Print Assumptions C26_inprogress_exact.

(* the property at full strength is therefore false *)
Theorem C26_full_statement_false : ~ C26_full_statement.
Proof. exact full_statement_false. Qed.
Print Assumptions C26_full_statement_false.

(* ---- observations beyond the property text (reported, not part of the verdict) ---- *)
(* after a false return the wrapper's func = {} frees the functor while another wrapper is about to call it *)
Theorem C26_observed_false_return_frees_functor_in_use :
  exists s, reach step (init 2 2 [false] []) s /\ dtor_ret (g s) = false /\ cancel_ret (g s) = false /\ 0 < uaf (g s).
Proof. exact observed_false_return_frees_functor_in_use. Qed.
Print Assumptions C26_observed_false_return_frees_functor_in_use.

(* the scheduler role can call the emptied func: std::bad_function_call on the scheduler thread *)
Theorem C26_observed_bad_function_call :
  exists s, reach step (init 1 1 [] [UDtor]) s /\ dtor_ret (g s) = true /\ 0 < badcall (g s).
Proof. exact observed_bad_function_call. Qed.
Print Assumptions C26_observed_bad_function_call.

(* every state the executable scheduler visits is reachable, so the theorems apply to the runs compared with the real code *)
Theorem C26_run_reach : forall fuel n npool rs prog sched,
  reach step (init n npool rs prog) (fst (fst (run_tt fuel n npool rs prog sched))).
Proof. intros. apply run_reach. apply reach_refl. Qed.
Print Assumptions C26_run_reach.

(* non-vacuity: 3 runs on 2 pool threads, the user reads calls() = 3 and destroys the handle after everything ran *)
Example C26_nonvacuous :
  let '(s, tr, st) := run_tt 60 3 2 [] [UCalls; UDtor] nv_sched in
  st = SDone /\ starts (g s) = 3 /\ count (m s) = 3 /\ tickets (g s) = 3 /\ uaf (g s) = 0 /\ dtor_ret (g s) = true /\
  ures s = [(r_calls, 3)].
Proof. exact nonvacuous_run. Qed.
