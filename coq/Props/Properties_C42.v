(* C42 -- PoolAllocator hands out exclusive chunks within its slabs.
   Statements only; every proof is `exact` of a lemma from Proofs/C42Proofs.v.
   Model: Model/PoolAllocModel.v (PoolAllocatorT as written in dispenso/pool_allocator.cpp; vectors = lists with
   back = last element; allocFunc_ = oracle [allocf] applied to the slabs obtained so far).
   Quantification: all chunkSize/allocSize with 1 <= chunkSize <= allocSize, all oracles returning a block
   disjoint from the live ones, all valid client histories [ops] (Alloc | Dealloc of an outstanding chunk | Clear;
   [run] returns None on an invalid history).  [rs_out r] = outstanding chunks (handed out, not dealloc'd, not
   invalidated by clear), [pa_chunks] = the allocator's free list, [pa_slabs] = ledger of allocFunc_ results. *)
From Coq Require Import ZArith List Bool Lia Permutation.
From DV Require Import Base.MachInt Base.Sched Model.PoolAllocModel Model.C42Check Proofs.C42Proofs.
Import ListNotations.
Local Open Scope Z_scope.

(* every outstanding or free chunk, and every chunk returned by alloc(), lies inside a slab that allocFunc_ returned:
   in_slab st p := exists k b, nth_error (pa_slabs st) k = Some b /\ b = allocf (firstn k (pa_slabs st)) /\
                               b <= p /\ p + cs <= b + asz *)
Theorem C42_chunks_within_slabs : forall cs asz, 1 <= cs <= asz -> forall allocf : list Z -> Z,
  (forall live b, In b live -> allocf live + asz <= b \/ b + asz <= allocf live) ->
  forall ops r, run cs asz allocf ops rs_init = Some r ->
  (forall p, In p (rs_out r ++ pa_chunks (rs_pa r)) -> in_slab cs asz allocf (rs_pa r) p) /\
  (forall r' p c, step_op cs asz allocf r Alloc = Some (r', EvAlloc p c) -> in_slab cs asz allocf (rs_pa r') p).
Proof. exact within_proof. Qed.
Print Assumptions C42_chunks_within_slabs.

(* any two distinct positions among (outstanding ++ free list) hold byte-disjoint chunks; in particular
   outstanding chunks never overlap and no chunk is both outstanding and free *)
Theorem C42_chunks_disjoint : forall cs asz, 1 <= cs <= asz -> forall allocf : list Z -> Z,
  (forall live b, In b live -> allocf live + asz <= b \/ b + asz <= allocf live) ->
  forall ops r, run cs asz allocf ops rs_init = Some r ->
  forall i j p q, i <> j ->
    nth_error (rs_out r ++ pa_chunks (rs_pa r)) i = Some p ->
    nth_error (rs_out r ++ pa_chunks (rs_pa r)) j = Some q ->
    p + cs <= q \/ q + cs <= p.
Proof. exact disjoint_proof. Qed.
Print Assumptions C42_chunks_disjoint.

(* a chunk is never handed out while it is outstanding (nor left on the free list after being handed out) *)
Theorem C42_no_double_handout : forall cs asz, 1 <= cs <= asz -> forall allocf : list Z -> Z,
  (forall live b, In b live -> allocf live + asz <= b \/ b + asz <= allocf live) ->
  forall ops r, run cs asz allocf ops rs_init = Some r ->
  NoDup (rs_out r) /\
  forall r' p c, step_op cs asz allocf r Alloc = Some (r', EvAlloc p c) ->
    ~ In p (rs_out r) /\ ~ In p (pa_chunks (rs_pa r')).
Proof. exact no_double_proof. Qed.
Print Assumptions C42_no_double_handout.

(* allocFunc_ is called only when nothing can be reused: backingAllocs2_ (the slabs parked by clear()) and the free
   list are empty, every slab ever obtained is in backingAllocs_, and every chunk of every slab is outstanding
   (outstanding count = totalChunkCapacity()) *)
Theorem C42_clear_reuses_before_alloc : forall cs asz, 1 <= cs <= asz -> forall allocf : list Z -> Z,
  (forall live b, In b live -> allocf live + asz <= b \/ b + asz <= allocf live) ->
  forall ops r, run cs asz allocf ops rs_init = Some r ->
  forall r' p, step_op cs asz allocf r Alloc = Some (r', EvAlloc p true) ->
    pa_backing2 (rs_pa r) = [] /\ pa_chunks (rs_pa r) = [] /\
    Permutation (pa_backing (rs_pa r)) (pa_slabs (rs_pa r)) /\
    Permutation (rs_out r) (flat_map (positions cs asz) (pa_slabs (rs_pa r))) /\
    Z.of_nat (length (rs_out r)) = capacity cs asz (rs_pa r).
Proof. exact reuse_proof. Qed.
Print Assumptions C42_clear_reuses_before_alloc.

(* quantitative form: after clear() with m slabs, any k <= m * chunksPerAlloc consecutive alloc() calls succeed
   without a single allocFunc_ call *)
Theorem C42_after_clear_no_allocfunc : forall cs asz, 1 <= cs <= asz -> forall allocf : list Z -> Z,
  (forall live b, In b live -> allocf live + asz <= b \/ b + asz <= allocf live) ->
  forall ops r, run cs asz allocf ops rs_init = Some r ->
  forall k, (k <= length (pa_slabs (rs_pa r)) * Z.to_nat (cpa cs asz))%nat ->
  exists r', run cs asz allocf (Clear :: repeat Alloc k) r = Some r' /\
    pa_slabs (rs_pa r') = pa_slabs (rs_pa r) /\ pa_ncalls (rs_pa r') = pa_ncalls (rs_pa r) /\
    length (rs_out r') = k.
Proof. exact after_clear_proof. Qed.
Print Assumptions C42_after_clear_no_allocfunc.

(* the destructor passes every slab obtained from allocFunc_ to deallocFunc_ exactly once *)
Theorem C42_dtor_frees_each_slab_once : forall cs asz, 1 <= cs <= asz -> forall allocf : list Z -> Z,
  (forall live b, In b live -> allocf live + asz <= b \/ b + asz <= allocf live) ->
  forall ops r, run cs asz allocf ops rs_init = Some r ->
  Permutation (dtor_calls (rs_pa r)) (pa_slabs (rs_pa r)) /\ NoDup (pa_slabs (rs_pa r)) /\
  pa_ncalls (rs_pa r) = length (pa_slabs (rs_pa r)).
Proof. exact dtor_proof. Qed.
Print Assumptions C42_dtor_frees_each_slab_once.

(* the guard 1 <= chunkSize <= allocSize: inside it the size_t arithmetic of the code is the guarded model ... *)
Theorem C42_guard_sufficient : forall cs asz, 1 <= cs <= asz -> asz < 2 ^ 64 ->
  cpa64 cs asz = cpa cs asz /\ loop_bound64 cs asz = cpa cs asz - 1 /\ first_bad_push64 cs asz = None.
Proof. exact guard_sufficient_proof. Qed.
Print Assumptions C42_guard_sufficient.

(* ... and it is necessary: for allocSize < chunkSize, chunksPerAlloc_ = 0, the loop bound `chunksPerAlloc_ - 1`
   wraps to 2^64-1, and already the first value pushed onto chunks_ is a chunk that runs past the slab *)
Theorem C42_guard_needed_general : forall cs asz, 0 <= asz < cs ->
  cpa64 cs asz = 0 /\ loop_bound64 cs asz = 2 ^ 64 - 1 /\ first_bad_push64 cs asz = Some 0 /\
  forall b, pushed64 cs b 0 = b /\ ~ (pushed64 cs b 0 + cs <= b + asz).
Proof. exact guard_needed_proof. Qed.
Print Assumptions C42_guard_needed_general.

Example C42_guard_needed :
  cpa64 64 32 = 0 /\ loop_bound64 64 32 = 18446744073709551615 /\ first_bad_push64 64 32 = Some 0 /\
  pushed64 64 4096 0 + 64 > 4096 + 32.
Proof. vm_compute. repeat split; reflexivity. Qed.

(* the fetch_or spin lock: over all schedules of any number of threads at most one thread is inside the critical
   section, and the lock word is 0 exactly when nobody is *)
Theorem C42_lock_mutex : forall n s, reach lock_step (lock_init n) s ->
  (in_crit s <= 1)%nat /\ (ls_lock s = 0 <-> in_crit s = 0%nat).
Proof. exact lock_mutex_proof. Qed.
Print Assumptions C42_lock_mutex.

(* the oracle used by the correspondence check satisfies the freshness hypothesis *)
Theorem C42_oracle_fresh : forall asz, asz <= slab_stride ->
  forall live b, In b live -> oracle_pa live + asz <= b \/ b + asz <= oracle_pa live.
Proof. exact oracle_pa_fresh. Qed.
Print Assumptions C42_oracle_fresh.

(* the hypotheses are satisfiable, by a history with a clear() and slab reuse: chunkSize 16, allocSize 40
   (2 chunks per slab, 8 bytes of slack), three allocs (2 slabs), a dealloc, an alloc, clear, four allocs served
   from the two recycled slabs, a fifth that needs a third slab *)
Example C42_nonvacuous :
  1 <= 16 <= 40 /\
  (forall live b, In b live -> oracle_pa live + 40 <= b \/ b + 40 <= oracle_pa live) /\
  run 16 40 oracle_pa [Alloc; Alloc; Alloc; Dealloc 0; Alloc; Clear; Alloc; Alloc; Alloc; Alloc; Alloc] rs_init =
    Some (RS (PA [2199023255552; 1099511627776; 3298534883328] [] [3298534883328]
                 [1099511627776; 2199023255552; 3298534883328] 3)
             [2199023255568; 2199023255552; 1099511627792; 1099511627776; 3298534883344]) /\
  model_run 16 40 [Alloc; Alloc; Alloc; Dealloc 0; Alloc; Clear; Alloc; Alloc; Alloc; Alloc; Alloc] =
    Some ([ObA 0 16 1 2; ObA 0 0 1 2; ObA 1 16 2 4; ObN 2 4; ObA 0 16 2 4; ObN 2 4;
           ObA 1 16 2 4; ObA 1 0 2 4; ObA 0 16 2 4; ObA 0 0 2 4; ObA 2 16 3 6], [1; 0; 2]).
Proof.
  split; [lia|]. split; [apply oracle_pa_fresh; vm_compute; discriminate|].
  split; vm_compute; reflexivity.
Qed.
