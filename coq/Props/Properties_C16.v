(* C16 -- parallel_invoke runs each functor exactly once.
   Statements only; every proof is `exact` of a lemma from Proofs/.
   Model: Model/InvokeModel.v -- a program is a tree of functors (a functor with children calls parallel_invoke on
   them: arbitrary arities and recursion shapes); `exec zeroThreads want t` lists every functor run with how it was
   started (schedule() inline / pool-immediate / queued, or the direct call of the last functor), the inline depth
   and whether it ran on the calling thread during the call.  `want` (the outcome of the load tests, one per
   schedule() call) and the pool size are universally quantified = all schedules of the inline/queue decisions. *)
From Coq Require Import ZArith List Bool Lia.
From DV Require Import Model.InvokeModel Proofs.C16Proofs.
Import ListNotations.
Local Open Scope Z_scope.

(* every functor of the program is run exactly once (and nothing else is run) *)
Theorem C16_each_functor_once : forall zeroThreads want t q,
  count_occ path_eq_dec (map r_path (exec zeroThreads want t)) q =
  if in_dec path_eq_dec q (all_paths t) then 1%nat else 0%nat.
Proof. exact C16_each_once_proof. Qed.
Print Assumptions C16_each_functor_once.

Theorem C16_run_count : forall zeroThreads want t, length (exec zeroThreads want t) = size t.
Proof. exact C16_run_count_proof. Qed.
Print Assumptions C16_run_count.

(* the functors of a program have pairwise different identities (so "once per path" means once per functor) *)
Theorem C16_functor_ids_distinct : forall t, NoDup (all_paths t).
Proof. exact all_paths_nodup. Qed.
Print Assumptions C16_functor_ids_distinct.

(* placement: the last functor of every call runs on the calling thread; a functor that does not run on the
   calling thread during the call was queued to a pool that has threads (it then runs at base depth 0, exactly
   once before wait() returns by the task set contract); inline runs nest at most kMaxInlineDepth = 32 deep *)
Theorem C16_placement_and_depth : forall zeroThreads want t r, In r (exec zeroThreads want t) ->
  0 <= r_depth r <= kMaxInlineDepth /\
  (r_how r = HLast -> r_oncaller r = true) /\
  (r_how r = HInline -> 1 <= r_depth r /\ r_oncaller r = true) /\
  (r_oncaller r = false -> r_how r = HQueued /\ r_depth r = 0 /\ zeroThreads = false).
Proof. exact C16_runs_ok_proof. Qed.
Print Assumptions C16_placement_and_depth.

(* one call parallel_invoke(tasks, f_0, ..., f_n) made by the functor at path p at inline depth d:
   n scheduled functors first (none of the runs before the last functor is a direct-call run of THIS call), then
   f_n directly on the calling thread at the caller's own depth, and its run (with everything below it) is the
   final segment of the call: "the last one on the calling thread before returning" *)
Theorem C16_last_on_caller_before_return : forall zeroThreads want p d kids k,
  exists before,
    exec_below zeroThreads want p d (Node (kids ++ [k])) =
    before ++ RUN (length kids :: p) HLast d true :: exec_below zeroThreads want (length kids :: p) d k /\
    Forall (fun r => r_how r <> HLast \/ exists q, q <> [] /\ r_path r = q ++ p /\ length q <> 1%nat) before.
Proof. exact C16_last_direct_proof. Qed.
Print Assumptions C16_last_on_caller_before_return.

(* the gate of schedule(f, skipRecheck=true), both TaskCost kinds: when the load test says "inline" the functor runs
   inline (depth + 1) while the calling thread is less than kMaxInlineDepth deep, and otherwise it is handed to the pool
   (run at once by a zero-thread pool, queued otherwise) -- in every case it is part of the runs: never dropped *)
Theorem C16_overloaded_gate : forall zeroThreads want p d k k' r,
  want (0%nat :: p) = true ->
  exists rest,
    exec_below zeroThreads want p d (Node (k :: k' :: r)) =
    (if d <? kMaxInlineDepth then RUN (0%nat :: p) HInline (d + 1) true :: exec_below zeroThreads want (0%nat :: p) (d + 1) k
     else if zeroThreads then RUN (0%nat :: p) HPoolNow d true :: exec_below zeroThreads want (0%nat :: p) d k
     else RUN (0%nat :: p) HQueued 0 false :: exec_below zeroThreads want (0%nat :: p) 0 k) ++ rest.
Proof. exact C16_gate_proof. Qed.
Print Assumptions C16_overloaded_gate.

(* permanently overloaded set, left-leaning recursion 40 levels deep: inline at depths 1..32, the 33rd level queued *)
Theorem C16_cap_switch :
  let runs := exec false (fun _ => true) (comb_l 40) in
  let spine := filter (fun r => forallb (Nat.eqb 0) (r_path r)) runs in
  map (fun r => (how_code (r_how r), r_depth r)) (firstn 35 spine) =
  (-1, 0) :: map (fun i => (0, Z.of_nat i)) (seq 1 32) ++ [(2, 0); (0, 1)]
  /\ length runs = size (comb_l 40).
Proof. exact C16_cap_switch_proof. Qed.
Print Assumptions C16_cap_switch.

Example C16_nonvacuous :
  let w := fun p : path => match p with [0%nat] => true | [0%nat; 1%nat] => true | _ => false end in
  map (fun r => (map Z.of_nat (r_path r), how_code (r_how r), r_depth r)) (exec false w (regular [3%nat; 2%nat])) =
  [([], -1, 0);
   ([0], 0, 1); ([0; 0], 2, 0); ([1; 0], 3, 1);
   ([1], 2, 0); ([0; 1], 0, 1); ([1; 1], 3, 0);
   ([2], 3, 0); ([0; 2], 2, 0); ([1; 2], 3, 0)]
  /\ size (comb_l 40) = 81%nat.
Proof. vm_compute. split; reflexivity. Qed.
