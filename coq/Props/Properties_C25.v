(* C25 -- ResourcePool bounds and exclusivity.
   Statements only.  Model: Model/ResPoolModel.v.  The blocking queue (moodycamel::BlockingConcurrentQueue) enters as a
   SPECIFICATION [queue_spec]: enqueue adds the element, a dequeue returns some element the queue holds (any one -- the
   oracle argument picks it) and blocks (None) exactly when the queue is empty.  All theorems hold for EVERY queue that
   meets the specification; [C25_reference_queue_meets_spec] shows the specification is satisfiable (list-based queue).
   [prun (pinit size nh) ops] = the state after the interleaving [ops] of acquire / release / move-construct /
   move-assign operations (any number of handles [nh], operations that block or do not apply are skipped). *)
From Coq Require Import List Bool Arith Permutation.
From DV Require Import Model.ResPoolModel Model.ResPoolMultiModel Proofs.C25Proofs Proofs.C25MultiProofs.
Import ListNotations.

Definition queue_spec (Q : Type) (q_empty : Q) (q_enq : Q -> nat -> Q) (q_deq : Q -> nat -> option (nat * Q))
           (q_items : Q -> list nat) : Prop :=
  q_items q_empty = [] /\
  (forall q x, Permutation (q_items (q_enq q x)) (x :: q_items q)) /\
  (forall q k x q', q_deq q k = Some (x, q') -> Permutation (q_items q) (x :: q_items q')) /\
  (forall q k, q_deq q k = None <-> q_items q = []).

(* at most size resources are held at any time; held + queued = size *)
Theorem C25_held_le_size : forall Q e enq deq items, queue_spec Q e enq deq items ->
  forall size nh ops, let s := prun Q enq deq (pinit Q e enq size nh) ops in
  p_alive s = true -> length (held s) <= size /\ length (held s) + length (items (p_q s)) = size.
Proof. intros Q e enq deq items (H1 & H2 & H3 & H4). exact (held_le_size_proof Q e enq deq items H1 H2 H3). Qed.
Print Assumptions C25_held_le_size.

(* each resource is held by at most one handle, and never by a handle and the queue at once; the resources in handles and
   queue are exactly 0 .. size-1, each once *)
Theorem C25_exclusive_holding : forall Q e enq deq items, queue_spec Q e enq deq items ->
  forall size nh ops, let s := prun Q enq deq (pinit Q e enq size nh) ops in
  p_alive s = true ->
  NoDup (held s ++ items (p_q s)) /\
  (forall x, In x (held s ++ items (p_q s)) <-> x < size) /\
  (forall h1 h2 x, h1 <> h2 -> nth_error (p_handles s) h1 = Some (HLive (Some x)) -> nth_error (p_handles s) h2 = Some (HLive (Some x)) -> False) /\
  (forall h x, nth_error (p_handles s) h = Some (HLive (Some x)) -> ~ In x (items (p_q s))).
Proof. intros Q e enq deq items (H1 & H2 & H3 & H4). exact (exclusive_holding_proof Q e enq deq items H1 H2 H3). Qed.
Print Assumptions C25_exclusive_holding.

(* acquire() blocks exactly while all resources are held *)
Theorem C25_acquire_blocks_only_when_all_held : forall Q e enq deq items, queue_spec Q e enq deq items ->
  forall size nh ops h k, let s := prun Q enq deq (pinit Q e enq size nh) ops in
  valid_op s (PAcquire h k) = true ->
  (pstep Q enq deq s (PAcquire h k) = None <-> length (held s) = size).
Proof. intros Q e enq deq items (H1 & H2 & H3 & H4). exact (acquire_blocks_iff_proof Q e enq deq items H1 H2 H3 H4). Qed.
Print Assumptions C25_acquire_blocks_only_when_all_held.

(* pool destruction, given the documented precondition that every resource was returned: every resource is dequeued and
   destroyed exactly once, all of them were constructed exactly once, the queue ends empty *)
Theorem C25_dtor_destroys_each_once : forall Q e enq deq items, queue_spec Q e enq deq items ->
  forall size nh ops, let s := prun Q enq deq (pinit Q e enq size nh) ops in
  p_alive s = true -> held s = [] ->
  exists s', pstep Q enq deq s PDestroyPool = Some s' /\
    Permutation (p_destroyed s') (seq 0 size) /\ NoDup (p_destroyed s') /\
    p_constructed s' = seq 0 size /\ items (p_q s') = [] /\ p_alive s' = false.
Proof. intros Q e enq deq items (H1 & H2 & H3 & H4). exact (dtor_destroys_each_once_proof Q e enq deq items H1 H2 H3 H4). Qed.
Print Assumptions C25_dtor_destroys_each_once.

(* ... and without the precondition the destructor blocks for ever (it waits for the outstanding resources) *)
Theorem C25_dtor_blocks_if_outstanding : forall Q e enq deq items, queue_spec Q e enq deq items ->
  forall size nh ops, let s := prun Q enq deq (pinit Q e enq size nh) ops in
  p_alive s = true -> held s <> [] -> pstep Q enq deq s PDestroyPool = None.
Proof. intros Q e enq deq items (H1 & H2 & H3 & H4). exact (dtor_blocks_if_outstanding_proof Q e enq deq items H1 H2 H3). Qed.
Print Assumptions C25_dtor_blocks_if_outstanding.

Theorem C25_reference_queue_meets_spec : queue_spec LQ lq_empty lq_enq lq_deq lq_items.
Proof.
  split; [exact lq_spec_empty|]. split; [exact lq_spec_enq|]. split; [exact lq_spec_deq_some|exact lq_spec_deq_none].
Qed.
Print Assumptions C25_reference_queue_meets_spec.

(* ---- several pools of one T (Model/ResPoolMultiModel.v): a handle carries (resource_, pool_) and the move operations copy both, so a
   move assignment can carry a handle slot from one pool to another.  Every step of the multi-pool system is, for each pool, either
   invisible or ONE step of the single-pool model on that pool's projection (handles of other pools are slots without an object):
   a cross-pool move assignment is ~Resource in the destination's old pool and a move construction in the source's pool. *)
Theorem C25_multi_step_refines : forall Q e enq deq (s : mstate Q) o s' p,
  mwf Q s -> mstep Q enq deq s o = Some s' ->
  proj Q e p s' = proj Q e p s \/ exists o', pstep Q enq deq (proj Q e p s) o' = Some (proj Q e p s').
Proof. exact mstep_refines. Qed.
Print Assumptions C25_multi_step_refines.

(* ... hence, with any number of pools of any sizes and any interleaving of operations on any of them, every pool keeps the bounds and
   exclusivity of C25_held_le_size / C25_exclusive_holding: what its own handles hold plus its queue is exactly its resources, each once
   (in particular no resource of pool p is ever recycled into another pool, and pool p is never short of one) *)
Theorem C25_multi_each_pool_exact : forall Q e enq deq items, queue_spec Q e enq deq items ->
  forall sizes nh ops p, p < length sizes ->
  let s := proj Q e p (mrun Q enq deq (minit Q e enq sizes nh) ops) in
  length (held s) + length (items (p_q s)) = nth p sizes 0 /\
  NoDup (held s ++ items (p_q s)) /\ (forall x, In x (held s ++ items (p_q s)) <-> x < nth p sizes 0).
Proof.
  intros Q e enq deq items HS sizes nh ops p Hp s.
  destruct (mrun_refines Q e enq deq sizes nh p Hp ops) as [pops E]. subst s. rewrite E.
  assert (A : p_alive (prun Q enq deq (pinit Q e enq (nth p sizes 0) nh) pops) = true) by (rewrite <- E; reflexivity).
  pose proof (C25_held_le_size Q e enq deq items HS (nth p sizes 0) nh pops A) as (_ & H1).
  pose proof (C25_exclusive_holding Q e enq deq items HS (nth p sizes 0) nh pops A) as (H2 & H3 & _).
  split; [exact H1|]. split; [exact H2|exact H3].
Qed.
Print Assumptions C25_multi_each_pool_exact.

(* ... and each pool's destructor, once none of ITS resources is held by any handle (whichever pool that handle started in), dequeues and
   destroys each of its resources exactly once; while one is still held -- by a handle that may have come from another pool -- it blocks *)
Theorem C25_multi_dtor_each_pool : forall Q e enq deq items, queue_spec Q e enq deq items ->
  forall sizes nh ops p, p < length sizes ->
  let s := proj Q e p (mrun Q enq deq (minit Q e enq sizes nh) ops) in
  (held s = [] -> exists s', pstep Q enq deq s PDestroyPool = Some s' /\
      Permutation (p_destroyed s') (seq 0 (nth p sizes 0)) /\ NoDup (p_destroyed s') /\ items (p_q s') = []) /\
  (held s <> [] -> pstep Q enq deq s PDestroyPool = None).
Proof.
  intros Q e enq deq items HS sizes nh ops p Hp s.
  destruct (mrun_refines Q e enq deq sizes nh p Hp ops) as [pops E]. subst s. rewrite E.
  assert (A : p_alive (prun Q enq deq (pinit Q e enq (nth p sizes 0) nh) pops) = true) by (rewrite <- E; reflexivity).
  split; intro H.
  - destruct (C25_dtor_destroys_each_once Q e enq deq items HS (nth p sizes 0) nh pops A H) as (s' & H1 & H2 & H3 & _ & H5 & _).
    exists s'. split; [exact H1|]. split; [exact H2|]. split; [exact H3|exact H5].
  - exact (C25_dtor_blocks_if_outstanding Q e enq deq items HS (nth p sizes 0) nh pops A H).
Qed.
Print Assumptions C25_multi_dtor_each_pool.

Example C25_multi_nonvacuous :
  let s := mlrun (mlinit [2; 1] 3) [MAcquire 0 0 0; MAcquire 1 1 0; MMoveAssign 0 1] in
  m_handles s = [MLive 1 (Some 0); MLive 1 None; MDead] /\ m_qs s = [[1; 0]; []].
Proof. vm_compute. split; reflexivity. Qed.

(* non-trivial run on the reference queue: pool of 2, three handle slots: both resources acquired (a third acquire blocks and is
   skipped), a handle moved onto a live handle (its resource goes back to the queue), everything released, pool destroyed *)
Example C25_nonvacuous :
  let s := lrun (linit 2 3) [PAcquire 0 0; PAcquire 1 0; PAcquire 2 0; PMoveCtor 2 0; PMoveAssign 1 2] in
  lstep (lrun (linit 2 3) [PAcquire 0 0; PAcquire 1 0]) (PAcquire 2 0) = None /\
  p_handles s = [HLive None; HLive (Some 0); HLive None] /\ p_q s = [1] /\
  p_destroyed (lrun s [PRelease 0; PRelease 1; PRelease 2; PDestroyPool]) = [1; 0].
Proof. vm_compute. repeat split; reflexivity. Qed.
