(* C25 -- ResourcePool bounds and exclusivity.
   Statements only.  Model: Model/ResPoolModel.v.  The blocking queue (moodycamel::BlockingConcurrentQueue) enters as a
   SPECIFICATION [queue_spec]: enqueue adds the element, a dequeue returns some element the queue holds (any one -- the
   oracle argument picks it) and blocks (None) exactly when the queue is empty.  All theorems hold for EVERY queue that
   meets the specification; [C25_reference_queue_meets_spec] shows the specification is satisfiable (list-based queue).
   [prun (pinit size nh) ops] = the state after the interleaving [ops] of acquire / release / move-construct /
   move-assign operations (any number of handles [nh], operations that block or do not apply are skipped). *)
From Coq Require Import List Bool Arith Permutation.
From DV Require Import Model.ResPoolModel Proofs.C25Proofs.
Import ListNotations.

Definition queue_spec (Q : Type) (q_empty : Q) (q_enq : Q -> nat -> Q) (q_deq : Q -> nat -> option (nat * Q))
           (q_items : Q -> list nat) : Prop :=
  q_items q_empty = [] /\
  (forall q x, Permutation (q_items (q_enq q x)) (x :: q_items q)) /\
  (forall q k x q', q_deq q k = Some (x, q') -> Permutation (q_items q) (x :: q_items q')) /\
  (forall q k, q_deq q k = None <-> q_items q = []).

(* at most size resources are held at any time; held + queued = size *)
Theorem C25_held_le_size : forall Q e enq deq items, queue_spec Q e enq deq items ->
  forall size nh ops, let s := prun Q enq deq (pinit Q e enq size nh) ops in
  p_alive s = true -> length (held s) <= size /\ length (held s) + length (items (p_q s)) = size.
Proof. intros Q e enq deq items (H1 & H2 & H3 & H4). exact (held_le_size_proof Q e enq deq items H1 H2 H3). Qed.
Print Assumptions C25_held_le_size.

(* each resource is held by at most one handle, and never by a handle and the queue at once; the resources in handles and
   queue are exactly 0 .. size-1, each once *)
Theorem C25_exclusive_holding : forall Q e enq deq items, queue_spec Q e enq deq items ->
  forall size nh ops, let s := prun Q enq deq (pinit Q e enq size nh) ops in
  p_alive s = true ->
  NoDup (held s ++ items (p_q s)) /\
  (forall x, In x (held s ++ items (p_q s)) <-> x < size) /\
  (forall h1 h2 x, h1 <> h2 -> nth_error (p_handles s) h1 = Some (HLive (Some x)) -> nth_error (p_handles s) h2 = Some (HLive (Some x)) -> False) /\
  (forall h x, nth_error (p_handles s) h = Some (HLive (Some x)) -> ~ In x (items (p_q s))).
Proof. intros Q e enq deq items (H1 & H2 & H3 & H4). exact (exclusive_holding_proof Q e enq deq items H1 H2 H3). Qed.
Print Assumptions C25_exclusive_holding.

(* acquire() blocks exactly while all resources are held *)
Theorem C25_acquire_blocks_only_when_all_held : forall Q e enq deq items, queue_spec Q e enq deq items ->
  forall size nh ops h k, let s := prun Q enq deq (pinit Q e enq size nh) ops in
  valid_op s (PAcquire h k) = true ->
  (pstep Q enq deq s (PAcquire h k) = None <-> length (held s) = size).
Proof. intros Q e enq deq items (H1 & H2 & H3 & H4). exact (acquire_blocks_iff_proof Q e enq deq items H1 H2 H3 H4). Qed.
Print Assumptions C25_acquire_blocks_only_when_all_held.

(* pool destruction, given the documented precondition that every resource was returned: every resource is dequeued and
   destroyed exactly once, all of them were constructed exactly once, the queue ends empty *)
Theorem C25_dtor_destroys_each_once : forall Q e enq deq items, queue_spec Q e enq deq items ->
  forall size nh ops, let s := prun Q enq deq (pinit Q e enq size nh) ops in
  p_alive s = true -> held s = [] ->
  exists s', pstep Q enq deq s PDestroyPool = Some s' /\
    Permutation (p_destroyed s') (seq 0 size) /\ NoDup (p_destroyed s') /\
    p_constructed s' = seq 0 size /\ items (p_q s') = [] /\ p_alive s' = false.
Proof. intros Q e enq deq items (H1 & H2 & H3 & H4). exact (dtor_destroys_each_once_proof Q e enq deq items H1 H2 H3 H4). Qed.
Print Assumptions C25_dtor_destroys_each_once.

(* ... and without the precondition the destructor blocks for ever (it waits for the outstanding resources) *)
Theorem C25_dtor_blocks_if_outstanding : forall Q e enq deq items, queue_spec Q e enq deq items ->
  forall size nh ops, let s := prun Q enq deq (pinit Q e enq size nh) ops in
  p_alive s = true -> held s <> [] -> pstep Q enq deq s PDestroyPool = None.
Proof. intros Q e enq deq items (H1 & H2 & H3 & H4). exact (dtor_blocks_if_outstanding_proof Q e enq deq items H1 H2 H3). Qed.
Print Assumptions C25_dtor_blocks_if_outstanding.

Theorem C25_reference_queue_meets_spec : queue_spec LQ lq_empty lq_enq lq_deq lq_items.
Proof.
  split; [exact lq_spec_empty|]. split; [exact lq_spec_enq|]. split; [exact lq_spec_deq_some|exact lq_spec_deq_none].
Qed.
Print Assumptions C25_reference_queue_meets_spec.

(* non-trivial run on the reference queue: pool of 2, three handle slots: both resources acquired (a third acquire blocks and is
   skipped), a handle moved onto a live handle (its resource goes back to the queue), everything released, pool destroyed *)
Example C25_nonvacuous :
  let s := lrun (linit 2 3) [PAcquire 0 0; PAcquire 1 0; PAcquire 2 0; PMoveCtor 2 0; PMoveAssign 1 2] in
  lstep (lrun (linit 2 3) [PAcquire 0 0; PAcquire 1 0]) (PAcquire 2 0) = None /\
  p_handles s = [HLive None; HLive (Some 0); HLive None] /\ p_q s = [1] /\
  p_destroyed (lrun s [PRelease 0; PRelease 1; PRelease 2; PDestroyPool]) = [1; 0].
Proof. vm_compute. repeat split; reflexivity. Qed.
