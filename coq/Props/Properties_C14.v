(* C14 -- parallel_for never uses one state object concurrently.
   Statements only; every proof is `exact` of a lemma from Proofs/.
   Model: Model/PlanModel.v (who runs each body invocation, with which states element, and the order `seqb`
   between invocations) on top of Model/ParForModel.pf_decide, whose leaves (computeGranularity,
   adjustChunkSizing, range predicates, StaticChunkMapper) are REGENERATED from /repo (Gen/GenChunk.v).
   The property is FALSE for the code as it is: C14_refuted.  It holds on the complement of the domain
   `c14_dom` (static scheduling, wait=false, granularity tail): C14_holds_except. *)
From Coq Require Import ZArith List Bool Lia.
From DV Require Import Base.MachInt Model.ChunkModel Gen.GenChunk Model.ParForModel Model.PlanModel
  Proofs.PlanProofs Proofs.C14Proofs.
Import ListNotations.
Local Open Scope Z_scope.

(* the full statement: for every configuration, ring index of the caller and claim schedule, two body
   invocations that are not ordered by `seqb` never use the same element of `states` *)
Definition C14_full_statement : Prop :=
  forall c ring cl, pf_claims_ok c cl = true ->
  forall i j a b, i <> j -> nth_error (pf_plan c ring cl) i = Some a -> nth_error (pf_plan c ring cl) j = Some b ->
    seqb a b = false -> seqb b a = false -> c_state a <> c_state b.

(* refuted: static chunking, wait=false, granularity 8, maxThreads 2, int32 [0,1003), 4 pool threads:
   scheduled closure 0 runs [0,504) with states[0]; runTail() runs [1000,1003) with states[0] on the calling
   thread right after scheduleBulk, without any wait in between *)
Theorem C14_refuted :
  exists c ring cl i j a b,
    pf_claims_ok c cl = true /\ i <> j /\
    nth_error (pf_plan c ring cl) i = Some a /\ nth_error (pf_plan c ring cl) j = Some b /\
    seqb a b = false /\ seqb b a = false /\ c_state a = c_state b /\
    c14_dom c = true /\
    a = CALL (Task 0) 0 0 0 504 /\ b = CALL CallerPre 1 0 1000 1003.
Proof. exact C14_refuted_proof. Qed.
Print Assumptions C14_refuted.

Theorem C14_not_full : ~ C14_full_statement.
Proof. exact C14_not_full_proof. Qed.
Print Assumptions C14_not_full.

(* outside the domain: all index kinds, chunking modes, granularities, wait modes, pool sizes, every ring index
   of the calling thread (static: which chunk the caller takes) and every claim schedule (dynamic/adaptive:
   which worker gets which chunk) *)
Theorem C14_holds_except : forall c ring cl,
  pf_claims_ok c cl = true -> c14_dom c = false ->
  forall i j a b, i <> j -> nth_error (pf_plan c ring cl) i = Some a -> nth_error (pf_plan c ring cl) j = Some b ->
    seqb a b = false -> seqb b a = false -> c_state a <> c_state b.
Proof. exact C14_holds_except_proof. Qed.
Print Assumptions C14_holds_except.

(* the domain is exact: inside it (task 0 exists) the plan always contains two unordered invocations on states[0] *)
Theorem C14_domain_exact : forall c ring cl,
  c14_dom c = true -> 1 <= static_n c (pf_decide c) ->
  exists a b, In a (pf_plan c ring cl) /\ In b (pf_plan c ring cl) /\ a <> b /\
              seqb a b = false /\ seqb b a = false /\ c_state a = 0 /\ c_state b = 0.
Proof. exact C14_dom_collides_proof. Qed.
Print Assumptions C14_domain_exact.

(* the states container: non-empty after every call on a non-empty range, and every index handed to the body
   (std::advance(states.begin(), idx)) is inside the container that initStates built.  For ALL configurations
   (including the domain of the finding).  cfg_wf: pool size >= 0, start/end are values of the index type. *)
Theorem C14_states_nonempty_in_bounds : forall c ring cl,
  cfg_wf c -> pf_claims_ok c cl = true ->
  (d_path (pf_decide c) <> PEmpty -> 1 <= pf_states_needed c) /\
  forall a, In a (pf_plan c ring cl) -> 0 <= c_state a < pf_states_needed c.
Proof. exact C14_states_in_bounds_proof. Qed.
Print Assumptions C14_states_nonempty_in_bounds.

(* non-vacuity: a dynamic wait=true configuration with a genuinely interleaved claim schedule satisfies the
   hypotheses of C14_holds_except and its plan has unordered pairs *)
Example C14_nonvacuous :
  let c := PF 4 0 103 10 4 3 1 1 true in
  let cl := [(0,0,10);(2,10,20);(1,20,30);(0,30,40);(2,40,50)] in
  pf_claims_ok c cl = true /\ c14_dom c = false /\ length (pf_plan c (-1) cl) = 5%nat /\
  antichainb (firstn 3 (pf_plan c (-1) cl)) = true /\
  c14_dom (PF 4 0 1003 2147483647 4 2 1 8 true) = false /\ c14_dom (PF 4 0 1003 2147483647 4 2 1 8 false) = true.
Proof. vm_compute. repeat split; reflexivity. Qed.
