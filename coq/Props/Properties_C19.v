(* C19 -- Future continuations and combinators respect readiness.
   Statements only.  Part 1 (then-chain, task-set counter): Model/FutureModel.v, the step-level model of
   FutureImplBase shared with C18 (push with CAS, drain with CAS-to-null, the post-push status == Ready re-check;
   spurious CAS failures as oracle choices); tie: lockstep under harness/vsched.h (props/C19.py).
   Part 2 (when_all / when_any): Model/FutureCombModel.v, see below. *)
From Coq Require Import ZArith List Bool.
From DV Require Import Base.MachInt Base.Sched Model.FutureModel Model.FutureCombModel Proofs.C18Proofs Proofs.C19Proofs Proofs.C19CombProofs.
Import ListNotations.
Local Open Scope Z_scope.

(* every link pushed is dispatched exactly once and only after Ready, for registration before / during / after
   completion: (1) no dispatch ever happens with status <> Ready (sticky monitor bad_disp; and a thread that is at a
   dispatch point sees Ready); (2) each link id is conserved: (#dispatches) + (#occurrences in the chain) +
   (#occurrences still in programs / pcs / drained lists) = (#registrations in the initial programs), so a link is
   never dispatched more often than registered; (3) whenever the future is Ready and the chain is non-empty some
   thread is committed to draining it (the completer between its Ready store and its drain, a drainer in its CAS loop,
   or the pusher between its push CAS and its re-check) -- the race "pushed just after the completer drained";
   (4) so when all threads have finished and the future is Ready the chain is empty and every registered link has
   been dispatched exactly as often as it was registered (once, for distinct ids); (5) not Ready => nothing dispatched. *)
Theorem C19_then_runs_once_after_ready : forall B c ds s, wf_init B c ds -> reach step (init c ds) s ->
  bad_disp (sh s) = false /\
  (forall th, In th (threads s) -> (exists K id r, tpc th = PDispatch K id r) \/ (exists id, tpc th = PThenDirect id) -> word (sh s) = kReady) /\
  (forall k, cnt k (disp (sh s)) + cnt k (chain (sh s)) + zsum (tcnt k) (threads s) = total ds k) /\
  (forall k, 0 <= cnt k (disp (sh s)) <= total ds k) /\
  (word (sh s) = kReady -> chain (sh s) <> [] -> exists th, In th (threads s) /\ committed (tpc th) = true) /\
  (finished s = true -> word (sh s) = kReady -> chain (sh s) = [] /\ forall k, cnt k (disp (sh s)) = total ds k) /\
  (word (sh s) <> kReady -> disp (sh s) = []).
Proof. exact then_runs_once_after_ready. Qed.
Print Assumptions C19_then_runs_once_after_ready.

(* the task-set counter (incremented before scheduling) reaches 0 only after the Ready store, so a task-set wait
   that returns (counter observed 0) implies the future is ready *)
Theorem C19_taskset_wait_implies_ready : forall B c ds s, wf_init B c ds -> hasTsc c = true -> reach step (init c ds) s ->
  (tsc (sh s) = 0 -> word (sh s) = kReady) /\ 0 <= tsc (sh s) /\
  (forall th tag v, In th (threads s) -> In (tag, v) (res th) -> tag = r_tswait -> v = 1).
Proof. exact taskset_wait_implies_ready. Qed.
Print Assumptions C19_taskset_wait_implies_ready.

Theorem C19_invariant : forall B c ds s, wf_init B c ds -> reach step (init c ds) s -> Inv19 B (total ds) s.
Proof. exact inv19_reach. Qed.
Print Assumptions C19_invariant.

(* ---------------- Part 2: when_all / when_any (Model/FutureCombModel.v) ----------------
   The combinators are modelled as derived programs at protocol level: shared counter / winner word, the result
   future's NotStarted->Running CAS (fired by shared->f() from the last / winning continuation, or inline by a get()),
   the whenComplete loops with their count / winner loads and input waits, one step per atomic access; any number of
   threads, any distribution of the operations over threads, any schedule.  The continuation of input i is enabled only
   when input i is Ready and has not started before -- this is precisely C19_then_runs_once_after_ready above, used as
   the interface between the two models.
   _partial: what is NOT proved is the composition inside ONE product model (n step-level input futures + the result
   future + the combinator): the guard of CCont is an interface assumption justified by part 1, not a derived fact of a
   common transition system; C19_combinators_by_refinement states exactly the obligation that remains (exhibit the
   product model and show that each of its steps is a stutter or a protocol step).  when_all_order (the result holds the
   inputs in input order) is by construction (the result IS std::move(shared->vec) / shared->tuple) and is checked at
   history level only; the tuple variants visit the inputs in reverse index order with the same protocol (idx = --idx);
   empty inputs return make_ready_future directly (checked at history level). *)
Theorem C19_when_all_ready_after_all_partial : forall n progs s, 0 < n < SMAX -> reach cstep (cinit false n progs) s ->
  (rstatus (csh s) = 2 -> forall i, 0 <= i < n -> rd (ready (csh s)) i = true) /\
  (forall th v, In th (cthreads s) -> In v (cres th) -> forall i, 0 <= i < n -> rd (ready (csh s)) i = true).
Proof. exact when_all_ready_after_all. Qed.
Print Assumptions C19_when_all_ready_after_all_partial.

Theorem C19_when_any_index_ready_partial : forall n progs s, 0 < n < SMAX -> reach cstep (cinit true n progs) s ->
  (rstatus (csh s) = 2 -> 0 <= rval (csh s) < n /\ rd (ready (csh s)) (rval (csh s)) = true) /\
  (forall th v, In th (cthreads s) -> In v (cres th) -> 0 <= v < n /\ rd (ready (csh s)) v = true) /\
  (winner (csh s) = SMAX \/ (0 <= winner (csh s) < n /\ rd (ready (csh s)) (winner (csh s)) = true)).
Proof. exact when_any_index_ready. Qed.
Print Assumptions C19_when_any_index_ready_partial.

(* the remaining obligation, stated: any transition system that refines the protocol model inherits both theorems *)
Theorem C19_combinators_by_refinement : forall (St : Type) (pstep : St -> nat -> list Z -> option (St * list Z * Z)) (abs : St -> cstate) s0,
  (forall s t ch s' ch' site, pstep s t ch = Some (s', ch', site) ->
     abs s' = abs s \/ exists t' ch1 ch2 site', cstep (abs s) t' ch1 = Some (abs s', ch2, site')) ->
  forall s, reach pstep s0 s -> reach cstep (abs s0) (abs s).
Proof. exact @refine_reach. Qed.
Print Assumptions C19_combinators_by_refinement.

(* the full statement: for the product system P of n step-level futures (Model/FutureModel.v, one per input), the result
   future and the combinator code, started from any well-formed initial state, with [abs] forgetting everything but the
   protocol state: P refines the protocol model (hypothesis of C19_combinators_by_refinement).  P is not constructed here. *)
Definition C19_full_statement : Prop :=
  forall (St : Type) (pstep : St -> nat -> list Z -> option (St * list Z * Z)) (abs : St -> cstate) s0 a n progs,
    abs s0 = cinit a n progs -> 0 < n < SMAX ->
    (forall s t ch s' ch' site, pstep s t ch = Some (s', ch', site) ->
       abs s' = abs s \/ exists t' ch1 ch2 site', cstep (abs s) t' ch1 = Some (abs s', ch2, site')) ->
    forall s, reach pstep s0 s -> CInv a n (abs s).

(* non-vacuity (definitions nv_when_all / nv_when_any in Proofs/C19CombProofs.v): 2 inputs, their completers and continuations on two
   threads and a getter on a third; both runs end with the result future Ready, whenComplete executed once, get returned *)
Example C19_nonvacuous : nv_when_all /\ nv_when_any.
Proof. exact (conj nonvacuous_when_all nonvacuous_when_any). Qed.
