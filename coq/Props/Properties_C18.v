(* C18 -- a Future's functor runs once and every getter sees its result.
   Statements only.  Model: Model/FutureModel.v (one step = one atomic access / futex call of FutureImplBase and the
   CompletionEventImpl it embeds; any number of threads; any programs over run / wait / get / wait_for / wait_until /
   is_ready / copy / drop / then / task-set wait; any schedule; compare_exchange_weak may fail spuriously (spur);
   timed futex waits may time out (timeouts)).  Tie: lockstep under harness/vsched.h (props/C18.py).
   wf_init B c ds: every thread only uses handles (and the OnceFunction) it holds, refCount_ starts at
   (#handles + 1 for the OnceFunction) >= 1, the functor's value tag is non-zero, and fewer than 2^32 references can
   ever exist (B bounds initial references + all copy/then operations in the programs; refCount_ is a uint32). *)
From Coq Require Import ZArith List Bool.
From DV Require Import Base.MachInt Base.Sched Model.FutureModel Proofs.C18Proofs.
Import ListNotations.
Local Open Scope Z_scope.

(* exactly one thread wins NotStarted->Running; the functor executes once:
   (#functor executions so far) + (#threads that won the CAS and are about to execute it) = [status <> NotStarted],
   hence never more than one winner and one execution; exactly one thread is between the CAS and the Ready store iff
   status = Running; Ready implies the functor has executed (once) and the cell holds its result. *)
Theorem C18_functor_runs_once : forall B c ds s, wf_init B c ds -> reach step (init c ds) s ->
  fcount (sh s) + zsum inf (threads s) = (if word (sh s) =? kNotStarted then 0 else 1) /\
  0 <= fcount (sh s) <= 1 /\
  zsum win (threads s) = (if word (sh s) =? kRunning then 1 else 0) /\
  (word (sh s) = kReady -> fcount (sh s) = 1 /\ cell (sh s) = val c).
Proof. exact functor_runs_once. Qed.
Print Assumptions C18_functor_runs_once.

(* a get reads the result only after Ready was stored and returns the unique stored result / rethrows the stored
   exception (bad_get is the sticky monitor set by a result read with status <> Ready or an unwritten cell) *)
Theorem C18_get_after_ready : forall B c ds s, wf_init B c ds -> reach step (init c ds) s ->
  bad_get (sh s) = false /\
  (forall th tag v, In th (threads s) -> In (tag, v) (res th) -> tag = r_get \/ tag = r_getx -> v = val c) /\
  (forall th, In th (threads s) -> tpc th = PGetResult -> word (sh s) = kReady /\ cell (sh s) = val c).
Proof. exact get_after_ready. Qed.
Print Assumptions C18_get_after_ready.

(* no step touches the impl after the dealloc step (bad_touch is the sticky monitor set by any non-start step with
   freed > 0); dealloc happens at most once and exactly when the last reference is released;
   refCount = #live handles + [OnceFunction not yet released] (+ the copies captured by continuations);
   every thread that is inside an operation holds a counted reference and the impl is not freed *)
Theorem C18_refcount_safe : forall B c ds s, wf_init B c ds -> reach step (init c ds) s ->
  bad_touch (sh s) = false /\
  freed (sh s) = (if refc (sh s) =? 0 then 1 else 0) /\
  refc (sh s) = orphan c + conts (sh s) + zsum own (threads s) /\
  (forall th, In th (threads s) -> 0 <= hnd th /\ (tok th = 0 \/ tok th = 1) /\
       (tpc th <> PStart -> tpc th <> PDone -> 1 <= own th /\ freed (sh s) = 0)).
Proof. exact refcount_safe. Qed.
Print Assumptions C18_refcount_safe.

(* the whole inductive invariant, for reuse (C19) *)
Theorem C18_invariant : forall B c ds s, wf_init B c ds -> reach step (init c ds) s -> Inv18 B s.
Proof. exact inv18_reach. Qed.
Print Assumptions C18_invariant.

(* every state the executable scheduler visits is reachable, so the theorems apply to the runs compared with the real code *)
Theorem C18_run_reach : forall fuel c ds sched,
  reach step (init c ds) (fst (fst (run_future fuel c ds sched))).
Proof. intros. apply run_reach. apply reach_refl. Qed.
Print Assumptions C18_run_reach.

(* non-vacuity: runner + a getter + a copier/dropper; the run ends with the functor executed once, the getter
   having read the value 7, all references released and the impl deallocated exactly once *)
Example C18_nonvacuous :
  wf_init 100 nv_cfg nv_ds /\
  let '(s, _, st) := run_future 80 nv_cfg nv_ds [0;1;2;0;1;2;0;1;2;0;1;2;0;1;2;0;1;2;0;1;2;0;1;2;0;1;2;0;1;2;0;1;2;0;1;2;0;0;0;0;0;0;0;0;0;0] in
  st = SDone /\ fcount (sh s) = 1 /\ freed (sh s) = 1 /\ refc (sh s) = 0 /\
  map (fun th => rev (res th)) (threads s) = [[(r_func, 1)]; [(r_get, 7); (r_dealloc, 1)]; [(r_wait, 1)]].
Proof. exact nonvacuous_c18. Qed.
