(* C18 -- a Future's functor runs once and every getter sees its result.  Statements only (work in progress). *)
From Coq Require Import ZArith List Bool.
From DV Require Import Base.MachInt Base.Sched Model.FutureModel.
Import ListNotations.
Local Open Scope Z_scope.

Theorem C18_run_reach : forall fuel c ds sched,
  reach step (init c ds) (fst (fst (run_future fuel c ds sched))).
Proof. intros. apply run_reach. apply reach_refl. Qed.
Print Assumptions C18_run_reach.
