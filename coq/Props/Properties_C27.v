(* C27 -- Pipeline delivers every item through every stage exactly once.
   Statements only.  Model: Model/PipelineModel.v (dispenso/pipeline.h, detail/pipeline_impl.h at the granularity of the gate
   operations of LimitGatedScheduler: enqueue / try_dequeue / resources_ / outstanding_ / the completion callback with its serial
   inline continuation / the drain loops of wait() / generator instances and their completion latch); any number of stages, items
   and threads; every interleaving ([mstep] = one frame transition); try_dequeue may miss (oracle), the task set may run a task
   inline or queue it (threshold policy of the code or an oracle); the pool is a bag from which each task is popped at most once.
   [count_ev k j tag log] = number of log events of kind k (1 = the user function of stage j is entered with item tag, 2 = it
   returned, 4 = generated) in the event log of the state.
   Tie: lockstep under harness/vsched.h on the real dispenso::pipeline + native histories (props/C27.py). *)
From Coq Require Import ZArith List Bool Lia.
From DV Require Import Base.MachInt Base.Sched Model.PipelineModel Proofs.PipelineProofs Proofs.C27Proofs Proofs.C27FlowProofs
                       Proofs.C27OnceProofs Proofs.C27PhaseProofs Proofs.C27FinalProofs.
Import ListNotations.
Local Open Scope Z_scope.

(* In every reachable state (with or without throwing stages): no stage is entered twice for the same item. *)
Theorem C27_each_item_each_stage_at_most_once : forall c s j tag,
  (0 < nstages c)%nat -> reach (mstep c) (init c) s -> count_ev 1 j tag (log (sh s)) <= 1.
Proof. exact each_item_each_stage_at_most_once. Qed.
Print Assumptions C27_each_item_each_stage_at_most_once.

(* ... an item enters stage j+1 only after it has left stage j ... *)
Theorem C27_next_stage_after_exit : forall c s j tag,
  (0 < nstages c)%nat -> reach (mstep c) (init c) s -> count_ev 1 (S j) tag (log (sh s)) <= count_ev 2 j tag (log (sh s)).
Proof. exact next_stage_after_exit. Qed.
Print Assumptions C27_next_stage_after_exit.

(* ... and stage 0 only for items the generator produced. *)
Theorem C27_entered_le_generated : forall c s tag,
  (0 < nstages c)%nat -> reach (mstep c) (init c) s -> count_ev 1 0 tag (log (sh s)) <= gen4_val c (sh s) tag.
Proof. exact entered_le_generated. Qed.
Print Assumptions C27_entered_le_generated.

(* Each stage receives its predecessor's output for that item: the value logged when stage j is entered with item tag is the
   generated value pushed through stages 0..j-1 ([chain]). *)
Theorem C27_stage_gets_predecessor_output : forall c s e,
  reach (mstep c) (init c) s -> In e (log (sh s)) -> e_kind e = 1 -> e_val e = chain (Z.to_nat (e_j e)) (e_tag e).
Proof. exact stage_gets_predecessor_output. Qed.
Print Assumptions C27_stage_gets_predecessor_output.

(* The conservation law behind these, per item and stage (see Proofs/C27FlowProofs.v for the measures): nothing is duplicated or
   created: generated = waiting for / entered / lost before stage 0; entered j = inside j + thrown + finished at j + waiting for /
   entered / lost before stage j+1. *)
Theorem C27_flow_invariant : forall c s,
  (0 < nstages c)%nat -> reach (mstep c) (init c) s ->
  forall tag, total (mQ0 tag) s = 0 /\ total (m_gen4 tag) s = gen4_val c (sh s) tag /\ forall j0, total (mQ j0 tag) s = 0.
Proof. exact flow_invariant. Qed.
Print Assumptions C27_flow_invariant.

(* THE statement, for pipelines whose stages do not throw: once pipeline() has returned (result set), it returned normally, every
   item 0..n-1 was generated exactly once and entered and left exactly once every stage it is not filtered out before, and no item
   was left behind in a gate queue (kind 11 = stranded at destruction): the item orphaned by the callback / enqueue race is
   recovered by wait()'s drain loop. *)
Theorem C27_pipeline_returns_after_all : forall c s r,
  no_throw c -> (0 < nstages c)%nat -> reach (mstep c) (init c) s -> result (sh s) = Some r ->
  r = -1 /\
  (forall tag, 0 <= tag < c_nitems c ->
     total (m_gen4 tag) s = 1 /\
     forall j, (j < nstages c)%nat -> dropped_before c j tag = false ->
       count_ev 1 j tag (log (sh s)) = 1 /\ count_ev 2 j tag (log (sh s)) = 1) /\
  (forall e, In e (log (sh s)) -> e_kind e <> 11).
Proof. exact pipeline_returns_after_all. Qed.
Print Assumptions C27_pipeline_returns_after_all.

(* [orphan_recovered] in the form used inside the proof: whenever the caller is past wait() of every stage, all gate queues are
   empty (and stay so). *)
Theorem C27_orphan_recovered : forall c s,
  no_throw c -> (0 < nstages c)%nat -> reach (mstep c) (init c) s -> result (sh s) <> None ->
  Forall (fun g => g_q g = []) (gates (sh s)).
Proof. exact orphan_recovered. Qed.
Print Assumptions C27_orphan_recovered.

(* every state the executable scheduler visits (the runs compared with the real code) is reachable *)
Theorem C27_run_reach : forall fuel c sched, reach (mstep c) (init c) (fst (fst (run_pipe fuel c sched))).
Proof. exact run_pipe_reach. Qed.
Print Assumptions C27_run_reach.

(* What is NOT stated: that pipeline() returns at all (termination of the drain loops under a fair scheduler).  C27's text is a
   "returns only after" property, which the theorems above cover completely for non-throwing pipelines; with throwing stages
   pipeline() can block for ever (Properties_C29.v, C29_hang_refuted). *)
Definition C27_termination_statement : Prop :=
  forall c s, no_throw c -> (0 < nstages c)%nat -> reach (mstep c) (init c) s ->
    exists s', reach (mstep c) s s' /\ result (sh s') <> None.

(* non-vacuity: a 3-stage pipeline with a filtering stage (limit 2, drops item 1) and a serial sink, 2 generator instances,
   2 workers: the run returns normally and the counts are as stated *)
Example C27_nonvacuous :
  let c := CFG 2 64 2 3 (-1) [SC 2 true [1] []; SC 1 false [] []] false [(true, 0); (true, 0)] in
  let s := fst (fst (run_pipe 400 c ([0;0;0] ++ concat (repeat [1;2] 80) ++ repeat 0 40))) in
  no_throw c /\ result (sh s) = Some (-1) /\
  map (fun tag => count_ev 1 0 tag (log (sh s))) [0;1;2] = [1;1;1] /\
  map (fun tag => count_ev 1 1 tag (log (sh s))) [0;1;2] = [1;0;1] /\ dropped_before c 1 1 = true.
Proof.
  cbv zeta. split; [split; [cbn; lia | repeat constructor]|]. vm_compute. repeat split; reflexivity.
Qed.
