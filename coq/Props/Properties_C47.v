(* C47 -- ForceQueuingTag never runs the functor on the caller when the pool has at least one thread.
   Statements only.  Decision level: the REGENERATED overloads (Gen/GenTaskSet.v from thread_pool.h / task_set.h; tie GenTie/TaskSetGenTie.v):
   every ForceQueuingTag overload of ThreadPool, TaskSet and ConcurrentTaskSet is ThreadPool::forceEnqueue and nothing else, whose only
   inline path is numThreads_ = 0.  Step level (Model/TaskSetModel.v): no step of the force-queue paths executes a task body. *)
From Coq Require Import ZArith List Bool.
From DV Require Import Base.MachInt Base.Sched Model.TaskSetModel Gen.GenTaskSet GenTie.TaskSetGenTie Proofs.TaskSetProofs Proofs.TaskSetMoreProofs.
Import ListNotations.
Local Open Scope Z_scope.

(* for every overload taking ForceQueuingTag and every state with numThreads >= 1 at the forceEnqueue load -- whatever the load
   (workRemaining_), the load factors, the set's outstanding count, cancellation, recursion, inline depth -- the decision is Queue
   (5 / 6 = enqueue central / placed; 10 + that for the packaged wrappers of the task sets) *)
Theorem C47_force_decision_is_queue : forall out lf canc ci skip recursive w n plf l2 cost, 1 <= n ->
  gen_pool_schedule_force out lf canc ci skip recursive w n plf l2 cost = 5 /\
  gen_pool_schedule_tok_force out lf canc ci skip recursive w n plf l2 cost = 5 /\
  gen_pool_schedulePlaced_force out lf canc ci skip recursive w n plf l2 cost = 6 /\
  gen_pool_schedulePlaced_tok_force out lf canc ci skip recursive w n plf l2 cost = 6 /\
  gen_tsk_schedule_force out lf canc ci skip recursive w n plf l2 cost = 15 /\
  (gen_cts_schedule_force out lf canc ci skip recursive w n plf l2 cost = 15 \/ gen_cts_schedule_force out lf canc ci skip recursive w n plf l2 cost = 16).
Proof. exact force_decision_is_queue. Qed.
Print Assumptions C47_force_decision_is_queue.

(* the model's force paths: schedule(f, ForceQueuingTag) and scheduleBulk(n, gen, ForceQueuingTag) push force frames only ... *)
Theorem C47_force_dispatch : forall s T skip b n c s' fr e,
  (dispatch s (OSched T true skip b) c = (s', fr, e) -> forallb force_frame fr = true /\ no_body_event e) /\
  (dispatch s (OBulk T true n b) c = (s', fr, e) -> forallb force_frame fr = true /\ no_body_event e).
Proof. exact force_dispatch_both. Qed.
Print Assumptions C47_force_dispatch.

(* ... and with numThreads >= 1 every step of a force frame pushes force frames only (no packaged wrapper, no raw functor call, no body) and
   logs no body event: no step of the enqueue paths executes a task body *)
Theorem C47_force_never_inline : forall s th f rest c s' l e,
  1 <= nthr s -> force_frame f = true -> step_top s th f rest c = Some (s', l, e) ->
  (exists l0, l = l0 ++ rest /\ forallb force_frame l0 = true) /\ no_body_event e.
Proof. exact force_never_inline. Qed.
Print Assumptions C47_force_never_inline.

(* non-vacuity: on a 1-thread pool with workRemaining_ far above every load factor, a forced schedule and a forced bulk of 3 from a pool thread
   enqueue 4 tasks and run nothing *)
Example C47_nonvacuous :
  let u := SU [TC true true 4 []; TC false false 4 []] [] 100 1 32 3 0 [] [([OSched 0 true false []; OBulk 1 true 3 []], true, 0)] in
  let '(s, tr, st) := run_ts 40 u [0;0;0;0;0;0;0;0;0;0;0;0;0;0;0;0;0;0;0;0] in
  st = SDone /\ length (queue (sh s)) = 4%nat /\ existsb (fun e => fst (fst e) =? t_b) (res (nth 0 (threads s) (TH [] [] false 0))) = false.
Proof. vm_compute. repeat split; reflexivity. Qed.
