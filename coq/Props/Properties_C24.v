(* C24 -- AsyncRequest delivers each update at most once.
   Statements only.  Model: Model/AsyncReqModel.v (one step = one atomic access of state_ / one access of obj_, the move
   of obj_ being two steps: read, then -- after T's move constructor returns -- the source is disengaged (OpResult) or
   left engaged (std::optional)); any number of threads; any schedule; both OpResult flavours ([kp]).
   Tie: lockstep under harness/vsched.h on the real class in the C++14 and the C++17 build (props/C24.py). *)
From Coq Require Import ZArith List Bool.
From DV Require Import Base.MachInt Base.Sched Model.AsyncReqModel Proofs.C24Proofs.
Import ListNotations.
Local Open Scope Z_scope.

(* The property as the text states it ("with multiple producers and multiple consumers, as the class documentation
   permits"): for every program with unique tags, every schedule, every reachable state: no value is returned by two
   getUpdate calls, a value-returning getUpdate directly follows the emplacement of that value which directly follows
   the latest successful request, and every emplacement directly follows a successful request. *)
Definition C24_full_statement : Prop :=
  forall kp progs s, NoDup (all_tags progs) -> reach step (init kp progs) s ->
    (forall v, delivered v s <= 1) /\
    (forall h1 v h2, hist s = h1 ++ EvGet v :: h2 -> exists h3, h2 = EvEmplace v :: EvReq :: h3) /\
    (forall h1 v h2, hist s = h1 ++ EvEmplace v :: h2 -> exists h3, h2 = EvReq :: h3).

(* It is FALSE of the code as written as soon as two threads call getUpdate concurrently: both pass the
   `state_.load() == kReady` test and both move the same obj_ -- with detail::OpResult (C++14 builds, kp = false)
   as well as with std::optional (C++17 builds, kp = true). *)
Theorem C24_refuted : forall kp,
  exists s, reach step (init kp [[OReq; OEmplace 7]; [OGet]; [OGet]]) s /\ delivered 7 s = 2.
Proof. exact refuted_reach. Qed.
Print Assumptions C24_refuted.

Theorem C24_refutes_full_statement : ~ C24_full_statement.
Proof.
  intros F. destruct (refuted_reach true) as [s [Re D]].
  assert (ND : NoDup (all_tags refute_progs)) by (vm_compute; repeat constructor; intros []).
  destruct (F true refute_progs s ND Re) as [A _]. specialize (A 7). rewrite D in A. apply A. reflexivity.
Qed.
Print Assumptions C24_refutes_full_statement.

(* It HOLDS on the complement of that finding's domain: programs in which at most one thread ever calls getUpdate
   ([single_consumer], a Gallina boolean on the programs) -- any number of requesters and producers, all schedules. *)
Theorem C24_holds_except : forall kp progs s,
  single_consumer progs = true -> NoDup (all_tags progs) -> reach step (init kp progs) s ->
    (forall v, delivered v s <= 1) /\
    (forall h1 v h2, hist s = h1 ++ EvGet v :: h2 -> exists h3, h2 = EvEmplace v :: EvReq :: h3) /\
    (forall h1 v h2, hist s = h1 ++ EvEmplace v :: h2 -> exists h3, h2 = EvReq :: h3).
Proof.
  intros kp progs s SC ND Re. split; [|split].
  - intros v. exact (each_value_delivered_at_most_once kp progs s v SC ND Re).
  - intros h1 v h2. exact (get_only_after_emplace_since_request kp progs s h1 v h2 SC Re).
  - intros h1 v h2. exact (emplace_only_when_requested kp progs s h1 v h2 SC Re).
Qed.
Print Assumptions C24_holds_except.

(* the three parts separately *)
Theorem C24_each_value_delivered_at_most_once : forall kp progs s v,
  single_consumer progs = true -> NoDup (all_tags progs) -> reach step (init kp progs) s -> delivered v s <= 1.
Proof. exact each_value_delivered_at_most_once. Qed.
Print Assumptions C24_each_value_delivered_at_most_once.

Theorem C24_get_only_after_emplace_since_request : forall kp progs s h1 v h2,
  single_consumer progs = true -> reach step (init kp progs) s ->
  hist s = h1 ++ EvGet v :: h2 -> exists h3, h2 = EvEmplace v :: EvReq :: h3.
Proof. exact get_only_after_emplace_since_request. Qed.
Print Assumptions C24_get_only_after_emplace_since_request.

Theorem C24_emplace_only_when_requested : forall kp progs s h1 v h2,
  single_consumer progs = true -> reach step (init kp progs) s ->
  hist s = h1 ++ EvEmplace v :: h2 -> exists h3, h2 = EvReq :: h3.
Proof. exact emplace_only_when_requested. Qed.
Print Assumptions C24_emplace_only_when_requested.

(* what survives for EVERY program (any number of concurrent consumers): successful emplacements never outnumber
   successful requests, and a delivered value is one that was emplaced (nothing out of thin air) *)
Theorem C24_emplace_count_le_requests_any : forall kp progs s,
  reach step (init kp progs) s -> cntEmpAll (hist s) <= cntReq (hist s).
Proof. exact emplace_count_le_requests. Qed.
Print Assumptions C24_emplace_count_le_requests_any.

Theorem C24_delivered_was_emplaced_any : forall kp progs s v,
  reach step (init kp progs) s -> 0 < delivered v s -> 0 < cntEmp v (hist s) /\ In v (all_tags progs).
Proof. exact delivered_was_emplaced. Qed.
Print Assumptions C24_delivered_was_emplaced_any.

(* single consumer: at most one producer between its CAS and its store, at most one consumer between its load and its
   store, and the state word identifies who is inside *)
Theorem C24_sections_exclusive : forall kp progs s,
  single_consumer progs = true -> reach step (init kp progs) s ->
  nE (threads s) + nSR (threads s) <= 1 /\ nMV (threads s) + nSN (threads s) <= 1 /\
  (0 < nE (threads s) + nSR (threads s) -> word s = kUpdating) /\ (0 < nMV (threads s) + nSN (threads s) -> word s = kReady).
Proof. exact producer_consumer_exclusion. Qed.
Print Assumptions C24_sections_exclusive.

(* every state the executable scheduler visits is reachable, so the theorems apply to the runs compared with the real code *)
Theorem C24_run_reach : forall fuel kp progs sched,
  reach step (init kp progs) (fst (fst (run_ar fuel kp progs sched))).
Proof. intros. apply run_reach. apply reach_refl. Qed.
Print Assumptions C24_run_reach.

(* non-vacuity: a 4-thread program in the domain (one consumer, two producers, one extra requester) with unique tags
   whose run delivers a value *)
Example C24_nonvacuous :
  let progs := [[OReq; OGet; OReq; OGet; OGet]; [OUpdReq; OEmplace 5; OEmplace 6]; [OEmplace 8; OEmplace 9]; [OReq; OReq]] in
  single_consumer progs = true /\ NoDup (all_tags progs) /\
  let '(s, _, st) := run_ar 60 true progs [0;0;1;1;1;1;1;2;2;0;0;0;0;0;0;3;3;3;1;0;0;0;0;0;0;0;0;0;0;0;0;0;0;0;0;0;0;0;0;0] in
  st = SDone /\ delivered 5 s = 1 /\ 2 <= Z.of_nat (length (hist s)).
Proof.
  split; [reflexivity|]. split; [vm_compute; repeat constructor; cbn; intuition discriminate|].
  vm_compute. repeat split; try reflexivity. discriminate.
Qed.
