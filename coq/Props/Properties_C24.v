(* C24 -- AsyncRequest delivers each update at most once.
   Statements only.  Model: Model/AsyncReqModel.v = the code after the repair "fix: AsyncRequest::getUpdate must claim
   the update before moving it" (one step = one atomic access of state_ / one access of obj_, the move of obj_ being two
   steps: read, then -- after T's move constructor returns -- the source is disengaged (OpResult) or left engaged
   (std::optional)); any number of requester, producer AND consumer threads; any schedule; both OpResult flavours ([kp]).
   Tie: lockstep under harness/vsched.h on the real class in the C++14 and the C++17 build (props/C24.py).
   History: before the repair getUpdate tested `state_.load() == kReady`, and two concurrent consumers both moved the same
   obj_ (former theorem C24_refuted; its witness is the regression Example below and the first case of every check run). *)
From Coq Require Import ZArith List Bool.
From DV Require Import Base.MachInt Base.Sched Model.AsyncReqModel Proofs.C24Proofs.
Import ListNotations.
Local Open Scope Z_scope.

(* The property as the text states it ("with multiple producers and multiple consumers, as the class documentation
   permits"): for every program with unique tags, every schedule, every reachable state: no value is returned by two
   getUpdate calls (counted over the results of all threads), a value-returning getUpdate directly follows the
   emplacement of that value which directly follows the latest successful request, and every emplacement directly
   follows a successful request (ghost log [hist]: successful requests, emplacements, value-returning moves, newest first). *)
Definition C24_full_statement : Prop :=
  forall kp progs s, NoDup (all_tags progs) -> reach step (init kp progs) s ->
    (forall v, delivered v s <= 1) /\
    (forall h1 v h2, hist s = h1 ++ EvGet v :: h2 -> exists h3, h2 = EvEmplace v :: EvReq :: h3) /\
    (forall h1 v h2, hist s = h1 ++ EvEmplace v :: h2 -> exists h3, h2 = EvReq :: h3).

Theorem C24_holds : C24_full_statement.
Proof.
  intros kp progs s ND Re. split; [|split].
  - intros v. exact (each_value_delivered_at_most_once kp progs s v ND Re).
  - intros h1 v h2. exact (get_only_after_emplace_since_request kp progs s h1 v h2 Re).
  - intros h1 v h2. exact (emplace_only_when_requested kp progs s h1 v h2 Re).
Qed.
Print Assumptions C24_holds.

(* the three parts separately *)
Theorem C24_each_value_delivered_at_most_once : forall kp progs s v,
  NoDup (all_tags progs) -> reach step (init kp progs) s -> delivered v s <= 1.
Proof. exact each_value_delivered_at_most_once. Qed.
Print Assumptions C24_each_value_delivered_at_most_once.

Theorem C24_get_only_after_emplace_since_request : forall kp progs s h1 v h2,
  reach step (init kp progs) s ->
  hist s = h1 ++ EvGet v :: h2 -> exists h3, h2 = EvEmplace v :: EvReq :: h3.
Proof. exact get_only_after_emplace_since_request. Qed.
Print Assumptions C24_get_only_after_emplace_since_request.

Theorem C24_emplace_only_when_requested : forall kp progs s h1 v h2,
  reach step (init kp progs) s ->
  hist s = h1 ++ EvEmplace v :: h2 -> exists h3, h2 = EvReq :: h3.
Proof. exact emplace_only_when_requested. Qed.
Print Assumptions C24_emplace_only_when_requested.

(* counting forms: successful emplacements never outnumber successful requests; a delivered value is one that was
   emplaced (nothing out of thin air) *)
Theorem C24_emplace_count_le_requests : forall kp progs s,
  reach step (init kp progs) s -> cntEmpAll (hist s) <= cntReq (hist s).
Proof. exact emplace_count_le_requests. Qed.
Print Assumptions C24_emplace_count_le_requests.

Theorem C24_delivered_was_emplaced : forall kp progs s v,
  reach step (init kp progs) s -> 0 < delivered v s -> 0 < cntEmp v (hist s) /\ In v (all_tags progs).
Proof. exact delivered_was_emplaced. Qed.
Print Assumptions C24_delivered_was_emplaced.

(* mutual exclusion: at most one thread -- producer or consumer -- is between its CAS and its store, exactly when the
   state word is kUpdating *)
Theorem C24_sections_exclusive : forall kp progs s,
  reach step (init kp progs) s ->
  nSec (threads s) <= 1 /\ (0 < nSec (threads s) <-> word s = kUpdating).
Proof. exact sections_exclusive. Qed.
Print Assumptions C24_sections_exclusive.

(* every state the executable scheduler visits is reachable, so the theorems apply to the runs compared with the real code *)
Theorem C24_run_reach : forall fuel kp progs sched,
  reach step (init kp progs) (fst (fst (run_ar fuel kp progs sched))).
Proof. intros. apply run_reach. apply reach_refl. Qed.
Print Assumptions C24_run_reach.

(* regression: the schedule that used to deliver 7 to both consumers (both loads before either move) now lets exactly
   one consumer win the CAS; the other returns {} -- in both OpResult flavours *)
Example C24_regression_two_consumers : forall kp,
  let s := fst (fst (run_ar 20 kp [[OReq; OEmplace 7]; [OGet]; [OGet]] [0; 0; 0; 0; 0; 0; 1; 0; 1; 0; 1; 0; 1; 0; 0])) in
  delivered 7 s = 1 /\
  map (fun th => rev (res th)) (threads s) = [[(r_emplace, 1)]; [(r_get, 7)]; [(r_getnone, 0)]].
Proof. intros kp. destruct (regression_run kp) as (A & B & _). split; [exact A | exact B]. Qed.

(* non-vacuity: a 4-thread program (two consumers, two producers, requests from three threads) with unique tags whose
   run delivers a value *)
Example C24_nonvacuous :
  let progs := [[OReq; OGet; OReq; OGet; OGet]; [OUpdReq; OEmplace 5; OEmplace 6]; [OEmplace 8; OGet; OEmplace 9]; [OReq; OReq]] in
  NoDup (all_tags progs) /\
  let '(s, _, st) := run_ar 60 true progs [0;0;1;1;1;1;1;2;2;0;0;0;0;0;0;3;3;3;1;0;0;0;0;0;0;0;0;0;0;0;0;0;0;0;0;0;0;0;0;0] in
  st = SDone /\ delivered 5 s = 1 /\ 2 <= Z.of_nat (length (hist s)).
Proof.
  split; [vm_compute; repeat constructor; cbn; intuition discriminate|].
  vm_compute. repeat split; try reflexivity. discriminate.
Qed.
