(* C10 -- no data races under the declared memory orders.  PARTIAL BY NATURE (DESIGN §6.F).  Statements only.

   What is proved.
   (a) Generic, once: in every trace that follows the ownership discipline of Base/Own.v no two conflicting non-atomic
       accesses are unordered by happens-before (hb = program order + synchronizes-with, the latter only where the DECLARED
       orders give it: release/acquire operations, C++20 release sequences continued by read-modify-writes, fences).
   (b) Per hand-off protocol, for ALL interleavings of its message-passing skeleton (any number of offerers / takers /
       bystanders): IF the orders declared at its sites are >= Release / >= Acquire THEN every reachable trace is disciplined,
       hence race free.  The IF part is closed by computation against the order table regenerated from /repo on every run:
       GenTie/OrdersGenTie.v (one lemma per hand-off; theorem protocols_race_free).
   (c) The side conditions are necessary (a weaker store or load gives a racy trace), the fence rule is usable, and
       ChaseLevDeque's slot accesses are racy by design (refutation witness).
   Executions: interleaving-consistent ones (one total order embedding program order, each atomic's modification order and
   reads-from; SC per location).  NOT covered: store-/load-buffering outcomes of relaxed atomics, out-of-thin-air, mixed-size
   atomics; every atomic site outside the listed hand-offs (thread-pool scheduling internals, wake state, stripe cursors,
   moodycamel); the link skeleton <-> source beyond the extracted orders (tied only by the TSan probes of props/C10.py). *)
From Coq Require Import ZArith List Bool String.
From DV Require Import Gen.GenOrders Base.Own Model.OwnProtocols Proofs.OwnProofs Proofs.C10Proofs Proofs.C10Witnesses.
Import ListNotations.

(* the whole-library statement: not provable here -- [library_trace] (the traces of all programs that use dispenso within its
   documented contract, under the C++ memory model) is not modelled *)
Definition C10_full_statement (library_trace : trace -> Prop) : Prop := forall tr, library_trace tr -> drf tr.

(* (a) *)
Theorem C10_own_discipline_implies_drf : forall (tr : trace) (init : gstate) (N : nat),
  disciplined tr init N -> drf tr.
Proof. exact own_discipline_implies_drf. Qed.
Print Assumptions C10_own_discipline_implies_drf.

Theorem C10_no_unordered_conflict : forall (tr : trace) (init : gstate) (N : nat),
  disciplined tr init N ->
  forall i j, i <> j -> (conflict tr i j \/ conflict tr j i) -> hb tr i j \/ hb tr j i.
Proof. exact drf_no_unordered_conflict. Qed.
Print Assumptions C10_no_unordered_conflict.

(* (b) for ANY hand-off given as data (sites, kinds), any number of offerers admitted by its kind and of takers *)
Theorem C10_protocol_disciplined_partial : forall (h : handoff) (noff ntake : nat),
  kinds_ok h = true -> handoff_ok h = true -> noff_ok h noff = true -> 1 <= ntake ->
  forall s, reach (proto_of h noff ntake) s ->
    disciplined (s_tr s) init_g ntake /\ drf (s_tr s).
Proof. exact protocol_disciplined. Qed.
Print Assumptions C10_protocol_disciplined_partial.

(* the same at the level of the skeleton: the orders enter only through orders_ok *)
Theorem C10_skeleton_race_free : forall p : proto,
  wf_proto p = true -> orders_ok p = true -> forall s, reach p s -> drf (s_tr s).
Proof. exact skel_drf. Qed.
Print Assumptions C10_skeleton_race_free.

(* the executable runner used for examples only produces reachable states *)
Theorem C10_run_reach : forall p acts s, run p st0 acts = Some s -> reach p s.
Proof. intros p acts s H. exact (run_reach p acts st0 s (reach0 p) H). Qed.
Print Assumptions C10_run_reach.

(* known gaps: hand-offs of gap_handoffs and ChaseLevDeque's slot accesses.  Everything else in the data is covered by (b). *)
Definition known_C10_gap (h : handoff) : bool := existsb (fun g => String.eqb (h_name g) (h_name h)) gap_handoffs.

Theorem C10_holds_except : forall h, In h (app handoffs gap_handoffs) -> known_C10_gap h = false ->
  handoff_ok h = true -> kinds_ok h = true ->
  forall noff ntake s, noff_ok h noff = true -> 1 <= ntake -> reach (proto_of h noff ntake) s -> drf (s_tr s).
Proof.
  intros h _ _ O K noff ntake s Hn Ht R. exact (proj2 (protocol_disciplined h noff ntake K O Hn Ht s R)).
Qed.
Print Assumptions C10_holds_except.

(* (c) necessity of the side conditions *)
Theorem C10_weak_order_races : forall m_store m_load,
  order_ge m_store Release = false \/ order_ge m_load Acquire = false -> ~ drf (mp_trace m_store m_load).
Proof. exact weak_order_races. Qed.
Print Assumptions C10_weak_order_races.

Theorem C10_fence_rule_usable : disciplined fence_trace (fun l _ => Held l) 1 /\ drf fence_trace.
Proof. exact (conj fence_mp_disciplined fence_mp_drf). Qed.
Print Assumptions C10_fence_rule_usable.

(* refutation witness: ChaseLevDeque, slow stealer's tentative slot read vs. the owner's wrapped-around slot write *)
Theorem C10_refuted : exists tr i j, conflict tr i j /\ ~ hb tr i j /\ ~ hb tr j i.
Proof. exists chaselev_trace, 5, 6. exact chaselev_slot_race. Qed.
Print Assumptions C10_refuted.

(* non-vacuity: an SPSC-shaped run (1 producer, 1 consumer) in which both sides write the payload; the orders are those of
   a release store / acquire load; the run is accepted by the skeleton and contains a cross-thread conflict (ordered). *)
Example C10_nonvacuous :
  let p := {| n_off := 1; n_take := 1; off_kind := AStore; take_kind := ALoad; off_mos := [Release]; take_mos := [Acquire] |} in
  wf_proto p = true /\ orders_ok p = true /\
  match run p st0 [AAccess 0 0 true; AOther 1 false Relaxed; AOffer 0 0; AAcquire 0 Acquire; APublish 0 Release;
                   AOther 2 true Relaxed; AAcquire 0 Acquire; ATake 0 0; AAccess 1 0 true] with
  | Some s => List.length (s_tr s) = 9 /\ nth_error (s_tr s) 0 = Some (0, Na_write 0) /\ nth_error (s_tr s) 8 = Some (1, Na_write 0)
  | None => False
  end.
Proof. vm_compute. repeat split; reflexivity. Qed.
