(* C02 -- task-set wait is a completion barrier.
   Statements only.  Model: Model/TaskSetModel.v (one sited step per atomic access of TaskSetBase / TaskSet / ConcurrentTaskSet at the
   DISPENSO_VERIF_POINT hooks, silent steps for the abstract pool: a bag of packaged tasks, any dequeue order); any number of threads,
   sets, tasks; programs over schedule / scheduleBulk (plain and ForceQueuingTag), wait, tryWait, cancel, pool workers, throwing and
   nested bodies; ALL interleavings of the fine-grained steps ([reach step1]).  Tie: GenTie/TaskSetGenTie.v (decisions) + lockstep
   under harness/vsched.h (props/C02.py).
   PARTIAL in one respect: futures / continuations bound to a set (detail/future_impl.h increments the set's counter at construction
   and decrements it after publishing the result) are not operations of this model; they belong to the future component (C18-C20). *)
From Coq Require Import ZArith List Bool.
From DV Require Import Base.MachInt Base.Sched Model.TaskSetModel Proofs.TaskSetProofs Proofs.TaskSetMoreProofs.
Import ListNotations.
Local Open Scope Z_scope.

(* outstanding(T) = #{queued packaged tasks of T} + in-flight contributions: 1 per wrapper that has not yet decremented (running, skipping,
   capturing an exception) and per packageTask between its increment and the hand-over, m per bulk pre-increment whose m tasks are not
   yet enqueued -- for every reachable state of every program *)
Theorem C02_outstanding_counts : forall u s, reach step1 (init u) s ->
  forall T, outst (sets (sh s) T) = qcount T (queue (sh s)) + tsum (contrib T) (threads s).
Proof. exact outstanding_counts. Qed.
Print Assumptions C02_outstanding_counts.

(* every counted task (ledger LPend / LRun: submitted through packageTask or a bulk pre-increment, body not finished, not skipped) is in the
   queue or held by exactly the frames that contribute to the counter *)
Theorem C02_ledger_held : forall u s, reach step1 (init u) s ->
  forall T k, counted (ledger (sh s) k) T = true -> 1 <= qcountk T k (queue (sh s)) + tsum (holds T k) (threads s).
Proof. exact ledger_held. Qed.
Print Assumptions C02_ledger_held.

(* wait_is_barrier: when a waiter's loop-head load of outstandingTaskCount_ reads 0 (it then leaves the loop: next frame is
   testAndResetException), no task of T is queued, none is in flight, and every task of T that was ever counted -- in particular every
   task whose scheduling call returned before wait was called, in program order or in real time -- is Done (body ran to its end or threw)
   or Skipped (the wrapper read canceled_ = true). *)
Theorem C02_wait_is_barrier_partial : forall u s t th T rest,
  reach step1 (init u) s -> nth_error (threads s) t = Some th -> stk th = FWaitLoad T :: rest -> outst (sets (sh s) T) = 0 ->
  step_top (sh s) th (FWaitLoad T) rest (clock (sh s) + 1) = Some (sh s, FTestGuard T false :: rest, []) /\
  (forall k, counted (ledger (sh s) k) T = false) /\
  qcount T (queue (sh s)) = 0 /\ (forall th' f, In th' (threads s) -> In f (stk th') -> contrib T f = 0).
Proof. exact wait_is_barrier. Qed.
Print Assumptions C02_wait_is_barrier_partial.

(* tryWait returns true only through its final load reading 0 (FTwLoad2): same conclusion *)
Theorem C02_trywait_true_sound_partial : forall u s t th T rest,
  reach step1 (init u) s -> nth_error (threads s) t = Some th -> stk th = FTwLoad2 T :: rest ->
  (outst (sets (sh s) T) <> 0 -> exists c, step_top (sh s) th (FTwLoad2 T) rest c = Some (sh s, rest, [(t_tw, enc 0 T, c)])) /\
  (outst (sets (sh s) T) = 0 ->
     (forall k, counted (ledger (sh s) k) T = false) /\ qcount T (queue (sh s)) = 0 /\
     (forall th' f, In th' (threads s) -> In f (stk th') -> contrib T f = 0)).
Proof. exact trywait_true_sound. Qed.
Print Assumptions C02_trywait_true_sound_partial.

(* conversely the counter returns to zero as soon as nothing of T is queued or in flight, whatever the bodies did (throwing included):
   the destructor's / wait's loop terminates once all tasks finished *)
Theorem C02_quiescent_zero : forall u s T, reach step1 (init u) s -> qcount T (queue (sh s)) = 0 ->
  (forall th f, In th (threads s) -> In f (stk th) -> contrib T f = 0) -> outst (sets (sh s) T) = 0.
Proof. exact quiescent_zero. Qed.
Print Assumptions C02_quiescent_zero.

(* every state the executable scheduler (the one compared step by step with the real code) visits is reachable, so the theorems apply to
   the runs replayed on the implementation *)
Theorem C02_run_reach : forall fuel u sched, reach step1 (init u) (fst (fst (run_ts fuel u sched))).
Proof. exact run_ts_reach. Qed.
Print Assumptions C02_run_reach.

(* The full property additionally ranges over futures / continuations bound to the set; for the operations of the model it reads: *)
Definition C02_full_statement : Prop :=
  forall u s T, reach step1 (init u) s -> outst (sets (sh s) T) = 0 -> forall k, counted (ledger (sh s) k) T = false.

(* non-vacuity: a producer schedules a force-queued task and a 2-task bulk on a ConcurrentTaskSet and waits; a worker thread and the waiter
   itself execute them; the wait returns (not cancelled) after all three bodies ended, everything is Done *)
Example C02_nonvacuous :
  let u := SU [TC true false 4 []] [] 0 1 32 3 0 [] [([OSched 0 true false []; OBulk 0 false 2 []; OWait 0], false, 0); ([OWorker], true, 0)] in
  let '(s, tr, st) := run_ts 80 u [0;0;0;0;0;0;1;1;1;1;1;0;0;0;0;0;0;0;0;0;0;0;0;0;0;0;0;0;0;0;0;0;0;0;0;0;0;0;0;0;0;0;0;0;0;0] in
  st = SDone /\ outst (sets (sh s) 0) = 0 /\ map (ledger (sh s)) [1; 2; 3] = [LDone 0; LDone 0; LDone 0] /\
  existsb (fun e => (fst (fst e) =? t_w) && (snd (fst e) =? enc 0 0)) (res (nth 0 (threads s) (TH [] [] false 0))) = true.
Proof. vm_compute. repeat split; reflexivity. Qed.
