(* C08 -- pool work accounting returns to zero at quiescence.
   Statements only.  Model: Model/PoolModel.v; [wr] = workRemaining_, [acc] = queued + held/executing-not-yet-decremented +
   sum localWorkDone + pending decrements (executeNext and the drain loops) + additions not yet placed.  Tie: event-level lockstep (props/C08.py); the
   counter is read through the guarded accessor ThreadPool::verifWorkRemaining() / a private-access snapshot at quiescent points. *)
From Coq Require Import ZArith List Bool.
From DV Require Import Model.PoolModel Proofs.PoolProofs Proofs.C08Proofs.
Import ListNotations.
Local Open Scope Z_scope.

(* the accounting invariant over ALL accepted event sequences *)
Theorem C08_accounting_invariant : forall rcap scap share n0 tr s,
  accepts rcap scap share (init share n0) tr = Some s -> wr s = acc s.
Proof. exact accounting. Qed.
Print Assumptions C08_accounting_invariant.

(* C08, unrestricted: at quiescence (all tiers empty, every thread idle: nothing held, executing, pending, no local batch, no owed
   decrement) the counter is zero -- for every history of submissions, task-set use and resizes, including resizes and destructors that
   drain queued ring / steal-ring work themselves (since fix 8892b78 those drains decrement like executeNext). *)
Theorem C08_workRemaining_zero_at_quiescence : forall rcap scap share n0 tr s,
  accepts rcap scap share (init share n0) tr = Some s -> quiescent s = true -> wr s = 0.
Proof. exact wr_zero_at_quiescence. Qed.
Print Assumptions C08_workRemaining_zero_at_quiescence.

(* regression: the former counterexample -- the real trace of "pool(4); TaskSet::scheduleBulk(2) to rings 0,1 (workRemaining_ += 2);
   resize(2) before any worker pops" -- now ends quiescent with the counter at 0 (it used to stay at 2 for the rest of the pool's life) *)
Example C08_regression_ring_drain : exists s,
  accepts 16 32 8 (init 8 4) c08_witness = Some s /\ quiescent s = true /\ rz s = RIdle /\ done s = [1; 0] /\ wr s = 0.
Proof. exact c08_regression_witness. Qed.

(* non-vacuity: a second real trace (pool(2), two force-queued tasks, one of them pool-recursive, scheduleBulk(3), destructor)
   that ends quiescent with the counter at 0 *)
Definition c08_clean : list (nat * event) :=
  [(1%nat,EWorkerBegin 0); (2%nat,EWorkerBegin 1); (0%nat,EGen 0); (0%nat,ELoadNumThreads true 1); (0%nat,EAdd 1 1); (0%nat,EEnqCentral 0 1); (0%nat,EGen 1);
   (0%nat,ELoadNumThreads true 1); (0%nat,EAdd 1 1); (0%nat,EEnqCentral 0 1); (0%nat,ELoadNumThreads true 2); (0%nat,EAdd 3 2); (0%nat,EGen 2); (0%nat,EGen 3);
   (0%nat,EGen 4); (0%nat,EEnqCentral 0 3); (1%nat,EPopCentral 0 1); (2%nat,EPopCentral 1 1); (1%nat,EBodyBegin 0); (2%nat,EBodyBegin 1); (1%nat,EBodyEnd 0);
   (2%nat,EGen 5); (2%nat,ELoadNumThreads true 1); (1%nat,EPopCentral 2 1); (2%nat,EAdd 1 1); (1%nat,EBodyBegin 2); (1%nat,EBodyEnd 2); (1%nat,EPopCentral 3 1);
   (1%nat,EBodyBegin 3); (1%nat,EBodyEnd 3); (1%nat,EPopCentral 4 1); (1%nat,EBodyBegin 4); (1%nat,EBodyEnd 4); (1%nat,ESub 4 3); (2%nat,EEnqCentral 1 1);
   (2%nat,EBodyEnd 1); (1%nat,EPopCentral 5 1); (1%nat,EBodyBegin 5); (1%nat,EBodyEnd 5); (1%nat,ESub 1 3); (2%nat,ESub 1 3)].
Example C08_nonvacuous :
  exists s, accepts 16 32 8 (init 8 2) c08_clean = Some s /\ quiescent s = true /\ wr s = 0 /\ length (done s) = 6%nat.
Proof. eexists. vm_compute. repeat split. Qed.
