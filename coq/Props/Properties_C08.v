(* C08 -- pool work accounting returns to zero at quiescence.
   Statements only.  Model: Model/PoolModel.v; [wr] = workRemaining_, [acc] = queued + held/executing-not-yet-decremented +
   sum localWorkDone + pending executeNext decrements + additions not yet placed + LEAKED, where LEAKED counts the tasks that the ring /
   steal-ring drain loops of resizeLocked and ~ThreadPool ran by calling task() directly.  Tie: event-level lockstep (props/C08.py); the
   counter is read through the guarded accessor ThreadPool::verifWorkRemaining() / a private-access snapshot at quiescent points. *)
From Coq Require Import ZArith List Bool.
From DV Require Import Model.PoolModel Proofs.PoolProofs Proofs.C08Proofs.
Import ListNotations.
Local Open Scope Z_scope.

(* the accounting invariant over ALL accepted event sequences *)
Theorem C08_accounting_invariant : forall rcap scap share n0 tr s,
  accepts rcap scap share (init share n0) tr = Some s -> wr s = acc s /\ leaked s = drains tr.
Proof. exact accounting. Qed.
Print Assumptions C08_accounting_invariant.

(* at quiescence (all tiers empty, every thread idle: nothing held, executing, pending, no local batch, no owed decrement) the counter
   equals the number of drain pops that ever happened *)
Theorem C08_workRemaining_at_quiescence : forall rcap scap share n0 tr s,
  accepts rcap scap share (init share n0) tr = Some s -> quiescent s = true -> wr s = drains tr.
Proof. exact wr_at_quiescence. Qed.
Print Assumptions C08_workRemaining_at_quiescence.

(* the statement one would like *)
Definition C08_full_statement : Prop :=
  forall rcap scap share n0 tr s, accepts rcap scap share (init share n0) tr = Some s -> quiescent s = true -> wr s = 0.

(* It is FALSE of the code as written: witness = the real trace of "pool(4); TaskSet::scheduleBulk(2) to rings 0,1 (workRemaining_ += 2);
   resize(2) before any worker pops: resizeLocked drains the two rings with task() and no decrement".  Both tasks are done, everything is
   idle, and workRemaining_ stays 2 for the rest of the pool's life. *)
Theorem C08_refuted : exists n0 tr s,
  accepts 16 32 8 (init 8 n0) tr = Some s /\ quiescent s = true /\ rz s = RIdle /\ wr s = 2.
Proof. destruct c08_refuted_witness as (s & H & Q & I & _ & W). exists 4, c08_witness, s. auto. Qed.
Print Assumptions C08_refuted.

(* It HOLDS on the complement of the finding's domain: histories without a ring / steal-ring drain pop *)
Theorem C08_holds_except : forall rcap scap share n0 tr s,
  accepts rcap scap share (init share n0) tr = Some s -> drains tr = 0 -> quiescent s = true -> wr s = 0.
Proof. exact wr_zero_except. Qed.
Print Assumptions C08_holds_except.

(* non-vacuity: a real trace without drains (pool(2), two force-queued tasks, one of them pool-recursive, scheduleBulk(3), destructor)
   that ends quiescent with the counter at 0 *)
Definition c08_clean : list (nat * event) :=
  [(1%nat,EWorkerBegin 0); (2%nat,EWorkerBegin 1); (0%nat,EGen 0); (0%nat,ELoadNumThreads true 1); (0%nat,EAdd 1 1); (0%nat,EEnqCentral 0 1); (0%nat,EGen 1);
   (0%nat,ELoadNumThreads true 1); (0%nat,EAdd 1 1); (0%nat,EEnqCentral 0 1); (0%nat,ELoadNumThreads true 2); (0%nat,EAdd 3 2); (0%nat,EGen 2); (0%nat,EGen 3);
   (0%nat,EGen 4); (0%nat,EEnqCentral 0 3); (1%nat,EPopCentral 0 1); (2%nat,EPopCentral 1 1); (1%nat,EBodyBegin 0); (2%nat,EBodyBegin 1); (1%nat,EBodyEnd 0);
   (2%nat,EGen 5); (2%nat,ELoadNumThreads true 1); (1%nat,EPopCentral 2 1); (2%nat,EAdd 1 1); (1%nat,EBodyBegin 2); (1%nat,EBodyEnd 2); (1%nat,EPopCentral 3 1);
   (1%nat,EBodyBegin 3); (1%nat,EBodyEnd 3); (1%nat,EPopCentral 4 1); (1%nat,EBodyBegin 4); (1%nat,EBodyEnd 4); (1%nat,ESub 4 3); (2%nat,EEnqCentral 1 1);
   (2%nat,EBodyEnd 1); (1%nat,EPopCentral 5 1); (1%nat,EBodyBegin 5); (1%nat,EBodyEnd 5); (1%nat,ESub 1 3); (2%nat,ESub 1 3)].
Example C08_nonvacuous :
  exists s, accepts 16 32 8 (init 8 2) c08_clean = Some s /\ drains c08_clean = 0 /\ quiescent s = true /\ wr s = 0 /\ length (done s) = 6%nat.
Proof. eexists. vm_compute. repeat split. Qed.
