(* C34 -- MpmcRingBuffer is an exactly-once bounded FIFO.
   Statements only.  Model: Model/MpmcModel.v (one step = one atomic access of tail_/head_/slot.seq or one slot payload
   access (placement-new, move-out, destructor call: each its own step) of dispenso::MpmcRingBuffer: emplaceImpl (try_push/try_emplace), the try_pop variants, try_push_batch with
   its validation loop and single CAS; ANY number of threads, each running an arbitrary script of pushes and pops, any
   schedule, any kBufferSize >= 2, power of two or not).  Ghost: gpush s = per position (in claim order) the pusher and
   the value; gpopped s = (popper, (position, value returned)) per completed pop; per slot the phase of the position it
   serves.  Element lifetimes: Base/Life.v ledger keyed by slot.  Tie: lockstep under harness/vsched.h (props/C34.py).
   64-bit position wrap is EXCLUDED: all statements are about [gstep], which is the code's [step] as long as
   tail + 2*kBufferSize < 2^62 (C34_guard_is_step) and refuses to move afterwards. *)
From Coq Require Import ZArith List Bool Permutation.
From DV Require Import Base.MachInt Base.Sched Base.Life Model.MpmcModel Proofs.C34Proofs.
Import ListNotations.
Local Open Scope Z_scope.

(* the central invariant (DESIGN 6, C34): head <= tail <= head + N; every slot is in one of the phases
   free / claimed / written / full / taking / taken for a position congruent to its index, its sequence number is that
   position (free, claimed, written) or position + 1 (full, taking, taken); transient phases belong to exactly one thread,
   which is inside the corresponding operation (Own) and knows it (Loc) *)
Theorem C34_invariant : forall n progs s, 2 <= n -> reach gstep (init n progs) s -> Inv s /\ Own s.
Proof. exact mpmc_reach_inv. Qed.
Print Assumptions C34_invariant.

(* exactly-once, part 1 (every reachable state): no position is popped twice, only claimed positions are popped, and a
   pop returns the value that was claimed for (and written at) its position *)
Theorem C34_exactly_once_at_most : forall n progs s, 2 <= n -> reach gstep (init n progs) s ->
  NoDup (map qpos (gpopped s)) /\
  forall e, In e (gpopped s) -> 0 <= qpos e < head s /\ qval e = gval (gpush s) (qpos e).
Proof. exact mpmc_at_most_once. Qed.
Print Assumptions C34_exactly_once_at_most.

(* exactly-once, part 2 (quiescence): accepted elements = delivered elements + buffer contents, as multisets *)
Theorem C34_exactly_once_quiescent : forall n progs s, 2 <= n -> reach gstep (init n progs) s -> quiescent s = true ->
  Permutation (map snd (gpush s)) (map qval (gpopped s) ++ contents s).
Proof. exact mpmc_exactly_once_quiescent. Qed.
Print Assumptions C34_exactly_once_quiescent.

(* FIFO by claim: positions are handed out in tail order (gpush has one entry per position < tail), a successful head
   CAS claims exactly position head and advances head by one, and the pop that claimed position p returns the value
   claimed for p -- both for completed pops and for the pop in flight *)
Theorem C34_fifo_by_claim : forall n progs s, 2 <= n -> reach gstep (init n progs) s ->
  zlen (gpush s) = tail s /\
  (forall e, In e (gpopped s) -> qval e = gval (gpush s) (qpos e)) /\
  (forall t th h0 v, nth_error (threads s) t = Some th -> tpc th = PPopStoreSeq h0 v -> v = gval (gpush s) h0 /\ 0 <= h0 < head s).
Proof. exact mpmc_fifo_by_claim. Qed.
Print Assumptions C34_fifo_by_claim.

Theorem C34_head_claims_in_order : forall n progs s t ch s' ch' site, 2 <= n -> reach gstep (init n progs) s ->
  gstep s t ch = Some (s', ch', site) ->
  head s' = head s \/
  (head s' = head s + 1 /\ exists th', nth_error (threads s') t = Some th' /\ tpc th' = PPopRead (head s)).
Proof. exact mpmc_head_claims_in_order. Qed.
Print Assumptions C34_head_claims_in_order.

(* bounded: never more than capacity() = kBufferSize positions between head and tail *)
Theorem C34_bounded : forall n progs s, 2 <= n -> reach gstep (init n progs) s ->
  0 <= head s <= tail s /\ tail s - head s <= N s /\ zlen (contents s) = tail s - head s.
Proof. exact mpmc_bounded. Qed.
Print Assumptions C34_bounded.

(* in a quiescent state, a thread running try_pop alone fails (2 steps, nothing changes) iff the buffer is empty, and
   otherwise succeeds (7 steps: head load, tail load, seq load, head CAS, move-out, destructor, seq store) delivering the
   element of position head *)
Theorem C34_quiescent_pop_iff_nonempty : forall n progs s t th, 2 <= n -> reach gstep (init n progs) s -> quiescent s = true ->
  nth_error (threads s) t = Some th -> tpc th = PPopLoadHead -> tail s + 2 * N s < 2 ^ 62 ->
  (head s = tail s ->
     solo 2 s t = Some (ST (N s) (head s) (tail s) (slots s) (led s)
                        (set_nth (set_nth (threads s) t (goto th (PPopLoadTail (head s)))) t (advance (prog th) ((r_popfail, 0) :: res th)))
                        (gpush s) (gpopped s))) /\
  (head s < tail s ->
     exists s', solo 7 s t = Some s' /\ head s' = head s + 1 /\ tail s' = tail s /\
             gpopped s' = gpopped s ++ [(Z.of_nat t, (head s, gval (gpush s) (head s)))] /\
             nth_error (threads s') t = Some (advance (prog th) ((r_pop, gval (gpush s) (head s)) :: res th))).
Proof. exact mpmc_quiescent_pop_iff_nonempty. Qed.
Print Assumptions C34_quiescent_pop_iff_nonempty.

(* in a quiescent state, a thread running try_push(v) alone fails (2 steps, nothing changes) iff the buffer is full, and
   otherwise succeeds (5 steps) publishing v at position tail *)
Theorem C34_quiescent_push_iff_notfull : forall n progs s t th v, 2 <= n -> reach gstep (init n progs) s -> quiescent s = true ->
  nth_error (threads s) t = Some th -> tpc th = PPushLoadTail v -> tail s + 2 * N s + 1 < 2 ^ 62 ->
  (tail s - head s = N s ->
     solo 2 s t = Some (ST (N s) (head s) (tail s) (slots s) (led s)
                        (set_nth (set_nth (threads s) t (goto th (PPushLoadSeq v (tail s)))) t (advance (prog th) ((r_pushfail, v) :: res th)))
                        (gpush s) (gpopped s))) /\
  (tail s - head s < N s ->
     exists s', solo 5 s t = Some s' /\ tail s' = tail s + 1 /\ head s' = head s /\
             gpush s' = gpush s ++ [(Z.of_nat t, v)] /\
             seq (slots s' (tail s mod N s)) = tail s + 1 /\ val (slots s' (tail s mod N s)) = v /\
             nth_error (threads s') t = Some (advance (prog th) ((r_push, v) :: res th))).
Proof. exact mpmc_quiescent_push_iff_notfull. Qed.
Print Assumptions C34_quiescent_push_iff_notfull.

(* lifetimes: the ledger never records a misuse; at quiescence exactly the slots of positions head .. tail-1 hold live
   elements; the destructor then leaves none and records no misuse: every element is destroyed exactly once *)
Theorem C34_lifetimes : forall n progs s, 2 <= n -> reach gstep (init n progs) s ->
  l_errs (led s) = [] /\
  (quiescent s = true ->
     (forall p, head s <= p < tail s -> lget (led s) (p mod N s) = Alive) /\
     (forall p, tail s <= p < head s + N s -> is_live (lget (led s) (p mod N s)) = false)).
Proof. exact mpmc_lifetimes. Qed.
Print Assumptions C34_lifetimes.

(* the payload is dead before the sequence store that hands the slot back to the producers: a thread about to execute
   slot.seq.store(head + kBufferSize) holds the slot in phase Taken and the slot holds no live element *)
Theorem C34_payload_dead_before_release : forall n progs s t th h0 v, 2 <= n -> reach gstep (init n progs) s ->
  nth_error (threads s) t = Some th -> tpc th = PPopStoreSeq h0 v ->
  ph (slots s (h0 mod N s)) = Taken t /\ is_live (lget (led s) (h0 mod N s)) = false.
Proof. exact mpmc_payload_dead_before_release. Qed.
Print Assumptions C34_payload_dead_before_release.

Theorem C34_destructor_balanced : forall n progs s, 2 <= n -> reach gstep (init n progs) s -> quiescent s = true ->
  tail s < 2 ^ 62 ->
  l_errs (dtor s) = [] /\ forall i, 0 <= i < N s -> is_live (lget (dtor s) i) = false.
Proof. exact mpmc_dtor_balanced. Qed.
Print Assumptions C34_destructor_balanced.

(* the explicit no-wrap hypothesis: below the bound the guarded step is exactly the model of the code *)
Theorem C34_guard_is_step : forall s t ch, tail s + 2 * N s < 2 ^ 62 -> gstep s t ch = step s t ch.
Proof. exact gstep_is_step. Qed.
Print Assumptions C34_guard_is_step.

(* every state the executable scheduler visits is reachable, so the theorems apply to the runs compared with the real code *)
Theorem C34_run_reach : forall fuel n progs sched,
  reach gstep (init n progs) (fst (fst (run_mpmc fuel n progs sched))).
Proof. exact mpmc_run_reach. Qed.
Print Assumptions C34_run_reach.

(* in a quiescent state, a thread running try_push_batch(items, count) alone accepts exactly
   min(count, kBufferSize, free space) elements (0 iff the buffer is full), publishes them at positions tail ..., logs
   them in order, and leaves the buffer quiescent again *)
Theorem C34_quiescent_push_batch : forall n progs s t th vs, 2 <= n -> reach gstep (init n progs) s -> quiescent s = true ->
  nth_error (threads s) t = Some th -> tpc th = PBLoadTail vs -> tail s + 3 * N s < 2 ^ 62 ->
  let k := Z.min (Z.min (zlen vs) (N s)) (N s - (tail s - head s)) in
  exists steps s', solo steps s t = Some s' /\ tail s' = tail s + k /\ head s' = head s /\ quiescent s' = true /\
    nth_error (threads s') t =
      Some (advance (prog th) ((r_pushb, k) :: rev (map (fun v => (r_push, v)) (firstn (Z.to_nat k) vs)) ++ res th)).
Proof. exact mpmc_quiescent_push_batch. Qed.
Print Assumptions C34_quiescent_push_batch.

(* within ONE thread, successive completed pops claimed strictly increasing positions: a consumer sees the elements of
   any one producer (whose successive pushes claim increasing positions, gpush being ordered by position) in that
   producer's push order *)
Theorem C34_per_thread_pop_order : forall n progs s l1 e1 l2 e2 l3, 2 <= n -> reach gstep (init n progs) s ->
  gpopped s = l1 ++ e1 :: l2 ++ e2 :: l3 -> fst e1 = fst e2 -> qpos e1 < qpos e2.
Proof. exact mpmc_per_thread_pop_order. Qed.
Print Assumptions C34_per_thread_pop_order.

(* NOT proved: the tie between a PRODUCER's result log and its entries of gpush (that the values a thread's pushes report
   as accepted are, in program order, exactly that thread's entries of gpush) -- true by construction of [step] (the
   r_push result and the gpush entry carry the same value) but not stated as a theorem; and linearizability in the sense
   needed by C01 (DESIGN: mpmc_linearizable).  The lockstep judge checks per-consumer per-producer order on the
   implementation's result logs (Model/C34Check.v, subseqb). *)
Definition C34_full_statement_producer_log : Prop :=
  forall n progs s t th, 2 <= n -> reach gstep (init n progs) s -> quiescent s = true ->
  nth_error (threads s) t = Some th ->
  map snd (filter (fun e => fst e =? Z.of_nat t) (gpush s)) = map snd (filter (fun x => fst x =? r_push) (rev (res th))).

(* non-vacuity: 3 threads on a 3-slot ring (not a power of two): two producers race for a position (one CAS fails),
   a batch is cut short by a full ring, the consumer wraps the slot index; the run ends quiescent with
   accepted = delivered + contents *)
Example C34_nonvacuous :
  let progs := [[OPush 1; OPushBatch [3; 4; 5]]; [OPush 2]; [OPop; OPop; OPop]] in
  let sched := [0;1;0;1;0;1;0;1;0;1;0;1;0;0;0;0;0;0;0;0;0;0;0;0;0;0;2;2;2;2;2;2;2;2;2;2;2;2;2;2;2;2;2;2;2;2;2;2;2;2] in
  let '(s, tr, st) := run_mpmc 100 3 progs sched in
  st = SDone /\ quiescent s = true /\ map snd (gpush s) = [1; 3; 4] /\ map qval (gpopped s) = [1; 3; 4] /\
  contents s = [] /\ head s = 3 /\ tail s = 3 /\
  map (fun th => rev (res th)) (threads s) = [[(1,1); (1,3); (1,4); (5,2)]; [(2,2)]; [(3,1); (3,3); (3,4)]].
Proof. vm_compute. repeat split; reflexivity. Qed.
