(* C20 -- Timed waits: "ready" means done, "timeout" means the requested time elapsed; timed Future waits run a
   not-yet-started functor only under the deferred policy.  Statements only.
   Models: Model/EventModel.v (waitFor/waitUntil loop of CompletionEventImpl at hook granularity; a timed futex wait
   may time out whenever the scheduler says so) and Model/TimedModel.v (abstract ns clock on top: a timed futex wait
   times out only when now - (start of that futex wait) >= requested -- the kernel's contract, trusted). *)
From Coq Require Import ZArith List Bool.
From DV Require Import Base.MachInt Base.Sched Model.EventModel Model.TimedModel Proofs.C21Proofs Proofs.C20Proofs.
Import ListNotations.
Local Open Scope Z_scope.

(* a timed wait reports completion only at a load that read the completed value: any number of threads, any schedule *)
Theorem C20_true_only_when_complete : forall s t ch s' ch' site th th',
  nth_error (threads s) t = Some th -> step s t ch = Some (s', ch', site) -> nth_error (threads s') t = Some th' ->
  res th' = (r_waitfor, 1) :: res th ->
  exists v, ((exists pos, tpc th = PWfLoad0 v pos) \/ tpc th = PWaitLoad v 1) /\ word s = v.
Proof. exact waitfor_true_sound. Qed.
Print Assumptions C20_true_only_when_complete.

(* every timeout report, in every clocked run (any programs, any interleaving with notifications and clock ticks):
   either the request was non-positive, or at least the requested time elapsed between the call and the report *)
Theorem C20_timeout_only_after_elapsed : forall req w0 progs evs s,
  trun req (tinit w0 progs) evs = Some s ->
  Forall (fun e : Z * Z * bool => let '(elapsed, requested, pos) := e in pos = false \/ requested <= elapsed) (flog s).
Proof. exact timeout_only_after_elapsed. Qed.
Print Assumptions C20_timeout_only_after_elapsed.

(* the clocked system is a restriction of the untimed one that the lockstep tie (props/C20.py, props/C21.py) validates *)
Theorem C20_clocked_refines_untimed : forall req s t ch s',
  tstep req s (Thr t) ch = Some s' -> exists ch' site, step (base s) t ch = Some (base s', ch', site).
Proof. exact tstep_erase. Qed.
Print Assumptions C20_clocked_refines_untimed.

(* seconds -> timespec on integer nanoseconds is exact and yields a valid timespec *)
Theorem C20_timespec_exact : forall r, 0 <= r ->
  let '(sec, ns) := to_timespec r in sec * 1000000000 + ns = r /\ 0 <= sec /\ 0 <= ns < 1000000000.
Proof. exact to_timespec_spec. Qed.
Print Assumptions C20_timespec_exact.

(* Future::wait_for / wait_until run the functor on the caller iff the future is deferred (allowInline_) and not started *)
Theorem C20_timed_wait_inline_iff_deferred : forall allowInline status,
  timed_wait_runs_inline allowInline status = true <-> allowInline = true /\ status = 0.
Proof. exact timed_inline_iff. Qed.
Print Assumptions C20_timed_wait_inline_iff_deferred.

(* non-vacuity: a clocked run in which one waiter times out after exactly its 50 ns request and another is released *)
Example C20_nonvacuous :
  match trun (fun _ => 50) (tinit 0 [[OWaitFor 1 true]; [OWaitFor 1 true]; [ONotify 1]])
             [Thr 0; Thr 0; Thr 0; Thr 0; Tick 50; Thr 0; Thr 1; Thr 1; Thr 2; Thr 2; Thr 1] with
  | Some s => flog s = [(50, 50, true)] /\ map (fun th => res th) (threads (base s)) = [[(2, 0)]; [(2, 1)]; []]
  | None => False
  end.
Proof. vm_compute. split; reflexivity. Qed.
