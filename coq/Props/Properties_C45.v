(* C45 -- threadId is stable per thread and unique across threads.
   Statements only.  Model: Model/ThreadIdModel.v (global counter fetch_add(1) with 64-bit wrap, thread-local cache with
   sentinel 2^64-1; one step = one shared-memory access; any number of threads; programs = any sequence of calls and
   scheduling points; any schedule).  Tie: lockstep under harness/vsched.h on the real function (props/C45.py).
   [c0] is the value of nextThread when the threads start (0 in a fresh process), [length progs] the number of threads. *)
From Coq Require Import ZArith List Bool.
From DV Require Import Base.MachInt Base.Sched Model.ThreadIdModel Proofs.C45Proofs.
Import ListNotations.
Local Open Scope Z_scope.

(* all ids returned to one thread are equal, none is the sentinel, and they lie in [c0, c0 + #threads) *)
Theorem C45_tid_stable : forall c0 progs s th x y,
  0 <= c0 -> c0 + Z.of_nat (length progs) <= 2 ^ 64 - 1 ->
  reach step (init c0 progs) s -> In th (threads s) -> In x (ids_of th) -> In y (ids_of th) ->
  x = y /\ x <> inval /\ c0 <= x < c0 + Z.of_nat (length progs).
Proof. intros c0 progs s th x y H0 Hb. exact (tid_stable c0 (length progs) H0 Hb progs s th x y eq_refl). Qed.
Print Assumptions C45_tid_stable.

(* ids returned to different threads differ -- whatever the interleaving of the first calls *)
Theorem C45_tid_injective : forall c0 progs s i j a b x y,
  0 <= c0 -> c0 + Z.of_nat (length progs) <= 2 ^ 64 - 1 ->
  reach step (init c0 progs) s -> i <> j ->
  nth_error (threads s) i = Some a -> nth_error (threads s) j = Some b ->
  In x (ids_of a) -> In y (ids_of b) -> x <> y.
Proof. intros c0 progs s i j a b x y H0 Hb. exact (tid_injective c0 (length progs) H0 Hb progs s i j a b x y eq_refl). Qed.
Print Assumptions C45_tid_injective.

(* the counter equals c0 + the number of threads that own an id (each thread performs at most one fetch_add) *)
Theorem C45_counter_counts_threads : forall c0 progs s,
  0 <= c0 -> c0 + Z.of_nat (length progs) <= 2 ^ 64 - 1 ->
  reach step (init c0 progs) s -> ctr s = c0 + nvalid (threads s).
Proof. intros c0 progs s H0 Hb. exact (tid_counter c0 (length progs) H0 Hb progs s eq_refl). Qed.
Print Assumptions C45_counter_counts_threads.

(* the sentinel / wrap corner, stated: the bound above is tight.  With c0 + #threads = 2^64 the last thread's fetch_add
   returns kInvalidThread = 2^64-1, which is indistinguishable from "no id yet": its first call returns 2^64-1, its
   second call performs another fetch_add and returns 0 -- the id is NOT stable (and 0 is handed out a second time by a
   process that started at c0 = 0).  Reaching it takes 2^64-1 thread creations in one process. *)
Theorem C45_sentinel_corner :
  exists s, reach step (init (2 ^ 64 - 1) [[OTid; OTid]]) s /\
            map (fun th => rev (ids_of th)) (threads s) = [[2 ^ 64 - 1; 0]] /\ ctr s = 1.
Proof. exists corner_state. split; [exact corner_reach | exact corner_run]. Qed.
Print Assumptions C45_sentinel_corner.

(* every state the executable scheduler visits is reachable, so the theorems apply to the runs compared with the real code *)
Theorem C45_run_reach : forall fuel c0 progs sched,
  reach step (init c0 progs) (fst (fst (run_tid fuel c0 progs sched))).
Proof. intros. apply run_reach. apply reach_refl. Qed.
Print Assumptions C45_run_reach.

(* non-vacuity: three threads, interleaved first calls, repeated calls *)
Example C45_nonvacuous :
  let progs := [[OTid; OYield; OTid]; [OTid; OTid]; [OYield; OTid]] in
  0 <= 5 /\ 5 + Z.of_nat (length progs) <= 2 ^ 64 - 1 /\
  let '(s, _, st) := run_tid 30 5 progs [2; 1; 0; 0; 1; 1; 0; 0; 0; 0; 0; 0] in
  st = SDone /\ map (fun th => rev (ids_of th)) (threads s) = [[5; 5]; [6; 6]; [7]] /\ ctr s = 8.
Proof. split; [discriminate|]. split; [vm_compute; discriminate|]. vm_compute. repeat split; reflexivity. Qed.
