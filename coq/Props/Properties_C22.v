(* C22 -- RWLock grants write access exclusively and read access only while no writer holds it; the try variants
   never acquire a conflicting lock; a blocked locker proceeds once the conflict is released (no lost wake-up,
   no deadlock).
   Statements only.  Model: Model/RWLockModel.v with N = 1 slot (one step = one atomic access / futex call of
   detail::RWLockImpl and of the CompletionEventImpl it embeds; K = kTryLockDrainSpins is a parameter; any number of
   threads; any schedule; futex = compare-and-block / wake-all).  Scripts: any mix of lock, try_lock, unlock,
   lock_shared, try_lock_shared, unlock_shared, lock_upgrade, lock_downgrade used as documented
   (scripts_ok 1 strict: releases what it holds, no recursive locking; strict = also ends idle).
   A thread is inside a critical section from the return of the acquiring call (tmode = MW / MR) to the call of the
   releasing operation.  Tie: lockstep under harness/vsched.h (props/C22.py). *)
From Coq Require Import ZArith List Bool.
From DV Require Import Base.MachInt Base.Sched Model.RWLockModel Proofs.C22Proofs Proofs.C22Progress.
Import ListNotations.
Local Open Scope Z_scope.

(* never a writer together with another writer or a reader inside the critical section *)
Theorem C22_rw_mutual_exclusion : forall K strict progs s,
  scripts_ok 1 strict progs -> reach (step 1 K) (init 1 progs) s ->
  forall t1 t2 th1 th2, t1 <> t2 -> nth_error (threads s) t1 = Some th1 -> nth_error (threads s) t2 = Some th2 ->
  tmode th1 = MW -> tmode th2 = MIdle.
Proof. intros K strict progs s. exact (reach_exclusion 1 K strict progs s). Qed.
Print Assumptions C22_rw_mutual_exclusion.

(* try_lock / try_lock_shared return true only in a step after which the caller is legitimately inside:
   try_lock = true  => caller is the writer and every other thread is outside;
   try_lock_shared = true => caller is a reader and no thread is a writer inside *)
Theorem C22_try_never_conflicts : forall K strict progs s t ch s' ch' site th th',
  scripts_ok 1 strict progs -> reach (step 1 K) (init 1 progs) s -> step 1 K s t ch = Some (s', ch', site) ->
  nth_error (threads s) t = Some th -> nth_error (threads s') t = Some th' ->
  (res th' = (r_try, 1) :: res th ->
     tmode th' = MW /\ forall t2 th2, t2 <> t -> nth_error (threads s') t2 = Some th2 -> tmode th2 = MIdle) /\
  (res th' = (r_tls, 1) :: res th ->
     exists i, tmode th' = MR i /\ forall t2 th2, nth_error (threads s') t2 = Some th2 -> tmode th2 <> MW).
Proof. intros K strict progs s t ch s' ch' site th th'. exact (reach_try_success 1 K strict progs s t ch s' ch' site th th'). Qed.
Print Assumptions C22_try_never_conflicts.

(* a failed try (bounded drain + fetch_and rollback of try_lock, back-out of try_lock_shared) leaves no trace: the caller
   owns no writer bit and holds no reader count, and the lock word is exactly what the other threads account for *)
Theorem C22_try_lock_rollback_restores : forall K strict progs s t ch s' ch' site th th' tag,
  scripts_ok 1 strict progs -> reach (step 1 K) (init 1 progs) s -> step 1 K s t ch = Some (s', ch', site) ->
  nth_error (threads s) t = Some th -> nth_error (threads s') t = Some th' ->
  res th' = (tag, 0) :: res th ->
  tmode th' = MIdle /\ (forall j, ownz 1 th' j = 0 /\ rdz th' j = 0) /\
  (forall j, (j < 1)%nat -> nth j (words s') 0 = WB * nown 1 (threads s') j + ncnt (threads s') j).
Proof. intros K strict progs s t ch s' ch' site th th' tag. exact (reach_try_failure 1 K strict progs s t ch s' ch' site th th' tag). Qed.
Print Assumptions C22_try_lock_rollback_restores.

(* ... and once every thread of balanced scripts has finished the word is back to 0 *)
Theorem C22_all_done_word_zero : forall K progs s,
  scripts_ok 1 true progs -> reach (step 1 K) (init 1 progs) s -> finished s = true -> nth 0 (words s) 0 = 0.
Proof. intros K progs s S R F. apply (reach_all_done_words_zero 1 K progs s S R F 0%nat). constructor. Qed.
Print Assumptions C22_all_done_word_zero.

(* no lost wake-up (timeout-free): whenever a writer sleeps in the drain wait while the word is already WB (readers have
   drained), some reader is between its fetch_sub and its futex wake, i.e. the wake-up is committed *)
Theorem C22_rw_no_lost_wakeup : forall K strict progs s,
  scripts_ok 1 strict progs -> reach (step 1 K) (init 1 progs) s ->
  forall i, (exists th k, In th (threads s) /\ tpc th = PBlocked i k) -> nth i (words s) 0 = WB ->
            exists th k, In th (threads s) /\ tpc th = PRelWake i k.
Proof. intros K strict progs s. exact (reach_no_lost_wakeup 1 K strict progs s). Qed.
Print Assumptions C22_rw_no_lost_wakeup.

(* the quiescent form: nobody about to wake => no sleeper whose condition holds *)
Theorem C22_rw_quiescent_not_lost : forall K strict progs s,
  scripts_ok 1 strict progs -> reach (step 1 K) (init 1 progs) s ->
  (forall th i k, In th (threads s) -> tpc th <> PRelWake i k) ->
  forall th i k, In th (threads s) -> tpc th = PBlocked i k -> nth i (words s) 0 <> WB.
Proof. intros K strict progs s. exact (reach_quiescent_not_lost 1 K strict progs s). Qed.
Print Assumptions C22_rw_quiescent_not_lost.

(* the only sleepers are writers in their drain wait, and they own the writer bit *)
Theorem C22_sleeper_is_draining_writer : forall K strict progs s th i k,
  scripts_ok 1 strict progs -> reach (step 1 K) (init 1 progs) s ->
  In th (threads s) -> tpc th = PBlocked i k -> (i < 1)%nat /\ ownz 1 th i = 1 /\ tmode th = MIdle.
Proof. intros K strict progs s th i k. exact (reach_sleeper_owns 1 K strict progs s th i k). Qed.
Print Assumptions C22_sleeper_is_draining_writer.

(* no deadlock by sleeping: with balanced scripts there is never a state where somebody has not finished and nobody can
   run (also with several upgraders: that misuse spins, see C22_upgrade_discipline_is_needed) *)
Theorem C22_rw_no_sleep_deadlock : forall K progs s,
  scripts_ok 1 true progs -> reach (step 1 K) (init 1 progs) s -> finished s = false -> cands s <> [].
Proof. intros K progs s. exact (reach_no_sleep_deadlock 1 K progs s). Qed.
Print Assumptions C22_rw_no_sleep_deadlock.

(* no deadlock, spinning paths included: with balanced scripts in which lock_upgrade is used under the documented
   single-writer discipline (upgrade_safe: a thread that may upgrade is the only one that ever locks for writing), from
   EVERY reachable state a state in which every thread has finished remains reachable: a blocked or spinning locker can
   always proceed once the conflict is released, there is no deadlock and no livelock trap *)
Theorem C22_rw_no_deadlock_single_upgrader : forall K progs s,
  scripts_ok 1 true progs -> upgrade_safe progs -> reach (step 1 K) (init 1 progs) s ->
  exists s', reach (step 1 K) s s' /\ finished s' = true.
Proof. intros K progs s. apply (can_always_finish 1 K). constructor. Qed.
Print Assumptions C22_rw_no_deadlock_single_upgrader.

(* the discipline is needed (documented in rw_lock_impl.h): with two upgraders a reachable state exists -- thread 0 asleep in
   the drain wait with word = WB|1, thread 1 spinning in setWriteBit -- from which no finished state is reachable *)
Theorem C22_upgrade_discipline_is_needed :
  scripts_ok 1 true up2_progs /\ reach (step 1 16) (init 1 up2_progs) up2_state /\
  forall s', reach (step 1 16) up2_state s' -> finished s' = false.
Proof. exact two_upgraders_never_finish. Qed.
Print Assumptions C22_upgrade_discipline_is_needed.

(* Fair progress of the spinning paths.  Full statement (NOT proved): under every schedule that runs every thread
   infinitely often, every balanced script finishes. *)
Fixpoint exec (N K : nat) (sched : nat -> nat) (n : nat) (s : state) : state :=
  match n with
  | O => s
  | S m => let s1 := exec N K sched m s in
           match step N K s1 (sched m) [] with Some (s2, _, _) => s2 | None => s1 end
  end.
Definition fair (sched : nat -> nat) : Prop := forall t k, exists k', (k <= k')%nat /\ sched k' = t.
Definition C22_full_statement : Prop :=
  forall K progs, scripts_ok 1 true progs -> upgrade_safe progs ->
  forall sched, fair sched -> exists n, finished (exec 1 K sched n (init 1 progs)) = true.
(* Proved part: the variant.  Phi (rank of each pc inside its operation + weight of the remaining script) is strictly
   decreased by every step that is not the failing iteration of a spin / drain loop, and in every reachable unfinished state
   such a step exists ("holder releases => the next fetch_or / fetch_add / drain load succeeds").  What is missing for
   C22_full_statement is the fairness argument that failing iterations (which may increase Phi) cannot recur forever. *)
Theorem C22_fair_progress_partial : forall K progs s,
  scripts_ok 1 true progs -> upgrade_safe progs -> reach (step 1 K) (init 1 progs) s -> finished s = false ->
  exists t s' site, step 1 K s t [] = Some (s', [], site) /\ Phi 1 K s' < Phi 1 K s.
Proof. intros K progs s. apply (decreasing_step_exists 1 K). constructor. Qed.
Print Assumptions C22_fair_progress_partial.

(* every state the executable scheduler visits is reachable, so the theorems apply to the runs compared with the real code *)
Theorem C22_run_reach : forall fuel K progs sched,
  reach (step 1 K) (init 1 progs) (fst (fst (run_rw fuel 1 K progs sched))).
Proof. intros. apply run_rw_reach. Qed.
Print Assumptions C22_run_reach.

(* the judge's executable script check (Model/C22Check.v scripts_wf) implies the domain of the theorems *)
Theorem C22_judge_domain_sound : forall strict progs,
  Z.of_nat (length progs) < 2147483648 ->
  forallb (fun p => wfb 1 strict (S (length p)) MIdle p) progs = true -> scripts_ok 1 strict progs.
Proof. intros strict progs. apply scripts_ok_of_wfb. constructor. Qed.
Print Assumptions C22_judge_domain_sound.

(* non-vacuity: a 3-thread script in the domain, a script with an upgrader that satisfies the single-writer discipline,
   and: a 3-thread script in the domain (writer, upgrading reader with try_lock_shared, try_lock + downgrade)
   whose run under a concrete schedule finishes with the word back to 0 and both try operations having succeeded *)
Definition C22_ex_progs : list (list op) :=
  [[OLock; OUnlock]; [OTryLockShared 0 2; OUpgrade; OUnlock]; [OTryLock 2; ODowngrade; OUnlockShared 0]].
Example C22_nonvacuous :
  scripts_ok 1 true C22_ex_progs /\ upgrade_safe [[OLockShared 0; OUpgrade; OUnlock]; [OLockShared 0; OUnlockShared 0]; [OTryLockShared 0 1; OUnlockShared 0]] /\
  (let '(s, tr, st) := run_rw 80 1 16 C22_ex_progs
       [0;0;0;0;0;0;0;0;0;0;0;0;0;0;0;0;0;0;0;0;0;0;0;0;0;0;0;0;0;0;0;0;0;0;0;0;0;0;0;0;0;0;0;0;0;0;0;0;0;0;0;0;0;0;0;0;0;0;0;0] in
   st = SDone /\ words s = [0] /\ map (fun th => rev (res th)) (threads s) = [[]; [(r_tls, 1)]; [(r_try, 1)]]).
Proof.
  split; [apply scripts_ok_of_wfb; [constructor | reflexivity | vm_compute; reflexivity]|].
  split; [|vm_compute; repeat split; reflexivity].
  intros [|[|[|t1]]] [|[|[|t2]]] p1 p2 D H1 H2 U; cbn in H1, H2; try congruence;
    try (injection H1 as <-); try (injection H2 as <-); try (destruct t1; discriminate); try (destruct t2; discriminate);
    try reflexivity; cbn in U; discriminate.
Qed.
