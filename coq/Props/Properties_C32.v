(* C32 -- ConcurrentVector behaves like std::vector sequentially, with balanced element lifetimes.
   Statements only; every proof is `exact` of a lemma from Proofs/ or GenTie/.

   Model: Model/CVecModel.v (buckets of lifetime-tracked cells, allocation strategies, every public sequential
   operation of concurrent_vector.h on two vectors A and B, the std::vector reference `spec_step` on lists).
   `fits tr max_n`: sizes stay <= max_n, for which kMaxBuffers leaves room (log2 max_n + 3 <= kMaxBuffers; with the
   library's default size traits kMaxBuffers = 40).  `seq_pre`: the preconditions of std::vector (valid positions,
   pop_back / front / back on non-empty vectors).

   RESULT: contents and sizes refine std::vector for every sequence (C32_cvec_refines_vector), returned positions too
   except for erase() that shifts a tail (returns the new end()), element lifetimes are balanced except after a
   shifting erase (vacated tail never destroyed) or a single-element insert (placement new over a live element):
   C32_refuted* / C32_holds_except.  *)
From Coq Require Import ZArith List Bool Lia.
From DV Require Import Base.MachInt Base.Life Model.CVecModel Gen.GenCVec GenTie.CVecGenTie
  Proofs.CVecBucketProofs Proofs.CVecStoreProofs Proofs.CVecAllocProofs Proofs.CVecLoopProofs Proofs.CVecOpsProofs Proofs.CVecIterProofs
  Proofs.C32Proofs.
Import ListNotations.
Local Open Scope Z_scope.

(* bucket_bijection: the REGENERATED bucketAndSubIndex maps every index below 2^63 (kMaxVectorSize <= 2^47) to
   (bucket, sub-index, capacity) with sub-index inside the documented capacity, and every such pair comes from
   exactly one index: bucket_start b + sub. *)
Theorem C32_bucket_bijection : forall shift, 0 <= shift ->
  (forall index, 0 <= index < 2 ^ 63 ->
     let '(b, s, c) := gen_bucketAndSubIndex shift (2 ^ shift) index in
     0 <= b /\ 0 <= s < c /\ c = bucket_cap shift b /\ bucket_start shift b + s = index) /\
  (forall b s, 0 <= b -> 0 <= s < bucket_cap shift b -> bucket_start shift b + s < 2 ^ 63 ->
     gen_bucketAndSubIndex shift (2 ^ shift) (bucket_start shift b + s) = (b, s, bucket_cap shift b)).
Proof. exact bucket_bijection_gen. Qed.
Print Assumptions C32_bucket_bijection.

(* the documented capacities *)
Theorem C32_bucket_layout : forall shift, 0 <= shift ->
  bucket_cap shift 0 = 2 ^ shift /\ bucket_cap shift 1 = 2 ^ shift /\ bucket_start shift 0 = 0 /\
  (forall b, 1 <= b -> bucket_cap shift (b + 1) = 2 * bucket_cap shift b) /\
  (forall b, 0 <= b -> bucket_start shift (b + 1) = bucket_start shift b + bucket_cap shift b).
Proof. exact bucket_layout. Qed.
Print Assumptions C32_bucket_layout.

(* the bucketed storage is one array: a write through bucketAndSubIndex is seen by exactly that index *)
Theorem C32_storage_is_an_array : forall v i c j, wfv v -> 0 <= i -> 0 <= j -> valid_idx v i = true ->
  get_cell (set_cell v i c) j = if i =? j then c else get_cell v j.
Proof. exact get_set_cell. Qed.
Print Assumptions C32_storage_is_an_array.

(* all three reallocation strategies provide the storage the grown vector touches (no access to an unallocated
   buffer, no wait for a buffer nobody allocates): allocAsNecessary(binfo, len, bend) *)
Theorem C32_allocation_suffices : forall strat shift bs n len,
  0 <= shift -> 0 <= n -> 0 <= len -> base bs -> ainv strat shift bs n -> bkt shift (n + len) + 1 < Z.of_nat (length bs) ->
  let '(bs', bad) := alloc_range strat bs (bkt shift n) (sub shift n) (capof shift n) len
                                 (bkt shift (n + len)) (sub shift (n + len)) (capof shift (n + len)) in
  grows shift bs bs' /\ bad = 0 /\ ainv strat shift bs' (n + len).
Proof. exact alloc_range_spec. Qed.
Print Assumptions C32_allocation_suffices.

(* the bucket-walking iterator is the index: ++, --, +=, -, <, == are index arithmetic across bucket boundaries *)
Theorem C32_iterators_are_indices : forall shift i j n, 0 <= shift -> 0 <= i -> 0 <= j -> 0 <= i + n ->
  fit_index (fit_of_index shift i) = i /\
  fit_inc (fit_of_index shift i) = fit_of_index shift (i + 1) /\
  (1 <= i -> fit_dec (fit_of_index shift i) = fit_of_index shift (i - 1)) /\
  fit_add shift (fit_of_index shift i) n = fit_of_index shift (i + n) /\
  fit_diff (fit_of_index shift i) (fit_of_index shift j) = i - j /\
  fit_lt (fit_of_index shift i) (fit_of_index shift j) = (i <? j) /\
  fit_eq (fit_of_index shift i) (fit_of_index shift j) = (i =? j).
Proof.
  intros shift i j n Hs Hi Hj Hn.
  exact (conj (fit_index_of shift i Hs Hi) (conj (fit_inc_spec shift i Hs Hi) (conj (fit_dec_spec shift i Hs)
        (conj (fit_add_spec shift i n Hs Hi Hn) (conj (fit_diff_spec shift i j Hs Hi Hj) (conj (fit_lt_spec shift i j Hs Hi Hj)
        (fit_eq_spec shift i j Hs Hi Hj))))))).
Qed.
Print Assumptions C32_iterators_are_indices.

(* cvec_refines_vector: for every trait combination and every operation sequence within the preconditions, after
   every operation both vectors have the contents and sizes of the std::vector reference, no operation touches
   unallocated storage, and -- unless an erase has to shift a tail -- every returned position / value is std::vector's *)
Theorem C32_cvec_refines_vector : forall tr max_n ops, fits tr max_n -> seq_pre max_n ops = true ->
  contents_of (model_trace tr (world0 tr) ops) = contents_of (spec_trace ([], []) ops) /\
  cl_bad (wl (run tr (world0 tr) ops)) = 0 /\
  (seq_no_erase_shift ops = true -> model_trace tr (world0 tr) ops = spec_trace ([], []) ops).
Proof. exact cvec_refines_vector_proof. Qed.
Print Assumptions C32_cvec_refines_vector.

(* one step: whatever the (reachable) state, each of the 35 operation forms commutes with its list specification *)
Theorem C32_every_operation_commutes : forall tr max_n w sel o, fits tr max_n ->
  vinv tr (wa w) -> vinv tr (wb w) -> v_size (wa w) <= max_n -> v_size (wb w) <= max_n ->
  op_pre max_n (abs (w_self sel w)) (abs (w_other sel w)) o = true ->
  step_post tr max_n w sel o.
Proof. exact step_ok. Qed.
Print Assumptions C32_every_operation_commutes.

(* C32 as stated: all sequences, returned positions and lifetimes included *)
Definition C32_full_statement : Prop :=
  forall tr max_n ops, fits tr max_n -> seq_pre max_n ops = true ->
    model_trace tr (world0 tr) ops = spec_trace ([], []) ops /\ life_balanced (run_all tr ops).

(* ... is false for the code as it is *)
Theorem C32_refuted : ~ C32_full_statement.
Proof. exact full_statement_false. Qed.
Print Assumptions C32_refuted.

(* witness 1: emplace_back x3, erase(begin()), destructors: contents [2;3] right, returned position wrong (new end),
   3 constructions, 2 destructor calls, 1 moved-from element lost with its storage *)
Theorem C32_refuted_erase :
  fits tr_small 1000 /\ seq_pre 1000 ops_erase = true /\
  contents_of (model_trace tr_small (world0 tr_small) ops_erase) = contents_of (spec_trace ([], []) ops_erase) /\
  model_trace tr_small (world0 tr_small) ops_erase <> spec_trace ([], []) ops_erase /\
  ~ life_balanced (run_all tr_small ops_erase) /\
  final_obs (run_all tr_small ops_erase) = [3; 0; 0; 0; 2; 2; 1; 1; 0; 0; 0; 0; 0].
Proof. exact refuted_erase. Qed.
Print Assumptions C32_refuted_erase.

(* witness 2: six elements, erase(begin()+1, begin()+3): 6 constructions, 4 destructor calls *)
Theorem C32_refuted_erase_range :
  seq_pre 1000 ops_erase_range = true /\ ~ life_balanced (run_all tr_small ops_erase_range) /\
  final_obs (run_all tr_small ops_erase_range) = [6; 0; 0; 0; 3; 4; 2; 2; 0; 0; 0; 0; 0].
Proof. exact refuted_erase_range. Qed.
Print Assumptions C32_refuted_erase_range.

(* witness 3: emplace_back x3, insert(begin()+1, value): positions and contents right, one ConstructOverLive,
   5 constructions, 4 destructor calls *)
Theorem C32_refuted_insert :
  seq_pre 1000 ops_insert = true /\ model_trace tr_small (world0 tr_small) ops_insert = spec_trace ([], []) ops_insert /\
  ~ life_balanced (run_all tr_small ops_insert) /\
  final_obs (run_all tr_small ops_insert) = [4; 1; 0; 0; 2; 4; 0; 0; 1; 0; 0; 0; 0].
Proof. exact refuted_insert. Qed.
Print Assumptions C32_refuted_insert.

(* cvec_lifetime_balanced on the complement of the findings' domains (seq_life_domain: a Gallina boolean on the
   operation sequence: no erase that shifts a tail, no single-element insert): for every trait combination and every
   such sequence followed by the destruction of both vectors, every constructed element is destroyed exactly once *)
Theorem C32_holds_except : forall tr max_n ops, fits tr max_n -> seq_pre max_n ops = true -> seq_life_domain ops = true ->
  model_trace tr (world0 tr) ops = spec_trace ([], []) ops /\ life_balanced (run_all tr ops).
Proof.
  intros tr max_n ops F P D.
  exact (conj (proj2 (proj2 (cvec_refines_vector_proof tr max_n ops F P)) (proj1 (andb_prop _ _ D)))
              (cvec_lifetime_balanced_proof tr max_n ops F P D)).
Qed.
Print Assumptions C32_holds_except.

(* the hypotheses are satisfiable by a non-trivial input: a 15-operation sequence inside both domains that crosses
   bucket boundaries on both vectors, with insert(pos, n, v), a tail erase, copy construction, swap, move assignment *)
Example C32_nonvacuous :
  fits tr_small 1000 /\ seq_pre 1000 ops_nonvacuous = true /\ seq_life_domain ops_nonvacuous = true /\
  spec_run ([], []) ops_nonvacuous = ([0; 0], [9; 9; 4]) /\
  final_obs (run_all tr_small ops_nonvacuous) = [10; 16; 1; 3; 4; 27; 0; 0; 0; 0; 0; 0; 0].
Proof. exact nonvacuous. Qed.
