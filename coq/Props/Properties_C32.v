(* C32 -- ConcurrentVector behaves like std::vector sequentially, with balanced element lifetimes.
   Statements only; every proof is `exact` of a lemma from Proofs/ or GenTie/.

   Model: Model/CVecModel.v (buckets of lifetime-tracked cells, allocation strategies, every public sequential
   operation of concurrent_vector.h on two vectors A and B, the std::vector reference `spec_step` on lists).
   `fits tr max_n`: sizes stay <= max_n, for which kMaxBuffers leaves room (log2 max_n + 3 <= kMaxBuffers; with the
   library's default size traits kMaxBuffers = 40).  `seq_pre`: the preconditions of std::vector (valid positions,
   pop_back / front / back on non-empty vectors).

   RESULT (after the repairs of /repo, commits 6742701 "fix: ConcurrentVector::erase ..." and c8c0b30
   "fix: ConcurrentVector::insert(pos, value) ..."): C32_holds : C32_full_statement -- contents, sizes, returned
   positions refine std::vector and element lifetimes are balanced for EVERY operation sequence.  The witnesses that
   refuted the statement on the unrepaired code are kept as regression examples (the C32_regression examples).  *)
From Coq Require Import ZArith List Bool Lia.
From DV Require Import Base.MachInt Base.Life Model.CVecModel Gen.GenCVec GenTie.CVecGenTie
  Proofs.CVecBucketProofs Proofs.CVecStoreProofs Proofs.CVecAllocProofs Proofs.CVecLoopProofs Proofs.CVecOpsProofs Proofs.CVecIterProofs
  Proofs.C32Proofs.
Import ListNotations.
Local Open Scope Z_scope.

(* bucket_bijection: the REGENERATED bucketAndSubIndex maps every index below 2^63 (kMaxVectorSize <= 2^47) to
   (bucket, sub-index, capacity) with sub-index inside the documented capacity, and every such pair comes from
   exactly one index: bucket_start b + sub. *)
Theorem C32_bucket_bijection : forall shift, 0 <= shift ->
  (forall index, 0 <= index < 2 ^ 63 ->
     let '(b, s, c) := gen_bucketAndSubIndex shift (2 ^ shift) index in
     0 <= b /\ 0 <= s < c /\ c = bucket_cap shift b /\ bucket_start shift b + s = index) /\
  (forall b s, 0 <= b -> 0 <= s < bucket_cap shift b -> bucket_start shift b + s < 2 ^ 63 ->
     gen_bucketAndSubIndex shift (2 ^ shift) (bucket_start shift b + s) = (b, s, bucket_cap shift b)).
Proof. exact bucket_bijection_gen. Qed.
Print Assumptions C32_bucket_bijection.

(* the documented capacities *)
Theorem C32_bucket_layout : forall shift, 0 <= shift ->
  bucket_cap shift 0 = 2 ^ shift /\ bucket_cap shift 1 = 2 ^ shift /\ bucket_start shift 0 = 0 /\
  (forall b, 1 <= b -> bucket_cap shift (b + 1) = 2 * bucket_cap shift b) /\
  (forall b, 0 <= b -> bucket_start shift (b + 1) = bucket_start shift b + bucket_cap shift b).
Proof. exact bucket_layout. Qed.
Print Assumptions C32_bucket_layout.

(* the bucketed storage is one array: a write through bucketAndSubIndex is seen by exactly that index *)
Theorem C32_storage_is_an_array : forall v i c j, wfv v -> 0 <= i -> 0 <= j -> valid_idx v i = true ->
  get_cell (set_cell v i c) j = if i =? j then c else get_cell v j.
Proof. exact get_set_cell. Qed.
Print Assumptions C32_storage_is_an_array.

(* all three reallocation strategies provide the storage the grown vector touches (no access to an unallocated
   buffer, no wait for a buffer nobody allocates): allocAsNecessary(binfo, len, bend) *)
Theorem C32_allocation_suffices : forall strat shift bs n len,
  0 <= shift -> 0 <= n -> 0 <= len -> base bs -> ainv strat shift bs n -> bkt shift (n + len) + 1 < Z.of_nat (length bs) ->
  let '(bs', bad) := alloc_range strat bs (bkt shift n) (sub shift n) (capof shift n) len
                                 (bkt shift (n + len)) (sub shift (n + len)) (capof shift (n + len)) in
  grows shift bs bs' /\ bad = 0 /\ ainv strat shift bs' (n + len).
Proof. exact alloc_range_spec. Qed.
Print Assumptions C32_allocation_suffices.

(* the bucket-walking iterator is the index: ++, --, +=, -, <, == are index arithmetic across bucket boundaries *)
Theorem C32_iterators_are_indices : forall shift i j n, 0 <= shift -> 0 <= i -> 0 <= j -> 0 <= i + n ->
  fit_index (fit_of_index shift i) = i /\
  fit_inc (fit_of_index shift i) = fit_of_index shift (i + 1) /\
  (1 <= i -> fit_dec (fit_of_index shift i) = fit_of_index shift (i - 1)) /\
  fit_add shift (fit_of_index shift i) n = fit_of_index shift (i + n) /\
  fit_diff (fit_of_index shift i) (fit_of_index shift j) = i - j /\
  fit_lt (fit_of_index shift i) (fit_of_index shift j) = (i <? j) /\
  fit_eq (fit_of_index shift i) (fit_of_index shift j) = (i =? j).
Proof.
  intros shift i j n Hs Hi Hj Hn.
  exact (conj (fit_index_of shift i Hs Hi) (conj (fit_inc_spec shift i Hs Hi) (conj (fit_dec_spec shift i Hs)
        (conj (fit_add_spec shift i n Hs Hi Hn) (conj (fit_diff_spec shift i j Hs Hi Hj) (conj (fit_lt_spec shift i j Hs Hi Hj)
        (fit_eq_spec shift i j Hs Hi Hj))))))).
Qed.
Print Assumptions C32_iterators_are_indices.

(* cvec_refines_vector: for every trait combination and every operation sequence within the preconditions, after
   every operation both vectors have the contents and sizes of the std::vector reference and every returned
   position / value is std::vector's; no operation touches unallocated storage *)
Theorem C32_cvec_refines_vector : forall tr max_n ops, fits tr max_n -> seq_pre max_n ops = true ->
  model_trace tr (world0 tr) ops = spec_trace ([], []) ops /\ cl_bad (wl (run tr (world0 tr) ops)) = 0.
Proof. exact cvec_refines_vector_proof. Qed.
Print Assumptions C32_cvec_refines_vector.

(* one step: whatever the (reachable) state, each of the 35 operation forms commutes with its list specification
   (contents of both vectors, returned position) and keeps the lifetimes clean *)
Theorem C32_every_operation_commutes : forall tr max_n w sel o, fits tr max_n ->
  vinv tr (wa w) -> vinv tr (wb w) -> v_size (wa w) <= max_n -> v_size (wb w) <= max_n ->
  op_pre max_n (abs (w_self sel w)) (abs (w_other sel w)) o = true ->
  step_post tr max_n w sel o.
Proof. exact step_ok. Qed.
Print Assumptions C32_every_operation_commutes.

(* cvec_lifetime_balanced: for every trait combination and every operation sequence followed by the destruction of
   both vectors, every constructed element is destroyed exactly once (no construction over a live element, no double
   destruction, no use of a dead element, nothing lost with its storage, constructions = destructor calls) *)
Theorem C32_cvec_lifetime_balanced : forall tr max_n ops, fits tr max_n -> seq_pre max_n ops = true ->
  life_balanced (run_all tr ops).
Proof. exact cvec_lifetime_balanced_proof. Qed.
Print Assumptions C32_cvec_lifetime_balanced.

(* C32 as stated: all sequences, returned positions and lifetimes included *)
Definition C32_full_statement : Prop :=
  forall tr max_n ops, fits tr max_n -> seq_pre max_n ops = true ->
    model_trace tr (world0 tr) ops = spec_trace ([], []) ops /\ life_balanced (run_all tr ops).

Theorem C32_holds : C32_full_statement.
Proof. exact full_statement_holds. Qed.
Print Assumptions C32_holds.

(* regression: emplace_back x3, erase(begin()): returned position 0, 3 constructions, 3 destructor calls
   (before 6742701: position 2, 2 destructor calls, 1 moved-from element lost) *)
Example C32_regression_erase :
  seq_pre 1000 ops_erase = true /\
  model_trace tr_small (world0 tr_small) ops_erase = [([1], [], 0); ([1; 2], [], 1); ([1; 2; 3], [], 2); ([2; 3], [], 0)] /\
  life_balancedb (run_all tr_small ops_erase) = true /\
  final_obs (run_all tr_small ops_erase) = [3; 0; 0; 0; 2; 3; 0; 0; 0; 0; 0; 0; 0].
Proof. exact regression_erase. Qed.

(* regression: six elements, erase(begin()+1, begin()+3): returned position 1, 6 / 6 (before: position 4, 6 / 4) *)
Example C32_regression_erase_range :
  seq_pre 1000 ops_erase_range = true /\
  model_trace tr_small (world0 tr_small) ops_erase_range = [([10; 11; 12; 13; 14; 15], [], 0); ([10; 13; 14; 15], [], 1)] /\
  life_balancedb (run_all tr_small ops_erase_range) = true /\
  final_obs (run_all tr_small ops_erase_range) = [6; 0; 0; 0; 3; 6; 0; 0; 0; 0; 0; 0; 0].
Proof. exact regression_erase_range. Qed.

(* regression: emplace_back x3, insert(begin()+1, value): 4 constructions, one copy assignment, 4 destructor calls, no
   ConstructOverLive (before c8c0b30: 5 constructions, 4 destructor calls, one ConstructOverLive) *)
Example C32_regression_insert :
  seq_pre 1000 ops_insert = true /\
  model_trace tr_small (world0 tr_small) ops_insert = [([1], [], 0); ([1; 2], [], 1); ([1; 2; 3], [], 2); ([1; 9; 2; 3], [], 1)] /\
  life_balancedb (run_all tr_small ops_insert) = true /\
  final_obs (run_all tr_small ops_insert) = [4; 0; 0; 1; 2; 4; 0; 0; 0; 0; 0; 0; 0].
Proof. exact regression_insert. Qed.

(* the hypotheses are satisfiable by a non-trivial input: a 15-operation sequence that crosses bucket boundaries on both
   vectors, with insert(pos, n, v), shifting erases, a single insert, copy construction, swap, move assignment *)
Example C32_nonvacuous :
  fits tr_small 1000 /\ seq_pre 1000 ops_nonvacuous = true /\
  spec_run ([], []) ops_nonvacuous = ([0; 0], [9; 9; 4]) /\
  final_obs (run_all tr_small ops_nonvacuous) = [11; 16; 1; 3; 23; 28; 0; 0; 0; 0; 0; 0; 0].
Proof. exact nonvacuous. Qed.
