(* C13 -- parallel_for honours the granularity contract.
   Statements only; every proof is `exact` of a lemma from Proofs/.  Same models and vocabulary as
   Props/Properties_C12.v.  c13_gran c = the granularity the contract speaks about (options.granularity when no explicit
   chunk size is given, 1 otherwise); gran_okb g e l = at most one invocation of l has a size that is not a multiple of
   g, and that one ends at e. *)
From Coq Require Import ZArith List Bool Lia Permutation.
From DV Require Import Base.MachInt Model.ChunkModel Gen.GenChunk Model.ParForModel Model.DynModel Model.StripeModel
  Base.Corr Model.C12Check Model.C13Check Proofs.DynDecideProofs Proofs.C12Proofs Proofs.C13Proofs.
Import ListNotations.
Local Open Scope Z_scope.

(* the contract is a property of the multiset of invocations (so the claim order is irrelevant) *)
Theorem C13_contract_order_independent : forall g e l l', Permutation l l' -> gran_okb g e l = gran_okb g e l'.
Proof. exact gran_okb_perm. Qed.
Print Assumptions C13_contract_order_independent.

(* empty range, serial fallbacks, static chunking (chunk sizes are multiples of the unit: C17) *)
Theorem C13_static : forall c, pf_dom c ->
  pf_mode c = MEmpty \/ pf_mode c = MSerial \/ pf_mode c = MStatic ->
  exists l, static_calls c = Some l /\ gran_okb (c13_gran c) (pf_e c) l = true.
Proof. exact C13_static_proof. Qed.
Print Assumptions C13_static.

(* dynamic path (auto chunking with wait=false; with an explicit chunk size the contract is vacuous): every claim order *)
Theorem C13_dynamic : forall c l3 sched, pf_dom c -> pf_mode c = MDynamic ->
  exists dc, pf_dyncfg c l3 = Some dc /\
    (dyn_complete dc sched = true -> gran_okb (c13_gran c) (pf_e c) (dyn_calls dc sched) = true).
Proof. exact C13_dynamic_proof. Qed.
Print Assumptions C13_dynamic.

(* adaptive path: every claim/steal schedule without cursor wrap, every start (initStripeState aligns stripe lengths
   relative to start) *)
Theorem C13_adaptive : forall c sched, pf_dom c -> pf_mode c = MAdaptive ->
  exists sc, pf_scfg c = Some sc /\
    (stripe_complete sc sched = true -> stripe_nowrap sc sched = true ->
     gran_okb (c13_gran c) (pf_e c) (stripe_calls sc sched) = true).
Proof. exact C13_adaptive_proof. Qed.
Print Assumptions C13_adaptive.

(* the property: all modes, all start mod g, all executions (complete, no cursor wrap -- the wrap is C12's
   finding, under which the body is handed garbage ranges) *)
Theorem C13_holds : forall c x, pf_dom c -> pf_complete c x = true ->
  c12_nowrap c x = true ->
  exists l, pf_calls c x = Some l /\ gran_okb (c13_gran c) (pf_e c) l = true.
Proof. exact C13_holds_proof. Qed.
Print Assumptions C13_holds.

(* regression: the witness of the former finding adaptive-absolute-alignment (int32 [3,1003), g = 8, adaptive, 4-thread
   pool; before the fix stripe 0 was [3,200) and ended with the invocation [195,200)).  Now every stripe length is a
   multiple of 8: complete, wrap-free, 125 invocations of size 8 (1000 = 125 * 8, no tail; the old [1000,1003) was a clipped
   stripe claim as well) *)
Example C13_regression_former_witness :
  pf_mode c13_witness = MAdaptive /\ pf_complete c13_witness c13_witness_exec = true /\
  c12_nowrap c13_witness c13_witness_exec = true /\
  option_map (fun l => (length l, gran_okb 8 1003 l, existsb (zpair_eqb (195, 200)) l, existsb (zpair_eqb (1000, 1003)) l))
             (pf_calls c13_witness c13_witness_exec) = Some (125%nat, true, false, false).
Proof. vm_compute. repeat split; reflexivity. Qed.

(* the hypotheses are satisfiable by a non-trivial input with start mod g <> 0 *)
Example C13_nonvacuous :
  let c := PF 1 5 250 0 4 2147483647 1 7 true in
  let x := EX 0 [] (own_then_poll 5 40) in
  pf_mode c = MAdaptive /\ pf_complete c x = true /\ c12_nowrap c x = true /\
  c13_gran c = 7 /\ option_map (fun l => gran_okb 7 250 l) (pf_calls c x) = Some true.
Proof. vm_compute. repeat split; reflexivity. Qed.
