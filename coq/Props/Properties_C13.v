(* C13 -- parallel_for honours the granularity contract.
   Statements only; every proof is `exact` of a lemma from Proofs/.  Same models and vocabulary as
   Props/Properties_C12.v.  c13_gran c = the granularity the contract speaks about (options.granularity when no explicit
   chunk size is given, 1 otherwise); gran_okb g e l = at most one invocation of l has a size that is not a multiple of
   g, and that one ends at e. *)
From Coq Require Import ZArith List Bool Lia Permutation.
From DV Require Import Base.MachInt Model.ChunkModel Gen.GenChunk Model.ParForModel Model.DynModel Model.StripeModel
  Model.C12Check Model.C13Check Proofs.DynDecideProofs Proofs.C12Proofs Proofs.C13Proofs.
Import ListNotations.
Local Open Scope Z_scope.

(* the contract is a property of the multiset of invocations (so the claim order is irrelevant) *)
Theorem C13_contract_order_independent : forall g e l l', Permutation l l' -> gran_okb g e l = gran_okb g e l'.
Proof. exact gran_okb_perm. Qed.
Print Assumptions C13_contract_order_independent.

(* empty range, serial fallbacks, static chunking (chunk sizes are multiples of the unit: C17) *)
Theorem C13_static : forall c, pf_dom c ->
  pf_mode c = MEmpty \/ pf_mode c = MSerial \/ pf_mode c = MStatic ->
  exists l, static_calls c = Some l /\ gran_okb (c13_gran c) (pf_e c) l = true.
Proof. exact C13_static_proof. Qed.
Print Assumptions C13_static.

(* dynamic path (auto chunking with wait=false; with an explicit chunk size the contract is vacuous): every claim order *)
Theorem C13_dynamic : forall c l3 sched, pf_dom c -> pf_mode c = MDynamic ->
  exists dc, pf_dyncfg c l3 = Some dc /\
    (dyn_complete dc sched = true -> gran_okb (c13_gran c) (pf_e c) (dyn_calls dc sched) = true).
Proof. exact C13_dynamic_proof. Qed.
Print Assumptions C13_dynamic.

(* adaptive path when start is a multiple of g (outside c13_misaligned_domain): every claim/steal schedule without
   cursor wrap *)
Theorem C13_adaptive_aligned : forall c sched, pf_dom c -> pf_mode c = MAdaptive -> c12_narrow_domain c = false ->
  c13_misaligned_domain c = false ->
  exists sc, pf_scfg c = Some sc /\
    (stripe_complete sc sched = true -> stripe_nowrap sc sched = true ->
     gran_okb (c13_gran c) (pf_e c) (stripe_calls sc sched) = true).
Proof. exact C13_adaptive_proof. Qed.
Print Assumptions C13_adaptive_aligned.

(* the property at full strength -- FALSE for the code that exists *)
Definition C13_full_statement : Prop :=
  forall c x, pf_dom c -> pf_complete c x = true -> c12_narrow_domain c = false -> c12_nowrap c x = true ->
  exists l, pf_calls c x = Some l /\ gran_okb (c13_gran c) (pf_e c) l = true.

(* finding adaptive-absolute-alignment: a complete, wrap-free execution in the domain whose invocations contain
   [195,200) (size 5, g = 8, does not end at 1003) besides the legitimate tail [1000,1003).  Reproduced on the real
   code (props/C13.py WITNESS). *)
Theorem C13_refuted :
  pf_dom c13_witness /\ pf_complete c13_witness c13_witness_exec = true /\
  c12_narrow_domain c13_witness = false /\ c12_nowrap c13_witness c13_witness_exec = true /\
  c13_misaligned_domain c13_witness = true /\
  exists l, pf_calls c13_witness c13_witness_exec = Some l /\ In (195, 200) l /\ In (1000, 1003) l /\
            gran_okb (c13_gran c13_witness) (pf_e c13_witness) l = false.
Proof. exact C13_refuted_proof. Qed.
Print Assumptions C13_refuted.

(* the contract on the complement of the finding's domain: adaptive with start = 0 (mod g), and all other modes *)
Theorem C13_holds_except : forall c x, pf_dom c -> pf_complete c x = true ->
  c12_narrow_domain c = false -> c12_nowrap c x = true -> c13_misaligned_domain c = false ->
  exists l, pf_calls c x = Some l /\ gran_okb (c13_gran c) (pf_e c) l = true.
Proof. exact C13_holds_except_proof. Qed.
Print Assumptions C13_holds_except.

(* the hypotheses are satisfiable by a non-trivial input: the witness moved to start 8 (int32 [8,1008+3), g = 8,
   5 workers): complete, no wrap, 126 invocations, contract honoured *)
Example C13_nonvacuous :
  let c := PF 4 8 1011 0 4 2147483647 1 8 true in
  let x := EX 0 [] (own_then_poll 5 40) in
  pf_mode c = MAdaptive /\ pf_complete c x = true /\ c12_nowrap c x = true /\ c12_narrow_domain c = false /\
  c13_misaligned_domain c = false /\ c13_gran c = 8 /\
  option_map (fun l => (length l, gran_okb 8 1011 l)) (pf_calls c x) = Some (126%nat, true).
Proof. vm_compute. repeat split; reflexivity. Qed.
