(* C43 -- CpuSet set algebra, CPU-list parsing and grouping are correct.
   Statements only; every proof is `exact` of a lemma from Proofs/C43Proofs.v.
   Model: Model/CpuSetModel.v (Linux backing: cpu_set_t = 16 x 64-bit words, CPU_SETSIZE = 1024; parseLinuxCpuList with an
   explicit strtol model; buildGroupsFromCacheTopology).  Tied to /repo by the differential run of props/C43.py. *)
From Coq Require Import ZArith List Bool Lia Permutation Sorted.
From DV Require Import Model.CpuSetModel Proofs.C43Proofs.
Import ListNotations.
Local Open Scope Z_scope.

(* ------------------------------------------------------------------------------------------- the set *)
(* the representation invariant (16 words, each below 2^64) holds initially and is kept by every operation *)
Theorem C43_set_wf_invariant :
  cs_wf cs_empty /\
  forall s, cs_wf s ->
    (forall a, cs_wf (cs_add s a)) /\ (forall a, cs_wf (cs_remove s a)) /\
    (forall a b, cs_wf (cs_addRange s a b)) /\ (forall a b, cs_wf (cs_removeRange s a b)).
Proof.
  split; [exact cs_empty_wf|]. intros s W.
  exact (conj (fun a => cs_add_wf s a W) (conj (fun a => cs_remove_wf s a W)
        (conj (fun a b => cs_addRange_wf s a b W) (fun a b => cs_removeRange_wf s a b W)))).
Qed.
Print Assumptions C43_set_wf_invariant.

(* CpuSet() / clear(): the empty set *)
Theorem C43_set_empty : forall i, cs_contains cs_empty i = false.
Proof. exact contains_empty. Qed.
Print Assumptions C43_set_empty.

(* add(a): S ∪ ({a} ∩ [0,1024)), for every integer a and i *)
Theorem C43_set_add : forall s a i, cs_wf s ->
  cs_contains (cs_add s a) i = (in_cap i && (i =? a)) || cs_contains s i.
Proof. exact contains_add. Qed.
Print Assumptions C43_set_add.

(* remove(a): S \ {a} *)
Theorem C43_set_remove : forall s a i, cs_wf s ->
  cs_contains (cs_remove s a) i = negb (i =? a) && cs_contains s i.
Proof. exact contains_remove. Qed.
Print Assumptions C43_set_remove.

(* addRange(a, b): S ∪ ([a,b) ∩ [0,1024)), for all integers a, b (empty when b <= a) *)
Theorem C43_set_addRange : forall s a b i, cs_wf s ->
  cs_contains (cs_addRange s a b) i = (in_cap i && (a <=? i) && (i <? b)) || cs_contains s i.
Proof. exact contains_addRange. Qed.
Print Assumptions C43_set_addRange.

(* removeRange(a, b): S \ [a,b) *)
Theorem C43_set_removeRange : forall s a b i, cs_wf s ->
  cs_contains (cs_removeRange s a b) i = negb ((a <=? i) && (i <? b)) && cs_contains s i.
Proof. exact contains_removeRange. Qed.
Print Assumptions C43_set_removeRange.

(* ids outside [0,1024) are never members and add/remove of such an id leaves the object unchanged *)
Theorem C43_set_out_of_range_ignored : forall s i, in_cap i = false ->
  cs_contains s i = false /\ cs_add s i = s /\ cs_remove s i = s.
Proof.
  intros s i H. exact (conj (contains_out_of_range s i H) (conj (add_out_of_range s i H) (remove_out_of_range s i H))).
Qed.
Print Assumptions C43_set_out_of_range_ignored.

(* count() = cardinality of { i in [0,1024) | contains(i) } *)
Theorem C43_set_count : forall s, cs_wf s -> cs_count s = card (cs_contains s).
Proof. exact count_is_card. Qed.
Print Assumptions C43_set_count.

(* every operation sequence on a fresh CpuSet: the object denotes the mathematical set built by the same operations
   on subsets of Z intersected with [0,1024), and every contains()/count() query returns that set's answer *)
Theorem C43_set_operation_sequences : forall ops,
  cs_wf (fst (run_ops cs_empty ops)) /\
  (forall i, cs_contains (fst (run_ops cs_empty ops)) i = in_cap i && ref_mem (rev ops) i) /\
  snd (run_ops cs_empty ops) = ref_results [] ops.
Proof.
  intros ops. destruct (run_ops_spec ops cs_empty [] cs_empty_wf empty_is_math_empty) as (W & M & R).
  split; [exact W|]. split; [|exact R]. intros i. rewrite M, app_nil_r. reflexivity.
Qed.
Print Assumptions C43_set_operation_sequences.

(* ------------------------------------------------------------------------------------------- the parser *)
(* ANY byte string (well- or malformed): the result is the union over its comma-separated pieces of
   - nothing for an empty piece;
   - for a piece containing '-': with lo / hi = strtol of the text before / after the FIRST '-' (leading blanks and a
     sign accepted, trailing garbage ignored), the interval [lo,hi] if both conversions succeed and lie in [0, 2^20];
     nothing otherwise (so "-5", "3-", "1--2", "0-1048577" contribute nothing and "1-2-3" means 1-2);
   - for a piece without '-': the single id strtol(piece) under the same conditions;
   intersected with [0,1024). *)
Theorem C43_parse_any_string : forall input i,
  cs_contains (parseLinuxCpuList input) i
  = in_cap i && existsb (fun p => piece_mem p i) (split_on CH_COMMA (cstr input)).
Proof. exact parse_any_string. Qed.
Print Assumptions C43_parse_any_string.

(* the property as stated: for every string of the grammar  item ("," item)*, item ::= n | n "-" m,
   the parsed set is exactly the set of in-range ids the string denotes *)
Definition C43_full_statement_parse : Prop :=
  forall its, its <> [] -> forallb item_okb its = true ->
  forall i, cs_contains (parseLinuxCpuList (render_list its)) i = in_cap i && denotes its i.

(* ... is FALSE for the faithful model: "0-1048577" denotes the in-range ids 0..1023 but parses to the empty set
   (parseIntClamped rejects numbers above kMaxReasonableCpuId = 2^20 and the whole range is dropped) *)
Theorem C43_parse_denotes_refuted : ~ C43_full_statement_parse.
Proof.
  intros F. destruct parse_denotes_refuted_witness as (OK & _ & P & D).
  specialize (F refute_items ltac:(discriminate) OK 0). rewrite P, D in F. discriminate.
Qed.
Print Assumptions C43_parse_denotes_refuted.

(* ... and TRUE outside the finding's domain list_lossy (some range n-m with n < 1024 and m > 2^20) *)
Theorem C43_parse_denotes_holds_except : forall its, its <> [] -> forallb item_okb its = true -> list_lossy its = false ->
  forall i, cs_contains (parseLinuxCpuList (render_list its)) i = in_cap i && denotes its i.
Proof. exact parse_denotes_except. Qed.
Print Assumptions C43_parse_denotes_holds_except.

(* inside the domain the parser still never adds an id the string does not denote *)
Theorem C43_parse_never_adds_undenoted : forall its, its <> [] -> forallb item_okb its = true ->
  forall i, cs_contains (parseLinuxCpuList (render_list its)) i = true -> in_cap i && denotes its i = true.
Proof. exact parse_sound_always. Qed.
Print Assumptions C43_parse_never_adds_undenoted.

(* ------------------------------------------------------------------------------------------- grouping *)
(* structure of buildGroupsFromCacheTopology's result, for ALL inputs: the non-empty L2 atoms, in input order, are cut
   into consecutive non-empty runs; output group k is the sorted concatenation of run k; within a run all atoms whose
   L3 index (that of their first cpu) is known have the same one; a run has at most max(maxGroupSize, largest L2) cpus *)
Theorem C43_groups_structure : forall l2s l3s maxGroupSize,
  exists runs,
    concat runs = filter nonnil l2s /\
    buildGroups l2s l3s maxGroupSize = map group_of_run runs /\
    Forall (fun r => r <> []) runs /\
    Forall (run_coherent l3s) runs /\
    Forall (fun r => zlen (concat r) <= Z.max maxGroupSize (largest l2s)) runs.
Proof. exact build_structure. Qed.
Print Assumptions C43_groups_structure.

(* the groups hold exactly the cpus of the L2 groups (with multiplicities), no group is empty, each group is sorted,
   and if the L2 groups are pairwise disjoint and duplicate-free so are the thread groups: a partition *)
Theorem C43_groups_partition_cpus : forall l2s l3s maxGroupSize,
  Permutation (concat (buildGroups l2s l3s maxGroupSize)) (concat l2s) /\
  Forall (fun g => g <> []) (buildGroups l2s l3s maxGroupSize) /\
  Forall (Sorted Z.le) (buildGroups l2s l3s maxGroupSize) /\
  (NoDup (concat l2s) -> NoDup (concat (buildGroups l2s l3s maxGroupSize))).
Proof.
  intros l2s l3s mg. split; [apply groups_perm|]. split; [apply groups_nonempty|]. split; [apply groups_sorted|].
  intros ND. exact (Permutation_NoDup (Permutation_sym (groups_perm l2s l3s mg)) ND).
Qed.
Print Assumptions C43_groups_partition_cpus.

(* an L2 group is never split: it lies inside one thread group, and (disjoint L2 groups) any thread group that
   contains one of its cpus contains all of them *)
Theorem C43_never_splits_l2 : forall l2s l3s maxGroupSize,
  (forall a, In a l2s -> a <> [] -> exists g, In g (buildGroups l2s l3s maxGroupSize) /\ incl a g) /\
  (NoDup (concat l2s) ->
   forall a g c, In a l2s -> In g (buildGroups l2s l3s maxGroupSize) -> In c a -> In c g -> incl a g).
Proof.
  intros l2s l3s mg. split; [intros a; apply atom_in_some_group|apply never_splits].
Qed.
Print Assumptions C43_never_splits_l2.

(* a thread group never contains cpus of two different known L3 groups, provided the caches nest (every cpu of an L2
   group has the L3 index of the group's first cpu -- the only one the code looks at; see C43_l3_mix_needs_nesting) *)
Theorem C43_never_mixes_two_known_l3 : forall l2s l3s maxGroupSize, l2_nested l2s l3s ->
  forall g c d, In g (buildGroups l2s l3s maxGroupSize) -> In c g -> In d g ->
  0 <= l3_index l3s c -> 0 <= l3_index l3s d -> l3_index l3s c = l3_index l3s d.
Proof. exact never_mixes_l3. Qed.
Print Assumptions C43_never_mixes_two_known_l3.

(* meaning of the L3 index: -1 iff no L3 group lists the cpu; otherwise the position of the LAST L3 group listing it *)
Theorem C43_l3_index_meaning : forall l3s c,
  (l3_index l3s c = -1 /\ forall grp, In grp l3s -> ~ In c grp) \/
  (0 <= l3_index l3s c < Z.of_nat (length l3s) /\ In c (nth (Z.to_nat (l3_index l3s c)) l3s []) /\
   forall j, (j < length l3s)%nat -> In c (nth j l3s []) -> Z.of_nat j <= l3_index l3s c).
Proof. exact l3_index_spec. Qed.
Print Assumptions C43_l3_index_meaning.

Theorem C43_l3_mix_needs_nesting :
  buildGroups [[0; 1]] [[0]; [1]] 16 = [[0; 1]] /\ l3_index [[0]; [1]] 0 = 0 /\ l3_index [[0]; [1]] 1 = 1.
Proof. exact l3_mix_needs_nesting. Qed.
Print Assumptions C43_l3_mix_needs_nesting.

(* no thread group exceeds max(maxGroupSize, largest L2 group), for every (also negative) maxGroupSize *)
Theorem C43_group_size_bound : forall l2s l3s maxGroupSize g,
  In g (buildGroups l2s l3s maxGroupSize) -> zlen g <= Z.max maxGroupSize (largest l2s).
Proof. exact group_size. Qed.
Print Assumptions C43_group_size_bound.

(* ThreadGroup::affinityMask holds exactly the representable cpus of the group *)
Theorem C43_group_affinity_mask : forall cpus i, cs_contains (cs_from_ids cpus) i = in_cap i && memb i cpus.
Proof. exact from_ids_mem. Qed.
Print Assumptions C43_group_affinity_mask.

(* concrete, non-trivial instances *)
Example C43_nonvacuous :
  (* "0-3,8-11,2000" *)
  parseLinuxCpuList [48; 45; 51; 44; 56; 45; 49; 49; 44; 50; 48; 48; 48] = 3855 :: repeat 0 15 /\
  fst (run_ops cs_empty [OAddRange (-5) 70; ORem 64; OAdd 5000; OCount]) = [18446744073709551615; 62] ++ repeat 0 14 /\
  snd (run_ops cs_empty [OAddRange (-5) 70; ORem 64; OAdd 5000; OCount]) = [69] /\
  (* two 4-cpu L3 groups of 2-cpu L2 pairs, one pair outside any L3; maxGroupSize 3 is clamped to... stays 3 > 2 *)
  buildGroups [[0; 4]; [1; 5]; [2; 6]; [3; 7]; [8; 9]] [[0; 4; 1; 5]; [2; 6; 3; 7]] 3 = [[0; 4]; [1; 5]; [2; 6]; [3; 7]; [8; 9]] /\
  buildGroups [[0; 4]; [1; 5]; [2; 6]; [3; 7]; [8; 9]] [[0; 4; 1; 5]; [2; 6; 3; 7]] 16 = [[0; 1; 4; 5]; [2; 3; 6; 7]; [8; 9]] /\
  l2_nested [[0; 4]; [1; 5]; [2; 6]; [3; 7]; [8; 9]] [[0; 4; 1; 5]; [2; 6; 3; 7]] /\
  NoDup (concat [[0; 4]; [1; 5]; [2; 6]; [3; 7]; [8; 9]]).
Proof.
  repeat split; try (vm_compute; reflexivity).
  - intros a c Ha Hc. cbn [In] in Ha.
    repeat (destruct Ha as [<-|Ha]; [cbn [In] in Hc; repeat (destruct Hc as [<-|Hc]; [vm_compute; reflexivity|]); destruct Hc|]).
    destruct Ha.
  - cbn [concat app]. repeat (constructor; [cbn [In]; lia|]). constructor.
Qed.
