(* C01 -- every task handed to a ThreadPool runs exactly once, by ~ThreadPool at the latest.
   Statements only.  Model: Model/PoolModel.v (event-level model of dispenso::ThreadPool: one event = one
   DISPENSO_VERIF_EVENT hook of thread_pool.h / thread_pool.cpp; any number of producers, workers and tasks, pool sizes
   incl. 0, interleaved resizes; ring / steal-ring capacities and the sharing factor are arbitrary parameters).
   Tie: event-level lockstep (E): the real pool runs under harness/vsched_pool.h with its own workers enrolled and the
   implementation's event trace is folded through [accept] inside Coq (props/C01.py, Model/PoolCheck.v). *)
From Coq Require Import ZArith List Bool.
From DV Require Import Model.PoolModel Proofs.PoolProofs Proofs.C03Proofs Proofs.C01Proofs.
Import ListNotations.
Local Open Scope Z_scope.

(* [tot t s] = number of places of the ledger holding id t (central queue, a ring, a steal ring, pending at its submitter,
   popped-and-held, executing) + number of completed executions of t. *)

(* pool_conservation: over ALL accepted event sequences from the initial state of a pool of any size: every submitted id is in
   exactly one place of the ledger or has completed exactly once (never more), and ids never generated are nowhere. *)
Theorem C01_pool_conservation : forall rcap scap share n0 tr s,
  accepts rcap scap share (init share n0) tr = Some s ->
  NoDup (gens s) /\
  (forall t, In t (gens s) -> tot t s = 1 /\ cnt t (done s) <= 1) /\
  (forall t, ~ In t (gens s) -> tot t s = 0 /\ cnt t (done s) = 0).
Proof. exact conservation. Qed.
Print Assumptions C01_pool_conservation.

(* ring_overflow_falls_back: after a failed ring push by thread tid (id t at the head of its pending list), whatever the other
   threads do in between, the next event of tid is the central-queue enqueue of that same id. *)
Theorem C01_ring_overflow_falls_back : forall rcap scap share s tid r s1,
  accept rcap scap share s tid (ERingPushFail r) = Some s1 ->
  exists t rest, pend (getT s1 tid) = t :: rest /\
    forall tr s2 e s3, accepts rcap scap share s1 tr = Some s2 -> (forall u e', In (u, e') tr -> u <> tid) ->
      accept rcap scap share s2 tid e = Some s3 ->
      exists tok, e = EEnqCentral tok 1 /\ In (pkey tid tok, t) (central s3) /\ pend (getT s3 tid) = rest.
Proof. exact ring_overflow_falls_back. Qed.
Print Assumptions C01_ring_overflow_falls_back.

(* The statement one would like, under the contract of ~ThreadPool as documented ("illegal to call the destructor while any OTHER thread
   makes calls to the pool"): when the destructor (thread d) starts, no submission is in progress and threads other than d and the pool's
   workers are outside the pool ([quiet]); afterwards only d and those workers act ([contract_event]); then at the destructor's return
   every submitted id has completed exactly once. *)
Definition C01_full_statement : Prop :=
  forall rcap scap share n0 tr1 s1 d tr3 s,
  accepts rcap scap share (init share n0) tr1 = Some s1 -> quiet s1 d ->
  Forall (contract_event s1 d) tr3 ->
  accepts rcap scap share s1 ((d, EDtorBegin) :: tr3 ++ [(d, EDtorEnd)]) = Some s ->
  forall t, In t (gens s) -> cnt t (done s) = 1.

(* It is FALSE of the code as written: ~ThreadPool drains the central queue BEFORE the locality rings and the steal rings and never looks at it
   again, and numThreads_ is still non-zero, so a task that one of those ring drains runs and that calls pool.schedule() enqueues a child
   that nobody will ever run (witness = trace of the real code, replayed on every run; known finding dtor-drain-task-reschedules). *)
Theorem C01_refuted : ~ C01_full_statement.
Proof.
  intros F. destruct c01_late_witness as (s1 & s & H1 & Q & Hf & H & _ & Hg & Hd & _).
  specialize (F 16 32 8 1 _ _ _ _ _ H1 Q Hf H 1). rewrite Hg, Hd in F. specialize (F (or_introl eq_refl)). vm_compute in F. discriminate F.
Qed.
Print Assumptions C01_refuted.

(* dtor_drains_all = C01_holds_except: the same statement on the complement of the finding's domain.  The domain is the Gallina predicate
   [late_gen] (Model/PoolModel.v) -- "some task is generated after the destructor's last central-queue drain has finished" -- evaluated on the
   whole trace; it is the very predicate the judge (Model/PoolCheck.v) uses to classify a never-invoked task as the known finding.  Tasks that
   the destructor or the workers run BEFORE that point may submit freely.  Conclusion: every tier is empty, no thread holds or executes
   anything, every submitted id has completed exactly once. *)
Theorem C01_dtor_drains_all : forall rcap scap share n0 tr1 s1 d tr3 s,
  accepts rcap scap share (init share n0) tr1 = Some s1 -> quiet s1 d ->
  Forall (contract_event s1 d) tr3 ->
  accepts rcap scap share s1 ((d, EDtorBegin) :: tr3 ++ [(d, EDtorEnd)]) = Some s ->
  late_gen rcap scap share (init share n0) (tr1 ++ (d, EDtorBegin) :: tr3 ++ [(d, EDtorEnd)]) = false ->
  rz s = RDead /\ central s = [] /\ (forall j, lget [] j (rings s) = []) /\ (forall j, lget [] j (steals s) = []) /\
  (forall u, th_ids (getT s u) = []) /\
  forall t, In t (gens s) -> cnt t (done s) = 1.
Proof. exact dtor_drains_all. Qed.
Print Assumptions C01_dtor_drains_all.

(* zero-thread pool: forceEnqueue reads numThreads_ == 0 and the submitter's next event is the inline call of that task *)
Theorem C01_zero_thread_pool_runs_inline : forall rcap scap share s tid nz s1,
  numThreads s = 0 -> accept rcap scap share s tid (ELoadNumThreads nz 1) = Some s1 ->
  nz = false /\ tpc (getT s1 tid) = PMustInline /\
  forall tr s2 e s3, accepts rcap scap share s1 tr = Some s2 -> (forall u e', In (u, e') tr -> u <> tid) ->
    accept rcap scap share s2 tid e = Some s3 ->
    exists site t rest, e = EInline site /\ pend (getT s2 tid) = t :: rest /\ held (getT s3 tid) = Some (t, KInline).
Proof. exact zero_threads_runs_inline. Qed.
Print Assumptions C01_zero_thread_pool_runs_inline.

(* every event preserves the ledger invariant (used by C03 for the resize events) *)
Theorem C01_every_event_conserves : forall rcap scap share s tid e s',
  Cons s -> accept rcap scap share s tid e = Some s' -> Cons s'.
Proof. exact step_conservation. Qed.
Print Assumptions C01_every_event_conserves.

(* non-vacuity: a 1-thread pool whose destructor starts while two force-queued tasks are still in the central queue; the worker runs one,
   the destructor's own central drain the other -- whose body submits a THIRD task while the destructor is running (allowed: it happens
   before the last central drain); the hypotheses hold, [late_gen] is false, and all three tasks are done exactly once. *)
Definition c01_prefix : list (nat * event) :=
  [(1%nat,EWorkerBegin 0); (0%nat,EGen 0); (0%nat,ELoadNumThreads true 1); (0%nat,EAdd 1 1); (0%nat,EEnqCentral 0 1);
   (0%nat,EGen 1); (0%nat,ELoadNumThreads true 1); (0%nat,EAdd 1 1); (0%nat,EEnqCentral 0 1)].
Definition c01_during : list (nat * event) :=
  [(0%nat,EStopAll); (0%nat,EWakeAll); (1%nat,EPopCentral 0 1); (0%nat,EPopCentral 1 0); (1%nat,EBodyBegin 0); (0%nat,EBodyBegin 1);
   (0%nat,EGen 2); (0%nat,ELoadNumThreads true 1); (0%nat,EAdd 1 1); (0%nat,EEnqCentral 0 1);
   (0%nat,EBodyEnd 1); (0%nat,ESub 1 1); (1%nat,EBodyEnd 0); (1%nat,ESub 1 3);
   (0%nat,EPopCentral 2 0); (0%nat,EBodyBegin 2); (0%nat,EBodyEnd 2); (0%nat,ESub 1 1);
   (0%nat,ECentralDone 2); (0%nat,EJoinBegin);
   (1%nat,EWorkerEnd 0); (0%nat,EJoinDone); (0%nat,ECentralDone 3); (0%nat,ERingDone 0); (0%nat,EStealDone 0)].
Example C01_nonvacuous :
  exists s1 s, accepts 16 32 8 (init 8 1) c01_prefix = Some s1 /\ quiet s1 0 /\ Forall (contract_event s1 0%nat) c01_during /\
    accepts 16 32 8 s1 ((0%nat, EDtorBegin) :: c01_during ++ [(0%nat, EDtorEnd)]) = Some s /\
    late_gen 16 32 8 (init 8 1) (c01_prefix ++ (0%nat, EDtorBegin) :: c01_during ++ [(0%nat, EDtorEnd)]) = false /\
    done s = [2; 0; 1] /\ wr s = 0.
Proof.
  eexists. eexists. split; [vm_compute; reflexivity|]. split; [apply quietb_sound; vm_compute; reflexivity|].
  split; [repeat (apply Forall_cons; [unfold contract_event; cbn [fst snd is_dtor_end]; split; [reflexivity|]; first [left; reflexivity | right; vm_compute; reflexivity]|]); apply Forall_nil|].
  vm_compute. repeat split.
Qed.

(* the same on a real trace: harness/h_pool on "pool(2); schedule(t0,Force); schedule(t1 -- whose body schedules t5 --, Force); scheduleBulk(3);
   ~ThreadPool" (all six tasks done once; judged on every run by props/C01.py) *)
Definition c01_real : list (nat * event) :=
  [(1%nat,EWorkerBegin 0); (2%nat,EWorkerBegin 1); (0%nat,EGen 0); (0%nat,ELoadNumThreads true 1); (0%nat,EAdd 1 1); (0%nat,EEnqCentral 0 1); (0%nat,EGen 1);
   (0%nat,ELoadNumThreads true 1); (0%nat,EAdd 1 1); (0%nat,EEnqCentral 0 1); (0%nat,ELoadNumThreads true 2); (0%nat,EAdd 3 2); (0%nat,EGen 2); (0%nat,EGen 3);
   (0%nat,EGen 4); (0%nat,EEnqCentral 0 3); (1%nat,EPopCentral 0 1); (2%nat,EPopCentral 1 1); (1%nat,EBodyBegin 0); (2%nat,EBodyBegin 1); (1%nat,EBodyEnd 0);
   (2%nat,EGen 5); (2%nat,ELoadNumThreads true 1); (1%nat,EPopCentral 2 1); (2%nat,EAdd 1 1); (1%nat,EBodyBegin 2); (1%nat,EBodyEnd 2); (1%nat,EPopCentral 3 1);
   (1%nat,EBodyBegin 3); (1%nat,EBodyEnd 3); (1%nat,EPopCentral 4 1); (1%nat,EBodyBegin 4); (1%nat,EBodyEnd 4); (1%nat,ESub 4 3); (2%nat,EEnqCentral 1 1);
   (2%nat,EBodyEnd 1); (1%nat,EPopCentral 5 1); (1%nat,EBodyBegin 5); (1%nat,EBodyEnd 5); (1%nat,ESub 1 3); (2%nat,ESub 1 3); (0%nat,EDtorBegin);
   (0%nat,EStopAll); (0%nat,EWakeAll); (0%nat,ECentralDone 2); (0%nat,EJoinBegin); (1%nat,EWorkerEnd 0); (2%nat,EWorkerEnd 1); (0%nat,EJoinDone);
   (0%nat,ECentralDone 3); (0%nat,ERingDone 0); (0%nat,ERingDone 1); (0%nat,EStealDone 0); (0%nat,EDtorEnd)].
Example C01_real_trace_accepted :
  exists s, accepts 16 32 8 (init 8 2) c01_real = Some s /\ rz s = RDead /\ wr s = 0 /\ length (done s) = 6%nat.
Proof. eexists. vm_compute. repeat split. Qed.
