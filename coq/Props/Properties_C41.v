(* C41 -- SmallBufferAllocator hands out exclusive aligned blocks.
   Statements only.  Model: Model/SmallBufModel.v -- one size class of detail::SmallBufferAllocator<kChunkSize> as written:
   thread-local caches, central store (ANY container satisfying the multiset specification below; instantiated with a FIFO list
   and with an oracle-driven multiset), backing-store vector under the lock word, thread exit flush, cross-thread dealloc, and the
   two lock protocols (grabFromCentralStore: fetch_add / enter iff old = 0 / store 0 / others spin;  bytesAllocated:
   compare_exchange_weak(allocId, 1) loop that resets allocId = 0 after every failure -- the repaired form).
   Any number of threads, any programs, any schedule.
   Memory model: sequentially consistent interleaving; vector and queue operations are atomic steps, so the theorems about blocks
   presuppose what the lock is there to guarantee; that it does is the separate theorem C41_lock_mutual_exclusion.
   Tie: lockstep under harness/vsched.h (props/C41.py, harness/h_smallbuf.cpp, Model/C41Check.v). *)
From Coq Require Import ZArith List Bool.
From DV Require Import Base.MachInt Base.Sched Model.SmallBufModel Proofs.SmallBufLemmas Proofs.C41Proofs.
Import ListNotations.
Local Open Scope Z_scope.

(* lock_mutual_exclusion, for ALL programs (bytesAllocated included), any central container, any class, any schedule, fewer than
   2^32 threads: in every reachable state at most one thread is between a successful acquisition of backingStoreLock
   (fetch_add that returned 0 / compare-exchange 0 -> 1) and its store(0); the lock word is non-zero while it is held; the
   running maximum of the occupancy never exceeds 1.
   History: this was FALSE of the code before the repair "fix: SmallBufferAllocator::bytesAllocated retried its lock CAS with a
   stale expected value ..." in /repo (the retry compare-exchange used the observed non-zero value as expected value and
   succeeded while the lock was held); the model describes the repaired loop (allocId reset to 0 on every failure). *)
Theorem C41_lock_mutual_exclusion : forall (Q : Type) qenq qdeq c (q0 : Q) progs s,
  Z.of_nat (length progs) < 2 ^ 32 ->
  reach (step Q qenq qdeq c) (init Q q0 progs) s ->
  occ (threads s) <= 1 /\ maxocc s <= 1 /\ (occ (threads s) = 1 -> 1 <= lock s).
Proof. exact lock_mutual_exclusion. Qed.
Print Assumptions C41_lock_mutual_exclusion.

(* regression: the schedule that used to put two threads inside (T0 before push_back; T1 bytesAllocated: CAS, CAS, ...; T2
   fetch_add): on the repaired code T1 keeps retrying with expected value 0, T2 spins, occupancy stays 1 *)
Example C41_regression_former_witness :
  let s := fst (fst (run_sb (list Z) lq_enq oq_deq (cfg_of_chunk 4096) 15 [] [[OAlloc; OExit]; [OBytes; OExit]; [OAlloc; OExit]]
                       [0; 0; 0; 0; 0;   1; 1; 1; 1; 1; 1;   2; 2; 2; 0; 2])) in
  map tpc (threads s) = [PGrabPush; PBytesCas 0; PGrabSpin] /\ occ (threads s) = 1 /\ maxocc s = 1 /\ lock s = 2.
Proof. vm_compute. repeat split; reflexivity. Qed.

(* blocks_exclusive, in the strong form "exactly one place": in every reachable state every chunk of every carved slab occurs
   exactly once in  user-owned ++ central store ++ (thread caches and chunks a grower has not published yet),
   and nothing else occurs there.  For ANY central container that satisfies the multiset specification. *)
Theorem C41_blocks_exclusive : forall (Q : Type) qenq qdeq qcont c,
  (forall q l b, cnt b (qcont (qenq q l)) = (cnt b (qcont q) + cnt b l)%nat) ->
  (forall q n h l q', qdeq q n h = (l, q') -> forall b, cnt b (qcont q) = (cnt b l + cnt b (qcont q'))%nat) ->
  0 < ideal c <= pm c ->
  forall (q0 : Q) progs s, qcont q0 = [] -> reach (step Q qenq qdeq c) (init Q q0 progs) s ->
  NoDup (all_blocks Q qcont c s).
Proof. exact blocks_exclusive. Qed.
Print Assumptions C41_blocks_exclusive.

Theorem C41_blocks_conserved : forall (Q : Type) qenq qdeq qcont c,
  (forall q l b, cnt b (qcont (qenq q l)) = (cnt b (qcont q) + cnt b l)%nat) ->
  (forall q n h l q', qdeq q n h = (l, q') -> forall b, cnt b (qcont q) = (cnt b l + cnt b (qcont q'))%nat) ->
  0 < ideal c <= pm c ->
  forall (q0 : Q) progs s b, qcont q0 = [] -> reach (step Q qenq qdeq c) (init Q q0 progs) s ->
  In b (all_blocks Q qcont c s) <-> 0 <= b < Z.of_nat (length (backing s)) * pm c.
Proof. exact blocks_conserved. Qed.
Print Assumptions C41_blocks_conserved.

(* no_reissue_before_dealloc: whenever a step hands a block to a user (alloc returns b), b is not live, and the live blocks
   stay pairwise distinct *)
Theorem C41_no_reissue_before_dealloc : forall (Q : Type) qenq qdeq qcont c,
  (forall q l b, cnt b (qcont (qenq q l)) = (cnt b (qcont q) + cnt b l)%nat) ->
  (forall q n h l q', qdeq q n h = (l, q') -> forall b, cnt b (qcont q) = (cnt b l + cnt b (qcont q'))%nat) ->
  0 < ideal c <= pm c ->
  forall (q0 : Q) progs s t ch s' ch' site b, qcont q0 = [] -> reach (step Q qenq qdeq c) (init Q q0 progs) s ->
  step Q qenq qdeq c s t ch = Some (s', ch', site) -> user s' = user s ++ [b] -> ~ In b (user s) /\ NoDup (user s').
Proof. exact no_reissue_before_dealloc. Qed.
Print Assumptions C41_no_reissue_before_dealloc.

(* both reference containers satisfy the specification (the second is the one the correspondence drives with the blocks the
   real moodycamel queue returned) *)
Theorem C41_queue_instances :
  (forall q l b, cnt b (lq_cont (lq_enq q l)) = (cnt b (lq_cont q) + cnt b l)%nat) /\
  (forall q n h l q', lq_deq q n h = (l, q') -> forall b, cnt b (lq_cont q) = (cnt b l + cnt b (lq_cont q'))%nat) /\
  (forall q n h l q', oq_deq q n h = (l, q') -> forall b, cnt b (lq_cont q) = (cnt b l + cnt b (lq_cont q'))%nat).
Proof. split; [exact lq_enq_spec | split; [exact lq_deq_spec | exact oq_deq_spec]]. Qed.
Print Assumptions C41_queue_instances.

(* blocks_sized_aligned: the carving arithmetic.  base k = what alignedMalloc(kMallocBytes, kChunkSize) returned for slab k
   (contract: chunk-aligned, live slabs pairwise disjoint); block id b = slab * pm + idx lives at base slab + idx * chunk *)
Theorem C41_blocks_sized_aligned : forall c chunk (base : Z -> Z),
  0 < chunk -> 0 < pm c -> pm c * chunk <= mbytes c ->
  (forall k, base k mod chunk = 0) ->
  (forall k k', k <> k' -> base k + mbytes c <= base k' \/ base k' + mbytes c <= base k) ->
  (forall b, addr c chunk base b mod chunk = 0) /\
  (forall b, base (b / pm c) <= addr c chunk base b /\ addr c chunk base b + chunk <= base (b / pm c) + mbytes c) /\
  (forall b b', b <> b' -> addr c chunk base b + chunk <= addr c chunk base b' \/ addr c chunk base b' + chunk <= addr c chunk base b).
Proof.
  intros c chunk base H1 H2 H3 H4 H5. split; [|split].
  - intros b. apply block_aligned; assumption.
  - intros b. apply block_within_slab; assumption.
  - intros b b'. apply blocks_disjoint; assumption.
Qed.
Print Assumptions C41_blocks_sized_aligned.

(* the constants of every class the library instantiates (and of the three extra classes of the harness) meet the hypotheses,
   and a request of N = 2^k <= 256 bytes is served by a class whose chunk is >= N and a multiple of N (so N-aligned) *)
Theorem C41_class_constants :
  forallb class_ok [4; 8; 16; 32; 64; 128; 256; 2048; 4096; 8192] = true /\
  (forall k, 0 <= k <= 8 -> let n := 2 ^ k in
     n <= class_chunk n /\ class_chunk n mod n = 0 /\ In (class_chunk n) [4; 8; 16; 32; 64; 128; 256]) /\
  (forall a chunk n, 0 < n -> chunk mod n = 0 -> a mod chunk = 0 -> a mod n = 0).
Proof. split; [exact classes_ok | split; [exact class_serves_request | exact aligned_to_divisor]]. Qed.
Print Assumptions C41_class_constants.

(* every state the executable scheduler visits is reachable, so the theorems apply to the runs compared with the real code *)
Theorem C41_run_reach : forall Q qenq qdeq c fuel (q0 : Q) progs sched,
  reach (step Q qenq qdeq c) (init Q q0 progs) (fst (fst (run_sb Q qenq qdeq c fuel q0 progs sched))).
Proof. exact sb_run_reach. Qed.
Print Assumptions C41_run_reach.

(* non-vacuity: 3 threads on the class with 1 ideal / 6 chunks per slab (8192): allocations, a cross-thread deallocation that
   triggers the recycle at kMaxNumTLBuffers = 2, a bytesAllocated call, thread exits; the run completes with occupancy never
   above 1 and every chunk in exactly one place *)
Example C41_nonvacuous :
  let c := cfg_of_chunk 8192 in
  let progs := [[OAlloc; OAlloc; OExit]; [OAlloc; ODealloc 0; ODealloc 0; OExit]; [OBytes; OAlloc; OExit]] in
  Z.of_nat (length progs) < 2 ^ 32 /\ 0 < ideal c <= pm c /\
  let '(s, tr, st) := run_sb (list Z) lq_enq oq_deq c 200 [] progs
        [0;0;0;0; 2;2;2;2; 0;0;0;0; 2;2;2; 1;1;1;0; 0;0;0;0;0;0;0;0;0;0;0;0;0;0;0;0;0;0;0;0;0;0;0;0;0;0;0;0;0;0;0;0;0;0;0;0;0;0;0;0;0;0;0;0;0;0;0;0;0;0;0;0;0;0;0;0;0;0;0] in
  st = SDone /\ maxocc s = 1 /\ lock s = 0 /\ backing s = [0; 1] /\ user s = [1; 11] /\
  (* thread 2 held the lock in bytesAllocated (sites 9,10) while thread 0 did its fetch_add (3) and spun (4,4,4) until the store (11) *)
  firstn 12 tr = [(0, 0); (0, 1); (0, 2); (2, 0); (2, 1); (2, 9); (2, 10); (0, 3); (0, 4); (0, 4); (0, 4); (2, 11)] /\
  all_blocks (list Z) lq_cont c s = [1; 11; 2; 3; 4; 0; 5; 6; 7; 8; 9; 10].
Proof.
  cbv zeta. split; [reflexivity|]. split; [vm_compute; split; [reflexivity | discriminate]|].
  vm_compute. repeat split; reflexivity.
Qed.
