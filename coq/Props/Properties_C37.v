(* C37 -- ConcurrentObjectArena growth and copies are exact.
   Statements only; every proof is `exact` of a lemma from Proofs/C37Proofs.v.
   Model: Model/ArenaModel.v.  [step] is the interleaving semantics of concurrent grow_by calls (one model thread per call),
   [reach step s0 s] = s is reached from s0 by ANY thread choices and ANY oracle integers (spurious CAS failures);
   every explicit schedule is covered (C37_every_schedule_is_covered).  [arena_wf] is the invariant of every quiescent arena;
   it is established by the constructor and kept by grow_by and by copies (C37_constructor, C37_grow_sequential,
   C37_copy_keeps_wf).  Domain: no Index overflow (unbounded integers), deltas >= 0 (Index is unsigned). *)
From Coq Require Import ZArith List Bool Lia.
From DV Require Import Base.Sched Model.ArenaModel Proofs.C37Proofs.
Import ListNotations.
Local Open Scope Z_scope.

(* ---- concurrent grow_by: for all interleavings the index ranges handed to the callers are pairwise disjoint, lie in
   [size before, size now), and cover it exactly; each range has the length its caller asked for *)
Theorem C37_growby_disjoint_cover : forall a0 nid deltas s,
  arena_wf a0 -> Forall (fun d => 0 <= d) deltas -> reach step (init_state a0 nid deltas) s ->
  (forall t1 t2 th1 th2, t1 <> t2 -> nth_error (c_thr s) t1 = Some th1 -> nth_error (c_thr s) t2 = Some th2 ->
     claimed th1 = true -> claimed th2 = true ->
     snd (range_of th1) <= fst (range_of th2) \/ snd (range_of th2) <= fst (range_of th1)) /\
  (forall t th, nth_error (c_thr s) t = Some th -> claimed th = true ->
     a_pos a0 <= fst (range_of th) /\ fst (range_of th) <= snd (range_of th) /\ snd (range_of th) <= a_pos (c_ar s) /\
     nth_error deltas t = Some (snd (range_of th) - fst (range_of th))) /\
  (forall i, a_pos a0 <= i < a_pos (c_ar s) ->
     exists t th, nth_error (c_thr s) t = Some th /\ claimed th = true /\ fst (range_of th) <= i < snd (range_of th)).
Proof. exact growby_disjoint_cover_proof. Qed.
Print Assumptions C37_growby_disjoint_cover.

(* ... and once every call has returned, size() = old size + sum of the deltas (with a fresh arena: the union is [0, total)) *)
Theorem C37_growby_total : forall a0 nid deltas s,
  arena_wf a0 -> Forall (fun d => 0 <= d) deltas -> reach step (init_state a0 nid deltas) s ->
  finished s = true -> a_pos (c_ar s) = a_pos a0 + zsum deltas.
Proof. exact growby_total_proof. Qed.
Print Assumptions C37_growby_total.

(* no interleaving reads a buffer-table entry that was never written *)
Theorem C37_growby_no_uninit_read : forall a0 nid deltas s,
  arena_wf a0 -> Forall (fun d => 0 <= d) deltas -> reach step (init_state a0 nid deltas) s -> c_ub s = false.
Proof. exact growby_no_uninit_read_proof. Qed.
Print Assumptions C37_growby_no_uninit_read.

(* every element of a returned range is default-constructed (and stays so whatever the other calls do) *)
Theorem C37_growby_default_constructed : forall a0 nid deltas s t th,
  arena_wf a0 -> Forall (fun d => 0 <= d) deltas -> reach step (init_state a0 nid deltas) s ->
  nth_error (c_thr s) t = Some th -> t_pc th = PDone ->
  forall i, fst (range_of th) <= i < snd (range_of th) -> get (c_ar s) i = Some dflt.
Proof. exact growby_default_constructed_proof. Qed.
Print Assumptions C37_growby_default_constructed.

(* references stay valid across growth: from any reachable state on, every index below the capacity keeps its location
   (buffer identity, offset) -- buffers are never moved -- and the elements that existed before keep their cells *)
Theorem C37_refs_stable : forall a0 nid deltas s1 s2,
  arena_wf a0 -> Forall (fun d => 0 <= d) deltas -> reach step (init_state a0 nid deltas) s1 -> reach step s1 s2 ->
  (forall i, 0 <= i < a_cap (c_ar s1) -> exists ad, addr (c_ar s1) i = Some ad /\ addr (c_ar s2) i = Some ad) /\
  (forall i, 0 <= i < a_pos a0 -> get_cell (c_ar s2) i = get_cell a0 i).
Proof. exact refs_stable_proof. Qed.
Print Assumptions C37_refs_stable.

Theorem C37_every_schedule_is_covered : forall sched s, reach step s (run_sched s sched).
Proof. exact run_sched_reach. Qed.
Print Assumptions C37_every_schedule_is_covered.

(* ---- indexing: index <-> (buffer, offset) is a bijection *)
Theorem C37_index_bijection : forall lg, 0 <= lg ->
  (forall i, 0 <= i -> let b := Z.shiftr i lg in let o := Z.land i (2 ^ lg - 1) in 0 <= b /\ 0 <= o < 2 ^ lg /\ i = b * 2 ^ lg + o) /\
  (forall b o, 0 <= b -> 0 <= o < 2 ^ lg -> Z.shiftr (b * 2 ^ lg + o) lg = b /\ Z.land (b * 2 ^ lg + o) (2 ^ lg - 1) = o) /\
  (forall i j, 0 <= i -> 0 <= j -> Z.shiftr i lg = Z.shiftr j lg -> Z.land i (2 ^ lg - 1) = Z.land j (2 ^ lg - 1) -> i = j).
Proof.
  intros lg H. split; [|split].
  - intros i Hi. exact (index_split_proof lg i H Hi).
  - intros b o. exact (index_join_proof lg b o H).
  - intros i j. exact (index_inj_proof lg i j H).
Qed.
Print Assumptions C37_index_bijection.

(* ---- sequential operations *)
(* constructor: buffer size = minBuffSize rounded up to a power of two; initialSize default-constructed elements *)
Theorem C37_constructor : forall m init nid a n, 0 <= init -> new_arena m init nid = Some (a, n) ->
  arena_wf a /\ a_pos a = init /\ a_bsz a = 2 ^ ctor_lg m /\ (forall i, 0 <= i < init -> get a i = Some dflt).
Proof. exact new_arena_spec_proof. Qed.
Print Assumptions C37_constructor.

Theorem C37_constructor_rounds_up : forall m, 1 <= m ->
  let lg := ctor_lg m in 0 <= lg /\ m <= Z.shiftl 1 lg /\ (lg = 0 \/ 2 ^ (lg - 1) < m).
Proof. exact ctor_rounds_up_proof. Qed.
Print Assumptions C37_constructor_rounds_up.

(* grow_by without concurrency (the same step function run by one thread) *)
Theorem C37_grow_sequential : forall a d nid a' r n',
  arena_wf a -> 0 <= d -> grow a d nid = Some (a', r, n') ->
  r = a_pos a /\ a_pos a' = a_pos a + d /\ arena_wf a' /\
  (forall i, r <= i < r + d -> get a' i = Some dflt) /\
  (forall i, 0 <= i < a_pos a -> get_cell a' i = get_cell a i) /\
  (forall i, 0 <= i < a_cap a -> exists ad, addr a i = Some ad /\ addr a' i = Some ad).
Proof. exact grow_spec_proof. Qed.
Print Assumptions C37_grow_sequential.

(* ---- copies.  The copy constructor is defined on every arena (any number of internal buffers, full table or not) and exact:
   same size, capacity, buffer count and table capacity, every cell equal, fresh buffers only (deep copy).
   (Until the fix commit in /repo the constructor looped to buffersSize_ and this statement was refuted for every arena with
   buffersPos_ < buffersSize_; the former witness is the regression example below.) *)
Theorem C37_copy_equal : forall a nid, arena_ok a ->
  exists c n', copy_ctor a nid = Some (c, n') /\
    a_pos c = a_pos a /\ a_cap c = a_cap a /\ a_bpos c = a_bpos a /\ a_tsz c = a_tsz a /\
    (forall i, get_cell c i = get_cell a i) /\ contents c = contents a /\
    (forall b bf, get_buf c b = Some bf -> (nid <= bid bf < n')%nat) /\
    arena_ok c.
Proof. exact copy_equal_proof. Qed.
Print Assumptions C37_copy_equal.

(* the former refutation witness: minBuffSize 2, grow to 5 elements (3 buffers in a table of 4), copy -- now exact *)
Example C37_copy_regression :
  exists a1 n1 a r n c n',
    new_arena 2 0 0 = Some (a1, n1) /\ grow a1 5 n1 = Some (a, r, n) /\ a_pos a = 5 /\ a_bpos a = 3 /\ a_tsz a = 4 /\
    copy_ctor a n = Some (c, n') /\ shape c = shape a /\ contents c = repeat (Some dflt) 5 /\ contents a = repeat (Some dflt) 5.
Proof. exact copy_regression_proof. Qed.
Print Assumptions C37_copy_regression.

Theorem C37_copy_keeps_wf : forall a nid c n', arena_wf a -> copy_ctor a nid = Some (c, n') -> arena_wf c.
Proof. exact copy_wf. Qed.
Print Assumptions C37_copy_keeps_wf.

(* copy construction / copy assignment as operations on named arenas: exact *)
Theorem C37_copy_construct : forall w d s a w' out,
  slot w s = Some a -> arena_ok a -> exec_op w (OCopy d s) = Some (w', out) ->
  exists c, slot w' d = Some c /\ slot w' s = Some a /\ a_pos c = a_pos a /\ contents c = contents a /\
            (forall b bf, get_buf c b = Some bf -> (w_next w <= bid bf)%nat).
Proof. exact copy_op_exact_proof. Qed.
Print Assumptions C37_copy_construct.

Theorem C37_copy_assign : forall w d s a old w' out,
  slot w s = Some a -> slot w d = Some old -> arena_ok a -> exec_op w (OAssign d s) = Some (w', out) ->
  exists c, slot w' d = Some c /\ a_pos c = a_pos a /\ contents c = contents a /\ (d <> s -> slot w' s = Some a).
Proof. exact assign_exact_proof. Qed.
Print Assumptions C37_copy_assign.

(* move construction, move assignment and swap hand over / exchange the arenas unchanged (same size, contents and buffers) *)
Theorem C37_move_construct : forall w d s a w' out,
  slot w s = Some a -> exec_op w (OMove d s) = Some (w', out) ->
  slot w' d = Some a /\ slot w' s = Some zero_arena /\ contents zero_arena = [].
Proof. exact move_exact_proof. Qed.
Print Assumptions C37_move_construct.

Theorem C37_move_assign : forall w d s a b w' out,
  slot w s = Some a -> slot w d = Some b -> exec_op w (OMoveAssign d s) = Some (w', out) ->
  slot w' d = (if Nat.eqb d s then Some b else Some a) /\ (d <> s -> slot w' d = Some a) /\ out = full a ++ full b.
Proof. exact move_assign_exact_proof. Qed.
Print Assumptions C37_move_assign.

Theorem C37_swap : forall w x y a b w' out,
  slot w x = Some a -> slot w y = Some b -> exec_op w (OSwap x y) = Some (w', out) ->
  slot w' x = Some b /\ slot w' y = Some a /\ out = full b ++ full a.
Proof. exact swap_exact_proof. Qed.
Print Assumptions C37_swap.

(* the hypotheses are satisfiable: a fresh arena (buffers of 2), three concurrent calls grow_by(3), grow_by(2), grow_by(4) under a
   round-robin schedule with one spurious CAS failure: all return, ranges tile [0, 9), 5 buffers in a table of 8 *)
Example C37_nonvacuous :
  exists a n, new_arena 2 0 0 = Some (a, n) /\ arena_wf a /\
    let rr := [(0%nat, 0); (1%nat, 0); (2%nat, 0)] in
    let s := run_sched (init_state a n [3; 2; 4]) (rr ++ rr ++ rr ++ [(1%nat, 1)] ++ concat (repeat rr 30)) in
    finished s = true /\ map range_of (c_thr s) = [(0, 3); (3, 5); (5, 9)] /\ shape (c_ar s) = [9; 10; 5; 8] /\
    contents (c_ar s) = repeat (Some dflt) 9 /\ c_ub s = false.
Proof.
  destruct (new_arena 2 0 0) as [[a n]|] eqn:E; [|vm_compute in E; discriminate].
  exists a, n. split; [reflexivity|]. split; [apply (new_arena_spec_proof 2 0 0 a n ltac:(lia) E)|].
  vm_compute in E. injection E as <- <-. vm_compute. repeat split; reflexivity.
Qed.
