(* C15 -- for_each applies the function once per element.
   Statements only; every proof is `exact` of a lemma from Proofs/.
   Model: Model/ForEachModel.v (thread count, chunk offsets from the staticChunkSize REGENERATED from /repo,
   who runs which chunk).  fe_plan c = None means the call does not return normally.
   The property is FALSE for the code as it is on the domain c15_dom (zero-thread pool, wait=false, n > 0,
   maxThreads != 0): numThreads = min(0 + 0, maxThreads, n) = 0 and detail::staticChunkSize(n, 0) divides by zero
   (the assert(chunks > 0) is compiled out under NDEBUG): C15_refuted.  On the complement every element is
   visited exactly once: C15_holds_except. *)
From Coq Require Import ZArith List Bool Lia.
From DV Require Import Base.MachInt Model.ChunkModel Gen.GenChunk Model.ParForModel Model.PlanModel Model.ForEachModel
  Proofs.C15Proofs.
Import ListNotations.
Local Open Scope Z_scope.

Definition C15_full_statement : Prop :=
  forall c, 0 <= fe_n c -> 0 <= fe_N c ->
  exists p, fe_plan c = Some p /\ forall i, visit_count p i = if (0 <=? i) && (i <? fe_n c) then 1 else 0.

(* whenever the call returns, every element of [0,n) is visited by exactly one chunk and nothing else is *)
Theorem C15_foreach_once : forall c p, 0 <= fe_n c -> 0 <= fe_N c -> fe_plan c = Some p ->
  forall i, visit_count p i = if (0 <=? i) && (i <? fe_n c) then 1 else 0.
Proof. exact C15_foreach_once_proof. Qed.
Print Assumptions C15_foreach_once.

(* n = 5 elements, zero-thread pool, maxThreads 3, wait=false *)
Theorem C15_refuted :
  exists c, 0 <= fe_N c /\ 0 < fe_n c /\ fe_decide c = FDivZero /\ fe_numThreads c = 0 /\ fe_plan c = None /\
            c15_dom c = true /\ c = FE 5 0 3 false.
Proof. exact C15_refuted_proof. Qed.
Print Assumptions C15_refuted.

Theorem C15_holds_except : forall c, 0 <= fe_n c -> 0 <= fe_N c -> c15_dom c = false ->
  exists p, fe_plan c = Some p /\ forall i, visit_count p i = if (0 <=? i) && (i <? fe_n c) then 1 else 0.
Proof. exact C15_holds_except_proof. Qed.
Print Assumptions C15_holds_except.

(* the domain is exact *)
Theorem C15_domain_exact : forall c, 0 <= fe_n c -> 0 <= fe_N c -> (fe_plan c = None <-> c15_dom c = true).
Proof. exact C15_divzero_iff_proof. Qed.
Print Assumptions C15_domain_exact.

(* every application is made inside a scheduled closure or on the calling thread before tasks.wait(); so all
   have finished when the call (wait=true) / the task set's wait() (wait=false) returns -- given the task
   set's own contract (C02) *)
Theorem C15_nothing_deferred : forall c p, fe_plan c = Some p ->
  forall a, In a p -> c_who a = CallerPre \/ exists j, c_who a = Task j.
Proof. exact C15_no_deferred_proof. Qed.
Print Assumptions C15_nothing_deferred.

Example C15_nonvacuous :
  fe_plan (FE 10 3 8 true) =
    Some [CALL (Task 0) 0 0 0 3; CALL (Task 1) 0 0 3 6; CALL (Task 2) 0 0 6 8; CALL CallerPre 0 0 8 10]
  /\ c15_dom (FE 10 3 8 true) = false /\ c15_dom (FE 10 0 8 true) = false /\ c15_dom (FE 10 0 8 false) = true.
Proof. vm_compute. repeat split; reflexivity. Qed.
