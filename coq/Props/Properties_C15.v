(* C15 -- for_each applies the function once per element.
   Statements only; every proof is `exact` of a lemma from Proofs/.
   Model: Model/ForEachModel.v (thread count, chunk offsets from the staticChunkSize REGENERATED from /repo,
   who runs which chunk), describing the code AFTER the repair of the finding foreach-zero-threads-nowait-div0
   (numThreads is clamped to >= 1; before, a zero-thread pool with wait=false reached staticChunkSize(n, 0)). *)
From Coq Require Import ZArith List Bool Lia.
From DV Require Import Base.MachInt Model.ChunkModel Gen.GenChunk Model.ParForModel Model.PlanModel Model.ForEachModel
  Proofs.C15Proofs.
Import ListNotations.
Local Open Scope Z_scope.

(* every element of [0,n) is visited by exactly one chunk and nothing else is -- for every n (0 included), every
   pool size (zero-thread pools included), every maxThreads (0, 1, >= 2^31 included) and both wait modes *)
Theorem C15_foreach_once : forall c, 0 <= fe_n c ->
  forall i, visit_count (fe_plan c) i = if (0 <=? i) && (i <? fe_n c) then 1 else 0.
Proof. exact C15_foreach_once_proof. Qed.
Print Assumptions C15_foreach_once.

(* every application is made inside a scheduled closure or on the calling thread before tasks.wait(); so all
   have finished when the call (wait=true) / the task set's wait() (wait=false) returns -- given the task
   set's own contract (C02) *)
Theorem C15_nothing_deferred : forall c a, In a (fe_plan c) -> c_who a = CallerPre \/ exists j, c_who a = Task j.
Proof. exact C15_no_deferred_proof. Qed.
Print Assumptions C15_nothing_deferred.

(* each chunk applies the functor VALUE it captured when it was scheduled (version 0 = the caller's functor at the
   time of the call): with wait=false the caller may change or destroy its functor object after for_each_n returned
   and before the queued chunks run; no application goes through that later state *)
Theorem C15_functor_captured_at_schedule_time : forall c a, In a (fe_plan c) -> c_state a = 0.
Proof. exact C15_functor_value_proof. Qed.
Print Assumptions C15_functor_captured_at_schedule_time.

(* the chunk count handed to staticChunkSize is never zero (the former division by zero) and respects maxThreads *)
Theorem C15_thread_count : forall c, 1 <= fe_numThreads c <= Z.max 1 (wrap_s 32 (fe_maxThreads c)).
Proof. exact C15_thread_count_proof. Qed.
Print Assumptions C15_thread_count.

(* regression: the former witness (n = 5, zero-thread pool, maxThreads 3, wait=false) now has one chunk [0,5),
   handed to scheduleBulk as closure 0 (a zero-thread pool runs it inline on the calling thread);
   plus a non-trivial configuration *)
Example C15_nonvacuous :
  fe_plan (FE 5 0 3 false) = [CALL (Task 0) 0 0 0 5] /\ fe_numThreads (FE 5 0 3 false) = 1
  /\ fe_plan (FE 5 0 3 true) = [CALL CallerPre 0 0 0 5]
  /\ fe_plan (FE 10 3 8 true) =
       [CALL (Task 0) 0 0 0 3; CALL (Task 1) 0 0 3 6; CALL (Task 2) 0 0 6 8; CALL CallerPre 0 0 8 10].
Proof. vm_compute. repeat split; reflexivity. Qed.
