(* C23 -- DistributedRWLock grants exclusive access to lock()/try_lock() holders against all readers and writers on every
   sub-lock, and shared access otherwise, for any thread-to-slot mapping and any mix of blocking and try writers; a failed
   try_lock leaves no trace; blocked lockers proceed once conflicts are released.
   Statements only.  Model: Model/RWLockModel.v with N >= 1 slots (DistributedRWLockImpl<N>: two-phase lock -- writer bits
   in index order, then drain in index order --, try_lock with rollback of the earlier slots, unlock in index order,
   readers on slot index mod N), any number of threads, any schedule, N a parameter of every theorem.
   Tie: lockstep under harness/vsched.h on DistributedRWLockImpl<1|2|4|16> (props/C23.py). *)
From Coq Require Import ZArith List Bool.
From DV Require Import Base.MachInt Base.Sched Model.RWLockModel Proofs.C22Proofs Proofs.C22Progress.
Import ListNotations.
Local Open Scope Z_scope.

(* a writer inside its critical section excludes every other writer and every reader on every slot *)
Theorem C23_dist_exclusion : forall N K strict progs s,
  scripts_ok N strict progs -> reach (step N K) (init N progs) s ->
  forall t1 t2 th1 th2, t1 <> t2 -> nth_error (threads s) t1 = Some th1 -> nth_error (threads s) t2 = Some th2 ->
  tmode th1 = MW -> tmode th2 = MIdle.
Proof. exact reach_exclusion. Qed.
Print Assumptions C23_dist_exclusion.

(* successful try operations enter legitimately *)
Theorem C23_dist_try_never_conflicts : forall N K strict progs s t ch s' ch' site th th',
  scripts_ok N strict progs -> reach (step N K) (init N progs) s -> step N K s t ch = Some (s', ch', site) ->
  nth_error (threads s) t = Some th -> nth_error (threads s') t = Some th' ->
  (res th' = (r_try, 1) :: res th ->
     tmode th' = MW /\ forall t2 th2, t2 <> t -> nth_error (threads s') t2 = Some th2 -> tmode th2 = MIdle) /\
  (res th' = (r_tls, 1) :: res th ->
     exists i, tmode th' = MR i /\ forall t2 th2, nth_error (threads s') t2 = Some th2 -> tmode th2 <> MW).
Proof. exact reach_try_success. Qed.
Print Assumptions C23_dist_try_never_conflicts.

(* a failed try_lock (some slot held by another writer; the bits already taken are rolled back) leaves no trace: the caller
   owns no writer bit on any slot and holds no reader count; every slot word is what the other threads account for *)
Theorem C23_dist_trylock_fail_no_trace : forall N K strict progs s t ch s' ch' site th th' tag,
  scripts_ok N strict progs -> reach (step N K) (init N progs) s -> step N K s t ch = Some (s', ch', site) ->
  nth_error (threads s) t = Some th -> nth_error (threads s') t = Some th' ->
  res th' = (tag, 0) :: res th ->
  tmode th' = MIdle /\ (forall j, ownz N th' j = 0 /\ rdz th' j = 0) /\
  (forall j, (j < N)%nat -> nth j (words s') 0 = WB * nown N (threads s') j + ncnt (threads s') j).
Proof. exact reach_try_failure. Qed.
Print Assumptions C23_dist_trylock_fail_no_trace.

Theorem C23_dist_all_done_words_zero : forall N K progs s,
  scripts_ok N true progs -> reach (step N K) (init N progs) s -> finished s = true ->
  forall j, (j < N)%nat -> nth j (words s) 0 = 0.
Proof. exact reach_all_done_words_zero. Qed.
Print Assumptions C23_dist_all_done_words_zero.

(* no lost wake-up on any slot *)
Theorem C23_dist_no_lost_wakeup : forall N K strict progs s,
  scripts_ok N strict progs -> reach (step N K) (init N progs) s ->
  forall i, (exists th k, In th (threads s) /\ tpc th = PBlocked i k) -> nth i (words s) 0 = WB ->
            exists th k, In th (threads s) /\ tpc th = PRelWake i k.
Proof. exact reach_no_lost_wakeup. Qed.
Print Assumptions C23_dist_no_lost_wakeup.

(* no deadlock by sleeping *)
Theorem C23_dist_no_sleep_deadlock : forall N K progs s,
  scripts_ok N true progs -> reach (step N K) (init N progs) s -> finished s = false -> cands s <> [].
Proof. exact reach_no_sleep_deadlock. Qed.
Print Assumptions C23_dist_no_sleep_deadlock.

(* no deadlock, spinning paths included (ordered acquisition => acyclic wait-for; rank argument: two writers spinning on
   later slots would both own slot 0): from EVERY reachable state of balanced scripts a state in which every thread has
   finished remains reachable, for any N, any mix of blocking and try writers and readers on arbitrary slots *)
Theorem C23_dist_no_deadlock : forall N K progs s,
  scripts_ok N true progs -> Forall (fun p => existsb is_upgrade p = false) progs ->
  reach (step N K) (init N progs) s ->
  exists s', reach (step N K) s s' /\ finished s' = true.
Proof. intros N K progs s S U. apply (can_always_finish N K); [apply S | exact S | apply no_upgrade_safe; exact U]. Qed.
Print Assumptions C23_dist_no_deadlock.

(* the variant behind it (see Properties_C22.v: fair termination itself is not proved) *)
Theorem C23_fair_progress_partial : forall N K progs s,
  scripts_ok N true progs -> Forall (fun p => existsb is_upgrade p = false) progs ->
  reach (step N K) (init N progs) s -> finished s = false ->
  exists t s' site, step N K s t [] = Some (s', [], site) /\ Phi N K s' < Phi N K s.
Proof. intros N K progs s S U. apply (decreasing_step_exists N K); [apply S | exact S | apply no_upgrade_safe; exact U]. Qed.
Print Assumptions C23_fair_progress_partial.

Theorem C23_run_reach : forall fuel N K progs sched,
  reach (step N K) (init N progs) (fst (fst (run_rw fuel N K progs sched))).
Proof. intros. apply run_rw_reach. Qed.
Print Assumptions C23_run_reach.

Theorem C23_judge_domain_sound : forall N strict progs,
  (0 < N)%nat -> Z.of_nat (length progs) < 2147483648 ->
  forallb (fun p => wfb N strict (S (length p)) MIdle p) progs = true -> scripts_ok N strict progs.
Proof. exact scripts_ok_of_wfb. Qed.
Print Assumptions C23_judge_domain_sound.

(* non-vacuity: N = 4, a blocking writer, a try writer and two readers on different slots; the run finishes, every word
   is back to 0 *)
Definition C23_ex_progs : list (list op) :=
  [[OLock; OUnlock]; [ODTryLock 1; OUnlock]; [OLockShared 1; OUnlockShared 1]; [OTryLockShared 6 1; OUnlockShared 6]].
Example C23_nonvacuous :
  scripts_ok 4 true C23_ex_progs /\
  (let '(s, tr, st) := run_rw 120 4 16 C23_ex_progs (repeat 1 120) in
   st = SDone /\ words s = [0; 0; 0; 0]).
Proof.
  split; [apply scripts_ok_of_wfb; [repeat constructor | reflexivity | vm_compute; reflexivity] | vm_compute; repeat split; reflexivity].
Qed.
