(* C04 -- cancelled task sets start no further task bodies.
   Statements only.  Model: Model/TaskSetModel.v, all interleavings ([reach step1]); decisions: Gen/GenTaskSet.v regenerated from
   task_set.h / thread_pool.h (tie: GenTie/TaskSetGenTie.v).  The ghost field [cst] of a set is the clock of its first canceled_ := true
   store (cancel(), a parent's cascade, or the store at the end of trySetCurrentException; -1 when cancelled before the run); a frame at a
   body call site carries the clock [lic] of the canceled_ load that licensed it.
   History: the second inline fallback of ConcurrentTaskSet::schedule / schedulePlaced used to call f() without consulting canceled()
   (former C04_refuted); repaired in /repo by "fix: ConcurrentTaskSet::schedule / schedulePlaced second inline fallback consults
   canceled()"; the former witnesses are the regression Examples below and regression cases of props/C04.py. *)
From Coq Require Import ZArith List Bool.
From DV Require Import Base.MachInt Base.Sched Model.TaskSetModel Model.TaskSetCheck Gen.GenTaskSet GenTie.TaskSetGenTie Proofs.TaskSetProofs Proofs.TaskSetMoreProofs.
Import ListNotations.
Local Open Scope Z_scope.

(* no_body_after_cancel, unrestricted: at EVERY body call site of T (TaskSet::schedule inline, both inline paths of ConcurrentTaskSet::schedule /
   schedulePlaced, the packaged wrappers wherever they run, invokeInline of the bulk paths) the thread holds a licence: a canceled_ load of T
   that read false and precedes the first canceled_ := true store of T (if any) -- every reachable state of every program, all interleavings.
   So no body of T begins after the cancel store (hence after cancel() returned) unless the load that licensed it preceded that store. *)
Theorem C04_no_body_after_cancel : forall u s th f T site,
  reach step1 (init u) s -> In th (threads s) -> In f (stk th) -> body_point f = Some (T, site) ->
  exists L, lic_of f = Some (T, L) /\ 0 < L <= clock (sh s) /\ (cst (sets (sh s) T) = 0 \/ L < cst (sets (sh s) T)).
Proof. exact no_body_after_cancel. Qed.
Print Assumptions C04_no_body_after_cancel.

(* the flag and the ghost stamp agree in every reachable state: canceled_ is false iff no store happened, and it never goes back *)
Theorem C04_cancel_stamp : forall u s T, reach step1 (init u) s ->
  (canc (sets (sh s) T) = false <-> cst (sets (sh s) T) = 0) /\ cst (sets (sh s) T) <= clock (sh s).
Proof. exact cancel_stamp. Qed.
Print Assumptions C04_cancel_stamp.

(* decision level, on the REGENERATED code, all sites: TaskSet::schedule reaches the functor (raw or packaged) only if canceled() read false;
   ConcurrentTaskSet::schedule / schedulePlaced (kLightweight and kHeavy, both inline paths) call the raw functor only if canceled() read
   false; on a cancelled set the decision is skip (TaskSet) or hand the packaged wrapper -- which skips the body -- to the pool *)
Theorem C04_decide_inline_implies_not_cancelled_tsk : forall out lf canc ci skip recursive w n plf l2 cost,
  gen_tsk_schedule out lf canc ci skip recursive w n plf l2 cost <> 0 -> canc = false.
Proof. exact tsk_decide_inline_implies_not_cancelled. Qed.
Print Assumptions C04_decide_inline_implies_not_cancelled_tsk.
Theorem C04_decide_inline_implies_not_cancelled_cts : forall out lf canc ci skip recursive w n plf l2 cost,
  gen_cts_schedule out lf canc ci skip recursive w n plf l2 cost = 1 -> canc = false.
Proof. exact cts_decide_inline_implies_not_cancelled. Qed.
Print Assumptions C04_decide_inline_implies_not_cancelled_cts.
Theorem C04_cancelled_decision_never_raw : forall out lf canc ci skip recursive w n plf l2 cost, canc = true ->
  gen_tsk_schedule out lf canc ci skip recursive w n plf l2 cost = 0 /\ gen_cts_schedule out lf canc ci skip recursive w n plf l2 cost <> 1.
Proof. exact cancelled_decision_never_raw. Qed.
Print Assumptions C04_cancelled_decision_never_raw.

Definition C04_full_statement : Prop :=
  forall u s th f T site, reach step1 (init u) s -> In th (threads s) -> In f (stk th) -> body_point f = Some (T, site) ->
  exists L, lic_of f = Some (T, L) /\ 0 < L <= clock (sh s) /\ (cst (sets (sh s) T) = 0 \/ L < cst (sets (sh s) T)).

(* regression (former decision-level witness, harness case 'D 1 0 0 1 40 0 1 0 0 3 4 0'): cancelled, workRemaining_ 40 > poolLoadFactor_ 32 *)
Example C04_regression_decision :
  gen_cts_schedule 0 4 true true false false 40 1 32 3 c_kLightweight = 15 /\ gen_cts_schedule 0 4 true true false false 40 1 32 3 c_kHeavy = 16.
Proof. exact c04_decision_regression. Qed.
(* regression (former lockstep witness 'L 30 ; P 1 32 40 3 ; S 1 0 4 -1 0 ; T 0 0 : c 0 s 0 0 0 [ ] ; X 0 ...'): cancel store, outstanding load,
   canceled load (true), packageTask increment; the wrapper is queued, no body event *)
Example C04_regression_lockstep :
  let '(s, tr, st) := run_ts 20 c04_witness [0; 0; 0; 0; 0; 0; 0; 0] in
  st = SDone /\ map snd tr = [0; sc 42 0; sc 4 0; sc 1 0; sc 10 0] /\ length (queue (sh s)) = 1%nat /\ ledger (sh s) 1 = LPend 0 /\
  existsb (fun e => fst (fst e) =? t_b) (res (nth 0 (threads s) (TH [] [] false 0))) = false.
Proof. exact c04_regression. Qed.

(* non-vacuity: a force-queued task of a set that is cancelled before a worker dequeues it is skipped (ledger LSkip), its body never starts;
   and a licensed body exists: second inline fallback on a NON-cancelled overloaded set runs the functor with a licence *)
Example C04_nonvacuous :
  let u := SU [TC true false 4 []] [] 0 1 32 3 0 [] [([OSched 0 true false []; OCancel 0; OWorker], false, 0)] in
  let '(s, tr, st) := run_ts 40 u [0;0;0;0;0;0;0;0;0;0;0;0] in
  st = SDone /\ ledger (sh s) 1 = LSkip 0 /\ canc (sets (sh s) 0) = true /\
  existsb (fun e => fst (fst e) =? t_b) (res (nth 0 (threads s) (TH [] [] false 0))) = false.
Proof. vm_compute. repeat split; reflexivity. Qed.
Example C04_nonvacuous_inline2 :
  let u := SU [TC true false 4 []] [] 40 1 32 3 0 [] [([OSched 0 false false []], false, 0)] in
  let '(s, tr, st) := run_ts 40 u [0;0;0;0;0;0;0;0] in
  st = SDone /\ map snd tr = [0; sc 4 0; sc 1 0; sc 6 0] /\ ledger (sh s) 1 = LDone 0.
Proof. vm_compute. repeat split; reflexivity. Qed.
