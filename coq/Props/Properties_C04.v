(* C04 -- cancelled task sets start no further task bodies.
   Statements only.  Model: Model/TaskSetModel.v, all interleavings ([reach step1]); decisions: Gen/GenTaskSet.v regenerated from
   task_set.h / thread_pool.h (tie: GenTie/TaskSetGenTie.v).  The ghost field [cst] of a set is the clock of its first canceled_ := true
   store (cancel(), a parent's cascade, or the store at the end of trySetCurrentException; -1 when cancelled before the run); a frame at a
   body call site carries the clock [lic] of the canceled_ load that licensed it.
   The property is FALSE of the code as written (C04_refuted) and holds on the complement of that finding's domain (C04_holds_except). *)
From Coq Require Import ZArith List Bool.
From DV Require Import Base.MachInt Base.Sched Model.TaskSetModel Model.TaskSetCheck Gen.GenTaskSet GenTie.TaskSetGenTie Proofs.TaskSetProofs Proofs.TaskSetMoreProofs.
Import ListNotations.
Local Open Scope Z_scope.

(* The full statement: at every body call site of T the thread holds a licence: a canceled_ load of T that read false and precedes the
   first canceled_ := true store of T (if any). *)
Definition C04_full_statement : Prop :=
  forall u s th f T site, reach step1 (init u) s -> In th (threads s) -> In f (stk th) -> body_point f = Some (T, site) ->
  exists L, lic_of f = Some (T, L) /\ 0 < L <= clock (sh s) /\ (cst (sets (sh s) T) = 0 \/ L < cst (sets (sh s) T)).

(* It is FALSE: ConcurrentTaskSet::schedule(f) after cancel() returned, with workRemaining_ = 40 > poolLoadFactor_ = 32, reaches the call
   site of the second inline fallback (site 6 = cts.schedule.inline2.body) with canceled_ = true, without licence, and the calling
   thread has already logged the return of cancel(). *)
Theorem C04_refuted :
  exists s th k b rest, reach step1 (init c04_witness) s /\ In th (threads s) /\ stk th = FRawPt 0 k b 6 0 true :: rest /\
    canc (sets (sh s) 0) = true /\ 0 < cst (sets (sh s) 0) /\ In (t_c, 0, cst (sets (sh s) 0)) (res th) /\
    lic_of (FRawPt 0 k b 6 0 true) = None.
Proof. exact c04_refuted_reach. Qed.
Print Assumptions C04_refuted.

(* It HOLDS everywhere else: at every body call site other than the two second-inline-fallback sites (6 = cts.schedule.inline2.body,
   9 = cts.placed.inline2.body) -- TaskSet::schedule inline and queued, the packaged wrappers wherever they run, the first inline path of
   ConcurrentTaskSet::schedule / schedulePlaced, invokeInline of the bulk paths -- the licence exists and precedes the cancel store. *)
Theorem C04_holds_except : forall u s th f T site,
  reach step1 (init u) s -> In th (threads s) -> In f (stk th) -> body_point f = Some (T, site) -> site <> 6 -> site <> 9 ->
  exists L, lic_of f = Some (T, L) /\ 0 < L <= clock (sh s) /\ (cst (sets (sh s) T) = 0 \/ L < cst (sets (sh s) T)).
Proof. exact no_body_after_cancel. Qed.
Print Assumptions C04_holds_except.

(* the excepted sites are reached exactly in the finding's domain: pool overloaded, !skipRecheck, canInlineSchedule (c04_domain with the
   cancelled flag left open) *)
Theorem C04_inline2_only_in_domain : forall s th T k b skip placed rest c s' T' k' b' site lic g rest' e,
  step_top s th (FCsPool T k b skip placed) rest c = Some (s', FRawPt T' k' b' site lic g :: rest', e) ->
  negb skip && dec_overloaded (tpool th) (wr s) (nthr s) (plf s) (prlf s) && can_inline th rest = true /\
  (site = 6 \/ site = 9) /\ lic = 0 /\ T' = T /\ s' = s.
Proof. exact inline2_only_in_domain. Qed.
Print Assumptions C04_inline2_only_in_domain.

(* the flag and the ghost stamp agree in every reachable state: canceled_ is false iff no store happened, and it never goes back *)
Theorem C04_cancel_stamp : forall u s T, reach step1 (init u) s ->
  (canc (sets (sh s) T) = false <-> cst (sets (sh s) T) = 0) /\ cst (sets (sh s) T) <= clock (sh s).
Proof. exact cancel_stamp. Qed.
Print Assumptions C04_cancel_stamp.

(* decision level, on the REGENERATED code: TaskSet::schedule reaches the functor (raw or packaged) only if canceled() read false;
   ConcurrentTaskSet::schedule / schedulePlaced call the raw functor on a cancelled set exactly in the finding's domain *)
Theorem C04_decide_inline_implies_not_cancelled_tsk : forall out lf canc ci skip recursive w n plf l2 cost,
  gen_tsk_schedule out lf canc ci skip recursive w n plf l2 cost <> 0 -> canc = false.
Proof. exact tsk_decide_inline_implies_not_cancelled. Qed.
Print Assumptions C04_decide_inline_implies_not_cancelled_tsk.
Theorem C04_decide_inline_implies_not_cancelled_cts : forall out lf canc ci skip recursive w n plf l2 cost,
  gen_cts_schedule out lf canc ci skip recursive w n plf l2 cost = 1 ->
  c04_domain true false skip ci (dec_overloaded recursive w n plf l2) canc = false -> canc = false.
Proof. exact cts_decide_inline_implies_not_cancelled. Qed.
Print Assumptions C04_decide_inline_implies_not_cancelled_cts.
Theorem C04_refuted_decision :
  gen_cts_schedule 0 4 true true false false 40 1 32 3 c_kLightweight = 1 /\ gen_cts_schedule 0 4 true true false false 40 1 32 3 c_kHeavy = 1.
Proof. exact c04_decision_witness. Qed.
Print Assumptions C04_refuted_decision.

(* non-vacuity of the positive theorem: a force-queued task of a set that is cancelled before a worker dequeues it is skipped (ledger LSkip),
   its body never starts *)
Example C04_nonvacuous :
  let u := SU [TC true false 4 []] [] 0 1 32 3 0 [] [([OSched 0 true false []; OCancel 0; OWorker], false, 0)] in
  let '(s, tr, st) := run_ts 40 u [0;0;0;0;0;0;0;0;0;0;0;0] in
  st = SDone /\ ledger (sh s) 1 = LSkip 0 /\ canc (sets (sh s) 0) = true /\
  existsb (fun e => fst (fst e) =? t_b) (res (nth 0 (threads s) (TH [] [] false 0))) = false.
Proof. vm_compute. repeat split; reflexivity. Qed.
