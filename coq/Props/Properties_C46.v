(* C46 -- inline task execution never grows the stack without bound.
   Statements only; every proof is `exact` of a lemma from Proofs/C46Proofs.v.
   Model: Model/InlineDepthModel.v.  A program is a tree of tasks; every edge names the dispenso entry point (site) through which the
   parent's body (or its completion path) submits the child.  [exec (real_dec c orc) t] lists every task run with its inline nesting
   count (r_nest: enclosing inline entries on that thread's stack), the thread's InlineDepthGuard counter (r_g) and the number of
   enclosing inline entries made without a depth test (r_raw).  The inline-vs-queue decisions are the regenerated decision functions
   of Gen/GenTaskSet.v applied to a load oracle [orc] (one arbitrary set of loaded values per schedule call: all loads, all pools). *)
From Coq Require Import ZArith List Bool Lia.
From DV Require Import Model.InlineDepthModel Proofs.C46Proofs.
Import ListNotations.
Local Open Scope Z_scope.

(* the statement C46 asks for: one constant K bounds the nesting of every program under every load *)
Definition C46_full_statement : Prop :=
  exists K, forall c orc t r, In r (exec (real_dec c orc) t) -> r_nest r <= K.

(* what holds for ALL programs, pools and loads: the nesting exceeds kMaxInlineDepth = 32 only by the number of enclosing inline
   entries made at sites that never consult canInlineSchedule() *)
Theorem C46_depth_bound : forall c orc t r, In r (exec (real_dec c orc) t) ->
  0 <= r_nest r <= kMaxInlineDepth + r_raw r /\ 0 <= r_raw r <= r_nest r.
Proof. exact C46_depth_bound_proof. Qed.
Print Assumptions C46_depth_bound.

(* the property on the complement of the findings' domain: a program that submits nothing through an unguarded site
   (site_unguarded: the Gallina predicate the check classifies violations with) never nests deeper than kMaxInlineDepth *)
Theorem C46_holds_except : forall c orc t, uses_unguarded c t = false ->
  forall r, In r (exec (real_dec c orc) t) -> 0 <= r_nest r <= kMaxInlineDepth.
Proof. exact C46_holds_except_proof. Qed.
Print Assumptions C46_holds_except.

(* refutations: at each of these sites a chain of n links nests n deep (1 pool thread, 40 blocked tasks: workRemaining_ 40 >
   poolLoadFactor_ 32, caller not a pool thread -- the configuration the harness measures; cfg0 = a pool without threads) *)
Theorem C46_refuted_pool_schedule : refuted_at cfg1 env_pool SPool.
Proof. exact refuted_pool. Qed.
Print Assumptions C46_refuted_pool_schedule.
Theorem C46_refuted_pool_schedulePlaced : refuted_at cfg1 env_pool SPoolPlaced.
Proof. exact refuted_poolplaced. Qed.
Theorem C46_refuted_pool_scheduleBulk : refuted_at cfg1 env_pool SPoolBulk.
Proof. exact refuted_poolbulk. Qed.
Theorem C46_refuted_taskset_schedule : refuted_at cfg1 env_set STsk.
Proof. exact refuted_tsk. Qed.
Print Assumptions C46_refuted_taskset_schedule.
Theorem C46_refuted_then_immediate : refuted_at cfg1 env_idle SThenImm.
Proof. exact refuted_thenimm. Qed.
Print Assumptions C46_refuted_then_immediate.
Theorem C46_refuted_then_pool : refuted_at cfg1 env_pool SThenPool.
Proof. exact refuted_thenpool. Qed.
(* the depth cap of a kHeavy ConcurrentTaskSet::scheduleBulk is bypassed: above the cap the work goes to
   ThreadPool::scheduleBulkPlaced, which runs it at once under pool load *)
Theorem C46_refuted_cts_heavy_bulk : refuted_at cfg1 env_set (SCtsBulk true).
Proof. exact refuted_ctshbulk. Qed.
Print Assumptions C46_refuted_cts_heavy_bulk.
(* a pool without threads runs every force-queued functor at once: the cap of ConcurrentTaskSet::schedule does not bound the nesting *)
Theorem C46_refuted_cts_zero_threads : forall heavy, refuted_at cfg0 env_idle (SCts heavy).
Proof. exact refuted_cts_zero. Qed.

(* hence the full statement is false in the model *)
Theorem C46_refuted : ~ C46_full_statement.
Proof. exact C46_refuted_proof. Qed.
Print Assumptions C46_refuted.

Theorem C46_witnesses_in_domain :
  site_unguarded cfg1 SPool = true /\ site_unguarded cfg1 SPoolPlaced = true /\ site_unguarded cfg1 SPoolBulk = true /\
  site_unguarded cfg1 STsk = true /\ site_unguarded cfg1 SThenImm = true /\ site_unguarded cfg1 SThenPool = true /\
  site_unguarded cfg1 (SCtsBulk true) = true /\ site_unguarded cfg0 (SCts false) = true /\ site_unguarded cfg0 (SCts true) = true.
Proof. exact witnesses_in_domain. Qed.

(* nesting through wait() is a separate dimension (a waiter runs whatever the pool hands it; not a scheduling or completion path):
   n independent waiting tasks can nest n deep *)
Theorem C46_wait_nesting_separate : forall n, wait_nest (repeat true n) 0 = Z.of_nat n.
Proof. exact wait_nest_from_zero. Qed.

Example C46_nonvacuous :
  (* a guarded chain under load: 32 inline entries, then the queue; an unguarded one: all 40 nested *)
  max_nest (exec (real_dec cfg1 (fun _ => env_set)) (chain (SCts false) 40)) = 32 /\
  max_nest (exec (real_dec cfg1 (fun _ => env_set)) (chain STsk 40)) = 40 /\
  max_nest (exec (real_dec cfg1 (fun _ => env_set)) (chain (SCtsBulk true) 40)) = 40 /\
  max_nest (exec (real_dec (CFG 2 64 8 6 2) (fun _ => ENV 0 72 false false false)) (chain SGraph 40)) = 16 /\
  uses_unguarded cfg1 (comb_from (SCts true) 2 0 5) = false /\ uses_unguarded cfg1 (chain STsk 3) = true.
Proof. vm_compute. repeat split; reflexivity. Qed.
