(* C05 -- task exceptions are captured and rethrown exactly once.
   Statements only.  Model: Model/TaskSetModel.v: trySetCurrentException = CAS Unset->Setting; write slot; store Set; store canceled_;
   testAndResetException = load guard; move slot; store Unset; rethrow -- one step per access; throwing bodies on every path (packaged
   wrappers wherever they run, invokeInline of the bulk paths, raw inline calls that propagate to the scheduling caller).
   delivered_at_most_once and throw_preserves_accounting hold for ALL interleavings ([reach step1]); first_exception_wins and
   next_wait_rethrows for all interleavings in which at most one thread at a time is between the guard load and the guard reset of
   testAndResetException of a given set ([reachP OneWaiter]): two concurrent wait()/tryWait() calls on ONE set race on exception_
   (reproduced on the real code: std::rethrow_exception(nullptr), SIGSEGV) -- outside the property's quantifier ("repeated" calls). *)
From Coq Require Import ZArith List Bool.
From DV Require Import Base.MachInt Base.Sched Model.TaskSetModel Proofs.TaskSetProofs Proofs.TaskSetExcProofs Proofs.TaskSetMoreProofs.
Import ListNotations.
Local Open Scope Z_scope.

(* first_exception_wins: exactly one thread is between a successful CAS and its guard := Set store while guard = Setting, none otherwise;
   every thread about to write the slot holds the exception of the last successful CAS ([won]); a completed capture that no waiter is
   consuming holds that exception *)
Theorem C05_first_exception_wins : forall u s T, reachP OneWaiter (init u) s ->
  let t := sets (sh s) T in
  (guard t = 1 -> tsum (setw T) (threads s) + tsum (sets_ T) (threads s) = 1) /\
  (guard t <> 1 -> tsum (setw T) (threads s) + tsum (sets_ T) (threads s) = 0) /\
  tsum (bad (won t) T) (threads s) = 0 /\
  (guard t = 2 -> tsum (wt T) (threads s) = 0 -> exn t = won t).
Proof. exact first_exception_wins. Qed.
Print Assumptions C05_first_exception_wins.

(* delivered_at_most_once: every write of the slot gets a ticket (the clock of the write); no (set, ticket) occurs twice in the log of
   rethrows -- all interleavings, concurrent waiters included *)
Theorem C05_delivered_at_most_once : forall u s T tk, reach step1 (init u) s -> tk <> 0 -> cntd T tk (delivered (sh s)) <= 1.
Proof. exact delivered_at_most_once. Qed.
Print Assumptions C05_delivered_at_most_once.

(* throw_preserves_accounting: the counter equation of C02 holds for programs with throwing bodies (the model's steps include every throw
   path: the decrement is on every path of the wrappers), and the counter is zero once nothing is queued or in flight *)
Theorem C05_throw_preserves_accounting : forall u s T, reach step1 (init u) s ->
  outst (sets (sh s) T) = qcount T (queue (sh s)) + tsum (contrib T) (threads s) /\
  (qcount T (queue (sh s)) = 0 -> (forall th f, In th (threads s) -> In f (stk th) -> contrib T f = 0) -> outst (sets (sh s) T) = 0).
Proof. exact throw_preserves_accounting. Qed.
Print Assumptions C05_throw_preserves_accounting.

(* next_wait_rethrows: when the counter reads 0 and no thread is capturing an exception of T outside a counted wrapper (invokeInline on a
   thread running scheduleBulk concurrently with the wait -- documented misuse for ConcurrentTaskSet, impossible for TaskSet), the
   guard is not Setting: a capture that happened is complete; and a testAndResetException that loads Set moves, resets and rethrows *)
Theorem C05_next_wait_rethrows : forall u s T, reachP OneWaiter (init u) s ->
  outst (sets (sh s) T) = 0 -> tsum (setter_inl T) (threads s) = 0 -> guard (sets (sh s) T) <> 1.
Proof. exact next_wait_rethrows. Qed.
Print Assumptions C05_next_wait_rethrows.
Theorem C05_test_and_reset_rethrows : forall s th T tw rest c, guard (sets s T) = 2 ->
  step_top s th (FTestGuard T tw) rest c = Some (s, FTestMove T tw :: rest, []) /\
  step_top s th (FTestMove T tw) rest c = Some (sh_set s T (ts_slot (sets s T) 0 0), FTestReset T tw (exn (sets s T)) (tick (sets s T)) :: rest, []) /\
  forall e tk, step_top s th (FTestReset T tw e tk) rest c =
               Some (sh_deliv (sh_set s T (ts_guard (sets s T) 0)) ((T, tk) :: delivered s), FThrow e :: rest, [(t_rt, enc e T, c)]).
Proof. exact test_and_reset_rethrows. Qed.
Print Assumptions C05_test_and_reset_rethrows.

Theorem C05_run_reach : forall fuel u sched, reach step1 (init u) (fst (fst (run_ts fuel u sched))).
Proof. exact run_ts_reach. Qed.
Print Assumptions C05_run_reach.

(* non-vacuity: two force-queued throwing tasks, two workers capture concurrently (one CAS wins, the other fails), the waiter rethrows the
   winner's exception exactly once, a second wait returns "cancelled" without rethrowing *)
Example C05_nonvacuous :
  let u := SU [TC true false 4 []] [] 0 1 32 3 0 [] [([OSched 0 true false [OThrow]; OSched 0 true false [OThrow]; OWait 0; OWait 0], false, 0); ([OWorker], true, 0); ([OWorker], true, 0)] in
  let '(s, tr, st) := run_ts 90 u [0;0;0;0;0;1;2;1;2;1;2;1;2;1;2;1;2;1;2;1;2;1;2;0;0;0;0;0;0;0;0;0;0;0;0;0;0;0;0;0;0;0;0;0;0;0;0;0;0;0;0;0] in
  st = SDone /\ length (delivered (sh s)) = 1%nat /\ guard (sets (sh s) 0) = 0 /\ outst (sets (sh s) 0) = 0 /\
  length (filter (fun e => fst (fst e) =? t_rt) (res (nth 0 (threads s) (TH [] [] false 0)))) = 1%nat.
Proof. vm_compute. repeat split; reflexivity. Qed.
