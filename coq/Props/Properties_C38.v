(* C38 -- SmallVector behaves like std::vector with aligned storage.
   Statements only; every proof is `exact` of a lemma from Proofs/C38Proofs.v.
   Model: Model/SmallVecModel.v (every public operation of dispenso/small_vector.h, statement by statement, on
   block-structured memory with a lifetime ledger: Model/SmallVecLife.v).  Quantified over: the allocator oracle
   [alloc] (= ::operator new, only assumed to return 16-aligned addresses), the inline capacity N >= 1, sizeof/alignof(T),
   the number K of vector objects and the operation history [ops].
   - [spec_run ops] = the same history on std::vector (lists); [None] = the history violates a std::vector precondition.
   - [run ... = Ok _] = the model committed none of the lifetime errors of [err] (double construction, destructor / read
     of a dead object, double delete, storage released with a live object, out-of-bounds access).
   - [selfref_growth] = the history contains push_back(v[i]) at size() == capacity()   (finding domain 2)
   - [overaligned al] = 16 <? al                                                          (finding domain 1) *)
From Coq Require Import ZArith List Bool Lia.
From DV Require Import Model.SmallVecLife Model.SmallVecModel Model.C38Check Proofs.C38Proofs.
Import ListNotations.
Local Open Scope Z_scope.

(* contents and size equal std::vector's, for all operation sequences and all inline capacities *)
Theorem C38_smallvec_refines_vector : forall alloc N szT K ops sp', (1 <= N)%nat ->
  spec_run ops (spec_init K) = Some sp' -> selfref_growth alloc N szT ops (init_slots K) led0 = false ->
  exists s g, run alloc N szT ops (init_slots K) led0 = Ok (s, g) /\ Forall2 slot_matches s sp'.
Proof. exact C38_refines_proof. Qed.
Print Assumptions C38_smallvec_refines_vector.

(* each element is constructed and destroyed exactly once (also across inline -> heap and heap -> heap moves):
   the run commits no lifetime error, constructions - destructions = number of elements at every point, and once
   every vector is destroyed nothing is alive and every block ::operator new returned was deleted (exactly once:
   a second delete is an error of the run) *)
Theorem C38_smallvec_lifetimes : forall alloc N szT K ops sp', (1 <= N)%nat ->
  spec_run ops (spec_init K) = Some sp' -> selfref_growth alloc N szT ops (init_slots K) led0 = false ->
  exists s g, run alloc N szT ops (init_slots K) led0 = Ok (s, g) /\
    nctor g - ndtor g = total sp' /\
    (Forall (eq None) sp' ->
       nctor g = ndtor g /\ Forall (fun b => b_live b = false) (blocks g) /\ Forall (eq None) s).
Proof. exact C38_lifetimes_proof. Qed.
Print Assumptions C38_smallvec_lifetimes.

(* inline storage: every element address is aligned whenever the vector object is placed at an address aligned for it *)
Theorem C38_inline_aligned : forall al szT obj g v i, is_pow2 al -> (al | szT) -> (obj_align al | obj) -> heapb v = false ->
  (al | elem_addr szT (data_addr al obj g v) i).
Proof. exact inline_aligned_proof. Qed.
Print Assumptions C38_inline_aligned.

(* heap storage: aligned when alignof(T) divides what ::operator new guarantees *)
Theorem C38_heap_aligned : forall alloc al N szT K ops sp', (1 <= N)%nat ->
  (forall c n, (16 | alloc c n)) -> (al | 16) -> (al | szT) ->
  spec_run ops (spec_init K) = Some sp' -> selfref_growth alloc N szT ops (init_slots K) led0 = false ->
  exists s g, run alloc N szT ops (init_slots K) led0 = Ok (s, g) /\
    forall k v i, nth_error s k = Some (Some v) -> heapb v = true -> (al | elem_addr szT (data_addr al 0 g v) i).
Proof. exact C38_heap_aligned_proof. Qed.
Print Assumptions C38_heap_aligned.

(* the property at full strength: every valid history, every element type *)
Definition C38_full_statement : Prop :=
  forall alloc al szT N K ops,
    (forall c n, (16 | alloc c n)) -> is_pow2 al -> (al | szT) -> (1 <= N)%nat -> C38_property alloc al szT N K ops.

(* REFUTED (1): alignof(T) = sizeof(T) = 32, N = 1, ::operator new returns 16 (mod 32): after two push_backs the
   first heap element sits at an address that is not a multiple of 32 *)
Theorem C38_refuted :
  exists alloc al szT N ops s g v,
    (forall c n, (16 | alloc c n)) /\ is_pow2 al /\ (al | szT) /\ (1 <= N)%nat /\
    spec_run ops (spec_init 1) <> None /\ selfref_growth alloc N szT ops (init_slots 1) led0 = false /\
    run alloc N szT ops (init_slots 1) led0 = Ok (s, g) /\
    nth_error s 0 = Some (Some v) /\ heapb v = true /\ (0 < vsize v)%nat /\
    ~ (al | elem_addr szT (data_addr al 0 g v) 0).
Proof. exact C38_refuted_proof. Qed.
Print Assumptions C38_refuted.

(* REFUTED (2): N = 2, push_back(11); push_back(22); push_back(v[0]) -- a valid std::vector history whose argument is
   read after growToHeap destroyed the element it refers to *)
Theorem C38_refuted_selfref :
  exists alloc N szT ops sp',
    (forall c n, (16 | alloc c n)) /\ (1 <= N)%nat /\ spec_run ops (spec_init 1) = Some sp' /\
    selfref_growth alloc N szT ops (init_slots 1) led0 = true /\
    run alloc N szT ops (init_slots 1) led0 = Err EReadDead.
Proof. exact C38_refuted_selfref_proof. Qed.
Print Assumptions C38_refuted_selfref.

Theorem C38_full_statement_refuted : ~ C38_full_statement.
Proof. exact C38_full_refuted_proof. Qed.
Print Assumptions C38_full_statement_refuted.

(* the full property on the complement of the two finding domains *)
Theorem C38_holds_except : forall alloc al szT N K ops,
  (forall c n, (16 | alloc c n)) -> is_pow2 al -> (al | szT) -> (1 <= N)%nat ->
  overaligned al = false -> selfref_growth alloc N szT ops (init_slots K) led0 = false ->
  C38_property alloc al szT N K ops.
Proof. exact C38_holds_except_proof. Qed.
Print Assumptions C38_holds_except.

(* a concrete non-trivial history satisfying the hypotheses: three vectors, inline -> heap growth, reallocation,
   copy, move, erase, self-referencing push below capacity, everything destroyed at the end *)
Example C38_nonvacuous :
  let ops := [OCtor 0; OPush 0 0 1; OPush 1 0 2; OPush 2 0 3; OPush 0 0 4; OPush 0 0 5; OPushSelf 0 1;
              OCtorCopy 1 0; OErase 1 2; OCtorMove 2 1; OResize 2 9; OAssignMove 0 2; OPop 0; OReserve 1 7;
              OAssignCopy 2 0; OClear 0; ODtor 0; ODtor 1; ODtor 2] in
  spec_run ops (spec_init 3) = Some [None; None; None] /\
  selfref_growth wit_alloc 2 16 ops (init_slots 3) led0 = false /\
  overaligned 16 = false /\
  (match run wit_alloc 2 16 ops (init_slots 3) led0 with
   | Ok (s, g) => (nctor g =? ndtor g) && (0 <? nctor g) && (3 <=? Z.of_nat (length (blocks g))) &&
                  forallb (fun b => negb (b_live b)) (blocks g)
   | Err _ => false
   end = true) /\
  spec_run (firstn 11 ops) (spec_init 3) = Some [Some [1; 2; 3; 4; 5; 2]; Some []; Some [1; 2; 4; 5; 2; 0; 0; 0; 0]].
Proof. vm_compute. repeat split; reflexivity. Qed.
