(* C38 -- SmallVector behaves like std::vector with aligned storage.
   Statements only; every proof is `exact` of a lemma from Proofs/C38Proofs.v.
   Model: Model/SmallVecModel.v (every public operation of dispenso/small_vector.h -- as repaired by the two `fix:`
   commits found through this check -- statement by statement, on block-structured memory with a lifetime ledger:
   Model/SmallVecLife.v).  Quantified over: the allocation functions ([onew] = ::operator new, only assumed to return
   16-aligned addresses; [amalloc] = detail::alignedMalloc, only assumed to return a-aligned addresses for a power of two a;
   [allocate_oracle] selects as the code does: alignedMalloc iff alignof(T) > 16), the inline capacity N >= 1,
   sizeof/alignof(T), the number K of vector objects and the operation history [ops] (including push_back(v[i]) and
   resize(n, v[i]) whose argument aliases an element).
   - [spec_run ops] = the same history on std::vector (lists); [None] = the history violates a std::vector precondition.
   - [run ... = Ok _] = the model committed none of the lifetime errors of [err] (double construction, destructor / read
     of a dead object, double delete, storage released with a live object, out-of-bounds access). *)
From Coq Require Import ZArith List Bool Lia.
From DV Require Import Model.SmallVecLife Model.SmallVecModel Proofs.C38Proofs.
Import ListNotations.
Local Open Scope Z_scope.

(* contents and size equal std::vector's, for all operation sequences, all inline capacities, any allocator *)
Theorem C38_smallvec_refines_vector : forall alloc N szT K ops sp', (1 <= N)%nat ->
  spec_run ops (spec_init K) = Some sp' ->
  exists s g, run alloc N szT ops (init_slots K) led0 = Ok (s, g) /\ Forall2 slot_matches s sp'.
Proof. exact C38_refines_proof. Qed.
Print Assumptions C38_smallvec_refines_vector.

(* each element is constructed and destroyed exactly once (also across inline -> heap and heap -> heap moves):
   the run commits no lifetime error, constructions - destructions = number of elements at every point, and once
   every vector is destroyed nothing is alive and every block that was allocated was released (exactly once:
   a second release is an error of the run) *)
Theorem C38_smallvec_lifetimes : forall alloc N szT K ops sp', (1 <= N)%nat ->
  spec_run ops (spec_init K) = Some sp' ->
  exists s g, run alloc N szT ops (init_slots K) led0 = Ok (s, g) /\
    nctor g - ndtor g = total sp' /\
    (Forall (eq None) sp' ->
       nctor g = ndtor g /\ Forall (fun b => b_live b = false) (blocks g) /\ Forall (eq None) s).
Proof. exact C38_lifetimes_proof. Qed.
Print Assumptions C38_smallvec_lifetimes.

(* inline storage: every element address is aligned whenever the vector object is placed at an address aligned for it *)
Theorem C38_inline_aligned : forall al szT obj g v i, is_pow2 al -> (al | szT) -> (obj_align al | obj) -> heapb v = false ->
  (al | elem_addr szT (data_addr al obj g v) i).
Proof. exact inline_aligned_proof. Qed.
Print Assumptions C38_inline_aligned.

(* heap storage: aligned for every element type, over-aligned ones included *)
Theorem C38_heap_aligned : forall onew amalloc al N szT K ops sp', (1 <= N)%nat ->
  (forall c n, (16 | onew c n)) -> (forall c n a, is_pow2 a -> (a | amalloc c n a)) -> is_pow2 al -> (al | szT) ->
  spec_run ops (spec_init K) = Some sp' ->
  exists s g, run (allocate_oracle onew amalloc al) N szT ops (init_slots K) led0 = Ok (s, g) /\
    forall k v i, nth_error s k = Some (Some v) -> heapb v = true -> (al | elem_addr szT (data_addr al 0 g v) i).
Proof. exact C38_heap_aligned_proof. Qed.
Print Assumptions C38_heap_aligned.

(* the property at full strength: every valid history, every element type, no excluded domain *)
Definition C38_full_statement : Prop :=
  forall onew amalloc al szT N K ops,
    (forall c n, (16 | onew c n)) -> (forall c n a, is_pow2 a -> (a | amalloc c n a)) ->
    is_pow2 al -> (al | szT) -> (1 <= N)%nat ->
    C38_property (allocate_oracle onew amalloc al) al szT N K ops.

Theorem C38_holds : C38_full_statement.
Proof. exact C38_holds_proof. Qed.
Print Assumptions C38_holds.

(* REGRESSION (former C38_refuted, repaired by the alignment fix): alignof(T) = sizeof(T) = 32, N = 1, ::operator new
   returns 16 (mod 32).  With allocate() as repaired the heap elements are aligned; the second conjunct shows what the
   model gives when the heap storage of the same type comes from ::operator new, as it did before the fix *)
Example C38_regression_overaligned_heap :
  heap_aligned_after 32 32 (run (allocate_oracle wit_alloc wit_amalloc 32) 1 32 wit_ops (init_slots 1) led0) = true /\
  heap_aligned_after 32 32 (run wit_alloc 1 32 wit_ops (init_slots 1) led0) = false /\
  contents_after (run (allocate_oracle wit_alloc wit_amalloc 32) 1 32 wit_ops (init_slots 1) led0) 0 = [1; 2].
Proof. vm_compute. repeat split; reflexivity. Qed.

(* REGRESSION (former C38_refuted_selfref, repaired by the aliasing fix): N = 2, push_back(11); push_back(22);
   push_back(v[0]) at size == capacity, and resize(5, v[0]) at size == capacity *)
Example C38_regression_selfref :
  contents_after (run wit_alloc 2 8 wit_self_ops (init_slots 1) led0) 0 = [11; 22; 11] /\
  spec_run wit_self_ops (spec_init 1) = Some [Some [11; 22; 11]] /\
  contents_after (run wit_alloc 2 8 wit_self_resize_ops (init_slots 1) led0) 0 = [5; 6; 5; 5; 5] /\
  spec_run wit_self_resize_ops (spec_init 1) = Some [Some [5; 6; 5; 5; 5]].
Proof. vm_compute. repeat split; reflexivity. Qed.

(* a concrete non-trivial history satisfying the hypotheses: three vectors, inline -> heap growth, reallocation,
   copy, move, erase, self-referencing push and resize while growing, everything destroyed at the end *)
Example C38_nonvacuous :
  let ops := [OCtor 0; OPush 0 0 1; OPush 1 0 2; OPushSelf 0 0; OPush 2 0 3; OPush 0 0 4; OPush 0 0 5; OPushSelf 0 1;
              OCtorCopy 1 0; OErase 1 2; OCtorMove 2 1; OResizeSelf 2 9 0; OAssignMove 0 2; OPop 0; OReserve 1 7;
              OAssignCopy 2 0; OClear 0; ODtor 0; ODtor 1; ODtor 2] in
  spec_run ops (spec_init 3) = Some [None; None; None] /\
  (forall c n, (16 | wit_alloc c n)) /\ (forall c n a, is_pow2 a -> (a | wit_amalloc c n a)) /\ is_pow2 64 /\
  (match run (allocate_oracle wit_alloc wit_amalloc 64) 2 64 ops (init_slots 3) led0 with
   | Ok (s, g) => (nctor g =? ndtor g) && (0 <? nctor g) && (3 <=? Z.of_nat (length (blocks g))) &&
                  forallb (fun b => negb (b_live b)) (blocks g)
   | Err _ => false
   end = true) /\
  heap_aligned_after 64 64 (run (allocate_oracle wit_alloc wit_amalloc 64) 2 64 (firstn 12 ops) (init_slots 3) led0) = true /\
  spec_run (firstn 12 ops) (spec_init 3) =
    Some [Some [1; 2; 1; 3; 4; 5; 2]; Some []; Some [1; 2; 3; 4; 5; 2; 1; 1; 1]].
Proof.
  split; [vm_compute; reflexivity|]. split; [exact wit_alloc_16|]. split; [exact wit_amalloc_aligned|].
  split; [exists 6; split; [lia|reflexivity]|]. vm_compute. repeat split; reflexivity.
Qed.
