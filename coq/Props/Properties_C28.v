(* C28 -- Pipeline stages never exceed their concurrency limit.
   Statements only.  Model: Model/PipelineModel.v (dispenso/pipeline.h, detail/pipeline_impl.h at the granularity of the gate
   operations of LimitGatedScheduler; any number of stages, items and threads; [mstep] = one frame transition, every interleaving;
   queue policy and inline policy of the task set arbitrary (threshold policy of the code or an oracle)).
   Tie: lockstep under harness/vsched.h on the real dispenso::pipeline (props/C28.py). *)
From Coq Require Import ZArith List Bool Lia.
From DV Require Import Base.MachInt Base.Sched Model.PipelineModel Proofs.PipelineProofs Proofs.C28Proofs.
Import ListNotations.
Local Open Scope Z_scope.

(* No stage with a finite limit ever has more invocations of its user function in progress than its limit
   (m_inflight j = number of stage tasks of stage j that are inside the user function). *)
Theorem C28_stage_inflight_le_limit : forall c s j0,
  (0 < nstages c)%nat -> reach (mstep c) (init c) s -> (j0 < nstages c)%nat -> unlimited c j0 = false ->
  total (m_inflight j0) s <= lim_of (stage_at c j0).
Proof. exact stage_inflight_le_limit. Qed.
Print Assumptions C28_stage_inflight_le_limit.

(* The accounting behind it: resources_ + slot holders = limit in every reachable state (resources_ may be transiently negative:
   the "soft" holders are the threads between a fetch_sub and the fetch_add that undoes it), and the "hard" holders -- dispatched
   tasks, a thread that just won a slot, slots lost to tasks skipped by the cancelled wrapper -- never exceed the limit. *)
Theorem C28_slot_invariant : forall c s,
  (0 < nstages c)%nat -> reach (mstep c) (init c) s ->
  forall j0, (j0 < nstages c)%nat ->
    g_res (gate_at (sh s) j0) + total (m_hard j0) s + total (m_soft j0) s = lim_of (stage_at c j0) /\
    total (m_hard j0) s <= lim_of (stage_at c j0).
Proof. exact tok_invariant. Qed.
Print Assumptions C28_slot_invariant.

(* A new slot holder appears only in a step that found resources_ > 0 (a fetch_sub that returned > 0); every other step hands a
   slot over or releases it. *)
Theorem C28_dispatch_needs_slot : forall c s t ch s' ch' site j0,
  (0 < nstages c)%nat -> reach (mstep c) (init c) s -> (j0 < nstages c)%nat -> mstep c s t ch = Some (s', ch', site) ->
  total (m_hard j0) s' <= total (m_hard j0) s \/ (total (m_hard j0) s' = total (m_hard j0) s + 1 /\ 0 < g_res (gate_at (sh s) j0)).
Proof. exact dispatch_needs_slot. Qed.
Print Assumptions C28_dispatch_needs_slot.

(* The generator never runs more instances than min(pool threads, its limit), at least one. *)
Theorem C28_generator_instances_le_limit : forall c s,
  (0 < nstages c)%nat -> reach (mstep c) (init c) s -> total m_geninst s <= ninst c /\ ninst c <= Z.max 1 (c_glimit c).
Proof. exact generator_instances_le_limit. Qed.
Print Assumptions C28_generator_instances_le_limit.

(* every state the executable scheduler visits (the runs compared with the real code) is reachable *)
Theorem C28_run_reach : forall fuel c sched, reach (mstep c) (init c) (fst (fst (run_pipe fuel c sched))).
Proof. exact run_pipe_reach. Qed.
Print Assumptions C28_run_reach.

(* non-vacuity: a 3-stage pipeline (filtering stage with limit 2, serial sink), 2 generator instances, 2 workers: a reachable
   state in which the serial sink is exactly at its limit and one in which both generator instances are running *)
Example C28_nonvacuous :
  let c := CFG 2 64 2 3 (-1) [SC 2 true [1] []; SC 1 false [] []] false [(true, 0); (true, 0)] in
  let sched := [0;0;0] ++ concat (repeat [1;2] 80) in
  (0 < nstages c)%nat /\ unlimited c 1 = false /\
  total (m_inflight 1) (fst (fst (run_pipe 43 c sched))) = lim_of (stage_at c 1) /\
  total m_geninst (fst (fst (run_pipe 10 c sched))) = 2.
Proof. cbv zeta. split; [cbn; lia|]. vm_compute. repeat split; reflexivity. Qed.
