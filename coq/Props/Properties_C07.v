(* C07 -- submissions to an idle, fully parked pool start without relying on the sleep backstop.
   Statements only.  Model: Model/WakeModel.v (one step = one atomic access / futex call of detail::PoolWakeState and
   detail::EpochWaiter; the worker loop and the submission paths of ThreadPool reduced to their wake decisions and to abstract
   "task placed in tier X" facts; ONE futex per group of c_gs threads; FUTEX_WAKE n wakes n ARBITRARY waiters; timeout-free:
   c_tmo = false, a timed wait never times out -- "without the backstop").
   [parked c e [[o]]]: every worker i = thread i is blocked in FUTEX_WAIT with its sleepMask bit set, all tiers empty; one producer
   thread runs the submission o.  [quiescent s]: no step is enabled.  [tiers_empty s]: rings, central queue and steal rings are empty.
   Tie: lockstep on the real PoolWakeState / EpochWaiter + deterministic end-to-end replays on a real ThreadPool (props/C07.py). *)
From Coq Require Import ZArith List Bool Lia.
From DV Require Import Base.MachInt Base.Sched Model.WakeModel Model.WakeCheck Model.C07Check Proofs.WakeLemmas Proofs.C07Proofs Proofs.C07RingProofs.
Import ListNotations.
Local Open Scope Z_scope.

(* the submission paths: schedule(), schedulePlaced(), scheduleBulkEnqueue(k), scheduleBulkToRings(k) *)
Definition submission (c : cfg) (o : op) : bool :=
  match o with
  | OSchedule | OPlaced => true
  | OBulk k => (0 <? k)%nat
  | ORings k => (0 <? k)%nat && (k <=? c_n c)%nat
  | _ => false
  end.

(* The full statement (no_quiescent_with_pending): for every pool shape and every submission path, from the clean fully parked pool,
   every reachable quiescent state has all tiers empty. *)
Definition C07_full_statement : Prop :=
  forall c e o, (0 < c_gs c)%nat -> (0 < c_n c)%nat -> c_wake c = true -> c_tmo c = false -> submission c o = true ->
    forall s, reach step (parked c e [[o]]) s -> quiescent s = true -> tiers_empty s = true.

(* It is FALSE of the code as written.  Witness: 8 threads in one wake group, 2 tasks through the ring fast path: task i goes to ring i,
   cascadeWakeSeed(2) issues FUTEX_WAKE(2) on the futex shared by the 8 sleepers, the kernel picks waiters 5 and 6; they find their own
   ring, the central queue and their steal ring empty, never look at rings 0 and 1, and park again: quiescent with 2 pending tasks. *)
Theorem C07_refuted :
  exists s, reach step (parked ring_cfg 0 [[ORings 2]]) s /\ quiescent s = true /\ tiers_empty s = false /\
            map (fun r => length r) (rings (pl s)) = [1; 1; 0; 0; 0; 0; 0; 0]%nat.
Proof. exact refuted_ring. Qed.
Print Assumptions C07_refuted.

Theorem C07_refutes_full_statement : ~ C07_full_statement.
Proof.
  intros F. destruct refuted_ring as (s & R & Q & T & _).
  pose proof (F ring_cfg 0 (ORings 2) ltac:(cbn; lia) ltac:(cbn; lia) eq_refl eq_refl eq_refl s R Q). congruence.
Qed.
Print Assumptions C07_refutes_full_statement.

(* the witness lies in the domain of the finding: the wake count does not cover the whole (last) group *)
Example C07_refuted_in_domain : partial_count ring_cfg 2 = true.
Proof. reflexivity. Qed.

(* Second refutation: the placed path (scheduleImplPlaced) wakes BEFORE it pushes and does not wake afterwards: the woken worker
   can finish its spin phase and park again before the task reaches the steal ring. *)
Theorem C07_refuted_placed :
  exists s, reach step (parked ring_cfg 0 [[OPlaced]]) s /\ quiescent s = true /\ tiers_empty s = false /\ steals (pl s) = [1%nat].
Proof. exact refuted_placed. Qed.
Print Assumptions C07_refuted_placed.

(* Third refutation, about the premise "fully parked": claimAndWakeOne clears the sleepMask bit of thread T but its FUTEX_WAKE(1) wakes
   an arbitrary waiter W; with W <> T the pool comes to rest fully parked and idle again with T's bit clear (s_mid below), and then
   even a ring dispatch that covers the whole group wakes too few sleepers (popcount of the mask = 1 of 2). *)
Theorem C07_refuted_hidden :
  exists s_mid s_end,
    reach step (parked hidden_cfg 0 [[OSchedule; ORings 2]]) s_mid /\
    map tpc (threads s_mid) = [PBlocked 0 WLoop; PBlocked 1 WLoop; PRiAdd 2] /\ tiers_empty s_mid = true /\
    reach step s_mid s_end /\ quiescent s_end = true /\ tiers_empty s_end = false.
Proof. exact refuted_hidden. Qed.
Print Assumptions C07_refuted_hidden.

(* It HOLDS, for ANY number of threads and groups, any branch factor / spin length, every schedule and every choice of futex waiters,
   on the central-queue paths from the clean fully parked pool: schedule() (claimAndWakeOne) and scheduleBulkEnqueue(k) (k claims when
   min(k, n) <= branchFactor, cascadeWakeSeed(min(k, n)) otherwise): no quiescent state has pending work. *)
Theorem C07_holds_except : forall c, (0 < c_gs c)%nat -> (0 < c_n c)%nat -> c_wake c = true -> c_tmo c = false ->
  forall e o s, central_path o = true -> reach step (parked c e [[o]]) s -> quiescent s = true -> tiers_empty s = true.
Proof. exact no_quiescent_with_pending_central. Qed.
Print Assumptions C07_holds_except.

(* the invariant behind it: until the first futex wake only the producer moves; afterwards some worker has left its initial wait, a
   worker parks only after it has seen the central queue empty, and the hint is never false while the queue is non-empty *)
Theorem C07_central_invariant : forall c, (0 < c_gs c)%nat -> (0 < c_n c)%nat -> c_wake c = true -> c_tmo c = false ->
  forall e o s, central_path o = true -> reach step (parked c e [[o]]) s -> Inv7 c s.
Proof. exact central_invariant. Qed.
Print Assumptions C07_central_invariant.

(* It also HOLDS for the ring fast path on the complement of the first finding's domain: scheduleBulkToRings(k) when the count covers
   every affected wake group completely (partial_count c k = false: k - lastGroup*groupSize >= number of threads of the last group), for
   ANY number of threads and groups, cascade-host tasks included, every schedule and every choice of futex waiters.  Invariant: a group is
   either entirely in its initial wait or not at all; an in-flight wake of a still-pristine group carries a count >= the group size, so
   the first FUTEX_WAKE that reaches a group wakes all of it; a ring is non-empty only while its owner is bound to pop it. *)
Theorem C07_holds_except_ring : forall c, (0 < c_gs c)%nat -> (0 < c_n c)%nat -> c_wake c = true -> c_tmo c = false ->
  forall k, (0 < k)%nat -> (k <= c_n c)%nat -> partial_count c k = false ->
  forall e s, reach step (parked c e [[ORings k]]) s -> quiescent s = true -> tiers_empty s = true.
Proof. exact no_quiescent_with_pending_ring. Qed.
Print Assumptions C07_holds_except_ring.

Theorem C07_ring_invariant : forall c, (0 < c_gs c)%nat -> (0 < c_n c)%nat -> c_wake c = true -> c_tmo c = false ->
  forall k, (0 < k)%nat -> (k <= c_n c)%nat -> partial_count c k = false ->
  forall e s, reach step (parked c e [[ORings k]]) s -> InvR c k s.
Proof. exact ring_invariant. Qed.
Print Assumptions C07_ring_invariant.

(* Summary: from the clean fully parked pool the property holds for schedule(), scheduleBulkEnqueue(k) and scheduleBulkToRings(k) with
   complete groups; it fails for scheduleBulkToRings(k) with a partially covered group (C07_refuted), for schedulePlaced (C07_refuted_placed),
   and -- for every path that uses a masked wake -- from parked states that a previous claimAndWakeOne left desynchronised (C07_refuted_hidden). *)

(* every state the executable scheduler visits is reachable, so the theorems apply to the runs compared with the real code *)
Theorem C07_run_reach : forall fuel s0 sched, reach step s0 (fst (fst (run step cands finished fuel s0 sched []))).
Proof. exact run_from_reach. Qed.
Print Assumptions C07_run_reach.

(* non-vacuity: from the clean parked 8-thread pool, schedule() and scheduleBulkEnqueue(6) reach quiescent states (all tiers empty) *)
Example C07_nonvacuous :
  central_path OSchedule = true /\ central_path (OBulk 6) = true /\ partial_count ring_cfg 8 = false /\ partial_count (CFG 16 8 4 true 1 false) 8 = false /\
  (let s := fst (fst (run step cands finished 900 (parked ring_cfg 0 [[ORings 8]]) (repeat 3 900) [])) in
   quiescent s = true /\ tiers_empty s = true) /\
  (let s := fst (fst (run step cands finished 400 (parked ring_cfg 0 [[OSchedule]]) (repeat 3 400) [])) in
   quiescent s = true /\ tiers_empty s = true) /\
  (let s := fst (fst (run step cands finished 900 (parked ring_cfg 0 [[OBulk 6]]) (repeat 5 900) [])) in
   quiescent s = true /\ tiers_empty s = true).
Proof. vm_compute. repeat split; reflexivity. Qed.
