(* C44 -- Bit-math helpers are correct for all inputs.
   Statements only; every proof is `exact` of a lemma from Proofs/ (bit-level reasoning, no enumeration of inputs).
   nextPow2, log2const (both overloads) and alignToCacheLine are the definitions REGENERATED from /repo by
   tools/gen.py group `bitmath` (Gen/GenBitMath.v; a regenerated loop returns [Some result], [None] = fuel exhausted).
   alignedMalloc/alignedFree (pointer code the translator cannot render) are the hand model Model/BitMathModel.v,
   tied to the real code by the differential run only.  log2/countTrailingZeros/countSetBits are compiler intrinsics
   (bsr, ctz, popcnt): their model IS the specification; the tie is the differential run only. *)
From Coq Require Import ZArith List Bool Lia.
From DV Require Import Base.MachInt Model.BitMathModel Proofs.BitMathProofs Gen.GenBitMath GenTie.BitMathGenTie
  Model.C44Check Proofs.C44Proofs.
Import ListNotations.
Local Open Scope Z_scope.

(* nextPow2(v) for 1 <= v <= 2^63 is 2^ceil(log2 v): a power of two, >= v, and no smaller power of two is >= v *)
Theorem C44_nextPow2_spec : forall v, 1 <= v <= 2 ^ 63 ->
  gen_nextPow2 v = 2 ^ Z.log2_up v /\
  (exists k, 0 <= k <= 63 /\ gen_nextPow2 v = 2 ^ k) /\ v <= gen_nextPow2 v /\
  (forall j, 0 <= j -> v <= 2 ^ j -> gen_nextPow2 v <= 2 ^ j).
Proof. exact C44_nextPow2_spec_proof. Qed.
Print Assumptions C44_nextPow2_spec.

(* outside the documented domain (v = 0, v > 2^63) the 64-bit arithmetic wraps and the result is 0 *)
Theorem C44_nextPow2_corners :
  gen_nextPow2 0 = 0 /\ (forall v, 2 ^ 63 < v < 2 ^ 64 -> gen_nextPow2 v = 0).
Proof. exact C44_nextPow2_corners_proof. Qed.
Print Assumptions C44_nextPow2_corners.

(* log2const = floor(log2 v) for every non-zero input of either width (the loops terminate within their fuel);
   log2const(0) = 0 *)
Theorem C44_log2const_spec :
  (forall v, 1 <= v < 2 ^ 64 -> gen_log2const_u64 v = Some (Z.log2 v)) /\
  (forall v, 1 <= v < 2 ^ 32 -> gen_log2const_u32 v = Some (Z.log2 v)) /\
  gen_log2const_u64 0 = Some 0 /\ gen_log2const_u32 0 = Some 0.
Proof. exact C44_log2const_spec_proof. Qed.
Print Assumptions C44_log2const_spec.

(* alignToCacheLine(val) is the smallest multiple of kCacheLineSize that is >= val, as long as val + 63 fits in 64 bits *)
Theorem C44_alignToCacheLine_spec : forall val, 0 <= val -> val + 63 < 2 ^ 64 ->
  let r := gen_bm_alignToCacheLine val in
  (c_bm_kCacheLineSize | r) /\ val <= r < val + c_bm_kCacheLineSize /\
  (forall m, (c_bm_kCacheLineSize | m) -> val <= m -> r <= m).
Proof. exact C44_alignToCacheLine_spec_proof. Qed.
Print Assumptions C44_alignToCacheLine_spec.

(* ... and wraps to 0 for the 63 largest values *)
Theorem C44_alignToCacheLine_wrap : forall val, 2 ^ 64 - 64 < val < 2 ^ 64 -> gen_bm_alignToCacheLine val = 0.
Proof. exact C44_alignToCacheLine_wrap_proof. Qed.
Print Assumptions C44_alignToCacheLine_wrap.

(* alignedMalloc(bytes, 2^k): for ANY block address p returned by ::malloc (word aligned, block inside the address
   space) the result is a multiple of 2^k, leaves room for the recovery word (p + 8 <= ret), the `bytes` user bytes
   end inside the block of bytes + max(2^k, 8) bytes, the recovery word sits directly below the result, and
   alignedFree hands exactly p to ::free -- also after the user has overwritten any of its `bytes` bytes. *)
Theorem C44_alignedMalloc_aligned : forall k p bytes m,
  0 <= k <= 63 -> 0 < p -> (8 | p) -> 0 <= bytes -> p + (bytes + Z.max (2 ^ k) 8) < 2 ^ 64 ->
  let a := 2 ^ k in
  let req := am_request bytes a in
  let '(m', ret) := alignedMalloc_m m p a in
  req = bytes + Z.max a 8 /\
  (a | ret) /\
  p + 8 <= ret /\ ret + bytes <= p + req /\
  am_recovery p a = ret - 8 /\
  alignedFree_m m' ret = Some p /\
  (forall ws, (forall x b, In (x, b) ws -> ret <= x < ret + bytes) -> alignedFree_m (write_all m' ws) ret = Some p).
Proof. exact alignedMalloc_aligned_proof. Qed.
Print Assumptions C44_alignedMalloc_aligned.

(* the hypothesis (8 | p) cannot be dropped: with p = 9 the recovery word would start below the block *)
Theorem C44_alignedMalloc_needs_word_aligned_malloc : am_recovery 9 8 = 8 /\ am_base 9 8 = 16.
Proof. exact am_unaligned_malloc_counterexample. Qed.
Print Assumptions C44_alignedMalloc_needs_word_aligned_malloc.

(* intrinsics (model = specification): log2 is the index of the highest set bit, countTrailingZeros the index of the
   lowest set bit (all lower bits clear; equivalently the largest power of two dividing v) *)
Theorem C44_intrinsic_models_meet_spec :
  (forall v, 0 < v -> 2 ^ log2_m v <= v < 2 ^ (log2_m v + 1)) /\
  (forall v, 0 < v < 2 ^ 64 ->
     0 <= ctz_m v < 64 /\ Z.testbit v (ctz_m v) = true /\ (forall j, 0 <= j < ctz_m v -> Z.testbit v j = false)) /\
  (forall v, 0 < v < 2 ^ 64 -> v mod 2 ^ ctz_m v = 0 /\ v mod 2 ^ (ctz_m v + 1) <> 0).
Proof. exact (conj log2_m_spec (conj ctz_m_spec ctz_m_divides)). Qed.
Print Assumptions C44_intrinsic_models_meet_spec.

(* the executable specification evaluated by the correspondence on the implementation's outputs accepts the model
   on EVERY in-domain input (verdict 0), so verdict 2 on some input means the implementation leaves the theorems above *)
Theorem C44_checker_accepts_model : forall fn v, In fn [1; 2; 3; 4; 5; 6; 7; 8] -> bm_domain fn v = true ->
  judge_bm (fn, v, bm_model fn v) = 0.
Proof. exact C44_checker_accepts_model_proof. Qed.
Print Assumptions C44_checker_accepts_model.

Theorem C44_am_checker_accepts_model : forall p bytes a, am_domain p bytes a = true ->
  judge_am (p, bytes, a, (am_request bytes a, am_base p a, p, p)) = 0.
Proof. exact C44_am_checker_accepts_model_proof. Qed.
Print Assumptions C44_am_checker_accepts_model.

(* the hypotheses are satisfiable by non-trivial inputs *)
Example C44_nonvacuous :
  gen_nextPow2 1000 = 1024 /\ gen_nextPow2 (2 ^ 62 + 1) = 2 ^ 63 /\
  gen_log2const_u64 (2 ^ 40 + 12345) = Some 40 /\ gen_log2const_u32 4294967295 = Some 31 /\
  gen_bm_alignToCacheLine 65 = 128 /\
  (let '(m', ret) := alignedMalloc_m (fun _ => 0) 1048592 4096 in
   ret = 1052672 /\ alignedFree_m m' ret = Some 1048592) /\
  ctz_m 40 = 3 /\ popcount_m 255 = 8 /\ bm_domain 1 1000 = true /\ am_domain 1048592 100 4096 = true.
Proof. vm_compute. repeat split; reflexivity. Qed.
