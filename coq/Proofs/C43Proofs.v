(* C43 -- proofs about Model/CpuSetModel.v: set algebra of CpuSet, parseLinuxCpuList, buildGroupsFromCacheTopology *)
From Coq Require Import ZArith List Bool Lia Permutation Sorted.
From DV Require Import Base.Corr Model.CpuSetModel Model.C43Check.
Import ListNotations.
Local Open Scope Z_scope.

Ltac Zify.zify_post_hook ::= Z.div_mod_to_equations.

(* ============================================================================================ A. the set *)

Lemma in_cap_iff i : in_cap i = true <-> 0 <= i < 1024.
Proof. unfold in_cap, CAP. rewrite andb_true_iff, Z.leb_le, Z.ltb_lt. tauto. Qed.

Lemma in_cap_false i : in_cap i = false <-> ~ (0 <= i < 1024).
Proof. rewrite <- in_cap_iff. destruct (in_cap i); split; congruence. Qed.

Lemma widx_eq i : widx i = Z.to_nat (i / 64).
Proof. unfold widx. rewrite Z.shiftr_div_pow2 by lia. reflexivity. Qed.

Lemma bidx_eq i : bidx i = i mod 64.
Proof. unfold bidx. change 63 with (Z.ones 6). rewrite Z.land_ones by lia. reflexivity. Qed.

Lemma upd_nth_length n f l : length (upd_nth n f l) = length l.
Proof. revert n; induction l as [|x r IH]; intros [|n]; simpl; auto. Qed.

Lemma nth_upd_nth_same n f l : (n < length l)%nat -> nth n (upd_nth n f l) 0 = f (nth n l 0).
Proof. revert n; induction l as [|x r IH]; intros [|n] H; simpl in *; try lia; auto. apply IH; lia. Qed.

Lemma nth_upd_nth_other n m f l : n <> m -> nth m (upd_nth n f l) 0 = nth m l 0.
Proof.
  revert n m; induction l as [|x r IH]; intros [|n] [|m] H; simpl; auto; try congruence.
Qed.

Lemma upd_nth_Forall (P : Z -> Prop) n f l :
  Forall P l -> (forall x, P x -> P (f x)) -> Forall P (upd_nth n f l).
Proof.
  intros H Hf; revert n; induction H as [|x r Hx Hr IH]; intros [|n]; simpl; constructor; auto.
Qed.

Lemma word_index i : 0 <= i < 1024 -> (Z.to_nat (i / 64) < 16)%nat /\ 0 <= i mod 64 < 64.
Proof. intros H. split; [|lia]. assert (0 <= i / 64 < 16) by lia. lia. Qed.

Lemma high_bits_zero x n k : 0 <= n -> 0 <= x < 2 ^ n -> n <= k -> Z.testbit x k = false.
Proof.
  intros Hn Hx Hk. destruct (Z.eq_dec x 0) as [->|Nx]; [apply Z.bits_0|].
  apply Z.bits_above_log2; [lia|]. assert (Z.log2 x < n) by (apply Z.log2_lt_pow2; lia). lia.
Qed.

Lemma bound_from_bits x n : 0 <= n -> 0 <= x -> (forall k, n <= k -> Z.testbit x k = false) -> x < 2 ^ n.
Proof.
  intros Hn Hx H. destruct (Z.eq_dec x 0) as [->|Nx]; [apply Z.pow_pos_nonneg; lia|].
  apply Z.log2_lt_pow2; [lia|]. destruct (Z_lt_le_dec (Z.log2 x) n) as [|G]; [assumption|].
  specialize (H _ G). rewrite Z.bit_log2 in H by lia. discriminate.
Qed.

Lemma lor_bound a b n : 0 <= n -> 0 <= a < 2 ^ n -> 0 <= b < 2 ^ n -> 0 <= Z.lor a b < 2 ^ n.
Proof.
  intros Hn Ha Hb. assert (N : 0 <= Z.lor a b) by (apply Z.lor_nonneg; lia). split; [exact N|].
  apply bound_from_bits; [exact Hn|exact N|]. intros k Hk.
  rewrite Z.lor_spec, (high_bits_zero a n k), (high_bits_zero b n k) by assumption. reflexivity.
Qed.

Lemma ldiff_bound a b n : 0 <= n -> 0 <= a < 2 ^ n -> 0 <= b -> 0 <= Z.ldiff a b < 2 ^ n.
Proof.
  intros Hn Ha Hb. assert (N : 0 <= Z.ldiff a b) by (apply Z.ldiff_nonneg; lia).
  split; [exact N|]. apply bound_from_bits; [exact Hn|exact N|]. intros k Hk.
  rewrite Z.ldiff_spec, (high_bits_zero a n k) by assumption. reflexivity.
Qed.

Lemma pow2_bound k : 0 <= k < 64 -> 0 <= Z.shiftl 1 k < 2 ^ 64.
Proof.
  intros H. rewrite Z.shiftl_1_l. split; [apply Z.pow_nonneg; lia|]. apply Z.pow_lt_mono_r; lia.
Qed.

Lemma cs_empty_wf : cs_wf cs_empty.
Proof. split; [reflexivity|]. unfold cs_empty, NWORDS; simpl. repeat constructor; lia. Qed.

Lemma set_bit_wf s i : cs_wf s -> 0 <= i < 1024 -> cs_wf (set_bit s i).
Proof.
  intros [L F] H. split; [unfold set_bit; rewrite upd_nth_length; exact L|].
  apply upd_nth_Forall; [exact F|]. intros x Hx. rewrite bidx_eq. apply lor_bound; [lia|exact Hx|apply pow2_bound; lia].
Qed.

Lemma clr_bit_wf s i : cs_wf s -> 0 <= i < 1024 -> cs_wf (clr_bit s i).
Proof.
  intros [L F] H. split; [unfold clr_bit; rewrite upd_nth_length; exact L|].
  apply upd_nth_Forall; [exact F|]. intros x Hx. rewrite bidx_eq. apply ldiff_bound; [lia|exact Hx|]. apply pow2_bound; lia.
Qed.

Lemma same_slot i j : 0 <= i < 1024 -> 0 <= j < 1024 ->
  (Z.to_nat (i / 64) = Z.to_nat (j / 64) /\ i mod 64 = j mod 64) <-> i = j.
Proof. intros Hi Hj. split; [intros [A B]|intros ->; auto]. assert (i / 64 = j / 64) by lia. lia. Qed.

Lemma test_set_bit s i j : cs_wf s -> 0 <= i < 1024 -> 0 <= j < 1024 ->
  test_bit (set_bit s i) j = (j =? i) || test_bit s j.
Proof.
  intros [L _] Hi Hj. unfold test_bit, set_bit. rewrite !widx_eq, !bidx_eq.
  destruct (word_index i Hi) as [Wi Bi]. destruct (word_index j Hj) as [Wj Bj].
  destruct (Nat.eq_dec (Z.to_nat (i / 64)) (Z.to_nat (j / 64))) as [E|E].
  - rewrite <- E. rewrite nth_upd_nth_same by (rewrite L; exact Wi).
    rewrite Z.lor_spec, Z.shiftl_1_l, Z.pow2_bits_eqb by lia. rewrite orb_comm. f_equal.
    destruct (Z.eqb_spec (i mod 64) (j mod 64)) as [M|M]; destruct (Z.eqb_spec j i) as [Q|Q]; auto.
    + exfalso; apply Q; symmetry; apply same_slot; auto.
    + exfalso; apply M; subst; reflexivity.
  - rewrite nth_upd_nth_other by exact E.
    destruct (Z.eqb_spec j i) as [Q|Q]; [subst; congruence|reflexivity].
Qed.

Lemma test_clr_bit s i j : cs_wf s -> 0 <= i < 1024 -> 0 <= j < 1024 ->
  test_bit (clr_bit s i) j = negb (j =? i) && test_bit s j.
Proof.
  intros [L _] Hi Hj. unfold test_bit, clr_bit. rewrite !widx_eq, !bidx_eq.
  destruct (word_index i Hi) as [Wi Bi]. destruct (word_index j Hj) as [Wj Bj].
  destruct (Nat.eq_dec (Z.to_nat (i / 64)) (Z.to_nat (j / 64))) as [E|E].
  - rewrite <- E. rewrite nth_upd_nth_same by (rewrite L; exact Wi).
    rewrite Z.ldiff_spec, Z.shiftl_1_l, Z.pow2_bits_eqb by lia. rewrite andb_comm. f_equal. f_equal.
    destruct (Z.eqb_spec (i mod 64) (j mod 64)) as [M|M]; destruct (Z.eqb_spec j i) as [Q|Q]; auto.
    + exfalso; apply Q; symmetry; apply same_slot; auto.
    + exfalso; apply M; subst; reflexivity.
  - rewrite nth_upd_nth_other by exact E.
    destruct (Z.eqb_spec j i) as [Q|Q]; [subst; congruence|reflexivity].
Qed.

(* ---- single-id operations *)
Lemma cs_add_wf s i : cs_wf s -> cs_wf (cs_add s i).
Proof. intros W; unfold cs_add. destruct (in_cap i) eqn:E; [apply set_bit_wf; [exact W|apply in_cap_iff; exact E]|exact W]. Qed.
Lemma cs_remove_wf s i : cs_wf s -> cs_wf (cs_remove s i).
Proof. intros W; unfold cs_remove. destruct (in_cap i) eqn:E; [apply clr_bit_wf; [exact W|apply in_cap_iff; exact E]|exact W]. Qed.

Lemma contains_out_of_range s i : in_cap i = false -> cs_contains s i = false.
Proof. intros E; unfold cs_contains; rewrite E; reflexivity. Qed.

Lemma contains_add s a i : cs_wf s -> cs_contains (cs_add s a) i = (in_cap i && (i =? a)) || cs_contains s i.
Proof.
  intros W. unfold cs_contains, cs_add. destruct (in_cap i) eqn:Ei; [|reflexivity]. simpl.
  destruct (in_cap a) eqn:Ea.
  - apply test_set_bit; [exact W|apply in_cap_iff; exact Ea|apply in_cap_iff; exact Ei].
  - destruct (Z.eqb_spec i a) as [Q|Q]; [subst; congruence|reflexivity].
Qed.

Lemma contains_remove s a i : cs_wf s -> cs_contains (cs_remove s a) i = negb (i =? a) && cs_contains s i.
Proof.
  intros W. unfold cs_contains, cs_remove. destruct (in_cap i) eqn:Ei; [|rewrite andb_false_r; reflexivity].
  destruct (in_cap a) eqn:Ea.
  - apply test_clr_bit; [exact W|apply in_cap_iff; exact Ea|apply in_cap_iff; exact Ei].
  - destruct (Z.eqb_spec i a) as [Q|Q]; [subst; congruence|reflexivity].
Qed.

Lemma add_out_of_range s a : in_cap a = false -> cs_add s a = s.
Proof. intros E; unfold cs_add; rewrite E; reflexivity. Qed.
Lemma remove_out_of_range s a : in_cap a = false -> cs_remove s a = s.
Proof. intros E; unfold cs_remove; rewrite E; reflexivity. Qed.

Lemma contains_empty i : cs_contains cs_empty i = false.
Proof.
  unfold cs_contains. destruct (in_cap i) eqn:E; [|reflexivity]. apply in_cap_iff in E.
  unfold test_bit, cs_empty. rewrite widx_eq, bidx_eq. destruct (word_index i E) as [W _].
  assert (R : forall n k, nth k (repeat 0 n) 0 = 0).
  { induction n; intros [|k]; simpl; auto. }
  rewrite R. apply Z.bits_0.
Qed.

(* ---- range loops *)
Lemma loop_set_wf n : forall a s, cs_wf s -> 0 <= a -> (n = 0%nat \/ a + Z.of_nat n <= 1024) -> cs_wf (loop_from set_bit n a s).
Proof.
  induction n as [|n IH]; intros a s W Ha Hb; simpl; [exact W|].
  destruct Hb as [Hb|Hb]; [discriminate|].
  apply IH; [apply set_bit_wf; [exact W|lia]|lia|right; lia].
Qed.
Lemma loop_clr_wf n : forall a s, cs_wf s -> 0 <= a -> (n = 0%nat \/ a + Z.of_nat n <= 1024) -> cs_wf (loop_from clr_bit n a s).
Proof.
  induction n as [|n IH]; intros a s W Ha Hb; simpl; [exact W|].
  destruct Hb as [Hb|Hb]; [discriminate|].
  apply IH; [apply clr_bit_wf; [exact W|lia]|lia|right; lia].
Qed.

Lemma empty_interval a j : (a <=? j) && (j <? a + Z.of_nat 0) = false.
Proof. apply andb_false_iff. destruct (Z.leb_spec a j); [right; apply Z.ltb_ge; lia|left; reflexivity]. Qed.

Lemma loop_set_test n : forall a s j, cs_wf s -> 0 <= a -> (n = 0%nat \/ a + Z.of_nat n <= 1024) -> 0 <= j < 1024 ->
  test_bit (loop_from set_bit n a s) j = ((a <=? j) && (j <? a + Z.of_nat n)) || test_bit s j.
Proof.
  induction n as [|n IH]; intros a s j W Ha Hb Hj; simpl loop_from.
  - rewrite empty_interval. reflexivity.
  - destruct Hb as [Hb|Hb]; [discriminate|].
    rewrite IH by (try apply set_bit_wf; auto; lia). rewrite test_set_bit by (auto; lia).
    destruct (Z.eqb_spec j a) as [Q|Q]; destruct (Z.leb_spec (a + 1) j); destruct (Z.leb_spec a j);
      destruct (Z.ltb_spec j (a + 1 + Z.of_nat n)); destruct (Z.ltb_spec j (a + Z.of_nat (S n))); simpl; try reflexivity; lia.
Qed.

Lemma loop_clr_test n : forall a s j, cs_wf s -> 0 <= a -> (n = 0%nat \/ a + Z.of_nat n <= 1024) -> 0 <= j < 1024 ->
  test_bit (loop_from clr_bit n a s) j = negb ((a <=? j) && (j <? a + Z.of_nat n)) && test_bit s j.
Proof.
  induction n as [|n IH]; intros a s j W Ha Hb Hj; simpl loop_from.
  - rewrite empty_interval. reflexivity.
  - destruct Hb as [Hb|Hb]; [discriminate|].
    rewrite IH by (try apply clr_bit_wf; auto; lia). rewrite test_clr_bit by (auto; lia).
    destruct (Z.eqb_spec j a) as [Q|Q]; destruct (Z.leb_spec (a + 1) j); destruct (Z.leb_spec a j);
      destruct (Z.ltb_spec j (a + 1 + Z.of_nat n)); destruct (Z.ltb_spec j (a + Z.of_nat (S n))); simpl; try reflexivity; lia.
Qed.

Lemma range_clamp a b : 0 <= Z.max a 0 /\
  (Z.to_nat (Z.min b 1024 - Z.max a 0) = 0%nat \/ Z.max a 0 + Z.of_nat (Z.to_nat (Z.min b 1024 - Z.max a 0)) <= 1024).
Proof. lia. Qed.

Lemma cs_addRange_wf s a b : cs_wf s -> cs_wf (cs_addRange s a b).
Proof. intros W. unfold cs_addRange, CAP. destruct (range_clamp a b). apply loop_set_wf; auto. Qed.
Lemma cs_removeRange_wf s a b : cs_wf s -> cs_wf (cs_removeRange s a b).
Proof. intros W. unfold cs_removeRange, CAP. destruct (range_clamp a b). apply loop_clr_wf; auto. Qed.

Lemma contains_addRange s a b i : cs_wf s ->
  cs_contains (cs_addRange s a b) i = (in_cap i && (a <=? i) && (i <? b)) || cs_contains s i.
Proof.
  intros W. unfold cs_contains. destruct (in_cap i) eqn:Ei; [|reflexivity]. apply in_cap_iff in Ei.
  unfold cs_addRange, CAP. destruct (range_clamp a b). rewrite loop_set_test by auto. simpl. f_equal.
  destruct (Z.leb_spec (Z.max a 0) i); destruct (Z.leb_spec a i);
    destruct (Z.ltb_spec i (Z.max a 0 + Z.of_nat (Z.to_nat (Z.min b 1024 - Z.max a 0)))); destruct (Z.ltb_spec i b);
    simpl; try reflexivity; lia.
Qed.

Lemma contains_removeRange s a b i : cs_wf s ->
  cs_contains (cs_removeRange s a b) i = negb ((a <=? i) && (i <? b)) && cs_contains s i.
Proof.
  intros W. unfold cs_contains. destruct (in_cap i) eqn:Ei; [|rewrite andb_false_r; reflexivity]. apply in_cap_iff in Ei.
  unfold cs_removeRange, CAP. destruct (range_clamp a b). rewrite loop_clr_test by auto. f_equal. f_equal.
  destruct (Z.leb_spec (Z.max a 0) i); destruct (Z.leb_spec a i);
    destruct (Z.ltb_spec i (Z.max a 0 + Z.of_nat (Z.to_nat (Z.min b 1024 - Z.max a 0)))); destruct (Z.ltb_spec i b);
    simpl; try reflexivity; lia.
Qed.

(* ---- count = cardinality *)
Fixpoint count_true (l : list bool) : Z :=
  match l with [] => 0 | b :: r => (if b then 1 else 0) + count_true r end.
Definition bits_of (w : Z) : list bool := map (Z.testbit w) (zrange 0 64).

Lemma zrange_length a n : length (zrange a n) = n.
Proof. revert a; induction n; intros; simpl; auto. Qed.

Lemma zrange_In n : forall a x, In x (zrange a n) <-> a <= x < a + Z.of_nat n.
Proof.
  induction n as [|n IH]; intros a x; simpl zrange.
  - simpl. lia.
  - simpl In. rewrite IH. lia.
Qed.

Lemma zrange_shift n : forall a, zrange (a + 1) n = map Z.succ (zrange a n).
Proof. induction n as [|n IH]; intros a; simpl; [reflexivity|]. rewrite IH. f_equal. Qed.

Lemma nth_zrange n : forall a r, (r < n)%nat -> nth r (zrange a n) 0 = a + Z.of_nat r.
Proof.
  induction n as [|n IH]; intros a [|r] H; simpl nth; try lia.
  rewrite IH by lia. lia.
Qed.

Lemma count_true_app l1 l2 : count_true (l1 ++ l2) = count_true l1 + count_true l2.
Proof. induction l1 as [|b r IH]; simpl; [reflexivity|]. rewrite IH. lia. Qed.

Lemma popcount_bits n : forall w, popcount n w = count_true (map (Z.testbit w) (zrange 0 n)).
Proof.
  induction n as [|n IH]; intros w; [reflexivity|].
  change (popcount (S n) w) with ((if Z.odd w then 1 else 0) + popcount n (Z.div2 w)).
  change (zrange 0 (S n)) with (0 :: zrange (0 + 1) n).
  cbn [map count_true]. rewrite Z.bit0_odd. f_equal. rewrite IH. f_equal.
  rewrite zrange_shift, map_map.
  apply map_ext_in. intros k Hk. apply zrange_In in Hk.
  rewrite Z.div2_spec, Z.shiftr_spec by lia. reflexivity.
Qed.

Lemma cs_count_flat s : cs_count s = count_true (concat (map bits_of s)).
Proof.
  unfold cs_count. induction s as [|w r IH]; [reflexivity|].
  cbn [fold_right map concat]. rewrite count_true_app, IH. f_equal. apply popcount_bits.
Qed.

Lemma filter_nth_count (l : list bool) : forall a,
  Z.of_nat (length (filter (fun i => nth (Z.to_nat (i - a)) l false) (zrange a (length l)))) = count_true l.
Proof.
  induction l as [|b r IH]; intros a; [reflexivity|].
  cbn [length zrange filter]. rewrite Z.sub_diag. cbn [Z.to_nat nth].
  rewrite (filter_ext_in _ (fun i => nth (Z.to_nat (i - (a + 1))) r false)).
  2:{ intros i Hi. apply zrange_In in Hi.
      replace (Z.to_nat (i - a)) with (S (Z.to_nat (i - (a + 1)))) by lia. reflexivity. }
  specialize (IH (a + 1)). cbn [count_true]. destruct b; cbn [length]; lia.
Qed.

Lemma bits_of_length w : length (bits_of w) = 64%nat.
Proof. unfold bits_of. rewrite map_length, zrange_length. reflexivity. Qed.

Lemma flat_length s : length (concat (map bits_of s)) = (64 * length s)%nat.
Proof. induction s as [|w r IH]; [reflexivity|]. cbn [map concat]. rewrite app_length, bits_of_length, IH. cbn [length]. lia. Qed.

Lemma nth_bits_of w r : (r < 64)%nat -> nth r (bits_of w) false = Z.testbit w (Z.of_nat r).
Proof.
  intros H. unfold bits_of. rewrite nth_indep with (d' := Z.testbit w 0) by (rewrite map_length, zrange_length; exact H).
  rewrite map_nth. rewrite nth_zrange by exact H. reflexivity.
Qed.

Lemma nth_flat s : forall q r, (q < length s)%nat -> (r < 64)%nat ->
  nth (64 * q + r) (concat (map bits_of s)) false = Z.testbit (nth q s 0) (Z.of_nat r).
Proof.
  induction s as [|w t IH]; intros q r Hq Hr; simpl in Hq; [lia|].
  cbn [map concat]. destruct q as [|q].
  - rewrite Nat.mul_0_r, Nat.add_0_l. rewrite app_nth1 by (rewrite bits_of_length; exact Hr).
    apply nth_bits_of; exact Hr.
  - replace (64 * S q + r)%nat with (length (bits_of w) + (64 * q + r))%nat by (rewrite bits_of_length; lia).
    rewrite app_nth2_plus. apply IH; lia.
Qed.

Lemma card_ext_in p q : (forall i, 0 <= i < 1024 -> p i = q i) -> card p = card q.
Proof.
  intros H. unfold card. f_equal. f_equal. apply filter_ext_in. intros i Hi.
  apply zrange_In in Hi. apply H. simpl in Hi. lia.
Qed.

Lemma count_is_card s : cs_wf s -> cs_count s = card (cs_contains s).
Proof.
  intros [L F]. rewrite cs_count_flat. rewrite <- (filter_nth_count (concat (map bits_of s)) 0).
  rewrite flat_length, L. unfold card, all_ids. f_equal. f_equal. change (64 * NWORDS)%nat with 1024%nat.
  apply filter_ext_in. intros i Hi. apply zrange_In in Hi. simpl in Hi.
  assert (Hi' : 0 <= i < 1024) by lia. destruct (word_index i Hi') as [Wq Wr].
  rewrite Z.sub_0_r.
  replace (Z.to_nat i) with (64 * Z.to_nat (i / 64) + Z.to_nat (i mod 64))%nat by lia.
  rewrite nth_flat by (try rewrite L; unfold NWORDS; lia).
  unfold cs_contains. rewrite (proj2 (in_cap_iff i) Hi'). unfold test_bit. rewrite widx_eq, bidx_eq, Z2Nat.id by lia. reflexivity.
Qed.

(* ============================================================================================ B. operation sequences *)
Lemma op_apply_wf s o : cs_wf s -> cs_wf (op_apply s o).
Proof.
  intros W. destruct o; simpl; auto using cs_add_wf, cs_addRange_wf, cs_remove_wf, cs_removeRange_wf, cs_empty_wf.
Qed.

Lemma op_apply_mem s o rops : cs_wf s -> (forall i, cs_contains s i = math_mem rops i) ->
  forall i, cs_contains (op_apply s o) i = math_mem (o :: rops) i.
Proof.
  intros W H i. unfold math_mem in *. destruct o; simpl op_apply; simpl ref_mem.
  - rewrite contains_add, H by exact W. destruct (in_cap i), (i =? i0), (ref_mem rops i); reflexivity.
  - rewrite contains_addRange, H by exact W. destruct (in_cap i), (a <=? i), (i <? b), (ref_mem rops i); reflexivity.
  - rewrite contains_remove, H by exact W. destruct (in_cap i), (i =? i0), (ref_mem rops i); reflexivity.
  - rewrite contains_removeRange, H by exact W. destruct (in_cap i), (a <=? i), (i <? b), (ref_mem rops i); reflexivity.
  - rewrite contains_empty. rewrite andb_false_r. reflexivity.
  - apply H.
  - apply H.
Qed.

Lemma run_ops_spec : forall ops s rops, cs_wf s -> (forall i, cs_contains s i = math_mem rops i) ->
  cs_wf (fst (run_ops s ops)) /\
  (forall i, cs_contains (fst (run_ops s ops)) i = math_mem (rev ops ++ rops) i) /\
  snd (run_ops s ops) = ref_results rops ops.
Proof.
  induction ops as [|o r IH]; intros s rops W H; simpl run_ops.
  - simpl. auto.
  - specialize (IH (op_apply s o) (o :: rops) (op_apply_wf s o W) (op_apply_mem s o rops W H)).
    destruct (run_ops (op_apply s o) r) as [s' res]. simpl fst in *. simpl snd in *.
    destruct IH as (W' & M & R). split; [exact W'|]. split.
    + intros i. simpl rev. rewrite <- app_assoc. apply M.
    + simpl ref_results. rewrite R. f_equal.
      destruct o; simpl; try reflexivity.
      * rewrite H. reflexivity.
      * rewrite count_is_card by exact W. f_equal. apply card_ext_in. intros j _. apply H.
Qed.

Lemma empty_is_math_empty i : cs_contains cs_empty i = math_mem [] i.
Proof. rewrite contains_empty. unfold math_mem. simpl. rewrite andb_false_r. reflexivity. Qed.

(* ============================================================================================ C. the parser *)
Lemma ltb_succ_leb i h : (i <? h + 1) = (i <=? h).
Proof. destruct (Z.ltb_spec i (h + 1)); destruct (Z.leb_spec i h); try reflexivity; lia. Qed.

Lemma parseAndAddRange_wf buf s : cs_wf s -> cs_wf (parseAndAddRange buf s).
Proof.
  intros W. unfold parseAndAddRange. destruct buf as [|c r]; [exact W|].
  destruct (split_first CH_MINUS (c :: r)) as [[a b]|].
  - destruct ((0 <=? parseIntClamped a) && (0 <=? parseIntClamped b)); [apply cs_addRange_wf; exact W|exact W].
  - destruct (0 <=? parseIntClamped (c :: r)); [apply cs_add_wf; exact W|exact W].
Qed.

Lemma parseAndAddRange_mem buf s i : cs_wf s ->
  cs_contains (parseAndAddRange buf s) i = cs_contains s i || (in_cap i && piece_mem buf i).
Proof.
  intros W. unfold parseAndAddRange, piece_mem. destruct buf as [|c r].
  - rewrite andb_false_r, orb_false_r. reflexivity.
  - destruct (split_first CH_MINUS (c :: r)) as [[a b]|].
    + cbv zeta. destruct ((0 <=? parseIntClamped a) && (0 <=? parseIntClamped b)) eqn:E.
      * rewrite contains_addRange by exact W. rewrite ltb_succ_leb. cbn [andb].
        rewrite orb_comm. f_equal. rewrite <- !andb_assoc. reflexivity.
      * cbn [andb]. rewrite andb_false_r, orb_false_r. reflexivity.
    + cbv zeta. destruct (0 <=? parseIntClamped (c :: r)) eqn:E.
      * rewrite contains_add by exact W. cbn [andb]. apply orb_comm.
      * cbn [andb]. rewrite andb_false_r, orb_false_r. reflexivity.
Qed.

Lemma parse_fold pieces i : forall s, cs_wf s ->
  cs_wf (fold_left (fun set buf => parseAndAddRange buf set) pieces s) /\
  cs_contains (fold_left (fun set buf => parseAndAddRange buf set) pieces s) i
    = cs_contains s i || (in_cap i && existsb (fun p => piece_mem p i) pieces).
Proof.
  induction pieces as [|p r IH]; intros s W; cbn [fold_left existsb].
  - split; [exact W|]. rewrite andb_false_r, orb_false_r. reflexivity.
  - destruct (IH (parseAndAddRange p s) (parseAndAddRange_wf p s W)) as [W' M]. split; [exact W'|].
    rewrite M, parseAndAddRange_mem by exact W.
    destruct (cs_contains s i), (in_cap i), (piece_mem p i); reflexivity.
Qed.

(* what ANY string does: the union of what its comma-separated pieces contribute *)
Lemma parse_any_string input i :
  cs_contains (parseLinuxCpuList input) i
  = in_cap i && existsb (fun p => piece_mem p i) (split_on CH_COMMA (cstr input)).
Proof.
  unfold parseLinuxCpuList. destruct (parse_fold (split_on CH_COMMA (cstr input)) i cs_empty cs_empty_wf) as [_ M].
  rewrite M, contains_empty. reflexivity.
Qed.

Lemma parse_wf input : cs_wf (parseLinuxCpuList input).
Proof. unfold parseLinuxCpuList. apply (parse_fold _ 0 cs_empty cs_empty_wf). Qed.

(* ---- the grammar *)
Lemma digit_range c : is_digit c = true -> 48 <= c <= 57.
Proof. unfold is_digit. rewrite andb_true_iff, !Z.leb_le. tauto. Qed.

Lemma digit_not_space c : is_digit c = true -> is_space c = false.
Proof.
  intros H. apply digit_range in H. unfold is_space.
  destruct (Z.eqb_spec c 32); [lia|]. destruct (Z.leb_spec 9 c); destruct (Z.leb_spec c 13); try reflexivity; lia.
Qed.

Lemma split_first_none c l : (forall x, In x l -> x <> c) -> split_first c l = None.
Proof.
  induction l as [|x r IH]; intros H; [reflexivity|]. cbn [split_first].
  destruct (Z.eqb_spec x c) as [E|E]; [exfalso; apply (H x); [left; reflexivity|exact E]|].
  rewrite IH; [reflexivity|]. intros y Hy. apply H. right; exact Hy.
Qed.

Lemma split_first_app c a b : (forall x, In x a -> x <> c) -> split_first c (a ++ c :: b) = Some (a, b).
Proof.
  induction a as [|x r IH]; intros H; cbn [app split_first].
  - rewrite Z.eqb_refl. reflexivity.
  - destruct (Z.eqb_spec x c) as [E|E]; [exfalso; apply (H x); [left; reflexivity|exact E]|].
    rewrite IH; [reflexivity|]. intros y Hy. apply H. right; exact Hy.
Qed.

Lemma split_on_none c l : (forall x, In x l -> x <> c) -> split_on c l = [l].
Proof.
  induction l as [|x r IH]; intros H; [reflexivity|]. cbn [split_on].
  rewrite IH by (intros y Hy; apply H; right; exact Hy).
  destruct (Z.eqb_spec x c) as [E|E]; [exfalso; apply (H x); [left; reflexivity|exact E]|reflexivity].
Qed.

Lemma split_on_nonnil c l : split_on c l <> [].
Proof.
  induction l as [|x r IH]; cbn [split_on]; [discriminate|].
  destruct (split_on c r) as [|h t]; [discriminate|]. destruct (x =? c); discriminate.
Qed.

Lemma split_on_app c a b : (forall x, In x a -> x <> c) -> split_on c (a ++ c :: b) = a :: split_on c b.
Proof.
  induction a as [|x r IH]; intros H; cbn [app split_on].
  - destruct (split_on c b) as [|h t] eqn:E; [exfalso; exact (split_on_nonnil c b E)|].
    rewrite Z.eqb_refl. reflexivity.
  - rewrite IH by (intros y Hy; apply H; right; exact Hy).
    destruct (Z.eqb_spec x c) as [E|E]; [exfalso; apply (H x); [left; reflexivity|exact E]|reflexivity].
Qed.

Lemma cstr_id l : (forall x, In x l -> x <> 0) -> cstr l = l.
Proof.
  induction l as [|x r IH]; intros H; [reflexivity|]. cbn [cstr].
  destruct (Z.eqb_spec x 0) as [E|E]; [exfalso; apply (H x); [left; reflexivity|exact E]|].
  rewrite IH; [reflexivity|]. intros y Hy. apply H. right; exact Hy.
Qed.

Lemma digits_acc_nonneg l : forall acc, 0 <= acc -> 0 <= digits_acc acc l.
Proof.
  induction l as [|c r IH]; intros acc H; cbn [digits_acc]; [exact H|].
  destruct (is_digit c) eqn:E; [|exact H]. apply IH. apply digit_range in E. lia.
Qed.

Lemma dval_nonneg ds : 0 <= dval ds.
Proof. apply digits_acc_nonneg. lia. Qed.

Lemma digitsb_cons ds : digitsb ds = true -> exists c r, ds = c :: r /\ is_digit c = true /\ forallb is_digit r = true.
Proof.
  unfold digitsb. destruct ds as [|c r]; [discriminate|]. cbn [negb andb forallb].
  rewrite andb_true_iff. intros [A B]. exists c, r. auto.
Qed.

Lemma digitsb_chars ds x : digitsb ds = true -> In x ds -> is_digit x = true.
Proof.
  unfold digitsb. rewrite andb_true_iff. intros [_ F] Hx. rewrite forallb_forall in F. apply F; exact Hx.
Qed.

Lemma strtol_digits ds : digitsb ds = true -> strtol10 ds = Some (Z.min LONG_MAX (dval ds)).
Proof.
  intros H. destruct (digitsb_cons ds H) as (c & r & -> & Dc & _).
  pose proof (digit_range c Dc) as Rc. unfold strtol10. cbn [skip_ws]. rewrite (digit_not_space c Dc).
  unfold CH_MINUS, CH_PLUS.
  destruct (Z.eqb_spec c 45); [lia|]. destruct (Z.eqb_spec c 43); [lia|].
  rewrite Dc. reflexivity.
Qed.

Lemma parseIntClamped_digits ds : digitsb ds = true ->
  parseIntClamped ds = if kMaxReasonableCpuId <? dval ds then -1 else dval ds.
Proof.
  intros H. unfold parseIntClamped. rewrite (strtol_digits ds H).
  pose proof (dval_nonneg ds) as N. unfold kMaxReasonableCpuId, LONG_MAX.
  assert (P20 : 2 ^ 20 = 1048576) by reflexivity. assert (P63 : 2 ^ 63 - 1 = 9223372036854775807) by reflexivity.
  rewrite P20, P63.
  destruct (Z.ltb_spec (Z.min 9223372036854775807 (dval ds)) 0); [lia|]. cbn [orb].
  destruct (Z.ltb_spec 1048576 (Z.min 9223372036854775807 (dval ds))); destruct (Z.ltb_spec 1048576 (dval ds)); lia.
Qed.

Lemma render_item_chars it x : item_okb it = true -> In x (render_item it) -> is_digit x = true \/ x = CH_MINUS.
Proof.
  destruct it as [n|n m]; cbn [item_okb render_item].
  - intros H Hx. left. exact (digitsb_chars n x H Hx).
  - rewrite andb_true_iff. intros [Hn Hm] Hx. apply in_app_or in Hx. destruct Hx as [Hx|[Hx|Hx]].
    + left. exact (digitsb_chars n x Hn Hx).
    + right. symmetry. exact Hx.
    + left. exact (digitsb_chars m x Hm Hx).
Qed.

Lemma render_item_nonnil it : item_okb it = true -> render_item it <> [].
Proof.
  destruct it as [n|n m]; cbn [item_okb render_item].
  - intros H. destruct (digitsb_cons n H) as (c & r & -> & _). discriminate.
  - intros _. destruct n; discriminate.
Qed.

Lemma render_item_no_comma it x : item_okb it = true -> In x (render_item it) -> x <> CH_COMMA.
Proof.
  intros H Hx. destruct (render_item_chars it x H Hx) as [D| ->]; [|unfold CH_MINUS, CH_COMMA; lia].
  apply digit_range in D. unfold CH_COMMA. lia.
Qed.

Lemma render_list_chars its x : forallb item_okb its = true -> In x (render_list its) ->
  is_digit x = true \/ x = CH_MINUS \/ x = CH_COMMA.
Proof.
  induction its as [|it r IH]; intros H Hx; [destruct Hx|].
  cbn [forallb] in H. apply andb_true_iff in H. destruct H as [Hit Hr].
  destruct r as [|it2 r2].
  - cbn [render_list] in Hx. destruct (render_item_chars it x Hit Hx); auto.
  - change (render_list (it :: it2 :: r2)) with (render_item it ++ CH_COMMA :: render_list (it2 :: r2)) in Hx.
    apply in_app_or in Hx. destruct Hx as [Hx|[Hx|Hx]].
    + destruct (render_item_chars it x Hit Hx); auto.
    + right; right; symmetry; exact Hx.
    + apply IH; assumption.
Qed.

Lemma split_render its : its <> [] -> forallb item_okb its = true ->
  split_on CH_COMMA (cstr (render_list its)) = map render_item its.
Proof.
  intros NE H. rewrite cstr_id.
  2:{ intros x Hx. destruct (render_list_chars its x H Hx) as [D|[-> | ->]]; [apply digit_range in D; lia|discriminate|discriminate]. }
  destruct its as [|it r]; [congruence|]. clear NE. revert it H.
  induction r as [|it2 r2 IH]; intros it H; cbn [forallb] in H; apply andb_true_iff in H; destruct H as [Hit Hr].
  - cbn [render_list map]. apply split_on_none. intros x Hx. exact (render_item_no_comma it x Hit Hx).
  - change (render_list (it :: it2 :: r2)) with (render_item it ++ CH_COMMA :: render_list (it2 :: r2)).
    rewrite split_on_app by (intros x Hx; exact (render_item_no_comma it x Hit Hx)).
    rewrite IH by exact Hr. reflexivity.
Qed.

Lemma digits_no_minus n x : digitsb n = true -> In x n -> x <> CH_MINUS.
Proof. intros H Hx. pose proof (digit_range x (digitsb_chars n x H Hx)). unfold CH_MINUS. lia. Qed.

Definition clamp_ok (ds : list Z) : bool := negb (kMaxReasonableCpuId <? dval ds).

(* one well-formed item: the piece contributes the item's ids when both numbers pass the 2^20 clamp, nothing otherwise *)
Lemma piece_mem_item it i : item_okb it = true ->
  piece_mem (render_item it) i =
  match it with
  | ISingle n => clamp_ok n && (i =? dval n)
  | IRange n m => clamp_ok n && clamp_ok m && (dval n <=? i) && (i <=? dval m)
  end.
Proof.
  intros H. pose proof (render_item_nonnil it H) as NN. unfold piece_mem.
  destruct (render_item it) as [|c0 r0] eqn:ER; [congruence|]. rewrite <- ER. clear NN.
  destruct it as [n|n m]; cbn [item_okb render_item] in *.
  - rewrite split_first_none by (intros x Hx; apply (digits_no_minus n x); assumption).
    cbv zeta. rewrite parseIntClamped_digits by exact H. unfold clamp_ok.
    pose proof (dval_nonneg n). destruct (kMaxReasonableCpuId <? dval n); cbn [negb andb]; [reflexivity|].
    destruct (Z.leb_spec 0 (dval n)); [reflexivity|lia].
  - apply andb_true_iff in H. destruct H as [Hn Hm].
    rewrite split_first_app by (intros x Hx; apply (digits_no_minus n x); assumption).
    cbv zeta. rewrite !parseIntClamped_digits by assumption. unfold clamp_ok.
    pose proof (dval_nonneg n). pose proof (dval_nonneg m).
    destruct (kMaxReasonableCpuId <? dval n); destruct (kMaxReasonableCpuId <? dval m); cbn [negb andb]; try reflexivity.
    all: destruct (Z.leb_spec 0 (dval n)); try lia; destruct (Z.leb_spec 0 (dval m)); try lia; reflexivity.
Qed.

Lemma kmax_val : kMaxReasonableCpuId = 1048576.
Proof. reflexivity. Qed.

Lemma piece_item_exact it i : item_okb it = true -> in_cap i = true -> item_lossy it = false ->
  piece_mem (render_item it) i = item_mem it i.
Proof.
  intros H Hi NL. rewrite piece_mem_item by exact H. apply in_cap_iff in Hi.
  unfold clamp_ok. destruct it as [n|n m]; cbn [item_mem item_lossy] in *; rewrite kmax_val in *; unfold CAP in *.
  - destruct (Z.ltb_spec 1048576 (dval n)); cbn [negb andb]; [|reflexivity].
    destruct (Z.eqb_spec i (dval n)); [lia|reflexivity].
  - destruct (Z.ltb_spec 1048576 (dval n)); destruct (Z.ltb_spec 1048576 (dval m)); cbn [negb andb]; try reflexivity.
    + destruct (Z.leb_spec (dval n) i); [lia|reflexivity].
    + destruct (Z.leb_spec (dval n) i); [lia|reflexivity].
    + destruct (Z.ltb_spec (dval n) 1024); [discriminate NL|].
      destruct (Z.leb_spec (dval n) i); [lia|reflexivity].
Qed.

(* for every well-formed item, lossy or not, the parser adds only ids the item denotes *)
Lemma piece_item_sound it i : item_okb it = true -> piece_mem (render_item it) i = true -> item_mem it i = true.
Proof.
  intros H. rewrite piece_mem_item by exact H. destruct it as [n|n m]; cbn [item_mem].
  - rewrite andb_true_iff. tauto.
  - rewrite !andb_true_iff. tauto.
Qed.

Lemma existsb_map_comp {A B} (f : B -> bool) (g : A -> B) l : existsb f (map g l) = existsb (fun x => f (g x)) l.
Proof. induction l as [|x r IH]; cbn [map existsb]; [reflexivity|]. rewrite IH. reflexivity. Qed.

Lemma existsb_ext_in {A} (f g : A -> bool) l : (forall x, In x l -> f x = g x) -> existsb f l = existsb g l.
Proof.
  induction l as [|x r IH]; intros H; cbn [existsb]; [reflexivity|].
  rewrite (H x) by (left; reflexivity). rewrite IH by (intros y Hy; apply H; right; exact Hy). reflexivity.
Qed.

Lemma parse_denotes_except its : its <> [] -> forallb item_okb its = true -> list_lossy its = false ->
  forall i, cs_contains (parseLinuxCpuList (render_list its)) i = in_cap i && denotes its i.
Proof.
  intros NE H NL i. rewrite parse_any_string, split_render by assumption.
  destruct (in_cap i) eqn:Hi; [|reflexivity]. cbn [andb]. rewrite existsb_map_comp. unfold denotes.
  apply existsb_ext_in. intros it Hit.
  rewrite forallb_forall in H. apply piece_item_exact; [apply H; exact Hit|exact Hi|].
  unfold list_lossy in NL. destruct (item_lossy it) eqn:E; [|reflexivity].
  exfalso. assert (X : existsb item_lossy its = true) by (apply existsb_exists; exists it; auto). congruence.
Qed.

Lemma parse_sound_always its : its <> [] -> forallb item_okb its = true ->
  forall i, cs_contains (parseLinuxCpuList (render_list its)) i = true -> in_cap i && denotes its i = true.
Proof.
  intros NE H i. rewrite parse_any_string, split_render by assumption.
  rewrite !andb_true_iff. intros [Hi E]. split; [exact Hi|].
  rewrite existsb_map_comp in E. apply existsb_exists in E. destruct E as (it & Hit & P).
  unfold denotes. apply existsb_exists. exists it. split; [exact Hit|].
  rewrite forallb_forall in H. apply piece_item_sound; [apply H; exact Hit|exact P].
Qed.

Definition refute_items : list item := [IRange [48] [49; 48; 52; 56; 53; 55; 55]].       (* "0-1048577" *)
Lemma parse_denotes_refuted_witness :
  forallb item_okb refute_items = true /\ list_lossy refute_items = true /\
  cs_contains (parseLinuxCpuList (render_list refute_items)) 0 = false /\ in_cap 0 && denotes refute_items 0 = true.
Proof. vm_compute. auto. Qed.

(* ============================================================================================ D. grouping *)
Definition nonnil (l : list Z) : bool := match l with [] => false | _ => true end.
(* the L3 index the code assigns to an L2 atom: that of its first cpu *)
Definition atom_l3 (l3s : list (list Z)) (a : list Z) : Z := l3_index l3s (hd 0 a).
(* a run of L2 atoms never contains two atoms with different known L3 indices *)
Definition run_coherent (l3s : list (list Z)) (r : list (list Z)) : Prop :=
  forall a b, In a r -> In b r -> 0 <= atom_l3 l3s a -> 0 <= atom_l3 l3s b -> atom_l3 l3s a = atom_l3 l3s b.
Definition group_of_run (r : list (list Z)) : list Z := isort (concat r).

(* ---- sorting *)
Lemma insert_sorted_perm x l : Permutation (insert_sorted x l) (x :: l).
Proof.
  induction l as [|y r IH]; cbn [insert_sorted]; [apply Permutation_refl|].
  destruct (x <=? y); [apply Permutation_refl|].
  apply perm_trans with (y :: x :: r); [apply perm_skip; exact IH|apply perm_swap].
Qed.

Lemma isort_perm l : Permutation (isort l) l.
Proof.
  induction l as [|x r IH]; cbn [isort fold_right]; [apply Permutation_refl|].
  fold (isort r). apply perm_trans with (x :: isort r); [apply insert_sorted_perm|apply perm_skip; exact IH].
Qed.

Lemma insert_sorted_hdrel a x l : a <= x -> HdRel Z.le a l -> HdRel Z.le a (insert_sorted x l).
Proof.
  intros H Hd. destruct l as [|y r]; cbn [insert_sorted]; [constructor; exact H|].
  destruct (x <=? y); constructor; [exact H|]. inversion Hd; assumption.
Qed.

Lemma insert_sorted_sorted x l : Sorted Z.le l -> Sorted Z.le (insert_sorted x l).
Proof.
  induction 1 as [|y r S IH Hd]; cbn [insert_sorted]; [repeat constructor|].
  destruct (Z.leb_spec x y).
  - constructor; [constructor; assumption|constructor; assumption].
  - constructor; [exact IH|]. apply insert_sorted_hdrel; [lia|exact Hd].
Qed.

Lemma isort_sorted l : Sorted Z.le (isort l).
Proof.
  induction l as [|x r IH]; cbn [isort fold_right]; [constructor|]. fold (isort r). apply insert_sorted_sorted; exact IH.
Qed.

Lemma zlen_isort l : zlen (isort l) = zlen l.
Proof. unfold zlen. f_equal. apply Permutation_length. apply isort_perm. Qed.

Lemma zlen_app a b : zlen (a ++ b) = zlen a + zlen b.
Proof. unfold zlen. rewrite app_length. lia. Qed.

Lemma zlen_nonneg a : 0 <= zlen a.
Proof. unfold zlen. lia. Qed.

(* ---- largest *)
Lemma fold_max_ge gs : forall m0, m0 <= fold_left (fun m g => Z.max m (zlen g)) gs m0.
Proof. induction gs as [|g r IH]; intros m0; cbn [fold_left]; [lia|]. specialize (IH (Z.max m0 (zlen g))). lia. Qed.

Lemma fold_max_in gs a : In a gs -> forall m0, zlen a <= fold_left (fun m g => Z.max m (zlen g)) gs m0.
Proof.
  induction gs as [|g r IH]; intros H m0; [destruct H|]. cbn [fold_left]. destruct H as [->|H].
  - pose proof (fold_max_ge r (Z.max m0 (zlen a))). lia.
  - apply IH; exact H.
Qed.

Lemma largest_ge gs a : In a gs -> zlen a <= largest gs.
Proof. intros H. apply fold_max_in; exact H. Qed.

(* ---- list helpers *)
Lemma filter_nonnil_snoc_nil P : filter nonnil (P ++ [[]]) = filter nonnil P.
Proof. rewrite filter_app. cbn [filter nonnil]. apply app_nil_r. Qed.

Lemma filter_nonnil_snoc P c t : filter nonnil (P ++ [c :: t]) = filter nonnil P ++ [c :: t].
Proof. rewrite filter_app. reflexivity. Qed.

Lemma concat_snoc {A} (l : list (list A)) x : concat (l ++ [x]) = concat l ++ x.
Proof. rewrite concat_app. cbn [concat]. rewrite app_nil_r. reflexivity. Qed.

Lemma concat_nonnil_atoms (cur : list (list Z)) : Forall (fun a => a <> []) cur -> concat cur = [] -> cur = [].
Proof.
  intros F E. destruct cur as [|a r]; [reflexivity|]. exfalso. inversion F as [|? ? Ha _]; subst.
  cbn [concat] in E. apply app_eq_nil in E. destruct E; contradiction.
Qed.

(* ---- the loop invariant *)
Definition ginv (l3s : list (list Z)) (M : Z) (P : list (list Z)) (st : gstate) : Prop :=
  exists runs cur,
    filter nonnil P = concat runs ++ cur /\
    g_out st = map group_of_run runs /\
    g_pending st = concat cur /\
    Forall (fun r => r <> []) runs /\
    Forall (fun a => a <> []) cur /\
    Forall (run_coherent l3s) runs /\
    (forall a, In a cur -> atom_l3 l3s a < 0 \/ atom_l3 l3s a = g_cur st) /\
    Forall (fun r => zlen (concat r) <= M) runs /\
    zlen (concat cur) <= M.

Lemma ginv_init l3s M : 0 <= M -> ginv l3s M [] (GS [] [] (-1)).
Proof.
  intros HM. exists [], []. cbn. repeat split; auto. intros a [].
Qed.

Lemma cur_coherent l3s cur k : (forall a, In a cur -> atom_l3 l3s a < 0 \/ atom_l3 l3s a = k) -> run_coherent l3s cur.
Proof.
  intros H a b Ha Hb Ka Kb. destruct (H a Ha) as [|Ea]; [lia|]. destruct (H b Hb) as [|Eb]; [lia|]. congruence.
Qed.

Lemma gstep_cons l3s M st c0 t :
  gstep l3s M st (c0 :: t) =
  if negb (l3_index l3s c0 =? g_cur st) && (0 <=? g_cur st) || (M <? zlen (g_pending st) + zlen (c0 :: t))
  then GS (flush (g_pending st) (g_out st)) (c0 :: t) (l3_index l3s c0)
  else GS (g_out st) (g_pending st ++ c0 :: t) (l3_index l3s c0).
Proof. reflexivity. Qed.

Lemma ginv_step l3s M P st y : ginv l3s M P st -> zlen y <= M -> ginv l3s M (P ++ [y]) (gstep l3s M st y).
Proof.
  intros (runs & cur & EP & EO & EPend & NR & NC & CR & CC & SR & SC) Hy.
  destruct y as [|c0 t].
  { (* empty L2 entries are skipped *)
    cbn [gstep]. exists runs, cur. rewrite filter_nonnil_snoc_nil. repeat split; assumption. }
  unfold ginv. rewrite gstep_cons. rewrite filter_nonnil_snoc.
  set (y := c0 :: t) in *. set (k := l3_index l3s c0).
  assert (Ky : atom_l3 l3s y = k) by reflexivity.
  assert (Ny : y <> []) by discriminate.
  assert (A1 : Forall (fun a : list Z => a <> []) [y]) by (constructor; [exact Ny|constructor]).
  assert (A2 : forall a, In a [y] -> atom_l3 l3s a < 0 \/ atom_l3 l3s a = k) by (intros a [<-|[]]; right; exact Ky).
  destruct (negb (k =? g_cur st) && (0 <=? g_cur st) || (M <? zlen (g_pending st) + zlen y)) eqn:FL.
  - (* flush, then start a new run with y *)
    destruct cur as [|a0 cr].
    + exists runs, [y]. cbn [g_out g_pending g_cur]. rewrite EPend. cbn [concat flush].
      rewrite EP, !app_nil_r.
      repeat split; try assumption; try reflexivity.
    + assert (NP : concat (a0 :: cr) <> []).
      { intros E. apply concat_nonnil_atoms in E; [discriminate|exact NC]. }
      assert (B1 : Forall (fun r : list (list Z) => r <> []) (runs ++ [a0 :: cr])).
      { apply Forall_app; split; [exact NR|]. constructor; [discriminate|constructor]. }
      assert (B2 : Forall (run_coherent l3s) (runs ++ [a0 :: cr])).
      { apply Forall_app; split; [exact CR|]. constructor; [|constructor]. eapply cur_coherent; exact CC. }
      assert (B3 : Forall (fun r : list (list Z) => zlen (concat r) <= M) (runs ++ [a0 :: cr])).
      { apply Forall_app; split; [exact SR|]. constructor; [exact SC|constructor]. }
      exists (runs ++ [a0 :: cr]), [y]. cbn [g_out g_pending g_cur]. rewrite EPend.
      unfold flush. destruct (concat (a0 :: cr)) as [|p0 pr] eqn:EC; [congruence|]. rewrite <- EC.
      rewrite EP, concat_snoc, map_app, EO. cbn [map concat].
      rewrite !app_nil_r.
      repeat split; try assumption; try reflexivity.
  - (* y joins the pending run *)
    apply orb_false_iff in FL. destruct FL as [CRS EXC]. apply Z.ltb_ge in EXC.
    rewrite EPend in EXC.
    assert (C1 : Forall (fun a : list Z => a <> []) (cur ++ [y])).
    { apply Forall_app; split; [exact NC|exact A1]. }
    assert (C2 : forall a, In a (cur ++ [y]) -> atom_l3 l3s a < 0 \/ atom_l3 l3s a = k).
    { intros a Ha. apply in_app_or in Ha. destruct Ha as [Ha|Ha]; [|apply A2; exact Ha].
      destruct (CC a Ha) as [Neg|Eq]; [left; exact Neg|].
      apply andb_false_iff in CRS. destruct CRS as [X|X].
      - apply negb_false_iff, Z.eqb_eq in X. right. rewrite Eq. symmetry. exact X.
      - apply Z.leb_gt in X. left. rewrite Eq. exact X. }
    assert (C3 : zlen (concat cur ++ y) <= M) by (rewrite zlen_app; exact EXC).
    exists runs, (cur ++ [y]). cbn [g_out g_pending g_cur]. rewrite EPend.
    rewrite EP, concat_snoc, app_assoc.
    repeat split; try assumption; try reflexivity.
Qed.

Lemma ginv_fold l3s M l : forall P st, ginv l3s M P st -> (forall a, In a l -> zlen a <= M) ->
  ginv l3s M (P ++ l) (fold_left (gstep l3s M) l st).
Proof.
  induction l as [|y r IH]; intros P st I H; cbn [fold_left].
  - rewrite app_nil_r. exact I.
  - replace (P ++ y :: r) with ((P ++ [y]) ++ r) by (rewrite <- app_assoc; reflexivity).
    apply IH; [apply ginv_step; [exact I|apply H; left; reflexivity]|intros a Ha; apply H; right; exact Ha].
Qed.

(* the structure of the result: the non-empty L2 atoms, in order, are cut into consecutive runs; each output
   group is the sorted concatenation of one run; every run is L3-coherent and within the (clamped) size bound *)
Lemma build_structure l2s l3s mg :
  exists runs,
    concat runs = filter nonnil l2s /\
    buildGroups l2s l3s mg = map group_of_run runs /\
    Forall (fun r => r <> []) runs /\
    Forall (run_coherent l3s) runs /\
    Forall (fun r => zlen (concat r) <= Z.max mg (largest l2s)) runs.
Proof.
  unfold buildGroups. cbv zeta. set (M := Z.max mg (largest l2s)).
  assert (HM : 0 <= M). { pose proof (fold_max_ge l2s 0). unfold largest in M. lia. }
  pose proof (ginv_fold l3s M l2s [] (GS [] [] (-1)) (ginv_init l3s M HM)) as I.
  cbn [app] in I. specialize (I ltac:(intros a Ha; pose proof (largest_ge l2s a Ha); lia)).
  destruct I as (runs & cur & EP & EO & EPend & NR & NC & CR & CC & SR & SC).
  rewrite EO, EPend. destruct cur as [|a0 cr].
  - exists runs. cbn [concat flush]. rewrite app_nil_r in EP. auto.
  - assert (NP : concat (a0 :: cr) <> []).
    { intros E. apply concat_nonnil_atoms in E; [discriminate|exact NC]. }
    assert (B1 : Forall (fun r : list (list Z) => r <> []) (runs ++ [a0 :: cr])).
    { apply Forall_app; split; [exact NR|]. constructor; [discriminate|constructor]. }
    assert (B2 : Forall (run_coherent l3s) (runs ++ [a0 :: cr])).
    { apply Forall_app; split; [exact CR|]. constructor; [|constructor]. eapply cur_coherent; exact CC. }
    assert (B3 : Forall (fun r : list (list Z) => zlen (concat r) <= M) (runs ++ [a0 :: cr])).
    { apply Forall_app; split; [exact SR|]. constructor; [exact SC|constructor]. }
    exists (runs ++ [a0 :: cr]). unfold flush. destruct (concat (a0 :: cr)) as [|p0 pr] eqn:EC; [congruence|]. rewrite <- EC.
    rewrite concat_snoc, map_app. cbn [map]. rewrite EP.
    repeat split; try assumption; try reflexivity.
Qed.

(* ---- consequences *)
Lemma concat_filter_nonnil l : concat (filter nonnil l) = concat l.
Proof. induction l as [|a r IH]; [reflexivity|]. destruct a; cbn [filter nonnil concat]; rewrite IH; reflexivity. Qed.

Lemma concat_concat_map {A} (l : list (list (list A))) : concat (concat l) = concat (map (@concat A) l).
Proof. induction l as [|x r IH]; [reflexivity|]. cbn [concat map]. rewrite concat_app, IH. reflexivity. Qed.

Lemma perm_concat_map {A B} (f g : A -> list B) l : (forall x, Permutation (f x) (g x)) ->
  Permutation (concat (map f l)) (concat (map g l)).
Proof. intros H. induction l as [|x r IH]; cbn [map concat]; [apply Permutation_refl|]. apply Permutation_app; auto. Qed.

Lemma groups_perm l2s l3s mg : Permutation (concat (buildGroups l2s l3s mg)) (concat l2s).
Proof.
  destruct (build_structure l2s l3s mg) as (runs & EC & EB & _). rewrite EB.
  rewrite <- (concat_filter_nonnil l2s), <- EC, concat_concat_map.
  apply perm_concat_map. intros r. apply isort_perm.
Qed.

Lemma runs_atoms_nonnil (runs : list (list (list Z))) l2s : concat runs = filter nonnil l2s ->
  forall r a, In r runs -> In a r -> a <> [] /\ In a l2s.
Proof.
  intros EC r a Hr Ha. assert (X : In a (filter nonnil l2s)).
  { rewrite <- EC. apply in_concat. exists r. auto. }
  apply filter_In in X. destruct X as [X1 X2]. split; [|exact X1]. destruct a; [discriminate|discriminate].
Qed.

Lemma groups_nonempty l2s l3s mg : Forall (fun g => g <> []) (buildGroups l2s l3s mg).
Proof.
  destruct (build_structure l2s l3s mg) as (runs & EC & EB & NR & _). rewrite EB.
  apply Forall_forall. intros g Hg. apply in_map_iff in Hg. destruct Hg as (r & <- & Hr).
  rewrite Forall_forall in NR. specialize (NR r Hr). destruct r as [|a t]; [congruence|].
  destruct (runs_atoms_nonnil runs l2s EC (a :: t) a Hr (or_introl eq_refl)) as [Na _].
  intros E. unfold group_of_run in E.
  assert (L : zlen (isort (concat (a :: t))) = 0) by (rewrite E; reflexivity).
  rewrite zlen_isort in L. cbn [concat] in L. rewrite zlen_app in L. pose proof (zlen_nonneg (concat t)).
  destruct a; [congruence|]. unfold zlen in L at 1. cbn [length] in L. lia.
Qed.

Lemma groups_sorted l2s l3s mg : Forall (Sorted Z.le) (buildGroups l2s l3s mg).
Proof.
  destruct (build_structure l2s l3s mg) as (runs & _ & EB & _). rewrite EB.
  apply Forall_forall. intros g Hg. apply in_map_iff in Hg. destruct Hg as (r & <- & _). apply isort_sorted.
Qed.

Lemma in_group_of_run r c : In c (group_of_run r) <-> exists a, In a r /\ In c a.
Proof.
  unfold group_of_run. split.
  - intros H. apply (Permutation_in _ (isort_perm _)) in H. apply in_concat in H. destruct H as (a & Ha & Hc). eauto.
  - intros (a & Ha & Hc). apply (Permutation_in _ (Permutation_sym (isort_perm _))). apply in_concat. eauto.
Qed.

(* every non-empty L2 atom lies entirely inside one output group *)
Lemma atom_in_some_group l2s l3s mg a : In a l2s -> a <> [] ->
  exists g, In g (buildGroups l2s l3s mg) /\ incl a g.
Proof.
  intros Ha Na. destruct (build_structure l2s l3s mg) as (runs & EC & EB & _). rewrite EB.
  assert (X : In a (concat runs)).
  { rewrite EC. apply filter_In. split; [exact Ha|]. destruct a; [congruence|reflexivity]. }
  apply in_concat in X. destruct X as (r & Hr & Har).
  exists (group_of_run r). split; [apply in_map; exact Hr|].
  intros c Hc. apply in_group_of_run. eauto.
Qed.

Lemma nodup_app_parts {A} (x r : list A) : NoDup (x ++ r) -> NoDup r /\ forall y, In y x -> ~ In y r.
Proof.
  induction x as [|h t IH]; cbn [app]; intros ND.
  - split; [exact ND|]. intros y [].
  - inversion ND as [|? ? Nin ND']; subst. destruct (IH ND') as [N1 N2]. split; [exact N1|].
    intros y [<-|Hy]; [|apply N2; exact Hy]. intros Hc. apply Nin. apply in_or_app. right; exact Hc.
Qed.

Lemma nodup_concat_unique {A} (L : list (list A)) g1 g2 c :
  NoDup (concat L) -> In g1 L -> In g2 L -> In c g1 -> In c g2 -> g1 = g2.
Proof.
  induction L as [|x r IH]; intros ND H1 H2 C1 C2; [destruct H1|].
  cbn [concat] in ND. destruct (nodup_app_parts _ _ ND) as [NDr Dis].
  destruct H1 as [<-|H1]; destruct H2 as [<-|H2].
  - reflexivity.
  - exfalso. apply (Dis c C1). apply in_concat. eauto.
  - exfalso. apply (Dis c C2). apply in_concat. eauto.
  - apply IH; assumption.
Qed.

(* with pairwise disjoint L2 atoms: a group that touches an atom contains all of it *)
Lemma never_splits l2s l3s mg : NoDup (concat l2s) ->
  forall a g c, In a l2s -> In g (buildGroups l2s l3s mg) -> In c a -> In c g -> incl a g.
Proof.
  intros ND a g c Ha Hg Hca Hcg.
  assert (Na : a <> []) by (destruct a; [destruct Hca|discriminate]).
  destruct (atom_in_some_group l2s l3s mg a Ha Na) as (g0 & Hg0 & Inc).
  assert (NDg : NoDup (concat (buildGroups l2s l3s mg))).
  { apply (Permutation_NoDup (Permutation_sym (groups_perm l2s l3s mg))). exact ND. }
  rewrite (nodup_concat_unique _ g g0 c NDg Hg Hg0 Hcg (Inc c Hca)). exact Inc.
Qed.

Lemma group_size l2s l3s mg g : In g (buildGroups l2s l3s mg) -> zlen g <= Z.max mg (largest l2s).
Proof.
  destruct (build_structure l2s l3s mg) as (runs & _ & EB & _ & _ & SR). rewrite EB.
  intros Hg. apply in_map_iff in Hg. destruct Hg as (r & <- & Hr).
  unfold group_of_run. rewrite zlen_isort. rewrite Forall_forall in SR. apply SR; exact Hr.
Qed.

(* every cpu of an L2 atom has the L3 index of the atom's first cpu (caches nest) *)
Definition l2_nested (l2s l3s : list (list Z)) : Prop :=
  forall a c, In a l2s -> In c a -> l3_index l3s c = l3_index l3s (hd 0 a).

Lemma never_mixes_l3 l2s l3s mg : l2_nested l2s l3s ->
  forall g c d, In g (buildGroups l2s l3s mg) -> In c g -> In d g ->
  0 <= l3_index l3s c -> 0 <= l3_index l3s d -> l3_index l3s c = l3_index l3s d.
Proof.
  intros NEST g c d Hg Hc Hd Kc Kd.
  destruct (build_structure l2s l3s mg) as (runs & EC & EB & _ & CR & _). rewrite EB in Hg.
  apply in_map_iff in Hg. destruct Hg as (r & <- & Hr).
  apply in_group_of_run in Hc. destruct Hc as (a & Ha & Hca).
  apply in_group_of_run in Hd. destruct Hd as (b & Hb & Hdb).
  destruct (runs_atoms_nonnil runs l2s EC r a Hr Ha) as [_ Ha2].
  destruct (runs_atoms_nonnil runs l2s EC r b Hr Hb) as [_ Hb2].
  rewrite (NEST a c Ha2 Hca) in *. rewrite (NEST b d Hb2 Hdb) in *.
  rewrite Forall_forall in CR. exact (CR r Hr a b Ha Hb Kc Kd).
Qed.

(* ---- what l3_index means *)
Lemma memb_In c l : memb c l = true <-> In c l.
Proof.
  unfold memb. rewrite existsb_exists. split.
  - intros (x & Hx & E). apply Z.eqb_eq in E. subst. exact Hx.
  - intros H. exists c. split; [exact H|apply Z.eqb_refl].
Qed.

Lemma l3_index_from_spec l3s c : forall g, 0 <= g ->
  let k := l3_index_from g l3s c in
  (k = -1 /\ forall grp, In grp l3s -> ~ In c grp) \/
  (g <= k < g + Z.of_nat (length l3s) /\ In c (nth (Z.to_nat (k - g)) l3s []) /\
   forall j, (j < length l3s)%nat -> In c (nth j l3s []) -> g + Z.of_nat j <= k).
Proof.
  induction l3s as [|grp r IH]; intros g Hg; cbn [l3_index_from].
  - left. split; [reflexivity|]. intros ? [].
  - cbv zeta. specialize (IH (g + 1) ltac:(lia)). cbv zeta in IH.
    destruct (Z.leb_spec 0 (l3_index_from (g + 1) r c)) as [P|P].
    + destruct IH as [[E _]|(R & I & Mx)]; [lia|]. right. cbn [length]. split; [lia|]. split.
      * replace (Z.to_nat (l3_index_from (g + 1) r c - g)) with (S (Z.to_nat (l3_index_from (g + 1) r c - (g + 1)))) by lia.
        exact I.
      * intros [|j] Hj Hin; [lia|]. cbn [nth] in Hin. cbn [length] in Hj. specialize (Mx j ltac:(lia) Hin). lia.
    + destruct IH as [[E No]|(R & _)]; [|lia].
      destruct (memb c grp) eqn:Mb.
      * apply memb_In in Mb. right. cbn [length]. split; [lia|]. split.
        -- rewrite Z.sub_diag. exact Mb.
        -- intros [|j] Hj Hin; [lia|]. cbn [nth] in Hin. exfalso. cbn [length] in Hj.
           apply (No (nth j r [])); [apply nth_In; lia|exact Hin].
      * left. split; [reflexivity|]. intros grp' [<-|Hin]; [|apply No; exact Hin].
        intros Hc. apply memb_In in Hc. congruence.
Qed.

Lemma l3_index_spec l3s c :
  (l3_index l3s c = -1 /\ forall grp, In grp l3s -> ~ In c grp) \/
  (0 <= l3_index l3s c < Z.of_nat (length l3s) /\ In c (nth (Z.to_nat (l3_index l3s c)) l3s []) /\
   forall j, (j < length l3s)%nat -> In c (nth j l3s []) -> Z.of_nat j <= l3_index l3s c).
Proof.
  unfold l3_index. pose proof (l3_index_from_spec l3s c 0 ltac:(lia)) as H. cbv zeta in H.
  destruct H as [H|(R & I & Mx)]; [left; exact H|right]. rewrite Z.sub_0_r in I. split; [lia|]. split; [exact I|].
  intros j Hj Hin. specialize (Mx j Hj Hin). lia.
Qed.

(* ---- affinity masks *)
Lemma from_ids_fold cpus i : forall s, cs_wf s ->
  cs_wf (fold_left cs_add cpus s) /\
  cs_contains (fold_left cs_add cpus s) i = cs_contains s i || (in_cap i && memb i cpus).
Proof.
  induction cpus as [|c r IH]; intros s W; cbn [fold_left].
  - split; [exact W|]. unfold memb. cbn [existsb]. rewrite andb_false_r, orb_false_r. reflexivity.
  - destruct (IH (cs_add s c) (cs_add_wf s c W)) as [W' M]. split; [exact W'|].
    rewrite M, contains_add by exact W. unfold memb. cbn [existsb].
    destruct (in_cap i), (i =? c), (cs_contains s i), (existsb (Z.eqb i) r); reflexivity.
Qed.

Lemma from_ids_mem cpus i : cs_contains (cs_from_ids cpus) i = in_cap i && memb i cpus.
Proof.
  unfold cs_from_ids. destruct (from_ids_fold cpus i cs_empty cs_empty_wf) as [_ M]. rewrite M, contains_empty. reflexivity.
Qed.

(* ============================================================================================ E. the judges' helpers *)
Lemma piece_iv_mem p i : iv_mem (piece_iv p) i = piece_mem p i.
Proof.
  unfold piece_iv, piece_mem, iv_mem. destruct p as [|c r]; [reflexivity|].
  destruct (split_first CH_MINUS (c :: r)) as [[a b]|]; cbv zeta.
  - destruct ((0 <=? parseIntClamped a) && (0 <=? parseIntClamped b)); reflexivity.
  - destruct (0 <=? parseIntClamped (c :: r)); [|reflexivity].
    cbn [andb]. destruct (Z.leb_spec (parseIntClamped (c :: r)) i); destruct (Z.leb_spec i (parseIntClamped (c :: r)));
      destruct (Z.eqb_spec i (parseIntClamped (c :: r))); try reflexivity; lia.
Qed.

Lemma recog_sound s its : recog s = Some its -> render_list its = s /\ forallb item_okb its = true.
Proof.
  unfold recog. destruct (all_some (map recog_item (split_on CH_COMMA s))) as [l|]; [|discriminate].
  destruct (zlist_eqb (render_list l) s && forallb item_okb l) eqn:E; [|discriminate].
  intros H; injection H as <-. apply andb_true_iff in E. destruct E as [E1 E2]. split; [|exact E2].
  clear E2. revert E1. unfold zlist_eqb. generalize (render_list l). intros x. revert s.
  induction x as [|a r IH]; intros [|b t]; cbn [list_eqb]; try discriminate; [reflexivity|].
  rewrite andb_true_iff, Z.eqb_eq. intros [-> H]. f_equal. apply IH; exact H.
Qed.

Lemma bits_spec n : forall w, bits n w = map (Z.testbit w) (zrange 0 n).
Proof.
  induction n as [|n IH]; intros w; [reflexivity|].
  change (bits (S n) w) with (Z.odd w :: bits n (Z.div2 w)).
  change (zrange 0 (S n)) with (0 :: zrange (0 + 1) n).
  cbn [map]. rewrite Z.bit0_odd. f_equal. rewrite IH.
  rewrite zrange_shift, map_map.
  apply map_ext_in. intros k Hk. apply zrange_In in Hk.
  rewrite Z.div2_spec, Z.shiftr_spec by lia. reflexivity.
Qed.

Lemma decode_flat ws : decode ws = concat (map bits_of ws).
Proof.
  unfold decode. rewrite flat_map_concat_map. f_equal. apply map_ext. intros w. apply bits_spec.
Qed.

Lemma list_eqb_bool_eq l1 : forall l2, bools_eqb l1 l2 = true -> l1 = l2.
Proof.
  unfold bools_eqb. induction l1 as [|a r IH]; intros [|b t]; cbn [list_eqb]; try discriminate; [reflexivity|].
  rewrite andb_true_iff. intros [E H]. apply eqb_prop in E. subst. f_equal. apply IH; exact H.
Qed.

Lemma cs_wfb_wf ws : cs_wfb ws = true -> cs_wf ws.
Proof.
  unfold cs_wfb, cs_wf. rewrite andb_true_iff, Nat.eqb_eq, forallb_forall. intros [L F]. split; [exact L|].
  apply Forall_forall. intros w Hw. specialize (F w Hw). rewrite andb_true_iff, Z.leb_le, Z.ltb_lt in F. exact F.
Qed.

(* the judge's test "these words denote exactly this set" means what it says *)
Lemma words_denote_sound ws mem : words_denote ws mem = true ->
  cs_wf ws /\ forall i, cs_contains ws i = in_cap i && mem i.
Proof.
  unfold words_denote. rewrite andb_true_iff. intros [W E]. apply cs_wfb_wf in W. split; [exact W|].
  apply list_eqb_bool_eq in E. intros i. unfold cs_contains. destruct (in_cap i) eqn:Hi; [|reflexivity].
  apply in_cap_iff in Hi. destruct (word_index i Hi) as [Wq Wr]. destruct W as [L _].
  assert (N : nth (Z.to_nat i) (decode ws) false = test_bit ws i).
  { rewrite decode_flat. replace (Z.to_nat i) with (64 * Z.to_nat (i / 64) + Z.to_nat (i mod 64))%nat by lia.
    rewrite nth_flat by (try rewrite L; unfold NWORDS; lia). unfold test_bit. rewrite widx_eq, bidx_eq, Z2Nat.id by lia. reflexivity. }
  rewrite <- N, E. cbn [andb].
  rewrite nth_indep with (d' := mem 0) by (rewrite map_length; unfold all_ids; rewrite zrange_length; lia).
  rewrite map_nth. unfold all_ids. rewrite nth_zrange by lia. f_equal. lia.
Qed.

Lemma ivs_mem_denotes its i : ivs_mem (map item_iv its) i = denotes its i.
Proof.
  unfold ivs_mem, denotes. rewrite existsb_map_comp. apply existsb_ext_in. intros it _.
  destruct it as [n|n m]; cbn [item_iv item_mem fst snd]; [|reflexivity].
  destruct (Z.leb_spec (dval n) i); destruct (Z.leb_spec i (dval n)); destruct (Z.eqb_spec i (dval n)); try reflexivity; lia.
Qed.

(* without nesting of L2 inside L3 the code can put cpus of two known L3 groups in one thread group: it only looks at
   the first cpu of each L2 atom *)
Lemma l3_mix_needs_nesting :
  buildGroups [[0; 1]] [[0]; [1]] 16 = [[0; 1]] /\ l3_index [[0]; [1]] 0 = 0 /\ l3_index [[0]; [1]] 1 = 1.
Proof. vm_compute. auto. Qed.
