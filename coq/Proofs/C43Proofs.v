(* C43 -- proofs about Model/CpuSetModel.v: set algebra of CpuSet, parseLinuxCpuList, buildGroupsFromCacheTopology *)
From Coq Require Import ZArith List Bool Lia Permutation Sorted.
From DV Require Import Model.CpuSetModel.
Import ListNotations.
Local Open Scope Z_scope.

Ltac Zify.zify_post_hook ::= Z.div_mod_to_equations.

(* ============================================================================================ A. the set *)

Lemma in_cap_iff i : in_cap i = true <-> 0 <= i < 1024.
Proof. unfold in_cap, CAP. rewrite andb_true_iff, Z.leb_le, Z.ltb_lt. tauto. Qed.

Lemma in_cap_false i : in_cap i = false <-> ~ (0 <= i < 1024).
Proof. rewrite <- in_cap_iff. destruct (in_cap i); split; congruence. Qed.

Lemma upd_nth_length n f l : length (upd_nth n f l) = length l.
Proof. revert n; induction l as [|x r IH]; intros [|n]; simpl; auto. Qed.

Lemma nth_upd_nth_same n f l : (n < length l)%nat -> nth n (upd_nth n f l) 0 = f (nth n l 0).
Proof. revert n; induction l as [|x r IH]; intros [|n] H; simpl in *; try lia; auto. apply IH; lia. Qed.

Lemma nth_upd_nth_other n m f l : n <> m -> nth m (upd_nth n f l) 0 = nth m l 0.
Proof.
  revert n m; induction l as [|x r IH]; intros [|n] [|m] H; simpl; auto; try congruence.
Qed.

Lemma upd_nth_Forall (P : Z -> Prop) n f l :
  Forall P l -> (forall x, P x -> P (f x)) -> Forall P (upd_nth n f l).
Proof.
  intros H Hf; revert n; induction H as [|x r Hx Hr IH]; intros [|n]; simpl; constructor; auto.
Qed.

Lemma word_index i : 0 <= i < 1024 -> (Z.to_nat (i / 64) < 16)%nat /\ 0 <= i mod 64 < 64.
Proof. intros H. split; [|lia]. assert (0 <= i / 64 < 16) by lia. lia. Qed.

Lemma high_bits_zero x n k : 0 <= n -> 0 <= x < 2 ^ n -> n <= k -> Z.testbit x k = false.
Proof.
  intros Hn Hx Hk. destruct (Z.eq_dec x 0) as [->|Nx]; [apply Z.bits_0|].
  apply Z.bits_above_log2; [lia|]. assert (Z.log2 x < n) by (apply Z.log2_lt_pow2; lia). lia.
Qed.

Lemma bound_from_bits x n : 0 <= n -> 0 <= x -> (forall k, n <= k -> Z.testbit x k = false) -> x < 2 ^ n.
Proof.
  intros Hn Hx H. destruct (Z.eq_dec x 0) as [->|Nx]; [apply Z.pow_pos_nonneg; lia|].
  apply Z.log2_lt_pow2; [lia|]. destruct (Z_lt_le_dec (Z.log2 x) n) as [|G]; [assumption|].
  specialize (H _ G). rewrite Z.bit_log2 in H by lia. discriminate.
Qed.

Lemma lor_bound a b n : 0 <= n -> 0 <= a < 2 ^ n -> 0 <= b < 2 ^ n -> 0 <= Z.lor a b < 2 ^ n.
Proof.
  intros Hn Ha Hb. assert (N : 0 <= Z.lor a b) by (apply Z.lor_nonneg; lia). split; [exact N|].
  apply bound_from_bits; [exact Hn|exact N|]. intros k Hk.
  rewrite Z.lor_spec, (high_bits_zero a n k), (high_bits_zero b n k) by assumption. reflexivity.
Qed.

Lemma ldiff_bound a b n : 0 <= n -> 0 <= a < 2 ^ n -> 0 <= b -> 0 <= Z.ldiff a b < 2 ^ n.
Proof.
  intros Hn Ha Hb. assert (N : 0 <= Z.ldiff a b) by (apply Z.ldiff_nonneg; lia).
  split; [exact N|]. apply bound_from_bits; [exact Hn|exact N|]. intros k Hk.
  rewrite Z.ldiff_spec, (high_bits_zero a n k) by assumption. reflexivity.
Qed.

Lemma pow2_bound k : 0 <= k < 64 -> 0 <= Z.shiftl 1 k < 2 ^ 64.
Proof.
  intros H. rewrite Z.shiftl_1_l. split; [apply Z.pow_nonneg; lia|]. apply Z.pow_lt_mono_r; lia.
Qed.

Lemma cs_empty_wf : cs_wf cs_empty.
Proof. split; [reflexivity|]. unfold cs_empty, NWORDS; simpl. repeat constructor; lia. Qed.

Lemma set_bit_wf s i : cs_wf s -> 0 <= i < 1024 -> cs_wf (set_bit s i).
Proof.
  intros [L F] H. split; [unfold set_bit; rewrite upd_nth_length; exact L|].
  apply upd_nth_Forall; [exact F|]. intros x Hx. apply lor_bound; [lia|exact Hx|apply pow2_bound; lia].
Qed.

Lemma clr_bit_wf s i : cs_wf s -> 0 <= i < 1024 -> cs_wf (clr_bit s i).
Proof.
  intros [L F] H. split; [unfold clr_bit; rewrite upd_nth_length; exact L|].
  apply upd_nth_Forall; [exact F|]. intros x Hx. apply ldiff_bound; [lia|exact Hx|]. apply pow2_bound; lia.
Qed.

Lemma same_slot i j : 0 <= i < 1024 -> 0 <= j < 1024 ->
  (Z.to_nat (i / 64) = Z.to_nat (j / 64) /\ i mod 64 = j mod 64) <-> i = j.
Proof. intros Hi Hj. split; [intros [A B]|intros ->; auto]. assert (i / 64 = j / 64) by lia. lia. Qed.

Lemma test_set_bit s i j : cs_wf s -> 0 <= i < 1024 -> 0 <= j < 1024 ->
  test_bit (set_bit s i) j = (j =? i) || test_bit s j.
Proof.
  intros [L _] Hi Hj. unfold test_bit, set_bit.
  destruct (word_index i Hi) as [Wi Bi]. destruct (word_index j Hj) as [Wj Bj].
  destruct (Nat.eq_dec (Z.to_nat (i / 64)) (Z.to_nat (j / 64))) as [E|E].
  - rewrite <- E. rewrite nth_upd_nth_same by (rewrite L; exact Wi).
    rewrite Z.lor_spec, Z.shiftl_1_l, Z.pow2_bits_eqb by lia. rewrite orb_comm. f_equal.
    destruct (Z.eqb_spec (i mod 64) (j mod 64)) as [M|M]; destruct (Z.eqb_spec j i) as [Q|Q]; auto.
    + exfalso; apply Q; symmetry; apply same_slot; auto.
    + exfalso; apply M; subst; reflexivity.
  - rewrite nth_upd_nth_other by exact E.
    destruct (Z.eqb_spec j i) as [Q|Q]; [subst; congruence|reflexivity].
Qed.

Lemma test_clr_bit s i j : cs_wf s -> 0 <= i < 1024 -> 0 <= j < 1024 ->
  test_bit (clr_bit s i) j = negb (j =? i) && test_bit s j.
Proof.
  intros [L _] Hi Hj. unfold test_bit, clr_bit.
  destruct (word_index i Hi) as [Wi Bi]. destruct (word_index j Hj) as [Wj Bj].
  destruct (Nat.eq_dec (Z.to_nat (i / 64)) (Z.to_nat (j / 64))) as [E|E].
  - rewrite <- E. rewrite nth_upd_nth_same by (rewrite L; exact Wi).
    rewrite Z.ldiff_spec, Z.shiftl_1_l, Z.pow2_bits_eqb by lia. rewrite andb_comm. f_equal. f_equal.
    destruct (Z.eqb_spec (i mod 64) (j mod 64)) as [M|M]; destruct (Z.eqb_spec j i) as [Q|Q]; auto.
    + exfalso; apply Q; symmetry; apply same_slot; auto.
    + exfalso; apply M; subst; reflexivity.
  - rewrite nth_upd_nth_other by exact E.
    destruct (Z.eqb_spec j i) as [Q|Q]; [subst; congruence|reflexivity].
Qed.

(* ---- single-id operations *)
Lemma cs_add_wf s i : cs_wf s -> cs_wf (cs_add s i).
Proof. intros W; unfold cs_add. destruct (in_cap i) eqn:E; [apply set_bit_wf; [exact W|apply in_cap_iff; exact E]|exact W]. Qed.
Lemma cs_remove_wf s i : cs_wf s -> cs_wf (cs_remove s i).
Proof. intros W; unfold cs_remove. destruct (in_cap i) eqn:E; [apply clr_bit_wf; [exact W|apply in_cap_iff; exact E]|exact W]. Qed.

Lemma contains_out_of_range s i : in_cap i = false -> cs_contains s i = false.
Proof. intros E; unfold cs_contains; rewrite E; reflexivity. Qed.

Lemma contains_add s a i : cs_wf s -> cs_contains (cs_add s a) i = (in_cap i && (i =? a)) || cs_contains s i.
Proof.
  intros W. unfold cs_contains, cs_add. destruct (in_cap i) eqn:Ei; [|reflexivity]. simpl.
  destruct (in_cap a) eqn:Ea.
  - apply test_set_bit; [exact W|apply in_cap_iff; exact Ea|apply in_cap_iff; exact Ei].
  - destruct (Z.eqb_spec i a) as [Q|Q]; [subst; congruence|reflexivity].
Qed.

Lemma contains_remove s a i : cs_wf s -> cs_contains (cs_remove s a) i = negb (i =? a) && cs_contains s i.
Proof.
  intros W. unfold cs_contains, cs_remove. destruct (in_cap i) eqn:Ei; [|rewrite andb_false_r; reflexivity].
  destruct (in_cap a) eqn:Ea.
  - apply test_clr_bit; [exact W|apply in_cap_iff; exact Ea|apply in_cap_iff; exact Ei].
  - destruct (Z.eqb_spec i a) as [Q|Q]; [subst; congruence|reflexivity].
Qed.

Lemma add_out_of_range s a : in_cap a = false -> cs_add s a = s.
Proof. intros E; unfold cs_add; rewrite E; reflexivity. Qed.
Lemma remove_out_of_range s a : in_cap a = false -> cs_remove s a = s.
Proof. intros E; unfold cs_remove; rewrite E; reflexivity. Qed.

Lemma contains_empty i : cs_contains cs_empty i = false.
Proof.
  unfold cs_contains. destruct (in_cap i) eqn:E; [|reflexivity]. apply in_cap_iff in E.
  unfold test_bit, cs_empty. destruct (word_index i E) as [W _].
  assert (R : forall n k, nth k (repeat 0 n) 0 = 0).
  { induction n; intros [|k]; simpl; auto. }
  rewrite R. apply Z.bits_0.
Qed.

(* ---- range loops *)
Lemma loop_set_wf n : forall a s, cs_wf s -> 0 <= a -> (n = 0%nat \/ a + Z.of_nat n <= 1024) -> cs_wf (loop_from set_bit n a s).
Proof.
  induction n as [|n IH]; intros a s W Ha Hb; simpl; [exact W|].
  destruct Hb as [Hb|Hb]; [discriminate|].
  apply IH; [apply set_bit_wf; [exact W|lia]|lia|right; lia].
Qed.
Lemma loop_clr_wf n : forall a s, cs_wf s -> 0 <= a -> (n = 0%nat \/ a + Z.of_nat n <= 1024) -> cs_wf (loop_from clr_bit n a s).
Proof.
  induction n as [|n IH]; intros a s W Ha Hb; simpl; [exact W|].
  destruct Hb as [Hb|Hb]; [discriminate|].
  apply IH; [apply clr_bit_wf; [exact W|lia]|lia|right; lia].
Qed.

Lemma empty_interval a j : (a <=? j) && (j <? a + Z.of_nat 0) = false.
Proof. apply andb_false_iff. destruct (Z.leb_spec a j); [right; apply Z.ltb_ge; lia|left; reflexivity]. Qed.

Lemma loop_set_test n : forall a s j, cs_wf s -> 0 <= a -> (n = 0%nat \/ a + Z.of_nat n <= 1024) -> 0 <= j < 1024 ->
  test_bit (loop_from set_bit n a s) j = ((a <=? j) && (j <? a + Z.of_nat n)) || test_bit s j.
Proof.
  induction n as [|n IH]; intros a s j W Ha Hb Hj; simpl loop_from.
  - rewrite empty_interval. reflexivity.
  - destruct Hb as [Hb|Hb]; [discriminate|].
    rewrite IH by (try apply set_bit_wf; auto; lia). rewrite test_set_bit by (auto; lia).
    destruct (Z.eqb_spec j a) as [Q|Q]; destruct (Z.leb_spec (a + 1) j); destruct (Z.leb_spec a j);
      destruct (Z.ltb_spec j (a + 1 + Z.of_nat n)); destruct (Z.ltb_spec j (a + Z.of_nat (S n))); simpl; try reflexivity; lia.
Qed.

Lemma loop_clr_test n : forall a s j, cs_wf s -> 0 <= a -> (n = 0%nat \/ a + Z.of_nat n <= 1024) -> 0 <= j < 1024 ->
  test_bit (loop_from clr_bit n a s) j = negb ((a <=? j) && (j <? a + Z.of_nat n)) && test_bit s j.
Proof.
  induction n as [|n IH]; intros a s j W Ha Hb Hj; simpl loop_from.
  - rewrite empty_interval. reflexivity.
  - destruct Hb as [Hb|Hb]; [discriminate|].
    rewrite IH by (try apply clr_bit_wf; auto; lia). rewrite test_clr_bit by (auto; lia).
    destruct (Z.eqb_spec j a) as [Q|Q]; destruct (Z.leb_spec (a + 1) j); destruct (Z.leb_spec a j);
      destruct (Z.ltb_spec j (a + 1 + Z.of_nat n)); destruct (Z.ltb_spec j (a + Z.of_nat (S n))); simpl; try reflexivity; lia.
Qed.

Lemma range_clamp a b : 0 <= Z.max a 0 /\
  (Z.to_nat (Z.min b 1024 - Z.max a 0) = 0%nat \/ Z.max a 0 + Z.of_nat (Z.to_nat (Z.min b 1024 - Z.max a 0)) <= 1024).
Proof. lia. Qed.

Lemma cs_addRange_wf s a b : cs_wf s -> cs_wf (cs_addRange s a b).
Proof. intros W. unfold cs_addRange, CAP. destruct (range_clamp a b). apply loop_set_wf; auto. Qed.
Lemma cs_removeRange_wf s a b : cs_wf s -> cs_wf (cs_removeRange s a b).
Proof. intros W. unfold cs_removeRange, CAP. destruct (range_clamp a b). apply loop_clr_wf; auto. Qed.

Lemma contains_addRange s a b i : cs_wf s ->
  cs_contains (cs_addRange s a b) i = (in_cap i && (a <=? i) && (i <? b)) || cs_contains s i.
Proof.
  intros W. unfold cs_contains. destruct (in_cap i) eqn:Ei; [|reflexivity]. apply in_cap_iff in Ei.
  unfold cs_addRange, CAP. destruct (range_clamp a b). rewrite loop_set_test by auto. simpl. f_equal.
  destruct (Z.leb_spec (Z.max a 0) i); destruct (Z.leb_spec a i);
    destruct (Z.ltb_spec i (Z.max a 0 + Z.of_nat (Z.to_nat (Z.min b 1024 - Z.max a 0)))); destruct (Z.ltb_spec i b);
    simpl; try reflexivity; lia.
Qed.

Lemma contains_removeRange s a b i : cs_wf s ->
  cs_contains (cs_removeRange s a b) i = negb ((a <=? i) && (i <? b)) && cs_contains s i.
Proof.
  intros W. unfold cs_contains. destruct (in_cap i) eqn:Ei; [|rewrite andb_false_r; reflexivity]. apply in_cap_iff in Ei.
  unfold cs_removeRange, CAP. destruct (range_clamp a b). rewrite loop_clr_test by auto. f_equal. f_equal.
  destruct (Z.leb_spec (Z.max a 0) i); destruct (Z.leb_spec a i);
    destruct (Z.ltb_spec i (Z.max a 0 + Z.of_nat (Z.to_nat (Z.min b 1024 - Z.max a 0)))); destruct (Z.ltb_spec i b);
    simpl; try reflexivity; lia.
Qed.

(* ---- count = cardinality *)
Fixpoint count_true (l : list bool) : Z :=
  match l with [] => 0 | b :: r => (if b then 1 else 0) + count_true r end.
Definition bits_of (w : Z) : list bool := map (Z.testbit w) (zrange 0 64).

Lemma zrange_length a n : length (zrange a n) = n.
Proof. revert a; induction n; intros; simpl; auto. Qed.

Lemma zrange_In n : forall a x, In x (zrange a n) <-> a <= x < a + Z.of_nat n.
Proof.
  induction n as [|n IH]; intros a x; simpl zrange.
  - simpl. lia.
  - simpl In. rewrite IH. lia.
Qed.

Lemma zrange_shift n : forall a, zrange (a + 1) n = map Z.succ (zrange a n).
Proof. induction n as [|n IH]; intros a; simpl; [reflexivity|]. rewrite IH. f_equal. Qed.

Lemma nth_zrange n : forall a r, (r < n)%nat -> nth r (zrange a n) 0 = a + Z.of_nat r.
Proof.
  induction n as [|n IH]; intros a [|r] H; simpl nth; try lia.
  rewrite IH by lia. lia.
Qed.

Lemma count_true_app l1 l2 : count_true (l1 ++ l2) = count_true l1 + count_true l2.
Proof. induction l1 as [|b r IH]; simpl; [reflexivity|]. rewrite IH. lia. Qed.

Lemma popcount_bits n : forall w, popcount n w = count_true (map (Z.testbit w) (zrange 0 n)).
Proof.
  induction n as [|n IH]; intros w; [reflexivity|].
  change (popcount (S n) w) with ((if Z.odd w then 1 else 0) + popcount n (Z.div2 w)).
  change (zrange 0 (S n)) with (0 :: zrange (0 + 1) n).
  cbn [map count_true]. rewrite Z.bit0_odd. f_equal. rewrite IH. f_equal.
  rewrite zrange_shift, map_map.
  apply map_ext_in. intros k Hk. apply zrange_In in Hk.
  rewrite Z.div2_spec, Z.shiftr_spec by lia. reflexivity.
Qed.

Lemma cs_count_flat s : cs_count s = count_true (concat (map bits_of s)).
Proof.
  unfold cs_count. induction s as [|w r IH]; [reflexivity|].
  cbn [fold_right map concat]. rewrite count_true_app, IH. f_equal. apply popcount_bits.
Qed.

Lemma filter_nth_count (l : list bool) : forall a,
  Z.of_nat (length (filter (fun i => nth (Z.to_nat (i - a)) l false) (zrange a (length l)))) = count_true l.
Proof.
  induction l as [|b r IH]; intros a; [reflexivity|].
  cbn [length zrange filter]. rewrite Z.sub_diag. cbn [Z.to_nat nth].
  rewrite (filter_ext_in _ (fun i => nth (Z.to_nat (i - (a + 1))) r false)).
  2:{ intros i Hi. apply zrange_In in Hi.
      replace (Z.to_nat (i - a)) with (S (Z.to_nat (i - (a + 1)))) by lia. reflexivity. }
  specialize (IH (a + 1)). cbn [count_true]. destruct b; cbn [length]; lia.
Qed.

Lemma bits_of_length w : length (bits_of w) = 64%nat.
Proof. unfold bits_of. rewrite map_length, zrange_length. reflexivity. Qed.

Lemma flat_length s : length (concat (map bits_of s)) = (64 * length s)%nat.
Proof. induction s as [|w r IH]; [reflexivity|]. cbn [map concat]. rewrite app_length, bits_of_length, IH. cbn [length]. lia. Qed.

Lemma nth_bits_of w r : (r < 64)%nat -> nth r (bits_of w) false = Z.testbit w (Z.of_nat r).
Proof.
  intros H. unfold bits_of. rewrite nth_indep with (d' := Z.testbit w 0) by (rewrite map_length, zrange_length; exact H).
  rewrite map_nth. rewrite nth_zrange by exact H. reflexivity.
Qed.

Lemma nth_flat s : forall q r, (q < length s)%nat -> (r < 64)%nat ->
  nth (64 * q + r) (concat (map bits_of s)) false = Z.testbit (nth q s 0) (Z.of_nat r).
Proof.
  induction s as [|w t IH]; intros q r Hq Hr; simpl in Hq; [lia|].
  cbn [map concat]. destruct q as [|q].
  - rewrite Nat.mul_0_r, Nat.add_0_l. rewrite app_nth1 by (rewrite bits_of_length; exact Hr).
    apply nth_bits_of; exact Hr.
  - replace (64 * S q + r)%nat with (length (bits_of w) + (64 * q + r))%nat by (rewrite bits_of_length; lia).
    rewrite app_nth2_plus. apply IH; lia.
Qed.

Lemma card_ext_in p q : (forall i, 0 <= i < 1024 -> p i = q i) -> card p = card q.
Proof.
  intros H. unfold card. f_equal. f_equal. apply filter_ext_in. intros i Hi.
  apply zrange_In in Hi. apply H. simpl in Hi. lia.
Qed.

Lemma count_is_card s : cs_wf s -> cs_count s = card (cs_contains s).
Proof.
  intros [L F]. rewrite cs_count_flat. rewrite <- (filter_nth_count (concat (map bits_of s)) 0).
  rewrite flat_length, L. unfold card, all_ids. f_equal. f_equal. change (64 * NWORDS)%nat with 1024%nat.
  apply filter_ext_in. intros i Hi. apply zrange_In in Hi. simpl in Hi.
  assert (Hi' : 0 <= i < 1024) by lia. destruct (word_index i Hi') as [Wq Wr].
  rewrite Z.sub_0_r.
  replace (Z.to_nat i) with (64 * Z.to_nat (i / 64) + Z.to_nat (i mod 64))%nat by lia.
  rewrite nth_flat by (try rewrite L; unfold NWORDS; lia).
  unfold cs_contains. rewrite (proj2 (in_cap_iff i) Hi'). unfold test_bit. rewrite Z2Nat.id by lia. reflexivity.
Qed.

(* ============================================================================================ B. operation sequences *)
Lemma op_apply_wf s o : cs_wf s -> cs_wf (op_apply s o).
Proof.
  intros W. destruct o; simpl; auto using cs_add_wf, cs_addRange_wf, cs_remove_wf, cs_removeRange_wf, cs_empty_wf.
Qed.

Lemma op_apply_mem s o rops : cs_wf s -> (forall i, cs_contains s i = math_mem rops i) ->
  forall i, cs_contains (op_apply s o) i = math_mem (o :: rops) i.
Proof.
  intros W H i. unfold math_mem in *. destruct o; simpl op_apply; simpl ref_mem.
  - rewrite contains_add, H by exact W. destruct (in_cap i), (i =? i0), (ref_mem rops i); reflexivity.
  - rewrite contains_addRange, H by exact W. destruct (in_cap i), (a <=? i), (i <? b), (ref_mem rops i); reflexivity.
  - rewrite contains_remove, H by exact W. destruct (in_cap i), (i =? i0), (ref_mem rops i); reflexivity.
  - rewrite contains_removeRange, H by exact W. destruct (in_cap i), (a <=? i), (i <? b), (ref_mem rops i); reflexivity.
  - rewrite contains_empty. rewrite andb_false_r. reflexivity.
  - apply H.
  - apply H.
Qed.

Lemma run_ops_spec : forall ops s rops, cs_wf s -> (forall i, cs_contains s i = math_mem rops i) ->
  cs_wf (fst (run_ops s ops)) /\
  (forall i, cs_contains (fst (run_ops s ops)) i = math_mem (rev ops ++ rops) i) /\
  snd (run_ops s ops) = ref_results rops ops.
Proof.
  induction ops as [|o r IH]; intros s rops W H; simpl run_ops.
  - simpl. auto.
  - specialize (IH (op_apply s o) (o :: rops) (op_apply_wf s o W) (op_apply_mem s o rops W H)).
    destruct (run_ops (op_apply s o) r) as [s' res]. simpl fst in *. simpl snd in *.
    destruct IH as (W' & M & R). split; [exact W'|]. split.
    + intros i. simpl rev. rewrite <- app_assoc. apply M.
    + simpl ref_results. rewrite R. f_equal.
      destruct o; simpl; try reflexivity.
      * rewrite H. reflexivity.
      * rewrite count_is_card by exact W. f_equal. apply card_ext_in. intros j _. apply H.
Qed.

Lemma empty_is_math_empty i : cs_contains cs_empty i = math_mem [] i.
Proof. rewrite contains_empty. unfold math_mem. simpl. rewrite andb_false_r. reflexivity. Qed.

(* ============================================================================================ C. the parser *)
Lemma ltb_succ_leb i h : (i <? h + 1) = (i <=? h).
Proof. destruct (Z.ltb_spec i (h + 1)); destruct (Z.leb_spec i h); try reflexivity; lia. Qed.

Lemma parseAndAddRange_wf buf s : cs_wf s -> cs_wf (parseAndAddRange buf s).
Proof.
  intros W. unfold parseAndAddRange. destruct buf as [|c r]; [exact W|].
  destruct (split_first CH_MINUS (c :: r)) as [[a b]|].
  - destruct ((0 <=? parseIntClamped a) && (0 <=? parseIntClamped b)); [apply cs_addRange_wf; exact W|exact W].
  - destruct (0 <=? parseIntClamped (c :: r)); [apply cs_add_wf; exact W|exact W].
Qed.

Lemma parseAndAddRange_mem buf s i : cs_wf s ->
  cs_contains (parseAndAddRange buf s) i = cs_contains s i || (in_cap i && piece_mem buf i).
Proof.
  intros W. unfold parseAndAddRange, piece_mem. destruct buf as [|c r].
  - rewrite andb_false_r, orb_false_r. reflexivity.
  - destruct (split_first CH_MINUS (c :: r)) as [[a b]|].
    + cbv zeta. destruct ((0 <=? parseIntClamped a) && (0 <=? parseIntClamped b)) eqn:E.
      * rewrite contains_addRange by exact W. rewrite ltb_succ_leb. cbn [andb].
        rewrite orb_comm. f_equal. rewrite <- !andb_assoc. reflexivity.
      * cbn [andb]. rewrite andb_false_r, orb_false_r. reflexivity.
    + cbv zeta. destruct (0 <=? parseIntClamped (c :: r)) eqn:E.
      * rewrite contains_add by exact W. cbn [andb]. apply orb_comm.
      * cbn [andb]. rewrite andb_false_r, orb_false_r. reflexivity.
Qed.

Lemma parse_fold pieces i : forall s, cs_wf s ->
  cs_wf (fold_left (fun set buf => parseAndAddRange buf set) pieces s) /\
  cs_contains (fold_left (fun set buf => parseAndAddRange buf set) pieces s) i
    = cs_contains s i || (in_cap i && existsb (fun p => piece_mem p i) pieces).
Proof.
  induction pieces as [|p r IH]; intros s W; cbn [fold_left existsb].
  - split; [exact W|]. rewrite andb_false_r, orb_false_r. reflexivity.
  - destruct (IH (parseAndAddRange p s) (parseAndAddRange_wf p s W)) as [W' M]. split; [exact W'|].
    rewrite M, parseAndAddRange_mem by exact W.
    destruct (cs_contains s i), (in_cap i), (piece_mem p i); reflexivity.
Qed.

(* what ANY string does: the union of what its comma-separated pieces contribute *)
Lemma parse_any_string input i :
  cs_contains (parseLinuxCpuList input) i
  = in_cap i && existsb (fun p => piece_mem p i) (split_on CH_COMMA (cstr input)).
Proof.
  unfold parseLinuxCpuList. destruct (parse_fold (split_on CH_COMMA (cstr input)) i cs_empty cs_empty_wf) as [_ M].
  rewrite M, contains_empty. reflexivity.
Qed.

Lemma parse_wf input : cs_wf (parseLinuxCpuList input).
Proof. unfold parseLinuxCpuList. apply (parse_fold _ 0 cs_empty cs_empty_wf). Qed.

(* ---- the grammar *)
Lemma digit_range c : is_digit c = true -> 48 <= c <= 57.
Proof. unfold is_digit. rewrite andb_true_iff, !Z.leb_le. tauto. Qed.

Lemma digit_not_space c : is_digit c = true -> is_space c = false.
Proof.
  intros H. apply digit_range in H. unfold is_space.
  destruct (Z.eqb_spec c 32); [lia|]. destruct (Z.leb_spec 9 c); destruct (Z.leb_spec c 13); try reflexivity; lia.
Qed.

Lemma split_first_none c l : (forall x, In x l -> x <> c) -> split_first c l = None.
Proof.
  induction l as [|x r IH]; intros H; [reflexivity|]. cbn [split_first].
  destruct (Z.eqb_spec x c) as [E|E]; [exfalso; apply (H x); [left; reflexivity|exact E]|].
  rewrite IH; [reflexivity|]. intros y Hy. apply H. right; exact Hy.
Qed.

Lemma split_first_app c a b : (forall x, In x a -> x <> c) -> split_first c (a ++ c :: b) = Some (a, b).
Proof.
  induction a as [|x r IH]; intros H; cbn [app split_first].
  - rewrite Z.eqb_refl. reflexivity.
  - destruct (Z.eqb_spec x c) as [E|E]; [exfalso; apply (H x); [left; reflexivity|exact E]|].
    rewrite IH; [reflexivity|]. intros y Hy. apply H. right; exact Hy.
Qed.

Lemma split_on_none c l : (forall x, In x l -> x <> c) -> split_on c l = [l].
Proof.
  induction l as [|x r IH]; intros H; [reflexivity|]. cbn [split_on].
  rewrite IH by (intros y Hy; apply H; right; exact Hy).
  destruct (Z.eqb_spec x c) as [E|E]; [exfalso; apply (H x); [left; reflexivity|exact E]|reflexivity].
Qed.

Lemma split_on_nonnil c l : split_on c l <> [].
Proof.
  induction l as [|x r IH]; cbn [split_on]; [discriminate|].
  destruct (split_on c r) as [|h t]; [discriminate|]. destruct (x =? c); discriminate.
Qed.

Lemma split_on_app c a b : (forall x, In x a -> x <> c) -> split_on c (a ++ c :: b) = a :: split_on c b.
Proof.
  induction a as [|x r IH]; intros H; cbn [app split_on].
  - destruct (split_on c b) as [|h t] eqn:E; [exfalso; exact (split_on_nonnil c b E)|].
    rewrite Z.eqb_refl. reflexivity.
  - rewrite IH by (intros y Hy; apply H; right; exact Hy).
    destruct (Z.eqb_spec x c) as [E|E]; [exfalso; apply (H x); [left; reflexivity|exact E]|reflexivity].
Qed.

Lemma cstr_id l : (forall x, In x l -> x <> 0) -> cstr l = l.
Proof.
  induction l as [|x r IH]; intros H; [reflexivity|]. cbn [cstr].
  destruct (Z.eqb_spec x 0) as [E|E]; [exfalso; apply (H x); [left; reflexivity|exact E]|].
  rewrite IH; [reflexivity|]. intros y Hy. apply H. right; exact Hy.
Qed.

Lemma digits_acc_nonneg l : forall acc, 0 <= acc -> 0 <= digits_acc acc l.
Proof.
  induction l as [|c r IH]; intros acc H; cbn [digits_acc]; [exact H|].
  destruct (is_digit c) eqn:E; [|exact H]. apply IH. apply digit_range in E. lia.
Qed.

Lemma dval_nonneg ds : 0 <= dval ds.
Proof. apply digits_acc_nonneg. lia. Qed.

Lemma digitsb_cons ds : digitsb ds = true -> exists c r, ds = c :: r /\ is_digit c = true /\ forallb is_digit r = true.
Proof.
  unfold digitsb. destruct ds as [|c r]; [discriminate|]. cbn [negb andb forallb].
  rewrite andb_true_iff. intros [A B]. exists c, r. auto.
Qed.

Lemma digitsb_chars ds x : digitsb ds = true -> In x ds -> is_digit x = true.
Proof.
  unfold digitsb. rewrite andb_true_iff. intros [_ F] Hx. rewrite forallb_forall in F. apply F; exact Hx.
Qed.

Lemma strtol_digits ds : digitsb ds = true -> strtol10 ds = Some (Z.min LONG_MAX (dval ds)).
Proof.
  intros H. destruct (digitsb_cons ds H) as (c & r & -> & Dc & _).
  pose proof (digit_range c Dc) as Rc. unfold strtol10. cbn [skip_ws]. rewrite (digit_not_space c Dc).
  unfold CH_MINUS, CH_PLUS.
  destruct (Z.eqb_spec c 45); [lia|]. destruct (Z.eqb_spec c 43); [lia|].
  rewrite Dc. reflexivity.
Qed.

Lemma parseIntClamped_digits ds : digitsb ds = true ->
  parseIntClamped ds = if kMaxReasonableCpuId <? dval ds then -1 else dval ds.
Proof.
  intros H. unfold parseIntClamped. rewrite (strtol_digits ds H).
  pose proof (dval_nonneg ds) as N. unfold kMaxReasonableCpuId, LONG_MAX.
  assert (P20 : 2 ^ 20 = 1048576) by reflexivity. assert (P63 : 2 ^ 63 - 1 = 9223372036854775807) by reflexivity.
  rewrite P20, P63.
  destruct (Z.ltb_spec (Z.min 9223372036854775807 (dval ds)) 0); [lia|]. cbn [orb].
  destruct (Z.ltb_spec 1048576 (Z.min 9223372036854775807 (dval ds))); destruct (Z.ltb_spec 1048576 (dval ds)); lia.
Qed.

Lemma render_item_chars it x : item_okb it = true -> In x (render_item it) -> is_digit x = true \/ x = CH_MINUS.
Proof.
  destruct it as [n|n m]; cbn [item_okb render_item].
  - intros H Hx. left. exact (digitsb_chars n x H Hx).
  - rewrite andb_true_iff. intros [Hn Hm] Hx. apply in_app_or in Hx. destruct Hx as [Hx|[Hx|Hx]].
    + left. exact (digitsb_chars n x Hn Hx).
    + right. symmetry. exact Hx.
    + left. exact (digitsb_chars m x Hm Hx).
Qed.

Lemma render_item_nonnil it : item_okb it = true -> render_item it <> [].
Proof.
  destruct it as [n|n m]; cbn [item_okb render_item].
  - intros H. destruct (digitsb_cons n H) as (c & r & -> & _). discriminate.
  - intros _. destruct n; discriminate.
Qed.

Lemma render_item_no_comma it x : item_okb it = true -> In x (render_item it) -> x <> CH_COMMA.
Proof.
  intros H Hx. destruct (render_item_chars it x H Hx) as [D| ->]; [|unfold CH_MINUS, CH_COMMA; lia].
  apply digit_range in D. unfold CH_COMMA. lia.
Qed.

Lemma render_list_chars its x : forallb item_okb its = true -> In x (render_list its) ->
  is_digit x = true \/ x = CH_MINUS \/ x = CH_COMMA.
Proof.
  induction its as [|it r IH]; intros H Hx; [destruct Hx|].
  cbn [forallb] in H. apply andb_true_iff in H. destruct H as [Hit Hr].
  destruct r as [|it2 r2].
  - cbn [render_list] in Hx. destruct (render_item_chars it x Hit Hx); auto.
  - change (render_list (it :: it2 :: r2)) with (render_item it ++ CH_COMMA :: render_list (it2 :: r2)) in Hx.
    apply in_app_or in Hx. destruct Hx as [Hx|[Hx|Hx]].
    + destruct (render_item_chars it x Hit Hx); auto.
    + right; right; symmetry; exact Hx.
    + apply IH; assumption.
Qed.

Lemma split_render its : its <> [] -> forallb item_okb its = true ->
  split_on CH_COMMA (cstr (render_list its)) = map render_item its.
Proof.
  intros NE H. rewrite cstr_id.
  2:{ intros x Hx. destruct (render_list_chars its x H Hx) as [D|[-> | ->]]; [apply digit_range in D; lia|discriminate|discriminate]. }
  destruct its as [|it r]; [congruence|]. clear NE. revert it H.
  induction r as [|it2 r2 IH]; intros it H; cbn [forallb] in H; apply andb_true_iff in H; destruct H as [Hit Hr].
  - cbn [render_list map]. apply split_on_none. intros x Hx. exact (render_item_no_comma it x Hit Hx).
  - change (render_list (it :: it2 :: r2)) with (render_item it ++ CH_COMMA :: render_list (it2 :: r2)).
    rewrite split_on_app by (intros x Hx; exact (render_item_no_comma it x Hit Hx)).
    rewrite IH by exact Hr. reflexivity.
Qed.

Lemma digits_no_minus n x : digitsb n = true -> In x n -> x <> CH_MINUS.
Proof. intros H Hx. pose proof (digit_range x (digitsb_chars n x H Hx)). unfold CH_MINUS. lia. Qed.

Definition clamp_ok (ds : list Z) : bool := negb (kMaxReasonableCpuId <? dval ds).

(* one well-formed item: the piece contributes the item's ids when both numbers pass the 2^20 clamp, nothing otherwise *)
Lemma piece_mem_item it i : item_okb it = true ->
  piece_mem (render_item it) i =
  match it with
  | ISingle n => clamp_ok n && (i =? dval n)
  | IRange n m => clamp_ok n && clamp_ok m && (dval n <=? i) && (i <=? dval m)
  end.
Proof.
  intros H. pose proof (render_item_nonnil it H) as NN. unfold piece_mem.
  destruct (render_item it) as [|c0 r0] eqn:ER; [congruence|]. rewrite <- ER. clear NN.
  destruct it as [n|n m]; cbn [item_okb render_item] in *.
  - rewrite split_first_none by (intros x Hx; apply (digits_no_minus n x); assumption).
    cbv zeta. rewrite parseIntClamped_digits by exact H. unfold clamp_ok.
    pose proof (dval_nonneg n). destruct (kMaxReasonableCpuId <? dval n); cbn [negb andb]; [reflexivity|].
    destruct (Z.leb_spec 0 (dval n)); [reflexivity|lia].
  - apply andb_true_iff in H. destruct H as [Hn Hm].
    rewrite split_first_app by (intros x Hx; apply (digits_no_minus n x); assumption).
    cbv zeta. rewrite !parseIntClamped_digits by assumption. unfold clamp_ok.
    pose proof (dval_nonneg n). pose proof (dval_nonneg m).
    destruct (kMaxReasonableCpuId <? dval n); destruct (kMaxReasonableCpuId <? dval m); cbn [negb andb]; try reflexivity.
    + destruct (0 <=? dval m); reflexivity.
    + destruct (Z.leb_spec 0 (dval n)); [|lia]. destruct (Z.leb_spec 0 (dval m)); [reflexivity|lia].
Qed.

Lemma kmax_val : kMaxReasonableCpuId = 1048576.
Proof. reflexivity. Qed.

Lemma piece_item_exact it i : item_okb it = true -> in_cap i = true -> item_lossy it = false ->
  piece_mem (render_item it) i = item_mem it i.
Proof.
  intros H Hi NL. rewrite piece_mem_item by exact H. apply in_cap_iff in Hi.
  unfold clamp_ok. destruct it as [n|n m]; cbn [item_mem item_lossy] in *; rewrite kmax_val in *; unfold CAP in *.
  - destruct (Z.ltb_spec 1048576 (dval n)); cbn [negb andb]; [|reflexivity].
    destruct (Z.eqb_spec i (dval n)); [lia|reflexivity].
  - destruct (Z.ltb_spec 1048576 (dval n)); destruct (Z.ltb_spec 1048576 (dval m)); cbn [negb andb]; try reflexivity.
    + destruct (Z.leb_spec (dval n) i); [lia|reflexivity].
    + destruct (Z.leb_spec (dval n) i); [lia|reflexivity].
    + destruct (Z.ltb_spec (dval n) 1024); [discriminate NL|].
      destruct (Z.leb_spec (dval n) i); [lia|reflexivity].
Qed.

(* for every well-formed item, lossy or not, the parser adds only ids the item denotes *)
Lemma piece_item_sound it i : item_okb it = true -> piece_mem (render_item it) i = true -> item_mem it i = true.
Proof.
  intros H. rewrite piece_mem_item by exact H. destruct it as [n|n m]; cbn [item_mem].
  - rewrite andb_true_iff. tauto.
  - rewrite !andb_true_iff. tauto.
Qed.

Lemma existsb_map_comp {A B} (f : B -> bool) (g : A -> B) l : existsb f (map g l) = existsb (fun x => f (g x)) l.
Proof. induction l as [|x r IH]; cbn [map existsb]; [reflexivity|]. rewrite IH. reflexivity. Qed.

Lemma existsb_ext_in {A} (f g : A -> bool) l : (forall x, In x l -> f x = g x) -> existsb f l = existsb g l.
Proof.
  induction l as [|x r IH]; intros H; cbn [existsb]; [reflexivity|].
  rewrite (H x) by (left; reflexivity). rewrite IH by (intros y Hy; apply H; right; exact Hy). reflexivity.
Qed.

Lemma parse_denotes_except its : its <> [] -> forallb item_okb its = true -> list_lossy its = false ->
  forall i, cs_contains (parseLinuxCpuList (render_list its)) i = in_cap i && denotes its i.
Proof.
  intros NE H NL i. rewrite parse_any_string, split_render by assumption.
  destruct (in_cap i) eqn:Hi; [|reflexivity]. cbn [andb]. rewrite existsb_map_comp. unfold denotes.
  apply existsb_ext_in. intros it Hit.
  rewrite forallb_forall in H. apply piece_item_exact; [apply H; exact Hit|exact Hi|].
  unfold list_lossy in NL. destruct (item_lossy it) eqn:E; [|reflexivity].
  exfalso. assert (X : existsb item_lossy its = true) by (apply existsb_exists; exists it; auto). congruence.
Qed.

Lemma parse_sound_always its : its <> [] -> forallb item_okb its = true ->
  forall i, cs_contains (parseLinuxCpuList (render_list its)) i = true -> in_cap i && denotes its i = true.
Proof.
  intros NE H i. rewrite parse_any_string, split_render by assumption.
  rewrite !andb_true_iff. intros [Hi E]. split; [exact Hi|].
  rewrite existsb_map_comp in E. apply existsb_exists in E. destruct E as (it & Hit & P).
  unfold denotes. apply existsb_exists. exists it. split; [exact Hit|].
  rewrite forallb_forall in H. apply piece_item_sound; [apply H; exact Hit|exact P].
Qed.

Definition refute_items : list item := [IRange [48] [49; 48; 52; 56; 53; 55; 55]].       (* "0-1048577" *)
Lemma parse_denotes_refuted_witness :
  forallb item_okb refute_items = true /\ list_lossy refute_items = true /\
  cs_contains (parseLinuxCpuList (render_list refute_items)) 0 = false /\ in_cap 0 && denotes refute_items 0 = true.
Proof. vm_compute. auto. Qed.
