(* C11 -- glue: the memory-safety / leak-freedom READING of the component theorems (C15 C17 C18 C26 C32-C42 C44).
   Nothing is re-modelled and nothing is re-proved here: every lemma is a projection / repackaging of a theorem of the
   owning property's Props file, stated over that property's own model.  Modules are Required, not Imported: the
   component models reuse the names step / init / run. *)
From Coq Require Import ZArith List Bool Lia Permutation String.
From DV Require Import Base.Life Base.Sched Model.C11Check.
From DV Require Props.Properties_C39 Props.Properties_C40 Props.Properties_C38 Props.Properties_C32 Props.Properties_C33
  Props.Properties_C34 Props.Properties_C35 Props.Properties_C36 Props.Properties_C37 Props.Properties_C41 Props.Properties_C42
  Props.Properties_C44 Props.Properties_C18 Props.Properties_C26 Props.Properties_C15 Props.Properties_C17.
Import ListNotations.
Local Open Scope Z_scope.

(* ------------------------------------------------------------------------------------------------ OnceFunction (C39) *)
Definition oncefn_safe : Prop :=
  forall o nv ops av aevss s evss,
    OnceFnModel.oracle_ok o -> OnceFnModel.types_ok ops = true -> NoDup (OnceFnModel.make_tags ops) ->
    OnceFnModel.arun (OnceFnModel.ainit nv) ops = Some (av, aevss) -> OnceFnModel.run o (OnceFnModel.init nv) ops = Some (s, evss) ->
    (* no double destroy / use after destroy of a callable, no double free / use after free of a spill block *)
    ok (OnceFnModel.st_led s) /\ ok (OnceFnModel.st_heap s) /\
    NoDup (OnceFnModel.destroyed (concat (map OnceFnModel.project evss))) /\
    (* construction, call and destruction happen at aligned addresses *)
    forallb (forallb OnceFnModel.ev_aligned) evss = true /\
    (* nothing alive at the end, once every owner was called or cleaned up *)
    (OnceFnModel.abandoned (concat aevss) = [] -> OnceFnModel.owned av = [] ->
       balanced (OnceFnModel.st_led s) /\ balanced (OnceFnModel.st_heap s) /\
       n_ctor (OnceFnModel.st_led s) = n_dtor (OnceFnModel.st_led s)).

Lemma oncefn_safe_proof : oncefn_safe.
Proof.
  intros o nv ops av aevss s evss Ho Ht Hn Ha Hr.
  destruct (Properties_C39.C39_once_destroy_exactly_once o nv ops av aevss s evss Ho Ht Hn Ha Hr) as (_ & Hd & Hl & Hh & _ & Hb).
  pose proof (Properties_C39.C39_once_storage_aligned o nv ops av aevss s evss Ho Ht Ha Hr) as Hal.
  repeat split; try assumption; apply Hb; assumption.
Qed.

(* ------------------------------------------------------------------------------------------------ OpResult (C40) *)
Definition opresult_safe : Prop :=
  forall nv ops s, OpResultModel.run (OpResultModel.init nv) ops = Some s ->
    ok (OpResultModel.st_led s) /\
    (* live objects are exactly the contents of engaged variables: nothing dangling, nothing orphaned *)
    (forall id, is_live (lget (OpResultModel.st_led s) id) = true ->
       exists i t, id = OpResultModel.slot i /\ OpResultModel.vget (OpResultModel.st_vars s) i = Some (Some t)) /\
    (OpResultModel.all_gone (OpResultModel.st_vars s) = true ->
       balanced (OpResultModel.st_led s) /\ n_ctor (OpResultModel.st_led s) = n_dtor (OpResultModel.st_led s)).

Lemma opresult_safe_proof : opresult_safe.
Proof.
  intros nv ops s H. destruct (Properties_C40.C40_opresult_balanced nv ops s H) as (A & _ & B & C). auto.
Qed.

(* ------------------------------------------------------------------------------------------------ SmallVector (C38) *)
(* `run … = Ok` IS "no ledger error": the model's run stops with an error value at the first construction over a live
   element, destruction/use of a dead one, access outside the current storage, or second release of a block *)
Definition smallvec_safe : Prop :=
  forall alloc N szT K ops sp', (1 <= N)%nat ->
    SmallVecModel.spec_run ops (SmallVecModel.spec_init K) = Some sp' ->
    exists s g, SmallVecModel.run alloc N szT ops (SmallVecModel.init_slots K) SmallVecModel.led0 = SmallVecLife.Ok (s, g) /\
      (Forall (eq None) sp' ->
         SmallVecLife.nctor g = SmallVecLife.ndtor g /\
         Forall (fun b => SmallVecLife.b_live b = false) (SmallVecLife.blocks g)).

Lemma smallvec_safe_proof : smallvec_safe.
Proof.
  intros alloc N szT K ops sp' HN Hs.
  destruct (Properties_C38.C38_smallvec_lifetimes alloc N szT K ops sp' HN Hs) as (s & g & Hr & _ & Hb).
  exists s, g. split; [exact Hr|]. intros Hall. destruct (Hb Hall) as (A & B & _). split; assumption.
Qed.

(* ------------------------------------------------------------------------------------------------ ConcurrentVector (C32) *)
Definition cvec_safe : Prop :=
  forall tr max_n ops, CVecOpsProofs.fits tr max_n -> CVecModel.seq_pre max_n ops = true ->
    let L := CVecModel.run_all tr ops in
    CVecModel.cl_errs L = [] /\          (* no lifetime misuse *)
    CVecModel.cl_bad L = 0 /\            (* no access outside allocated storage *)
    CVecModel.cl_glive L = 0 /\ CVecModel.cl_gmoved L = 0 /\   (* no live element lost with its storage *)
    c_value (CVecModel.cl_cnt L) + c_copy (CVecModel.cl_cnt L) + c_move (CVecModel.cl_cnt L) = c_dtor (CVecModel.cl_cnt L).

Lemma cvec_safe_proof : cvec_safe.
Proof.
  intros tr max_n ops Hf Hp L.
  destruct (Properties_C32.C32_cvec_lifetime_balanced tr max_n ops Hf Hp) as (A & B & C & D & E).
  repeat split; assumption.
Qed.
