(* C11 -- glue: the memory-safety / leak-freedom READING of the component theorems (C15 C17 C18 C26 C32-C42 C44).
   Nothing is re-modelled and nothing is re-proved here: every lemma is a projection / repackaging of a theorem of the
   owning property's Props file, stated over that property's own model.  Modules are Required, not Imported: the
   component models reuse the names step / init / run. *)
From Coq Require Import ZArith List Bool Lia Permutation.
From DV Require Import Base.Life Base.Sched Model.C11Check.
From DV Require Props.Properties_C39 Props.Properties_C40 Props.Properties_C38 Props.Properties_C32 Props.Properties_C33
  Props.Properties_C34 Props.Properties_C35 Props.Properties_C36 Props.Properties_C37 Props.Properties_C41 Props.Properties_C42
  Props.Properties_C44 Props.Properties_C18 Props.Properties_C26 Props.Properties_C15 Props.Properties_C17.
Import ListNotations.
Local Open Scope Z_scope.

(* ------------------------------------------------------------------------------------------------ OnceFunction (C39) *)
Definition oncefn_safe : Prop :=
  forall o nv ops av aevss s evss,
    OnceFnModel.oracle_ok o -> OnceFnModel.types_ok ops = true -> NoDup (OnceFnModel.make_tags ops) ->
    OnceFnModel.arun (OnceFnModel.ainit nv) ops = Some (av, aevss) -> OnceFnModel.run o (OnceFnModel.init nv) ops = Some (s, evss) ->
    (* no double destroy / use after destroy of a callable, no double free / use after free of a spill block *)
    ok (OnceFnModel.st_led s) /\ ok (OnceFnModel.st_heap s) /\
    NoDup (OnceFnModel.destroyed (concat (map OnceFnModel.project evss))) /\
    (* construction, call and destruction happen at aligned addresses *)
    forallb (forallb OnceFnModel.ev_aligned) evss = true /\
    (* nothing alive at the end, once every owner was called or cleaned up *)
    (OnceFnModel.abandoned (concat aevss) = [] -> OnceFnModel.owned av = [] ->
       balanced (OnceFnModel.st_led s) /\ balanced (OnceFnModel.st_heap s) /\
       n_ctor (OnceFnModel.st_led s) = n_dtor (OnceFnModel.st_led s)).

Lemma oncefn_safe_proof : oncefn_safe.
Proof.
  intros o nv ops av aevss s evss Ho Ht Hn Ha Hr.
  destruct (Properties_C39.C39_once_destroy_exactly_once o nv ops av aevss s evss Ho Ht Hn Ha Hr) as (_ & Hd & Hl & Hh & _ & Hb).
  pose proof (Properties_C39.C39_once_storage_aligned o nv ops av aevss s evss Ho Ht Ha Hr) as Hal.
  repeat split; try assumption; apply Hb; assumption.
Qed.

(* ------------------------------------------------------------------------------------------------ OpResult (C40) *)
Definition opresult_safe : Prop :=
  forall nv ops s, OpResultModel.run (OpResultModel.init nv) ops = Some s ->
    ok (OpResultModel.st_led s) /\
    (* live objects are exactly the contents of engaged variables: nothing dangling, nothing orphaned *)
    (forall id, is_live (lget (OpResultModel.st_led s) id) = true ->
       exists i t, id = OpResultModel.slot i /\ OpResultModel.vget (OpResultModel.st_vars s) i = Some (Some t)) /\
    (OpResultModel.all_gone (OpResultModel.st_vars s) = true ->
       balanced (OpResultModel.st_led s) /\ n_ctor (OpResultModel.st_led s) = n_dtor (OpResultModel.st_led s)).

Lemma opresult_safe_proof : opresult_safe.
Proof.
  intros nv ops s H. destruct (Properties_C40.C40_opresult_balanced nv ops s H) as (A & _ & B & C). auto.
Qed.

(* ------------------------------------------------------------------------------------------------ SmallVector (C38) *)
(* `run … = Ok` IS "no ledger error": the model's run stops with an error value at the first construction over a live
   element, destruction/use of a dead one, access outside the current storage, or second release of a block *)
Definition smallvec_safe : Prop :=
  forall alloc N szT K ops sp', (1 <= N)%nat ->
    SmallVecModel.spec_run ops (SmallVecModel.spec_init K) = Some sp' ->
    exists s g, SmallVecModel.run alloc N szT ops (SmallVecModel.init_slots K) SmallVecModel.led0 = SmallVecLife.Ok (s, g) /\
      (Forall (eq None) sp' ->
         SmallVecLife.nctor g = SmallVecLife.ndtor g /\
         Forall (fun b => SmallVecLife.b_live b = false) (SmallVecLife.blocks g)).

Lemma smallvec_safe_proof : smallvec_safe.
Proof.
  intros alloc N szT K ops sp' HN Hs.
  destruct (Properties_C38.C38_smallvec_lifetimes alloc N szT K ops sp' HN Hs) as (s & g & Hr & _ & Hb).
  exists s, g. split; [exact Hr|]. intros Hall. destruct (Hb Hall) as (A & B & _). split; assumption.
Qed.

(* ------------------------------------------------------------------------------------------------ ConcurrentVector (C32) *)
Definition cvec_safe : Prop :=
  forall tr max_n ops, CVecOpsProofs.fits tr max_n -> CVecModel.seq_pre max_n ops = true ->
    let L := CVecModel.run_all tr ops in
    CVecModel.cl_errs L = [] /\          (* no lifetime misuse *)
    CVecModel.cl_bad L = 0 /\            (* no access outside allocated storage *)
    CVecModel.cl_glive L = 0 /\ CVecModel.cl_gmoved L = 0 /\   (* no live element lost with its storage *)
    c_value (CVecModel.cl_cnt L) + c_copy (CVecModel.cl_cnt L) + c_move (CVecModel.cl_cnt L) = c_dtor (CVecModel.cl_cnt L).

Lemma cvec_safe_proof : cvec_safe.
Proof.
  intros tr max_n ops Hf Hp L.
  destruct (Properties_C32.C32_cvec_lifetime_balanced tr max_n ops Hf Hp) as (A & B & C & D & E).
  repeat split; assumption.
Qed.

(* ------------------------------------------------------------------------------------------------ ConcurrentVector growth (C33) *)
(* all interleavings of growing threads: no position is constructed twice (no construction over a live element) and every
   construction goes into a bucket whose buffer is allocated at that moment; a published buffer pointer never changes
   (references stay valid: no dangling element pointer through growth) *)
Definition cvecgrow_safe : Prop :=
  forall strat shift, 0 <= shift -> forall progs, Forall (Forall C33Proofs.wf_op) progs ->
  forall s, reach (CVecGrowModel.gstep strat shift) (CVecGrowModel.init progs) s ->
    NoDup (map CVecGrowModel.gc_idx (CVecGrowModel.g_cells (CVecGrowModel.sh s))) /\
    (forall c, In c (CVecGrowModel.g_cells (CVecGrowModel.sh s)) -> CVecGrowModel.gc_buf c <> 0) /\
    (forall s2 k, reach (CVecGrowModel.gstep strat shift) s s2 ->
       CVecGrowModel.lookup k (CVecGrowModel.g_bufs (CVecGrowModel.sh s)) <> 0 ->
       CVecGrowModel.lookup k (CVecGrowModel.g_bufs (CVecGrowModel.sh s2)) = CVecGrowModel.lookup k (CVecGrowModel.g_bufs (CVecGrowModel.sh s))).

Lemma cvecgrow_safe_proof : cvecgrow_safe.
Proof.
  intros strat shift Hs progs Hp s Hr.
  destruct (Properties_C33.C33_no_overwrite strat shift Hs progs Hp s Hr) as (A & B).
  split; [exact A|]. split.
  - intros c Hc. exact (proj1 (B c Hc)).
  - intros s2 k Hr2 Hn. exact (Properties_C33.C33_pointers_stable strat shift Hs progs Hp s s2 k Hr Hr2 Hn).
Qed.

(* ------------------------------------------------------------------------------------------------ MPMCRingBuffer (C34) *)
Definition mpmc_safe : Prop :=
  forall n progs s, 2 <= n -> reach MpmcModel.gstep (MpmcModel.init n progs) s ->
    l_errs (MpmcModel.led s) = [] /\
    (* a consumer about to hand its slot back to the producers has already destroyed the payload *)
    (forall t th h0 v, nth_error (MpmcModel.threads s) t = Some th -> MpmcModel.tpc th = MpmcModel.PPopStoreSeq h0 v ->
       is_live (lget (MpmcModel.led s) (h0 mod MpmcModel.N s)) = false) /\
    (* ~MPMCRingBuffer at quiescence: no misuse, nothing left alive *)
    (MpmcModel.quiescent s = true -> MpmcModel.tail s < 2 ^ 62 ->
       l_errs (MpmcModel.dtor s) = [] /\ forall i, 0 <= i < MpmcModel.N s -> is_live (lget (MpmcModel.dtor s) i) = false).

Lemma mpmc_safe_proof : mpmc_safe.
Proof.
  intros n progs s Hn Hr. split; [exact (proj1 (Properties_C34.C34_lifetimes n progs s Hn Hr))|]. split.
  - intros t th h0 v Ht Hpc. exact (proj2 (Properties_C34.C34_payload_dead_before_release n progs s t th h0 v Hn Hr Ht Hpc)).
  - intros Hq Hb. exact (Properties_C34.C34_destructor_balanced n progs s Hn Hr Hq Hb).
Qed.

(* ------------------------------------------------------------------------------------------------ SPSCRingBuffer (C35) *)
Definition spsc_safe : Prop :=
  forall k p0 p1 s, Properties_C35.C35_domain k p0 p1 -> reach SpscModel.step (SpscModel.init k p0 p1) s ->
    l_errs (SpscModel.led s) = [] /\
    match SpscModel.tpc (SpscModel.th1 s) with
    | SpscModel.PPopStoreHead c v => is_live (lget (SpscModel.led s) c) = false
    | SpscModel.PQStoreHead hp cnt acc =>
        forall j, 0 <= j < cnt -> is_live (lget (SpscModel.led s) ((C35Proofs.zlen (SpscModel.popped s) + j) mod SpscModel.K s)) = false
    | _ => True
    end /\
    (C35Proofs.rl (SpscModel.tpc (SpscModel.th1 s)) = [] -> C35Proofs.wl (SpscModel.tpc (SpscModel.th0 s)) = [] ->
       l_errs (SpscModel.dtor s) = [] /\ forall i, 0 <= i < SpscModel.K s -> is_live (lget (SpscModel.dtor s) i) = false).

Lemma spsc_safe_proof : spsc_safe.
Proof.
  intros k p0 p1 s Hd Hr. split; [exact (proj1 (Properties_C35.C35_lifetimes k p0 p1 s Hd Hr))|]. split.
  - exact (Properties_C35.C35_payload_dead_before_release k p0 p1 s Hd Hr).
  - intros H1 H0. exact (Properties_C35.C35_destructor_balanced k p0 p1 s Hd Hr H1 H0).
Qed.

(* ------------------------------------------------------------------------------------------------ ChaseLevDeque (C36) *)
(* elements are trivially copyable: the only memory-safety content is that the live window [top, bottom) never exceeds the
   buffer, so `index & mask` never aliases two live entries *)
Definition chaselev_safe : Prop :=
  forall cp i0 oprog tprogs s, ChaseLevLemmas.pow2cap cp -> C36Proofs.wf_thieves tprogs ->
    reach ChaseLevModel.step (ChaseLevModel.init cp i0 oprog tprogs) s ->
    ChaseLevModel.bot s - ChaseLevModel.top s <= ChaseLevModel.cap s /\ ChaseLevModel.top s <= ChaseLevModel.bot s + 1.

Lemma chaselev_safe_proof : chaselev_safe.
Proof.
  intros cp i0 oprog tprogs s Hc Hw Hr. exact (proj2 (Properties_C36.C36_cl_bounded cp i0 oprog tprogs s Hc Hw Hr)).
Qed.

(* ------------------------------------------------------------------------------------------------ ConcurrentObjectArena (C37) *)
Definition arena_safe : Prop :=
  (* concurrent grow_by: no interleaving reads a buffer-table entry that was never written *)
  (forall a0 nid deltas s, C37Proofs.arena_wf a0 -> Forall (fun d => 0 <= d) deltas ->
     reach ArenaModel.step (ArenaModel.init_state a0 nid deltas) s -> ArenaModel.c_ub s = false) /\
  (* copy constructor: defined on every arena (copy_ctor = None is the model's "indexes past the table / reads an unwritten
     entry"), and deep: the copy owns fresh buffers only, so the two destructors free disjoint storage *)
  (forall a nid, C37Proofs.arena_ok a ->
     exists c n', ArenaModel.copy_ctor a nid = Some (c, n') /\
       (forall b bf, ArenaModel.get_buf c b = Some bf -> (nid <= ArenaModel.bid bf < n')%nat) /\ C37Proofs.arena_ok c).

Lemma arena_safe_proof : arena_safe.
Proof.
  split.
  - exact Properties_C37.C37_growby_no_uninit_read.
  - intros a nid Ha. destruct (Properties_C37.C37_copy_equal a nid Ha) as (c & n' & H1 & _ & _ & _ & _ & _ & _ & H8 & H9).
    exists c, n'. split; [exact H1|]. split; [exact H8|exact H9].
Qed.

(* ------------------------------------------------------------------------------------------------ SmallBufferAllocator (C41) *)
Definition sba_queue_spec (Q : Type) (qenq : Q -> list Z -> Q) (qdeq : Q -> nat -> list Z -> list Z * Q) (qcont : Q -> list Z) : Prop :=
  (forall q l b, SmallBufLemmas.cnt b (qcont (qenq q l)) = (SmallBufLemmas.cnt b (qcont q) + SmallBufLemmas.cnt b l)%nat) /\
  (forall q n h l q', qdeq q n h = (l, q') ->
     forall b, SmallBufLemmas.cnt b (qcont q) = (SmallBufLemmas.cnt b l + SmallBufLemmas.cnt b (qcont q'))%nat).

Definition smallbuf_safe : Prop :=
  (* ownership, all interleavings, any central container meeting the multiset specification: a chunk is in exactly one
     place (user / central store / a thread cache), and alloc never returns a chunk that is still live (no double hand-out,
     hence no use of a chunk after it was handed to somebody else) *)
  (forall Q qenq qdeq qcont c, sba_queue_spec Q qenq qdeq qcont -> 0 < SmallBufModel.ideal c <= SmallBufModel.pm c ->
   forall (q0 : Q) progs s, qcont q0 = [] ->
     reach (SmallBufModel.step Q qenq qdeq c) (SmallBufModel.init Q q0 progs) s ->
     NoDup (SmallBufModel.all_blocks Q qcont c s) /\
     (forall t ch s' ch' site b, SmallBufModel.step Q qenq qdeq c s t ch = Some (s', ch', site) ->
        SmallBufModel.user s' = SmallBufModel.user s ++ [b] -> ~ In b (SmallBufModel.user s))) /\
  (* carving: every chunk lies inside the slab it was carved from, is aligned to the chunk size, chunks are byte-disjoint *)
  (forall c chunk (base : Z -> Z), 0 < chunk -> 0 < SmallBufModel.pm c -> SmallBufModel.pm c * chunk <= SmallBufModel.mbytes c ->
     (forall k, base k mod chunk = 0) ->
     (forall k k', k <> k' -> base k + SmallBufModel.mbytes c <= base k' \/ base k' + SmallBufModel.mbytes c <= base k) ->
     (forall b, C41Proofs.addr c chunk base b mod chunk = 0) /\
     (forall b, base (b / SmallBufModel.pm c) <= C41Proofs.addr c chunk base b /\
                C41Proofs.addr c chunk base b + chunk <= base (b / SmallBufModel.pm c) + SmallBufModel.mbytes c) /\
     (forall b b', b <> b' -> C41Proofs.addr c chunk base b + chunk <= C41Proofs.addr c chunk base b' \/
                              C41Proofs.addr c chunk base b' + chunk <= C41Proofs.addr c chunk base b)).

Lemma smallbuf_safe_proof : smallbuf_safe.
Proof.
  split.
  - intros Q qenq qdeq qcont c (He & Hd) Hc q0 progs s Hq Hr. split.
    + exact (Properties_C41.C41_blocks_exclusive Q qenq qdeq qcont c He Hd Hc q0 progs s Hq Hr).
    + intros t ch s' ch' site b Hs Hu.
      exact (proj1 (Properties_C41.C41_no_reissue_before_dealloc Q qenq qdeq qcont c He Hd Hc q0 progs s t ch s' ch' site b Hq Hr Hs Hu)).
  - exact Properties_C41.C41_blocks_sized_aligned.
Qed.

(* ------------------------------------------------------------------------------------------------ PoolAllocator (C42) *)
Definition poolalloc_safe : Prop :=
  forall cs asz, 1 <= cs <= asz -> forall allocf : list Z -> Z,
  (forall live b, In b live -> allocf live + asz <= b \/ b + asz <= allocf live) ->
  forall ops r, PoolAllocModel.run cs asz allocf ops PoolAllocModel.rs_init = Some r ->
    (* every chunk (outstanding or free) lies inside a slab obtained from allocFunc_ *)
    (forall p, In p (PoolAllocModel.rs_out r ++ PoolAllocModel.pa_chunks (PoolAllocModel.rs_pa r)) ->
       C42Proofs.in_slab cs asz allocf (PoolAllocModel.rs_pa r) p) /\
    (* no chunk is handed out while outstanding *)
    NoDup (PoolAllocModel.rs_out r) /\
    (forall r' p c, PoolAllocModel.step_op cs asz allocf r PoolAllocModel.Alloc = Some (r', PoolAllocModel.EvAlloc p c) ->
       ~ In p (PoolAllocModel.rs_out r)) /\
    (* the destructor frees each slab exactly once: no leak, no double free *)
    Permutation (PoolAllocModel.dtor_calls (PoolAllocModel.rs_pa r)) (PoolAllocModel.pa_slabs (PoolAllocModel.rs_pa r)) /\
    NoDup (PoolAllocModel.pa_slabs (PoolAllocModel.rs_pa r)).

Lemma poolalloc_safe_proof : poolalloc_safe.
Proof.
  intros cs asz Hc allocf Ha ops r Hr.
  destruct (Properties_C42.C42_chunks_within_slabs cs asz Hc allocf Ha ops r Hr) as (A & _).
  destruct (Properties_C42.C42_no_double_handout cs asz Hc allocf Ha ops r Hr) as (B & C).
  destruct (Properties_C42.C42_dtor_frees_each_slab_once cs asz Hc allocf Ha ops r Hr) as (D & E & _).
  split; [exact A|]. split; [exact B|]. split; [|split; assumption].
  intros r' p c H. exact (proj1 (C r' p c H)).
Qed.

(* ------------------------------------------------------------------------------------------------ Future refcount (C18) *)
Definition future_safe : Prop :=
  forall B c ds s, C18Proofs.wf_init B c ds -> reach FutureModel.step (FutureModel.init c ds) s ->
    (* no step touches the shared state after the dealloc step; dealloc exactly when the count reaches zero; a thread
       inside an operation holds a counted reference and the state is not freed under it *)
    FutureModel.bad_touch (FutureModel.sh s) = false /\
    FutureModel.freed (FutureModel.sh s) = (if FutureModel.refc (FutureModel.sh s) =? 0 then 1 else 0) /\
    (forall th, In th (FutureModel.threads s) -> FutureModel.tpc th <> FutureModel.PStart -> FutureModel.tpc th <> FutureModel.PDone ->
       FutureModel.freed (FutureModel.sh s) = 0).

Lemma future_safe_proof : future_safe.
Proof.
  intros B c ds s Hw Hr. destruct (Properties_C18.C18_refcount_safe B c ds s Hw Hr) as (A & F & _ & T).
  split; [exact A|]. split; [exact F|]. intros th Hin H1 H2. destruct (T th Hin) as (_ & _ & X). exact (proj2 (X H1 H2)).
Qed.

(* ------------------------------------------------------------------------------------------------ alignedMalloc / alignedFree (C44) *)
Definition alignedmalloc_safe : Prop :=
  forall k p bytes m, 0 <= k <= 63 -> 0 < p -> (8 | p) -> 0 <= bytes -> p + (bytes + Z.max (2 ^ k) 8) < 2 ^ 64 ->
    let a := 2 ^ k in
    let '(m', ret) := BitMathModel.alignedMalloc_m m p a in
    (a | ret) /\
    (* the recovery word and the user's bytes lie inside the block [p, p + request) that ::malloc returned *)
    p + 8 <= ret /\ ret + bytes <= p + BitMathModel.am_request bytes a /\
    (* alignedFree passes exactly malloc's pointer to ::free, whatever the user wrote into his bytes *)
    (forall ws, (forall x b, In (x, b) ws -> ret <= x < ret + bytes) ->
       BitMathModel.alignedFree_m (BitMathProofs.write_all m' ws) ret = Some p).

Lemma alignedmalloc_safe_proof : alignedmalloc_safe.
Proof.
  intros k p bytes m Hk Hp H8 Hb Hfit a.
  pose proof (Properties_C44.C44_alignedMalloc_aligned k p bytes m Hk Hp H8 Hb Hfit) as H. cbv zeta in H. subst a.
  destruct (BitMathModel.alignedMalloc_m m p (2 ^ k)) as [m' ret].
  destruct H as (_ & A & B & C & _ & _ & D). repeat split; assumption.
Qed.

(* ------------------------------------------------------------------------------------------------ TimedTask teardown (C26 d) *)
(* full strength: once ~TimedTask has returned no later step accesses the freed closure.  FALSE of the code (C26's finding
   dtor-passes-inprogress-spin-while-func-call-in-flight); what holds is the statement on the complement of its domain *)
Definition timedtask_teardown_full : Prop :=
  forall N npool rs prog s s', 0 <= N < 2 ^ 32 -> reach TimedTaskModel.step (TimedTaskModel.init N npool rs prog) s ->
    TimedTaskModel.dtor_ret (TimedTaskModel.g s) = true -> reach TimedTaskModel.step s s' ->
    TimedTaskModel.uaf (TimedTaskModel.g s') = 0.

Definition timedtask_teardown_except : Prop :=
  forall N npool rs prog s s', 0 <= N < 2 ^ 32 -> reach TimedTaskModel.step (TimedTaskModel.init N npool rs prog) s ->
    TimedTaskModel.up s = TimedTaskModel.UDtorSpin -> TimedTaskModel.inprog (TimedTaskModel.m s) = 0 ->
    C26Proofs.holds_ticket (TimedTaskModel.sp s) = false -> reach TimedTaskModel.step s s' ->
    (* from the destructor's successful inProgress load on: no access to the closure, no call of the emptied func *)
    TimedTaskModel.acc (TimedTaskModel.g s') = TimedTaskModel.acc (TimedTaskModel.g s) /\
    TimedTaskModel.badcall (TimedTaskModel.g s') = TimedTaskModel.badcall (TimedTaskModel.g s).

Lemma timedtask_teardown_except_proof : timedtask_teardown_except.
Proof.
  intros N npool rs prog s s' HN Hr Hu Hi Hh Hr2.
  pose proof (Properties_C26.C26_holds_except_dtor N npool rs prog s s' HN Hr Hu Hi Hh Hr2) as H.
  unfold C26Proofs.touches in H. inversion H. split; reflexivity.
Qed.

Lemma timedtask_teardown_refuted : ~ timedtask_teardown_full.
Proof.
  intros F. destruct Properties_C26.C26_refuted_dtor as (s & s' & Hr & Hd & _ & Hr2 & _ & Hu).
  assert (HN : 0 <= 1 < 2 ^ 32) by (split; [discriminate | reflexivity]).
  pose proof (F 1 1%nat [] [TimedTaskModel.UDtor] s s' HN Hr Hd Hr2) as E. rewrite E in Hu. discriminate Hu.
Qed.

(* a second use-after-free of the closure that does not involve the destructor (C26 observation): after an invocation
   returned false the wrapper's func = {} frees the closure while the scheduler role is still executing it *)
Definition timedtask_false_return_uaf : Prop :=
  exists s, reach TimedTaskModel.step (TimedTaskModel.init 2 2 [false] []) s /\
            TimedTaskModel.dtor_ret (TimedTaskModel.g s) = false /\ 0 < TimedTaskModel.uaf (TimedTaskModel.g s).

Lemma timedtask_false_return_uaf_proof : timedtask_false_return_uaf.
Proof.
  destruct Properties_C26.C26_observed_false_return_frees_functor_in_use as (s & A & B & _ & C). exists s. auto.
Qed.

(* ------------------------------------------------------------------------------------------------ chunk arithmetic (C15, C17) *)
Definition in_ssize (z : Z) : Prop := - 2 ^ 63 <= z < 2 ^ 63.

(* staticChunkSize(ssize_t items, ssize_t chunks) as regenerated from the source: in the domain of C17 (items >= 0,
   chunks >= 1, items + chunks representable) the divisor is non-zero and every intermediate value of the signed
   arithmetic is representable: no division by zero, no signed overflow.  for_each never passes chunks = 0 (C15). *)
Definition chunk_arith_safe : Prop :=
  (forall c, ForEachModel.fe_numThreads c <> 0) /\
  (forall items chunks, 0 <= items -> 0 < chunks -> items + chunks < 2 ^ 63 ->
     let ceil := Z.quot (items + chunks - 1) chunks in
     let numLeft := ceil * chunks - items in
     GenChunk.gen_staticChunkSize items chunks = (chunks - numLeft, ceil) /\
     chunks <> 0 /\
     in_ssize (items + chunks) /\ in_ssize (items + chunks - 1) /\ in_ssize ceil /\ in_ssize (ceil * chunks) /\
     in_ssize numLeft /\ in_ssize (chunks - numLeft)).

Lemma chunk_arith_safe_proof : chunk_arith_safe.
Proof.
  split.
  - intros c. pose proof (Properties_C15.C15_thread_count c) as H. lia.
  - intros items chunks Hi Hc Hf ceil numLeft.
    split; [reflexivity|]. split; [lia|].
    pose proof (Properties_C17.C17_staticChunkSize items chunks Hi Hc) as H.
    unfold GenChunk.gen_staticChunkSize in H. fold ceil in H. fold numLeft in H.
    destruct H as ((T0 & T1) & C0 & _ & _ & _ & C1).
    assert (Hq : ceil = (items + chunks - 1) / chunks) by (unfold ceil; apply Z.quot_div_nonneg; lia).
    assert (Hm : ceil * chunks <= items + chunks - 1) by (rewrite Hq, Z.mul_comm; apply Z.mul_div_le; lia).
    assert (Hm0 : 0 <= ceil * chunks) by (apply Z.mul_nonneg_nonneg; lia).
    assert (P : 2 ^ 63 = 9223372036854775808) by reflexivity.
    unfold in_ssize. rewrite P in *. repeat split; lia.
Qed.

(* ------------------------------------------------------------------------------------------------ the sanitizer judge *)
Lemma judge_san_clean_iff r : judge_san r = 0 <-> snd (fst r) = 0.
Proof.
  destruct r as [[h k] mask]. unfold judge_san, known_c26_dtor, known_c26_false. cbn [fst snd].
  destruct (k =? 0) eqn:E.
  - apply Z.eqb_eq in E. tauto.
  - apply Z.eqb_neq in E. split; [|tauto].
    destruct ((h =? H_TIMEDTASK) && (k =? K_UAF) && Z.testbit mask 1); [discriminate|].
    destruct ((h =? H_TIMEDTASK) && (k =? K_UAF) && Z.testbit mask 3); discriminate.
Qed.

(* the suppression is never wider than C26's domains: a record judged "known" is a use-after-free of a TimedTask case that
   C26's own judge placed in the corresponding finding domain *)
Lemma judge_san_known_sound r : judge_san r = 4 \/ judge_san r = 5 ->
  fst (fst r) = H_TIMEDTASK /\ snd (fst r) = K_UAF /\ (Z.testbit (snd r) 1 = true \/ Z.testbit (snd r) 3 = true).
Proof.
  destruct r as [[h k] mask]. unfold judge_san, known_c26_dtor, known_c26_false. cbn [fst snd].
  destruct (k =? 0); [intros [H|H]; discriminate|].
  destruct (h =? H_TIMEDTASK) eqn:Eh; cbn [andb]; [|intros [H|H]; discriminate].
  destruct (k =? K_UAF) eqn:Ek; cbn [andb]; [|intros [H|H]; discriminate].
  apply Z.eqb_eq in Eh, Ek.
  destruct (Z.testbit mask 1) eqn:E1; [tauto|].
  destruct (Z.testbit mask 3) eqn:E2; [tauto|]. intros [H|H]; discriminate.
Qed.

(* ------------------------------------------------------------------------------------------------ roll-up *)
(* the memory-safety / leak-freedom statement attached to each covered mechanism *)
Definition C11_safe (m : mechanism) : Prop :=
  match m with
  | MOnceFunction => oncefn_safe
  | MOpResult => opresult_safe
  | MSmallVector => smallvec_safe
  | MConcurrentVector => cvec_safe
  | MConcurrentVectorGrowth => cvecgrow_safe
  | MMpmcRing => mpmc_safe
  | MSpscRing => spsc_safe
  | MChaseLevDeque => chaselev_safe
  | MObjectArena => arena_safe
  | MSmallBufferAllocator => smallbuf_safe
  | MPoolAllocator => poolalloc_safe
  | MAlignedMalloc => alignedmalloc_safe
  | MFutureRefcount => future_safe
  | MTimedTaskTeardown => timedtask_teardown_except          (* NOT the full statement: see timedtask_teardown_refuted *)
  | MChunkArithmetic => chunk_arith_safe
  end.

Lemma all_mechanisms_exhaustive : forall m, In m all_mechanisms.
Proof. intros m. destruct m; cbn; tauto. Qed.

Lemma partial_proof : forall m, C11_safe m.
Proof.
  intros m. destruct m; cbn [C11_safe].
  - exact oncefn_safe_proof.
  - exact opresult_safe_proof.
  - exact smallvec_safe_proof.
  - exact cvec_safe_proof.
  - exact cvecgrow_safe_proof.
  - exact mpmc_safe_proof.
  - exact spsc_safe_proof.
  - exact chaselev_safe_proof.
  - exact arena_safe_proof.
  - exact smallbuf_safe_proof.
  - exact poolalloc_safe_proof.
  - exact alignedmalloc_safe_proof.
  - exact future_safe_proof.
  - exact timedtask_teardown_except_proof.
  - exact chunk_arith_safe_proof.
Qed.

(* every modelled mechanism at full strength, i.e. with TimedTask teardown NOT restricted to the complement of C26's finding *)
Definition modelled_full : Prop := (forall m, C11_safe m) /\ timedtask_teardown_full.

Lemma modelled_full_refuted : ~ modelled_full.
Proof. intros (_ & F). exact (timedtask_teardown_refuted F). Qed.
