(* Invariants of Model/TaskSetModel.v over ALL interleavings of its fine-grained steps (step1), any number of threads,
   sets and tasks, any programs, any dequeue oracle.  Shared by C02, C04, C05, C47. *)
From Coq Require Import ZArith List Bool Lia.
From DV Require Import Base.MachInt Base.Sched Model.TaskSetModel.
Import ListNotations.
Local Open Scope Z_scope.

(* ---------- sums over stacks and threads ---------- *)
Fixpoint fsum (phi : frame -> Z) (l : list frame) : Z := match l with [] => 0 | f :: r => phi f + fsum phi r end.
Fixpoint tsum (phi : frame -> Z) (ths : list thread) : Z := match ths with [] => 0 | th :: r => fsum phi (stk th) + tsum phi r end.

Lemma fsum_app phi a b : fsum phi (a ++ b) = fsum phi a + fsum phi b.
Proof. induction a as [|x a IH]; cbn; [reflexivity | rewrite IH; lia]. Qed.

Lemma tsum_set_nth phi ths t th th' :
  nth_error ths t = Some th -> tsum phi (set_nth ths t th') = tsum phi ths - fsum phi (stk th) + fsum phi (stk th').
Proof.
  revert t; induction ths as [|a ths IH]; intros [|t] H; cbn in *; try discriminate.
  - injection H as ->. lia.
  - rewrite (IH _ H). lia.
Qed.

Lemma fsum_nonneg phi l : (forall f, 0 <= phi f) -> 0 <= fsum phi l.
Proof. intros H. induction l as [|f l IH]; cbn; [lia | specialize (H f); lia]. Qed.
Lemma tsum_nonneg phi ths : (forall f, 0 <= phi f) -> 0 <= tsum phi ths.
Proof. intros H. induction ths as [|a l IH]; cbn; [lia | pose proof (fsum_nonneg phi (stk a) H); lia]. Qed.
Lemma fsum_in_le phi l f : (forall g, 0 <= phi g) -> In f l -> phi f <= fsum phi l.
Proof.
  intros H. induction l as [|a l IH]; intros I; [contradiction|]. cbn. destruct I as [->|I].
  - pose proof (fsum_nonneg phi l H). lia.
  - specialize (IH I). specialize (H a). lia.
Qed.
Lemma tsum_in_le phi ths th : (forall g, 0 <= phi g) -> In th ths -> fsum phi (stk th) <= tsum phi ths.
Proof.
  intros H. induction ths as [|a l IH]; intros I; [contradiction|]. cbn. destruct I as [->|I].
  - pose proof (tsum_nonneg phi l H). lia.
  - specialize (IH I). pose proof (fsum_nonneg phi (stk a) H). lia.
Qed.

Lemma nth_error_set_nth_same {A} (l : list A) t x old : nth_error l t = Some old -> nth_error (set_nth l t x) t = Some x.
Proof. revert t; induction l as [|a l IH]; intros [|t] H; cbn in *; try discriminate; [reflexivity | eapply IH; eauto]. Qed.
Lemma nth_error_set_nth_other {A} (l : list A) t u x : t <> u -> nth_error (set_nth l t x) u = nth_error l u.
Proof. revert t u; induction l as [|a l IH]; intros [|t] [|u] H; cbn; try reflexivity; try congruence. apply IH. congruence. Qed.
Lemma in_set_nth {A} (l : list A) t x y : In y (set_nth l t x) -> y = x \/ In y l.
Proof.
  revert t; induction l as [|a l IH]; intros t H; [destruct t; contradiction|].
  destruct t as [|t]; cbn in H.
  - destruct H as [<-|H]; [left; reflexivity | right; right; exact H].
  - destruct H as [<-|H]; [right; left; reflexivity|]. destruct (IH _ H) as [->|H']; [left; reflexivity | right; right; exact H'].
Qed.

(* ---------- inversion of a fine step ---------- *)
Lemma step1_inv s t ch s' ch' site :
  step1 s t ch = Some (s', ch', site) ->
  exists th f rest sh' l e,
    nth_error (threads s) t = Some th /\ stk th = f :: rest /\
    let c := if sited (cfg (sh s)) f then clock (sh s) + 1 else clock (sh s) in
    step_top (sh s) th f rest c = Some (sh', l, e) /\
    s' = ST (sh_clock sh' c) (set_nth (threads s) t (TH l (e ++ res th) (tpool th) (dep0 th))).
Proof.
  unfold step1. intros H.
  destruct (nth_error (threads s) t) as [th|] eqn:N; [|discriminate].
  destruct (stk th) as [|f rest] eqn:K; [discriminate|].
  destruct (step_top (sh s) th f rest _) as [[[sh' l] e]|] eqn:E; [|discriminate].
  injection H as <- _ _. exists th, f, rest, sh', l, e. repeat split; auto.
Qed.

(* ---------- the queue ---------- *)
Definition qcount (T : nat) (q : list qtask) : Z := Z.of_nat (length (filter (fun x => Nat.eqb T (qset x)) q)).
Lemma qcount_nonneg T q : 0 <= qcount T q. Proof. unfold qcount. lia. Qed.
Lemma qcount_nil T : qcount T [] = 0. Proof. reflexivity. Qed.
Lemma qcount_app T a b : qcount T (a ++ b) = qcount T a + qcount T b.
Proof. unfold qcount. rewrite filter_app, app_length. lia. Qed.
Lemma qcount_cons T x q : qcount T (x :: q) = (if Nat.eqb T (qset x) then 1 else 0) + qcount T q.
Proof. unfold qcount. cbn. destruct (Nat.eqb T (qset x)); cbn [length]; lia. Qed.
Lemma qcount_mk_tasks T T0 first m b : qcount T (mk_tasks T0 first m b) = if Nat.eqb T T0 then Z.of_nat m else 0.
Proof.
  unfold mk_tasks, qcount. generalize 0%nat as st. induction m as [|m IH]; intros st; cbn [seq map filter].
  - destruct (Nat.eqb T T0); reflexivity.
  - cbn [qset]. specialize (IH (S st)). destruct (Nat.eqb T T0); cbn [length]; lia.
Qed.
Lemma take_first_count p q x q' T :
  take_first p q = Some (x, q') -> qcount T q = (if Nat.eqb T (qset x) then 1 else 0) + qcount T q'.
Proof.
  revert q'; induction q as [|a q IH]; intros q' H; cbn in H; [discriminate|].
  destruct (p a).
  - injection H as <- <-. apply qcount_cons.
  - destruct (take_first p q) as [[y r']|] eqn:E; [|discriminate]. injection H as <- <-.
    rewrite !qcount_cons, (IH _ eq_refl). lia.
Qed.

(* what a dequeue changes: the queue loses exactly the returned task (and a hint is consumed) *)
Record deq_spec (s s' : shared) (x : qtask) : Prop := {
  dq_sets : sets s' = sets s; dq_cfg : cfg s' = cfg s; dq_wr : wr s' = wr s; dq_nthr : nthr s' = nthr s; dq_plf : plf s' = plf s;
  dq_clock : clock s' = clock s; dq_nextid : nextid s' = nextid s; dq_ledger : ledger s' = ledger s; dq_deliv : delivered s' = delivered s;
  dq_count : forall T, qcount T (queue s) = (if Nat.eqb T (qset x) then 1 else 0) + qcount T (queue s') }.

Lemma deq_any_spec s x s' : deq_any s = Some (x, s') -> deq_spec s s' x.
Proof.
  unfold deq_any. destruct (queue s) as [|a r] eqn:Q; [discriminate|].
  destruct (match hints s with [] => (-64, []) | h :: hs => (h, hs) end) as [h hs].
  set (pick := if 0 <=? h then _ else _).
  destruct pick as [[y q']|] eqn:P; intros H; injection H as <- <-.
  - constructor; try reflexivity. intros T. cbn. rewrite Q. unfold pick in P.
    destruct (0 <=? h); [eapply take_first_count; exact P|].
    destruct (-64 <? h); [eapply take_first_count; exact P | discriminate].
  - constructor; try reflexivity. intros T. cbn. rewrite Q. apply qcount_cons.
Qed.
Lemma deq_tok_spec s T0 x s' : deq_tok s T0 = Some (x, s') -> deq_spec s s' x.
Proof.
  unfold deq_tok. destruct (take_first _ (queue s)) as [[y q']|] eqn:P; [|discriminate]. intros H; injection H as <- <-.
  constructor; try reflexivity. intros T. cbn. eapply take_first_count; exact P.
Qed.

Lemma pool_chunk_le cnt n room : (pool_chunk cnt n room <= cnt)%nat.
Proof. unfold pool_chunk. apply Nat.le_min_l. Qed.
Global Opaque pool_chunk.

(* ---------- dispatch ---------- *)
Definition plain_frame (f : frame) : Prop :=
  match f with
  | FPkgEnq _ _ _ _ | FWrap _ _ _ _ | FBulkEnq _ _ _ _ _ _ _ | FPoolBulk _ _ _ _ | FInl _ _ _ _ | FTsOut _ _ _ _ | FRawPt _ _ _ _ _ _ | FBulkOut _ _ _ _ _ _ _
  | FTestMove _ _ | FTestReset _ _ _ _ | FRawRun _ _ _ => False
  | _ => True
  end.
Lemma dispatch_spec s o c s' fr e :
  dispatch s o c = (s', fr, e) ->
  sets s' = sets s /\ cfg s' = cfg s /\ queue s' = queue s /\ wr s' = wr s /\ nthr s' = nthr s /\ plf s' = plf s /\ clock s' = clock s /\
  ledger s' = ledger s /\ delivered s' = delivered s /\ nextid s <= nextid s' /\ Forall plain_frame fr.
Proof.
  destruct o; cbn [dispatch]; intros H.
  - destruct force; [|destruct (concurrent (cfg s T))]; injection H as <- <- <-; cbn; repeat split; try lia; repeat constructor.
  - destruct n; injection H as <- <- <-; cbn -[Z.of_nat]; repeat split; try lia; repeat constructor.
  - injection H as <- <- <-. repeat split; try lia. destruct (concurrent (cfg s T)); repeat constructor.
  - injection H as <- <- <-. repeat split; try lia. destruct (concurrent (cfg s T)); repeat constructor.
  - injection H as <- <- <-. repeat split; try lia. repeat constructor.
  - injection H as <- <- <-. repeat split; try lia. repeat constructor.
  - injection H as <- <- <-. cbn. repeat split; try lia. repeat constructor.
Qed.

(* ============================================================================================================
   C02: outstanding(T) = #queued tasks of T + in-flight contributions of the frames
   ============================================================================================================ *)
Definition ind (T T0 : nat) : Z := if Nat.eqb T T0 then 1 else 0.
Definition contrib (T : nat) (f : frame) : Z :=
  match f with
  | FPkgEnq T0 _ _ _ => ind T T0
  | FWrap T0 _ _ _ => ind T T0
  | FBulkEnq T0 _ _ _ m _ _ => if Nat.eqb T T0 then Z.of_nat m else 0
  | FPoolBulk T0 _ cnt _ => if Nat.eqb T T0 then Z.of_nat cnt else 0
  | _ => 0
  end.
Lemma contrib_nonneg T f : 0 <= contrib T f.
Proof. destruct f; cbn; unfold ind; try lia; destruct (Nat.eqb T T0); lia. Qed.
Lemma contrib_plain T f : plain_frame f -> contrib T f = 0.
Proof. destruct f; cbn; intros H; try reflexivity; contradiction. Qed.
Lemma fsum_plain T l : Forall plain_frame l -> fsum (contrib T) l = 0.
Proof. induction 1 as [|f l H _ IH]; cbn; [reflexivity | rewrite (contrib_plain _ _ H), IH; reflexivity]. Qed.

Definition Counts (s : state) : Prop :=
  forall T, outst (sets (sh s) T) = qcount T (queue (sh s)) + tsum (contrib T) (threads s).

Lemma outst_upd s T0 v T : outst (upd s T0 v T) = if Nat.eqb T T0 then outst v else outst (s T).
Proof. unfold upd. destruct (Nat.eqb T T0); reflexivity. Qed.

Tactic Notation "inv_ok" hyp(H) := first [ injection H as <- <- <- | discriminate H ].

(* destruct the scrutinee of the first if/match in hypothesis H *)
Tactic Notation "split_hyp" hyp(H) :=
  match type of H with
  | context [if ?c then _ else _] => destruct c eqn:?
  | context [match ?x with _ => _ end] => destruct x eqn:?
  end.

Lemma exc_step_counts s T0 st c s' nx T : exc_step s T0 st c = (s', nx) -> outst (sets s' T) = outst (sets s T) /\ queue s' = queue s.
Proof.
  unfold exc_step. destruct st; intros H; try (injection H as <- _; split; reflexivity).
  - destruct (guard (sets s T0) =? 0); injection H as <- _; cbn; [|split; reflexivity]. rewrite outst_upd. destruct (Nat.eqb_spec T T0) as [->|]; split; reflexivity.
  - injection H as <- _; cbn. rewrite outst_upd. destruct (Nat.eqb_spec T T0) as [->|]; split; reflexivity.
  - injection H as <- _; cbn. rewrite outst_upd. destruct (Nat.eqb_spec T T0) as [->|]; split; reflexivity.
  - injection H as <- _; cbn. rewrite outst_upd. destruct (Nat.eqb_spec T T0) as [->|]; split; reflexivity.
Qed.

Ltac fin_counts T :=
  cbn -[Z.of_nat Z.add Z.sub Z.mul qcount Nat.eqb Nat.min Nat.sub]; unfold ind;
  rewrite ?outst_upd, ?fsum_app, ?qcount_app, ?qcount_cons, ?qcount_mk_tasks, ?qcount_nil;
  cbn -[Z.of_nat Z.add Z.sub Z.mul qcount Nat.eqb Nat.min Nat.sub]; unfold ind;
  repeat match goal with |- context [Nat.eqb T ?x] => let E := fresh "E" in destruct (Nat.eqb_spec T x) as [E|E]; [try rewrite <- E in *|] end;
  cbn -[Z.of_nat Z.add Z.sub Z.mul qcount Nat.min Nat.sub];
  lia.

Lemma step_top_counts s th f rest c s' l e T :
  step_top s th f rest c = Some (s', l, e) ->
  outst (sets s' T) - outst (sets s T) = qcount T (queue s') - qcount T (queue s) + fsum (contrib T) l - fsum (contrib T) (f :: rest).
Proof.
  intros H. destruct f; cbn [step_top] in H.
  - (* FStart *) inv_ok H. fin_counts T.
  - (* FTop *) destruct ops as [|o r]; [inv_ok H; fin_counts T|].
    destruct (dispatch s o c) as [[s1 fr] e1] eqn:D. inv_ok H. apply dispatch_spec in D. destruct D as (-> & _ & -> & _ & _ & _ & _ & _ & _ & _ & F).
    rewrite fsum_app, (fsum_plain _ _ F). cbn. lia.
  - (* FBody *) destruct ops as [|o r]; [inv_ok H; fin_counts T|].
    destruct (dispatch s o c) as [[s1 fr] e1] eqn:D. inv_ok H. apply dispatch_spec in D. destruct D as (-> & _ & -> & _ & _ & _ & _ & _ & _ & _ & F).
    rewrite fsum_app, (fsum_plain _ _ F). cbn. lia.
  - (* FRet *) inv_ok H. fin_counts T.
  - (* FThrow *) destruct rest as [|g r]; [inv_ok H; fin_counts T|].
    destruct g; first [ inv_ok H; fin_counts T | split_hyp H; inv_ok H; fin_counts T ].
  - (* FAbort *) discriminate.
  - (* FTsCanc *) split_hyp H; inv_ok H; fin_counts T.
  - split_hyp H; inv_ok H; fin_counts T.
  - split_hyp H; inv_ok H; fin_counts T.
  - destruct second; split_hyp H; inv_ok H; fin_counts T.
  - (* FCsPool *) split_hyp H; inv_ok H; fin_counts T.
  - inv_ok H; fin_counts T.
  - inv_ok H; fin_counts T.
  - (* FPkgInc *) inv_ok H; fin_counts T.
  - (* FPkgEnq *) split_hyp H; inv_ok H; fin_counts T.
  - (* FWrap *) destruct st.
    + split_hyp H; inv_ok H; fin_counts T.
    + inv_ok H; fin_counts T.
    + inv_ok H; fin_counts T.
    + destruct (exc_step s T0 (WExcCas e0) c) as [s1 nx] eqn:X. inv_ok H. destruct (exc_step_counts _ _ _ _ _ _ T X) as [-> ->]. fin_counts T.
    + destruct (exc_step s T0 (WExcWrite e0) c) as [s1 nx] eqn:X. inv_ok H. destruct (exc_step_counts _ _ _ _ _ _ T X) as [-> ->]. fin_counts T.
    + destruct (exc_step s T0 WExcSet c) as [s1 nx] eqn:X. inv_ok H. destruct (exc_step_counts _ _ _ _ _ _ T X) as [-> ->]. fin_counts T.
    + destruct (exc_step s T0 WExcCancel c) as [s1 nx] eqn:X. inv_ok H. destruct (exc_step_counts _ _ _ _ _ _ T X) as [-> ->]. fin_counts T.
    + inv_ok H; fin_counts T.
  - (* FExecNext *) inv_ok H; fin_counts T.
  - (* FBulkStart *) split_hyp H; [|split_hyp H]; inv_ok H; fin_counts T.
  - split_hyp H; inv_ok H; fin_counts T.
  - inv_ok H; fin_counts T.
  - split_hyp H; inv_ok H; fin_counts T.
  - (* FBulkCanc *) split_hyp H; [|split_hyp H]; inv_ok H; fin_counts T.
  - (* FBulkOut *) split_hyp H; inv_ok H; fin_counts T.
  - (* FBulkInc *) inv_ok H; fin_counts T.
  - (* FBulkEnq *) split_hyp H; inv_ok H; fin_counts T.
  - (* FPoolBulk *) destruct (Nat.eqb_spec cnt 0) as [->|NZ]; [inv_ok H; fin_counts T|].
    split_hyp H; inv_ok H.
    + fin_counts T.
    + pose proof (pool_chunk_le cnt (nthr s) (plf s - wr s)). fin_counts T.
  - (* FInl *) destruct st.
    + inv_ok H; fin_counts T.
    + inv_ok H; fin_counts T.
    + inv_ok H; fin_counts T.
    + destruct (exc_step s T0 (WExcCas e0) c) as [s1 nx] eqn:X. destruct (exc_step_counts _ _ _ _ _ _ T X) as [E1 E2]. destruct nx; inv_ok H; cbn; rewrite ?E1, ?E2; fin_counts T.
    + destruct (exc_step s T0 (WExcWrite e0) c) as [s1 nx] eqn:X. destruct (exc_step_counts _ _ _ _ _ _ T X) as [E1 E2]. destruct nx; inv_ok H; cbn; rewrite ?E1, ?E2; fin_counts T.
    + destruct (exc_step s T0 WExcSet c) as [s1 nx] eqn:X. destruct (exc_step_counts _ _ _ _ _ _ T X) as [E1 E2]. destruct nx; inv_ok H; cbn; rewrite ?E1, ?E2; fin_counts T.
    + destruct (exc_step s T0 WExcCancel c) as [s1 nx] eqn:X. destruct (exc_step_counts _ _ _ _ _ _ T X) as [E1 E2]. destruct nx; inv_ok H; cbn; rewrite ?E1, ?E2; fin_counts T.
    + inv_ok H; fin_counts T.
  - (* FWaitTok *) destruct (deq_tok s T0) as [[x s1]|] eqn:D; inv_ok H; [|fin_counts T].
    destruct (deq_tok_spec _ _ _ _ D) as [-> _ _ _ _ _ _ _ _ Q]. rewrite (Q T). fin_counts T.
  - split_hyp H; inv_ok H; fin_counts T.
  - (* FWaitCentral *) destruct (deq_any s) as [[x s1]|] eqn:D; inv_ok H; [|fin_counts T].
    destruct (deq_any_spec _ _ _ D) as [-> _ _ _ _ _ _ _ _ Q]. rewrite (Q T). fin_counts T.
  - (* FWaitRings *) destruct (if 0 <? nrings s then deq_any s else None) as [[x s1]|] eqn:D; inv_ok H; [|fin_counts T].
    destruct (0 <? nrings s); [|discriminate]. destruct (deq_any_spec _ _ _ D) as [-> _ _ _ _ _ _ _ _ Q]. rewrite (Q T). fin_counts T.
  - inv_ok H; fin_counts T.
  - split_hyp H; inv_ok H; fin_counts T.
  - (* FTwTok *) destruct (deq_tok s T0) as [[x s1]|] eqn:D; inv_ok H; [|fin_counts T].
    destruct (deq_tok_spec _ _ _ _ D) as [-> _ _ _ _ _ _ _ _ Q]. rewrite (Q T). fin_counts T.
  - split_hyp H; inv_ok H; fin_counts T.
  - (* FTwCentral *) destruct (deq_any s) as [[x s1]|] eqn:D; inv_ok H; [|fin_counts T].
    destruct (deq_any_spec _ _ _ D) as [-> _ _ _ _ _ _ _ _ Q]. rewrite (Q T). fin_counts T.
  - (* FTwRings *) destruct (if 0 <? nrings s then deq_any s else None) as [[x s1]|] eqn:D; inv_ok H; [|fin_counts T].
    destruct (0 <? nrings s); [|discriminate]. destruct (deq_any_spec _ _ _ D) as [-> _ _ _ _ _ _ _ _ Q]. rewrite (Q T). fin_counts T.
  - split_hyp H; inv_ok H; fin_counts T.
  - split_hyp H; inv_ok H; fin_counts T.
  - inv_ok H; fin_counts T.
  - inv_ok H; fin_counts T.
  - inv_ok H; fin_counts T.
  - (* FCancel *) inv_ok H; fin_counts T.
  - destruct l0; inv_ok H; fin_counts T.
  - (* FWorker *) destruct (deq_any s) as [[x s1]|] eqn:D; inv_ok H; [|fin_counts T].
    destruct (deq_any_spec _ _ _ D) as [-> _ _ _ _ _ _ _ _ Q]. rewrite (Q T). fin_counts T.
Qed.

Lemma sets_sh_clock s c : sets (sh_clock s c) = sets s. Proof. reflexivity. Qed.
Lemma queue_sh_clock s c : queue (sh_clock s c) = queue s. Proof. reflexivity. Qed.

Lemma step1_counts s t ch s' ch' site : Counts s -> step1 s t ch = Some (s', ch', site) -> Counts s'.
Proof.
  intros I H. apply step1_inv in H. destruct H as (th & f & rest & sh' & l & e & N & K & E & ->).
  intros T. cbn [sh threads]. rewrite sets_sh_clock, queue_sh_clock.
  rewrite (tsum_set_nth _ _ _ _ _ N). cbn [stk]. rewrite K.
  pose proof (step_top_counts _ _ _ _ _ _ _ _ T E) as D. specialize (I T). lia.
Qed.

Lemma init_counts u : Counts (init u).
Proof.
  intros T. unfold init. cbn [sh threads sets queue]. unfold ts0. cbn [outst].
  induction (su_progs u) as [|p l IH]; cbn; [reflexivity|]. cbn in IH. lia.
Qed.

Theorem outstanding_counts u s : reach step1 (init u) s -> Counts s.
Proof.
  intros R. apply (reach_inv step1 Counts (init u)); [apply init_counts | | exact R].
  intros s1 t ch s1' ch' site I E. eapply step1_counts; eauto.
Qed.

(* consequences: a zero counter means nothing of that set is queued or in flight *)
Lemma counts_zero s T : Counts s -> outst (sets (sh s) T) = 0 ->
  qcount T (queue (sh s)) = 0 /\ forall th f, In th (threads s) -> In f (stk th) -> contrib T f = 0.
Proof.
  intros I Z. specialize (I T). pose proof (qcount_nonneg T (queue (sh s))).
  pose proof (tsum_nonneg (contrib T) (threads s) (contrib_nonneg T)). split; [lia|].
  intros th f Hth Hf.
  pose proof (tsum_in_le (contrib T) _ _ (contrib_nonneg T) Hth).
  pose proof (fsum_in_le (contrib T) _ _ (contrib_nonneg T) Hf). pose proof (contrib_nonneg T f). lia.
Qed.
Lemma counts_quiescent s T : Counts s -> qcount T (queue (sh s)) = 0 ->
  (forall th f, In th (threads s) -> In f (stk th) -> contrib T f = 0) -> outst (sets (sh s) T) = 0.
Proof.
  intros I Q F. rewrite (I T), Q. assert (tsum (contrib T) (threads s) = 0); [|lia].
  induction (threads s) as [|a l IH]; cbn; [reflexivity|].
  rewrite IH by (intros; eapply F; eauto; right; assumption).
  assert (fsum (contrib T) (stk a) = 0); [|lia].
  assert (G : forall f, In f (stk a) -> contrib T f = 0) by (intros; eapply F; eauto; left; reflexivity).
  induction (stk a) as [|f r IHr]; cbn; [reflexivity|]. rewrite (G f) by (left; reflexivity). rewrite IHr; [reflexivity|]. intros; apply G; right; assumption.
Qed.

(* every fused (scheduler-visible) step is a sequence of fine steps, so every state the executable scheduler visits is reachable *)
Lemma silent_run_reach fuel : forall s t s0, reach step1 s0 s -> reach step1 s0 (silent_run fuel s t).
Proof.
  induction fuel as [|fuel IH]; intros s t s0 R; cbn [silent_run]; [exact R|].
  destruct (top_silent s t); [|exact R].
  destruct (step1 s t []) as [[[s' ch'] site]|] eqn:E; [|exact R].
  apply IH. eapply reach_step; eauto.
Qed.
Lemma stepF_reach s t ch s' ch' site s0 : reach step1 s0 s -> stepF s t ch = Some (s', ch', site) -> reach step1 s0 s'.
Proof.
  unfold stepF. intros R H. destruct (top_sited s t); [|discriminate].
  destruct (step1 s t ch) as [[[s1 ch1] site1]|] eqn:E; [|discriminate].
  remember (silent_run 400 s1 t) as x eqn:X. injection H as <- _ _. subst x.
  apply silent_run_reach. eapply reach_step; eauto.
Qed.
Lemma reachF_reach s0 s : reach stepF s0 s -> reach step1 s0 s.
Proof. induction 1 as [|s t ch s' ch' site R IH E]; [apply reach_refl | eapply stepF_reach; eauto]. Qed.
Lemma run_ts_reach fuel u sched : reach step1 (init u) (fst (fst (run_ts fuel u sched))).
Proof. apply reachF_reach. unfold run_ts. apply run_reach. apply reach_refl. Qed.

(* ============================================================================================================
   C02: the ledger -- a task that is counted (submitted through packageTask / a bulk pre-increment and not yet
   decremented) is in the queue or held by a frame
   ============================================================================================================ *)
Definition indk (k0 k : Z) : Z := if k0 =? k then 1 else 0.
Definition indr (lo : Z) (m : nat) (k : Z) : Z := if (lo <=? k) && (k <? lo + Z.of_nat m) then 1 else 0.
Fixpoint qcountk (T : nat) (k : Z) (q : list qtask) : Z :=
  match q with [] => 0 | x :: r => (if Nat.eqb T (qset x) then indk (qid x) k else 0) + qcountk T k r end.
Definition holds (T : nat) (k : Z) (f : frame) : Z :=
  match f with
  | FPkgEnq T0 k0 _ _ | FWrap T0 k0 _ _ => if Nat.eqb T T0 then indk k0 k else 0
  | FBulkEnq T0 _ base i m _ _ => if Nat.eqb T T0 then indr (base + Z.of_nat i) m k else 0
  | FPoolBulk T0 first cnt _ => if Nat.eqb T T0 then indr first cnt k else 0
  | _ => 0
  end.
Definition counted (l : lst) (T : nat) : bool := match l with LPend T0 | LRun T0 => Nat.eqb T T0 | _ => false end.

Lemma indk_range k0 k : 0 <= indk k0 k <= 1. Proof. unfold indk. destruct (k0 =? k); lia. Qed.
Lemma indr_range lo m k : 0 <= indr lo m k <= 1. Proof. unfold indr. destruct (_ && _); lia. Qed.
Lemma indr_le lo m k : indr lo m k <= Z.of_nat m.
Proof. unfold indr. destruct ((lo <=? k) && (k <? lo + Z.of_nat m)) eqn:E; [|lia]. apply andb_prop in E. destruct E as [A B]. apply Z.leb_le in A. apply Z.ltb_lt in B. lia. Qed.
Lemma indr_split lo cnt m k : (m <= cnt)%nat -> indr lo cnt k = indr lo m k + indr (lo + Z.of_nat m) (cnt - m) k.
Proof.
  intros L. unfold indr.
  destruct (Z.leb_spec lo k); destruct (Z.ltb_spec k (lo + Z.of_nat cnt)); destruct (Z.ltb_spec k (lo + Z.of_nat m));
    destruct (Z.leb_spec (lo + Z.of_nat m) k); destruct (Z.ltb_spec k (lo + Z.of_nat m + Z.of_nat (cnt - m))); cbn [andb]; try reflexivity; exfalso; lia.
Qed.
Lemma indr_first lo cnt k : cnt <> 0%nat -> indr lo cnt k = indk lo k + indr (lo + 1) (cnt - 1) k.
Proof.
  intros NZ. rewrite (indr_split lo cnt 1 k) by lia.
  assert (indr lo 1 k = indk lo k) as ->.
  { unfold indr, indk. destruct (Z.eqb_spec lo k); destruct (Z.leb_spec lo k); destruct (Z.ltb_spec k (lo + Z.of_nat 1)); cbn [andb]; try reflexivity; exfalso; lia. }
  replace (lo + Z.of_nat 1) with (lo + 1) by lia. reflexivity.
Qed.
Lemma indr_zero lo k : indr lo 0 k = 0.
Proof. unfold indr. destruct (Z.leb_spec lo k); destruct (Z.ltb_spec k (lo + Z.of_nat 0)); cbn [andb]; try reflexivity. exfalso. lia. Qed.

Lemma qcountk_nonneg T k q : 0 <= qcountk T k q.
Proof. induction q as [|x q IH]; cbn [qcountk]; [lia|]. destruct (Nat.eqb T (qset x)); pose proof (indk_range (qid x) k); lia. Qed.
Lemma qcountk_app T k a b : qcountk T k (a ++ b) = qcountk T k a + qcountk T k b.
Proof. induction a as [|x a IH]; cbn [qcountk app]; [reflexivity|]. rewrite IH. lia. Qed.
Lemma qcountk_le T k q : qcountk T k q <= qcount T q.
Proof. induction q as [|x q IH]; [cbn; lia|]. rewrite qcount_cons. cbn [qcountk]. destruct (Nat.eqb T (qset x)); pose proof (indk_range (qid x) k); lia. Qed.
Lemma qcountk_mk_tasks T k T0 first m b : qcountk T k (mk_tasks T0 first m b) = if Nat.eqb T T0 then indr first m k else 0.
Proof.
  unfold mk_tasks.
  assert (G : forall st, qcountk T k (map (fun j => QT (first + Z.of_nat j) T0 b) (seq st m)) = if Nat.eqb T T0 then indr (first + Z.of_nat st) m k else 0).
  { induction m as [|m IH]; intros st; cbn [seq map qcountk].
    - rewrite indr_zero. destruct (Nat.eqb T T0); reflexivity.
    - rewrite (IH (S st)). cbn [qset qid].
      destruct (Nat.eqb T T0); [|reflexivity]. rewrite (indr_first (first + Z.of_nat st) (S m) k) by lia.
      replace (first + Z.of_nat st + 1) with (first + Z.of_nat (S st)) by lia. replace (S m - 1)%nat with m by lia. reflexivity. }
  rewrite (G 0%nat). replace (first + Z.of_nat 0) with first by lia. reflexivity.
Qed.
Lemma take_first_countk p q x q' T k :
  take_first p q = Some (x, q') -> qcountk T k q = (if Nat.eqb T (qset x) then indk (qid x) k else 0) + qcountk T k q'.
Proof.
  revert q'; induction q as [|a q IH]; intros q' H; cbn in H; [discriminate|].
  destruct (p a).
  - injection H as <- <-. reflexivity.
  - destruct (take_first p q) as [[y r']|] eqn:E; [|discriminate]. injection H as <- <-. cbn [qcountk]. rewrite (IH _ eq_refl). lia.
Qed.
Lemma deq_any_countk s x s' T k : deq_any s = Some (x, s') -> qcountk T k (queue s) = (if Nat.eqb T (qset x) then indk (qid x) k else 0) + qcountk T k (queue s').
Proof.
  unfold deq_any. destruct (queue s) as [|a r] eqn:Q; [discriminate|].
  destruct (match hints s with [] => (-64, []) | h :: hs => (h, hs) end) as [h hs].
  set (pick := if 0 <=? h then _ else _).
  destruct pick as [[y q']|] eqn:P; intros H; injection H as <- <-; cbn [queue sh_hints sh_queue]; [|reflexivity].
  unfold pick in P. destruct (0 <=? h); [eapply take_first_countk; exact P|]. destruct (-64 <? h); [eapply take_first_countk; exact P | discriminate].
Qed.
Lemma deq_tok_countk s T0 x s' T k : deq_tok s T0 = Some (x, s') -> qcountk T k (queue s) = (if Nat.eqb T (qset x) then indk (qid x) k else 0) + qcountk T k (queue s').
Proof.
  unfold deq_tok. destruct (take_first _ (queue s)) as [[y q']|] eqn:P; [|discriminate]. intros H; injection H as <- <-.
  cbn. eapply take_first_countk; exact P.
Qed.

Lemma holds_nonneg T k f : 0 <= holds T k f.
Proof. destruct f; cbn; try lia; destruct (Nat.eqb T T0); try lia; first [apply indk_range | apply indr_range]. Qed.
Lemma holds_le_contrib T k f : holds T k f <= contrib T f.
Proof.
  destruct f; cbn; unfold ind; try lia; destruct (Nat.eqb T T0); try lia; first [apply indk_range | apply indr_le].
Qed.
Lemma holds_plain T k f : plain_frame f -> holds T k f = 0.
Proof. destruct f; cbn; intros H; try reflexivity; contradiction. Qed.
Lemma fsum_holds_plain T k l : Forall plain_frame l -> fsum (holds T k) l = 0.
Proof. induction 1 as [|f l H _ IH]; cbn; [reflexivity | rewrite (holds_plain _ _ _ H), IH; reflexivity]. Qed.
Lemma tsum_le phi psi ths : (forall f, phi f <= psi f) -> tsum phi ths <= tsum psi ths.
Proof.
  intros H. induction ths as [|a l IH]; cbn; [lia|].
  assert (fsum phi (stk a) <= fsum psi (stk a)); [|lia]. induction (stk a) as [|f r IHr]; cbn; [lia | specialize (H f); lia].
Qed.

Definition Led (s : state) : Prop :=
  forall T k, counted (ledger (sh s) k) T = true -> 1 <= qcountk T k (queue (sh s)) + tsum (holds T k) (threads s).

Lemma exc_step_led s T0 st c s' nx : exc_step s T0 st c = (s', nx) -> ledger s' = ledger s /\ queue s' = queue s.
Proof.
  unfold exc_step. destruct st; intros H; try (injection H as <- _; split; reflexivity).
  destruct (guard (sets s T0) =? 0); injection H as <- _; split; reflexivity.
Qed.

Ltac led_simpl :=
  cbn -[Z.of_nat Z.add Z.sub Z.mul Nat.eqb Nat.min Nat.sub Z.eqb indk indr] in *;
  rewrite ?fsum_app, ?qcountk_app, ?qcountk_mk_tasks, ?indr_zero in *;
  cbn -[Z.of_nat Z.add Z.sub Z.mul Nat.eqb Nat.min Nat.sub Z.eqb indk indr] in *.
Ltac led_cases T k :=
  repeat match goal with
         | |- context [Nat.eqb T ?x] => let E := fresh "E" in destruct (Nat.eqb_spec T x) as [E|E]; [try rewrite <- E in *|]
         | H : context [Nat.eqb T ?x] |- _ => let E := fresh "E" in destruct (Nat.eqb_spec T x) as [E|E]; [try rewrite <- E in *|]
         end.
Ltac fin_led T k :=
  led_simpl; unfold updz, updr in *; led_simpl;
  repeat match goal with
         | H : context [if (k =? ?x) then _ else _] |- _ => let E := fresh "E" in destruct (Z.eqb_spec k x) as [E|E]; [try rewrite <- E in *|]
         | H : context [if (?lo <=? k) && (k <? ?hi) then _ else _] |- _ => let E := fresh "E" in destruct ((lo <=? k) && (k <? hi)) eqn:E
         end;
  led_simpl; led_cases T k; led_simpl;
  try discriminate;
  repeat match goal with E : ((_ <=? k) && (k <? _)) = _ |- _ => unfold indr; rewrite ?E; clear E end;
  pose proof (qcountk_nonneg T k) as NNq;
  try (match goal with |- context [fsum (holds T k) ?r] => pose proof (fsum_nonneg (holds T k) r (holds_nonneg T k)) end);
  try (match goal with |- context [qcountk T k ?q] => pose proof (NNq q) end);
  try (match goal with H : counted _ _ = true |- _ => first [ left; split; [exact H | unfold indk; rewrite ?Z.eqb_refl; lia] | right; unfold indk, indr; rewrite ?Z.eqb_refl; lia ] end);
  try (unfold indk in *; repeat match goal with |- context [?a =? ?b] => destruct (Z.eqb_spec a b) end; first [ left; split; [assumption | lia] | right; lia | lia ]).

Lemma step_top_led s th f rest c s' l e T k :
  step_top s th f rest c = Some (s', l, e) -> counted (ledger s' k) T = true ->
  let W := qcountk T k (queue s) + fsum (holds T k) (f :: rest) in
  let W' := qcountk T k (queue s') + fsum (holds T k) l in
  (counted (ledger s k) T = true /\ W <= W') \/ 1 <= W'.
Proof.
  intros H C. destruct f; cbn [step_top] in H.
  - inv_ok H. fin_led T k.
  - destruct ops as [|o r]; [inv_ok H; fin_led T k|].
    destruct (dispatch s o c) as [[s1 fr] e1] eqn:D. inv_ok H. apply dispatch_spec in D. destruct D as (_ & _ & Q & _ & _ & _ & _ & L & _ & _ & F).
    rewrite L in C. rewrite Q. cbn zeta. rewrite fsum_app, (fsum_holds_plain _ _ _ F). left. split; [exact C | cbn; lia].
  - destruct ops as [|o r]; [inv_ok H; fin_led T k|].
    destruct (dispatch s o c) as [[s1 fr] e1] eqn:D. inv_ok H. apply dispatch_spec in D. destruct D as (_ & _ & Q & _ & _ & _ & _ & L & _ & _ & F).
    rewrite L in C. rewrite Q. cbn zeta. rewrite fsum_app, (fsum_holds_plain _ _ _ F). left. split; [exact C | cbn; lia].
  - inv_ok H. fin_led T k.
  - (* FThrow *) destruct rest as [|g r]; [inv_ok H; fin_led T k|].
    destruct g; first [ inv_ok H; fin_led T k | split_hyp H; inv_ok H; fin_led T k ].
  - discriminate.
  - split_hyp H; inv_ok H; fin_led T k.
  - split_hyp H; inv_ok H; fin_led T k.
  - split_hyp H; inv_ok H; fin_led T k.
  - destruct second; split_hyp H; inv_ok H; fin_led T k.
  - split_hyp H; inv_ok H; fin_led T k.
  - inv_ok H; fin_led T k.
  - inv_ok H; fin_led T k.
  - (* FPkgInc *) inv_ok H; fin_led T k.
  - split_hyp H; inv_ok H; fin_led T k.
  - (* FWrap *) destruct st.
    + split_hyp H; inv_ok H; fin_led T k.
    + inv_ok H; fin_led T k.
    + inv_ok H; fin_led T k.
    + destruct (exc_step s T0 (WExcCas e0) c) as [s1 nx] eqn:X. inv_ok H. destruct (exc_step_led _ _ _ _ _ _ X) as [E1 E2]. rewrite E1 in C. rewrite E2. fin_led T k.
    + destruct (exc_step s T0 (WExcWrite e0) c) as [s1 nx] eqn:X. inv_ok H. destruct (exc_step_led _ _ _ _ _ _ X) as [E1 E2]. rewrite E1 in C. rewrite E2. fin_led T k.
    + destruct (exc_step s T0 WExcSet c) as [s1 nx] eqn:X. inv_ok H. destruct (exc_step_led _ _ _ _ _ _ X) as [E1 E2]. rewrite E1 in C. rewrite E2. fin_led T k.
    + destruct (exc_step s T0 WExcCancel c) as [s1 nx] eqn:X. inv_ok H. destruct (exc_step_led _ _ _ _ _ _ X) as [E1 E2]. rewrite E1 in C. rewrite E2. fin_led T k.
    + (* WDec *) inv_ok H. destruct (ledger s k0) eqn:L0; fin_led T k.
  - inv_ok H; fin_led T k.
  - split_hyp H; [|split_hyp H]; inv_ok H; fin_led T k.
  - split_hyp H; inv_ok H; fin_led T k.
  - (* FBulkRingInc *) inv_ok H. replace base with (base + Z.of_nat 0) in C at 1 by lia. replace (base + Z.of_nat n) with (base + Z.of_nat 0 + Z.of_nat n) in C by lia. fin_led T k.
  - split_hyp H; inv_ok H; fin_led T k.
  - split_hyp H; [|split_hyp H]; inv_ok H; fin_led T k.
  - split_hyp H; inv_ok H; fin_led T k.
  - (* FBulkInc *) inv_ok H. fin_led T k.
  - (* FBulkEnq *) split_hyp H; inv_ok H; fin_led T k.
  - (* FPoolBulk *) destruct (Nat.eqb_spec cnt 0) as [->|NZ]; [inv_ok H; fin_led T k|].
    split_hyp H; inv_ok H.
    + pose proof (indr_first first cnt k NZ). fin_led T k.
    + pose proof (indr_split first cnt _ k (pool_chunk_le cnt (nthr s) (plf s - wr s))). fin_led T k.
  - (* FInl *) destruct st.
    + inv_ok H; fin_led T k.
    + inv_ok H; fin_led T k.
    + inv_ok H; fin_led T k.
    + destruct (exc_step s T0 (WExcCas e0) c) as [s1 nx] eqn:X. destruct (exc_step_led _ _ _ _ _ _ X) as [E1 E2]. destruct nx; inv_ok H; cbn [ledger set_led sh_ledger queue] in *; rewrite ?E1, ?E2 in *; fin_led T k.
    + destruct (exc_step s T0 (WExcWrite e0) c) as [s1 nx] eqn:X. destruct (exc_step_led _ _ _ _ _ _ X) as [E1 E2]. destruct nx; inv_ok H; cbn [ledger set_led sh_ledger queue] in *; rewrite ?E1, ?E2 in *; fin_led T k.
    + destruct (exc_step s T0 WExcSet c) as [s1 nx] eqn:X. destruct (exc_step_led _ _ _ _ _ _ X) as [E1 E2]. destruct nx; inv_ok H; cbn [ledger set_led sh_ledger queue] in *; rewrite ?E1, ?E2 in *; fin_led T k.
    + destruct (exc_step s T0 WExcCancel c) as [s1 nx] eqn:X. destruct (exc_step_led _ _ _ _ _ _ X) as [E1 E2]. destruct nx; inv_ok H; cbn [ledger set_led sh_ledger queue] in *; rewrite ?E1, ?E2 in *; fin_led T k.
    + inv_ok H; fin_led T k.
  - (* FWaitTok *) destruct (deq_tok s T0) as [[x s1]|] eqn:D; inv_ok H; [|fin_led T k].
    pose proof (deq_tok_countk _ _ _ _ T k D) as Q. destruct (deq_tok_spec _ _ _ _ D) as [_ _ _ _ _ _ _ L _ _]. rewrite L in C. rewrite Q. fin_led T k.
  - split_hyp H; inv_ok H; fin_led T k.
  - (* FWaitCentral *) destruct (deq_any s) as [[x s1]|] eqn:D; inv_ok H; [|fin_led T k].
    pose proof (deq_any_countk _ _ _ T k D) as Q. destruct (deq_any_spec _ _ _ D) as [_ _ _ _ _ _ _ L _ _]. rewrite L in C. rewrite Q. fin_led T k.
  - (* FWaitRings *) destruct (if 0 <? nrings s then deq_any s else None) as [[x s1]|] eqn:D; inv_ok H; [|fin_led T k].
    destruct (0 <? nrings s); [|discriminate].
    pose proof (deq_any_countk _ _ _ T k D) as Q. destruct (deq_any_spec _ _ _ D) as [_ _ _ _ _ _ _ L _ _]. rewrite L in C. rewrite Q. fin_led T k.
  - inv_ok H; fin_led T k.
  - split_hyp H; inv_ok H; fin_led T k.
  - (* FTwTok *) destruct (deq_tok s T0) as [[x s1]|] eqn:D; inv_ok H; [|fin_led T k].
    pose proof (deq_tok_countk _ _ _ _ T k D) as Q. destruct (deq_tok_spec _ _ _ _ D) as [_ _ _ _ _ _ _ L _ _]. rewrite L in C. rewrite Q. fin_led T k.
  - split_hyp H; inv_ok H; fin_led T k.
  - (* FTwCentral *) destruct (deq_any s) as [[x s1]|] eqn:D; inv_ok H; [|fin_led T k].
    pose proof (deq_any_countk _ _ _ T k D) as Q. destruct (deq_any_spec _ _ _ D) as [_ _ _ _ _ _ _ L _ _]. rewrite L in C. rewrite Q. fin_led T k.
  - (* FTwRings *) destruct (if 0 <? nrings s then deq_any s else None) as [[x s1]|] eqn:D; inv_ok H; [|fin_led T k].
    destruct (0 <? nrings s); [|discriminate].
    pose proof (deq_any_countk _ _ _ T k D) as Q. destruct (deq_any_spec _ _ _ D) as [_ _ _ _ _ _ _ L _ _]. rewrite L in C. rewrite Q. fin_led T k.
  - split_hyp H; inv_ok H; fin_led T k.
  - split_hyp H; inv_ok H; fin_led T k.
  - inv_ok H; fin_led T k.
  - inv_ok H; fin_led T k.
  - inv_ok H; fin_led T k.
  - inv_ok H; fin_led T k.
  - destruct l0; inv_ok H; fin_led T k.
  - (* FWorker *) destruct (deq_any s) as [[x s1]|] eqn:D; inv_ok H; [|fin_led T k].
    pose proof (deq_any_countk _ _ _ T k D) as Q. destruct (deq_any_spec _ _ _ D) as [_ _ _ _ _ _ _ L _ _]. rewrite L in C. rewrite Q. fin_led T k.
Qed.

Lemma step1_led s t ch s' ch' site : Led s -> step1 s t ch = Some (s', ch', site) -> Led s'.
Proof.
  intros I H. apply step1_inv in H. destruct H as (th & f & rest & sh' & l & e & N & K & E & ->).
  intros T k C. cbn [sh threads] in *. change (ledger (sh_clock sh' _)) with (ledger sh') in C. change (queue (sh_clock sh' _)) with (queue sh').
  rewrite (tsum_set_nth _ _ _ _ _ N). cbn [stk]. rewrite K.
  pose proof (step_top_led _ _ _ _ _ _ _ _ T k E C) as D. cbn zeta in D.
  assert (O : 0 <= tsum (holds T k) (threads s) - fsum (holds T k) (f :: rest)).
  { pose proof (nth_error_In _ _ N) as Hin. revert Hin. rewrite <- K. generalize (threads s). intros ths. induction ths as [|a r IH]; intros Hin; [contradiction|].
    cbn [tsum]. destruct Hin as [->|Hin]; [pose proof (tsum_nonneg (holds T k) r (holds_nonneg T k)); lia|].
    specialize (IH Hin). pose proof (fsum_nonneg (holds T k) (stk a) (holds_nonneg T k)). lia. }
  destruct D as [[Cb D]|D]; [specialize (I T k Cb); lia | lia].
Qed.
Lemma init_led u : Led (init u).
Proof. intros T k C. cbn in C. discriminate. Qed.
Theorem ledger_held u s : reach step1 (init u) s -> Led s.
Proof.
  intros R. apply (reach_inv step1 Led (init u)); [apply init_led | | exact R].
  intros s1 t ch s1' ch' site I E. eapply step1_led; eauto.
Qed.

(* the barrier: when the counter of T reads zero, no task of T is still counted (submitted and neither finished nor skipped) *)
Theorem zero_is_barrier u s T : reach step1 (init u) s -> outst (sets (sh s) T) = 0 -> forall k, counted (ledger (sh s) k) T = false.
Proof.
  intros R Z k. destruct (counted (ledger (sh s) k) T) eqn:C; [|reflexivity]. exfalso.
  pose proof (ledger_held _ _ R T k C) as L. pose proof (outstanding_counts _ _ R T) as I.
  pose proof (qcountk_le T k (queue (sh s))). pose proof (qcount_nonneg T (queue (sh s))).
  pose proof (tsum_le (holds T k) (contrib T) (threads s) (holds_le_contrib T k)).
  pose proof (tsum_nonneg (contrib T) (threads s) (contrib_nonneg T)). lia.
Qed.

(* ============================================================================================================
   C04: licences -- every frame that may start a body of T carries the clock of a canceled_ load that read false,
   and that load precedes the first canceled_ := true store of T
   ============================================================================================================ *)
Definition lic_of (f : frame) : option (nat * Z) :=
  match f with
  | FTsOut T _ _ lic => Some (T, lic)
  | FRawPt T _ _ _ lic _ => Some (T, lic)
  | FWrap T _ _ (WBodyPt lic) | FInl T _ _ (WBodyPt lic) => Some (T, lic)
  | FBulkOut T _ _ _ _ _ lic => Some (T, lic)
  | _ => None
  end.
Definition lic_ok (s : shared) (f : frame) : Prop :=
  match lic_of f with
  | Some (T, L) => 0 < L <= clock s /\ (cst (sets s T) = 0 \/ L < cst (sets s T))
  | None => True
  end.
Definition CancInv (s : shared) : Prop := forall T, (canc (sets s T) = false <-> cst (sets s T) = 0) /\ cst (sets s T) <= clock s.
Definition Ext (s s' : shared) : Prop :=
  clock s <= clock s' /\ forall T, cst (sets s' T) = cst (sets s T) \/ (cst (sets s T) = 0 /\ clock s < cst (sets s' T)).
Definition Lic (s : state) : Prop :=
  CancInv (sh s) /\ 0 <= clock (sh s) /\ forall th, In th (threads s) -> Forall (lic_ok (sh s)) (stk th).

Lemma lic_ok_ext s s' g : Ext s s' -> lic_ok s g -> lic_ok s' g.
Proof.
  intros [C X] H. unfold lic_ok in *. destruct (lic_of g) as [[T L]|]; [|exact I].
  destruct H as [B D]. split; [lia|]. destruct (X T) as [->|[Z1 Z2]]; [exact D | right; lia].
Qed.
Lemma Forall_lic_ext s s' l : Ext s s' -> Forall (lic_ok s) l -> Forall (lic_ok s') l.
Proof. intros E F. eapply Forall_impl; [|exact F]. intros; eapply lic_ok_ext; eauto. Qed.

(* what a step does to the cancellation flags: nothing, or (only at a hook point) the canceled_ := true store of one set at clock c *)
Definition Stores (s s' : shared) (c : Z) (sit : bool) : Prop :=
  (forall T, canc (sets s' T) = canc (sets s T) /\ cst (sets s' T) = cst (sets s T)) \/
  (sit = true /\ exists T0, forall T, sets s' T = upd (sets s) T0 (ts_cancel (sets s T0) c) T).

Lemma stores_refl s c b : Stores s s c b. Proof. left. intros; split; reflexivity. Qed.
Lemma stores_upd_same s T0 v c b (s' : shared) :
  sets s' = upd (sets s) T0 v -> canc v = canc (sets s T0) -> cst v = cst (sets s T0) -> Stores s s' c b.
Proof. intros E A B. left. intros T. rewrite E. unfold upd. destruct (Nat.eqb_spec T T0) as [->|]; split; auto. Qed.
Lemma stores_weaken s s' c b : Stores s s' c false -> Stores s s' c b.
Proof. intros [H|[H _]]; [left; exact H | discriminate]. Qed.

Lemma exc_step_stores s T0 st c s' nx :
  exc_step s T0 st c = (s', nx) -> Stores s s' c (match st with WExcCancel => true | _ => false end) /\ clock s' = clock s.
Proof.
  unfold exc_step. destruct st; intros H; try (injection H as <- _; split; [apply stores_refl | reflexivity]).
  - destruct (guard (sets s T0) =? 0); injection H as <- _; (split; [|reflexivity]); [|apply stores_refl]. eapply stores_upd_same; reflexivity.
  - injection H as <- _; (split; [|reflexivity]). eapply stores_upd_same; reflexivity.
  - injection H as <- _; (split; [|reflexivity]). eapply stores_upd_same; reflexivity.
  - injection H as <- _; (split; [|reflexivity]). right. split; [reflexivity|]. exists T0. intros T. reflexivity.
Qed.

Ltac fin_stores :=
  first [ apply stores_refl
        | eapply stores_upd_same; reflexivity
        | left; intros; split; reflexivity ].

Lemma step_top_stores s th f rest c s' l e :
  step_top s th f rest c = Some (s', l, e) -> Stores s s' c (sited (cfg s) f) /\ clock s' = clock s.
Proof.
  intros H. destruct f; cbn [step_top] in H.
  - inv_ok H; (split; [fin_stores | reflexivity]).
  - destruct ops as [|o r]; [inv_ok H; (split; [fin_stores | reflexivity])|].
    destruct (dispatch s o c) as [[s1 fr] e1] eqn:D. inv_ok H. apply dispatch_spec in D. destruct D as (S1 & _ & _ & _ & _ & _ & C1 & _).
    split; [left; intros T1; rewrite S1; split; reflexivity | exact C1].
  - destruct ops as [|o r]; [inv_ok H; (split; [fin_stores | reflexivity])|].
    destruct (dispatch s o c) as [[s1 fr] e1] eqn:D. inv_ok H. apply dispatch_spec in D. destruct D as (S1 & _ & _ & _ & _ & _ & C1 & _).
    split; [left; intros T1; rewrite S1; split; reflexivity | exact C1].
  - inv_ok H; (split; [fin_stores | reflexivity]).
  - destruct rest as [|g r]; [inv_ok H; (split; [fin_stores | reflexivity])|].
    destruct g; try solve [inv_ok H; (split; [fin_stores | reflexivity])]; split_hyp H; inv_ok H; (split; [fin_stores | reflexivity]).
  - discriminate.
  - split_hyp H; inv_ok H; (split; [fin_stores | reflexivity]).
  - split_hyp H; inv_ok H; (split; [fin_stores | reflexivity]).
  - split_hyp H; inv_ok H; (split; [fin_stores | reflexivity]).
  - destruct second; split_hyp H; inv_ok H; (split; [fin_stores | reflexivity]).
  - split_hyp H; inv_ok H; (split; [fin_stores | reflexivity]).
  - inv_ok H; (split; [fin_stores | reflexivity]).
  - inv_ok H; (split; [fin_stores | reflexivity]).
  - inv_ok H; (split; [fin_stores | reflexivity]).
  - split_hyp H; inv_ok H; (split; [fin_stores | reflexivity]).
  - destruct st; try (destruct (exc_step s _ _ c) as [s1 nx] eqn:X; inv_ok H; destruct (exc_step_stores _ _ _ _ _ _ X) as [A B]; (split; [first [exact A | apply stores_weaken; exact A] | exact B])).
    + split_hyp H; inv_ok H; (split; [fin_stores | reflexivity]).
    + inv_ok H; (split; [fin_stores | reflexivity]).
    + inv_ok H; (split; [fin_stores | reflexivity]).
    + inv_ok H; (split; [fin_stores | reflexivity]).
  - inv_ok H; (split; [fin_stores | reflexivity]).
  - split_hyp H; [|split_hyp H]; inv_ok H; (split; [fin_stores | reflexivity]).
  - split_hyp H; inv_ok H; (split; [fin_stores | reflexivity]).
  - inv_ok H; (split; [fin_stores | reflexivity]).
  - split_hyp H; inv_ok H; (split; [fin_stores | reflexivity]).
  - split_hyp H; [|split_hyp H]; inv_ok H; (split; [fin_stores | reflexivity]).
  - split_hyp H; inv_ok H; (split; [fin_stores | reflexivity]).
  - inv_ok H; (split; [fin_stores | reflexivity]).
  - split_hyp H; inv_ok H; (split; [fin_stores | reflexivity]).
  - split_hyp H; [|split_hyp H]; inv_ok H; (split; [fin_stores | reflexivity]).
  - destruct st; try (destruct (exc_step s _ _ c) as [s1 nx] eqn:X; destruct (exc_step_stores _ _ _ _ _ _ X) as [A B]; destruct nx; inv_ok H; (split; [first [exact A | apply stores_weaken; exact A] | exact B])).
    + inv_ok H; (split; [fin_stores | reflexivity]).
    + inv_ok H; (split; [fin_stores | reflexivity]).
    + inv_ok H; (split; [fin_stores | reflexivity]).
    + inv_ok H; (split; [fin_stores | reflexivity]).
  - destruct (deq_tok s _) as [[x s1]|] eqn:D; inv_ok H; [|(split; [fin_stores | reflexivity])].
    destruct (deq_tok_spec _ _ _ _ D) as [S1 _ _ _ _ C1 _ _ _ _]. split; [left; intros T1; rewrite S1; split; reflexivity | exact C1].
  - split_hyp H; inv_ok H; (split; [fin_stores | reflexivity]).
  - destruct (deq_any s) as [[x s1]|] eqn:D; inv_ok H; [|(split; [fin_stores | reflexivity])].
    destruct (deq_any_spec _ _ _ D) as [S1 _ _ _ _ C1 _ _ _ _]. split; [left; intros T1; rewrite S1; split; reflexivity | exact C1].
  - destruct (if 0 <? nrings s then deq_any s else None) as [[x s1]|] eqn:D; inv_ok H; [|(split; [fin_stores | reflexivity])].
    destruct (0 <? nrings s); [|discriminate].
    destruct (deq_any_spec _ _ _ D) as [S1 _ _ _ _ C1 _ _ _ _]. split; [left; intros T1; rewrite S1; split; reflexivity | exact C1].
  - inv_ok H; (split; [fin_stores | reflexivity]).
  - split_hyp H; inv_ok H; (split; [fin_stores | reflexivity]).
  - destruct (deq_tok s _) as [[x s1]|] eqn:D; inv_ok H; [|(split; [fin_stores | reflexivity])].
    destruct (deq_tok_spec _ _ _ _ D) as [S1 _ _ _ _ C1 _ _ _ _]. split; [left; intros T1; rewrite S1; split; reflexivity | exact C1].
  - split_hyp H; inv_ok H; (split; [fin_stores | reflexivity]).
  - destruct (deq_any s) as [[x s1]|] eqn:D; inv_ok H; [|(split; [fin_stores | reflexivity])].
    destruct (deq_any_spec _ _ _ D) as [S1 _ _ _ _ C1 _ _ _ _]. split; [left; intros T1; rewrite S1; split; reflexivity | exact C1].
  - destruct (if 0 <? nrings s then deq_any s else None) as [[x s1]|] eqn:D; inv_ok H; [|(split; [fin_stores | reflexivity])].
    destruct (0 <? nrings s); [|discriminate].
    destruct (deq_any_spec _ _ _ D) as [S1 _ _ _ _ C1 _ _ _ _]. split; [left; intros T1; rewrite S1; split; reflexivity | exact C1].
  - split_hyp H; inv_ok H; (split; [fin_stores | reflexivity]).
  - split_hyp H; inv_ok H; (split; [fin_stores | reflexivity]).
  - inv_ok H; (split; [fin_stores | reflexivity]).
  - inv_ok H; (split; [fin_stores | reflexivity]).
  - inv_ok H; (split; [fin_stores | reflexivity]).
  - (* FCancel *) inv_ok H. split; [|reflexivity]. right. split; [reflexivity|]. exists T. intros T1. reflexivity.
  - destruct l0; inv_ok H; (split; [fin_stores | reflexivity]).
  - destruct (deq_any s) as [[x s1]|] eqn:D; inv_ok H; [|(split; [fin_stores | reflexivity])].
    destruct (deq_any_spec _ _ _ D) as [S1 _ _ _ _ C1 _ _ _ _]. split; [left; intros T1; rewrite S1; split; reflexivity | exact C1].
Qed.

Lemma exc_next_ok s T st c s' st' : exc_step s T st c = (s', Some st') -> forall lic, st' <> WBodyPt lic.
Proof.
  unfold exc_step. destruct st; intros H lic0; try (injection H as _ H; congruence).
  destruct (guard (sets s T) =? 0); injection H as _ H; congruence.
Qed.

Lemma stores_ext_cancinv s s' c sit :
  Stores s s' c sit -> clock s' = clock s -> CancInv s -> 0 <= clock s -> c = (if sit then clock s + 1 else clock s) ->
  Ext s (sh_clock s' c) /\ CancInv (sh_clock s' c).
Proof.
  intros St Cl CI C0 Hc. assert (Lc : clock s <= c) by (destruct sit; lia).
  destruct St as [Same|[-> [T0 Up]]].
  - split.
    + split; [cbn; lia|]. intros T. left. cbn. apply Same.
    + intros T. cbn. destruct (Same T) as [-> ->]. destruct (CI T) as [A B]. split; [exact A | lia].
  - split.
    + split; [cbn; lia|]. intros T. cbn. rewrite Up. unfold upd. destruct (Nat.eqb_spec T T0) as [->|]; [|left; reflexivity].
      cbn. destruct (Z.eqb_spec (cst (sets s T0)) 0) as [Z0|NZ]; [right; split; [exact Z0 | lia] | left; reflexivity].
    + intros T. cbn. rewrite Up. unfold upd. destruct (Nat.eqb_spec T T0) as [->|]; [|destruct (CI T) as [A B]; split; [exact A | lia]].
      cbn. destruct (CI T0) as [A B]. destruct (Z.eqb_spec (cst (sets s T0)) 0) as [Z0|NZ]; split; try lia; split; intros; try discriminate; lia.
Qed.

Lemma lic_fresh (s : shared) T c : canc (sets s T) = false -> CancInv s -> 0 <= clock s -> c = clock s + 1 ->
  0 < c <= clock (sh_clock s c) /\ (cst (sets (sh_clock s c) T) = 0 \/ c < cst (sets (sh_clock s c) T)).
Proof. intros Cn CI C0 ->. cbn. split; [lia|]. left. apply (CI T). exact Cn. Qed.

Ltac lic_new EXT Hf Hc CI C0 :=
  first [ exact I
        | exact (lic_ok_ext _ _ _ EXT Hf)
        | (cbn in Hc; apply lic_fresh; [assumption | exact CI | exact C0 | exact Hc]) ].
Ltac lic_frames EXT Hf Hr Hc CI C0 :=
  cbn [app exec_frames];
  repeat (apply Forall_cons; [lic_new EXT Hf Hc CI C0|]);
  first [ exact (Forall_lic_ext _ _ _ EXT Hr) | apply Forall_nil ].

Lemma step_top_lic s th f rest c s' l e :
  step_top s th f rest c = Some (s', l, e) -> CancInv s -> 0 <= clock s -> Forall (lic_ok s) (f :: rest) ->
  c = (if sited (cfg s) f then clock s + 1 else clock s) ->
  Ext s (sh_clock s' c) /\ CancInv (sh_clock s' c) /\ Forall (lic_ok (sh_clock s' c)) l.
Proof.
  intros H CI C0 F Hc.
  destruct (step_top_stores _ _ _ _ _ _ _ _ H) as [St Cl].
  destruct (stores_ext_cancinv _ _ _ _ St Cl CI C0 Hc) as [EXT CI'].
  split; [exact EXT|]. split; [exact CI'|].
  inversion F as [|f0 r0 Hf Hr]; subst f0 r0. clear F St CI'.
  destruct f; cbn [step_top] in H.
  - inv_ok H. lic_frames EXT Hf Hr Hc CI C0.
  - destruct ops as [|o r]; [inv_ok H; lic_frames EXT Hf Hr Hc CI C0|].
    destruct (dispatch s o c) as [[s1 fr] e1] eqn:D. inv_ok H. apply dispatch_spec in D. destruct D as (_ & _ & _ & _ & _ & _ & _ & _ & _ & _ & Fp).
    apply Forall_app. split; [|apply Forall_cons; [exact I | exact (Forall_lic_ext _ _ _ EXT Hr)]].
    eapply Forall_impl; [|exact Fp]. intros g Hg. unfold lic_ok. destruct g; cbn in Hg; try contradiction; exact I.
  - destruct ops as [|o r]; [inv_ok H; lic_frames EXT Hf Hr Hc CI C0|].
    destruct (dispatch s o c) as [[s1 fr] e1] eqn:D. inv_ok H. apply dispatch_spec in D. destruct D as (_ & _ & _ & _ & _ & _ & _ & _ & _ & _ & Fp).
    apply Forall_app. split; [|apply Forall_cons; [exact I | exact (Forall_lic_ext _ _ _ EXT Hr)]].
    eapply Forall_impl; [|exact Fp]. intros g Hg. unfold lic_ok. destruct g; cbn in Hg; try contradiction; exact I.
  - inv_ok H. lic_frames EXT Hf Hr Hc CI C0.
  - (* FThrow *) destruct rest as [|g r]; [inv_ok H; lic_frames EXT Hf Hr Hc CI C0|].
    inversion Hr as [|g0 r0 Hg Hr']; subst g0 r0.
    destruct g; try solve [inv_ok H; lic_frames EXT Hf Hr Hc CI C0 | inv_ok H; lic_frames EXT Hf Hr' Hc CI C0 ];
      split_hyp H; inv_ok H; first [ lic_frames EXT Hf Hr Hc CI C0 | lic_frames EXT Hf Hr' Hc CI C0 ].
  - discriminate.
  - (* FTsCanc *) split_hyp H; inv_ok H; lic_frames EXT Hf Hr Hc CI C0.
  - split_hyp H; inv_ok H; lic_frames EXT Hf Hr Hc CI C0.
  - split_hyp H; inv_ok H; lic_frames EXT Hf Hr Hc CI C0.
  - (* FCsCanc *) destruct second.
    + split_hyp H; inv_ok H; [lic_frames EXT Hf Hr Hc CI C0|].
      match goal with A : (_ || _) = false |- _ => apply orb_false_iff in A; destruct A as [A _] end. destruct placed; lic_frames EXT Hf Hr Hc CI C0.
    + split_hyp H; inv_ok H; [|lic_frames EXT Hf Hr Hc CI C0].
      match goal with A : (_ && _) = true |- _ => apply andb_prop in A; destruct A as [A _]; apply negb_true_iff in A end. destruct placed; lic_frames EXT Hf Hr Hc CI C0.
  - (* FCsPool *) split_hyp H; inv_ok H; lic_frames EXT Hf Hr Hc CI C0.
  - inv_ok H; lic_frames EXT Hf Hr Hc CI C0.
  - inv_ok H; lic_frames EXT Hf Hr Hc CI C0.
  - inv_ok H; lic_frames EXT Hf Hr Hc CI C0.
  - split_hyp H; inv_ok H; lic_frames EXT Hf Hr Hc CI C0.
  - (* FWrap *) destruct st; try (destruct (exc_step s _ _ c) as [s1 nx] eqn:X; inv_ok H; destruct nx as [st'|]; [pose proof (exc_next_ok _ _ _ _ _ _ X) as NB; destruct st'; try (exfalso; eapply NB; reflexivity)|]; lic_frames EXT Hf Hr Hc CI C0).
    + split_hyp H; inv_ok H; lic_frames EXT Hf Hr Hc CI C0.
    + inv_ok H; lic_frames EXT Hf Hr Hc CI C0.
    + inv_ok H; lic_frames EXT Hf Hr Hc CI C0.
    + inv_ok H; lic_frames EXT Hf Hr Hc CI C0.
  - inv_ok H; lic_frames EXT Hf Hr Hc CI C0.
  - split_hyp H; [|split_hyp H]; inv_ok H; lic_frames EXT Hf Hr Hc CI C0.
  - split_hyp H; inv_ok H; lic_frames EXT Hf Hr Hc CI C0.
  - inv_ok H; lic_frames EXT Hf Hr Hc CI C0.
  - split_hyp H; inv_ok H; lic_frames EXT Hf Hr Hc CI C0.
  - (* FBulkCanc *) split_hyp H; [|split_hyp H]; inv_ok H; lic_frames EXT Hf Hr Hc CI C0.
  - split_hyp H; inv_ok H; lic_frames EXT Hf Hr Hc CI C0.
  - inv_ok H; lic_frames EXT Hf Hr Hc CI C0.
  - split_hyp H; inv_ok H; lic_frames EXT Hf Hr Hc CI C0.
  - split_hyp H; [|split_hyp H]; inv_ok H; lic_frames EXT Hf Hr Hc CI C0.
  - (* FInl *) destruct st; try (destruct (exc_step s _ _ c) as [s1 nx] eqn:X; destruct nx as [st'|]; inv_ok H; [pose proof (exc_next_ok _ _ _ _ _ _ X) as NB; destruct st'; try (exfalso; eapply NB; reflexivity)|]; lic_frames EXT Hf Hr Hc CI C0).
    + inv_ok H; lic_frames EXT Hf Hr Hc CI C0.
    + inv_ok H; lic_frames EXT Hf Hr Hc CI C0.
    + inv_ok H; lic_frames EXT Hf Hr Hc CI C0.
    + inv_ok H; lic_frames EXT Hf Hr Hc CI C0.
  - destruct (deq_tok s _) as [[x s1]|] eqn:D; inv_ok H; lic_frames EXT Hf Hr Hc CI C0.
  - split_hyp H; inv_ok H; lic_frames EXT Hf Hr Hc CI C0.
  - destruct (deq_any s) as [[x s1]|] eqn:D; inv_ok H; lic_frames EXT Hf Hr Hc CI C0.
  - destruct (if 0 <? nrings s then deq_any s else None) as [[x s1]|] eqn:D; inv_ok H; lic_frames EXT Hf Hr Hc CI C0.
  - inv_ok H; lic_frames EXT Hf Hr Hc CI C0.
  - split_hyp H; inv_ok H; lic_frames EXT Hf Hr Hc CI C0.
  - destruct (deq_tok s _) as [[x s1]|] eqn:D; inv_ok H; lic_frames EXT Hf Hr Hc CI C0.
  - split_hyp H; inv_ok H; lic_frames EXT Hf Hr Hc CI C0.
  - destruct (deq_any s) as [[x s1]|] eqn:D; inv_ok H; lic_frames EXT Hf Hr Hc CI C0.
  - destruct (if 0 <? nrings s then deq_any s else None) as [[x s1]|] eqn:D; inv_ok H; lic_frames EXT Hf Hr Hc CI C0.
  - split_hyp H; inv_ok H; lic_frames EXT Hf Hr Hc CI C0.
  - split_hyp H; inv_ok H; lic_frames EXT Hf Hr Hc CI C0.
  - inv_ok H; lic_frames EXT Hf Hr Hc CI C0.
  - inv_ok H; lic_frames EXT Hf Hr Hc CI C0.
  - inv_ok H; lic_frames EXT Hf Hr Hc CI C0.
  - inv_ok H; lic_frames EXT Hf Hr Hc CI C0.
  - destruct l0; inv_ok H; lic_frames EXT Hf Hr Hc CI C0.
  - destruct (deq_any s) as [[x s1]|] eqn:D; inv_ok H; lic_frames EXT Hf Hr Hc CI C0.
Qed.

Lemma step1_lic s t ch s' ch' site : Lic s -> step1 s t ch = Some (s', ch', site) -> Lic s'.
Proof.
  intros (CI & C0 & F) H. apply step1_inv in H. destruct H as (th & f & rest & sh' & l & e & N & K & E & ->).
  pose proof (nth_error_In _ _ N) as Hin. pose proof (F _ Hin) as Fth. rewrite K in Fth.
  destruct (step_top_lic _ _ _ _ _ _ _ _ E CI C0 Fth eq_refl) as (EXT & CI' & Fl).
  split; [exact CI'|]. split; [destruct EXT as [L _]; cbn in L |- *; lia|].
  intros th' Hth'. cbn [threads] in Hth'. destruct (in_set_nth _ _ _ _ Hth') as [->|Hold]; [exact Fl|].
  eapply Forall_lic_ext; [exact EXT | apply F; exact Hold].
Qed.
Lemma init_lic u : Lic (init u).
Proof.
  split; [|split; [cbn; lia|]].
  - intros T. cbn. destruct (nth T (su_canc u) false); cbn; split; try lia; split; intros; try discriminate; lia.
  - intros th Hth. cbn in Hth. apply in_map_iff in Hth. destruct Hth as [p [<- _]]. cbn. repeat constructor.
Qed.
Theorem licences u s : reach step1 (init u) s -> Lic s.
Proof.
  intros R. apply (reach_inv step1 Lic (init u)); [apply init_lic | | exact R].
  intros s1 t ch s1' ch' site I E. eapply step1_lic; eauto.
Qed.

(* body call sites: the frame is at a hook point immediately before a functor call *)
Definition body_point (f : frame) : option (nat * Z) :=
  match f with
  | FRawPt T _ _ site _ _ => Some (T, site)
  | FWrap T _ _ (WBodyPt _) => Some (T, 12)
  | FInl T _ _ (WBodyPt _) => Some (T, 29)
  | _ => None
  end.
Theorem no_body_after_cancel u s th f T site :
  reach step1 (init u) s -> In th (threads s) -> In f (stk th) -> body_point f = Some (T, site) ->
  exists L, lic_of f = Some (T, L) /\ 0 < L <= clock (sh s) /\ (cst (sets (sh s) T) = 0 \/ L < cst (sets (sh s) T)).
Proof.
  intros R Hth Hf B. destruct (licences _ _ R) as (_ & _ & F). specialize (F _ Hth). rewrite Forall_forall in F. specialize (F _ Hf).
  unfold lic_ok in F. destruct f; cbn in B; try discriminate.
  - injection B as <- <-. cbn [lic_of] in *. exists lic. split; [reflexivity | exact F].
  - destruct st; try discriminate. injection B as <- <-. cbn [lic_of] in *. exists lic. split; [reflexivity | exact F].
  - destruct st; try discriminate. injection B as <- <-. cbn [lic_of] in *. exists lic. split; [reflexivity | exact F].
Qed.
(* the flag and its ghost stamp agree: cancelled iff some store happened *)
Theorem cancel_stamp u s T : reach step1 (init u) s -> (canc (sets (sh s) T) = false <-> cst (sets (sh s) T) = 0) /\ cst (sets (sh s) T) <= clock (sh s).
Proof. intros R. destruct (licences _ _ R) as (CI & _). apply CI. Qed.
