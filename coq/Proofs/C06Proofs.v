(* C06, part 4: every step preserves the invariant; no reachable state of a program without waits on foreign futures is stuck;
   fair termination; the starvation witness for a program with such a wait. *)
From Coq Require Import ZArith List Bool Arith Lia.
From DV Require Import Base.Sched Model.NestedWaitModel Proofs.C06Measure Proofs.C06Inv Proofs.C06Spawn.
Import ListNotations.

(* ---------- queue surgery ---------- *)
Lemma remove_nth_keep {A} (l : list A) i u d : In u l -> u <> nth i l d -> In u (remove_nth l i).
Proof.
  revert i; induction l as [|z r IH]; intros [|i] Hin Hne; cbn in *; try tauto.
  - destruct Hin as [->|H]; [contradiction | exact H].
  - destruct Hin as [->|H]; [left; reflexivity | right; apply IH; assumption].
Qed.

Lemma filter_neqb_in t l u : In u (filter (neqb t) l) <-> In u l /\ u <> t.
Proof.
  rewrite filter_In. unfold neqb. split; intros [H1 H2]; split; auto.
  - apply negb_true_iff in H2. apply Nat.eqb_neq in H2. exact H2.
  - apply negb_true_iff. apply Nat.eqb_neq. exact H2.
Qed.

Lemma take_at_spec s i : i < length (cq s ++ steal s) ->
  exists c' st', take_at s i = with_queues s c' st' /\
    (forall u, In u (c' ++ st') -> In u (cq s ++ steal s)) /\
    (forall u, In u (cq s ++ steal s) -> u <> nth i (cq s ++ steal s) 0 -> In u (c' ++ st')) /\
    (forall u, In u st' -> In u (steal s)).
Proof.
  intros Hi. unfold take_at. destruct (i <? length (cq s)) eqn:E.
  - apply Nat.ltb_lt in E. exists (remove_nth (cq s) i), (steal s). split; [reflexivity|]. rewrite app_nth1 by exact E. repeat split.
    + intros u Hu. apply in_app_or in Hu. apply in_or_app. destruct Hu as [H|H]; [left; eapply remove_nth_in; exact H | right; exact H].
    + intros u Hu Hne. apply in_app_or in Hu. apply in_or_app. destruct Hu as [H|H]; [left; apply remove_nth_keep with (d := 0); assumption | right; exact H].
    + auto.
  - apply Nat.ltb_ge in E. exists (cq s), (remove_nth (steal s) (i - length (cq s))). split; [reflexivity|]. rewrite app_nth2 by exact E. repeat split.
    + intros u Hu. apply in_app_or in Hu. apply in_or_app. destruct Hu as [H|H]; [left; exact H | right; eapply remove_nth_in; exact H].
    + intros u Hu Hne. apply in_app_or in Hu. apply in_or_app. destruct Hu as [H|H]; [left; exact H | right; apply remove_nth_keep with (d := 0); assumption].
    + intros u Hu. eapply remove_nth_in. exact Hu.
Qed.

Lemma set_nth_twice {A} (l : list A) a x y : set_nth (set_nth l a x) a y = set_nth l a y.
Proof. revert a; induction l as [|z r IH]; intros [|a]; cbn; auto. f_equal. apply IH. Qed.

(* starting a task on an explicitly given stack = first installing that stack, then starting on the current one *)
Lemma start_task_restack s a stk c' st' t : a < length (agents s) ->
  start_task (with_queues s c' st') a stk t =
  start_task (with_queues (with_stack s a stk) c' st') a (stack (agent_of (with_stack s a stk) a)) t.
Proof.
  intros Ha. unfold start_task, with_stack, with_agent, with_queues, with_tstate, tick, task_of, agent_of.
  cbn [tasks joins cq steal agents clock]. rewrite (nth_set_nth_same (agents s) a _ dagent Ha). cbn [stack parked worker].
  rewrite set_nth_twice. reflexivity.
Qed.

Lemma noup_tail o r : noup (o :: r) = true -> noup r = true.
Proof. intros H. apply noup_cons in H. tauto. Qed.

(* ---------- every step preserves the invariant ---------- *)
Lemma inv_wait_join s a x r below gj j : Inv s -> a < length (agents s) -> stack (agent_of s a) = x :: below ->
  noup r = true -> In (j, gj) (a_own x) -> Inv (wait_join s a x r below gj).
Proof.
  intros I Ha Hst Hnr Hin.
  assert (Hx : In x (acts s)) by (apply in_acts; exists (agent_of s a); split; [apply agent_in; exact Ha | rewrite Hst; left; reflexivity]).
  destruct (i_own s I x j gj Hx Hin) as [R O].
  unfold wait_join. destruct (j_kind (join_of s gj)) eqn:K.
  - apply inv_top; try assumption. cbn. auto.
  - destruct (fut_state s gj) eqn:F.
    + unfold untimed_wait_inline. cbn [andb]. destruct (existsb (Nat.eqb (j_ftask (join_of s gj))) (cq s ++ steal s)) eqn:Ex.
      * apply existsb_eqb_in in Ex. set (t := j_ftask (join_of s gj)) in *.
        rewrite start_task_restack by exact Ha.
        set (sT := with_stack s a (set_top x r MRun :: below)).
        assert (IT : Inv sT) by (apply inv_top; try assumption; exact Logic.I).
        apply inv_start.
        -- exact IT.
        -- unfold sT, with_stack. rewrite agents_with_agent, set_nth_length. exact Ha.
        -- unfold sT, with_stack. rewrite agent_of_with_agent_same by exact Ha. cbn [parked].
           destruct (parked (agent_of s a)) eqn:E; [|reflexivity]. pose proof (i_parked s I _ (agent_in s a Ha) E) as C. rewrite Hst in C. discriminate.
        -- intros u Hu. change (cq sT) with (cq s). change (steal sT) with (steal s). apply in_app_or in Hu. apply in_or_app.
           destruct Hu as [H|H]; apply filter_neqb_in in H; tauto.
        -- intros u Hu Hne. change (cq sT) with (cq s) in Hu. change (steal sT) with (steal s) in Hu. apply in_app_or in Hu. apply in_or_app.
           destruct Hu as [H|H]; [left | right]; apply filter_neqb_in; auto.
        -- intros u Hu. change (steal sT) with (steal s). apply filter_neqb_in in Hu. tauto.
        -- exact Ex.
      * apply inv_top; try assumption. exact Logic.I.
    + apply inv_top; try assumption. cbn. repeat split; auto; [rewrite K; reflexivity | unfold fut_state in F; rewrite F; discriminate].
    + apply inv_top; try assumption. exact Logic.I.
Qed.

Theorem step_inv s a ch s' ch' site : Inv s -> step s a ch = Some (s', ch', site) -> Inv s'.
Proof.
  intros I. unfold step.
  destruct (length (agents s) <=? a) eqn:El; [discriminate|]. apply Nat.leb_gt in El.
  destruct (stack (agent_of s a)) as [|x below] eqn:Hst.
  - destruct (negb (worker (agent_of s a)) || parked (agent_of s a)) eqn:Eb; [discriminate|].
    apply orb_false_elim in Eb. destruct Eb as [Ew Ep]. apply negb_false_iff in Ew.
    destruct (cq s ++ steal s) as [|t0 pool'] eqn:Epool.
    + intros H. inversion H; subst. apply inv_flags; [exact I | exact El | rewrite Hst; reflexivity | cbn; rewrite Ew; reflexivity|].
      intros _. split; [reflexivity|]. apply app_eq_nil in Epool. tauto.
    + destruct (choice ch) as [c ch1] eqn:Ec. cbv zeta.
      set (i := Nat.modulo c (length (t0 :: pool'))).
      assert (Hi : i < length (cq s ++ steal s)) by (rewrite Epool; apply mod_lt_len; cbn; lia).
      intros H. injection H as E1 _ _. rewrite <- E1.
      destruct (take_at_spec s i Hi) as (c' & st' & E & H1 & H2 & H3). rewrite E.
      change (match i with 0 => t0 | S m => nth m pool' 0 end) with (nth i (t0 :: pool') 0).
      rewrite <- Epool. rewrite <- Hst.
      apply inv_start; try assumption. apply nth_In. exact Hi.
  - assert (Hx : In x (acts s)) by (apply in_acts; exists (agent_of s a); split; [apply agent_in; exact El | rewrite Hst; left; reflexivity]).
    assert (Pf : parked (agent_of s a) = false).
    { destruct (parked (agent_of s a)) eqn:E; [|reflexivity]. pose proof (i_parked s I _ (agent_in s a El) E) as C. rewrite Hst in C. discriminate. }
    pose proof (i_noup_a s I x Hx) as Hn.
    destruct (a_mode x) as [|gj|gj] eqn:Hm.
    + destruct (a_ops x) as [|o r] eqn:Hops.
      * intros H. inversion H; subst. apply inv_finish; assumption.
      * destruct o as [|j k body|j|j].
        -- intros H. inversion H; subst. apply inv_top; try assumption; try exact Logic.I; try (eapply noup_tail; exact Hn).
        -- destruct (choice ch) as [c ch1]. intros H. inversion H; subst. apply inv_spawn; assumption.
        -- destruct (assoc j (a_own x)) as [g0|] eqn:Ea.
           ++ intros H. inversion H; subst. apply (inv_wait_join s a x r below g0 j); try assumption; try (eapply noup_tail; exact Hn); try (apply assoc_in; exact Ea).
           ++ intros H. inversion H; subst. apply inv_top; try assumption; try exact Logic.I; try (eapply noup_tail; exact Hn).
        -- exfalso. apply noup_cons in Hn. destruct Hn as [C _]. cbn in C. discriminate.
    + destruct (set_done s gj).
      * intros H. inversion H; subst. apply inv_top; try assumption. exact Logic.I.
      * destruct (cq s) as [|t0 pool'] eqn:Ecq.
        -- intros H. inversion H; subst. exact I.
        -- destruct (choice ch) as [c ch1]. cbv zeta.
           set (i := Nat.modulo c (length (t0 :: pool'))).
           assert (Hi : i < length (cq s)) by (rewrite Ecq; apply mod_lt_len; cbn; lia).
           intros H. injection H as E1 _ _. rewrite <- E1.
           change (match i with 0 => t0 | S m => nth m pool' 0 end) with (nth i (t0 :: pool') 0).
           change (match i with 0 => pool' | S m => t0 :: remove_nth pool' m end) with (remove_nth (t0 :: pool') i).
           rewrite <- Ecq. rewrite <- Hst. apply inv_start; try assumption.
           ++ intros u Hu. apply in_app_or in Hu. apply in_or_app. destruct Hu as [H|H]; [left; eapply remove_nth_in; exact H | right; exact H].
           ++ intros u Hu Hne. apply in_app_or in Hu. apply in_or_app. destruct Hu as [H|H]; [left; apply remove_nth_keep with (d := 0); assumption | right; exact H].
           ++ auto.
           ++ apply in_or_app. left. apply nth_In. exact Hi.
    + destruct (is_done (fut_state s gj)); [|discriminate].
      intros H. inversion H; subst. apply inv_top; try assumption. exact Logic.I.
Qed.

(* ---------- the initial state ---------- *)
Lemma in_repeat {A} (x y : A) n : In y (repeat x n) -> y = x.
Proof. apply repeat_spec. Qed.

Lemma inv_init p n : noup p = true -> Inv (init p n).
Proof.
  intros Hp. unfold init.
  assert (Hacts : forall y, In y (acts (init p n)) -> y = ACT 0 p [] [] MRun 1).
  { intros y Hy. apply in_acts in Hy. destruct Hy as (g & Hg & Hy). cbn [agents init] in Hg. destruct Hg as [<-|Hg].
    - cbn in Hy. destruct Hy as [<-|[]]. reflexivity.
    - apply in_repeat in Hg. subst. contradiction. }
  constructor.
  - intros t Ht. cbn in Ht. contradiction.
  - intros g Hg. cbn [agents] in Hg. destruct Hg as [<-|Hg]; [cbn; tauto | apply in_repeat in Hg; subst; exact Logic.I].
  - intros y Hy. rewrite (Hacts y Hy). cbn. lia.
  - intros j Hj. cbn in Hj. destruct Hj as [<-|[]]. cbn. lia.
  - intros y m gj Hy Hm. rewrite (Hacts y Hy) in Hm. contradiction.
  - intros y gj Hy Hm. rewrite (Hacts y Hy) in Hm. cbn in Hm. destruct Hm; discriminate.
  - intros y Hy. rewrite (Hacts y Hy). exact Hp.
  - intros t Ht. cbn in Ht. destruct Ht as [<-|[]]. exact Hp.
  - intros t Ht Hs. cbn [tasks length] in Ht. assert (t = 0) by lia. subst.
    exists (ACT 0 p [] [] MRun 1). split; [apply in_acts; eexists; split; [left; reflexivity | left; reflexivity]|]. split; [reflexivity|]. cbn. lia.
  - intros t Ht Hs. cbn [tasks length] in Ht. assert (t = 0) by lia. subst. cbn in Hs. discriminate.
  - intros gj Hg Hk. cbn [joins length] in Hg. assert (gj = 0) by lia. subst. cbn in Hk. discriminate.
  - intros y gj Hy Hm. rewrite (Hacts y Hy) in Hm. discriminate.
  - intros g Hg Hpk. cbn [agents] in Hg. destruct Hg as [<-|Hg]; [discriminate | apply in_repeat in Hg; subst; reflexivity].
  - intros H. cbn in H. contradiction.
  - cbn. split; [lia | reflexivity].
  - intros t Ht. cbn [tasks length] in Ht. assert (t = 0) by lia. subst. cbn. lia.
Qed.

Theorem reach_Inv p n s : noup p = true -> reach step (init p n) s -> Inv s.
Proof.
  intros Hp R. apply (reach_inv step Inv (init p n)); [apply inv_init; exact Hp | | exact R].
  intros s0 t ch s1 ch1 site I E. eapply step_inv; eauto.
Qed.

(* ---------- no reachable state is stuck (safety) ---------- *)
Lemma exists_max {A} (f : A -> nat) (l : list A) : l <> [] -> exists x, In x l /\ forall y, In y l -> f y <= f x.
Proof.
  induction l as [|z r IH]; [congruence|]. intros _. destruct r as [|z' r'].
  - exists z. split; [left; reflexivity|]. intros y [<-|[]]. lia.
  - destruct (IH ltac:(discriminate)) as (m & Hm & Hall). destruct (Nat.le_ge_cases (f m) (f z)) as [Hle|Hle].
    + exists z. split; [left; reflexivity|]. intros y [<-|Hy]; [lia|]. specialize (Hall y Hy). lia.
    + exists m. split; [right; exact Hm|]. intros y [<-|Hy]; [lia | apply Hall; exact Hy].
Qed.

Lemma max_is_top s L : Inv s -> In L (acts s) -> (forall y, In y (acts s) -> a_start y <= a_start L) ->
  exists a below, a < length (agents s) /\ stack (agent_of s a) = L :: below.
Proof.
  intros I HL Hmax. apply in_acts in HL. destruct HL as (g & Hg & HLg).
  destruct (in_nth_ex _ _ dagent Hg) as (a & Ha & Ea). exists a.
  pose proof (i_sorted s I g Hg) as S. destruct (stack g) as [|h r] eqn:Est; [contradiction|].
  exists r. split; [exact Ha|]. unfold agent_of. rewrite Ea, Est. f_equal.
  destruct HLg as [->|Hin]; [reflexivity|]. exfalso. cbn in S. destruct S as [S _].
  assert (Hh : In h (acts s)) by (apply in_acts; exists g; split; [exact Hg | rewrite Est; left; reflexivity]).
  specialize (Hmax h Hh). specialize (S (a_start L) (in_map a_start r L Hin)). lia.
Qed.

Lemma not_set_done s gj : set_done s gj = false -> exists u, u < length (tasks s) /\ t_join (task_of s u) = gj /\ t_st (task_of s u) <> TDone.
Proof.
  unfold set_done. intros H. assert (E : exists tr, In tr (tasks s) /\ (negb (Nat.eqb (t_join tr) gj) || is_done (t_st tr)) = false).
  { revert H. induction (tasks s) as [|z r IH]; cbn; [discriminate|]. intros H. apply andb_false_iff in H. destruct H as [H|H].
    - exists z. auto.
    - destruct (IH H) as (tr & Htr & E). exists tr. auto. }
  destruct E as (tr & Htr & E). apply orb_false_elim in E. destruct E as [E1 E2]. apply negb_false_iff in E1. apply Nat.eqb_eq in E1.
  destruct (in_nth_ex _ _ dtask Htr) as (u & Hu & Eu). exists u. unfold task_of. rewrite Eu. repeat split; auto.
  intros C. rewrite C in E2. discriminate.
Qed.

Lemma idle_worker_progress s w : In w (agents s) -> worker w = true -> parked w = false -> stack w = [] -> exists b, status_of s b = Progress.
Proof.
  intros Hw Ww Pw Sw. destruct (in_nth_ex _ _ dagent Hw) as (b & Hb & Eb). exists b. unfold status_of.
  assert (E : (length (agents s) <=? b) = false) by (apply Nat.leb_gt; exact Hb). rewrite E.
  unfold agent_of. rewrite Eb, Sw, Ww, Pw. reflexivity.
Qed.

Theorem no_stuck s : Inv s -> finished s = false -> exists a, status_of s a = Progress.
Proof.
  intros I Hf. unfold finished in Hf. destruct (stack (agent_of s 0)) as [|x0 r0] eqn:E0; [discriminate|].
  destruct (i_root s I) as [H0 _].
  assert (Hne : acts s <> []).
  { intros C. assert (In x0 (acts s)) by (apply in_acts; exists (agent_of s 0); split; [apply agent_in; exact H0 | rewrite E0; left; reflexivity]).
    rewrite C in H. contradiction. }
  destruct (exists_max a_start (acts s) Hne) as (L & HL & Hmax).
  destruct (max_is_top s L I HL Hmax) as (a & below & Ha & Hst).
  assert (Contra : forall y, In y (acts s) -> a_start L < a_start y -> False) by (intros y Hy Hlt; specialize (Hmax y Hy); lia).
  assert (El : (length (agents s) <=? a) = false) by (apply Nat.leb_gt; exact Ha).
  destruct (a_mode L) as [|gj|gj] eqn:Hm.
  - exists a. unfold status_of. rewrite El, Hst, Hm. reflexivity.
  - destruct (i_mode s I L gj HL (or_introl Hm)) as [R O].
    destruct (set_done s gj) eqn:Ed; [exists a; unfold status_of; rewrite El, Hst, Hm, Ed; reflexivity|].
    destruct (cq s) as [|t0 q] eqn:Ecq; [|exists a; unfold status_of; rewrite El, Hst, Hm, Ed, Ecq; reflexivity].
    destruct (not_set_done s gj Ed) as (u & Hu & Ej & Hnd).
    assert (Eo : ostart_of s u = a_start L) by (unfold ostart_of; rewrite Ej; exact O).
    destruct (t_st (task_of s u)) eqn:Est; [| |contradiction].
    + pose proof (i_queued s I u Hu Est) as Hq. rewrite Ecq in Hq. cbn [app] in Hq.
      assert (Hsn : steal s <> []) by (intros C; rewrite C in Hq; contradiction).
      destruct (i_steal s I Hsn) as (w & Hw & Ww & Pw & Hall).
      destruct (stack w) as [|y ry] eqn:Esw; [apply (idle_worker_progress s w Hw Ww Pw Esw)|].
      exfalso. apply (Contra y); [apply in_acts; exists w; split; [exact Hw | rewrite Esw; left; reflexivity]|].
      rewrite <- Eo. apply (Hall u y Hq). left. reflexivity.
    + destruct (i_active s I u Hu Est) as (y & Hy & _ & Ly). exfalso. apply (Contra y Hy). rewrite <- Eo. exact Ly.
  - destruct (i_mode s I L gj HL (or_intror Hm)) as [R O].
    destruct (is_done (fut_state s gj)) eqn:Ed; [exists a; unfold status_of; rewrite El, Hst, Hm, Ed; reflexivity|].
    destruct (i_waitfut s I L gj HL Hm) as (_ & K & Q). destruct (i_fut s I gj R K) as [F1 F2].
    set (u := j_ftask (join_of s gj)) in *.
    assert (Eo : ostart_of s u = a_start L) by (unfold ostart_of; rewrite F2; exact O).
    unfold fut_state in Ed. fold u in Ed. destruct (t_st (task_of s u)) eqn:Est; [contradiction | | discriminate].
    destruct (i_active s I u F1 Est) as (y & Hy & _ & Ly). exfalso. apply (Contra y Hy). rewrite <- Eo. exact Ly.
Qed.

(* ---------- fair termination ---------- *)
Lemma run_sched_nil s : run_sched s [] = s.
Proof. cbn. destruct (finished s); reflexivity. Qed.

Lemma run_sched_mono : forall sch s, Inv s -> Inv (run_sched s sch) /\ mu (run_sched s sch) <= mu s.
Proof.
  induction sch as [|[a ch] r IH]; intros s I; [rewrite run_sched_nil; auto|].
  cbn [run_sched]. destruct (finished s); [auto|].
  destruct (step s a ch) as [[[s1 ch1] site]|] eqn:E; [|apply IH; exact I].
  pose proof (step_inv s a ch s1 ch1 site I E) as I1. destruct (IH s1 I1) as [J M].
  split; [exact J|]. destruct (step_mu s a ch s1 ch1 site (i_range s I) E) as [->|Hlt]; lia.
Qed.

Lemma round_progress : forall rd s, Inv s -> finished s = false ->
  (exists a ch, In (a, ch) rd /\ status_of s a = Progress) ->
  finished (run_sched s rd) = true \/ mu (run_sched s rd) < mu s.
Proof.
  induction rd as [|[b ch] r IH]; intros s I Hf (a & cha & Hin & Hp); [contradiction|].
  cbn [run_sched]. rewrite Hf.
  destruct (step s b ch) as [[[s1 ch1] site]|] eqn:E.
  - pose proof (step_inv s b ch s1 ch1 site I E) as I1. destruct (run_sched_mono r s1 I1) as [_ M].
    destruct (step_mu s b ch s1 ch1 site (i_range s I) E) as [->|Hlt]; [|right; lia].
    (* a spin: the state is unchanged, the progressing agent is still to come (b itself cannot be it) *)
    destruct Hin as [Heq|Hin].
    + inversion Heq; subst. destruct (progress_step s a cha (i_range s I) Hp) as (s2 & c2 & st2 & E2 & Hlt). rewrite E2 in E. inversion E; subst. lia.
    + apply IH; [exact I | exact Hf | exists a, cha; auto].
  - destruct Hin as [Heq|Hin].
    + inversion Heq; subst. destruct (progress_step s a cha (i_range s I) Hp) as (s2 & c2 & st2 & E2 & _). rewrite E2 in E. discriminate.
    + apply IH; [exact I | exact Hf | exists a, cha; auto].
Qed.

Lemma len_with_stack s a st : length (agents (with_stack s a st)) = length (agents s).
Proof. unfold with_stack. rewrite agents_with_agent. apply set_nth_length. Qed.
Lemma len_start_task s a below t : length (agents (start_task s a below t)) = length (agents s).
Proof. unfold start_task. cbv zeta. rewrite len_with_stack. reflexivity. Qed.
Lemma len_take_at s i : length (agents (take_at s i)) = length (agents s).
Proof. unfold take_at. destruct (i <? length (cq s)); reflexivity. Qed.
Lemma len_wait_join s a x r below gj : length (agents (wait_join s a x r below gj)) = length (agents s).
Proof.
  unfold wait_join. destruct (j_kind (join_of s gj)); [apply len_with_stack|].
  destruct (fut_state s gj); try apply len_with_stack.
  destruct (untimed_wait_inline _ && existsb _ _); [rewrite len_start_task; reflexivity | apply len_with_stack].
Qed.
Lemma len_spawn s a x r below j k body c : length (agents (spawn s a x r below j k body c)) = length (agents s).
Proof.
  unfold spawn. cbv zeta. destruct (Nat.modulo c 3) as [|[|[|m]]]; destruct (first_parked (agents s) 0);
    rewrite ?agents_with_agent, ?set_nth_length, ?len_with_stack; reflexivity.
Qed.

Lemma step_agents_len s a ch s' ch' site : step s a ch = Some (s', ch', site) -> length (agents s') = length (agents s).
Proof.
  unfold step. destruct (length (agents s) <=? a); [discriminate|].
  destruct (stack (agent_of s a)) as [|x below].
  - destruct (negb (worker (agent_of s a)) || parked (agent_of s a)); [discriminate|].
    destruct (cq s ++ steal s) as [|t0 pool'].
    + intros H. injection H as <- _ _. rewrite agents_with_agent. apply set_nth_length.
    + destruct (choice ch) as [c ch1]. cbv zeta. intros H. injection H as <- _ _. rewrite len_start_task. apply len_take_at.
  - destruct (a_mode x) as [|gj|gj].
    + destruct (a_ops x) as [|o r].
      * intros H. injection H as <- _ _. rewrite len_with_stack. reflexivity.
      * destruct o as [|j k body|j|j].
        -- intros H. injection H as <- _ _. apply len_with_stack.
        -- destruct (choice ch) as [c ch1]. intros H. injection H as <- _ _. apply len_spawn.
        -- destruct (assoc j (a_own x)); intros H; injection H as <- _ _; [apply len_wait_join | apply len_with_stack].
        -- destruct (assoc j (a_cap x)); intros H; injection H as <- _ _; [apply len_wait_join | apply len_with_stack].
    + destruct (set_done s gj); [intros H; injection H as <- _ _; apply len_with_stack|].
      destruct (cq s) as [|t0 pool']; [intros H; injection H as <- _ _; reflexivity|].
      destruct (choice ch) as [c ch1]. cbv zeta. intros H. injection H as <- _ _. rewrite len_start_task. reflexivity.
    + destruct (is_done (fut_state s gj)); [|discriminate]. intros H. injection H as <- _ _. apply len_with_stack.
Qed.

Lemma run_sched_agents_len : forall sch s, length (agents (run_sched s sch)) = length (agents s).
Proof.
  induction sch as [|[b c] r IH]; intros s; [rewrite run_sched_nil; reflexivity|].
  cbn [run_sched]. destruct (finished s); [reflexivity|]. destruct (step s b c) as [[[s1 c1] st]|] eqn:E; [|apply IH].
  rewrite IH. eapply step_agents_len. exact E.
Qed.

Lemma status_progress_lt s a : status_of s a = Progress -> a < length (agents s).
Proof. unfold status_of. destruct (length (agents s) <=? a) eqn:E; [discriminate|]. intros _. apply Nat.leb_gt in E. exact E. Qed.

Lemma run_sched_app : forall l1 l2 s, run_sched s (l1 ++ l2) = run_sched (run_sched s l1) l2.
Proof.
  induction l1 as [|[a ch] r IH]; intros l2 s.
  - rewrite run_sched_nil. reflexivity.
  - cbn [app run_sched]. destruct (finished s) eqn:F.
    + destruct l2 as [|[b c2] r2]; cbn [run_sched]; rewrite F; reflexivity.
    + destruct (step s a ch) as [[[s1 ch1] site]|]; apply IH.
Qed.

Lemma run_sched_finished s sch : finished s = true -> run_sched s sch = s.
Proof. intros F. destruct sch as [|[a ch] r]; cbn [run_sched]; rewrite F; reflexivity. Qed.

(* every round in which each agent gets a turn makes progress or completes the program *)
Lemma fair_rounds : forall rounds s, Inv s ->
  (forall rd, In rd rounds -> fair_round (length (agents s)) rd) ->
  finished (run_sched s (concat rounds)) = true \/ mu (run_sched s (concat rounds)) + length rounds <= mu s.
Proof.
  induction rounds as [|rd rs IH]; intros s I Hfair; [right; cbn [concat]; rewrite run_sched_nil; cbn; lia|].
  cbn [concat]. rewrite run_sched_app. destruct (finished s) eqn:F.
  - left. rewrite (run_sched_finished s rd F). rewrite (run_sched_finished s _ F). exact F.
  - destruct (no_stuck s I F) as (a & Hp).
    destruct (Hfair rd (or_introl eq_refl) a (status_progress_lt s a Hp)) as (ch & Hin).
    destruct (run_sched_mono rd s I) as [I1 M1].
    destruct (round_progress rd s I F (ex_intro _ a (ex_intro _ ch (conj Hin Hp)))) as [Fin|Hlt].
    + left. rewrite (run_sched_finished _ _ Fin). exact Fin.
    + destruct (IH (run_sched s rd) I1) as [Fin|Hle].
      * intros rd' Hrd'. rewrite run_sched_agents_len. apply Hfair. right. exact Hrd'.
      * left. exact Fin.
      * right. cbn [length]. lia.
Qed.

Theorem fair_termination_proof p n rounds : noup p = true ->
  (forall rd, In rd rounds -> fair_round (S n) rd) -> mu (init p n) <= length rounds ->
  finished (run_sched (init p n) (concat rounds)) = true.
Proof.
  intros Hp Hfair Hlen. pose proof (inv_init p n Hp) as I.
  assert (Hag : length (agents (init p n)) = S n) by (cbn; rewrite repeat_length; reflexivity).
  destruct (fair_rounds rounds (init p n) I) as [Fin|Hle]; [rewrite Hag; exact Hfair | exact Fin|].
  destruct (finished (run_sched (init p n) (concat rounds))) eqn:F; [reflexivity|]. exfalso.
  destruct (run_sched_mono (concat rounds) (init p n) I) as [I1 _].
  destruct (no_stuck _ I1 F) as (a & Hpr).
  destruct (progress_step _ a [] (i_range _ I1) Hpr) as (s2 & c2 & st2 & _ & Hlt). lia.
Qed.

(* safety, in the form asked for: in no reachable state is every agent blocked / parked / spinning while the program is unfinished *)
Theorem no_stuck_with_work_proof p n s : noup p = true -> reach step (init p n) s -> finished s = false ->
  exists a, status_of s a = Progress /\ forall ch, exists s' ch' site, step s a ch = Some (s', ch', site) /\ mu s' < mu s.
Proof.
  intros Hp R F. pose proof (reach_Inv p n s Hp R) as I. destruct (no_stuck s I F) as (a & Ha). exists a. split; [exact Ha|].
  intros ch. apply progress_step; [apply (i_range s I) | exact Ha].
Qed.

(* who covers a queued task: the central queue / locality rings are polled by every set-waiter on top of a stack (its step
   is a Progress step whenever they are non-empty: see status_of), a task in the steal ring has an awake worker of the group
   whose stack holds only activations younger than the task's submitter *)
Theorem waiters_cover_proof p n s : noup p = true -> reach step (init p n) s ->
  (forall t, t < length (tasks s) -> t_st (task_of s t) = TQueued -> In t (cq s ++ steal s)) /\
  (forall a x below gj, a < length (agents s) -> stack (agent_of s a) = x :: below -> a_mode x = MWaitSet gj ->
     cq s <> [] -> status_of s a = Progress) /\
  (steal s <> [] -> exists w, In w (agents s) /\ worker w = true /\ parked w = false /\
     forall t x, In t (steal s) -> In x (stack w) -> ostart_of s t < a_start x).
Proof.
  intros Hp R. pose proof (reach_Inv p n s Hp R) as I. split; [exact (i_queued s I)|]. split; [|exact (i_steal s I)].
  intros a x below gj Ha Hst Hm Hne. unfold status_of.
  assert (El : (length (agents s) <=? a) = false) by (apply Nat.leb_gt; exact Ha). rewrite El, Hst, Hm.
  destruct (set_done s gj); [reflexivity|]. destruct (cq s); [contradiction | reflexivity].
Qed.

(* ---------- the starvation witness (a wait on a future of an enclosing body) ---------- *)
(* root: F1 = async { S2 += leaf; wait S2 };  S3 += { wait F1 };  wait S3;  wait F1.     One pool worker.
   Schedule: the worker takes F1's functor, submits the leaf and enters S2.wait(); the root submits the waiter task and enters
   S3.wait(), where it takes the LEAF; the worker's wait takes the WAITER task and runs it on top of F1's functor: Future::wait
   finds F1 running -- by the very thread that now blocks on it.  The leaf finishes; F1's functor can never resume. *)
Definition witness : list op := [OSpawn 1 (JFut true) [OSpawn 2 JSet [OWork]; OWait 2]; OSpawn 3 JSet [OWaitUp 1]; OWait 3; OWait 1].
Definition witness_sched : list Z := [0;1; 1;0; 1;1; 1; 0;1; 0; 0;0; 1;0; 1; 0; 0]%Z.
Definition dead : state := fst (fst (run_nested 40 witness 1 witness_sched)).

Lemma dead_reachable : reach step (init witness 1) dead.
Proof. unfold dead, run_nested. apply run_reach. apply reach_refl. Qed.

Lemma dead_shape : finished dead = false /\ map (status_of dead) [0; 1] = [Spin; Blocked] /\ cq dead = [] /\ steal dead = [] /\
  map (fun g => map (fun x => (a_task x, a_mode x)) (stack g)) (agents dead) = [[(0, MWaitSet 3)]; [(3, MWaitFut 1); (1, MWaitSet 2)]].
Proof. vm_compute. repeat split; reflexivity. Qed.

(* [dead] is a big computed term: keep hnf / simpl away from it (vm_compute still evaluates it) *)
Global Opaque dead.

(* nothing can ever move again: the root spins in its wait, the worker sleeps in the futex *)
Lemma dead_step a ch : step dead a ch = None \/ exists ch' site, step dead a ch = Some (dead, ch', site).
Proof.
  destruct a as [|[|a]].
  - right. exists ch, site_spin. vm_compute. reflexivity.
  - left. vm_compute. reflexivity.
  - left. unfold step. replace (length (agents dead) <=? S (S a)) with true; [reflexivity|].
    symmetry. apply Nat.leb_le. vm_compute. lia.
Qed.

Lemma dead_forever s : reach step dead s -> s = dead.
Proof.
  intros R. induction R as [|s1 t ch s2 ch2 site R IH E]; [reflexivity|]. subst s1.
  destruct (dead_step t ch) as [N|(c & st & S)].
  - rewrite N in E. discriminate E.
  - rewrite S in E.
    apply (f_equal (fun o : option (state * list Z * Z) => match o with Some (x, _, _) => x | None => s2 end)) in E.
    cbv beta iota in E. symmetry. exact E.
Qed.

Lemma witness_acyclic : acyclic witness.
Proof.
  exists (fun x => match x with 0 => 3 | 3 => 2 | 1 => 1 | _ => 0 end).
  intros x y H. vm_compute in H. repeat (destruct H as [H|H]; [inversion H; subst; cbn; lia|]). contradiction.
Qed.

Lemma witness_has_foreign_wait : noup witness = false.
Proof. reflexivity. Qed.

Theorem C06_refuted_proof : exists p n s,
  acyclic p /\ reach step (init p n) s /\ finished s = false /\
  (forall a, status_of s a <> Progress) /\ (forall s', reach step s s' -> s' = s).
Proof.
  exists witness, 1, dead. split; [exact witness_acyclic|]. split; [exact dead_reachable|]. destruct dead_shape as (F & St & _).
  split; [exact F|]. split; [|exact dead_forever].
  intros a. destruct a as [|[|a]].
  - assert (E0 : status_of dead 0 = Spin) by (vm_compute; reflexivity). rewrite E0. discriminate.
  - assert (E1 : status_of dead 1 = Blocked) by (vm_compute; reflexivity). rewrite E1. discriminate.
  - unfold status_of. replace (length (agents dead) <=? S (S a)) with true; [discriminate|]. symmetry. apply Nat.leb_le. vm_compute. lia.
Qed.

(* the same starvation under a FAIR schedule of rounds: every round gives both agents a turn *)
Definition witness_rounds : list (list (nat * list Z)) :=
  [[(0, [1%Z]); (1, [0%Z])]; [(1, [1%Z]); (1, []); (0, [1%Z])]; [(0, []); (0, [0%Z]); (1, [0%Z])]; [(1, []); (0, [])]; [(0, []); (1, [])]].

Lemma run_sched_reach : forall sch s, reach step s (run_sched s sch).
Proof.
  induction sch as [|[a ch] r IH]; intros s; [rewrite run_sched_nil; apply reach_refl|].
  cbn [run_sched]. destruct (finished s); [apply reach_refl|].
  destruct (step s a ch) as [[[s1 c1] st]|] eqn:E; [|apply IH].
  eapply reach_trans; [eapply reach_step; [apply reach_refl | exact E] | apply IH].
Qed.

Lemma witness_rounds_dead : run_sched (init witness 1) (concat witness_rounds) = dead.
Proof. vm_compute. reflexivity. Qed.

Lemma witness_rounds_fair rd : In rd witness_rounds -> fair_round 2 rd.
Proof.
  intros H a Ha. assert (a = 0 \/ a = 1) as [->| ->] by lia;
    repeat (destruct H as [<-|H]; [eexists; cbn; eauto 6|]); contradiction.
Qed.

Definition full_statement : Prop :=
  forall p n rounds, acyclic p -> (forall rd, In rd rounds -> fair_round (S n) rd) -> mu (init p n) <= length rounds ->
  finished (run_sched (init p n) (concat rounds)) = true.

Theorem full_statement_false : ~ full_statement.
Proof.
  intros H.
  pose (extra := repeat [(0, @nil Z); (1, @nil Z)] (mu (init witness 1))).
  assert (Hf : forall rd, In rd (witness_rounds ++ extra) -> fair_round 2 rd).
  { intros rd Hrd. apply in_app_or in Hrd. destruct Hrd as [Hrd|Hrd]; [apply witness_rounds_fair; exact Hrd|].
    apply repeat_spec in Hrd. subst. intros a Ha. assert (a = 0 \/ a = 1) as [->| ->] by lia; eexists; cbn; eauto. }
  assert (Hlen : mu (init witness 1) <= length (witness_rounds ++ extra)).
  { rewrite app_length. unfold extra. rewrite repeat_length. lia. }
  pose proof (H witness 1 (witness_rounds ++ extra) witness_acyclic Hf Hlen) as G.
  rewrite concat_app, run_sched_app, witness_rounds_dead in G.
  rewrite (dead_forever _ (run_sched_reach (concat extra) dead)) in G.
  destruct dead_shape as (F & _). rewrite F in G. discriminate G.
Qed.

Lemma step_measure_proof p n s a ch s' ch' site : noup p = true -> reach step (init p n) s ->
  step s a ch = Some (s', ch', site) -> s' = s \/ mu s' < mu s.
Proof. intros Hp R. apply step_mu. apply (i_range s (reach_Inv p n s Hp R)). Qed.

Lemma holds_except_proof p n rounds : foreign_wait p = false ->
  (forall rd, In rd rounds -> fair_round (S n) rd) -> mu (init p n) <= length rounds ->
  finished (run_sched (init p n) (concat rounds)) = true.
Proof.
  intros Hd. apply fair_termination_proof. unfold foreign_wait in Hd. apply negb_false_iff in Hd. exact Hd.
Qed.
