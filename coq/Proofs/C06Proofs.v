(* C06, part 4: every step preserves the invariant; no reachable state of a program without waits on foreign futures is stuck;
   fair termination; the starvation witness for a program with such a wait. *)
From Coq Require Import ZArith List Bool Arith Lia.
From DV Require Import Base.Sched Model.NestedWaitModel Proofs.C06Measure Proofs.C06Inv Proofs.C06Spawn.
Import ListNotations.

(* ---------- queue surgery ---------- *)
Lemma remove_nth_keep {A} (l : list A) i u d : In u l -> u <> nth i l d -> In u (remove_nth l i).
Proof.
  revert i; induction l as [|z r IH]; intros [|i] Hin Hne; cbn in *; try tauto.
  - destruct Hin as [->|H]; [contradiction | exact H].
  - destruct Hin as [->|H]; [left; reflexivity | right; apply IH; assumption].
Qed.

Lemma filter_neqb_in t l u : In u (filter (neqb t) l) <-> In u l /\ u <> t.
Proof.
  rewrite filter_In. unfold neqb. split; intros [H1 H2]; split; auto.
  - apply negb_true_iff in H2. apply Nat.eqb_neq in H2. exact H2.
  - apply negb_true_iff. apply Nat.eqb_neq. exact H2.
Qed.

Lemma take_at_spec s i : i < length (cq s ++ steal s) ->
  exists c' st', take_at s i = with_queues s c' st' /\
    (forall u, In u (c' ++ st') -> In u (cq s ++ steal s)) /\
    (forall u, In u (cq s ++ steal s) -> u <> nth i (cq s ++ steal s) 0 -> In u (c' ++ st')) /\
    (forall u, In u st' -> In u (steal s)).
Proof.
  intros Hi. unfold take_at. destruct (i <? length (cq s)) eqn:E.
  - apply Nat.ltb_lt in E. exists (remove_nth (cq s) i), (steal s). split; [reflexivity|]. rewrite app_nth1 by exact E. repeat split.
    + intros u Hu. apply in_app_or in Hu. apply in_or_app. destruct Hu as [H|H]; [left; eapply remove_nth_in; exact H | right; exact H].
    + intros u Hu Hne. apply in_app_or in Hu. apply in_or_app. destruct Hu as [H|H]; [left; apply remove_nth_keep with (d := 0); assumption | right; exact H].
    + auto.
  - apply Nat.ltb_ge in E. exists (cq s), (remove_nth (steal s) (i - length (cq s))). split; [reflexivity|]. rewrite app_nth2 by exact E. repeat split.
    + intros u Hu. apply in_app_or in Hu. apply in_or_app. destruct Hu as [H|H]; [left; exact H | right; eapply remove_nth_in; exact H].
    + intros u Hu Hne. apply in_app_or in Hu. apply in_or_app. destruct Hu as [H|H]; [left; exact H | right; apply remove_nth_keep with (d := 0); assumption].
    + intros u Hu. eapply remove_nth_in. exact Hu.
Qed.

Lemma set_nth_twice {A} (l : list A) a x y : set_nth (set_nth l a x) a y = set_nth l a y.
Proof. revert a; induction l as [|z r IH]; intros [|a]; cbn; auto. f_equal. apply IH. Qed.

(* starting a task on an explicitly given stack = first installing that stack, then starting on the current one *)
Lemma start_task_restack s a stk c' st' t : a < length (agents s) ->
  start_task (with_queues s c' st') a stk t =
  start_task (with_queues (with_stack s a stk) c' st') a (stack (agent_of (with_stack s a stk) a)) t.
Proof.
  intros Ha. unfold start_task, with_stack, with_agent, with_queues, with_tstate, tick, task_of, agent_of.
  cbn [tasks joins cq steal agents clock]. rewrite (nth_set_nth_same (agents s) a _ dagent Ha). cbn [stack parked worker].
  rewrite set_nth_twice. reflexivity.
Qed.

Lemma noup_tail o r : noup (o :: r) = true -> noup r = true.
Proof. intros H. apply noup_cons in H. tauto. Qed.

(* ---------- every step preserves the invariant ---------- *)
Lemma inv_wait_join s a x r below gj j : Inv s -> a < length (agents s) -> stack (agent_of s a) = x :: below ->
  noup r = true -> In (j, gj) (a_own x) -> Inv (wait_join s a x r below gj).
Proof.
  intros I Ha Hst Hnr Hin.
  assert (Hx : In x (acts s)) by (apply in_acts; exists (agent_of s a); split; [apply agent_in; exact Ha | rewrite Hst; left; reflexivity]).
  destruct (i_own s I x j gj Hx Hin) as [R O].
  unfold wait_join. destruct (j_kind (join_of s gj)) eqn:K.
  - apply inv_top; try assumption. cbn. auto.
  - destruct (fut_state s gj) eqn:F.
    + destruct (existsb (Nat.eqb (j_ftask (join_of s gj))) (cq s ++ steal s)) eqn:Ex.
      * apply existsb_eqb_in in Ex. set (t := j_ftask (join_of s gj)) in *.
        rewrite start_task_restack by exact Ha.
        set (sT := with_stack s a (set_top x r MRun :: below)).
        assert (IT : Inv sT) by (apply inv_top; try assumption; exact Logic.I).
        apply inv_start.
        -- exact IT.
        -- unfold sT, with_stack. rewrite agents_with_agent, set_nth_length. exact Ha.
        -- unfold sT, with_stack. rewrite agent_of_with_agent_same by exact Ha. cbn [parked].
           destruct (parked (agent_of s a)) eqn:E; [|reflexivity]. pose proof (i_parked s I _ (agent_in s a Ha) E) as C. rewrite Hst in C. discriminate.
        -- intros u Hu. change (cq sT) with (cq s). change (steal sT) with (steal s). apply in_app_or in Hu. apply in_or_app.
           destruct Hu as [H|H]; apply filter_neqb_in in H; tauto.
        -- intros u Hu Hne. change (cq sT) with (cq s) in Hu. change (steal sT) with (steal s) in Hu. apply in_app_or in Hu. apply in_or_app.
           destruct Hu as [H|H]; [left | right]; apply filter_neqb_in; auto.
        -- intros u Hu. change (steal sT) with (steal s). apply filter_neqb_in in Hu. tauto.
        -- exact Ex.
      * apply inv_top; try assumption. exact Logic.I.
    + apply inv_top; try assumption. cbn. repeat split; auto. unfold fut_state in F. rewrite F. discriminate.
    + apply inv_top; try assumption. exact Logic.I.
Qed.
