(* C14 -- parallel_for never uses one state object concurrently: proofs over the Plan model. *)
From Coq Require Import ZArith List Bool Lia.
From DV Require Import Base.MachInt Model.ChunkModel Gen.GenChunk Model.ParForModel Model.PlanModel Proofs.PlanProofs.
Import ListNotations.
Local Open Scope Z_scope.

(* the witness: static chunking, wait=false, granularity 8, maxThreads 2, int32 range [0,1003), 4 pool threads *)
Definition c14_witness : pfcfg := PF 4 0 1003 2147483647 4 2 1 8 false.

Lemma C14_refuted_proof :
  exists c ring cl i j a b,
    pf_claims_ok c cl = true /\ i <> j /\
    nth_error (pf_plan c ring cl) i = Some a /\ nth_error (pf_plan c ring cl) j = Some b /\
    seqb a b = false /\ seqb b a = false /\ c_state a = c_state b /\
    c14_dom c = true /\
    a = CALL (Task 0) 0 0 0 504 /\ b = CALL CallerPre 1 0 1000 1003.
Proof.
  exists c14_witness, (-1), [], 0%nat, 2%nat, (CALL (Task 0) 0 0 0 504), (CALL CallerPre 1 0 1000 1003).
  vm_compute. repeat split; try reflexivity. discriminate.
Qed.

Lemma C14_not_full_proof :
  ~ (forall c ring cl, pf_claims_ok c cl = true ->
     forall i j a b, i <> j -> nth_error (pf_plan c ring cl) i = Some a -> nth_error (pf_plan c ring cl) j = Some b ->
       seqb a b = false -> seqb b a = false -> c_state a <> c_state b).
Proof.
  intro H. destruct C14_refuted_proof as (c & ring & cl & i & j & a & b & Hok & Hij & Hi & Hj & S1 & S2 & E & _).
  exact (H c ring cl Hok i j a b Hij Hi Hj S1 S2 E).
Qed.

Lemma C14_holds_except_proof : forall c ring cl,
  pf_claims_ok c cl = true -> c14_dom c = false -> states_exclusive (pf_plan c ring cl).
Proof.
  intros c ring cl Hok Hdom. unfold pf_plan, pf_claims_ok in *.
  unfold c14_dom, dom_static_nowait_tail, is_static_path in Hdom.
  destruct (d_path (pf_decide c)) eqn:P.
  - intros i j a b _ Hi. destruct i; discriminate.
  - intros i j a b Hij Hi Hj. destruct i as [|i]; [|destruct i; discriminate].
    destruct j as [|j]; [congruence|destruct j; discriminate].
  - apply excl_of_in; [apply static_plan_nodup|]. apply static_plan_excl.
    intros W. simpl in Hdom. rewrite W in Hdom. simpl in Hdom. exact Hdom.
  - apply excl_of_in; [apply worker_plan_nodup|]. apply worker_plan_excl. exact Hok.
  - apply excl_of_in; [apply worker_plan_nodup|]. apply worker_plan_excl. exact Hok.
Qed.

(* in the domain of the finding the plan ALWAYS contains the colliding pair, provided task 0 exists *)
Lemma C14_dom_collides_proof : forall c ring cl,
  c14_dom c = true -> 1 <= static_n c (pf_decide c) ->
  exists a b, In a (pf_plan c ring cl) /\ In b (pf_plan c ring cl) /\ a <> b /\
              seqb a b = false /\ seqb b a = false /\ c_state a = 0 /\ c_state b = 0.
Proof.
  intros c ring cl Hdom Hn. unfold c14_dom, dom_static_nowait_tail, is_static_path in Hdom.
  apply andb_true_iff in Hdom. destruct Hdom as (Hd & HT). apply andb_true_iff in Hd. destruct Hd as (HP & HW).
  apply negb_true_iff in HW. unfold pf_plan.
  destruct (d_path (pf_decide c)) eqn:P; simpl in HP; try discriminate.
  set (d := pf_decide c) in *.
  exists (static_task c d (static_n c d) (static_callerChunk (pf_wait c) ring (static_n c d)) 0),
         (CALL CallerPre 1 0 (d_trimmedEnd d) (pf_e c)).
  assert (Hs : c_state (static_task c d (static_n c d) (static_callerChunk (pf_wait c) ring (static_n c d)) 0) = 0).
  { rewrite static_task_state, HW. reflexivity. }
  repeat split.
  - unfold static_plan. rewrite in_app_iff. left. rewrite HW.
    apply in_map_iff. exists 0%nat. split; [reflexivity|]. apply in_seq. lia.
  - unfold static_plan. rewrite !in_app_iff. right. right. unfold caller_tail. rewrite HT, HW. left. reflexivity.
  - intro E. apply (f_equal c_who) in E. rewrite static_task_who in E. discriminate.
  - unfold seqb. rewrite static_task_who. reflexivity.
  - unfold seqb. rewrite static_task_who. reflexivity.
  - exact Hs.
Qed.

(* ---- states container: every index used is inside the container initStates built, which is non-empty ---- *)

Definition cfg_wf (c : pfcfg) : Prop :=
  0 <= pf_N c /\ in_kind (kind_of (pf_kn c)) (pf_s c) /\ in_kind (kind_of (pf_kn c)) (pf_e c).

(* non-empty range => size() >= 1 (for unsigned kinds the operands must be values of the kind) *)
Lemma size_pos kn s e :
  (ik_signed (kind_of kn) = false -> 0 <= s /\ e < 2 ^ 64) ->
  gen_range_empty_of kn s e = false -> 1 <= gen_range_size_of kn s e.
Proof.
  intros Hu He.
  destruct kn as [|[|[|[|[|[|[|kn]]]]]]];
    cbv [gen_range_empty_of gen_range_size_of gen_range_empty_i8 gen_range_empty_u8 gen_range_empty_i16 gen_range_empty_u16
         gen_range_empty_i32 gen_range_empty_u32 gen_range_empty_i64 gen_range_empty_u64
         gen_range_size_i8 gen_range_size_u8 gen_range_size_i16 gen_range_size_u16
         gen_range_size_i32 gen_range_size_u32 gen_range_size_i64 gen_range_size_u64] in *;
    apply Z.leb_gt in He; try lia;
    (rewrite wrap_small; [lia|]);
    (assert (U : 0 <= s /\ e < 2 ^ 64) by (apply Hu; first [reflexivity | destruct kn as [|[|?]]; reflexivity])); lia.
Qed.

(* trimmedEnd stays a value of the kind *)
Lemma gran_te_range kn s e ch req :
  in_kind (kind_of kn) e ->
  let '(_, te, _) := gen_computeGranularity_of kn s e ch req in
  ik_signed (kind_of kn) = false -> te < 2 ^ 64.
Proof.
  intros He.
  destruct kn as [|[|[|[|[|[|[|kn]]]]]]];
    cbv [gen_computeGranularity_of gen_computeGranularity_i8 gen_computeGranularity_u8 gen_computeGranularity_i16
         gen_computeGranularity_u16 gen_computeGranularity_i32 gen_computeGranularity_u32 gen_computeGranularity_i64
         gen_computeGranularity_u64];
    destr_ifs; intros Hs; try discriminate Hs;
    try (match goal with |- wrap ?w ?z < _ => pose proof (wrap_range w z ltac:(lia)) as R;
                                              assert (2 ^ w <= 2 ^ 64) by (apply Z.pow_le_mono_r; lia); lia end);
    unfold in_kind, kmax in He;
    try (replace (kind_of _) with U64 in He by (destruct kn as [|[|?]]; reflexivity));
    simpl in He;
    try (assert (2 ^ 8 <= 2 ^ 64) by (apply Z.pow_le_mono_r; lia));
    try (assert (2 ^ 16 <= 2 ^ 64) by (apply Z.pow_le_mono_r; lia));
    try (assert (2 ^ 32 <= 2 ^ 64) by (apply Z.pow_le_mono_r; lia));
    lia.
Qed.

Lemma static_numThreads_pos kn s e N m g :
  0 <= N -> 1 <= m -> 1 <= gen_range_size_of kn s e -> 1 <= static_numThreads kn s e N m g.
Proof.
  intros HN Hm Hs. unfold static_numThreads. destruct (1 <? g); [|lia].
  destruct (Z.quot (gen_range_size_of kn s e) g <? Z.min (Z.min (N + 1) m) (gen_range_size_of kn s e)); lia.
Qed.

(* what pf_decide guarantees on the parallel paths *)
Lemma pf_decide_nonempty c :
  let d := pf_decide c in
  2 <= path_code (d_path d) ->
  gen_range_empty_of (pf_kn c) (pf_s c) (d_trimmedEnd d) = false /\ pf_N c <> 0 /\
  (exists g ht, gen_computeGranularity_of (pf_kn c) (pf_s c) (pf_e c) (pf_chunk c) (pf_gran c) = (g, d_trimmedEnd d, ht)).
Proof.
  cbv zeta. unfold pf_decide.
  destruct (gen_range_empty_of (pf_kn c) (pf_s c) (pf_e c)); [simpl; lia|].
  destruct (gen_computeGranularity_of (pf_kn c) (pf_s c) (pf_e c) (pf_chunk c) (pf_gran c)) as [[g te] ht] eqn:G.
  destruct (gen_range_empty_of (pf_kn c) (pf_s c) te) eqn:E; [simpl; lia|].
  destruct (pf_N c =? 0) eqn:N0; [simpl; lia|]. apply Z.eqb_neq in N0. simpl.
  destruct (gen_adjustChunkSizing_of _ _ _ _ _ _ _ _ _) as [m' st'].
  destruct (m' <? 2); [simpl; lia|].
  destruct st'; [|destruct (pf_chunk c =? 0)]; simpl; intros _; (split; [exact E|split; [exact N0|exists g, ht; reflexivity]]).
Qed.

Lemma static_n_pos c : cfg_wf c -> d_path (pf_decide c) = PStatic -> 1 <= static_n c (pf_decide c).
Proof.
  intros (HN & Hs & He) P.
  pose proof (pf_decide_nonempty c) as D. cbv zeta in D. rewrite P in D. simpl in D.
  destruct (D ltac:(lia)) as (E & N0 & g & ht & G).
  pose proof (pf_decide_par c) as Q. cbv zeta in Q. rewrite P in Q. simpl in Q. destruct (Q ltac:(lia) ltac:(lia)) as (M & _).
  unfold static_n. apply static_numThreads_pos; [assumption|lia|].
  apply size_pos; [|exact E].
  intros U. split.
  - unfold in_kind, kmin in Hs. rewrite U in Hs. lia.
  - pose proof (gran_te_range (pf_kn c) (pf_s c) (pf_e c) (pf_chunk c) (pf_gran c) He) as R. rewrite G in R. apply R, U.
Qed.

Lemma worker_states_pos c : cfg_wf c -> 3 <= path_code (d_path (pf_decide c)) ->
  1 <= pf_numToLaunch c (pf_decide c) + b2z (pf_wait c).
Proof.
  intros (HN & _) P.
  pose proof (pf_decide_nonempty c) as D. cbv zeta in D. destruct (D ltac:(lia)) as (_ & N0 & _).
  pose proof (pf_decide_par c) as Q. cbv zeta in Q. destruct (Q ltac:(lia) ltac:(lia)) as (M & _).
  pose proof (pf_decide_mt_range c) as R. cbv zeta in R. specialize (R ltac:(lia)).
  unfold pf_numToLaunch, size_sub, wop.
  assert (B : 0 <= b2z (pf_wait c) <= 1) by (destruct (pf_wait c); simpl; lia).
  assert (S : ik_signed (wide (kind_of (pf_kn c))) = ik_signed (kind_of (pf_kn c))) by reflexivity. rewrite S.
  destruct (ik_signed (kind_of (pf_kn c))); [lia|].
  assert (W : ik_w (wide (kind_of (pf_kn c))) = 64) by reflexivity. rewrite W.
  specialize (R eq_refl). rewrite wrap_small; lia.
Qed.

Lemma C14_states_in_bounds_proof : forall c ring cl,
  cfg_wf c -> pf_claims_ok c cl = true ->
  (d_path (pf_decide c) <> PEmpty -> 1 <= pf_states_needed c) /\
  forall a, In a (pf_plan c ring cl) -> 0 <= c_state a < pf_states_needed c.
Proof.
  intros c ring cl Hwf Hok. unfold pf_plan, pf_states_needed, pf_claims_ok in *.
  assert (HW : forall T, 1 <= T + b2z (pf_wait c) -> claims_ok T (pf_wait c) cl = true ->
               forall a, In a (worker_plan c (pf_decide c) cl) -> T = pf_numToLaunch c (pf_decide c) ->
               0 <= c_state a < T + b2z (pf_wait c)).
  { intros T HT Hc a Ha ->. unfold worker_plan in Ha. rewrite in_app_iff in Ha. destruct Ha as [Ha|Ha].
    - pose proof (wc_who _ _ _ _ _ Hc Ha) as (Ra & _). exact Ra.
    - apply worker_tail_in in Ha. destruct Ha as (_ & ->). simpl. lia. }
  destruct (d_path (pf_decide c)) eqn:P.
  - split; [congruence|]. intros a [].
  - split; [lia|]. intros a [<-|[]]. simpl. lia.
  - pose proof (static_n_pos c Hwf P) as Hn. split; [intros _; exact Hn|].
    intros a Ha. apply static_plan_in in Ha.
    destruct Ha as [j Hj ->| W -> | T ->]; rewrite ?static_task_state, ?static_caller_state; simpl; [| |lia].
    + unfold static_nsched in Hj. unfold static_chunkIdx, static_callerChunk.
      destruct (pf_wait c); simpl; [|lia]. destr_ifs; lia.
    + unfold static_callerChunk. rewrite W. destruct ((0 <=? ring) && (ring <? static_n c (pf_decide c))) eqn:R; [|lia].
      apply andb_true_iff in R. destruct R as (R1 & R2). apply Z.leb_le in R1. apply Z.ltb_lt in R2. lia.
  - pose proof (worker_states_pos c Hwf) as HT. rewrite P in HT. specialize (HT ltac:(simpl; lia)).
    split; [intros _; exact HT|]. intros a Ha. eapply HW; eauto.
  - pose proof (worker_states_pos c Hwf) as HT. rewrite P in HT. specialize (HT ltac:(simpl; lia)).
    split; [intros _; exact HT|]. intros a Ha. eapply HW; eauto.
Qed.
