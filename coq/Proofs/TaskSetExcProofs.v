(* C05: the exception capture state machine of TaskSetBase (trySetCurrentException / testAndResetException) in
   Model/TaskSetModel.v, over all interleavings in which at most one thread at a time is inside the critical
   section of testAndResetException of a given set (concurrent wait() calls on one set are outside the property). *)
From Coq Require Import ZArith List Bool Lia.
From DV Require Import Base.MachInt Base.Sched Model.TaskSetModel Proofs.TaskSetProofs.
Import ListNotations.
Local Open Scope Z_scope.

Definition is_exc_stage (T : nat) (f : frame) (p : wstage -> bool) : Z :=
  match f with
  | FWrap T0 _ _ st | FInl T0 _ _ st => if Nat.eqb T T0 && p st then 1 else 0
  | _ => 0
  end.
Definition setw (T : nat) (f : frame) : Z := is_exc_stage T f (fun st => match st with WExcWrite _ => true | _ => false end).
Definition sets_ (T : nat) (f : frame) : Z := is_exc_stage T f (fun st => match st with WExcSet => true | _ => false end).
Definition bad (w : Z) (T : nat) (f : frame) : Z := is_exc_stage T f (fun st => match st with WExcWrite e => negb (e =? w) | _ => false end).
Definition wt (T : nat) (f : frame) : Z :=
  match f with
  | FTestMove T0 _ | FTestReset T0 _ _ _ => if Nat.eqb T T0 then 1 else 0
  | _ => 0
  end.

Lemma ies_range T f p : 0 <= is_exc_stage T f p <= 1.
Proof. destruct f; cbn; try lia; destruct (Nat.eqb T T0 && p st); lia. Qed.
Lemma setw_nonneg T f : 0 <= setw T f. Proof. apply ies_range. Qed.
Lemma sets_nonneg T f : 0 <= sets_ T f. Proof. apply ies_range. Qed.
Lemma bad_nonneg w T f : 0 <= bad w T f. Proof. apply ies_range. Qed.
Lemma wt_nonneg T f : 0 <= wt T f. Proof. destruct f; cbn; try lia; destruct (Nat.eqb T T0); lia. Qed.
Lemma bad_le_setw w T f : bad w T f <= setw T f.
Proof. destruct f; cbn; try lia; destruct (Nat.eqb T T0); cbn; try lia; destruct st; cbn; try lia; destruct (e =? w); cbn; lia. Qed.
Lemma fsum_le phi psi l : (forall f, phi f <= psi f) -> fsum phi l <= fsum psi l.
Proof. intros H. induction l as [|f r IH]; cbn; [lia | specialize (H f); lia]. Qed.

(* the invariant for one set, with the four frame counts as parameters *)
Definition GI (t : tset) (nwr nst nw nb : Z) : Prop :=
  nb = 0 /\ 0 <= guard t <= 2 /\ (guard t = 1 -> nwr + nst = 1) /\ (guard t <> 1 -> nwr + nst = 0) /\ (1 <= nw -> guard t = 2) /\
  (nst = 1 -> exn t = won t) /\ (guard t = 2 -> nw = 0 -> exn t = won t).

Definition plain_exc (f : frame) : Prop :=
  match f with FWrap _ _ _ _ | FInl _ _ _ _ | FTestMove _ _ | FTestReset _ _ _ _ => False | _ => True end.
Lemma plain_frame_exc f : plain_frame f -> plain_exc f.
Proof. destruct f; cbn; auto. Qed.
Lemma fsum_plain_exc phi l : (forall f, plain_exc f -> phi f = 0) -> Forall plain_frame l -> fsum phi l = 0.
Proof. intros P F. induction F as [|f l H _ IH]; cbn; [reflexivity | rewrite (P f (plain_frame_exc _ H)), IH; reflexivity]. Qed.
Lemma setw_plain T f : plain_exc f -> setw T f = 0. Proof. destruct f; cbn; intros; try reflexivity; contradiction. Qed.
Lemma sets_plain T f : plain_exc f -> sets_ T f = 0. Proof. destruct f; cbn; intros; try reflexivity; contradiction. Qed.
Lemma bad_plain w T f : plain_exc f -> bad w T f = 0. Proof. destruct f; cbn; intros; try reflexivity; contradiction. Qed.
Lemma wt_plain T f : plain_exc f -> wt T f = 0. Proof. destruct f; cbn; intros; try reflexivity; contradiction. Qed.

Ltac exc_facts T rest w w' :=
  pose proof (fsum_nonneg (setw T) rest (setw_nonneg T));
  pose proof (fsum_nonneg (sets_ T) rest (sets_nonneg T));
  pose proof (fsum_nonneg (wt T) rest (wt_nonneg T));
  pose proof (fsum_nonneg (bad w T) rest (bad_nonneg w T));
  pose proof (fsum_nonneg (bad w' T) rest (bad_nonneg w' T));
  pose proof (fsum_le (bad w' T) (setw T) rest (bad_le_setw w' T)).

Ltac exc_simpl :=
  cbn -[Z.of_nat Z.add Z.sub Z.mul Nat.eqb Z.eqb] in *;
  rewrite ?fsum_app in *;
  cbn -[Z.of_nat Z.add Z.sub Z.mul Nat.eqb Z.eqb] in *.

(* generic closing tactic: the step does not touch the exception state and the new frames carry the same counts *)
Ltac fin_exc T :=
  exc_simpl; unfold upd in *; exc_simpl;
  repeat match goal with
         | |- context [Nat.eqb T ?x] => let E := fresh "E" in destruct (Nat.eqb_spec T x) as [E|E]; [try rewrite <- E in *|]
         | H : context [Nat.eqb T ?x] |- _ => let E := fresh "E" in destruct (Nat.eqb_spec T x) as [E|E]; [try rewrite <- E in *|]
         end;
  exc_simpl;
  repeat match goal with
         | |- context [negb (?a =? ?b)] => destruct (Z.eqb_spec a b)
         | H : context [negb (?a =? ?b)] |- _ => destruct (Z.eqb_spec a b)
         end;
  exc_simpl; unfold GI in *; unfold ts_outst, ts_cancel, ts_guard, ts_cas_won, ts_slot in *; cbn [guard exn won outst canc tick cst] in *; try lia.

Section StepExc.
  Variables (T : nat) (Owr Ost Ow : Z) (Ob : Z -> Z).
  Hypotheses (Hwr : 0 <= Owr) (Hst : 0 <= Ost) (Hw : 0 <= Ow) (Hb : forall w, 0 <= Ob w <= Owr).

  Definition GIf (s : shared) (l : list frame) : Prop :=
    GI (sets s T) (Owr + fsum (setw T) l) (Ost + fsum (sets_ T) l) (Ow + fsum (wt T) l) (Ob (won (sets s T)) + fsum (bad (won (sets s T)) T) l).

  Lemma step_top_exc s th f rest c s' l e :
    step_top s th f rest c = Some (s', l, e) -> GIf s (f :: rest) -> Ow + fsum (wt T) (f :: rest) <= 1 -> Ow + fsum (wt T) l <= 1 -> GIf s' l.
  Proof.
    intros H G W1 W2. unfold GIf in *.
    pose proof (Hb (won (sets s T))) as Hb1.
    destruct f; cbn [step_top] in H.
    - inv_ok H. exc_facts T rest (won (sets s T)) (won (sets s T)); fin_exc T.
    - destruct ops as [|o r]; [inv_ok H; exc_facts T rest (won (sets s T)) (won (sets s T)); fin_exc T|].
      destruct (dispatch s o c) as [[s1 fr] e1] eqn:D. inv_ok H. apply dispatch_spec in D. destruct D as (S1 & _ & _ & _ & _ & _ & _ & _ & _ & _ & Fp).
      rewrite S1. rewrite !fsum_app.
      rewrite (fsum_plain_exc (setw T) fr (setw_plain T) Fp), (fsum_plain_exc (sets_ T) fr (sets_plain T) Fp), (fsum_plain_exc (wt T) fr (wt_plain T) Fp),
        (fsum_plain_exc (bad (won (sets s T)) T) fr (bad_plain _ T) Fp).
      rewrite fsum_app in W2. rewrite (fsum_plain_exc (wt T) fr (wt_plain T) Fp) in W2. exc_facts T rest (won (sets s T)) (won (sets s T)); fin_exc T.
    - destruct ops as [|o r]; [inv_ok H; exc_facts T rest (won (sets s T)) (won (sets s T)); fin_exc T|].
      destruct (dispatch s o c) as [[s1 fr] e1] eqn:D. inv_ok H. apply dispatch_spec in D. destruct D as (S1 & _ & _ & _ & _ & _ & _ & _ & _ & _ & Fp).
      rewrite S1. rewrite !fsum_app.
      rewrite (fsum_plain_exc (setw T) fr (setw_plain T) Fp), (fsum_plain_exc (sets_ T) fr (sets_plain T) Fp), (fsum_plain_exc (wt T) fr (wt_plain T) Fp),
        (fsum_plain_exc (bad (won (sets s T)) T) fr (bad_plain _ T) Fp).
      rewrite fsum_app in W2. rewrite (fsum_plain_exc (wt T) fr (wt_plain T) Fp) in W2. exc_facts T rest (won (sets s T)) (won (sets s T)); fin_exc T.
    - inv_ok H. exc_facts T rest (won (sets s T)) (won (sets s T)); fin_exc T.
    - (* FThrow *) destruct rest as [|g r]; [inv_ok H; fin_exc T|].
      destruct g; try solve [inv_ok H; exc_facts T r (won (sets s T)) (won (sets s T)); fin_exc T]; split_hyp H; inv_ok H; exc_facts T r (won (sets s T)) (won (sets s T)); fin_exc T.
    - discriminate.
    - split_hyp H; inv_ok H; exc_facts T rest (won (sets s T)) (won (sets s T)); fin_exc T.
    - split_hyp H; inv_ok H; exc_facts T rest (won (sets s T)) (won (sets s T)); fin_exc T.
    - split_hyp H; inv_ok H; exc_facts T rest (won (sets s T)) (won (sets s T)); fin_exc T.
    - destruct second; split_hyp H; inv_ok H; exc_facts T rest (won (sets s T)) (won (sets s T)); fin_exc T.
    - split_hyp H; inv_ok H; exc_facts T rest (won (sets s T)) (won (sets s T)); fin_exc T.
    - inv_ok H; exc_facts T rest (won (sets s T)) (won (sets s T)); fin_exc T.
    - inv_ok H; exc_facts T rest (won (sets s T)) (won (sets s T)); fin_exc T.
    - inv_ok H; exc_facts T rest (won (sets s T)) (won (sets s T)); fin_exc T.
    - split_hyp H; inv_ok H; exc_facts T rest (won (sets s T)) (won (sets s T)); fin_exc T.
    - (* FWrap *) destruct st.
      + split_hyp H; inv_ok H; exc_facts T rest (won (sets s T)) (won (sets s T)); fin_exc T.
      + inv_ok H; exc_facts T rest (won (sets s T)) (won (sets s T)); fin_exc T.
      + inv_ok H; exc_facts T rest (won (sets s T)) (won (sets s T)); fin_exc T.
      + destruct (exc_step s T0 (WExcCas e0) c) as [s1 nx] eqn:X. unfold exc_step in X. destruct (Z.eqb_spec (guard (sets s T0)) 0) as [G0|G0]; injection X as <- <-; inv_ok H; exc_facts T rest (won (sets s T)) e0; pose proof (Hb e0); fin_exc T.
      + destruct (exc_step s T0 (WExcWrite e0) c) as [s1 nx] eqn:X. unfold exc_step in X. injection X as <- <-. inv_ok H. exc_facts T rest (won (sets s T)) (won (sets s T)); fin_exc T.
      + destruct (exc_step s T0 WExcSet c) as [s1 nx] eqn:X. unfold exc_step in X. injection X as <- <-. inv_ok H. exc_facts T rest (won (sets s T)) (won (sets s T)); fin_exc T.
      + destruct (exc_step s T0 WExcCancel c) as [s1 nx] eqn:X. unfold exc_step in X. injection X as <- <-. inv_ok H. exc_facts T rest (won (sets s T)) (won (sets s T)); fin_exc T.
      + inv_ok H; exc_facts T rest (won (sets s T)) (won (sets s T)); fin_exc T.
    - inv_ok H; exc_facts T rest (won (sets s T)) (won (sets s T)); fin_exc T.
    - split_hyp H; [|split_hyp H]; inv_ok H; exc_facts T rest (won (sets s T)) (won (sets s T)); fin_exc T.
    - split_hyp H; inv_ok H; exc_facts T rest (won (sets s T)) (won (sets s T)); fin_exc T.
    - inv_ok H; exc_facts T rest (won (sets s T)) (won (sets s T)); fin_exc T.
    - split_hyp H; inv_ok H; exc_facts T rest (won (sets s T)) (won (sets s T)); fin_exc T.
    - split_hyp H; [|split_hyp H]; inv_ok H; exc_facts T rest (won (sets s T)) (won (sets s T)); fin_exc T.
    - split_hyp H; inv_ok H; exc_facts T rest (won (sets s T)) (won (sets s T)); fin_exc T.
    - inv_ok H; exc_facts T rest (won (sets s T)) (won (sets s T)); fin_exc T.
    - split_hyp H; inv_ok H; exc_facts T rest (won (sets s T)) (won (sets s T)); fin_exc T.
    - split_hyp H; [|split_hyp H]; inv_ok H; exc_facts T rest (won (sets s T)) (won (sets s T)); fin_exc T.
    - (* FInl *) destruct st.
      + inv_ok H; exc_facts T rest (won (sets s T)) (won (sets s T)); fin_exc T.
      + inv_ok H; exc_facts T rest (won (sets s T)) (won (sets s T)); fin_exc T.
      + inv_ok H; exc_facts T rest (won (sets s T)) (won (sets s T)); fin_exc T.
      + destruct (exc_step s T0 (WExcCas e0) c) as [s1 nx] eqn:X. unfold exc_step in X. destruct (Z.eqb_spec (guard (sets s T0)) 0) as [G0|G0]; injection X as <- <-; inv_ok H; exc_facts T rest (won (sets s T)) e0; pose proof (Hb e0); fin_exc T.
      + destruct (exc_step s T0 (WExcWrite e0) c) as [s1 nx] eqn:X. unfold exc_step in X. injection X as <- <-. inv_ok H. exc_facts T rest (won (sets s T)) (won (sets s T)); fin_exc T.
      + destruct (exc_step s T0 WExcSet c) as [s1 nx] eqn:X. unfold exc_step in X. injection X as <- <-. inv_ok H. exc_facts T rest (won (sets s T)) (won (sets s T)); fin_exc T.
      + destruct (exc_step s T0 WExcCancel c) as [s1 nx] eqn:X. unfold exc_step in X. injection X as <- <-. inv_ok H. exc_facts T rest (won (sets s T)) (won (sets s T)); fin_exc T.
      + inv_ok H; exc_facts T rest (won (sets s T)) (won (sets s T)); fin_exc T.
    - destruct (deq_tok s T0) as [[x s1]|] eqn:D; inv_ok H; [|exc_facts T rest (won (sets s T)) (won (sets s T)); fin_exc T].
       destruct (deq_tok_spec _ _ _ _ D) as [S1 _ _ _ _ _ _ _ _ _]. rewrite S1 in *. exc_facts T rest (won (sets s T)) (won (sets s T)); fin_exc T.
    - split_hyp H; inv_ok H; exc_facts T rest (won (sets s T)) (won (sets s T)); fin_exc T.
    - destruct (deq_any s) as [[x s1]|] eqn:D; inv_ok H; [|exc_facts T rest (won (sets s T)) (won (sets s T)); fin_exc T].
       destruct (deq_any_spec _ _ _ D) as [S1 _ _ _ _ _ _ _ _ _]. rewrite S1 in *. exc_facts T rest (won (sets s T)) (won (sets s T)); fin_exc T.
    - destruct (if 0 <? nrings s then deq_any s else None) as [[x s1]|] eqn:D; inv_ok H; [|exc_facts T rest (won (sets s T)) (won (sets s T)); fin_exc T].
      destruct (0 <? nrings s); [|discriminate]. destruct (deq_any_spec _ _ _ D) as [S1 _ _ _ _ _ _ _ _ _]. rewrite S1 in *. exc_facts T rest (won (sets s T)) (won (sets s T)); fin_exc T.
    - inv_ok H; exc_facts T rest (won (sets s T)) (won (sets s T)); fin_exc T.
    - split_hyp H; inv_ok H; exc_facts T rest (won (sets s T)) (won (sets s T)); fin_exc T.
    - destruct (deq_tok s T0) as [[x s1]|] eqn:D; inv_ok H; [|exc_facts T rest (won (sets s T)) (won (sets s T)); fin_exc T].
       destruct (deq_tok_spec _ _ _ _ D) as [S1 _ _ _ _ _ _ _ _ _]. rewrite S1 in *. exc_facts T rest (won (sets s T)) (won (sets s T)); fin_exc T.
    - split_hyp H; inv_ok H; exc_facts T rest (won (sets s T)) (won (sets s T)); fin_exc T.
    - destruct (deq_any s) as [[x s1]|] eqn:D; inv_ok H; [|exc_facts T rest (won (sets s T)) (won (sets s T)); fin_exc T].
       destruct (deq_any_spec _ _ _ D) as [S1 _ _ _ _ _ _ _ _ _]. rewrite S1 in *. exc_facts T rest (won (sets s T)) (won (sets s T)); fin_exc T.
    - destruct (if 0 <? nrings s then deq_any s else None) as [[x s1]|] eqn:D; inv_ok H; [|exc_facts T rest (won (sets s T)) (won (sets s T)); fin_exc T].
      destruct (0 <? nrings s); [|discriminate]. destruct (deq_any_spec _ _ _ D) as [S1 _ _ _ _ _ _ _ _ _]. rewrite S1 in *. exc_facts T rest (won (sets s T)) (won (sets s T)); fin_exc T.
    - split_hyp H; inv_ok H; exc_facts T rest (won (sets s T)) (won (sets s T)); fin_exc T.
    - (* FTestGuard *) split_hyp H; inv_ok H; exc_facts T rest (won (sets s T)) (won (sets s T)); fin_exc T.
    - (* FTestMove *) inv_ok H; exc_facts T rest (won (sets s T)) (won (sets s T)); fin_exc T.
    - (* FTestReset *) inv_ok H; exc_facts T rest (won (sets s T)) (won (sets s T)); fin_exc T.
    - inv_ok H; exc_facts T rest (won (sets s T)) (won (sets s T)); fin_exc T.
    - inv_ok H; exc_facts T rest (won (sets s T)) (won (sets s T)); fin_exc T.
    - destruct l0; inv_ok H; exc_facts T rest (won (sets s T)) (won (sets s T)); fin_exc T.
    - destruct (deq_any s) as [[x s1]|] eqn:D; inv_ok H; [|exc_facts T rest (won (sets s T)) (won (sets s T)); fin_exc T].
       destruct (deq_any_spec _ _ _ D) as [S1 _ _ _ _ _ _ _ _ _]. rewrite S1 in *. exc_facts T rest (won (sets s T)) (won (sets s T)); fin_exc T.
  Qed.
End StepExc.

(* ---------- lifting to states ---------- *)
Definition OneWaiter (s : state) : Prop := forall T, tsum (wt T) (threads s) <= 1.
Definition Exc (s : state) : Prop :=
  forall T, GI (sets (sh s) T) (tsum (setw T) (threads s)) (tsum (sets_ T) (threads s)) (tsum (wt T) (threads s))
               (tsum (bad (won (sets (sh s) T)) T) (threads s)).

Definition others (phi : frame -> Z) (ths : list thread) (t : nat) : Z := tsum phi (set_nth ths t (TH [] [] false 0)).
Lemma others_split phi ths t th : nth_error ths t = Some th -> tsum phi ths = others phi ths t + fsum phi (stk th).
Proof. intros N. unfold others. rewrite (tsum_set_nth _ _ _ _ _ N). cbn. lia. Qed.
Lemma others_set phi ths t th th' : nth_error ths t = Some th -> tsum phi (set_nth ths t th') = others phi ths t + fsum phi (stk th').
Proof. intros N. unfold others. rewrite !(tsum_set_nth _ _ _ _ _ N). cbn. lia. Qed.

Lemma step1_exc s t ch s' ch' site : Exc s -> OneWaiter s -> OneWaiter s' -> step1 s t ch = Some (s', ch', site) -> Exc s'.
Proof.
  intros I W W' H. apply step1_inv in H. destruct H as (th & f & rest & sh' & l & e & N & K & E & ->).
  unfold OneWaiter in *. intros T. cbn [sh threads] in *. change (sets (sh_clock sh' _)) with (sets sh').
  rewrite !(others_set _ _ _ _ _ N). cbn [stk].
  specialize (I T). rewrite !(others_split _ _ _ _ N) in I. rewrite K in I.
  specialize (W T). rewrite (others_split _ _ _ _ N), K in W.
  specialize (W' T). rewrite (others_set _ _ _ _ _ N) in W'. cbn [stk] in W'.
  apply (step_top_exc T (others (setw T) (threads s) t) (others (sets_ T) (threads s) t) (others (wt T) (threads s) t)
           (fun w => others (bad w T) (threads s) t)) with (s := sh s) (th := th) (f := f) (rest := rest) (c := if sited (cfg (sh s)) f then clock (sh s) + 1 else clock (sh s)) (e := e); auto.
  - apply tsum_nonneg, setw_nonneg.
  - apply tsum_nonneg, sets_nonneg.
  - apply tsum_nonneg, wt_nonneg.
  - intros w. split; [apply tsum_nonneg, bad_nonneg | apply tsum_le, bad_le_setw].
Qed.

Inductive reachP (P : state -> Prop) (s0 : state) : state -> Prop :=
| rp_refl : P s0 -> reachP P s0 s0
| rp_step s t ch s' ch' site : reachP P s0 s -> step1 s t ch = Some (s', ch', site) -> P s' -> reachP P s0 s'.
Lemma reachP_reach P s0 s : reachP P s0 s -> reach step1 s0 s.
Proof. induction 1; [apply reach_refl | eapply reach_step; eauto]. Qed.
Lemma reachP_P P s0 s : reachP P s0 s -> P s.
Proof. destruct 1; assumption. Qed.

Lemma tsum_init phi u : (forall ops, phi (FTop ops) = 0) -> phi FStart = 0 -> tsum phi (threads (init u)) = 0.
Proof. intros A B. cbn. induction (su_progs u) as [|p l IH]; cbn; [reflexivity|]. rewrite A, B, IH. reflexivity. Qed.
Lemma init_exc u : Exc (init u).
Proof.
  intros T. rewrite !tsum_init by reflexivity. cbn. unfold GI. cbn. repeat split; intros; try lia.
Qed.
Theorem exc_invariant u s : reachP OneWaiter (init u) s -> Exc s.
Proof.
  induction 1 as [P0|s t ch s' ch' site R IH E P']; [apply init_exc|].
  eapply step1_exc; eauto. exact (reachP_P _ _ _ R).
Qed.

(* first_exception_wins: between a successful CAS and its guard := Set store there is exactly one thread (the CAS winner), nobody is
   there otherwise; every thread about to write the slot writes the winner's exception; a completed capture that nobody is
   consuming holds the winner's exception *)
Theorem first_exception_wins u s T : reachP OneWaiter (init u) s ->
  let t := sets (sh s) T in
  (guard t = 1 -> tsum (setw T) (threads s) + tsum (sets_ T) (threads s) = 1) /\
  (guard t <> 1 -> tsum (setw T) (threads s) + tsum (sets_ T) (threads s) = 0) /\
  tsum (bad (won t) T) (threads s) = 0 /\
  (guard t = 2 -> tsum (wt T) (threads s) = 0 -> exn t = won t).
Proof. intros R. destruct (exc_invariant _ _ R T) as (A & B & C & D & E & F & G). cbn zeta. auto. Qed.

(* next_wait_rethrows: when the counter of T reads zero and no thread is capturing an exception of T outside a counted wrapper
   (i.e. from invokeInline on a scheduling thread), the guard is not in the transient Setting state: a capture that happened is
   complete and the wait's guard load will see it *)
Definition setter_inl (T : nat) (f : frame) : Z :=
  match f with FInl T0 _ _ (WExcWrite _ | WExcSet) => if Nat.eqb T T0 then 1 else 0 | _ => 0 end.
Definition setter_wrap (T : nat) (f : frame) : Z :=
  match f with FWrap T0 _ _ (WExcWrite _ | WExcSet) => if Nat.eqb T T0 then 1 else 0 | _ => 0 end.
Ltac exc_cases T f := destruct f; cbn; unfold ind; try lia; try (match goal with st : wstage |- _ => destruct st end); repeat match goal with |- context [Nat.eqb T ?x] => destruct (Nat.eqb T x) end; cbn; lia.
Lemma setter_split T f : setw T f + sets_ T f = setter_wrap T f + setter_inl T f.
Proof. exc_cases T f. Qed.
Lemma setter_wrap_le T f : setter_wrap T f <= contrib T f.
Proof. exc_cases T f. Qed.
Lemma tsum_add phi psi chi ths : (forall f, phi f + psi f = chi f) -> tsum phi ths + tsum psi ths = tsum chi ths.
Proof.
  intros H. induction ths as [|a l IH]; cbn; [lia|].
  assert (fsum phi (stk a) + fsum psi (stk a) = fsum chi (stk a)); [|lia]. induction (stk a) as [|f r IHr]; cbn; [lia | specialize (H f); lia].
Qed.
Theorem next_wait_rethrows u s T : reachP OneWaiter (init u) s ->
  outst (sets (sh s) T) = 0 -> tsum (setter_inl T) (threads s) = 0 -> guard (sets (sh s) T) <> 1.
Proof.
  intros R Z NI G1. destruct (first_exception_wins _ _ T R) as (A & _). specialize (A G1).
  pose proof (outstanding_counts _ _ (reachP_reach _ _ _ R) T) as C. pose proof (qcount_nonneg T (queue (sh s))).
  pose proof (tsum_le (setter_wrap T) (contrib T) (threads s) (setter_wrap_le T)).
  pose proof (tsum_add (setw T) (sets_ T) (fun f => setw T f + sets_ T f) (threads s) (fun f => eq_refl)) as S1.
  pose proof (tsum_add (setter_wrap T) (setter_inl T) (fun f => setw T f + sets_ T f) (threads s) (fun f => eq_sym (setter_split T f))) as S2.
  pose proof (tsum_nonneg (contrib T) (threads s) (contrib_nonneg T)).
  assert (0 <= tsum (setter_wrap T) (threads s)) by (apply tsum_nonneg; intros f; exc_cases T f).
  lia.
Qed.
(* ... and a testAndResetException that loads guard = Set moves the slot, resets the guard and rethrows what it moved *)
Lemma test_and_reset_rethrows s th T tw rest c :
  guard (sets s T) = 2 ->
  step_top s th (FTestGuard T tw) rest c = Some (s, FTestMove T tw :: rest, []) /\
  step_top s th (FTestMove T tw) rest c = Some (sh_set s T (ts_slot (sets s T) 0 0), FTestReset T tw (exn (sets s T)) (tick (sets s T)) :: rest, []) /\
  forall e tk, step_top s th (FTestReset T tw e tk) rest c =
               Some (sh_deliv (sh_set s T (ts_guard (sets s T) 0)) ((T, tk) :: delivered s), FThrow e :: rest, [(t_rt, enc e T, c)]).
Proof. intros G. cbn [step_top]. rewrite G. repeat split. Qed.
