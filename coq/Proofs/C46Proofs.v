(* C46 -- inline task execution never grows the stack without bound: proofs over Model/InlineDepthModel.v. *)
From Coq Require Import ZArith List Bool Lia.
From DV Require Import Base.MachInt Gen.GenTaskSet Model.InlineDepthModel.
Import ListNotations.
Local Open Scope Z_scope.

Lemma task_ind' (P : task -> Prop) : (forall i kids, Forall (fun sk => P (snd sk)) kids -> P (Task i kids)) -> forall t, P t.
Proof.
  intros H. fix IH 1. intros [i kids]. apply H.
  induction kids as [|[s k] r IHr]; constructor; [apply IH|exact IHr].
Qed.

(* ---------- the counters' invariant ---------- *)
(* a decision function is well-formed when guards only add and a CHECKED inline entry was taken below the cap and adds at least 1 *)
Definition dec_ok (dec : Z -> site -> Z -> outcome) : Prop :=
  forall id s g dg chk, dec id s g = Inl dg chk -> 0 <= dg /\ (chk = true -> g < kMaxInlineDepth /\ 1 <= dg).

Definition inv (nest g raw : Z) : Prop := 0 <= raw <= nest /\ 0 <= g /\ nest - raw <= Z.min g kMaxInlineDepth.

Lemma body_guard_nonneg s : 0 <= body_guard s <= 1.
Proof. destruct s; cbn; lia. Qed.

Lemma kmax_val : kMaxInlineDepth = 32.
Proof. reflexivity. Qed.

Lemma below_inv dec (Hd : dec_ok dec) : forall t nest g raw, inv nest g raw ->
  Forall (fun r => inv (r_nest r) (r_g r) (r_raw r)) (below dec t nest g raw).
Proof.
  induction t as [i kids IH] using task_ind'. intros nest g raw Hi. cbn [below].
  induction kids as [|[s k] rest IHr]; cbn [kids_runs]; [constructor|].
  inversion IH as [|? ? Hk Hrest]; subst. cbn [snd] in Hk. specialize (IHr Hrest).
  apply Forall_app. split; [|exact IHr].
  pose proof (body_guard_nonneg s) as Hb.
  destruct (dec (tid k) s g) as [dg chk| |] eqn:E; [| |constructor].
  - destruct (Hd _ _ _ _ _ E) as [Hdg Hchk].
    assert (Hn : inv (nest + 1) (g + dg + body_guard s) (if chk then raw else raw + 1)).
    { unfold inv in *. rewrite kmax_val in *. destruct chk.
      - destruct (Hchk eq_refl) as [Hg H1]. lia.
      - lia. }
    constructor; [exact Hn | apply Hk; exact Hn].
  - assert (Hn : inv 0 (body_guard s) 0) by (unfold inv; rewrite kmax_val; lia).
    constructor; [exact Hn | apply Hk; exact Hn].
Qed.

Lemma exec_inv dec (Hd : dec_ok dec) t : Forall (fun r => inv (r_nest r) (r_g r) (r_raw r)) (exec dec t).
Proof.
  assert (H0 : inv 0 0 0) by (unfold inv; rewrite kmax_val; lia).
  unfold exec. constructor; [exact H0 | apply below_inv; assumption].
Qed.

Lemma depth_bound_dec dec (Hd : dec_ok dec) t r : In r (exec dec t) -> 0 <= r_nest r <= kMaxInlineDepth + r_raw r /\ 0 <= r_raw r <= r_nest r.
Proof.
  intros Hin. pose proof (exec_inv dec Hd t) as F. rewrite Forall_forall in F. specialize (F r Hin).
  unfold inv in F. rewrite kmax_val in *. lia.
Qed.

(* ---------- the decision functions of the real code are well-formed ---------- *)
Lemma of_code_ok code guarded dg chk : of_code code guarded = Inl dg chk ->
  0 <= dg /\ (chk = true -> guarded = true /\ code = 1 /\ dg = 1).
Proof.
  unfold of_code. destruct (code =? 0); [discriminate|].
  destruct (code =? 1) eqn:E1.
  - apply Z.eqb_eq in E1. destruct guarded; intros H; inversion H; subst; split; try lia; intros; try discriminate; auto.
  - destruct (code =? 11); intros H; inversion H; subst. split; [lia | discriminate].
Qed.

(* facts about the REGENERATED decision functions (Gen/GenTaskSet.v), proved by exhausting their branches: a change of the source
   that lets ConcurrentTaskSet::schedule call the functor without having consulted canInlineSchedule() breaks [cts_code_one] *)
Ltac gen_unfold :=
  unfold G, gen_cts_schedule, gen_cts_schedulePlaced, gen_cts_schedule_force, gen_pool_schedule_force, gen_pool_schedulePlaced_force,
         gen_pool_forceEnqueue_central, gen_pool_forceEnqueue_placed in *.
Ltac split_ifs :=
  repeat match goal with
         | H : context [if ?b then _ else _] |- _ => destruct b eqn:?
         end.

Lemma cts_code_one c e ci cost : G c e gen_cts_schedule ci cost = 1 -> ci = true.
Proof.
  intros H. destruct ci; [reflexivity|]. exfalso. gen_unfold.
  rewrite ?andb_false_r in H. cbn [negb orb andb] in H. rewrite ?orb_true_r in H. split_ifs; lia.
Qed.

Lemma pool_bulk_ok c e dg chk : pool_bulk c e = Inl dg chk -> dg = 0 /\ chk = false.
Proof. unfold pool_bulk. destruct (nthr c =? 0); [|destruct (plf c <? e_wr e)]; intros H; inversion H; auto. Qed.

Lemma set_bulk_ok c e placed g dg chk : set_bulk c e placed g = Inl dg chk ->
  (dg = 1 /\ chk = true /\ can g = true) \/ (dg = 0 /\ chk = false /\ placed = true).
Proof.
  unfold set_bulk. destruct (e_canc e); [discriminate|].
  match goal with |- context [if ?b then Queue else _] => destruct b end; [discriminate|].
  match goal with |- context [if ?b && can g then _ else _] => destruct b end; cbn [andb].
  - destruct (can g) eqn:Eg.
    + intros H; inversion H; auto.
    + destruct placed; [|discriminate]. intros H. apply pool_bulk_ok in H. right. tauto.
  - destruct placed; [|discriminate]. intros H. apply pool_bulk_ok in H. right. tauto.
Qed.

Lemma can_lt g : can g = true -> g < kMaxInlineDepth.
Proof. unfold can. intros H. apply Z.ltb_lt in H. exact H. Qed.

Lemma real_dec_ok c orc : dec_ok (real_dec c orc).
Proof.
  intros id s g dg chk. unfold real_dec. generalize (orc id) as e. intros e H.
  destruct s; cbn [dispatch] in H.
  - apply of_code_ok in H. destruct H as [H1 H2]. split; [exact H1|]. intros Hc. destruct (H2 Hc) as [X _]. discriminate.
  - apply of_code_ok in H. destruct H as [H1 H2]. split; [exact H1|]. intros Hc. destruct (H2 Hc) as [X _]. discriminate.
  - apply pool_bulk_ok in H. destruct H as [-> ->]. split; [lia | discriminate].
  - apply of_code_ok in H. destruct H as [H1 H2]. split; [exact H1|]. intros Hc. destruct (H2 Hc) as [X _]. discriminate.
  - apply set_bulk_ok in H. destruct H as [(-> & -> & Hg)|(-> & -> & _)]; (split; [lia|]); [intros _; split; [apply can_lt; exact Hg | lia] | discriminate].
  - apply of_code_ok in H. destruct H as [H1 H2]. split; [exact H1|]. intros Hc. destruct (H2 Hc) as (_ & Hcode & ->).
    apply cts_code_one in Hcode. split; [apply can_lt; exact Hcode | lia].
  - apply set_bulk_ok in H. destruct H as [(-> & -> & Hg)|(-> & -> & _)]; (split; [lia|]); [intros _; split; [apply can_lt; exact Hg | lia] | discriminate].
  - destruct (can g) eqn:Eg.
    + inversion H; subst. split; [lia|]. intros _. split; [apply can_lt; exact Eg | lia].
    + unfold cts_force in H. apply of_code_ok in H. destruct H as [H1 H2]. split; [exact H1|]. intros Hc. destruct (H2 Hc) as [X _]. discriminate.
  - destruct (can g) eqn:Eg.
    + apply of_code_ok in H. destruct H as [H1 H2]. split; [exact H1|]. intros Hc. destruct (H2 Hc) as (_ & _ & ->).
      split; [apply can_lt; exact Eg | lia].
    + unfold cts_force in H. apply of_code_ok in H. destruct H as [H1 H2]. split; [exact H1|]. intros Hc. destruct (H2 Hc) as [X _]. discriminate.
  - inversion H; subst. split; [lia | discriminate].
  - apply of_code_ok in H. destruct H as [H1 H2]. split; [exact H1|]. intros Hc. destruct (H2 Hc) as [X _]. discriminate.
Qed.

Lemma C46_depth_bound_proof c orc t r : In r (exec (real_dec c orc) t) ->
  0 <= r_nest r <= kMaxInlineDepth + r_raw r /\ 0 <= r_raw r <= r_nest r.
Proof. apply depth_bound_dec. apply real_dec_ok. Qed.

(* ---------- outside the findings' domain no inline entry is unchecked ---------- *)
Lemma of_code_raw code dg : of_code code true = Inl dg false -> code = 11.
Proof.
  unfold of_code. destruct (code =? 0); [discriminate|]. destruct (code =? 1); [discriminate|].
  destruct (code =? 11) eqn:E; [intros _; apply Z.eqb_eq; exact E | discriminate].
Qed.
Lemma of_code_inl code guarded dg chk : of_code code guarded = Inl dg chk -> code = 1 \/ code = 11.
Proof.
  unfold of_code. destruct (code =? 0); [discriminate|]. destruct (code =? 1) eqn:E1; [left; apply Z.eqb_eq; exact E1|].
  destruct (code =? 11) eqn:E; [right; apply Z.eqb_eq; exact E | discriminate].
Qed.

Lemma cts_code_11 c e ci cost : G c e gen_cts_schedule ci cost = 11 -> nthr c = 0.
Proof.
  intros H. gen_unfold. destruct (nthr c =? 0) eqn:En; [apply Z.eqb_eq; exact En|]. exfalso.
  cbn [negb] in H. split_ifs; lia.
Qed.

Lemma cts_force_inl c e heavy dg chk : cts_force c e heavy = Inl dg chk -> nthr c = 0.
Proof.
  unfold cts_force. intros H. apply of_code_inl in H.
  destruct (nthr c =? 0) eqn:En; [apply Z.eqb_eq; exact En|]. exfalso.
  gen_unfold. rewrite En in H. cbn [negb] in H. destruct H as [H|H]; split_ifs; lia.
Qed.

Lemma guarded_site_checked c e s g dg chk : site_unguarded c s = false -> dispatch c e s g = Inl dg chk -> chk = true.
Proof.
  intros Hs H. destruct chk; [reflexivity|]. exfalso.
  destruct s; cbn [site_unguarded] in Hs; try discriminate; cbn [dispatch] in H.
  - apply set_bulk_ok in H. destruct H as [(_ & X & _)|(_ & _ & X)]; discriminate.
  - apply of_code_raw in H. apply cts_code_11 in H. rewrite H in Hs. discriminate.
  - destruct heavy; [discriminate|]. apply set_bulk_ok in H. destruct H as [(_ & X & _)|(_ & _ & X)]; discriminate.
  - destruct (can g); [discriminate|]. apply cts_force_inl in H. rewrite H in Hs. discriminate.
  - destruct (can g).
    + apply of_code_raw in H. apply cts_code_11 in H. rewrite H in Hs. discriminate.
    + apply cts_force_inl in H. rewrite H in Hs. discriminate.
Qed.

Lemma below_noraw c dec :
  (forall id s g dg chk, site_unguarded c s = false -> dec id s g = Inl dg chk -> chk = true) ->
  forall t nest g, uses_unguarded c t = false -> Forall (fun r => r_raw r = 0) (below dec t nest g 0).
Proof.
  intros Hd. induction t as [i kids IH] using task_ind'. intros nest g Hu. cbn [below]. cbn [uses_unguarded] in Hu.
  induction kids as [|[s k] rest IHr]; cbn [kids_runs]; [constructor|].
  inversion IH as [|? ? Hk Hrest]; subst. cbn [snd] in Hk.
  cbn [existsb fst snd] in Hu. apply orb_false_elim in Hu. destruct Hu as [Hu1 Hu2]. apply orb_false_elim in Hu1. destruct Hu1 as [Hs Hku].
  specialize (IHr Hrest Hu2). apply Forall_app. split; [|exact IHr].
  destruct (dec (tid k) s g) as [dg chk| |] eqn:E; [| |constructor].
  - rewrite (Hd _ _ _ _ _ Hs E). constructor; [reflexivity | apply Hk; exact Hku].
  - constructor; [reflexivity | apply Hk; exact Hku].
Qed.

Lemma C46_holds_except_proof c orc t : uses_unguarded c t = false ->
  forall r, In r (exec (real_dec c orc) t) -> 0 <= r_nest r <= kMaxInlineDepth.
Proof.
  intros Hu r Hin. pose proof (C46_depth_bound_proof c orc t r Hin) as [Hb _].
  assert (Hr : r_raw r = 0).
  { unfold exec in Hin. destruct Hin as [<-|Hin]; [reflexivity|].
    pose proof (below_noraw c (real_dec c orc)) as F.
    assert (Hd : forall id s g dg chk, site_unguarded c s = false -> real_dec c orc id s g = Inl dg chk -> chk = true).
    { intros id s g dg chk Hs. unfold real_dec. apply guarded_site_checked. exact Hs. }
    specialize (F Hd t 0 0 Hu). rewrite Forall_forall in F. apply F. exact Hin. }
  lia.
Qed.

(* ---------- refutations: a chain at an unguarded site nests to its length ---------- *)
Lemma chain_deepest dec s : (forall id g, exists dg chk, dec id s g = Inl dg chk) ->
  forall n i nest g raw, (0 < n)%nat -> exists r, In r (below dec (chain_from s i n) nest g raw) /\ r_nest r = nest + Z.of_nat n.
Proof.
  intros Hd. induction n as [|m IH]; intros i nest g raw Hn; [lia|].
  cbn [chain_from below kids_runs]. destruct (Hd (tid (chain_from s (i + 1) m)) g) as (dg & chk & E). rewrite E.
  rewrite app_nil_r. destruct m as [|m'].
  - eexists. split; [left; reflexivity|]. cbn [r_nest]. lia.
  - destruct (IH (i + 1) (nest + 1) (g + dg + body_guard s) (if chk then raw else raw + 1)) as (r & Hin & Hr); [lia|].
    exists r. split; [right; exact Hin | lia].
Qed.

Lemma chain_refutes c e s : (forall g, exists dg chk, dispatch c e s g = Inl dg chk) ->
  forall n, (0 < n)%nat -> exists r, In r (exec (real_dec c (fun _ => e)) (chain s n)) /\ r_nest r = Z.of_nat n.
Proof.
  intros H n Hn. destruct (chain_deepest (real_dec c (fun _ => e)) s) with (n := n) (i := 0) (nest := 0) (g := 0) (raw := 0) as (r & Hin & Hr).
  - intros id g. unfold real_dec. apply H.
  - exact Hn.
  - exists r. split; [right; exact Hin | lia].
Qed.

(* the measured configuration: 1 pool thread (poolLoadFactor_ 32, taskSetLoadFactor_ 4), 40 blocked force-queued tasks, so
   workRemaining_ = 40 > 32 for an external (not pool-recursive) caller; for the task-set sites the blockers are in the set *)
Definition cfg1 : cfg := CFG 1 32 4 3 1.
Definition cfg0 : cfg := CFG 0 0 0 3 0.                 (* a pool without threads *)
Definition env_pool : env := ENV 0 40 false false false.
Definition env_set : env := ENV 40 40 false false false.
Definition env_idle : env := ENV 0 0 false false false.

Lemma pool_always_inline g : exists dg chk, dispatch cfg1 env_pool SPool g = Inl dg chk.
Proof. exists 0, false. reflexivity. Qed.
Lemma poolplaced_always_inline g : exists dg chk, dispatch cfg1 env_pool SPoolPlaced g = Inl dg chk.
Proof. exists 0, false. reflexivity. Qed.
Lemma poolbulk_always_inline g : exists dg chk, dispatch cfg1 env_pool SPoolBulk g = Inl dg chk.
Proof. exists 0, false. reflexivity. Qed.
Lemma tsk_always_inline g : exists dg chk, dispatch cfg1 env_set STsk g = Inl dg chk.
Proof. exists 0, false. reflexivity. Qed.
Lemma thenimm_always_inline c e g : exists dg chk, dispatch c e SThenImm g = Inl dg chk.
Proof. exists 0, false. reflexivity. Qed.
Lemma thenpool_always_inline g : exists dg chk, dispatch cfg1 env_pool SThenPool g = Inl dg chk.
Proof. exists 0, false. reflexivity. Qed.
(* heavy ConcurrentTaskSet::scheduleBulk: invokeInline (guarded) below the cap, pool_.scheduleBulkPlaced -> gen(i)() above it *)
Lemma ctshbulk_always_inline g : exists dg chk, dispatch cfg1 env_set (SCtsBulk true) g = Inl dg chk.
Proof.
  cbn [dispatch]. unfold set_bulk. cbn [e_canc env_set negb andb].
  destruct (can g); [exists 1, true | exists 0, false]; reflexivity.
Qed.
(* a pool without threads: every ForceQueuingTag path runs the functor at once *)
Lemma cts_zero_always_inline heavy g : exists dg chk, dispatch cfg0 env_idle (SCts heavy) g = Inl dg chk.
Proof. cbn [dispatch]. destruct (can g); destruct heavy; eexists; eexists; reflexivity. Qed.

Definition refuted_at (c : cfg) (e : env) (s : site) : Prop :=
  forall n, (0 < n)%nat -> exists r, In r (exec (real_dec c (fun _ => e)) (chain s n)) /\ r_nest r = Z.of_nat n.

Lemma refuted_pool : refuted_at cfg1 env_pool SPool.
Proof. unfold refuted_at. apply chain_refutes. exact pool_always_inline. Qed.
Lemma refuted_poolplaced : refuted_at cfg1 env_pool SPoolPlaced.
Proof. unfold refuted_at. apply chain_refutes. exact poolplaced_always_inline. Qed.
Lemma refuted_poolbulk : refuted_at cfg1 env_pool SPoolBulk.
Proof. unfold refuted_at. apply chain_refutes. exact poolbulk_always_inline. Qed.
Lemma refuted_tsk : refuted_at cfg1 env_set STsk.
Proof. unfold refuted_at. apply chain_refutes. exact tsk_always_inline. Qed.
Lemma refuted_thenimm : refuted_at cfg1 env_idle SThenImm.
Proof. unfold refuted_at. apply chain_refutes. apply thenimm_always_inline. Qed.
Lemma refuted_thenpool : refuted_at cfg1 env_pool SThenPool.
Proof. unfold refuted_at. apply chain_refutes. exact thenpool_always_inline. Qed.
Lemma refuted_ctshbulk : refuted_at cfg1 env_set (SCtsBulk true).
Proof. unfold refuted_at. apply chain_refutes. exact ctshbulk_always_inline. Qed.
Lemma refuted_cts_zero heavy : refuted_at cfg0 env_idle (SCts heavy).
Proof. unfold refuted_at. apply chain_refutes. apply cts_zero_always_inline. Qed.

(* no constant bounds the nesting: for every K some program exceeds it *)
Lemma refuted_unbounded c e s : refuted_at c e s -> forall K, exists t r, In r (exec (real_dec c (fun _ => e)) t) /\ K < r_nest r.
Proof.
  intros H K. destruct (H (Z.to_nat (Z.max K 0) + 1)%nat) as (r & Hin & Hr); [lia|].
  exists (chain s (Z.to_nat (Z.max K 0) + 1)), r. split; [exact Hin | lia].
Qed.

(* every refutation witness lies in the findings' domain *)
Lemma witnesses_in_domain :
  site_unguarded cfg1 SPool = true /\ site_unguarded cfg1 SPoolPlaced = true /\ site_unguarded cfg1 SPoolBulk = true /\
  site_unguarded cfg1 STsk = true /\ site_unguarded cfg1 SThenImm = true /\ site_unguarded cfg1 SThenPool = true /\
  site_unguarded cfg1 (SCtsBulk true) = true /\ site_unguarded cfg0 (SCts false) = true /\ site_unguarded cfg0 (SCts true) = true.
Proof. repeat split. Qed.

(* nesting through wait(): n independent waiting tasks can nest n deep when every wait is handed the next task *)
Lemma wait_nest_all n cur : wait_nest (repeat true n) cur = cur + Z.of_nat n.
Proof.
  revert cur. induction n as [|m IH]; intros cur; cbn [repeat wait_nest]; [lia|].
  rewrite IH. lia.
Qed.

Lemma C46_refuted_proof : ~ (exists K, forall c orc t r, In r (exec (real_dec c orc) t) -> r_nest r <= K).
Proof.
  intros [K H]. destruct (refuted_unbounded _ _ _ refuted_pool K) as (t & r & Hin & Hr).
  specialize (H _ _ _ _ Hin). lia.
Qed.
Lemma wait_nest_from_zero n : wait_nest (repeat true n) 0 = Z.of_nat n.
Proof. rewrite wait_nest_all. lia. Qed.
