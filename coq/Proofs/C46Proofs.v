(* C46 -- inline task execution never grows the stack without bound: proofs over Model/InlineDepthModel.v. *)
From Coq Require Import ZArith List Bool Lia.
From DV Require Import Base.MachInt Gen.GenTaskSet Model.TaskSetModel Model.TaskSetCheck GenTie.TaskSetGenTie Model.InlineDepthModel.
Import ListNotations.
Local Open Scope Z_scope.

Lemma task_ind' (P : task -> Prop) : (forall i kids, Forall (fun sk => P (snd sk)) kids -> P (Task i kids)) -> forall t, P t.
Proof.
  intros H. fix IH 1. intros [i kids]. apply H.
  induction kids as [|[s k] r IHr]; constructor; [apply IH|exact IHr].
Qed.

(* ---------- the counters' invariant ---------- *)
(* a decision function is well-formed when guards only add and a CHECKED inline entry was taken below the cap and adds at least 1 *)
Definition dec_ok (dec : Z -> site -> Z -> outcome) : Prop :=
  forall id s g dg chk, dec id s g = Inl dg chk -> 0 <= dg /\ (chk = true -> g < kMaxInlineDepth /\ 1 <= dg).

Definition inv (nest g raw : Z) : Prop := 0 <= raw <= nest /\ 0 <= g /\ nest - raw <= Z.min g kMaxInlineDepth.

Lemma body_guard_nonneg s : 0 <= body_guard s <= 1.
Proof. destruct s; cbn; lia. Qed.

Lemma kmax_val : kMaxInlineDepth = 32.
Proof. reflexivity. Qed.

Lemma below_inv dec (Hd : dec_ok dec) : forall t nest g raw, inv nest g raw ->
  Forall (fun r => inv (r_nest r) (r_g r) (r_raw r)) (below dec t nest g raw).
Proof.
  induction t as [i kids IH] using task_ind'. intros nest g raw Hi. cbn [below].
  induction kids as [|[s k] rest IHr]; cbn [kids_runs]; [constructor|].
  inversion IH as [|? ? Hk Hrest]; subst. cbn [snd] in Hk. specialize (IHr Hrest).
  apply Forall_app. split; [|exact IHr].
  pose proof (body_guard_nonneg s) as Hb.
  destruct (dec (tid k) s g) as [dg chk| |] eqn:E; [| |constructor].
  - destruct (Hd _ _ _ _ _ E) as [Hdg Hchk].
    assert (Hn : inv (nest + 1) (g + dg + body_guard s) (if chk then raw else raw + 1)).
    { unfold inv in *. rewrite kmax_val in *. destruct chk.
      - destruct (Hchk eq_refl) as [Hg H1]. rewrite kmax_val in Hg. lia.
      - lia. }
    constructor; [exact Hn | apply Hk; exact Hn].
  - assert (Hn : inv 0 (body_guard s) 0) by (unfold inv; rewrite kmax_val; lia).
    constructor; [exact Hn | apply Hk; exact Hn].
Qed.

Lemma exec_inv dec (Hd : dec_ok dec) t : Forall (fun r => inv (r_nest r) (r_g r) (r_raw r)) (exec dec t).
Proof.
  assert (H0 : inv 0 0 0) by (unfold inv; rewrite kmax_val; lia).
  unfold exec. constructor; [exact H0 | apply below_inv; assumption].
Qed.

Lemma depth_bound_dec dec (Hd : dec_ok dec) t r : In r (exec dec t) -> 0 <= r_nest r <= kMaxInlineDepth + r_raw r /\ 0 <= r_raw r <= r_nest r.
Proof.
  intros Hin. pose proof (exec_inv dec Hd t) as F. rewrite Forall_forall in F. specialize (F r Hin).
  unfold inv in F. rewrite kmax_val in *. lia.
Qed.

(* ---------- the decision functions of the real code are well-formed ---------- *)
Lemma of_code_ok code guarded dg chk : of_code code guarded = Inl dg chk ->
  0 <= dg /\ (chk = true -> guarded = true /\ code = 1 /\ dg = 1).
Proof.
  unfold of_code. destruct (code =? 0); [discriminate|].
  destruct (code =? 1) eqn:E1.
  - apply Z.eqb_eq in E1. destruct guarded; intros H; inversion H; subst; split; try lia; intros; try discriminate; auto.
  - destruct (code =? 11); intros H; inversion H; subst. split; [lia | discriminate].
Qed.

Lemma force_code_ne_m9 placed n : 10 + force_code placed n <> 1.
Proof. unfold force_code. destruct (n =? 0); [|destruct placed]; lia. Qed.

Lemma comp_cts_one placed out lf canc ci skip recursive w n plf l2 :
  comp_cts placed out lf canc ci skip recursive w n plf l2 = 1 -> ci = true.
Proof.
  unfold comp_cts. pose proof (force_code_ne_m9 placed n) as F.
  destruct ((cts_threshold placed n lf <? out) && negb canc && ci) eqn:E.
  - intros _. apply andb_prop in E. tauto.
  - destruct (negb skip && dec_overloaded recursive w n plf l2); [destruct ci; [reflexivity|]|]; intros H; contradiction.
Qed.

Lemma cts_code_one c e ci cost : G c e gen_cts_schedule ci cost = 1 -> ci = true.
Proof.
  unfold G. rewrite tie_cts_schedule. destruct (cost =? c_kHeavy); apply comp_cts_one.
Qed.

Lemma pool_bulk_ok c e dg chk : pool_bulk c e = Inl dg chk -> dg = 0 /\ chk = false.
Proof. unfold pool_bulk. destruct (nthr c =? 0); [|destruct (plf c <? e_wr e)]; intros H; inversion H; auto. Qed.

Lemma set_bulk_ok c e placed g dg chk : set_bulk c e placed g = Inl dg chk ->
  (dg = 1 /\ chk = true /\ can g = true) \/ (dg = 0 /\ chk = false /\ placed = true).
Proof.
  unfold set_bulk. destruct (e_canc e); [discriminate|].
  match goal with |- context [if ?b then Queue else _] => destruct b end; [discriminate|].
  match goal with |- context [if ?b && can g then _ else _] => destruct b end; cbn [andb].
  - destruct (can g) eqn:Eg.
    + intros H; inversion H; auto.
    + destruct placed; [|discriminate]. intros H. apply pool_bulk_ok in H. right. tauto.
  - destruct placed; [|discriminate]. intros H. apply pool_bulk_ok in H. right. tauto.
Qed.

Lemma can_lt g : can g = true -> g < kMaxInlineDepth.
Proof. unfold can. intros H. apply Z.ltb_lt in H. exact H. Qed.

Lemma real_dec_ok c orc : dec_ok (real_dec c orc).
Proof.
  intros id s g dg chk. unfold real_dec. generalize (orc id) as e. intros e H.
  destruct s; cbn [dispatch] in H.
  - apply of_code_ok in H. destruct H as [H1 H2]. split; [exact H1|]. intros Hc. destruct (H2 Hc) as [X _]. discriminate.
  - apply of_code_ok in H. destruct H as [H1 H2]. split; [exact H1|]. intros Hc. destruct (H2 Hc) as [X _]. discriminate.
  - apply pool_bulk_ok in H. destruct H as [-> ->]. split; [lia | discriminate].
  - apply of_code_ok in H. destruct H as [H1 H2]. split; [exact H1|]. intros Hc. destruct (H2 Hc) as [X _]. discriminate.
  - apply set_bulk_ok in H. destruct H as [(-> & -> & Hg)|(-> & -> & _)]; (split; [lia|]); [intros _; split; [apply can_lt; exact Hg | lia] | discriminate].
  - apply of_code_ok in H. destruct H as [H1 H2]. split; [exact H1|]. intros Hc. destruct (H2 Hc) as (_ & Hcode & ->).
    apply cts_code_one in Hcode. split; [apply can_lt; exact Hcode | lia].
  - apply set_bulk_ok in H. destruct H as [(-> & -> & Hg)|(-> & -> & _)]; (split; [lia|]); [intros _; split; [apply can_lt; exact Hg | lia] | discriminate].
  - destruct (can g) eqn:Eg.
    + inversion H; subst. split; [lia|]. intros _. split; [apply can_lt; exact Eg | lia].
    + unfold cts_force in H. apply of_code_ok in H. destruct H as [H1 H2]. split; [exact H1|]. intros Hc. destruct (H2 Hc) as [X _]. discriminate.
  - destruct (can g) eqn:Eg.
    + apply of_code_ok in H. destruct H as [H1 H2]. split; [exact H1|]. intros Hc. destruct (H2 Hc) as (_ & _ & ->).
      split; [apply can_lt; exact Eg | lia].
    + unfold cts_force in H. apply of_code_ok in H. destruct H as [H1 H2]. split; [exact H1|]. intros Hc. destruct (H2 Hc) as [X _]. discriminate.
  - inversion H; subst. split; [lia | discriminate].
  - apply of_code_ok in H. destruct H as [H1 H2]. split; [exact H1|]. intros Hc. destruct (H2 Hc) as [X _]. discriminate.
Qed.

Lemma C46_depth_bound_proof c orc t r : In r (exec (real_dec c orc) t) ->
  0 <= r_nest r <= kMaxInlineDepth + r_raw r /\ 0 <= r_raw r <= r_nest r.
Proof. apply depth_bound_dec. apply real_dec_ok. Qed.
