(* C31: ForwardPropagator.  First pass = FIFO breadth-first propagation (fp_bfs), second pass = bidirectional
   propagation over the set objects reached (fp_pass2).  Main result: from a state in which every incomplete node has
   counter 0, the propagated state is PREPARED (C30Proofs.Prepared) and its incomplete nodes are exactly the forward closure
   of the marked nodes plus the members of the set objects the closure nodes point to. *)
From Coq Require Import ZArith List Bool PArith FMapPositive Lia Arith Permutation.
From DV Require Import Base.MachInt Model.GraphModel Proofs.C30Proofs.
Import ListNotations.
Local Open Scope Z_scope.

Arguments countp : simpl never.
Arguments tsum : simpl never.

(* ------------------------------------------------------------------------------------------------ list facts *)

Lemma In_add_nodup x y l : In x (add_nodup y l) <-> x = y \/ In x l.
Proof.
  unfold add_nodup. destruct (memp y l) eqn:E.
  - apply memp_In in E. split; [auto|]. intros [->|H]; assumption.
  - rewrite in_app_iff. simpl. split; [intros [H|[H|[]]]; auto | intros [H|H]; auto].
Qed.

Lemma NoDup_app_l {A} (l1 l2 : list A) : NoDup (l1 ++ l2) -> NoDup l1.
Proof.
  induction l1 as [|a l1 IH]; intros H; [constructor|]. simpl in H. inversion H; subst. constructor; [|apply IH; assumption].
  intros Ha. apply H2. apply in_app_iff. left. exact Ha.
Qed.

Lemma tsum_perm {A} (f : A -> nat) l1 l2 : Permutation l1 l2 -> tsum f l1 = tsum f l2.
Proof.
  intros H. induction H; try reflexivity.
  - rewrite !tsum_cons, IHPermutation. reflexivity.
  - rewrite !tsum_cons. lia.
  - congruence.
Qed.

Lemma tsum_incl_le (f : positive -> nat) l nodes :
  NoDup l -> (forall p, In p l -> In p nodes) -> (tsum f l <= tsum f nodes)%nat.
Proof.
  revert nodes. induction l as [|a l IH]; intros nodes Hnd Hin; [rewrite tsum_nil; lia|].
  inversion Hnd as [|? ? Ha Hnd']; subst.
  destruct (in_split a nodes (Hin a (or_introl eq_refl))) as [n1 [n2 ->]].
  rewrite tsum_cons, tsum_app, tsum_cons.
  specialize (IH (n1 ++ n2) Hnd').
  assert (H : forall p, In p l -> In p (n1 ++ n2)).
  { intros p Hp. specialize (Hin p (or_intror Hp)). apply in_app_iff in Hin. apply in_app_iff.
    destruct Hin as [H|[H|H]]; auto. subst. contradiction. }
  specialize (IH H). rewrite tsum_app in IH. lia.
Qed.

(* sum over the nodes selected by a boolean = sum over a duplicate-free list with the same members *)
Lemma tsum_select (f : positive -> nat) (b : positive -> bool) l nodes :
  NoDup nodes -> NoDup l -> (forall p, In p l <-> In p nodes /\ b p = true) ->
  tsum (fun p => if b p then f p else 0%nat) nodes = tsum f l.
Proof.
  intros Hn Hl Hiff.
  assert (HP : Permutation l (filter b nodes)).
  { apply NoDup_Permutation; [exact Hl | apply NoDup_filter; exact Hn|]. intros p. rewrite filter_In. apply Hiff. }
  rewrite (tsum_perm f _ _ HP). clear. induction nodes as [|a nodes IH]; [reflexivity|].
  rewrite tsum_cons. cbn [filter]. destruct (b a); [rewrite tsum_cons|]; rewrite IH; reflexivity.
Qed.

(* ------------------------------------------------------------------------------------------------ first pass *)

Section FP.
  Variable g : graph.
  Let nodes := g_nodes g.
  Let dp := fun n => getl (g_deps g) n.
  Let c0 := g_cnt g.
  Let M := fp_start g.

  (* forward-dependency closure of the marked (= incomplete) nodes *)
  Inductive reach : positive -> Prop :=
  | reach_m n : In n M -> reach n
  | reach_d p d : reach p -> In d (dp p) -> reach d.

  Definition SP (P : list positive) (d : positive) : nat := tsum (fun p => countp d (dp p)) P.

  Hypothesis Hnd : NoDup nodes.
  Hypothesis Hcl : forall p d, In p nodes -> In d (dp p) -> In d nodes.
  Hypothesis Hpre : forall n, In n nodes -> getz c0 n = 0 \/ getz c0 n = K64.
  Hypothesis Hbound : forall d, In d nodes -> Z.of_nat (SP nodes d) < K64.

  Definition grp_ok (inV : positive -> Prop) (grp : list positive) : Prop :=
    forall s, In s grp <-> (g_bip g = true /\ exists v, inV v /\ PM.find v (g_setof g) = Some s).

  Lemma add_group_ok (inV : positive -> Prop) grp d :
    grp_ok inV grp -> grp_ok (fun v => v = d \/ inV v) (add_group g d grp).
  Proof.
    intros H s. specialize (H s). unfold add_group. destruct (g_bip g) eqn:Eb.
    - destruct (PM.find d (g_setof g)) as [sd|] eqn:Ed.
      + rewrite In_add_nodup, H. split.
        * intros [->|[_ [v [Hv Hs]]]]; (split; [reflexivity|]); [exists d; auto | exists v; auto].
        * intros [_ [v [[->|Hv] Hs]]]; [left; congruence | right; split; [reflexivity | exists v; auto]].
      + rewrite H. split.
        * intros [_ [v [Hv Hs]]]. split; [reflexivity | exists v; auto].
        * intros [_ [v [[->|Hv] Hs]]]; [congruence | split; [reflexivity | exists v; auto]].
    - rewrite H. split; intros [E _]; discriminate.
  Qed.

  Lemma grp_ok_ext (P Q : positive -> Prop) grp : (forall v, P v <-> Q v) -> grp_ok P grp -> grp_ok Q grp.
  Proof.
    intros E H s. rewrite (H s). split; intros [Hb [v [Hv Hs]]]; (split; [exact Hb | exists v; split; [apply E; exact Hv | exact Hs]]).
  Qed.

  (* state while the dependents of n are being processed: P = nodes already processed, done = prefix of dp n handled *)
  Record JI (P : list positive) (n : positive) (done : list positive) (c : zmap) (vis q grp : list positive) : Prop := mkJI {
    ji_perm : Permutation vis (P ++ n :: q);
    ji_nodup : NoDup vis;
    ji_in : forall v, In v vis -> In v nodes /\ reach v;
    ji_m : forall m, In m M -> In m vis;
    ji_closed : forall p d, In p P -> In d (dp p) -> In d vis;
    ji_done : forall d, In d done -> In d vis;
    ji_cnt : forall d, In d nodes -> (In d vis -> getz c d = Z.of_nat (SP P d + countp d done)) /\ (~ In d vis -> getz c d = K64);
    ji_grp : grp_ok (fun v => In v vis) grp }.

  Lemma SP_bound P n done todo d :
    NoDup (P ++ [n]) -> (forall p, In p (P ++ [n]) -> In p nodes) -> done ++ todo = dp n -> In d nodes ->
    Z.of_nat (SP P d + countp d done + countp d todo) < K64.
  Proof.
    intros Hn Hi Hd Hdn. pose proof (tsum_incl_le (fun p => countp d (dp p)) (P ++ [n]) nodes Hn Hi) as T.
    rewrite tsum_app, tsum_cons, tsum_nil in T. rewrite <- Hd, countp_app in T. specialize (Hbound d Hdn). unfold SP in *. lia.
  Qed.

  Lemma perm_parts vis P n q :
    Permutation vis (P ++ n :: q) -> NoDup vis -> (forall v, In v vis -> In v nodes) ->
    NoDup (P ++ [n]) /\ (forall p, In p (P ++ [n]) -> In p nodes).
  Proof.
    intros Hp Hnv Hin.
    assert (HN : NoDup (P ++ n :: q)) by (eapply Permutation_NoDup; eauto).
    split.
    - replace (P ++ n :: q) with ((P ++ [n]) ++ q) in HN by (rewrite <- app_assoc; reflexivity).
      apply NoDup_app_l in HN. exact HN.
    - intros p Hpp. apply Hin. eapply Permutation_in; [apply Permutation_sym; exact Hp|].
      apply in_app_iff in Hpp. apply in_app_iff. destruct Hpp as [H|[H|[]]]; [left; exact H | right; left; exact H].
  Qed.

  Lemma fp_deps_inv P n : forall todo done c vis q grp,
    JI P n done c vis q grp -> done ++ todo = dp n -> In n nodes -> reach n ->
    match fp_deps g todo c vis q grp with
    | (c', vis', q', grp') =>
        JI P n (dp n) c' vis' q' grp' /\ (length q' + length vis = length q + length vis')%nat
    end.
  Proof.
    induction todo as [|d todo IH]; intros done c vis q grp HJ Hd Hn Hr.
    - cbn [fp_deps]. rewrite app_nil_r in Hd. subst done. split; [exact HJ | lia].
    - cbn [fp_deps].
      assert (Hdn : In d nodes) by (apply (Hcl n d Hn); rewrite <- Hd; apply in_app_iff; right; left; reflexivity).
      assert (Hdr : reach d) by (apply (reach_d n d Hr); rewrite <- Hd; apply in_app_iff; right; left; reflexivity).
      destruct HJ as [J1 J2 J3 J4 J5 J6 J7 J8].
      destruct (perm_parts vis P n q J1 J2 (fun v Hv => proj1 (J3 v Hv))) as [HN HI].
      pose proof (SP_bound P n done (d :: todo) d HN HI Hd Hdn) as HB. rewrite (countp_cons d d) in HB.
      destruct (Pos.eq_dec d d) as [_|Ne]; [|congruence].
      assert (Hd' : (done ++ [d]) ++ todo = dp n) by (rewrite <- app_assoc; exact Hd).
      destruct (memp d vis) eqn:Ev.
      + (* already visited: fetch_add *)
        apply memp_In in Ev.
        assert (Hc : getz c d = Z.of_nat (SP P d + countp d done)) by (apply (J7 d Hdn); exact Ev).
        assert (Hadd : add_inc c d = PM.add d (Z.of_nat (SP P d + countp d done) + 1) c).
        { unfold add_inc. destruct (getz c d =? K64) eqn:EK; [apply Z.eqb_eq in EK; lia|]. rewrite Hc.
          rewrite wrap64_small; [reflexivity | unfold K64 in *; lia]. }
        rewrite Hadd. apply (IH (done ++ [d])); try assumption.
        constructor; try assumption.
        * intros y Hy. apply in_app_iff in Hy. destruct Hy as [Hy|[<-|[]]]; [apply J6; exact Hy | exact Ev].
        * intros y Hy. split.
          -- intros Hv. destruct (Pos.eq_dec y d) as [->|Ne].
             ++ rewrite getz_add_same, countp_app, (countp_cons d d), countp_nil. destruct (Pos.eq_dec d d); [lia | congruence].
             ++ rewrite getz_add_other by exact Ne. rewrite countp_app, (countp_cons y d), countp_nil.
                destruct (Pos.eq_dec d y); [congruence|]. rewrite Nat.add_0_r. apply (J7 y Hy). exact Hv.
          -- intros Hv. assert (y <> d) by (intros ->; contradiction). rewrite getz_add_other by assumption. apply (J7 y Hy). exact Hv.
      + (* first visit: store 1, enqueue *)
        apply memp_false in Ev.
        assert (Hc : getz c d = K64) by (apply (J7 d Hdn); exact Ev).
        assert (Hadd : add_inc c d = PM.add d 1 c) by (unfold add_inc; rewrite Hc, Z.eqb_refl; reflexivity).
        rewrite Hadd.
        assert (HS0 : SP P d = 0%nat).
        { unfold SP. apply tsum_zero. intros p Hp. destruct (Nat.eq_dec (countp d (dp p)) 0) as [E|E]; [exact E|].
          exfalso. apply Ev. apply (J5 p d Hp). apply countp_In. lia. }
        assert (HD0 : countp d done = 0%nat).
        { destruct (Nat.eq_dec (countp d done) 0) as [E|E]; [exact E|]. exfalso. apply Ev. apply J6. apply countp_In. lia. }
        specialize (IH (done ++ [d]) (PM.add d 1 c) (d :: vis) (q ++ [d]) (add_group g d grp)).
        destruct (fp_deps g todo (PM.add d 1 c) (d :: vis) (q ++ [d]) (add_group g d grp)) as [[[c' vis'] q'] grp'].
        assert (HJ' : JI P n (done ++ [d]) (PM.add d 1 c) (d :: vis) (q ++ [d]) (add_group g d grp)).
        { constructor.
          - replace (P ++ n :: q ++ [d]) with ((P ++ n :: q) ++ [d]) by (rewrite <- app_assoc; reflexivity).
            eapply Permutation_trans; [apply perm_skip; exact J1 | apply Permutation_cons_append].
          - constructor; assumption.
          - intros v [<-|Hv]; [split; assumption | apply J3; exact Hv].
          - intros m Hm. right. apply J4. exact Hm.
          - intros p y Hp Hy. right. eapply J5; eauto.
          - intros y Hy. apply in_app_iff in Hy. destruct Hy as [Hy|[<-|[]]]; [right; apply J6; exact Hy | left; reflexivity].
          - intros y Hy. split.
            + intros Hv. destruct (Pos.eq_dec y d) as [->|Ne].
              * rewrite getz_add_same, countp_app, (countp_cons d d), countp_nil, HS0, HD0. destruct (Pos.eq_dec d d); [reflexivity | congruence].
              * rewrite getz_add_other by exact Ne. rewrite countp_app, (countp_cons y d), countp_nil.
                destruct (Pos.eq_dec d y); [congruence|]. rewrite Nat.add_0_r. apply (J7 y Hy).
                destruct Hv as [E|Hv]; [congruence | exact Hv].
            + intros Hv. assert (y <> d) by (intros ->; apply Hv; left; reflexivity). rewrite getz_add_other by assumption.
              apply (J7 y Hy). intros Hv'. apply Hv. right. exact Hv'.
          - apply (grp_ok_ext (fun v => v = d \/ In v vis)); [|apply add_group_ok; exact J8]. intros v. simpl. split; intros [E|H]; auto. }
        destruct (IH HJ' Hd' Hn Hr) as [R1 R2]. split; [exact R1|]. rewrite app_length in R2. simpl in R2. lia.
  Qed.


  Record JO (P q : list positive) (c : zmap) (vis grp : list positive) : Prop := mkJO {
    jo_perm : Permutation vis (P ++ q);
    jo_nodup : NoDup vis;
    jo_in : forall v, In v vis -> In v nodes /\ reach v;
    jo_m : forall m, In m M -> In m vis;
    jo_closed : forall p d, In p P -> In d (dp p) -> In d vis;
    jo_cnt : forall d, In d nodes -> (In d vis -> getz c d = Z.of_nat (SP P d)) /\ (~ In d vis -> getz c d = K64);
    jo_grp : grp_ok (fun v => In v vis) grp }.

  Lemma vis_length vis : NoDup vis -> (forall v, In v vis -> In v nodes) -> (length vis <= length nodes)%nat.
  Proof. intros H1 H2. apply NoDup_incl_length; [exact H1 | exact H2]. Qed.

  Lemma fp_bfs_inv : forall fuel q P c vis grp,
    JO P q c vis grp -> (length q + (length nodes - length vis) <= fuel)%nat ->
    exists c' vis' grp' P', fp_bfs g fuel q c vis grp = Some (c', vis', grp') /\ JO P' [] c' vis' grp'.
  Proof.
    induction fuel as [|f IH]; intros q P c vis grp HJ Hf.
    - destruct q as [|n q]; [|simpl in Hf; lia]. exists c, vis, grp, P. split; [reflexivity | exact HJ].
    - destruct q as [|n q]; [exists c, vis, grp, P; split; [reflexivity | exact HJ]|].
      cbn [fp_bfs]. destruct HJ as [J1 J2 J3 J4 J5 J7 J8].
      assert (Hnv : In n vis) by (eapply Permutation_in; [apply Permutation_sym; exact J1 | apply in_app_iff; right; left; reflexivity]).
      destruct (J3 n Hnv) as [Hn Hr].
      assert (HJI : JI P n [] c vis q grp).
      { constructor; try assumption; [intros d [] | intros d Hd; rewrite countp_nil, Nat.add_0_r; apply J7; exact Hd]. }
      pose proof (fp_deps_inv P n (dp n) [] c vis q grp HJI eq_refl Hn Hr) as HD. change (getl (g_deps g) n) with (dp n).
      destruct (fp_deps g (dp n) c vis q grp) as [[[c' vis'] q'] grp']. destruct HD as [[K1 K2 K3 K4 K5 K6 K7 K8] HL].
      pose proof (vis_length vis' K2 (fun v Hv => proj1 (K3 v Hv))) as HV.
      apply (IH q' (P ++ [n])).
      + constructor; try assumption.
        * rewrite <- app_assoc. exact K1.
        * intros p d Hp Hd. apply in_app_iff in Hp. destruct Hp as [Hp|[<-|[]]]; [eapply K5; eauto | apply K6; exact Hd].
        * intros d Hd. destruct (K7 d Hd) as [A B]. split; [|exact B]. intros Hv. rewrite (A Hv). unfold SP. rewrite tsum_app, tsum_cons, tsum_nil. f_equal. lia.
      + simpl in Hf. lia.
  Qed.

  Lemma fold_group l : forall (inV : positive -> Prop) grp,
    grp_ok inV grp -> grp_ok (fun v => In v l \/ inV v) (fold_left (fun grp n => add_group g n grp) l grp).
  Proof.
    induction l as [|a l IH]; intros inV grp H; cbn [fold_left].
    - apply (grp_ok_ext inV); [|exact H]. intros v. simpl. tauto.
    - apply (grp_ok_ext (fun v => In v l \/ (v = a \/ inV v))); [|apply IH; apply add_group_ok; exact H]. intros v. simpl. intuition congruence.
  Qed.

  Lemma M_spec n : In n M <-> In n nodes /\ incb c0 n = true.
  Proof. unfold M, fp_start. rewrite filter_In. reflexivity. Qed.

  Lemma JO_init : JO [] M c0 (rev M) (fold_left (fun grp n => add_group g n grp) M []).
  Proof.
    assert (HNM : NoDup M) by (apply NoDup_filter; exact Hnd).
    constructor.
    - simpl. apply Permutation_sym, Permutation_rev.
    - eapply Permutation_NoDup; [apply Permutation_rev | exact HNM].
    - intros v Hv. apply in_rev in Hv. split; [apply M_spec in Hv; tauto | apply reach_m; exact Hv].
    - intros m Hm. apply in_rev. rewrite rev_involutive. exact Hm.
    - intros p d [].
    - intros d Hd. unfold SP. rewrite tsum_nil. split.
      + intros Hv. apply in_rev in Hv. apply M_spec in Hv. destruct Hv as [_ Hi]. unfold incb in Hi. apply negb_true_iff, Z.eqb_neq in Hi.
        destruct (Hpre d Hd) as [E|E]; [exact E | contradiction].
      + intros Hv. destruct (incb c0 d) eqn:Hi.
        * exfalso. apply Hv. apply in_rev. rewrite rev_involutive. apply M_spec. auto.
        * unfold incb in Hi. apply negb_false_iff, Z.eqb_eq in Hi. exact Hi.
    - apply (grp_ok_ext (fun v => In v M \/ False)); [|apply (fold_group M (fun _ => False) [])].
      + intros v. rewrite <- in_rev. tauto.
      + intros s. simpl. split; [tauto|]. intros [_ [v [[] _]]].
  Qed.

  (* result of the first pass *)
  Lemma pass1_spec :
    exists c1 vis grp,
      fp_bfs g (S (length nodes)) M c0 (rev M) (fold_left (fun grp n => add_group g n grp) M []) = Some (c1, vis, grp) /\
      NoDup vis /\ (forall n, In n vis <-> reach n) /\ (forall n, reach n -> In n nodes) /\
      (forall d, In d nodes -> (In d vis -> getz c1 d = Z.of_nat (SP vis d)) /\ (~ In d vis -> getz c1 d = K64)) /\
      grp_ok (fun v => In v vis) grp.
  Proof.
    destruct (fp_bfs_inv (S (length nodes)) M [] c0 (rev M) _ JO_init) as [c1 [vis [grp [P [E [J1 J2 J3 J4 J5 J7 J8]]]]]].
    { rewrite rev_length. pose proof (vis_length M (NoDup_filter _ Hnd) (fun v Hv => proj1 (proj1 (M_spec v) Hv))). lia. }
    exists c1, vis, grp. split; [exact E|]. rewrite app_nil_r in J1.
    assert (HR : forall n, reach n -> In n vis).
    { intros n Hr. induction Hr as [n Hn | p d Hp IH Hd]; [apply J4; exact Hn|].
      apply (J5 p d); [eapply Permutation_in; eauto | exact Hd]. }
    split; [exact J2|]. split; [intros n; split; [intros Hv; apply (J3 n Hv) | apply HR]|].
    split; [intros n Hr; apply (J3 n (HR n Hr))|]. split; [|exact J8].
    intros d Hd. destruct (J7 d Hd) as [A B]. split; [|exact B]. intros Hv. rewrite (A Hv). f_equal. unfold SP. apply tsum_perm. apply Permutation_sym. exact J1.
  Qed.

End FP.

(* ------------------------------------------------------------------------------------------------ second pass *)

Definition stepM (st : zmap * list positive) (m : positive) : zmap * list positive :=
  let '(c, v2) := st in if getz c m =? K64 then (PM.add m 0 c, v2 ++ [m]) else (c, v2).
Definition stepI (c : zmap) (d : positive) : zmap :=
  if getz c d =? K64 then c else PM.add d (wrap64 (getz c d + 1)) c.

Lemma mark_flat g grp : forall st,
  fold_left (fun '(c, v2) s => fp_mark_group c v2 (getl (g_sets g) s)) grp st =
  fold_left stepM (flat_map (fun s => getl (g_sets g) s) grp) st.
Proof.
  induction grp as [|s grp IH]; intros [c v2]; [reflexivity|]. cbn [fold_left flat_map]. rewrite fold_left_app, IH.
  f_equal.
Qed.

Lemma incr_flat (dp : positive -> list positive) v2 : forall c,
  fold_left (fun c n => fold_left stepI (dp n) c) v2 c = fold_left stepI (flat_map dp v2) c.
Proof. induction v2 as [|n v2 IH]; intros c; [reflexivity|]. cbn [fold_left flat_map]. rewrite fold_left_app, IH. reflexivity. Qed.

Lemma countp_flat_map (dp : positive -> list positive) x l : countp x (flat_map dp l) = tsum (fun p => countp x (dp p)) l.
Proof. induction l as [|a l IH]; [reflexivity|]. cbn [flat_map]. rewrite countp_app, tsum_cons, IH. reflexivity. Qed.

Lemma mark_spec (cI : zmap) L : forall c v2,
  NoDup v2 -> (forall x, In x v2 -> getz c x = 0 /\ getz cI x = K64) -> (forall x, ~ In x v2 -> getz c x = getz cI x) ->
  match fold_left stepM L (c, v2) with
  | (c', v2') =>
      NoDup v2' /\ (forall x, In x v2' -> getz c' x = 0 /\ getz cI x = K64) /\ (forall x, ~ In x v2' -> getz c' x = getz cI x) /\
      (forall x, In x v2' <-> In x v2 \/ (In x L /\ getz cI x = K64))
  end.
Proof.
  induction L as [|m L IH]; intros c v2 H1 H2 H3.
  - cbn [fold_left]. split; [exact H1|]. split; [exact H2|]. split; [exact H3|]. intros x. simpl. tauto.
  - cbn [fold_left stepM]. destruct (getz c m =? K64) eqn:E.
    + apply Z.eqb_eq in E.
      assert (Hm : ~ In m v2). { intros Hm. destruct (H2 m Hm) as [A _]. unfold K64 in E. lia. }
      assert (HmI : getz cI m = K64) by (rewrite <- (H3 m Hm); exact E).
      specialize (IH (PM.add m 0 c) (v2 ++ [m])).
      destruct (fold_left stepM L (PM.add m 0 c, v2 ++ [m])) as [c' v2'].
      destruct IH as [A [B [C D]]].
      * apply NoDup_app_comm. simpl. constructor; assumption.
      * intros x Hx. apply in_app_iff in Hx. destruct Hx as [Hx|[<-|[]]].
        -- assert (x <> m) by (intros ->; contradiction). rewrite getz_add_other by assumption. apply H2. exact Hx.
        -- rewrite getz_add_same. auto.
      * intros x Hx. assert (x <> m) by (intros ->; apply Hx; apply in_app_iff; right; left; reflexivity).
        rewrite getz_add_other by assumption. apply H3. intros Hv. apply Hx. apply in_app_iff. left. exact Hv.
      * split; [exact A|]. split; [exact B|]. split; [exact C|]. intros x. rewrite (D x), in_app_iff. simpl. split.
        -- intros [[H|[<-|[]]]|[H H']]; auto.
        -- intros [H|[[<-|H] H']]; auto.
    + apply Z.eqb_neq in E. specialize (IH c v2 H1 H2 H3). destruct (fold_left stepM L (c, v2)) as [c' v2'].
      destruct IH as [A [B [C D]]]. split; [exact A|]. split; [exact B|]. split; [exact C|]. intros x. rewrite (D x). simpl. split.
      * intros [H|[H H']]; auto.
      * intros [H|[[<-|H] H']]; auto. left. destruct (in_dec Pos.eq_dec x v2) as [Hv|Hv]; [exact Hv|]. exfalso. apply E. rewrite (H3 x Hv). exact H'.
Qed.

Lemma incr_spec x E : forall c,
  (getz c x = K64 -> getz (fold_left stepI E c) x = K64) /\
  (getz c x <> K64 -> 0 <= getz c x -> getz c x + Z.of_nat (countp x E) < K64 ->
   getz (fold_left stepI E c) x = getz c x + Z.of_nat (countp x E)).
Proof.
  induction E as [|d E IH]; intros c.
  - cbn [fold_left]. rewrite countp_nil. split; intros; lia.
  - cbn [fold_left]. rewrite (countp_cons x d). unfold stepI at 2 4. destruct (getz c d =? K64) eqn:EK.
    + apply Z.eqb_eq in EK. destruct (IH c) as [A B]. split; [exact A|]. intros H1 H2 H3.
      destruct (Pos.eq_dec d x) as [->|Ne]; [contradiction|]. rewrite B; lia.
    + apply Z.eqb_neq in EK. destruct (Pos.eq_dec d x) as [->|Ne].
      * destruct (IH (PM.add x (wrap64 (getz c x + 1)) c)) as [A B]. split; [intros; contradiction|]. intros H1 H2 H3.
        assert (W : wrap64 (getz c x + 1) = getz c x + 1) by (apply wrap64_small; unfold K64 in *; lia).
        rewrite B; rewrite getz_add_same, W; lia.
      * destruct (IH (PM.add d (wrap64 (getz c d + 1)) c)) as [A B]. rewrite getz_add_other in A, B by (intros ->; congruence).
        split; [exact A|]. intros H1 H2 H3. rewrite B; lia.
Qed.

Definition sets_live (g : graph) : Prop :=
  forall v s m, In v (g_nodes g) -> PM.find v (g_setof g) = Some s -> In m (getl (g_sets g) s) -> In m (g_nodes g).

(* what must be re-run: the forward closure of the marked nodes and, in a BiPropGraph, every member of a set OBJECT that
   a closure node points to *)
Definition rerun_set (g : graph) (n : positive) : Prop :=
  reach g n \/ (g_bip g = true /\ exists p s, reach g p /\ PM.find p (g_setof g) = Some s /\ In n (getl (g_sets g) s)).

Theorem fp_correct g :
  NoDup (g_nodes g) ->
  (forall p d, In p (g_nodes g) -> In d (getl (g_deps g) p) -> In d (g_nodes g)) ->
  (forall n, In n (g_nodes g) -> getz (g_cnt g) n = 0 \/ getz (g_cnt g) n = K64) ->
  (forall d, In d (g_nodes g) -> Z.of_nat (np_count g d) < K64) ->
  sets_live g ->
  exists c', forward_propagate g = Some (with_cnt g c') /\
    Prepared (xg_of g) c' /\
    (forall n, In n (g_nodes g) -> (incb c' n = true <-> rerun_set g n)).
Proof.
  intros Hnd Hcl Hpre Hb Hlive.
  set (nodes := g_nodes g). set (dp := fun n => getl (g_deps g) n).
  assert (Hb' : forall d, In d nodes -> Z.of_nat (SP g nodes d) < K64) by exact Hb.
  destruct (pass1_spec g Hnd Hcl Hpre Hb') as [c1 [vis [grp [E1 [Hvn [Hvr [Hrn [Hc1 Hgrp]]]]]]]].
  assert (Hvis_closed : forall p d, In p vis -> In d (dp p) -> In d vis).
  { intros p d Hp Hd. apply Hvr. apply (reach_d g p d); [apply Hvr; exact Hp | exact Hd]. }
  assert (Hvis_nodes : forall v, In v vis -> In v nodes) by (intros v Hv; apply Hrn, Hvr; exact Hv).
  assert (HSPle : forall l d, NoDup l -> (forall p, In p l -> In p nodes) -> In d nodes -> Z.of_nat (SP g l d) < K64).
  { intros l d Hl Hi Hd. pose proof (tsum_incl_le (fun p => countp d (dp p)) l nodes Hl Hi). specialize (Hb' d Hd). unfold SP in *. fold dp in Hb'. lia. }
  unfold forward_propagate. fold nodes. rewrite E1.
  destruct (g_bip g) eqn:Eb.
  - (* BiPropGraph: second pass *)
    unfold fp_pass2. rewrite mark_flat.
    set (L := flat_map (fun s => getl (g_sets g) s) grp).
    pose proof (mark_spec c1 L c1 [] (NoDup_nil _) (fun x (H : In x []) => match H with end) (fun x _ => eq_refl)) as HM.
    destruct (fold_left stepM L (c1, [])) as [c2 v2]. destruct HM as [M1 [M2 [M3 M4]]].
    assert (HL : forall m, In m L <-> exists p s, reach g p /\ PM.find p (g_setof g) = Some s /\ In m (getl (g_sets g) s)).
    { intros m. unfold L. rewrite in_flat_map. split.
      - intros [s [Hs Hm]]. apply Hgrp in Hs. destruct Hs as [_ [v [Hv Hf]]]. exists v, s. split; [apply Hvr; exact Hv | auto].
      - intros [p [s [Hr [Hf Hm]]]]. exists s. split; [|exact Hm]. apply Hgrp. split; [reflexivity|]. exists p. split; [apply Hvr; exact Hr | exact Hf]. }
    assert (HLn : forall m, In m L -> In m nodes).
    { intros m Hm. apply HL in Hm. destruct Hm as [p [s [Hr [Hf Hm]]]]. apply (Hlive p s m); [apply Hrn; exact Hr | exact Hf | exact Hm]. }
    assert (Hv2 : forall x, In x v2 <-> In x L /\ ~ In x vis).
    { intros x. rewrite (M4 x). split.
      - intros [[]|[H1 H2]]. split; [exact H1|]. intros Hv. destruct (Hc1 x (HLn x H1)) as [A _]. specialize (A Hv).
        specialize (HSPle vis x Hvn Hvis_nodes (HLn x H1)). lia.
      - intros [H1 H2]. right. split; [exact H1|]. apply (Hc1 x (HLn x H1)). exact H2. }
    assert (Hv2n : forall x, In x v2 -> In x nodes) by (intros x Hx; apply HLn; apply Hv2; exact Hx).
    assert (HBnd : NoDup (vis ++ v2)).
    { apply NoDup_app_comm. apply NoDup_app_intro; [exact M1 | exact Hvn|]. intros x Hx Hv. apply Hv2 in Hx. tauto. }
    assert (HBn : forall p, In p (vis ++ v2) -> In p nodes) by (intros p Hp; apply in_app_iff in Hp; destruct Hp; auto).
    change (fun c n => fold_left (fun c0 d => if getz c0 d =? K64 then c0 else PM.add d (wrap64 (getz c0 d + 1)) c0) (getl (g_deps g) n) c)
      with (fun c n => fold_left stepI (dp n) c).
    rewrite incr_flat. set (E := flat_map dp v2). set (c3 := fold_left stepI E c2).
    assert (HcE : forall x, countp x E = SP g v2 x) by (intros x; unfold E; apply countp_flat_map).
    assert (Hc3 : forall d, In d nodes -> (In d (vis ++ v2) -> getz c3 d = Z.of_nat (SP g (vis ++ v2) d)) /\ (~ In d (vis ++ v2) -> getz c3 d = K64)).
    { intros d Hd. destruct (incr_spec d E c2) as [A B]. fold c3 in A, B. rewrite HcE in B.
      pose proof (HSPle (vis ++ v2) d HBnd HBn Hd) as HB1. unfold SP in HB1. rewrite tsum_app in HB1. fold (SP g vis d) (SP g v2 d) in HB1.
      split.
      - intros Hin. unfold SP. rewrite tsum_app. fold (SP g vis d) (SP g v2 d). apply in_app_iff in Hin. destruct Hin as [Hv|Hv].
        + assert (Hnv : ~ In d v2) by (intros H; apply Hv2 in H; tauto).
          destruct (Hc1 d Hd) as [C1 _]. specialize (C1 Hv). rewrite (M3 d Hnv), C1 in B. rewrite B; lia.
        + destruct (M2 d Hv) as [C1 _]. rewrite C1 in B.
          assert (HS0 : SP g vis d = 0%nat).
          { unfold SP. apply tsum_zero. intros p Hp. destruct (Nat.eq_dec (countp d (getl (g_deps g) p)) 0) as [E0|E0]; [exact E0|]. exfalso.
            apply Hv2 in Hv. apply (proj2 Hv). apply (Hvis_closed p d Hp). apply countp_In. unfold dp. lia. }
          rewrite B; unfold K64 in *; lia.
      - intros Hin. apply A. assert (Hnv : ~ In d v2) by (intros H; apply Hin; apply in_app_iff; auto).
        rewrite (M3 d Hnv). apply (Hc1 d Hd). intros H; apply Hin; apply in_app_iff; auto. }
    assert (Hinc : forall d, In d nodes -> (incb c3 d = true <-> In d (vis ++ v2))).
    { intros d Hd. destruct (Hc3 d Hd) as [A B]. unfold incb. split.
      - intros H. destruct (in_dec Pos.eq_dec d (vis ++ v2)) as [Hi|Hi]; [exact Hi|]. rewrite (B Hi), Z.eqb_refl in H. discriminate.
      - intros H. rewrite (A H). pose proof (HSPle (vis ++ v2) d HBnd HBn Hd). apply negb_true_iff, Z.eqb_neq. lia. }
    exists c3. split; [reflexivity|]. split.
    + assert (Hcnt0 : forall d, cnt0 (xg_of g) c3 d = SP g (vis ++ v2) d).
      { intros d. unfold cnt0, SP. cbn [xg_of x_nodes x_deps].
        apply (tsum_select (fun p => countp d (getl (g_deps g) p)) (incb c3) (vis ++ v2) nodes Hnd HBnd).
        intros p. split; [intros Hp; split; [apply HBn; exact Hp | apply Hinc; [apply HBn; exact Hp | exact Hp]] | intros [Hp Hi]; apply Hinc; assumption]. }
      constructor; cbn [xg_of x_nodes x_deps x_bip].
      * exact Hnd.
      * exact Hcl.
      * intros d Hd Hi. rewrite Hcnt0. apply Hinc in Hi; [|exact Hd]. split; [apply (Hc3 d Hd); exact Hi | apply HSPle; assumption].
      * intros d Hd Hi. apply (Hc3 d Hd). intros Hin. apply Hinc in Hin; [congruence | exact Hd].
      * rewrite Eb. discriminate.
    + intros n Hn. rewrite (Hinc n Hn), in_app_iff. unfold rerun_set. rewrite (Hvr n), (Hv2 n), (HL n). rewrite <- (Hvr n). split.
      * intros [H|[H _]]; [left; exact H | right; split; [reflexivity | exact H]].
      * intros [H|[_ H]]; [left; exact H|]. destruct (in_dec Pos.eq_dec n vis) as [Hv|Hv]; [left; exact Hv | right; split; assumption].
  - (* plain Graph *)
    assert (Hinc : forall d, In d nodes -> (incb c1 d = true <-> In d vis)).
    { intros d Hd. destruct (Hc1 d Hd) as [A B]. unfold incb. split.
      - intros H. destruct (in_dec Pos.eq_dec d vis) as [Hi|Hi]; [exact Hi|]. rewrite (B Hi), Z.eqb_refl in H. discriminate.
      - intros H. rewrite (A H). pose proof (HSPle vis d Hvn Hvis_nodes Hd). apply negb_true_iff, Z.eqb_neq. lia. }
    exists c1. split; [reflexivity|]. split.
    + assert (Hcnt0 : forall d, cnt0 (xg_of g) c1 d = SP g vis d).
      { intros d. unfold cnt0, SP. cbn [xg_of x_nodes x_deps].
        apply (tsum_select (fun p => countp d (getl (g_deps g) p)) (incb c1) vis nodes Hnd Hvn).
        intros p. split; [intros Hp; split; [apply Hvis_nodes; exact Hp | apply Hinc; [apply Hvis_nodes; exact Hp | exact Hp]] | intros [Hp Hi]; apply Hinc; assumption]. }
      constructor; cbn [xg_of x_nodes x_deps x_bip].
      * exact Hnd.
      * exact Hcl.
      * intros d Hd Hi. rewrite Hcnt0. apply Hinc in Hi; [|exact Hd]. split; [apply (Hc1 d Hd); exact Hi | apply HSPle; assumption].
      * intros d Hd Hi. apply (Hc1 d Hd). intros Hin. apply Hinc in Hin; [congruence | exact Hd].
      * intros _ p d Hp Hi Hd. apply Hinc; [eapply Hcl; eauto|]. apply (Hvis_closed p d); [apply Hinc; assumption | exact Hd].
    + intros n Hn. rewrite (Hinc n Hn), (Hvr n). unfold rerun_set. split; [auto|]. intros [H|[H _]]; [exact H | discriminate].
Qed.
