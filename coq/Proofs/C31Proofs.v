(* C31: ForwardPropagator.  First pass = FIFO breadth-first propagation (fp_bfs), second pass = bidirectional
   propagation over the set objects reached (fp_pass2).  Main result: from a state in which every incomplete node has
   counter 0, the propagated state is PREPARED (C30Proofs.Prepared) and its incomplete nodes are exactly the forward closure
   of the marked nodes plus the members of the set objects the closure nodes point to. *)
From Coq Require Import ZArith List Bool PArith FMapPositive Lia Arith Permutation.
From DV Require Import Base.MachInt Model.GraphModel Proofs.C30Proofs.
Import ListNotations.
Local Open Scope Z_scope.

Arguments countp : simpl never.
Arguments tsum : simpl never.

(* ------------------------------------------------------------------------------------------------ list facts *)

Lemma In_add_nodup x y l : In x (add_nodup y l) <-> x = y \/ In x l.
Proof.
  unfold add_nodup. destruct (memp y l) eqn:E.
  - apply memp_In in E. split; [auto|]. intros [->|H]; assumption.
  - rewrite in_app_iff. simpl. split; [intros [H|[H|[]]]; auto | intros [H|H]; auto].
Qed.

Lemma NoDup_app_l {A} (l1 l2 : list A) : NoDup (l1 ++ l2) -> NoDup l1.
Proof.
  induction l1 as [|a l1 IH]; intros H; [constructor|]. simpl in H. inversion H; subst. constructor; [|apply IH; assumption].
  intros Ha. apply H2. apply in_app_iff. left. exact Ha.
Qed.

Lemma NoDup_app_disj {A} (l1 l2 : list A) : NoDup l1 -> NoDup l2 -> (forall x, In x l1 -> ~ In x l2) -> NoDup (l1 ++ l2).
Proof.
  induction l1 as [|a l1 IH]; intros H1 H2 H; [exact H2|]. inversion H1; subst. simpl. constructor.
  - intros Ha. apply in_app_iff in Ha. destruct Ha as [Ha|Ha]; [contradiction | apply (H a); [left; reflexivity | exact Ha]].
  - apply IH; [assumption | assumption | intros x Hx; apply H; right; exact Hx].
Qed.
Lemma NoDup_snoc {A} (l : list A) a : NoDup l -> ~ In a l -> NoDup (l ++ [a]).
Proof.
  intros H1 H2. apply NoDup_app_disj; [exact H1 | constructor; [intros [] | constructor]|]. intros x Hx [<-|[]]. contradiction.
Qed.

Lemma tsum_perm {A} (f : A -> nat) l1 l2 : Permutation l1 l2 -> tsum f l1 = tsum f l2.
Proof.
  intros H. induction H; try reflexivity.
  - rewrite !tsum_cons, IHPermutation. reflexivity.
  - rewrite !tsum_cons. lia.
  - congruence.
Qed.

Lemma tsum_incl_le (f : positive -> nat) l nodes :
  NoDup l -> (forall p, In p l -> In p nodes) -> (tsum f l <= tsum f nodes)%nat.
Proof.
  revert nodes. induction l as [|a l IH]; intros nodes Hnd Hin; [rewrite tsum_nil; lia|].
  inversion Hnd as [|? ? Ha Hnd']; subst.
  destruct (in_split a nodes (Hin a (or_introl eq_refl))) as [n1 [n2 ->]].
  rewrite tsum_cons, tsum_app, tsum_cons.
  specialize (IH (n1 ++ n2) Hnd').
  assert (H : forall p, In p l -> In p (n1 ++ n2)).
  { intros p Hp. specialize (Hin p (or_intror Hp)). apply in_app_iff in Hin. apply in_app_iff.
    destruct Hin as [H|[H|H]]; auto. subst. contradiction. }
  specialize (IH H). rewrite tsum_app in IH. lia.
Qed.

(* sum over the nodes selected by a boolean = sum over a duplicate-free list with the same members *)
Lemma tsum_select (f : positive -> nat) (b : positive -> bool) l nodes :
  NoDup nodes -> NoDup l -> (forall p, In p l <-> In p nodes /\ b p = true) ->
  tsum (fun p => if b p then f p else 0%nat) nodes = tsum f l.
Proof.
  intros Hn Hl Hiff.
  assert (HP : Permutation l (filter b nodes)).
  { apply NoDup_Permutation; [exact Hl | apply NoDup_filter; exact Hn|]. intros p. rewrite filter_In. apply Hiff. }
  rewrite (tsum_perm f _ _ HP). clear. induction nodes as [|a nodes IH]; [reflexivity|].
  rewrite tsum_cons. cbn [filter]. destruct (b a); [rewrite tsum_cons|]; rewrite IH; reflexivity.
Qed.

(* ------------------------------------------------------------------------------------------------ first pass *)

Section FP.
  Variable g : graph.
  Let nodes := g_nodes g.
  Let dp := fun n => getl (g_deps g) n.
  Let c0 := g_cnt g.
  Let M := fp_start g.

  (* forward-dependency closure of the marked (= incomplete) nodes *)
  Inductive reach : positive -> Prop :=
  | reach_m n : In n M -> reach n
  | reach_d p d : reach p -> In d (dp p) -> reach d.

  Definition SP (P : list positive) (d : positive) : nat := tsum (fun p => countp d (dp p)) P.

  Hypothesis Hnd : NoDup nodes.
  Hypothesis Hcl : forall p d, In p nodes -> In d (dp p) -> In d nodes.
  Hypothesis Hpre : forall n, In n nodes -> getz c0 n = 0 \/ getz c0 n = K64.
  Hypothesis Hbound : forall d, In d nodes -> Z.of_nat (SP nodes d) < K64.

  Definition grp_ok (inV : positive -> Prop) (grp : list positive) : Prop :=
    forall s, In s grp <-> (g_bip g = true /\ exists v, inV v /\ PM.find v (g_setof g) = Some s).

  Lemma add_group_ok (inV : positive -> Prop) grp d :
    grp_ok inV grp -> grp_ok (fun v => v = d \/ inV v) (add_group g d grp).
  Proof.
    intros H s. specialize (H s). unfold add_group. destruct (g_bip g) eqn:Eb.
    - destruct (PM.find d (g_setof g)) as [sd|] eqn:Ed.
      + rewrite In_add_nodup, H. split.
        * intros [->|[_ [v [Hv Hs]]]]; (split; [reflexivity|]); [exists d; auto | exists v; auto].
        * intros [_ [v [[->|Hv] Hs]]]; [left; congruence | right; split; [reflexivity | exists v; auto]].
      + rewrite H. split.
        * intros [_ [v [Hv Hs]]]. split; [reflexivity | exists v; auto].
        * intros [_ [v [[->|Hv] Hs]]]; [congruence | split; [reflexivity | exists v; auto]].
    - rewrite H. split; intros [E _]; discriminate.
  Qed.

  Lemma grp_ok_ext (P Q : positive -> Prop) grp : (forall v, P v <-> Q v) -> grp_ok P grp -> grp_ok Q grp.
  Proof.
    intros E H s. rewrite (H s). split; intros [Hb [v [Hv Hs]]]; (split; [exact Hb | exists v; split; [apply E; exact Hv | exact Hs]]).
  Qed.

  (* state while the dependents of n are being processed: P = nodes already processed, done = prefix of dp n handled *)
  Record JI (P : list positive) (n : positive) (done : list positive) (c : zmap) (vis q grp : list positive) : Prop := mkJI {
    ji_perm : Permutation vis (P ++ n :: q);
    ji_nodup : NoDup vis;
    ji_in : forall v, In v vis -> In v nodes /\ reach v;
    ji_m : forall m, In m M -> In m vis;
    ji_closed : forall p d, In p P -> In d (dp p) -> In d vis;
    ji_done : forall d, In d done -> In d vis;
    ji_cnt : forall d, In d nodes -> (In d vis -> getz c d = Z.of_nat (SP P d + countp d done)) /\ (~ In d vis -> getz c d = K64);
    ji_grp : grp_ok (fun v => In v vis) grp }.

  Lemma SP_bound P n done todo d :
    NoDup (P ++ [n]) -> (forall p, In p (P ++ [n]) -> In p nodes) -> done ++ todo = dp n -> In d nodes ->
    Z.of_nat (SP P d + countp d done + countp d todo) < K64.
  Proof.
    intros Hn Hi Hd Hdn. pose proof (tsum_incl_le (fun p => countp d (dp p)) (P ++ [n]) nodes Hn Hi) as T.
    rewrite tsum_app, tsum_cons, tsum_nil in T. rewrite <- Hd, countp_app in T. specialize (Hbound d Hdn). unfold SP in *. lia.
  Qed.

  Lemma perm_parts vis P n q :
    Permutation vis (P ++ n :: q) -> NoDup vis -> (forall v, In v vis -> In v nodes) ->
    NoDup (P ++ [n]) /\ (forall p, In p (P ++ [n]) -> In p nodes).
  Proof.
    intros Hp Hnv Hin.
    assert (HN : NoDup (P ++ n :: q)) by (eapply Permutation_NoDup; eauto).
    split.
    - replace (P ++ n :: q) with ((P ++ [n]) ++ q) in HN by (rewrite <- app_assoc; reflexivity).
      apply NoDup_app_l in HN. exact HN.
    - intros p Hpp. apply Hin. eapply Permutation_in; [apply Permutation_sym; exact Hp|].
      apply in_app_iff in Hpp. apply in_app_iff. destruct Hpp as [H|[H|[]]]; [left; exact H | right; left; exact H].
  Qed.

  Lemma fp_deps_inv P n : forall todo done c vis q grp,
    JI P n done c vis q grp -> done ++ todo = dp n -> In n nodes -> reach n ->
    match fp_deps g todo c vis q grp with
    | (c', vis', q', grp') =>
        JI P n (dp n) c' vis' q' grp' /\ (length q' + length vis = length q + length vis')%nat
    end.
  Proof.
    induction todo as [|d todo IH]; intros done c vis q grp HJ Hd Hn Hr.
    - cbn [fp_deps]. rewrite app_nil_r in Hd. subst done. split; [exact HJ | lia].
    - cbn [fp_deps].
      assert (Hdn : In d nodes) by (apply (Hcl n d Hn); rewrite <- Hd; apply in_app_iff; right; left; reflexivity).
      assert (Hdr : reach d) by (apply (reach_d n d Hr); rewrite <- Hd; apply in_app_iff; right; left; reflexivity).
      destruct HJ as [J1 J2 J3 J4 J5 J6 J7 J8].
      destruct (perm_parts vis P n q J1 J2 (fun v Hv => proj1 (J3 v Hv))) as [HN HI].
      pose proof (SP_bound P n done (d :: todo) d HN HI Hd Hdn) as HB. rewrite (countp_cons d d) in HB.
      destruct (Pos.eq_dec d d) as [_|Ne]; [|congruence].
      assert (Hd' : (done ++ [d]) ++ todo = dp n) by (rewrite <- app_assoc; exact Hd).
      destruct (memp d vis) eqn:Ev.
      + (* already visited: fetch_add *)
        apply memp_In in Ev.
        assert (Hc : getz c d = Z.of_nat (SP P d + countp d done)) by (apply (J7 d Hdn); exact Ev).
        assert (Hadd : add_inc c d = PM.add d (Z.of_nat (SP P d + countp d done) + 1) c).
        { unfold add_inc. destruct (getz c d =? K64) eqn:EK; [apply Z.eqb_eq in EK; lia|]. rewrite Hc.
          rewrite wrap64_small; [reflexivity | unfold K64 in *; lia]. }
        rewrite Hadd. apply (IH (done ++ [d])); try assumption.
        constructor; try assumption.
        * intros y Hy. apply in_app_iff in Hy. destruct Hy as [Hy|[<-|[]]]; [apply J6; exact Hy | exact Ev].
        * intros y Hy. split.
          -- intros Hv. destruct (Pos.eq_dec y d) as [->|Ne].
             ++ rewrite getz_add_same, countp_app, (countp_cons d d), countp_nil. destruct (Pos.eq_dec d d); [lia | congruence].
             ++ rewrite getz_add_other by exact Ne. rewrite countp_app, (countp_cons y d), countp_nil.
                destruct (Pos.eq_dec d y); [congruence|]. rewrite Nat.add_0_r. apply (J7 y Hy). exact Hv.
          -- intros Hv. assert (y <> d) by (intros ->; contradiction). rewrite getz_add_other by assumption. apply (J7 y Hy). exact Hv.
      + (* first visit: store 1, enqueue *)
        apply memp_false in Ev.
        assert (Hc : getz c d = K64) by (apply (J7 d Hdn); exact Ev).
        assert (Hadd : add_inc c d = PM.add d 1 c) by (unfold add_inc; rewrite Hc, Z.eqb_refl; reflexivity).
        rewrite Hadd.
        assert (HS0 : SP P d = 0%nat).
        { unfold SP. apply tsum_zero. intros p Hp. destruct (Nat.eq_dec (countp d (dp p)) 0) as [E|E]; [exact E|].
          exfalso. apply Ev. apply (J5 p d Hp). apply countp_In. lia. }
        assert (HD0 : countp d done = 0%nat).
        { destruct (Nat.eq_dec (countp d done) 0) as [E|E]; [exact E|]. exfalso. apply Ev. apply J6. apply countp_In. lia. }
        specialize (IH (done ++ [d]) (PM.add d 1 c) (d :: vis) (q ++ [d]) (add_group g d grp)).
        destruct (fp_deps g todo (PM.add d 1 c) (d :: vis) (q ++ [d]) (add_group g d grp)) as [[[c' vis'] q'] grp'].
        assert (HJ' : JI P n (done ++ [d]) (PM.add d 1 c) (d :: vis) (q ++ [d]) (add_group g d grp)).
        { constructor.
          - replace (P ++ n :: q ++ [d]) with ((P ++ n :: q) ++ [d]) by (rewrite <- app_assoc; reflexivity).
            eapply Permutation_trans; [apply perm_skip; exact J1 | apply Permutation_cons_append].
          - constructor; assumption.
          - intros v [<-|Hv]; [split; assumption | apply J3; exact Hv].
          - intros m Hm. right. apply J4. exact Hm.
          - intros p y Hp Hy. right. eapply J5; eauto.
          - intros y Hy. apply in_app_iff in Hy. destruct Hy as [Hy|[<-|[]]]; [right; apply J6; exact Hy | left; reflexivity].
          - intros y Hy. split.
            + intros Hv. destruct (Pos.eq_dec y d) as [->|Ne].
              * rewrite getz_add_same, countp_app, (countp_cons d d), countp_nil, HS0, HD0. destruct (Pos.eq_dec d d); [reflexivity | congruence].
              * rewrite getz_add_other by exact Ne. rewrite countp_app, (countp_cons y d), countp_nil.
                destruct (Pos.eq_dec d y); [congruence|]. rewrite Nat.add_0_r. apply (J7 y Hy).
                destruct Hv as [E|Hv]; [congruence | exact Hv].
            + intros Hv. assert (y <> d) by (intros ->; apply Hv; left; reflexivity). rewrite getz_add_other by assumption.
              apply (J7 y Hy). intros Hv'. apply Hv. right. exact Hv'.
          - apply (grp_ok_ext (fun v => v = d \/ In v vis)); [|apply add_group_ok; exact J8]. intros v. simpl. split; intros [E|H]; auto. }
        destruct (IH HJ' Hd' Hn Hr) as [R1 R2]. split; [exact R1|]. rewrite app_length in R2. simpl in R2. lia.
  Qed.


  Record JO (P q : list positive) (c : zmap) (vis grp : list positive) : Prop := mkJO {
    jo_perm : Permutation vis (P ++ q);
    jo_nodup : NoDup vis;
    jo_in : forall v, In v vis -> In v nodes /\ reach v;
    jo_m : forall m, In m M -> In m vis;
    jo_closed : forall p d, In p P -> In d (dp p) -> In d vis;
    jo_cnt : forall d, In d nodes -> (In d vis -> getz c d = Z.of_nat (SP P d)) /\ (~ In d vis -> getz c d = K64);
    jo_grp : grp_ok (fun v => In v vis) grp }.

  Lemma vis_length vis : NoDup vis -> (forall v, In v vis -> In v nodes) -> (length vis <= length nodes)%nat.
  Proof. intros H1 H2. apply NoDup_incl_length; [exact H1 | exact H2]. Qed.

  Lemma fp_bfs_inv : forall fuel q P c vis grp,
    JO P q c vis grp -> (length q + (length nodes - length vis) <= fuel)%nat ->
    exists c' vis' grp' P', fp_bfs g fuel q c vis grp = Some (c', vis', grp') /\ JO P' [] c' vis' grp'.
  Proof.
    induction fuel as [|f IH]; intros q P c vis grp HJ Hf.
    - destruct q as [|n q]; [|simpl in Hf; lia]. exists c, vis, grp, P. split; [reflexivity | exact HJ].
    - destruct q as [|n q]; [exists c, vis, grp, P; split; [reflexivity | exact HJ]|].
      cbn [fp_bfs]. destruct HJ as [J1 J2 J3 J4 J5 J7 J8].
      assert (Hnv : In n vis) by (eapply Permutation_in; [apply Permutation_sym; exact J1 | apply in_app_iff; right; left; reflexivity]).
      destruct (J3 n Hnv) as [Hn Hr].
      assert (HJI : JI P n [] c vis q grp).
      { constructor; try assumption; [intros d [] | intros d Hd; rewrite countp_nil, Nat.add_0_r; apply J7; exact Hd]. }
      pose proof (fp_deps_inv P n (dp n) [] c vis q grp HJI eq_refl Hn Hr) as HD. change (getl (g_deps g) n) with (dp n).
      destruct (fp_deps g (dp n) c vis q grp) as [[[c' vis'] q'] grp']. destruct HD as [[K1 K2 K3 K4 K5 K6 K7 K8] HL].
      pose proof (vis_length vis' K2 (fun v Hv => proj1 (K3 v Hv))) as HV.
      apply (IH q' (P ++ [n])).
      + constructor; try assumption.
        * rewrite <- app_assoc. exact K1.
        * intros p d Hp Hd. apply in_app_iff in Hp. destruct Hp as [Hp|[<-|[]]]; [eapply K5; eauto | apply K6; exact Hd].
        * intros d Hd. destruct (K7 d Hd) as [A B]. split; [|exact B]. intros Hv. rewrite (A Hv). unfold SP. rewrite tsum_app, tsum_cons, tsum_nil. f_equal. lia.
      + simpl in Hf. lia.
  Qed.

  Lemma fold_group l : forall (inV : positive -> Prop) grp,
    grp_ok inV grp -> grp_ok (fun v => In v l \/ inV v) (fold_left (fun grp n => add_group g n grp) l grp).
  Proof.
    induction l as [|a l IH]; intros inV grp H; cbn [fold_left].
    - apply (grp_ok_ext inV); [|exact H]. intros v. simpl. tauto.
    - apply (grp_ok_ext (fun v => In v l \/ (v = a \/ inV v))); [|apply IH; apply add_group_ok; exact H]. intros v. simpl. intuition congruence.
  Qed.

  Lemma M_spec n : In n M <-> In n nodes /\ incb c0 n = true.
  Proof. unfold M, fp_start. rewrite filter_In. reflexivity. Qed.

  Lemma JO_init : JO [] M c0 (rev M) (fold_left (fun grp n => add_group g n grp) M []).
  Proof.
    assert (HNM : NoDup M) by (apply NoDup_filter; exact Hnd).
    constructor.
    - simpl. apply Permutation_sym, Permutation_rev.
    - eapply Permutation_NoDup; [apply Permutation_rev | exact HNM].
    - intros v Hv. apply in_rev in Hv. split; [apply M_spec in Hv; tauto | apply reach_m; exact Hv].
    - intros m Hm. apply in_rev. rewrite rev_involutive. exact Hm.
    - intros p d [].
    - intros d Hd. unfold SP. rewrite tsum_nil. split.
      + intros Hv. apply in_rev in Hv. apply M_spec in Hv. destruct Hv as [_ Hi]. unfold incb in Hi. apply negb_true_iff, Z.eqb_neq in Hi.
        destruct (Hpre d Hd) as [E|E]; [exact E | contradiction].
      + intros Hv. destruct (incb c0 d) eqn:Hi.
        * exfalso. apply Hv. apply in_rev. rewrite rev_involutive. apply M_spec. auto.
        * unfold incb in Hi. apply negb_false_iff, Z.eqb_eq in Hi. exact Hi.
    - apply (grp_ok_ext (fun v => In v M \/ False)); [|apply (fold_group M (fun _ => False) [])].
      + intros v. rewrite <- in_rev. tauto.
      + intros s. simpl. split; [tauto|]. intros [_ [v [[] _]]].
  Qed.

  (* result of the first pass *)
  Lemma pass1_spec :
    exists c1 vis grp,
      fp_bfs g (S (length nodes)) M c0 (rev M) (fold_left (fun grp n => add_group g n grp) M []) = Some (c1, vis, grp) /\
      NoDup vis /\ (forall n, In n vis <-> reach n) /\ (forall n, reach n -> In n nodes) /\
      (forall d, In d nodes -> (In d vis -> getz c1 d = Z.of_nat (SP vis d)) /\ (~ In d vis -> getz c1 d = K64)) /\
      grp_ok (fun v => In v vis) grp.
  Proof.
    destruct (fp_bfs_inv (S (length nodes)) M [] c0 (rev M) _ JO_init) as [c1 [vis [grp [P [E [J1 J2 J3 J4 J5 J7 J8]]]]]].
    { rewrite rev_length. pose proof (vis_length M (NoDup_filter _ Hnd) (fun v Hv => proj1 (proj1 (M_spec v) Hv))). lia. }
    exists c1, vis, grp. split; [exact E|]. rewrite app_nil_r in J1.
    assert (HR : forall n, reach n -> In n vis).
    { intros n Hr. induction Hr as [n Hn | p d Hp IH Hd]; [apply J4; exact Hn|].
      apply (J5 p d); [eapply Permutation_in; eauto | exact Hd]. }
    split; [exact J2|]. split; [intros n; split; [intros Hv; apply (J3 n Hv) | apply HR]|].
    split; [intros n Hr; apply (J3 n (HR n Hr))|]. split; [|exact J8].
    intros d Hd. destruct (J7 d Hd) as [A B]. split; [|exact B]. intros Hv. rewrite (A Hv). f_equal. unfold SP. apply tsum_perm. apply Permutation_sym. exact J1.
  Qed.

End FP.

(* ------------------------------------------------------------------------------------------------ second pass *)

Definition stepM (st : zmap * list positive) (m : positive) : zmap * list positive :=
  let '(c, v2) := st in if getz c m =? K64 then (PM.add m 0 c, v2 ++ [m]) else (c, v2).
Definition stepI (c : zmap) (d : positive) : zmap :=
  if getz c d =? K64 then c else PM.add d (wrap64 (getz c d + 1)) c.

Lemma fold_left_ext {A B} (f h : A -> B -> A) l : (forall a b, f a b = h a b) -> forall a, fold_left f l a = fold_left h l a.
Proof. intros E. induction l as [|b l IH]; intros a; [reflexivity|]. cbn [fold_left]. rewrite E. apply IH. Qed.

Lemma mark_flat g grp : forall st,
  fold_left (fun '(c, v2) s => fp_mark_group c v2 (getl (g_sets g) s)) grp st =
  fold_left stepM (flat_map (fun s => getl (g_sets g) s) grp) st.
Proof.
  induction grp as [|s grp IH]; intros [c v2]; [reflexivity|]. cbn [fold_left flat_map]. rewrite fold_left_app, IH.
  f_equal. unfold fp_mark_group. apply fold_left_ext. intros [c' v2'] m. reflexivity.
Qed.

Lemma incr_flat (dp : positive -> list positive) v2 : forall c,
  fold_left (fun c n => fold_left stepI (dp n) c) v2 c = fold_left stepI (flat_map dp v2) c.
Proof. induction v2 as [|n v2 IH]; intros c; [reflexivity|]. cbn [fold_left flat_map]. rewrite fold_left_app, IH. reflexivity. Qed.

Lemma countp_flat_map (dp : positive -> list positive) x l : countp x (flat_map dp l) = tsum (fun p => countp x (dp p)) l.
Proof. induction l as [|a l IH]; [reflexivity|]. cbn [flat_map]. rewrite countp_app, tsum_cons, IH. reflexivity. Qed.

Lemma mark_spec (cI : zmap) L : forall c v2,
  NoDup v2 -> (forall x, In x v2 -> getz c x = 0 /\ getz cI x = K64) -> (forall x, ~ In x v2 -> getz c x = getz cI x) ->
  let r := fold_left stepM L (c, v2) in
  NoDup (snd r) /\ (forall x, In x (snd r) -> getz (fst r) x = 0 /\ getz cI x = K64) /\
  (forall x, ~ In x (snd r) -> getz (fst r) x = getz cI x) /\
  (forall x, In x (snd r) <-> In x v2 \/ (In x L /\ getz cI x = K64)).
Proof.
  induction L as [|m L IH]; intros c v2 H1 H2 H3; cbv zeta.
  - cbn [fold_left fst snd]. split; [exact H1|]. split; [exact H2|]. split; [exact H3|]. intros x. simpl. tauto.
  - cbn [fold_left]. change (stepM (c, v2) m) with (if getz c m =? K64 then (PM.add m 0 c, v2 ++ [m]) else (c, v2)).
    destruct (getz c m =? K64) eqn:E.
    + apply Z.eqb_eq in E.
      assert (Hm : ~ In m v2). { intros Hm. destruct (H2 m Hm) as [A _]. unfold K64 in E. lia. }
      assert (HmI : getz cI m = K64) by (rewrite <- (H3 m Hm); exact E).
      assert (P1 : NoDup (v2 ++ [m])) by (apply NoDup_snoc; assumption).
      assert (P2 : forall x, In x (v2 ++ [m]) -> getz (PM.add m 0 c) x = 0 /\ getz cI x = K64).
      { intros x Hx. apply in_app_iff in Hx. destruct Hx as [Hx|[<-|[]]].
        - assert (x <> m) by (intros ->; contradiction). rewrite getz_add_other by assumption. apply H2. exact Hx.
        - rewrite getz_add_same. auto. }
      assert (P3 : forall x, ~ In x (v2 ++ [m]) -> getz (PM.add m 0 c) x = getz cI x).
      { intros x Hx. assert (x <> m) by (intros ->; apply Hx; apply in_app_iff; right; left; reflexivity).
        rewrite getz_add_other by assumption. apply H3. intros Hv. apply Hx. apply in_app_iff. left. exact Hv. }
      destruct (IH (PM.add m 0 c) (v2 ++ [m]) P1 P2 P3) as [A [B [C D]]].
      split; [exact A|]. split; [exact B|]. split; [exact C|]. intros x. rewrite (D x), in_app_iff. simpl. split.
      * intros [[H|[<-|[]]]|[H H']]; auto.
      * intros [H|[[<-|H] H']]; auto.
    + apply Z.eqb_neq in E. destruct (IH c v2 H1 H2 H3) as [A [B [C D]]].
      split; [exact A|]. split; [exact B|]. split; [exact C|]. intros x. rewrite (D x). simpl. split.
      * intros [H|[H H']]; auto.
      * intros [H|[[<-|H] H']]; auto. left. destruct (in_dec Pos.eq_dec m v2) as [Hv|Hv]; [exact Hv|]. exfalso. apply E. rewrite (H3 m Hv). exact H'.
Qed.

Lemma incr_spec x E : forall c,
  (getz c x = K64 -> getz (fold_left stepI E c) x = K64) /\
  (getz c x <> K64 -> 0 <= getz c x -> getz c x + Z.of_nat (countp x E) < K64 ->
   getz (fold_left stepI E c) x = getz c x + Z.of_nat (countp x E)).
Proof.
  induction E as [|d E IH]; intros c.
  - cbn [fold_left]. rewrite countp_nil. split; intros; lia.
  - cbn [fold_left]. rewrite (countp_cons x d). unfold stepI at 2 4. destruct (getz c d =? K64) eqn:EK.
    + apply Z.eqb_eq in EK. destruct (IH c) as [A B]. split; [exact A|]. intros H1 H2 H3.
      destruct (Pos.eq_dec d x) as [->|Ne]; [contradiction|]. rewrite B; lia.
    + apply Z.eqb_neq in EK. destruct (Pos.eq_dec d x) as [->|Ne].
      * destruct (IH (PM.add x (wrap64 (getz c x + 1)) c)) as [A B]. split; [intros; contradiction|]. intros H1 H2 H3.
        assert (W : wrap64 (getz c x + 1) = getz c x + 1) by (apply wrap64_small; unfold K64 in *; lia).
        rewrite B; rewrite getz_add_same, W; lia.
      * destruct (IH (PM.add d (wrap64 (getz c d + 1)) c)) as [A B]. rewrite getz_add_other in A, B by (intros ->; congruence).
        split; [exact A|]. intros H1 H2 H3. rewrite B; lia.
Qed.

Definition sets_live (g : graph) : Prop :=
  forall v s m, In v (g_nodes g) -> PM.find v (g_setof g) = Some s -> In m (getl (g_sets g) s) -> In m (g_nodes g).

(* what must be re-run: the forward closure of the marked nodes and, in a BiPropGraph, every member of a set OBJECT that
   a closure node points to *)
Definition rerun_set (g : graph) (n : positive) : Prop :=
  reach g n \/ (g_bip g = true /\ exists p s, reach g p /\ PM.find p (g_setof g) = Some s /\ In n (getl (g_sets g) s)).

Theorem fp_correct g :
  NoDup (g_nodes g) ->
  (forall p d, In p (g_nodes g) -> In d (getl (g_deps g) p) -> In d (g_nodes g)) ->
  (forall n, In n (g_nodes g) -> getz (g_cnt g) n = 0 \/ getz (g_cnt g) n = K64) ->
  (forall d, In d (g_nodes g) -> Z.of_nat (np_count g d) < K64) ->
  sets_live g ->
  exists c', forward_propagate g = Some (with_cnt g c') /\
    Prepared (xg_of g) c' /\
    (forall n, In n (g_nodes g) -> (incb c' n = true <-> rerun_set g n)).
Proof.
  intros Hnd Hcl Hpre Hb Hlive.
  set (nodes := g_nodes g). set (dp := fun n => getl (g_deps g) n).
  assert (Hb' : forall d, In d nodes -> Z.of_nat (SP g nodes d) < K64) by exact Hb.
  destruct (pass1_spec g Hnd Hcl Hpre Hb') as [c1 [vis [grp [E1 [Hvn [Hvr [Hrn [Hc1 Hgrp]]]]]]]].
  assert (Hvis_closed : forall p d, In p vis -> In d (dp p) -> In d vis).
  { intros p d Hp Hd. apply Hvr. apply (reach_d g p d); [apply Hvr; exact Hp | exact Hd]. }
  assert (Hvis_nodes : forall v, In v vis -> In v nodes) by (intros v Hv; apply Hrn, Hvr; exact Hv).
  assert (HSPle : forall l d, NoDup l -> (forall p, In p l -> In p nodes) -> In d nodes -> Z.of_nat (SP g l d) < K64).
  { intros l d Hl Hi Hd. pose proof (tsum_incl_le (fun p => countp d (getl (g_deps g) p)) l nodes Hl Hi). specialize (Hb' d Hd). unfold SP in *. lia. }
  unfold forward_propagate. cbv zeta. unfold nodes in *. rewrite E1.
  destruct (g_bip g) eqn:Eb.
  - (* BiPropGraph: second pass *)
    unfold fp_pass2. rewrite mark_flat.
    set (L := flat_map (fun s => getl (g_sets g) s) grp).
    destruct (mark_spec c1 L c1 [] (NoDup_nil _) (fun x (H : In x []) => match H with end) (fun x _ => eq_refl)) as [M1 [M2 [M3 M4]]].
    rewrite (surjective_pairing (fold_left stepM L (c1, []))).
    set (c2 := fst (fold_left stepM L (c1, []))) in *. set (v2 := snd (fold_left stepM L (c1, []))) in *.
    assert (HL : forall m, In m L <-> exists p s, reach g p /\ PM.find p (g_setof g) = Some s /\ In m (getl (g_sets g) s)).
    { intros m. unfold L. rewrite in_flat_map. split.
      - intros [s [Hs Hm]]. apply Hgrp in Hs. destruct Hs as [_ [v [Hv Hf]]]. exists v, s. split; [apply Hvr; exact Hv | auto].
      - intros [p [s [Hr [Hf Hm]]]]. exists s. split; [|exact Hm]. apply Hgrp. split; [exact Eb|]. exists p. split; [apply Hvr; exact Hr | exact Hf]. }
    assert (HLn : forall m, In m L -> In m nodes).
    { intros m Hm. apply HL in Hm. destruct Hm as [p [s [Hr [Hf Hm]]]]. apply (Hlive p s m); [apply Hrn; exact Hr | exact Hf | exact Hm]. }
    assert (Hv2 : forall x, In x v2 <-> In x L /\ ~ In x vis).
    { intros x. rewrite (M4 x). split.
      - intros [[]|[H1 H2]]. split; [exact H1|]. intros Hv. destruct (Hc1 x (HLn x H1)) as [A _]. specialize (A Hv).
        specialize (HSPle vis x Hvn Hvis_nodes (HLn x H1)). lia.
      - intros [H1 H2]. right. split; [exact H1|]. apply (Hc1 x (HLn x H1)). exact H2. }
    assert (Hv2n : forall x, In x v2 -> In x nodes) by (intros x Hx; apply HLn; apply Hv2; exact Hx).
    assert (HBnd : NoDup (vis ++ v2)).
    { apply NoDup_app_disj; [exact Hvn | exact M1|]. intros x Hv Hx. apply Hv2 in Hx. tauto. }
    assert (HBn : forall p, In p (vis ++ v2) -> In p nodes) by (intros p Hp; apply in_app_iff in Hp; destruct Hp; auto).
    change (fun c n => fold_left (fun c0 d => if getz c0 d =? K64 then c0 else PM.add d (wrap64 (getz c0 d + 1)) c0) (getl (g_deps g) n) c)
      with (fun c n => fold_left stepI (dp n) c).
    rewrite incr_flat. set (E := flat_map dp v2). set (c3 := fold_left stepI E c2).
    assert (HcE : forall x, countp x E = SP g v2 x) by (intros x; unfold E; apply countp_flat_map).
    assert (Hc3 : forall d, In d nodes -> (In d (vis ++ v2) -> getz c3 d = Z.of_nat (SP g (vis ++ v2) d)) /\ (~ In d (vis ++ v2) -> getz c3 d = K64)).
    { intros d Hd. destruct (incr_spec d E c2) as [A B]. fold c3 in A, B. rewrite HcE in B.
      pose proof (HSPle (vis ++ v2) d HBnd HBn Hd) as HB1. unfold SP in HB1. rewrite tsum_app in HB1. fold (SP g vis d) (SP g v2 d) in HB1.
      split.
      - intros Hin. unfold SP. rewrite tsum_app. fold (SP g vis d) (SP g v2 d). apply in_app_iff in Hin. destruct Hin as [Hv|Hv].
        + assert (Hnv : ~ In d v2) by (intros H; apply Hv2 in H; tauto).
          destruct (Hc1 d Hd) as [C1 _]. specialize (C1 Hv). rewrite (M3 d Hnv), C1 in B. rewrite B; lia.
        + destruct (M2 d Hv) as [C1 _]. rewrite C1 in B.
          assert (HS0 : SP g vis d = 0%nat).
          { unfold SP. apply tsum_zero. intros p Hp. destruct (Nat.eq_dec (countp d (getl (g_deps g) p)) 0) as [E0|E0]; [exact E0|]. exfalso.
            apply Hv2 in Hv. apply (proj2 Hv). apply (Hvis_closed p d Hp). apply countp_In. unfold dp. lia. }
          rewrite B; unfold K64 in *; lia.
      - intros Hin. apply A. assert (Hnv : ~ In d v2) by (intros H; apply Hin; apply in_app_iff; auto).
        rewrite (M3 d Hnv). apply (Hc1 d Hd). intros H; apply Hin; apply in_app_iff; auto. }
    assert (Hinc : forall d, In d nodes -> (incb c3 d = true <-> In d (vis ++ v2))).
    { intros d Hd. destruct (Hc3 d Hd) as [A B]. unfold incb. split.
      - intros H. destruct (in_dec Pos.eq_dec d (vis ++ v2)) as [Hi|Hi]; [exact Hi|]. rewrite (B Hi), Z.eqb_refl in H. discriminate.
      - intros H. rewrite (A H). pose proof (HSPle (vis ++ v2) d HBnd HBn Hd). apply negb_true_iff, Z.eqb_neq. lia. }
    exists c3. split; [reflexivity|]. split.
    + assert (Hcnt0 : forall d, cnt0 (xg_of g) c3 d = SP g (vis ++ v2) d).
      { intros d. unfold cnt0, SP. cbn [xg_of x_nodes x_deps].
        apply (tsum_select (fun p => countp d (getl (g_deps g) p)) (incb c3) (vis ++ v2) nodes Hnd HBnd).
        intros p. split; [intros Hp; split; [apply HBn; exact Hp | apply Hinc; [apply HBn; exact Hp | exact Hp]] | intros [Hp Hi]; apply Hinc; assumption]. }
      constructor; cbn [xg_of x_nodes x_deps x_bip].
      * exact Hnd.
      * exact Hcl.
      * intros d Hd Hi. rewrite Hcnt0. apply Hinc in Hi; [|exact Hd]. split; [apply (Hc3 d Hd); exact Hi | apply HSPle; assumption].
      * intros d Hd Hi. apply (Hc3 d Hd). intros Hin. apply Hinc in Hin; [congruence | exact Hd].
      * rewrite Eb. discriminate.
    + intros n Hn. rewrite (Hinc n Hn), in_app_iff. unfold rerun_set. rewrite (Hvr n), (Hv2 n), (HL n). rewrite <- (Hvr n). split.
      * intros [H|[H _]]; [left; exact H | right; split; [exact Eb | exact H]].
      * intros [H|[_ H]]; [left; exact H|]. destruct (in_dec Pos.eq_dec n vis) as [Hv|Hv]; [left; exact Hv | right; split; assumption].
  - (* plain Graph *)
    assert (Hinc : forall d, In d nodes -> (incb c1 d = true <-> In d vis)).
    { intros d Hd. destruct (Hc1 d Hd) as [A B]. unfold incb. split.
      - intros H. destruct (in_dec Pos.eq_dec d vis) as [Hi|Hi]; [exact Hi|]. rewrite (B Hi), Z.eqb_refl in H. discriminate.
      - intros H. rewrite (A H). pose proof (HSPle vis d Hvn Hvis_nodes Hd). apply negb_true_iff, Z.eqb_neq. lia. }
    exists c1. split; [reflexivity|]. split.
    + assert (Hcnt0 : forall d, cnt0 (xg_of g) c1 d = SP g vis d).
      { intros d. unfold cnt0, SP. cbn [xg_of x_nodes x_deps].
        apply (tsum_select (fun p => countp d (getl (g_deps g) p)) (incb c1) vis nodes Hnd Hvn).
        intros p. split; [intros Hp; split; [apply Hvis_nodes; exact Hp | apply Hinc; [apply Hvis_nodes; exact Hp | exact Hp]] | intros [Hp Hi]; apply Hinc; assumption]. }
      constructor; cbn [xg_of x_nodes x_deps x_bip].
      * exact Hnd.
      * exact Hcl.
      * intros d Hd Hi. rewrite Hcnt0. apply Hinc in Hi; [|exact Hd]. split; [apply (Hc1 d Hd); exact Hi | apply HSPle; assumption].
      * intros d Hd Hi. apply (Hc1 d Hd). intros Hin. apply Hinc in Hin; [congruence | exact Hd].
      * intros _ p d Hp Hi Hd. apply Hinc; [eapply Hcl; eauto|]. apply (Hvis_closed p d); [apply Hinc; assumption | exact Hd].
    + intros n Hn. rewrite (Hinc n Hn), (Hvr n). unfold rerun_set. split; [auto|]. intros [H|[H _]]; [exact H | congruence].
Qed.

(* ------------------------------------------------------------------------------------------------ boolean domain, corollaries *)

Definition sets_liveb (g : graph) : bool :=
  forallb (fun v => match PM.find v (g_setof g) with
                    | Some s => forallb (fun m => memp m (g_nodes g)) (getl (g_sets g) s)
                    | None => true end) (g_nodes g).
Definition zero_or_complb (g : graph) : bool :=
  forallb (fun n => (getz (g_cnt g) n =? 0) || (getz (g_cnt g) n =? K64)) (g_nodes g).
(* the domain of C31: a well-formed graph in which every incomplete node has counter 0 (after a completed evaluation
   plus setIncomplete calls, or freshly added nodes), set members alive *)
Definition fp_domb (g : graph) : bool := wfgb g && zero_or_complb g && sets_liveb g.

Lemma sets_liveb_live g : sets_liveb g = true -> sets_live g.
Proof.
  unfold sets_liveb, sets_live. intros H v s m Hv Hs Hm. rewrite forallb_forall in H. specialize (H v Hv). rewrite Hs in H.
  rewrite forallb_forall in H. apply memp_In. apply H. exact Hm.
Qed.

Lemma wfgb_parts g : wfgb g = true ->
  NoDup (g_nodes g) /\ (forall p d, In p (g_nodes g) -> In d (getl (g_deps g) p) -> In d (g_nodes g)) /\
  (forall d, In d (g_nodes g) -> Z.of_nat (np_count g d) < K64).
Proof.
  unfold wfgb, wfxb. intros H. apply andb_true_iff in H. destruct H as [H Hlt]. apply andb_true_iff in H. destruct H as [Hw _].
  apply andb_true_iff in Hw. destruct Hw as [Hnd Hcl]. cbn [xg_of x_nodes x_deps] in *. rewrite forallb_forall in Hcl, Hlt.
  split; [apply nodupb_NoDup; exact Hnd|]. split.
  - intros p d Hp Hd. specialize (Hcl p Hp). rewrite forallb_forall in Hcl. apply memp_In. apply Hcl. exact Hd.
  - intros d Hd. apply Z.ltb_lt. apply Hlt. exact Hd.
Qed.

Lemma fp_domb_correct g : fp_domb g = true ->
  exists c', forward_propagate g = Some (with_cnt g c') /\ Prepared (xg_of g) c' /\
    (forall n, In n (g_nodes g) -> (incb c' n = true <-> rerun_set g n)).
Proof.
  unfold fp_domb. intros H. apply andb_true_iff in H. destruct H as [H Hl]. apply andb_true_iff in H. destruct H as [Hw Hz].
  destruct (wfgb_parts g Hw) as [A [B C]]. apply fp_correct; try assumption.
  - intros n Hn. unfold zero_or_complb in Hz. rewrite forallb_forall in Hz. specialize (Hz n Hn). apply orb_true_iff in Hz.
    destruct Hz as [E|E]; apply Z.eqb_eq in E; auto.
  - apply sets_liveb_live. exact Hl.
Qed.

Lemma reach_nodes g : (forall p d, In p (g_nodes g) -> In d (getl (g_deps g) p) -> In d (g_nodes g)) ->
  forall n, reach g n -> In n (g_nodes g).
Proof.
  intros Hcl n Hr. induction Hr as [n Hn | p d Hp IH Hd].
  - unfold fp_start in Hn. apply filter_In in Hn. tauto.
  - eapply Hcl; eauto.
Qed.

(* ---- set objects vs propagation classes *)

Definition has_set (g : graph) (n : positive) : Prop := PM.find n (g_setof g) <> None.
Definition ideal_set (g : graph) (n : positive) : Prop :=
  reach g n \/ (g_bip g = true /\ has_set g n /\ exists p, reach g p /\ has_set g p /\ cls_of g p = cls_of g n).

Lemma plist_eqb_eq a b : plist_eqb a b = true -> a = b.
Proof.
  unfold plist_eqb. revert b. induction a as [|x a IH]; intros [|y b] H; try reflexivity; try discriminate.
  simpl in H. apply andb_true_iff in H. destruct H as [Hl H]. apply andb_true_iff in H. destruct H as [Hxy H].
  apply Pos.eqb_eq in Hxy. subst. f_equal. apply IH. apply andb_true_iff. split; [exact Hl | exact H].
Qed.

Lemma In_sorted_insert x y l : In x (sorted_insert y l) <-> x = y \/ In x l.
Proof.
  induction l as [|a l IH]; simpl; [intuition|]. destruct (y <=? a)%positive; simpl; [intuition|]. rewrite IH. intuition.
Qed.
Lemma In_sortp x l : In x (sortp l) <-> In x l.
Proof.
  unfold sortp. induction l as [|a l IH]; simpl; [tauto|]. rewrite In_sorted_insert, IH. intuition.
Qed.

Lemma coherent_members g : sets_coherentb g = true ->
  forall p s, In p (g_nodes g) -> PM.find p (g_setof g) = Some s ->
  forall m, In m (getl (g_sets g) s) <-> (In m (g_nodes g) /\ has_set g m /\ cls_of g m = cls_of g p).
Proof.
  unfold sets_coherentb. intros H p s Hp Hs m. rewrite forallb_forall in H. specialize (H p Hp). rewrite Hs in H.
  apply plist_eqb_eq in H. rewrite <- (In_sortp m (getl (g_sets g) s)), H, In_sortp, filter_In. unfold has_set.
  destruct (PM.find m (g_setof g)) as [sm|].
  - rewrite Pos.eqb_eq. intuition congruence.
  - intuition congruence.
Qed.

Lemma coherent_rerun_ideal g :
  sets_coherentb g = true -> (forall p d, In p (g_nodes g) -> In d (getl (g_deps g) p) -> In d (g_nodes g)) ->
  forall n, In n (g_nodes g) -> (rerun_set g n <-> ideal_set g n).
Proof.
  intros Hc Hcl n Hn. unfold rerun_set, ideal_set. split.
  - intros [H|[Hb [p [s [Hr [Hs Hm]]]]]]; [left; exact H|]. right. split; [exact Hb|].
    pose proof (reach_nodes g Hcl p Hr) as Hp.
    apply (coherent_members g Hc p s Hp Hs) in Hm. destruct Hm as [_ [Hh Hcls]]. split; [exact Hh|].
    exists p. split; [exact Hr|]. split; [unfold has_set; congruence | congruence].
  - intros [H|[Hb [Hh [p [Hr [Hhp Hcls]]]]]]; [left; exact H|]. right. split; [exact Hb|].
    unfold has_set in Hhp. destruct (PM.find p (g_setof g)) as [s|] eqn:Hs; [|congruence].
    exists p, s. split; [exact Hr|]. split; [exact Hs|].
    apply (coherent_members g Hc p s (reach_nodes g Hcl p Hr) Hs). split; [exact Hn|]. split; [exact Hh | congruence].
Qed.

(* ------------------------------------------------------------------------------------------------ statements for Props/Properties_C31.v *)

Lemma NoDup_nodupb l : NoDup l -> nodupb l = true.
Proof.
  induction l as [|a l IH]; intros H; [reflexivity|]. inversion H; subst. simpl. apply andb_true_iff. split; [|apply IH; assumption].
  apply negb_true_iff. apply memp_false. assumption.
Qed.

Lemma Prepared_preparedb x c : Prepared x c -> preparedb x c = true.
Proof.
  intros [P1 P2 P3 P4 P5]. unfold preparedb, wfxb.
  assert (W : nodupb (x_nodes x) && forallb (fun p => forallb (fun d => memp d (x_nodes x)) (x_deps x p)) (x_nodes x) = true).
  { apply andb_true_iff. split; [apply NoDup_nodupb; exact P1|]. apply forallb_forall. intros p Hp. apply forallb_forall. intros d Hd.
    apply memp_In. eapply P2; eauto. }
  rewrite W. cbn [andb]. apply andb_true_iff. split.
  - apply forallb_forall. intros d Hd. destruct (incb c d) eqn:Hi.
    + destruct (P3 d Hd Hi) as [A B]. unfold cnt0, tsum in A, B. unfold inc_preds. rewrite A.
      rewrite Z.eqb_refl, orb_true_r, andb_true_r. apply andb_true_iff. split; apply Z.leb_le; lia.
    + rewrite (P4 d Hd Hi). reflexivity.
  - destruct (x_bip x) eqn:Eb; [reflexivity|]. cbn [orb]. apply forallb_forall. intros p Hp. destruct (incb c p) eqn:Hi; [|reflexivity].
    cbn [negb orb]. apply forallb_forall. intros d Hd. eapply P5; eauto.
Qed.

Lemma C31_closure_proof : forall g, fp_domb g = true ->
  exists g', forward_propagate g = Some g' /\ xg_of g' = xg_of g /\
    (forall n, In n (g_nodes g) -> (incb (g_cnt g') n = true <-> rerun_set g n)) /\
    negb (preparedb (xg_of g') (g_cnt g')) = false.
Proof.
  intros g H. destruct (fp_domb_correct g H) as [c' [E [HP Hi]]]. exists (with_cnt g c'). split; [exact E|]. split; [reflexivity|].
  split; [exact Hi|]. apply negb_false_iff. apply Prepared_preparedb. exact HP.
Qed.

Lemma C31_rerun_proof : forall g g', fp_domb g = true -> forward_propagate g = Some g' ->
  forall wave sched,
    let s := run_sched (xg_of g') wave (init_st (xg_of g') (g_cnt g')) sched in
    safety_stmt (xg_of g') (g_cnt g') s /\
    (forall n, In n (started_l (s_log s)) -> rerun_set g n) /\
    (acyclic (xg_of g') -> quiescent s = true ->
     forall n, In n (g_nodes g) ->
       (rerun_set g n -> countp n (started_l (s_log s)) = 1%nat /\ countp n (finl (s_log s)) = 1%nat) /\
       (~ rerun_set g n -> ~ In n (started_l (s_log s))) /\ getz (s_cnt s) n = K64).
Proof.
  intros g g' H E wave sched s. destruct (fp_domb_correct g H) as [c' [E' [HP Hi]]]. rewrite E in E'. injection E' as ->.
  pose proof (exec_safe (xg_of (with_cnt g c')) wave c' HP sched) as HS. fold s in HS. split; [exact HS|].
  destruct HS as [_ [S2 [_ [_ S5]]]]. split.
  - intros n Hn. destruct (S2 n Hn) as [A B]. apply Hi; assumption.
  - intros Ha Hq n Hn. pose proof (exec_live (xg_of (with_cnt g c')) wave c' HP sched Ha Hq n Hn) as [L1 L2]. split; [|split; [|exact L1]].
    + intros Hr. apply L2. apply Hi; assumption.
    + intros Hr. apply (S5 n Hn). destruct (incb c' n) eqn:Ei; [|reflexivity]. exfalso. apply Hr. apply Hi; assumption.
Qed.

Lemma setAll_all_inc g : wfgb g = true -> forall n, In n (g_nodes g) -> incb (g_cnt (set_all_incomplete g)) n = true.
Proof.
  unfold wfgb. intros H n Hn. apply andb_true_iff in H. destruct H as [H Hlt]. apply andb_true_iff in H. destruct H as [_ Hnp].
  rewrite forallb_forall in Hlt, Hnp. unfold set_all_incomplete, with_cnt, incb. cbn [g_cnt]. rewrite getz_fold_add.
  pose proof Hn as Hm. apply memp_In in Hm. rewrite Hm. specialize (Hnp n Hn). apply Z.eqb_eq in Hnp. rewrite Hnp.
  specialize (Hlt n Hn). apply Z.ltb_lt in Hlt. apply negb_true_iff, Z.eqb_neq. lia.
Qed.

Lemma C31_setAll_proof : forall g, wfgb g = true ->
  let g' := set_all_incomplete g in
  forall wave sched,
    let s := run_sched (xg_of g') wave (init_st (xg_of g') (g_cnt g')) sched in
    safety_stmt (xg_of g') (g_cnt g') s /\
    (acyclic (xg_of g') -> quiescent s = true ->
     forall n, In n (g_nodes g) ->
       countp n (started_l (s_log s)) = 1%nat /\ countp n (finl (s_log s)) = 1%nat /\ getz (s_cnt s) n = K64).
Proof.
  intros g H g' wave sched s. pose proof (preparedb_Prepared _ _ (setAll_prepared g H)) as HP. fold g' in HP.
  split; [apply exec_safe; exact HP|]. intros Ha Hq n Hn.
  destruct (exec_live (xg_of g') wave (g_cnt g') HP sched Ha Hq n Hn) as [L1 L2].
  destruct (L2 (setAll_all_inc g H n Hn)) as [A B]. auto.
Qed.

Definition stale_ops : list op :=
  [ONode 0; ONode 0; ONode 0; ONode 0; OBip 2 1; OBip 4 3; OBip 3 1; OCompl 1; OCompl 2; OCompl 3; OCompl 4; OInc 2].

Lemma C31_refuted_proof :
  exists g g', build_ops true stale_ops = Some g /\ fp_domb g = true /\ negb (sets_coherentb g) = true /\
    forward_propagate g = Some g' /\ In 3%positive (g_nodes g) /\ ideal_set g 3 /\ incb (g_cnt g') 3 = false.
Proof.
  eexists. eexists. split; [vm_compute; reflexivity|]. split; [vm_compute; reflexivity|]. split; [vm_compute; reflexivity|].
  split; [vm_compute; reflexivity|]. split; [vm_compute; auto|]. split; [|vm_compute; reflexivity].
  right. split; [reflexivity|]. split; [vm_compute; discriminate|]. exists 2%positive.
  split; [apply reach_m; vm_compute; auto|]. split; [vm_compute; discriminate | vm_compute; reflexivity].
Qed.

Lemma C31_full_statement_false_proof :
  ~ (forall bip ops g, build_ops bip ops = Some g -> fp_domb g = true ->
     exists g', forward_propagate g = Some g' /\ forall n, In n (g_nodes g) -> (incb (g_cnt g') n = true <-> ideal_set g n)).
Proof.
  intros H. destruct C31_refuted_proof as [g [g' [Hb [Hd [_ [Hf [Hn [Hi Hc]]]]]]]].
  destruct (H true stale_ops g Hb Hd) as [g'' [Hf' Hall]]. rewrite Hf in Hf'. injection Hf' as <-.
  apply (Hall 3%positive Hn) in Hi. congruence.
Qed.

Lemma C31_holds_except_proof : forall g, negb (sets_coherentb g) = false -> fp_domb g = true ->
  exists g', forward_propagate g = Some g' /\ forall n, In n (g_nodes g) -> (incb (g_cnt g') n = true <-> ideal_set g n).
Proof.
  intros g Hc Hd. apply negb_false_iff in Hc. destruct (fp_domb_correct g Hd) as [c' [E [_ Hi]]]. exists (with_cnt g c'). split; [exact E|].
  intros n Hn. rewrite (Hi n Hn). apply coherent_rerun_ideal; try assumption.
  unfold fp_domb in Hd. apply andb_true_iff in Hd. destruct Hd as [Hd _]. apply andb_true_iff in Hd. destruct Hd as [Hw _].
  apply (wfgb_parts g Hw).
Qed.
