(* C31: ForwardPropagator.  First pass = FIFO breadth-first propagation (fp_bfs), second pass = bidirectional
   propagation over the set objects reached (fp_pass2).  Main result: from a state in which every incomplete node has
   counter 0, the propagated state is PREPARED (C30Proofs.Prepared) and its incomplete nodes are exactly the forward closure
   of the marked nodes plus the members of the set objects the closure nodes point to. *)
From Coq Require Import ZArith List Bool PArith FMapPositive Lia Arith Permutation.
From DV Require Import Base.MachInt Model.GraphModel Proofs.C30Proofs.
Import ListNotations.
Local Open Scope Z_scope.

Arguments countp : simpl never.
Arguments tsum : simpl never.

(* ------------------------------------------------------------------------------------------------ list facts *)

Lemma In_add_nodup x y l : In x (add_nodup y l) <-> x = y \/ In x l.
Proof.
  unfold add_nodup. destruct (memp y l) eqn:E.
  - apply memp_In in E. split; [auto|]. intros [->|H]; assumption.
  - rewrite in_app_iff. simpl. split; [intros [H|[H|[]]]; auto | intros [H|H]; auto].
Qed.

Lemma tsum_perm {A} (f : A -> nat) l1 l2 : Permutation l1 l2 -> tsum f l1 = tsum f l2.
Proof.
  intros H. induction H; try reflexivity.
  - rewrite !tsum_cons, IHPermutation. reflexivity.
  - rewrite !tsum_cons. lia.
  - congruence.
Qed.

Lemma tsum_incl_le (f : positive -> nat) l nodes :
  NoDup l -> (forall p, In p l -> In p nodes) -> (tsum f l <= tsum f nodes)%nat.
Proof.
  revert nodes. induction l as [|a l IH]; intros nodes Hnd Hin; [rewrite tsum_nil_0; lia|].
  inversion Hnd as [|? ? Ha Hnd']; subst.
  destruct (in_split a nodes (Hin a (or_introl eq_refl))) as [n1 [n2 ->]].
  rewrite tsum_cons, tsum_app, tsum_cons.
  specialize (IH (n1 ++ n2) Hnd').
  assert (H : forall p, In p l -> In p (n1 ++ n2)).
  { intros p Hp. specialize (Hin p (or_intror Hp)). apply in_app_iff in Hin. apply in_app_iff.
    destruct Hin as [H|[H|H]]; auto. subst. contradiction. }
  specialize (IH H). rewrite tsum_app in IH. lia.
Qed.

(* sum over the nodes selected by a boolean = sum over a duplicate-free list with the same members *)
Lemma tsum_select (f : positive -> nat) (b : positive -> bool) l nodes :
  NoDup nodes -> NoDup l -> (forall p, In p l <-> In p nodes /\ b p = true) ->
  tsum (fun p => if b p then f p else 0%nat) nodes = tsum f l.
Proof.
  intros Hn Hl Hiff.
  assert (HP : Permutation l (filter b nodes)).
  { apply NoDup_Permutation; [exact Hl | apply NoDup_filter; exact Hn|]. intros p. rewrite filter_In. apply Hiff. }
  rewrite (tsum_perm f _ _ HP). clear. induction nodes as [|a nodes IH]; [reflexivity|].
  rewrite tsum_cons. cbn [filter]. destruct (b a); [rewrite tsum_cons|]; rewrite IH; reflexivity.
Qed.
