(* The adaptive (stripe) path: initStripeState's stripes tile [start, end); for EVERY claim/steal schedule in which
   no cursor leaves its 64-bit type, the body invocations are, as a multiset, the schedule-independent plan
   stripe_canon; and stripe_canon tiles [start, end). *)
From Coq Require Import ZArith List Bool Lia Zdiv Permutation.
From DV Require Import Base.MachInt Model.ChunkModel Proofs.ChunkProofs Proofs.StaticBoundsProofs Model.ParForModel
  Model.DynLeafModel Proofs.DynLeafProofs Model.DynModel Proofs.DynListProofs Proofs.DynProofs Model.StripeModel.
Import ListNotations.
Local Open Scope Z_scope.
Ltac Zify.zify_post_hook ::= Z.div_mod_to_equations.

(* ---------- initStripeState: whatever the aligned offset is, the clamps make the stripes a tiling ---------- *)
Lemma stripe_end_range k s e P g i cursor : s <= cursor <= e ->
  cursor <= stripe_end k s e P g i cursor <= e /\ (i + 1 = P -> stripe_end k s e P g i cursor = e).
Proof.
  intros H. unfold stripe_end. destruct (i + 1 =? P) eqn:L; [apply Z.eqb_eq in L; split; [lia | reflexivity]|].
  apply Z.eqb_neq in L. split; [|intros; lia].
  set (se := castk _ _).
  destruct (se <=? cursor) eqn:A; [apply Z.leb_le in A | apply Z.leb_gt in A].
  - destruct (e <=? cursor) eqn:B; [apply Z.leb_le in B | apply Z.leb_gt in B]; lia.
  - destruct (e <=? se) eqn:B; [apply Z.leb_le in B | apply Z.leb_gt in B]; lia.
Qed.

Lemma stripe_bounds_from_spec k s e P g : forall n i cursor, s <= cursor <= e -> i + Z.of_nat n = P -> (0 < n)%nat ->
  contiguous cursor (stripe_bounds_from k s e P g n i cursor) e /\
  length (stripe_bounds_from k s e P g n i cursor) = n.
Proof.
  induction n as [|n IH]; intros i cursor Hc Hi Hn; [lia|].
  cbn [stripe_bounds_from]. destruct (stripe_end_range k s e P g i cursor Hc) as [R1 R2].
  destruct n as [|n'].
  - cbn [stripe_bounds_from contiguous length]. rewrite R2 by lia. split; [split; [reflexivity | split; [lia | reflexivity]] | reflexivity].
  - destruct (IH (i + 1) (stripe_end k s e P g i cursor) ltac:(lia) ltac:(lia) ltac:(lia)) as [C L].
    split; [|cbn [length]; rewrite L; reflexivity].
    cbn [contiguous]. split; [reflexivity|]. split; [lia | exact C].
Qed.

(* ---------- one stripe's claims tile the stripe ---------- *)
Lemma nclaims_spec b e step : 1 <= step ->
  0 <= stripe_nclaims b e step /\
  (forall n, 0 <= n -> (b + n * step < e <-> n < stripe_nclaims b e step)).
Proof.
  intros Hs. unfold stripe_nclaims. destruct (e <=? b) eqn:L; [apply Z.leb_le in L | apply Z.leb_gt in L].
  - split; [lia|]. intros n Hn. nia.
  - pose proof (ceil_div_bounds (e - b) step ltac:(lia) ltac:(lia)) as B. cbv zeta in B.
    set (q := (e - b + step - 1) / step) in *. split; [nia|]. intros n Hn. nia.
Qed.

Definition soff (b e step i : Z) : Z := Z.min (i * step) (e - b).

Lemma stripe_chunks_contiguous step b e : 1 <= step -> b <= e -> contiguous b (stripe_chunks step (b, e)) e.
Proof.
  intros Hs Hbe. unfold stripe_chunks.
  destruct (nclaims_spec b e step Hs) as [N0 N1]. set (n := stripe_nclaims b e step) in *.
  rewrite (map_ext_in _ (fun i => (b + soff b e step (Z.of_nat i), b + soff b e step (Z.of_nat i + 1)))).
  2:{ intros i Hi. apply in_seq in Hi. unfold soff.
      assert (A : b + Z.of_nat i * step < e) by (apply N1; lia). f_equal; lia. }
  pose proof (contiguous_offsets (soff b e step) b (Z.to_nat n) 0) as C.
  replace (b + soff b e step (Z.of_nat 0)) with b in C by (unfold soff; cbn [Z.of_nat]; lia).
  replace (b + soff b e step (Z.of_nat (0 + Z.to_nat n))) with e in C.
  - apply C. intros i Hi. unfold soff. nia.
  - unfold soff. rewrite Nat.add_0_l, Z2Nat.id by lia.
    assert (~ (b + n * step < e)) by (rewrite N1 by lia; lia). lia.
Qed.

Lemma contiguous_flat_map (h : Z * Z -> list (Z * Z)) : forall l s e,
  contiguous s l e -> (forall b e', b <= e' -> contiguous b (h (b, e')) e') -> contiguous s (flat_map h l) e.
Proof.
  induction l as [|[a b] r IH]; intros s e C H; [exact C|].
  destruct C as (E & L & R). subst a. cbn [flat_map]. eapply contiguous_app; [apply H; exact L | apply IH; assumption].
Qed.

(* ---------- counting lemmas ---------- *)
Lemma countb_ext f g n : (forall j, (j < n)%nat -> f j = g j) -> countb f n = countb g n.
Proof.
  intros H. unfold countb. f_equal. apply filter_ext_in. intros a Ha. apply in_seq in Ha. apply H. lia.
Qed.

Lemma countb_S f n : countb f (S n) = (countb f n + (if f n then 1 else 0))%nat.
Proof. unfold countb. rewrite seq_S, filter_app, app_length. cbn [Nat.add filter]. destruct (f n); reflexivity. Qed.

Lemma countb_and_le f r n : (countb (fun x => f x && r x) n <= countb f n)%nat.
Proof.
  induction n as [|n IH]; [reflexivity|]. rewrite !countb_S. destruct (f n), (r n); cbn [andb]; lia.
Qed.

Lemma countb_and_lt f r n j : (j < n)%nat -> f j = true -> r j = false ->
  (countb (fun x => f x && r x) n < countb f n)%nat.
Proof.
  induction n as [|n IH]; intros Hj Fj Rj; [lia|]. rewrite !countb_S.
  destruct (Nat.eq_dec j n) as [->|N].
  - rewrite Fj, Rj. cbn [andb]. pose proof (countb_and_le f r n). lia.
  - specialize (IH ltac:(lia) Fj Rj). destruct (f n), (r n); cbn [andb]; lia.
Qed.

Lemma countb_and_upd f r n j : (j < n)%nat -> f j = true -> r j = false ->
  countb (fun x => f x && upd r j true x) n = S (countb (fun x => f x && r x) n).
Proof.
  induction n as [|n IH]; intros Hj Fj Rj; [lia|]. rewrite !countb_S.
  destruct (Nat.eq_dec j n) as [->|N].
  - rewrite upd_same, Fj, Rj. cbn [andb].
    rewrite (countb_ext (fun x => f x && upd r n true x) (fun x => f x && r x) n)
      by (intros x Hx; rewrite upd_other by lia; reflexivity). lia.
  - rewrite IH by (try lia; assumption). rewrite upd_other by lia. lia.
Qed.

Lemma countb_and_full f r n : countb (fun x => f x && r x) n = countb f n ->
  forall j, (j < n)%nat -> f j = true -> r j = true.
Proof.
  intros E j Hj Fj. destruct (r j) eqn:Rj; [reflexivity|].
  pose proof (countb_and_lt f r n j Hj Fj Rj). lia.
Qed.

Lemma zrange_eq a b n m : a = b -> n = m -> zrange a n = zrange b m.
Proof. intros -> ->. reflexivity. Qed.

Section StripeRun.
  Variable c : scfg.
  Local Notation k := (sc_k c).
  Local Notation P := (sc_P c).
  Local Notation step := (sc_step c).
  Hypothesis Hstep : 1 <= step.
  Hypothesis HP : (0 < P)%nat.
  Hypothesis HP32 : Z.of_nat P < 2 ^ 32.

  Definition Bj (j : nat) : Z := fst (sb c j).
  Definition Ej (j : nat) : Z := snd (sb c j).
  Definition nj (j : nat) : Z := stripe_nclaims (Bj j) (Ej j) step.
  Definition slo (j : nat) (x : Z) : Z := Z.min x (nj j).
  Definition NE : nat := countb (nonempty c) P.
  Definition rcount (st : sstate) : nat := countb (fun j => nonempty c j && ss_ret st j) P.
  Definition good (cl : nat * Z) : Prop :=
    castk (wide k) (snd cl + step) = snd cl + step /\ Bj (fst cl) <= snd cl < Ej (fst cl).

  Definition SInv (st : sstate) : Prop :=
    (forall j, 0 <= ss_cnt st j) /\
    (ss_nowrap st = true -> forall j, ss_cur st j = Bj j + ss_cnt st j * step) /\
    (ss_nowrap st = true -> forall j, nonempty c j = true -> ss_ret st j = true -> nj j < ss_cnt st j) /\
    (forall j, ss_ret st j = false -> nonempty c j = true) /\
    ss_active st + Z.of_nat (rcount st) = Z.of_nat NE /\
    (forall w, ss_ph st w = WDone -> ss_active st = 0).

  Definition contrib (st st1 : sstate) (cl : list (nat * Z)) : Prop :=
    (forall j, ss_cnt st j <= ss_cnt st1 j) /\
    (ss_nowrap st1 = true -> ss_nowrap st = true) /\
    (ss_nowrap st1 = true -> forall j, with_key fst j cl =
       map (fun i => (j, Bj j + i * step)) (zrange (slo j (ss_cnt st j)) (Z.to_nat (slo j (ss_cnt st1 j) - slo j (ss_cnt st j))))) /\
    (ss_nowrap st1 = true -> forall x, In x cl -> good x).

  Lemma nj_nonneg j : 0 <= nj j.
  Proof. unfold nj. apply nclaims_spec. exact Hstep. Qed.

  Lemma contrib_refl st : contrib st st [].
  Proof.
    split; [intros; lia|]. split; [auto|]. split.
    - intros _ j. cbn [with_key filter]. replace (slo j (ss_cnt st j) - slo j (ss_cnt st j)) with 0 by lia. reflexivity.
    - intros _ x [].
  Qed.

  Lemma contrib_trans st st1 st2 cl1 cl2 : contrib st st1 cl1 -> contrib st1 st2 cl2 -> contrib st st2 (cl1 ++ cl2).
  Proof.
    intros (A1 & A2 & A3 & A4) (B1 & B2 & B3 & B4).
    split; [intros j; specialize (A1 j); specialize (B1 j); lia|]. split; [auto|]. split.
    - intros Nw j. rewrite with_key_app, (A3 (B2 Nw)), (B3 Nw), <- map_app. f_equal.
      specialize (A1 j). specialize (B1 j). pose proof (nj_nonneg j). unfold slo.
      replace (Z.to_nat (Z.min (ss_cnt st2 j) (nj j) - Z.min (ss_cnt st j) (nj j)))
        with (Z.to_nat (Z.min (ss_cnt st1 j) (nj j) - Z.min (ss_cnt st j) (nj j)) +
              Z.to_nat (Z.min (ss_cnt st2 j) (nj j) - Z.min (ss_cnt st1 j) (nj j)))%nat by lia.
      rewrite zrange_app. f_equal. f_equal. lia.
    - intros Nw x Hx. apply in_app_or in Hx. destruct Hx as [Hx|Hx]; [apply (A4 (B2 Nw)) | apply (B4 Nw)]; exact Hx.
  Qed.

  Lemma contrib_set_ph st st1 cl w p : contrib st st1 cl -> contrib st (set_ph st1 w p) cl.
  Proof. intros H. exact H. Qed.

  Lemma SInv_set_ph st w p : SInv st -> (p = WDone -> ss_active st = 0) -> SInv (set_ph st w p).
  Proof.
    intros (I1 & I2 & I3 & I4 & I5 & I6) Hp. unfold SInv, set_ph; cbn [ss_cnt ss_cur ss_nowrap ss_ret ss_active ss_ph].
    split; [exact I1|]. split; [exact I2|]. split; [exact I3|]. split; [exact I4|]. split; [exact I5|].
    intros w'. destruct (Nat.eq_dec w' w) as [->|N]; [rewrite upd_same; exact Hp | rewrite upd_other by exact N; apply I6].
  Qed.

  Lemma nonempty_lt j : nonempty c j = true -> (j < P)%nat /\ Bj j < Ej j.
  Proof.
    unfold nonempty. intros H. apply andb_true_iff in H. destruct H as [H1 H2].
    apply Nat.ltb_lt in H1. apply Z.ltb_lt in H2. split; assumption.
  Qed.

  (* stripeClaim *)
  Lemma claim_spec st j : SInv st ->
    let '(st1, r) := claim c st j in
    SInv st1 /\ ss_ph st1 = ss_ph st /\ ss_active st1 <= ss_active st /\
    contrib st st1 (match r with Some p => [(j, p)] | None => [] end).
  Proof.
    intros (I1 & I2 & I3 & I4 & I5 & I6). unfold claim.
    set (prev := ss_cur st j). set (nxt := castk (wide k) (prev + step)).
    set (ok := ss_nowrap st && (nxt =? prev + step)).
    assert (OK : ok = true -> ss_nowrap st = true /\ nxt = prev + step /\ prev = Bj j + ss_cnt st j * step).
    { intros H. apply andb_true_iff in H. destruct H as [H1 H2]. apply Z.eqb_eq in H2.
      split; [exact H1|]. split; [exact H2|]. apply I2. exact H1. }
    pose proof (I1 j) as C0.
    destruct (nclaims_spec (Bj j) (Ej j) step Hstep) as [N0 N1]. fold (nj j) in N0, N1.
    assert (CNT : forall j', ss_cnt st j' <= upd (ss_cnt st) j (ss_cnt st j + 1) j').
    { intros j'. destruct (Nat.eq_dec j' j) as [->|N]; [rewrite upd_same; lia | rewrite upd_other by exact N; lia]. }
    assert (CUR : ok = true -> forall j', upd (ss_cur st) j nxt j' = Bj j' + upd (ss_cnt st) j (ss_cnt st j + 1) j' * step).
    { intros H j'. destruct (OK H) as (O1 & O2 & O3). destruct (Nat.eq_dec j' j) as [->|N].
      - rewrite !upd_same. lia.
      - rewrite !upd_other by exact N. apply I2. exact O1. }
    assert (KEYFAIL : ok = true -> Ej j <= prev -> forall j',
              with_key fst j' (@nil (nat * Z)) =
              map (fun i => (j', Bj j' + i * step))
                  (zrange (slo j' (ss_cnt st j')) (Z.to_nat (slo j' (upd (ss_cnt st) j (ss_cnt st j + 1) j') - slo j' (ss_cnt st j'))))).
    { intros H Fl j'. destruct (OK H) as (O1 & O2 & O3). cbn [with_key filter]. destruct (Nat.eq_dec j' j) as [->|N].
      - rewrite upd_same. unfold slo.
        assert (~ (ss_cnt st j < nj j)) by (rewrite <- N1 by lia; lia).
        replace (Z.min (ss_cnt st j + 1) (nj j) - Z.min (ss_cnt st j) (nj j)) with 0 by lia. reflexivity.
      - rewrite upd_other by exact N. replace (slo j' (ss_cnt st j') - slo j' (ss_cnt st j')) with 0 by lia. reflexivity. }
    destruct (snd (sb c j) <=? prev) eqn:Fail; [apply Z.leb_le in Fail | apply Z.leb_gt in Fail]; fold (Ej j) in Fail.
    - destruct (ss_ret st j) eqn:Rt.
      + (* exhausted, already retired *)
        split; [|split; [reflexivity|split; [cbn [ss_active]; lia|]]].
        * unfold SInv; cbn [ss_cnt ss_cur ss_nowrap ss_ret ss_active ss_ph].
          split; [intros j'; specialize (CNT j'); specialize (I1 j'); lia|]. split; [exact CUR|]. split.
          { intros H j' Ne Rt'. destruct (OK H) as (O1 & O2 & O3). specialize (I3 O1 j' Ne Rt'). specialize (CNT j'). lia. }
          split; [exact I4|]. split; [exact I5 | exact I6].
        * split; [exact CNT|]. split; [intros H; apply (OK H)|]. split; [intros H; apply KEYFAIL; assumption | intros _ x []].
      + (* exhausted: this claim retires the stripe *)
        pose proof (I4 j Rt) as Ne. destruct (nonempty_lt j Ne) as [Lt _].
        pose proof (countb_and_lt (nonempty c) (ss_ret st) P j Lt Ne Rt) as RC. fold (rcount st) in RC. fold NE in RC.
        assert (ACT : wrap 32 (ss_active st - 1) = ss_active st - 1).
        { apply wrap_small. pose proof (countb_le (nonempty c) P). fold NE in H. lia. }
        split; [|split; [reflexivity|split; [cbn [ss_active]; lia|]]].
        * unfold SInv; cbn [ss_cnt ss_cur ss_nowrap ss_ret ss_active ss_ph]. rewrite ACT.
          split; [intros j'; specialize (CNT j'); specialize (I1 j'); lia|]. split; [exact CUR|]. split.
          { intros H j' Ne' Rt'. destruct (OK H) as (O1 & O2 & O3). destruct (Nat.eq_dec j' j) as [->|N].
            - rewrite upd_same. assert (~ (ss_cnt st j < nj j)) by (rewrite <- N1 by lia; lia). lia.
            - rewrite upd_other in Rt' by exact N. specialize (I3 O1 j' Ne' Rt'). specialize (CNT j'). lia. }
          split.
          { intros j' Rt'. destruct (Nat.eq_dec j' j) as [->|N]; [exact Ne | rewrite upd_other in Rt' by exact N; apply I4; exact Rt']. }
          split.
          { unfold rcount; cbn [ss_ret]. rewrite countb_and_upd by assumption. fold (rcount st). lia. }
          intros w Dn. specialize (I6 w Dn). lia.
        * split; [exact CNT|]. split; [intros H; apply (OK H)|]. split; [intros H; apply KEYFAIL; assumption | intros _ x []].
    - (* success *)
      split; [|split; [reflexivity|split; [cbn [ss_active]; lia|]]].
      + unfold SInv; cbn [ss_cnt ss_cur ss_nowrap ss_ret ss_active ss_ph].
        split; [intros j'; specialize (CNT j'); specialize (I1 j'); lia|]. split; [exact CUR|]. split.
        { intros H j' Ne Rt'. destruct (OK H) as (O1 & O2 & O3). specialize (I3 O1 j' Ne Rt'). specialize (CNT j'). lia. }
        split; [exact I4|]. split; [exact I5 | exact I6].
      + split; [exact CNT|]. split; [intros H; apply (OK H)|]. split.
        * intros H j'. destruct (OK H) as (O1 & O2 & O3). unfold with_key. cbn [filter fst ss_cnt].
          assert (LT : ss_cnt st j < nj j) by (rewrite <- N1 by lia; lia).
          destruct (Nat.eqb_spec j j') as [<-|N].
          -- rewrite upd_same. unfold slo.
             replace (Z.min (ss_cnt st j + 1) (nj j) - Z.min (ss_cnt st j) (nj j)) with 1 by lia.
             rewrite Z.min_l by lia. cbn [Z.to_nat Pos.to_nat Pos.iter_op zrange map]. rewrite O3. reflexivity.
          -- rewrite upd_other by (intros ->; apply N; reflexivity).
             replace (slo j' (ss_cnt st j') - slo j' (ss_cnt st j')) with 0 by lia. reflexivity.
        * intros H x [<-|[]]. destruct (OK H) as (O1 & O2 & O3). unfold good. cbn [fst snd]. split; [exact O2|]. nia.
  Qed.

  Lemma step_spec st ev : SInv st ->
    let '(st1, cl) := stripe_step c st ev in SInv st1 /\ contrib st st1 cl.
  Proof.
    intros I. destruct ev as [w v]. unfold stripe_step.
    destruct (negb (Nat.ltb w P)); [split; [exact I | apply contrib_refl]|].
    destruct (ss_ph st w) as [|lv|] eqn:Ph.
    - pose proof (claim_spec st w I) as CS. destruct (claim c st w) as [st1 [p|]]; destruct CS as (I1 & _ & _ & C1).
      + split; assumption.
      + split; [apply SInv_set_ph; [exact I1 | intros; discriminate] | apply contrib_set_ph; exact C1].
    - destruct (ss_active st =? 0) eqn:A; [apply Z.eqb_eq in A|].
      { split; [apply SInv_set_ph; [exact I | intros _; exact A] | apply contrib_set_ph, contrib_refl]. }
      destruct lv as [u|].
      + pose proof (claim_spec st u I) as CS. destruct (claim c st u) as [st1 [p|]]; destruct CS as (I1 & _ & _ & C1).
        * split; assumption.
        * split; [apply SInv_set_ph; [exact I1 | intros; discriminate] | apply contrib_set_ph; exact C1].
      + destruct (nonempty c v && negb (Nat.eqb v w)); [|split; [exact I | apply contrib_refl]].
        pose proof (claim_spec st v I) as CS. destruct (claim c st v) as [st1 [p|]]; destruct CS as (I1 & _ & _ & C1).
        * split; [apply SInv_set_ph; [exact I1 | intros; discriminate] | apply contrib_set_ph; exact C1].
        * split; assumption.
    - split; [exact I | apply contrib_refl].
  Qed.

  Lemma run_spec sched : forall st, SInv st ->
    let '(st2, cls) := stripe_run c st sched in SInv st2 /\ contrib st st2 cls.
  Proof.
    induction sched as [|ev r IH]; intros st I; cbn [stripe_run].
    - split; [exact I | apply contrib_refl].
    - pose proof (step_spec st ev I) as S. destruct (stripe_step c st ev) as [st1 cl]. destruct S as [I1 C1].
      specialize (IH st1 I1). destruct (stripe_run c st1 r) as [st2 cls]. destruct IH as [I2 C2].
      split; [exact I2 | eapply contrib_trans; eassumption].
  Qed.

  Lemma countb_false n : countb (fun j => nonempty c j && negb (nonempty c j)) n = 0%nat.
  Proof. induction n as [|n IH]; [reflexivity|]. rewrite countb_S, IH. destruct (nonempty c n); reflexivity. Qed.

  Lemma SInv_init : SInv (stripe_init c).
  Proof.
    unfold SInv, stripe_init; cbn [ss_cnt ss_cur ss_nowrap ss_ret ss_active ss_ph].
    split; [intros; lia|]. split; [intros _ j; unfold Bj; lia|]. split.
    - intros _ j Ne Rt. rewrite Ne in Rt. discriminate.
    - split; [intros j Rt; apply negb_false_iff in Rt; exact Rt|]. split; [|intros; discriminate].
      unfold rcount; cbn [ss_ret]. rewrite countb_false. unfold NE, countb. lia.
  Qed.

  (* ---- the theorem ---- *)
  Hypothesis Hwf : wf_kind k.
  Hypothesis Hlen : length (stripe_bounds c) = P.
  Hypothesis Hin : forall j, (j < P)%nat -> in_kind k (Bj j) /\ in_kind k (Ej j).

  Definition canon_chunk (cl : nat * Z) : Z * Z := (snd cl, Z.min (snd cl + step) (Ej (fst cl))).

  Lemma good_lt x : good x -> (fst x < P)%nat.
  Proof.
    intros [_ G]. destruct (Nat.lt_ge_cases (fst x) P) as [L|L]; [exact L|].
    unfold Bj, Ej, sb in G. rewrite nth_overflow in G by (rewrite Hlen; exact L). cbn [fst snd] in G. lia.
  Qed.

  Lemma claim_chunk_good x : good x -> claim_chunk c x = canon_chunk x.
  Proof.
    intros G. pose proof (good_lt x G) as L. destruct G as [G1 G2]. destruct x as [j p]. cbn [fst snd] in *.
    destruct (Hin j L) as [InB InE]. unfold claim_chunk, canon_chunk. cbn [fst snd]. rewrite G1. fold (Ej j).
    rewrite castk_id by (try assumption; unfold in_kind in *; lia). f_equal.
    destruct (Ej j <? p + step) eqn:A; [apply Z.ltb_lt in A | apply Z.ltb_ge in A].
    - rewrite Z.min_r by lia. apply castk_id; assumption.
    - rewrite Z.min_l by lia. apply castk_id; [assumption | unfold in_kind in *; lia].
  Qed.

  Lemma list_as_nth {A} (l : list A) d : l = map (fun j => nth j l d) (seq 0 (length l)).
  Proof.
    induction l as [|x r IH]; [reflexivity|]. cbn [length seq map nth]. f_equal.
    rewrite <- seq_shift, map_map. exact IH.
  Qed.

  Theorem stripe_partition sched : stripe_complete c sched = true -> stripe_nowrap c sched = true ->
    Permutation (stripe_calls c sched) (stripe_canon c).
  Proof.
    intros Hc Hn. unfold stripe_complete, stripe_nowrap, stripe_calls, stripe_canon in *.
    pose proof (run_spec sched (stripe_init c) SInv_init) as R.
    destruct (stripe_run c (stripe_init c) sched) as [st2 cls]. cbn [fst snd] in *.
    destruct R as ((J1 & J2 & J3 & J4 & J5 & J6) & (K1 & K2 & K3 & K4)).
    specialize (K3 Hn). specialize (K4 Hn). specialize (J3 Hn).
    unfold stripe_all_done in Hc. rewrite forallb_forall in Hc.
    assert (D0 : ss_ph st2 0%nat = WDone).
    { specialize (Hc 0%nat ltac:(apply in_seq; lia)). destruct (ss_ph st2 0%nat); try discriminate. reflexivity. }
    pose proof (J6 0%nat D0) as A0.
    assert (RC : rcount st2 = NE) by lia.
    assert (FULL : forall j, (j < P)%nat ->
              with_key fst j cls = map (fun i => (j, Bj j + i * step)) (zrange 0 (Z.to_nat (nj j)))).
    { intros j Lj. rewrite K3. cbn [stripe_init ss_cnt]. pose proof (nj_nonneg j) as N0. pose proof (J1 j) as C0. unfold slo.
      destruct (nonempty c j) eqn:Ne.
      - pose proof (countb_and_full (nonempty c) (ss_ret st2) P RC j Lj Ne) as Rt. specialize (J3 j Ne Rt).
        f_equal. apply zrange_eq; lia.
      - assert (Z0 : nj j = 0).
        { unfold nj, stripe_nclaims. unfold nonempty in Ne. replace (Nat.ltb j P) with true in Ne by (symmetry; apply Nat.ltb_lt; exact Lj).
          cbn [andb] in Ne. apply Z.ltb_ge in Ne. fold (Bj j) (Ej j) in Ne.
          replace (Ej j <=? Bj j) with true by (symmetry; apply Z.leb_le; lia). reflexivity. }
        rewrite Z0. f_equal. apply zrange_eq; lia. }
    apply Permutation_app_tail.
    rewrite (map_ext_in _ canon_chunk) by (intros x Hx; apply claim_chunk_good, K4; exact Hx).
    eapply Permutation_trans; [apply Permutation_map; apply (perm_by_key fst cls P); intros x Hx; apply good_lt, K4; exact Hx|].
    rewrite (flat_map_ext_in' _ (fun j => map (fun i => (j, Bj j + i * step)) (zrange 0 (Z.to_nat (nj j)))))
      by (intros j Hj; apply in_seq in Hj; apply FULL; lia).
    rewrite map_flat_map.
    rewrite (flat_map_ext_in' _ (fun j => stripe_chunks step (sb c j))).
    2:{ intros j _. rewrite map_map. unfold stripe_chunks, canon_chunk. cbn [fst snd].
        destruct (sb c j) as [b e] eqn:SB. unfold nj, Bj, Ej. rewrite SB. cbn [fst snd].
        rewrite zrange_seq, map_map. apply map_ext. intros i.
        replace (0 + Z.of_nat i) with (Z.of_nat i) by lia.
        replace (b + Z.of_nat i * step + step) with (b + (Z.of_nat i + 1) * step) by lia. reflexivity. }
    apply Permutation_refl'. symmetry.
    assert (E : stripe_bounds c = map (sb c) (seq 0 P)).
    { unfold sb. rewrite <- Hlen. apply (list_as_nth (stripe_bounds c) (sc_e c, sc_e c)). }
    rewrite E. exact (flat_map_map (stripe_chunks step) (sb c) (seq 0 P)).
  Qed.

  (* ---- when does no cursor wrap?  when every cursor's final position fits the 64-bit cursor type ---- *)
  Hypothesis Hw64 : ik_w k <= 64.
  Hypothesis HBmin : forall j, kmin (wide k) <= Bj j.

  Lemma wide_wf : wf_kind (wide k).
  Proof. unfold wf_kind, wide; simpl. lia. Qed.

  Lemma claim_nowrap st j : SInv st -> ss_nowrap st = true ->
    Bj j + (ss_cnt st j + 1) * step <= kmax (wide k) -> ss_nowrap (fst (claim c st j)) = true.
  Proof.
    intros (I1 & I2 & _) Nw Hb. unfold claim.
    assert (E : castk (wide k) (ss_cur st j + step) = ss_cur st j + step).
    { rewrite (I2 Nw j). apply castk_id; [apply wide_wf|]. unfold in_kind. specialize (HBmin j). specialize (I1 j). nia. }
    rewrite E, Z.eqb_refl, Nw.
    destruct (snd (sb c j) <=? ss_cur st j); [destruct (ss_ret st j)|]; reflexivity.
  Qed.

  Lemma claim_cnt st j j' : ss_cnt (fst (claim c st j)) j' = upd (ss_cnt st) j (ss_cnt st j + 1) j'.
  Proof. unfold claim. destruct (snd (sb c j) <=? ss_cur st j); [destruct (ss_ret st j)|]; reflexivity. Qed.

  Lemma step_nowrap st ev : SInv st -> ss_nowrap st = true ->
    (forall j, Bj j + ss_cnt (fst (stripe_step c st ev)) j * step <= kmax (wide k)) ->
    ss_nowrap (fst (stripe_step c st ev)) = true.
  Proof.
    intros I Nw. destruct ev as [w v]. unfold stripe_step.
    assert (CL : forall j (X : sstate * option Z -> sstate * list (nat * Z)),
              (forall r, ss_nowrap (fst (X r)) = ss_nowrap (fst r) /\ ss_cnt (fst (X r)) = ss_cnt (fst r)) ->
              (forall j', Bj j' + ss_cnt (fst (X (claim c st j))) j' * step <= kmax (wide k)) ->
              ss_nowrap (fst (X (claim c st j))) = true).
    { intros j X HX Hb. destruct (HX (claim c st j)) as [X1 X2]. rewrite X1. apply claim_nowrap; try assumption.
      specialize (Hb j). rewrite X2, claim_cnt, upd_same in Hb. exact Hb. }
    destruct (negb (Nat.ltb w P)); [intros _; exact Nw|].
    destruct (ss_ph st w) as [|lv|].
    - apply (CL w (fun r => let '(st1, r0) := r in match r0 with Some p => (st1, [(w, p)]) | None => (set_ph st1 w (WSteal None), []) end)).
      intros [st1 [p|]]; split; reflexivity.
    - destruct (ss_active st =? 0); [intros _; exact Nw|].
      destruct lv as [u|].
      + apply (CL u (fun r => let '(st1, r0) := r in match r0 with Some p => (st1, [(u, p)]) | None => (set_ph st1 w (WSteal None), []) end)).
        intros [st1 [p|]]; split; reflexivity.
      + destruct (nonempty c v && negb (Nat.eqb v w)); [|intros _; exact Nw].
        apply (CL v (fun r => let '(st1, r0) := r in match r0 with Some p => (set_ph st1 w (WSteal (Some v)), [(v, p)]) | None => (st1, []) end)).
        intros [st1 [p|]]; split; reflexivity.
    - intros _; exact Nw.
  Qed.

  Lemma run_nowrap sched : forall st, SInv st -> ss_nowrap st = true ->
    (forall j, Bj j + ss_cnt (fst (stripe_run c st sched)) j * step <= kmax (wide k)) ->
    ss_nowrap (fst (stripe_run c st sched)) = true.
  Proof.
    induction sched as [|ev r IH]; intros st I Nw Hb; cbn [stripe_run] in *; [exact Nw|].
    pose proof (step_spec st ev I) as S. pose proof (step_nowrap st ev I Nw) as SN.
    destruct (stripe_step c st ev) as [st1 cl]. destruct S as [I1 C1]. cbn [fst] in SN.
    pose proof (run_spec r st1 I1) as R. specialize (IH st1 I1).
    destruct (stripe_run c st1 r) as [st2 cls]. destruct R as [I2 (M2 & _)]. cbn [fst] in *.
    apply IH; [|exact Hb]. apply SN. intros j. specialize (Hb j). specialize (M2 j).
    destruct I1 as (A1 & _). specialize (A1 j). nia.
  Qed.

  (* a bound F on the failed claims per stripe and room for F + 1 steps above the range end exclude the wrap *)
  Lemma nowrap_of_budget sched F efull : 0 <= F ->
    (forall j, Ej j <= efull /\ Bj j <= efull) ->
    (forall j, stripe_excess c sched j <= F) ->
    efull + (F + 1) * step <= kmax (wide k) + 1 ->
    stripe_nowrap c sched = true.
  Proof.
    intros HF Hb Hex Hroom. unfold stripe_nowrap. apply run_nowrap; [apply SInv_init | reflexivity|].
    intros j. specialize (Hex j). unfold stripe_excess in Hex. fold (Bj j) (Ej j) (nj j) in Hex.
    destruct (Hb j) as [H1 H2].
    destruct (nclaims_spec (Bj j) (Ej j) step Hstep) as [N0 N1]. fold (nj j) in N0, N1.
    set (cnt := ss_cnt (fst (stripe_run c (stripe_init c) sched)) j) in *.
    assert (T : Bj j + nj j * step < efull + step).
    { destruct (Z.eq_dec (nj j) 0) as [Z0|NZ]; [rewrite Z0; lia|].
      assert (A : Bj j + (nj j - 1) * step < Ej j) by (apply N1; lia). nia. }
    nia.
  Qed.
End StripeRun.
