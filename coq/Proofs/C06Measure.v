(* C06, part 1: the measure [mu] of Model/NestedWaitModel.v strictly decreases on every step that changes the state
   (only the spin of a set-waiter that found nothing leaves the state unchanged), and an agent whose status is Progress
   has such a step for every oracle choice. *)
From Coq Require Import ZArith List Bool Arith Lia.
From DV Require Import Base.Sched Model.NestedWaitModel.
Import ListNotations.

(* ---------- lists ---------- *)
Lemma set_nth_length {A} (l : list A) n x : length (set_nth l n x) = length l.
Proof. revert n; induction l as [|y r IH]; intros [|n]; cbn; auto. Qed.

Lemma nth_set_nth_same {A} (l : list A) n x d : n < length l -> nth n (set_nth l n x) d = x.
Proof. revert n; induction l as [|y r IH]; intros [|n] H; cbn in *; try lia; auto. apply IH; lia. Qed.

Lemma nth_set_nth_other {A} (l : list A) n m x d : n <> m -> nth m (set_nth l n x) d = nth m l d.
Proof. revert n m; induction l as [|y r IH]; intros [|n] [|m] H; cbn; auto; try lia. Qed.

Lemma list_sum_cons a l : list_sum (a :: l) = a + list_sum l.
Proof. reflexivity. Qed.

Lemma sum_set_nth {A} (f : A -> nat) (l : list A) n x d : n < length l ->
  list_sum (map f (set_nth l n x)) + f (nth n l d) = list_sum (map f l) + f x.
Proof.
  revert n; induction l as [|y r IH]; intros [|n] H; cbn [set_nth map nth length] in *; rewrite ?list_sum_cons; try lia.
  specialize (IH n ltac:(lia)). lia.
Qed.

Lemma sum_remove_nth {A} (f : A -> nat) (l : list A) n d : n < length l ->
  list_sum (map f (remove_nth l n)) + f (nth n l d) = list_sum (map f l).
Proof.
  revert n; induction l as [|y r IH]; intros [|n] H; cbn [remove_nth map nth length] in *; rewrite ?list_sum_cons; try lia.
  specialize (IH n ltac:(lia)). lia.
Qed.

Lemma sum_filter_le {A} (f : A -> nat) (p : A -> bool) (l : list A) : list_sum (map f (filter p l)) <= list_sum (map f l).
Proof. induction l as [|y r IH]; cbn [filter map]; [lia|]. destruct (p y); cbn [map]; rewrite ?list_sum_cons; lia. Qed.

Lemma sum_filter_drop {A} (f : A -> nat) (p : A -> bool) (l : list A) y :
  In y l -> p y = false -> list_sum (map f (filter p l)) + f y <= list_sum (map f l).
Proof.
  induction l as [|z r IH]; cbn [filter map In]; [tauto|]. intros [->|Hin] Hp.
  - rewrite Hp. pose proof (sum_filter_le f p r). rewrite list_sum_cons. lia.
  - specialize (IH Hin Hp). destruct (p z); cbn [map]; rewrite ?list_sum_cons; lia.
Qed.

Lemma sum_map_ext_in {A} (f g : A -> nat) (l : list A) : (forall x, In x l -> f x = g x) -> list_sum (map f l) = list_sum (map g l).
Proof. intros H. induction l as [|y r IH]; cbn [map]; [reflexivity|]. rewrite !list_sum_cons. rewrite H by (left; reflexivity). rewrite IH; [reflexivity|]. intros; apply H; right; assumption. Qed.

Lemma list_sum_app_map {A} (f : A -> nat) (l1 l2 : list A) : list_sum (map f (l1 ++ l2)) = list_sum (map f l1) + list_sum (map f l2).
Proof. rewrite map_app, list_sum_app. reflexivity. Qed.

Lemma remove_nth_in {A} (l : list A) n x : In x (remove_nth l n) -> In x l.
Proof. revert n; induction l as [|y r IH]; intros [|n]; cbn; auto. intros [->|H]; [left; reflexivity | right; eapply IH; exact H]. Qed.

Lemma mod_lt_len (c n : nat) : 0 < n -> Nat.modulo c n < n.
Proof. intros H. apply Nat.mod_upper_bound. lia. Qed.

(* ---------- the task bodies never change ---------- *)
Definition tiers_in_range (s : state) : Prop := forall t, In t (cq s ++ steal s) -> t < length (tasks s).

Lemma body_with_tstate s t x u : t_body (task_of (with_tstate s t x) u) = t_body (task_of s u).
Proof.
  unfold task_of, with_tstate. cbn [tasks]. destruct (Nat.eq_dec t u) as [->|Hne].
  - destruct (Nat.lt_ge_cases u (length (tasks s))) as [Hl|Hl].
    + rewrite nth_set_nth_same by exact Hl. reflexivity.
    + rewrite !nth_overflow; [reflexivity | exact Hl | rewrite set_nth_length; exact Hl].
  - rewrite nth_set_nth_other by exact Hne. reflexivity.
Qed.

Lemma wqueued_ext s s' l : (forall t, In t l -> t_body (task_of s' t) = t_body (task_of s t)) -> wqueued s' l = wqueued s l.
Proof. intros H. unfold wqueued. apply sum_map_ext_in. intros t Ht. rewrite H by exact Ht. reflexivity. Qed.

Lemma wqueued_app s l1 l2 : wqueued s (l1 ++ l2) = wqueued s l1 + wqueued s l2.
Proof. unfold wqueued. apply list_sum_app_map. Qed.

(* mu as a function of the components *)
Definition mu_parts (ts : list trec) (ags : list agent) (c st : list nat) : nat :=
  list_sum (map wagent ags) + list_sum (map (fun t => 1 + wbody (t_body (nth t ts dtask))) c)
  + list_sum (map (fun t => 1 + wbody (t_body (nth t ts dtask))) st).
Lemma mu_eq s : mu s = mu_parts (tasks s) (agents s) (cq s) (steal s).
Proof. reflexivity. Qed.

Lemma wagent_push g x : wagent (AG (x :: stack g) (parked g) (worker g)) = wagent g + wact x.
Proof. unfold wagent. cbn [stack parked worker map]. rewrite list_sum_cons. lia. Qed.

(* ---------- mu under the state updates ---------- *)
Lemma agent_of_with_agent_same s a g : a < length (agents s) -> agent_of (with_agent s a g) a = g.
Proof. intros H. unfold agent_of, with_agent. cbn [agents]. apply nth_set_nth_same. exact H. Qed.

Lemma mu_with_agent s a g : a < length (agents s) -> mu (with_agent s a g) + wagent (agent_of s a) = mu s + wagent g.
Proof.
  intros H. unfold mu, with_agent, wqueued, task_of, agent_of. cbn [agents cq steal tasks].
  pose proof (sum_set_nth wagent (agents s) a g dagent H). lia.
Qed.

Lemma mu_with_stack s a st : a < length (agents s) ->
  mu (with_stack s a st) + list_sum (map wact (stack (agent_of s a))) = mu s + list_sum (map wact st).
Proof.
  intros H. unfold with_stack. pose proof (mu_with_agent s a (AG st (parked (agent_of s a)) (worker (agent_of s a))) H) as E.
  unfold wagent in E. cbn [stack parked worker] in E. unfold wagent. lia.
Qed.

Lemma mu_with_tstate s t x : mu (with_tstate s t x) = mu s.
Proof.
  unfold mu. cbn [agents with_tstate cq steal].
  rewrite (wqueued_ext s (with_tstate s t x) (cq s)) by (intros; apply body_with_tstate).
  rewrite (wqueued_ext s (with_tstate s t x) (steal s)) by (intros; apply body_with_tstate). reflexivity.
Qed.

Lemma mu_tick s : mu (tick s) = mu s.
Proof. reflexivity. Qed.

Lemma body_tick_tstate s t x u : t_body (task_of (tick (with_tstate s t x)) u) = t_body (task_of s u).
Proof. exact (body_with_tstate s t x u). Qed.

Lemma mu_start_task s a below t : a < length (agents s) ->
  mu (start_task s a below t) + list_sum (map wact (stack (agent_of s a))) = mu s + wbody (t_body (task_of s t)) + list_sum (map wact below).
Proof.
  intros H. unfold start_task. cbv zeta.
  pose proof (mu_with_stack (tick (with_tstate s t TActive)) a
                (ACT t (t_body (task_of s t)) [] (t_cap (task_of s t)) MRun (clock (tick (with_tstate s t TActive))) :: below) H) as E.
  change (agent_of (tick (with_tstate s t TActive)) a) with (agent_of s a) in E.
  rewrite mu_tick, mu_with_tstate in E.
  cbn [map] in E. rewrite list_sum_cons in E.
  change (wact (ACT t (t_body (task_of s t)) [] (t_cap (task_of s t)) MRun (clock (tick (with_tstate s t TActive)))))
    with (wbody (t_body (task_of s t)) + 0) in E.
  lia.
Qed.

Lemma mu_with_queues s c st : mu (with_queues s c st) + wqueued s (cq s) + wqueued s (steal s) = mu s + wqueued s c + wqueued s st.
Proof. unfold mu, with_queues, wqueued, task_of. cbn [agents cq steal tasks]. lia. Qed.

Lemma mu_remove_cq s i : i < length (cq s) ->
  mu (with_queues s (remove_nth (cq s) i) (steal s)) + 1 + wbody (t_body (task_of s (nth i (cq s) 0))) = mu s.
Proof.
  intros H. pose proof (mu_with_queues s (remove_nth (cq s) i) (steal s)) as E.
  unfold wqueued in E at 3.
  pose proof (sum_remove_nth (fun t => 1 + wbody (t_body (task_of s t))) (cq s) i 0 H) as R. unfold wqueued in *. lia.
Qed.

Lemma mu_take_at s i : i < length (cq s ++ steal s) ->
  mu (take_at s i) + 1 + wbody (t_body (task_of s (nth i (cq s ++ steal s) 0))) = mu s.
Proof.
  intros H. unfold take_at. destruct (i <? length (cq s)) eqn:E.
  - apply Nat.ltb_lt in E. rewrite app_nth1 by exact E. apply mu_remove_cq. exact E.
  - apply Nat.ltb_ge in E. rewrite app_nth2 by exact E. rewrite app_length in H.
    pose proof (mu_with_queues s (cq s) (remove_nth (steal s) (i - length (cq s)))) as Q.
    pose proof (sum_remove_nth (fun t => 1 + wbody (t_body (task_of s t))) (steal s) (i - length (cq s)) 0 ltac:(lia)) as R.
    unfold wqueued in *. lia.
Qed.

Lemma task_of_queues s c st t : task_of (with_queues s c st) t = task_of s t.
Proof. reflexivity. Qed.

Lemma mu_filter_task s t : In t (cq s ++ steal s) ->
  mu (with_queues s (filter (neqb t) (cq s)) (filter (neqb t) (steal s))) + 1 + wbody (t_body (task_of s t)) <= mu s.
Proof.
  intros Hin. pose proof (mu_with_queues s (filter (neqb t) (cq s)) (filter (neqb t) (steal s))) as E.
  assert (Hp : neqb t t = false) by (unfold neqb; rewrite Nat.eqb_refl; reflexivity).
  apply in_app_or in Hin. unfold wqueued in *. destruct Hin as [Hin|Hin].
  - pose proof (sum_filter_drop (fun u => 1 + wbody (t_body (task_of s u))) (neqb t) (cq s) t Hin Hp).
    pose proof (sum_filter_le (fun u => 1 + wbody (t_body (task_of s u))) (neqb t) (steal s)). cbv beta in *. lia.
  - pose proof (sum_filter_drop (fun u => 1 + wbody (t_body (task_of s u))) (neqb t) (steal s) t Hin Hp).
    pose proof (sum_filter_le (fun u => 1 + wbody (t_body (task_of s u))) (neqb t) (cq s)). cbv beta in *. lia.
Qed.

Lemma wbody_cons o r : wbody (o :: r) = cost o + wbody r.
Proof. unfold wbody. cbn [map]. rewrite list_sum_cons. lia. Qed.

Lemma wact_set_top x ops m : wact (set_top x ops m) = wbody ops + match m with MRun => 0 | _ => 1 end.
Proof. reflexivity. Qed.

Lemma existsb_eqb_in t l : existsb (Nat.eqb t) l = true -> In t l.
Proof. intros H. apply existsb_exists in H. destruct H as (u & Hu & E). apply Nat.eqb_eq in E. subst. exact Hu. Qed.

(* ---------- spawn ---------- *)
Lemma task_of_extend ts js c st ags clk nw t s : tasks s = ts -> t < length ts ->
  task_of (ST (ts ++ [nw]) js c st ags clk) t = task_of s t.
Proof. intros <- H. unfold task_of. cbn [tasks]. rewrite app_nth1 by exact H. reflexivity. Qed.

Lemma wqueued_extend s js c st ags clk nw l : (forall t, In t l -> t < length (tasks s)) ->
  wqueued (ST (tasks s ++ [nw]) js c st ags clk) l = wqueued s l.
Proof.
  intros H. apply wqueued_ext. intros t Ht. rewrite (task_of_extend (tasks s) js c st ags clk nw t s eq_refl (H t Ht)). reflexivity.
Qed.

Lemma wqueued_new s js c st ags clk nw :
  wqueued (ST (tasks s ++ [nw]) js c st ags clk) [length (tasks s)] = 1 + wbody (t_body nw).
Proof.
  unfold wqueued, task_of. cbn [tasks map]. rewrite app_nth2 by lia. rewrite Nat.sub_diag. cbn [nth]. rewrite list_sum_cons. cbn. lia.
Qed.

Lemma first_parked_lt l : forall i w, first_parked l i = Some w -> i <= w < i + length l.
Proof.
  induction l as [|g r IH]; intros i w H; cbn in H; [discriminate|].
  destruct (worker g && parked g).
  - inversion H; subst. cbn. lia.
  - apply IH in H. cbn. lia.
Qed.

Lemma wagent_unpark g : wagent (AG (stack g) false true) <= wagent g + 1.
Proof. unfold wagent. cbn [stack worker parked]. destruct (worker g && negb (parked g)); cbn; lia. Qed.

Lemma mu_spawn s a x below r j k body c :
  a < length (agents s) -> tiers_in_range s -> stack (agent_of s a) = x :: below ->
  a_ops x = OSpawn j k body :: r -> a_mode x = MRun ->
  mu (spawn s a x r below j k body c) < mu s.
Proof.
  intros Ha Ht Hst Hops Hmode. unfold spawn.
  set (t := length (tasks s)).
  set (reuse := match assoc j (a_own x) with Some gj => if is_set k && is_set (j_kind (join_of s gj)) then Some gj else None | None => None end).
  set (gj := match reuse with Some g0 => g0 | None => length (joins s) end).
  set (js := match reuse with Some _ => joins s | None => joins s ++ [JR k t (a_start x)] end).
  set (own' := match reuse with Some _ => a_own x | None => (j, gj) :: a_own x end).
  set (cap' := filter (fun nv => negb (Nat.eqb (fst nv) j)) (a_own x) ++ a_cap x).
  set (x' := ACT (a_task x) r own' (a_cap x) MRun (a_start x)).
  assert (Wx : wact x = 3 + wbody body + wbody r).
  { unfold wact. rewrite Hops, Hmode, wbody_cons. cbn [cost]. unfold wbody. lia. }
  assert (Wx' : wact x' = wbody r) by (unfold wact, x'; cbn [a_ops a_mode]; lia).
  assert (Hcq : forall u, In u (cq s) -> u < length (tasks s)) by (intros u Hu; apply Ht; apply in_or_app; left; exact Hu).
  assert (Hsl : forall u, In u (steal s) -> u < length (tasks s)) by (intros u Hu; apply Ht; apply in_or_app; right; exact Hu).
  assert (Sum : list_sum (map wact (stack (agent_of s a))) = wact x + list_sum (map wact below)).
  { rewrite Hst. cbn [map]. apply list_sum_cons. }
  destruct (Nat.modulo c 3) as [|[|[|m]]] eqn:Ec.
  - (* inline *)
    set (s1 := ST (tasks s ++ [TR body cap' gj TActive]) js (cq s) (steal s) (agents s) (S (clock s))).
    pose proof (mu_with_stack s1 a (ACT t body [] cap' MRun (clock s1) :: x' :: below) Ha) as E.
    change (agent_of s1 a) with (agent_of s a) in E. rewrite Sum in E.
    assert (M1 : mu s1 = mu s).
    { unfold mu, s1. cbn [agents cq steal]. rewrite (wqueued_extend s _ _ _ _ _ _ (cq s)) by assumption. rewrite (wqueued_extend s _ _ _ _ _ _ (steal s)) by assumption. reflexivity. }
    cbn [map] in E. rewrite !list_sum_cons in E. rewrite Wx' in E.
    change (wact (ACT t body [] cap' MRun (clock s1))) with (wbody body + 0) in E.
    destruct (first_parked (agents s) 0); lia.
  - (* central queue *)
    set (s1 := ST (tasks s ++ [TR body cap' gj TQueued]) js (cq s ++ [t]) (steal s) (agents s) (clock s)).
    pose proof (mu_with_stack s1 a (x' :: below) Ha) as E.
    change (agent_of s1 a) with (agent_of s a) in E. rewrite Sum in E.
    assert (M1 : mu s1 = mu s + 1 + wbody body).
    { unfold mu, s1. cbn [agents cq steal]. rewrite wqueued_app. rewrite (wqueued_extend s _ _ _ _ _ _ (cq s)) by assumption. rewrite (wqueued_extend s _ _ _ _ _ _ (steal s)) by assumption. unfold t. rewrite wqueued_new. cbn [t_body]. lia. }
    cbn [map] in E. rewrite !list_sum_cons in E. rewrite Wx' in E.
    destruct (first_parked (agents s) 0); lia.
  - (* steal ring when a sleeper exists, else central queue *)
    destruct (first_parked (agents s) 0) as [w|] eqn:Ep.
    + set (s1 := ST (tasks s ++ [TR body cap' gj TQueued]) js (cq s) (steal s ++ [t]) (agents s) (clock s)).
      set (s2 := with_stack s1 a (x' :: below)).
      pose proof (mu_with_stack s1 a (x' :: below) Ha) as E.
      change (agent_of s1 a) with (agent_of s a) in E. rewrite Sum in E.
      assert (M1 : mu s1 = mu s + 1 + wbody body).
      { unfold mu, s1. cbn [agents cq steal]. rewrite wqueued_app. rewrite (wqueued_extend s _ _ _ _ _ _ (cq s)) by assumption. rewrite (wqueued_extend s _ _ _ _ _ _ (steal s)) by assumption. unfold t. rewrite wqueued_new. cbn [t_body]. lia. }
      cbn [map] in E. rewrite !list_sum_cons in E. rewrite Wx' in E.
      apply first_parked_lt in Ep.
      assert (Hw : w < length (agents s2)) by (unfold s2, with_stack, with_agent; cbn [agents]; rewrite set_nth_length; cbn [agents s1]; lia).
      pose proof (mu_with_agent s2 w (AG (stack (agent_of s2 w)) false true) Hw) as E2.
      pose proof (wagent_unpark (agent_of s2 w)). fold s2 in E. lia.
    + set (s1 := ST (tasks s ++ [TR body cap' gj TQueued]) js (cq s ++ [t]) (steal s) (agents s) (clock s)).
      pose proof (mu_with_stack s1 a (x' :: below) Ha) as E.
      change (agent_of s1 a) with (agent_of s a) in E. rewrite Sum in E.
      assert (M1 : mu s1 = mu s + 1 + wbody body).
      { unfold mu, s1. cbn [agents cq steal]. rewrite wqueued_app. rewrite (wqueued_extend s _ _ _ _ _ _ (cq s)) by assumption. rewrite (wqueued_extend s _ _ _ _ _ _ (steal s)) by assumption. unfold t. rewrite wqueued_new. cbn [t_body]. lia. }
      cbn [map] in E. rewrite !list_sum_cons in E. rewrite Wx' in E. lia.
  - exfalso. pose proof (Nat.mod_upper_bound c 3 ltac:(lia)). lia.
Qed.

(* ---------- classification of the steps ---------- *)
Lemma stack_sum s a x below : stack (agent_of s a) = x :: below ->
  list_sum (map wact (stack (agent_of s a))) = wact x + list_sum (map wact below).
Proof. intros ->. cbn [map]. apply list_sum_cons. Qed.

Lemma mu_replace_top s a x below x' : a < length (agents s) -> stack (agent_of s a) = x :: below -> wact x' < wact x ->
  mu (with_stack s a (x' :: below)) < mu s.
Proof.
  intros Ha Hst Hw. pose proof (mu_with_stack s a (x' :: below) Ha) as E. rewrite (stack_sum s a x below Hst) in E.
  cbn [map] in E. rewrite list_sum_cons in E. lia.
Qed.

Lemma mu_wait_join s a x below r gj o : a < length (agents s) -> stack (agent_of s a) = x :: below ->
  a_ops x = o :: r -> cost o = 2 -> a_mode x = MRun -> mu (wait_join s a x r below gj) < mu s.
Proof.
  intros Ha Hst Hops Hc Hm. unfold wait_join.
  assert (Wx : wact x = 2 + wbody r) by (unfold wact; rewrite Hops, Hm, wbody_cons; lia).
  destruct (j_kind (join_of s gj)).
  - apply (mu_replace_top s a x below _ Ha Hst). rewrite wact_set_top. lia.
  - destruct (fut_state s gj).
    + unfold untimed_wait_inline. cbn [andb]. destruct (existsb (Nat.eqb (j_ftask (join_of s gj))) (cq s ++ steal s)) eqn:Ex.
      * apply existsb_eqb_in in Ex. set (t := j_ftask (join_of s gj)) in *.
        pose proof (mu_filter_task s t Ex) as F.
        set (s1 := with_queues s (filter (neqb t) (cq s)) (filter (neqb t) (steal s))) in *.
        pose proof (mu_start_task s1 a (set_top x r MRun :: below) t Ha) as E.
        change (agent_of s1 a) with (agent_of s a) in E. change (task_of s1 t) with (task_of s t) in E.
        rewrite (stack_sum s a x below Hst) in E. cbn [map] in E. rewrite list_sum_cons, wact_set_top in E. lia.
      * apply (mu_replace_top s a x below _ Ha Hst). rewrite wact_set_top. lia.
    + apply (mu_replace_top s a x below _ Ha Hst). rewrite wact_set_top. lia.
    + apply (mu_replace_top s a x below _ Ha Hst). rewrite wact_set_top. lia.
Qed.

Lemma step_classify s a ch : tiers_in_range s ->
  match status_of s a with
  | Blocked => step s a ch = None
  | Spin => exists ch' site, step s a ch = Some (s, ch', site)
  | Progress => exists s' ch' site, step s a ch = Some (s', ch', site) /\ mu s' < mu s
  end.
Proof.
  intros Ht. unfold status_of, step.
  destruct (length (agents s) <=? a) eqn:El; [reflexivity|]. apply Nat.leb_gt in El.
  destruct (stack (agent_of s a)) as [|x below] eqn:Hst.
  - destruct (negb (worker (agent_of s a)) || parked (agent_of s a)) eqn:Eb; [reflexivity|].
    apply orb_false_elim in Eb. destruct Eb as [Ew Ep]. apply negb_false_iff in Ew.
    destruct (cq s ++ steal s) as [|t0 pool'] eqn:Epool.
    + eexists _, _, _. split; [reflexivity|].
      pose proof (mu_with_agent s a (AG [] true true) El) as E.
      assert (W1 : wagent (agent_of s a) = 1) by (unfold wagent; rewrite Hst, Ew, Ep; reflexivity).
      assert (W2 : wagent (AG [] true true) = 0) by reflexivity.
      lia.
    + destruct (choice ch) as [c ch'] eqn:Ec.
      set (i := Nat.modulo c (length (t0 :: pool'))).
      assert (Hi : i < length (cq s ++ steal s)) by (rewrite Epool; apply mod_lt_len; cbn; lia).
      eexists _, _, _. split; [reflexivity|].
      pose proof (mu_take_at s i Hi) as T. rewrite Epool in T.
      pose proof (mu_start_task (take_at s i) a [] (nth i (t0 :: pool') 0)) as E.
      assert (Ha' : a < length (agents (take_at s i))) by (unfold take_at; destruct (i <? length (cq s)); exact El).
      specialize (E Ha').
      assert (Eag : agent_of (take_at s i) a = agent_of s a) by (unfold take_at; destruct (i <? length (cq s)); reflexivity).
      assert (Etk : forall u, task_of (take_at s i) u = task_of s u) by (intros u; unfold take_at; destruct (i <? length (cq s)); reflexivity).
      rewrite Eag, Hst, Etk in E. cbn [map list_sum] in E. cbn [map list_sum]. lia.
  - destruct (a_mode x) as [|gj|gj] eqn:Hm.
    + destruct (a_ops x) as [|o r] eqn:Hops.
      * (* finish *)
        eexists _, _, _. split; [reflexivity|].
        pose proof (mu_with_stack (with_tstate s (a_task x) TDone) a below El) as E.
        change (agent_of (with_tstate s (a_task x) TDone) a) with (agent_of s a) in E.
        rewrite mu_with_tstate, (stack_sum s a x below Hst) in E.
        assert (Wx : wact x = 1) by (unfold wact; rewrite Hops, Hm; reflexivity). lia.
      * destruct o as [|j k body|j|j].
        -- eexists _, _, _. split; [reflexivity|]. apply (mu_replace_top s a x below _ El Hst).
           rewrite wact_set_top. unfold wact. rewrite Hops, Hm, wbody_cons. cbn [cost]. lia.
        -- destruct (choice ch) as [c ch'] eqn:Ec. eexists _, _, _. split; [reflexivity|].
           apply mu_spawn; assumption.
        -- destruct (assoc j (a_own x)) as [g0|].
           ++ eexists _, _, _. split; [reflexivity|]. apply (mu_wait_join s a x below r g0 (OWait j)); auto.
           ++ eexists _, _, _. split; [reflexivity|]. apply (mu_replace_top s a x below _ El Hst).
              rewrite wact_set_top. unfold wact. rewrite Hops, Hm, wbody_cons. cbn [cost]. lia.
        -- destruct (assoc j (a_cap x)) as [g0|].
           ++ eexists _, _, _. split; [reflexivity|]. apply (mu_wait_join s a x below r g0 (OWaitUp j)); auto.
           ++ eexists _, _, _. split; [reflexivity|]. apply (mu_replace_top s a x below _ El Hst).
              rewrite wact_set_top. unfold wact. rewrite Hops, Hm, wbody_cons. cbn [cost]. lia.
    + destruct (set_done s gj).
      * eexists _, _, _. split; [reflexivity|]. apply (mu_replace_top s a x below _ El Hst).
        rewrite wact_set_top. unfold wact. rewrite Hm. lia.
      * destruct (cq s) as [|t0 pool'] eqn:Ecq.
        -- eexists _, _. reflexivity.
        -- destruct (choice ch) as [c ch'] eqn:Ec.
           set (i := Nat.modulo c (length (t0 :: pool'))).
           assert (Hi : i < length (cq s)) by (rewrite Ecq; apply mod_lt_len; cbn; lia).
           eexists _, _, _. split; [reflexivity|].
           pose proof (mu_remove_cq s i Hi) as T. rewrite Ecq in T.
           pose proof (mu_start_task (with_queues s (remove_nth (t0 :: pool') i) (steal s)) a (x :: below) (nth i (t0 :: pool') 0) El) as E.
           change (agent_of (with_queues s (remove_nth (t0 :: pool') i) (steal s)) a) with (agent_of s a) in E.
           rewrite task_of_queues in E. rewrite Hst in E. lia.
    + destruct (is_done (fut_state s gj)); [|reflexivity].
      eexists _, _, _. split; [reflexivity|]. apply (mu_replace_top s a x below _ El Hst).
      rewrite wact_set_top. unfold wact. rewrite Hm. lia.
Qed.

Corollary step_mu s a ch s' ch' site : tiers_in_range s -> step s a ch = Some (s', ch', site) -> s' = s \/ mu s' < mu s.
Proof.
  intros Ht H. pose proof (step_classify s a ch Ht) as C. destruct (status_of s a).
  - rewrite C in H. discriminate.
  - destruct C as (c1 & s1 & E). rewrite E in H. inversion H. left. reflexivity.
  - destruct C as (s1 & c1 & st1 & E & Hm). rewrite E in H. inversion H; subst. right. exact Hm.
Qed.

Corollary progress_step s a ch : tiers_in_range s -> status_of s a = Progress ->
  exists s' ch' site, step s a ch = Some (s', ch', site) /\ mu s' < mu s.
Proof. intros Ht H. pose proof (step_classify s a ch Ht) as C. rewrite H in C. exact C. Qed.

Corollary spin_step s a ch s' ch' site : tiers_in_range s -> status_of s a = Spin -> step s a ch = Some (s', ch', site) -> s' = s.
Proof.
  intros Ht H E. pose proof (step_classify s a ch Ht) as C. rewrite H in C. destruct C as (c1 & s1 & E1). rewrite E1 in E. inversion E. reflexivity.
Qed.

Corollary blocked_step s a ch : tiers_in_range s -> status_of s a = Blocked -> step s a ch = None.
Proof. intros Ht H. pose proof (step_classify s a ch Ht) as C. rewrite H in C. exact C. Qed.
