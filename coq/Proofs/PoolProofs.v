(* Shared lemmas for the thread-pool core model (Model/PoolModel.v): list access with padding, linear measures of a
   state and how the primitive state updates change them, inversion tactic for [accept]. *)
From Coq Require Import ZArith List Bool Lia.
From DV Require Import Model.PoolModel.
Import ListNotations.
Local Open Scope Z_scope.

(* ---------- sums over lists, lget / lset ---------- *)
Fixpoint sumf {A} (f : A -> Z) (l : list A) : Z := match l with [] => 0 | x :: r => f x + sumf f r end.

Lemma sumf_app {A} (f : A -> Z) l1 l2 : sumf f (l1 ++ l2) = sumf f l1 + sumf f l2.
Proof. induction l1 as [|x r IH]; cbn; [reflexivity | rewrite IH; lia]. Qed.

Lemma sumf_repeat0 {A} (f : A -> Z) d n : f d = 0 -> sumf f (repeat d n) = 0.
Proof. intros H. induction n as [|n IH]; cbn; [reflexivity | rewrite H, IH; reflexivity]. Qed.

Lemma sumf_lset {A} (f : A -> Z) d : f d = 0 -> forall i x l, sumf f (lset d i x l) = sumf f l - f (lget d i l) + f x.
Proof.
  intros Hd. unfold lget. induction i as [|i IH]; intros x l; destruct l as [|y r]; cbn.
  - lia.
  - lia.
  - rewrite IH. cbn. destruct i; cbn; lia.
  - rewrite IH. lia.
Qed.

Lemma sumf_nonneg {A} (f : A -> Z) l : (forall x, 0 <= f x) -> 0 <= sumf f l.
Proof. intros H. induction l as [|x r IH]; cbn; [lia | specialize (H x); lia]. Qed.

Lemma sumf_lget_le {A} (f : A -> Z) d l i : (forall x, 0 <= f x) -> f d = 0 -> f (lget d i l) <= sumf f l.
Proof.
  intros H Hd. unfold lget. revert i. induction l as [|x r IH]; intros i; destruct i; cbn; try lia.
  - pose proof (sumf_nonneg f r H). lia.
  - specialize (IH i). specialize (H x). lia.
Qed.

Lemma sumf_zero_all {A} (f : A -> Z) l : (forall x, 0 <= f x) -> sumf f l = 0 -> forall x, In x l -> f x = 0.
Proof.
  intros H. induction l as [|y r IH]; cbn; intros E x Hin; [contradiction|].
  pose proof (sumf_nonneg f r H). pose proof (H y).
  destruct Hin as [->|Hin]; [lia | apply IH; [lia | exact Hin]].
Qed.

Lemma lget_lset_same {A} (d : A) i x l : lget d i (lset d i x l) = x.
Proof. unfold lget. revert l. induction i as [|i IH]; intros l; destruct l; cbn; auto. Qed.

Lemma lget_lset_other {A} (d : A) i j x l : i <> j -> lget d j (lset d i x l) = lget d j l.
Proof.
  unfold lget. revert j l. induction i as [|i IH]; intros j l Hne; destruct l as [|y r]; destruct j as [|j]; cbn; try congruence; auto.
  - destruct j; reflexivity.
  - rewrite IH by congruence. destruct j; reflexivity.
Qed.

Lemma lset_length_ge {A} (d : A) i x l : (length l <= length (lset d i x l))%nat.
Proof.
  revert l. induction i as [|i IH]; intros l; destruct l as [|y r]; cbn; try lia.
  specialize (IH r). lia.
Qed.

Lemma lset_length_in {A} (d : A) i x l : (i < length l)%nat -> length (lset d i x l) = length l.
Proof. revert l. induction i as [|i IH]; intros l H; destruct l; cbn in *; try lia. rewrite IH by lia. reflexivity. Qed.

Lemma lget_In {A} (d : A) i l : (i < length l)%nat -> In (lget d i l) l.
Proof. unfold lget. intros. apply nth_In. assumption. Qed.

Lemma lget_beyond {A} (d : A) i l : (length l <= i)%nat -> lget d i l = d.
Proof. unfold lget. intros. apply nth_overflow. assumption. Qed.

(* ---------- counting ---------- *)
Definition cnt (t : id) (l : list id) : Z := Z.of_nat (count_occ Z.eq_dec l t).

Lemma cnt_nil t : cnt t [] = 0. Proof. reflexivity. Qed.
Lemma cnt_cons t x l : cnt t (x :: l) = (if x =? t then 1 else 0) + cnt t l.
Proof.
  unfold cnt. cbn. destruct (Z.eq_dec x t) as [->|Hn].
  - rewrite Z.eqb_refl. lia.
  - destruct (Z.eqb_spec x t); [contradiction | lia].
Qed.
Lemma cnt_app t l1 l2 : cnt t (l1 ++ l2) = cnt t l1 + cnt t l2.
Proof. unfold cnt. rewrite count_occ_app, Nat2Z.inj_add. reflexivity. Qed.
Lemma cnt_nonneg t l : 0 <= cnt t l. Proof. unfold cnt. lia. Qed.
Lemma cnt_firstn_skipn t n l : cnt t (firstn n l) + cnt t (skipn n l) = cnt t l.
Proof. rewrite <- cnt_app, firstn_skipn. reflexivity. Qed.
Lemma cnt_mem t l : mem t l = false <-> cnt t l = 0.
Proof.
  induction l as [|x r IH]; cbn [mem]; [rewrite cnt_nil; tauto|].
  rewrite cnt_cons. pose proof (cnt_nonneg t r). destruct (x =? t); cbn [orb]; cbv iota.
  - split; [discriminate | intros; exfalso; lia].
  - rewrite IH. split; lia.
Qed.
Lemma cnt_In t l : In t l <-> 1 <= cnt t l.
Proof.
  unfold cnt. rewrite (count_occ_In Z.eq_dec). lia.
Qed.
Lemma cnt_NoDup l : NoDup l <-> forall t, cnt t l <= 1.
Proof.
  rewrite (NoDup_count_occ Z.eq_dec). unfold cnt. split; intros H t; specialize (H t); lia.
Qed.
Lemma cnt_map_snd_app t (l1 l2 : list (Z * id)) : cnt t (map snd (l1 ++ l2)) = cnt t (map snd l1) + cnt t (map snd l2).
Proof. rewrite map_app, cnt_app. reflexivity. Qed.
Lemma cnt_map_pair t (k : Z) l : cnt t (map snd (map (fun x : id => (k, x)) l)) = cnt t l.
Proof. rewrite map_map. cbn. rewrite map_id. reflexivity. Qed.

Lemma take_central_cnt t : forall c seen c', take_central t c seen = Some c' ->
  forall x, cnt x (map snd c) = cnt x (map snd c') + (if t =? x then 1 else 0).
Proof.
  induction c as [|[k y] r IH]; cbn [take_central]; intros seen c' H x; [discriminate|].
  destruct ((y =? t) && negb (mem k seen)) eqn:E.
  - injection H as <-. apply andb_prop in E. destruct E as [E _]. apply Z.eqb_eq in E. subst y.
    cbn [map snd]. rewrite cnt_cons. lia.
  - destruct (take_central t r (k :: seen)) as [r'|] eqn:E2; [|discriminate]. injection H as <-.
    cbn [map snd]. rewrite !cnt_cons. rewrite (IH _ _ E2 x). lia.
Qed.

Lemma take_central_len t : forall c seen c', take_central t c seen = Some c' -> len c = len c' + 1.
Proof.
  unfold len. induction c as [|[k y] r IH]; cbn [take_central]; intros seen c' H; [discriminate|].
  destruct ((y =? t) && negb (mem k seen)).
  - injection H as <-. cbn [length]. lia.
  - destruct (take_central t r (k :: seen)) as [r'|] eqn:E2; [|discriminate]. injection H as <-.
    cbn [length]. specialize (IH _ _ E2). lia.
Qed.

Lemma len_app {A} (l1 l2 : list A) : len (l1 ++ l2) = len l1 + len l2.
Proof. unfold len. rewrite app_length. lia. Qed.
Lemma len_cons {A} (x : A) l : len (x :: l) = 1 + len l.
Proof. unfold len. cbn [length]. lia. Qed.
Lemma len_nil {A} : len (@nil A) = 0. Proof. reflexivity. Qed.
Lemma len_nonneg {A} (l : list A) : 0 <= len l. Proof. unfold len. lia. Qed.
Lemma len_map {A B} (f : A -> B) l : len (map f l) = len l.
Proof. unfold len. rewrite map_length. reflexivity. Qed.
Lemma len_firstn_skipn {A} n (l : list A) : len (firstn n l) + len (skipn n l) = len l.
Proof. rewrite <- len_app, firstn_skipn. reflexivity. Qed.
Lemma len_firstn {A} n (l : list A) : 0 <= n <= len l -> len (firstn (Z.to_nat n) l) = n.
Proof. unfold len. intros H. rewrite firstn_length. lia. Qed.
Lemma nilb_true {A} (l : list A) : nilb l = true <-> l = [].
Proof. destruct l; cbn; split; congruence. Qed.
Lemma nilb_false {A} (l : list A) : nilb l = false <-> l <> [].
Proof. destruct l; cbn; split; congruence. Qed.

(* ---------- linear measures of a state ---------- *)
Section Measure.
  Variable mc : list (Z * id) -> Z.
  Variables mr ms : list id -> Z.
  Variable mt : thread -> Z.
  Hypothesis mr0 : mr [] = 0.
  Hypothesis ms0 : ms [] = 0.
  Hypothesis mt0 : mt th0 = 0.

  Definition M (s : state) : Z := mc (central s) + sumf mr (rings s) + sumf ms (steals s) + sumf mt (threads s).

  Lemma M_setT s tid th : M (setT s tid th) = M s - mt (getT s tid) + mt th.
  Proof. unfold M, setT, getT. cbn. rewrite (sumf_lset mt th0 mt0). lia. Qed.
  Lemma M_set_ring s i q : M (set_rings s (lset [] i q (rings s))) = M s - mr (lget [] i (rings s)) + mr q.
  Proof. unfold M, set_rings. cbn. rewrite (sumf_lset mr [] mr0). lia. Qed.
  Lemma M_set_steal s i q : M (set_steals s (lset [] i q (steals s))) = M s - ms (lget [] i (steals s)) + ms q.
  Proof. unfold M, set_steals. cbn. rewrite (sumf_lset ms [] ms0). lia. Qed.
  Lemma M_pad_rings s n : M (set_rings s (rings s ++ repeat [] n)) = M s.
  Proof. unfold M, set_rings. cbn. rewrite sumf_app, (sumf_repeat0 mr [] n mr0). lia. Qed.
  Lemma M_pad_steals s n : M (set_steals s (steals s ++ repeat [] n)) = M s.
  Proof. unfold M, set_steals. cbn. rewrite sumf_app, (sumf_repeat0 ms [] n ms0). lia. Qed.
  Lemma M_set_central s c : M (set_central s c) = M s - mc (central s) + mc c.
  Proof. unfold M, set_central. cbn. lia. Qed.
  Lemma M_set_wr s v : M (set_wr s v) = M s. Proof. reflexivity. Qed.
  Lemma M_set_numThreads s v : M (set_numThreads s v) = M s. Proof. reflexivity. Qed.
  Lemma M_set_numRings s v : M (set_numRings s v) = M s. Proof. reflexivity. Qed.
  Lemma M_set_numSteal s v : M (set_numSteal s v) = M s. Proof. reflexivity. Qed.
  Lemma M_set_rz s v : M (set_rz s v) = M s. Proof. reflexivity. Qed.
  Lemma M_set_nworkers s v : M (set_nworkers s v) = M s. Proof. reflexivity. Qed.
  Lemma M_set_gens s v : M (set_gens s v) = M s. Proof. reflexivity. Qed.
  Lemma M_set_done s v : M (set_done s v) = M s. Proof. reflexivity. Qed.
End Measure.

(* projections through the setters (all by computation) *)
Ltac simp_proj :=
  cbn [central rings steals wr numThreads numRings numSteal threads rz nworkers gens done
       setT set_central set_rings set_steals set_wr set_numThreads set_numRings set_numSteal set_rz set_nworkers set_gens set_done
       trole pend held exec tpc pcstk lwd owed credit ringCount
       with_pend with_held with_exec with_pc with_pcstk with_lwd with_owed with_credit with_ringCount with_role] in *.

(* inversion of a successful [accept]: one subgoal per way the event can be enabled *)
Ltac inv_guards H :=
  repeat first
    [ match type of H with
      | guard ?b _ = Some _ => let G := fresh "G" in destruct b eqn:G; [cbn [guard] in H | discriminate H]
      | None = Some _ => discriminate H
      | Some _ = Some _ => injection H as H
      end
    | match type of H with
      | (if ?b then _ else _) = Some _ => let G := fresh "G" in destruct b eqn:G
      | match ?x with _ => _ end = Some _ => let G := fresh "G" in destruct x eqn:G; try discriminate H
      | (let '(_, _) := ?x in _) = Some _ => let G := fresh "G" in destruct x eqn:G
      end ].

Lemma getT_setT_same s tid th : getT (setT s tid th) tid = th.
Proof. unfold getT, setT. cbn. apply lget_lset_same. Qed.
Lemma getT_setT_other s tid th u : tid <> u -> getT (setT s tid th) u = getT s u.
Proof. unfold getT, setT. cbn. intros. apply lget_lset_other. assumption. Qed.

(* boolean guards -> propositions *)
Ltac bool_hyps :=
  repeat match goal with
  | H : _ && _ = true |- _ => apply andb_prop in H; destruct H
  | H : is_none ?x = true |- _ => destruct x eqn:?; [discriminate H|]; clear H
  | H : nilb ?x = true |- _ => apply nilb_true in H
  | H : nilb ?x = false |- _ => apply nilb_false in H
  | H : (_ =? _) = true |- _ => apply Z.eqb_eq in H
  | H : (_ =? _) = false |- _ => apply Z.eqb_neq in H
  | H : (_ <=? _) = true |- _ => apply Z.leb_le in H
  | H : (_ <=? _) = false |- _ => apply Z.leb_gt in H
  | H : (_ <? _) = true |- _ => apply Z.ltb_lt in H
  | H : (_ <? _) = false |- _ => apply Z.ltb_ge in H
  | H : negb _ = true |- _ => apply negb_true_iff in H
  | H : negb _ = false |- _ => apply negb_false_iff in H
  | H : Nat.eqb _ _ = true |- _ => apply Nat.eqb_eq in H
  | H : Nat.ltb _ _ = true |- _ => apply Nat.ltb_lt in H
  | H : Nat.ltb _ _ = false |- _ => apply Nat.ltb_ge in H
  | H : Nat.leb _ _ = true |- _ => apply Nat.leb_le in H
  | H : Nat.leb _ _ = false |- _ => apply Nat.leb_gt in H
  | H : Bool.eqb _ _ = true |- _ => apply Bool.eqb_prop in H
  end.
