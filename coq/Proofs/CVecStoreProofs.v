(* C32, part 2: the bucketed storage of ConcurrentVector behaves like one array indexed by 0,1,2,...:
   reads/writes through bucketAndSubIndex obey the array laws; allocation changes no cell. *)
From Coq Require Import ZArith List Bool Lia.
From DV Require Import Base.MachInt Base.Life Model.CVecModel Proofs.CVecBucketProofs.
Import ListNotations.
Local Open Scope Z_scope.

Ltac Zify.zify_post_hook ::= Z.div_mod_to_equations.

(* ------------------------------------------------------------------------------------------------ lists *)
Lemma length_list_upd {A} (l : list A) n x : length (list_upd l n x) = length l.
Proof. revert n; induction l as [|y r IH]; intros [|n]; simpl; auto. Qed.

Lemma nth_list_upd {A} (l : list A) n m x d :
  nth m (list_upd l n x) d = if (Nat.eqb n m && Nat.ltb n (length l))%bool then x else nth m l d.
Proof.
  revert n m; induction l as [|y r IH]; intros n m; simpl.
  - destruct n, m; simpl; try reflexivity; rewrite ?andb_false_r; reflexivity.
  - destruct n as [|n], m as [|m]; simpl; try reflexivity.
    rewrite IH. reflexivity.
Qed.

Lemma nth_repeat_raw n m : nth m (repeat raw n) raw = raw.
Proof. revert m; induction n; intros [|m]; simpl; auto. Qed.

(* ------------------------------------------------------------------------------------------------ buffers *)
Lemma get_buf_set_buf bs b x b' :
  get_buf (set_buf bs b x) b' =
  if (b =? b') && (0 <=? b) && (b <? Z.of_nat (length bs)) then x else get_buf bs b'.
Proof.
  unfold get_buf, set_buf.
  destruct (b <? 0) eqn:E1.
  - replace (0 <=? b) with false by lia. rewrite andb_false_r. reflexivity.
  - replace (0 <=? b) with true by lia. rewrite andb_true_r.
    destruct (b' <? 0) eqn:E2.
    + replace (b =? b') with false by lia. reflexivity.
    + rewrite nth_list_upd.
      destruct (b =? b') eqn:E3.
      * assert (b = b') by lia; subst b'. rewrite Nat.eqb_refl. simpl.
        destruct (b <? Z.of_nat (length bs)) eqn:E4.
        -- replace (Nat.ltb (Z.to_nat b) (length bs)) with true; [reflexivity|]. symmetry; apply Nat.ltb_lt; lia.
        -- replace (Nat.ltb (Z.to_nat b) (length bs)) with false; [reflexivity|]. symmetry; apply Nat.ltb_ge; lia.
      * replace (Nat.eqb (Z.to_nat b) (Z.to_nat b')) with false; [reflexivity|]. symmetry; apply Nat.eqb_neq; lia.
Qed.

Lemma length_set_buf bs b x : length (set_buf bs b x) = length bs.
Proof. unfold set_buf. destruct (b <? 0); [reflexivity | apply length_list_upd]. Qed.

Lemma get_buf_some_range bs b l : get_buf bs b = Some l -> 0 <= b < Z.of_nat (length bs).
Proof.
  unfold get_buf. destruct (b <? 0) eqn:E; [discriminate|]. intros H.
  destruct (Z_lt_ge_dec b (Z.of_nat (length bs))); [lia|].
  rewrite nth_overflow in H by lia. discriminate.
Qed.

Lemma is_alloc_set_buf bs b x b' :
  is_alloc (set_buf bs b x) b' =
  if (b =? b') && (0 <=? b) && (b <? Z.of_nat (length bs)) then (match x with Some _ => true | None => false end) else is_alloc bs b'.
Proof. unfold is_alloc. rewrite get_buf_set_buf. destruct ((b =? b') && (0 <=? b) && (b <? Z.of_nat (length bs))); reflexivity. Qed.

(* ------------------------------------------------------------------------------------------------ well-formed storage *)
Definition wfv (v : cvec) : Prop :=
  0 <= v_shift v /\
  forall b l, get_buf (v_bufs v) b = Some l -> Z.of_nat (length l) = bucket_cap (v_shift v) b.

Lemma valid_idx_alloc v i : wfv v -> 0 <= i -> valid_idx v i = is_alloc (v_bufs v) (bkt (v_shift v) i).
Proof.
  intros [Hs W] Hi. unfold valid_idx, valid_bs, is_alloc. rewrite bsi_eta.
  replace (0 <=? i) with true by lia. simpl.
  pose proof (bsi_facts (v_shift v) i Hs Hi) as (B & S & C & E).
  destruct (get_buf (v_bufs v) (bkt (v_shift v) i)) as [l|] eqn:G; [|reflexivity].
  rewrite (W _ _ G). lia.
Qed.

Lemma get_cell_invalid v i : wfv v -> 0 <= i -> valid_idx v i = false -> get_cell v i = raw.
Proof.
  intros W Hi H. rewrite valid_idx_alloc in H by assumption. unfold is_alloc in H.
  unfold get_cell, get_bs. rewrite bsi_eta. destruct (get_buf (v_bufs v) (bkt (v_shift v) i)); [discriminate | reflexivity].
Qed.

(* ---- bucket-addressed laws *)
Lemma set_bs_shift v b j c : v_shift (set_bs v b j c) = v_shift v.
Proof. unfold set_bs. destruct (get_buf (v_bufs v) b); [destruct ((0 <=? j) && _)|]; reflexivity. Qed.
Lemma set_bs_size v b j c : v_size (set_bs v b j c) = v_size v.
Proof. unfold set_bs. destruct (get_buf (v_bufs v) b); [destruct ((0 <=? j) && _)|]; reflexivity. Qed.
Lemma set_bs_nbufs v b j c : length (v_bufs (set_bs v b j c)) = length (v_bufs v).
Proof. unfold set_bs. destruct (get_buf (v_bufs v) b); [destruct ((0 <=? j) && _)|]; simpl; rewrite ?length_set_buf; reflexivity. Qed.

Lemma get_buf_set_bs v b j c b' :
  get_buf (v_bufs (set_bs v b j c)) b' =
  match get_buf (v_bufs v) b with
  | Some l => if (0 <=? j) && (j <? Z.of_nat (length l)) && (b =? b') then Some (list_upd l (Z.to_nat j) c) else get_buf (v_bufs v) b'
  | None => get_buf (v_bufs v) b'
  end.
Proof.
  unfold set_bs. destruct (get_buf (v_bufs v) b) as [l|] eqn:G; [|reflexivity].
  destruct ((0 <=? j) && (j <? Z.of_nat (length l))) eqn:E; simpl; [|reflexivity].
  rewrite get_buf_set_buf. pose proof (get_buf_some_range _ _ _ G) as R.
  destruct (b =? b') eqn:E2; simpl; [|reflexivity].
  replace (0 <=? b) with true by lia. replace (b <? Z.of_nat (length (v_bufs v))) with true by lia. reflexivity.
Qed.

Lemma is_alloc_set_bs v b j c b' : is_alloc (v_bufs (set_bs v b j c)) b' = is_alloc (v_bufs v) b'.
Proof.
  unfold is_alloc. rewrite get_buf_set_bs. destruct (get_buf (v_bufs v) b) as [l|] eqn:G; [|reflexivity].
  destruct ((0 <=? j) && (j <? Z.of_nat (length l)) && (b =? b')) eqn:E; [|reflexivity].
  assert (b = b') by lia; subst b'. rewrite G. reflexivity.
Qed.

Lemma wfv_set_bs v b j c : wfv v -> wfv (set_bs v b j c).
Proof.
  intros [Hs W]. split; [rewrite set_bs_shift; exact Hs|].
  intros b' l'. rewrite set_bs_shift, get_buf_set_bs.
  destruct (get_buf (v_bufs v) b) as [l|] eqn:G; [|apply W].
  destruct ((0 <=? j) && (j <? Z.of_nat (length l)) && (b =? b')) eqn:E; [|apply W].
  intros H; inversion H; subst l'. assert (b = b') by lia; subst b'. rewrite length_list_upd. apply (W _ _ G).
Qed.

Lemma valid_bs_set_bs v b j c b' j' : valid_bs (set_bs v b j c) b' j' = valid_bs v b' j'.
Proof.
  unfold valid_bs. rewrite get_buf_set_bs. destruct (get_buf (v_bufs v) b) as [l|] eqn:G; [|reflexivity].
  destruct ((0 <=? j) && (j <? Z.of_nat (length l)) && (b =? b')) eqn:E; [|reflexivity].
  assert (b = b') by lia; subst b'. rewrite G, length_list_upd. reflexivity.
Qed.

Lemma get_bs_set_bs v b j c b' j' : 0 <= j' ->
  get_bs (set_bs v b j c) b' j' = if valid_bs v b j && (b =? b') && (j =? j') then c else get_bs v b' j'.
Proof.
  intros Hj'. unfold get_bs, valid_bs. rewrite get_buf_set_bs.
  destruct (get_buf (v_bufs v) b) as [l|] eqn:G; [|reflexivity].
  destruct ((0 <=? j) && (j <? Z.of_nat (length l))) eqn:E; simpl; [|reflexivity].
  destruct (b =? b') eqn:E2; simpl; [|reflexivity].
  assert (b = b') by lia; subst b'. rewrite G.
  replace (0 <=? j') with true by lia. rewrite nth_list_upd.
  destruct (j =? j') eqn:E3.
  - assert (j = j') by lia; subst j'. rewrite Nat.eqb_refl. simpl.
    replace (Nat.ltb (Z.to_nat j) (length l)) with true; [reflexivity|]. symmetry; apply Nat.ltb_lt; lia.
  - replace (Nat.eqb (Z.to_nat j) (Z.to_nat j')) with false; [reflexivity|]. symmetry; apply Nat.eqb_neq; lia.
Qed.

(* ---- index-addressed laws *)
Lemma set_cell_shift v i c : v_shift (set_cell v i c) = v_shift v.
Proof. unfold set_cell. rewrite bsi_eta. apply set_bs_shift. Qed.
Lemma set_cell_size v i c : v_size (set_cell v i c) = v_size v.
Proof. unfold set_cell. rewrite bsi_eta. apply set_bs_size. Qed.
Lemma set_cell_nbufs v i c : length (v_bufs (set_cell v i c)) = length (v_bufs v).
Proof. unfold set_cell. rewrite bsi_eta. apply set_bs_nbufs. Qed.
Lemma is_alloc_set_cell v i c b : is_alloc (v_bufs (set_cell v i c)) b = is_alloc (v_bufs v) b.
Proof. unfold set_cell. rewrite bsi_eta. apply is_alloc_set_bs. Qed.
Lemma wfv_set_cell v i c : wfv v -> wfv (set_cell v i c).
Proof. unfold set_cell. rewrite bsi_eta. apply wfv_set_bs. Qed.
Lemma valid_idx_set_cell v i c j : valid_idx (set_cell v i c) j = valid_idx v j.
Proof.
  unfold valid_idx. rewrite set_cell_shift. destruct (bsi (v_shift v) j) as [[b' j'] c'].
  unfold set_cell. rewrite bsi_eta. rewrite valid_bs_set_bs. reflexivity.
Qed.

Lemma get_set_cell v i c j : wfv v -> 0 <= i -> 0 <= j -> valid_idx v i = true ->
  get_cell (set_cell v i c) j = if i =? j then c else get_cell v j.
Proof.
  intros W Hi Hj V. destruct W as [Hs W].
  unfold get_cell. rewrite set_cell_shift. unfold set_cell. rewrite !bsi_eta.
  pose proof (bsi_facts (v_shift v) j Hs Hj) as (Bj & Sj & Cj & Ej).
  rewrite get_bs_set_bs by lia.
  assert (Vb : valid_bs v (bkt (v_shift v) i) (sub (v_shift v) i) = true).
  { unfold valid_idx in V. rewrite bsi_eta in V. apply andb_prop in V. destruct V as [_ V]. exact V. }
  rewrite Vb. simpl.
  destruct (i =? j) eqn:E.
  - assert (i = j) by lia; subst j. rewrite !Z.eqb_refl. reflexivity.
  - destruct ((bkt (v_shift v) i =? bkt (v_shift v) j) && (sub (v_shift v) i =? sub (v_shift v) j)) eqn:E2; [|reflexivity].
    exfalso. assert (i = j); [|lia]. apply (bsi_inj (v_shift v)); lia.
Qed.

(* bucket-addressed access = index-addressed access at bucket_start + j *)
Lemma get_bs_as_cell v b j : wfv v -> 0 <= b -> 0 <= j < bucket_cap (v_shift v) b ->
  get_bs v b j = get_cell v (bucket_start (v_shift v) b + j).
Proof. intros [Hs W] Hb Hj. unfold get_cell. rewrite bsi_inv by assumption. reflexivity. Qed.
Lemma set_bs_as_cell v b j c : wfv v -> 0 <= b -> 0 <= j < bucket_cap (v_shift v) b ->
  set_bs v b j c = set_cell v (bucket_start (v_shift v) b + j) c.
Proof. intros [Hs W] Hb Hj. unfold set_cell. rewrite bsi_inv by assumption. reflexivity. Qed.
Lemma valid_bs_as_idx v b j : wfv v -> 0 <= b -> 0 <= j < bucket_cap (v_shift v) b ->
  valid_bs v b j = valid_idx v (bucket_start (v_shift v) b + j).
Proof.
  intros [Hs W] Hb Hj. unfold valid_idx. rewrite bsi_inv by assumption.
  pose proof (bucket_start_mono (v_shift v) 0 b Hs ltac:(lia)) as M. unfold bucket_start at 1 in M. simpl in M.
  replace (0 <=? bucket_start (v_shift v) b + j) with true by lia. reflexivity.
Qed.

(* with_size / with_bufs *)
Lemma get_cell_with_size v n i : get_cell (with_size v n) i = get_cell v i.
Proof. reflexivity. Qed.
Lemma valid_idx_with_size v n i : valid_idx (with_size v n) i = valid_idx v i.
Proof. reflexivity. Qed.
Lemma wfv_with_size v n : wfv v -> wfv (with_size v n).
Proof. intros H; exact H. Qed.
