(* C32, part 5: every sequential operation of ConcurrentVector against its std::vector specification
   (contents, size, returned position) and its effect on element lifetimes. *)
From Coq Require Import ZArith List Bool Lia ZifyBool.
From DV Require Import Base.MachInt Base.Life Model.CVecModel Proofs.CVecBucketProofs Proofs.CVecStoreProofs Proofs.CVecAllocProofs
  Proofs.CVecLoopProofs.
Import ListNotations.
Local Open Scope Z_scope.

Ltac Zify.zify_post_hook ::= Z.div_mod_to_equations.

(* ------------------------------------------------------------------------------------------------ lists with Z indices *)
Lemma zlen_nonneg l : 0 <= zlen l.
Proof. unfold zlen; lia. Qed.
Lemma znth_app l1 l2 j : 0 <= j -> znth (l1 ++ l2) j = if j <? zlen l1 then znth l1 j else znth l2 (j - zlen l1).
Proof.
  intros Hj. unfold znth, zlen. destruct (j <? Z.of_nat (length l1)) eqn:E.
  - apply app_nth1. lia.
  - rewrite app_nth2 by lia. f_equal. lia.
Qed.
Lemma zlen_app l1 l2 : zlen (l1 ++ l2) = zlen l1 + zlen l2.
Proof. unfold zlen. rewrite app_length. lia. Qed.
Lemma zlen_cons x l : zlen (x :: l) = 1 + zlen l.
Proof. unfold zlen. simpl length. lia. Qed.
Lemma znth_cons x l j : 0 <= j -> znth (x :: l) j = if j =? 0 then x else znth l (j - 1).
Proof.
  intros Hj. unfold znth. destruct (j =? 0) eqn:E.
  - replace (Z.to_nat j) with 0%nat by lia. reflexivity.
  - replace (Z.to_nat j) with (S (Z.to_nat (j - 1))) by lia. reflexivity.
Qed.
Lemma zlen_firstn n l : 0 <= n <= zlen l -> zlen (zfirstn n l) = n.
Proof. unfold zlen, zfirstn. intros H. rewrite firstn_length. lia. Qed.
Lemma znth_firstn n l j : 0 <= j < n -> znth (zfirstn n l) j = znth l j.
Proof.
  unfold znth, zfirstn. intros H.
  rewrite <- (firstn_skipn (Z.to_nat n) l) at 2.
  destruct (Z_lt_ge_dec j (zlen l)) as [Lt|Ge].
  - rewrite app_nth1; [reflexivity|]. rewrite firstn_length. unfold zlen in Lt. lia.
  - unfold zlen in Ge. rewrite !nth_overflow; try reflexivity.
    + rewrite firstn_skipn. lia.
    + rewrite firstn_length. lia.
Qed.
Lemma zlen_skipn n l : 0 <= n <= zlen l -> zlen (zskipn n l) = zlen l - n.
Proof. unfold zlen, zskipn. intros H. rewrite skipn_length. lia. Qed.
Lemma znth_skipn n l j : 0 <= n -> 0 <= j -> znth (zskipn n l) j = znth l (n + j).
Proof.
  unfold znth, zskipn. intros Hn Hj.
  destruct (Z_le_gt_dec n (zlen l)) as [Le|Gt]; unfold zlen in *.
  - rewrite <- (firstn_skipn (Z.to_nat n) l) at 2. rewrite app_nth2; rewrite firstn_length; [|lia]. f_equal. lia.
  - rewrite skipn_all2 by lia. rewrite (nth_overflow l) by lia. destruct (Z.to_nat j); reflexivity.
Qed.
Lemma zlen_zrepeat x n : 0 <= n -> zlen (zrepeat x n) = n.
Proof. unfold zlen, zrepeat. intros. rewrite repeat_length. lia. Qed.
Lemma znth_zrepeat x n j : 0 <= j < n -> znth (zrepeat x n) j = x.
Proof.
  unfold znth, zrepeat. intros H. rewrite (nth_indep _ 0 x) by (rewrite repeat_length; lia). apply nth_repeat.
Qed.
Lemma zlen_zseq a n : 0 <= n -> zlen (zseq a n) = n.
Proof. unfold zlen, zseq. intros. rewrite map_length, seq_length. lia. Qed.
Lemma nth_map_seq {A} (f : nat -> A) n k d : (k < n)%nat -> nth k (map f (seq 0 n)) d = f k.
Proof.
  intros H. rewrite (nth_indep _ d (f 0%nat)) by (rewrite map_length, seq_length; exact H).
  rewrite (map_nth f (seq 0 n) 0%nat k). rewrite seq_nth by exact H. reflexivity.
Qed.
Lemma znth_zseq a n j : 0 <= j < n -> znth (zseq a n) j = a + j.
Proof. unfold znth, zseq. intros H. rewrite nth_map_seq by lia. lia. Qed.
Lemma znth_overflow l j : zlen l <= j -> znth l j = 0.
Proof. unfold znth, zlen. intros. apply nth_overflow. lia. Qed.

Lemma zlist_ext (l1 l2 : list Z) : zlen l1 = zlen l2 -> (forall j, 0 <= j < zlen l1 -> znth l1 j = znth l2 j) -> l1 = l2.
Proof.
  unfold zlen, znth. intros Hl H. apply (nth_ext l1 l2 0 0); [lia|].
  intros n Hn. specialize (H (Z.of_nat n) ltac:(lia)). rewrite Nat2Z.id in H. exact H.
Qed.

(* ------------------------------------------------------------------------------------------------ abstraction *)
Lemma zlen_abs v : 0 <= v_size v -> zlen (abs v) = v_size v.
Proof. intros H. unfold zlen, abs, cells, zseq. rewrite !map_length, seq_length. lia. Qed.
Lemma znth_abs v j : 0 <= j < v_size v -> znth (abs v) j = tag_at v j.
Proof.
  intros H. unfold znth, abs, cells, zseq, tag_at. rewrite !map_map.
  rewrite nth_map_seq by lia. f_equal. f_equal. lia.
Qed.
Lemma abs_ext v l : 0 <= v_size v -> zlen l = v_size v -> (forall j, 0 <= j < v_size v -> tag_at v j = znth l j) -> abs v = l.
Proof.
  intros Hs Hl H. apply zlist_ext; [rewrite zlen_abs by exact Hs; lia|].
  intros j Hj. rewrite zlen_abs in Hj by exact Hs. rewrite znth_abs by exact Hj. apply H. exact Hj.
Qed.

(* ------------------------------------------------------------------------------------------------ the vector invariant *)
(* sizes stay below max_n, for which kMaxBuffers leaves room for the buffer after the one holding index max_n *)
Definition fits (tr : traits) (max_n : Z) : Prop := 0 <= max_n /\ Z.log2 max_n + 3 <= max_buffers tr /\ 2 <= t_defcap tr.

Record vinv (tr : traits) (v : cvec) : Prop := mkVinv {
  vi_wf : wfv v;
  vi_size : 0 <= v_size v;
  vi_base : base (v_bufs v);
  vi_ainv : ainv (t_strategy tr) (v_shift v) (v_bufs v) (v_size v);
  vi_nb : Z.of_nat (length (v_bufs v)) = max_buffers tr
}.

Lemma bkt_bound shift n m : 0 <= shift -> 0 <= n <= m -> bkt shift n <= Z.log2 m + 1.
Proof.
  intros Hs H. pose proof (bkt_mono shift n m Hs H) as M.
  assert (bkt shift m <= Z.log2 m + 1); [|lia].
  unfold bkt, bsi. destruct (m <? 2 ^ shift); simpl; [pose proof (Z.log2_nonneg m); lia | lia].
Qed.

Lemma room tr max_n v n : fits tr max_n -> vinv tr v -> 0 <= n <= max_n -> bkt (v_shift v) n + 1 < Z.of_nat (length (v_bufs v)).
Proof.
  intros (F1 & F2 & _) I Hn. rewrite (vi_nb _ _ I).
  pose proof (bkt_bound (v_shift v) n max_n ltac:(apply (vi_wf _ _ I)) Hn). lia.
Qed.

(* every index up to the size (the end position included) lies in allocated storage *)
Lemma vinv_valid tr v j : vinv tr v -> 0 <= j <= v_size v -> valid_idx v j = true.
Proof.
  intros I Hj. rewrite valid_idx_alloc by (try apply (vi_wf _ _ I); lia).
  destruct (vi_ainv _ _ I) as [A _]. apply A.
  pose proof (bsi_facts (v_shift v) j ltac:(apply (vi_wf _ _ I)) ltac:(lia)) as (B & _).
  pose proof (bkt_mono (v_shift v) j (v_size v) ltac:(apply (vi_wf _ _ I)) Hj). lia.
Qed.

Lemma vinv_same_store tr v v' : same_store v v' -> vinv tr v -> vinv tr v'.
Proof.
  intros (S1 & S2 & S3 & S4 & S5) I. destruct I as [W Sz [B0 B1] [A B] NB].
  constructor; auto.
  - lia.
  - split; rewrite S4; assumption.
  - rewrite S1, S2. split.
    + intros b Hb. rewrite S4. apply A. exact Hb.
    + intros H. rewrite S4. apply B. exact H.
  - lia.
Qed.

Lemma vinv_smaller tr v n : vinv tr v -> 0 <= n <= v_size v -> vinv tr (with_size v n).
Proof.
  intros I Hn. destruct I as [W Sz Bs A NB]. constructor; simpl; auto; try lia.
  eapply ainv_smaller; [apply W | exact Hn | exact A].
Qed.

Lemma cl_add_bad_0 L : cl_add_bad 0 L = L.
Proof. destruct L; unfold cl_add_bad; simpl. f_equal. lia. Qed.

(* allocateBuffer for index size, size+1 elements afterwards *)
Lemma alloc_at_spec tr max_n v L : fits tr max_n -> vinv tr v -> v_size v + 1 <= max_n ->
  let r := alloc_at tr (v_size v) (with_size v (v_size v + 1), L) in
  snd r = L /\ vinv tr (fst r) /\ v_size (fst r) = v_size v + 1 /\ v_shift (fst r) = v_shift v /\ (forall j, get_cell (fst r) j = get_cell v j).
Proof.
  intros F I Hn. unfold alloc_at. cbn [v_shift with_size v_bufs].
  pose proof (vi_wf _ _ I) as W. pose proof (vi_size _ _ I) as Sz.
  rewrite bsi_eta.
  pose proof (alloc1_spec (t_strategy tr) (v_shift v) (v_bufs v) (v_size v) ltac:(apply W) Sz (vi_base _ _ I) (vi_ainv _ _ I)
                ltac:(eapply room; eauto; lia)) as A1.
  destruct (alloc1 (t_strategy tr) (v_bufs v) (bkt (v_shift v) (v_size v)) (sub (v_shift v) (v_size v)) (capof (v_shift v) (v_size v))) as [bs bad].
  destruct A1 as (G & Bad & AI). subst bad. cbn [fst snd].
  split; [apply cl_add_bad_0|]. split.
  - constructor; simpl.
    + apply (wfv_grows (with_size v (v_size v + 1)) bs W G).
    + lia.
    + eapply base_grows; [exact G | apply (vi_base _ _ I)].
    + exact AI.
    + destruct G as [GL _]. rewrite GL. apply (vi_nb _ _ I).
  - split; [reflexivity|]. split; [reflexivity|].
    intros j. apply (get_cell_grows (with_size v (v_size v + 1)) bs j G).
Qed.

(* allocateBufferRange for [size, size + d) *)
Lemma alloc_span_grow tr max_n v L d : fits tr max_n -> vinv tr v -> 0 <= d -> v_size v + d <= max_n ->
  let r := alloc_span tr (v_size v) d (with_size v (v_size v + d), L) in
  snd r = L /\ vinv tr (fst r) /\ v_size (fst r) = v_size v + d /\ v_shift (fst r) = v_shift v /\ (forall j, get_cell (fst r) j = get_cell v j).
Proof.
  intros F I Hd Hn. unfold alloc_span. cbn [v_shift with_size v_bufs].
  pose proof (vi_wf _ _ I) as W. pose proof (vi_size _ _ I) as Sz.
  rewrite !bsi_eta.
  pose proof (alloc_range_spec (t_strategy tr) (v_shift v) (v_bufs v) (v_size v) d ltac:(apply W) Sz Hd (vi_base _ _ I) (vi_ainv _ _ I)
                ltac:(eapply room; eauto; lia)) as A1.
  destruct (alloc_range (t_strategy tr) (v_bufs v) (bkt (v_shift v) (v_size v)) (sub (v_shift v) (v_size v)) (capof (v_shift v) (v_size v)) d
              (bkt (v_shift v) (v_size v + d)) (sub (v_shift v) (v_size v + d)) (capof (v_shift v) (v_size v + d))) as [bs bad].
  destruct A1 as (G & Bad & AI). subst bad. cbn [fst snd].
  split; [apply cl_add_bad_0|]. split.
  - constructor; simpl.
    + apply (wfv_grows (with_size v (v_size v + d)) bs W G).
    + lia.
    + eapply base_grows; [exact G | apply (vi_base _ _ I)].
    + exact AI.
    + destruct G as [GL _]. rewrite GL. apply (vi_nb _ _ I).
  - split; [reflexivity|]. split; [reflexivity|].
    intros j. apply (get_cell_grows (with_size v (v_size v + d)) bs j G).
Qed.

(* reserve(n): the size stays, storage for n elements afterwards *)
Lemma ainv_zero strat shift bs : 0 <= shift -> base bs -> ainv strat shift bs 0.
Proof.
  intros Hs [B0 B1]. pose proof (bkt_of_start shift 0 0 Hs ltac:(lia) ltac:(pose proof (bucket_cap_pos shift 0 Hs); lia)) as (K1 & K2 & K3).
  change (bucket_start shift 0 + 0) with 0 in *. split.
  - intros b Hb. rewrite K1 in Hb. replace b with 0 by lia. exact B0.
  - rewrite K2. intros H. pose proof (check_index_range strat (capof shift 0) ltac:(rewrite K3; pose proof (bucket_cap_pos shift 0 Hs); lia)). lia.
Qed.

Lemma reserve_spec tr max_n v L n : fits tr max_n -> vinv tr v -> 0 <= n <= max_n ->
  let r := reserve tr n (v, L) in
  snd r = L /\ vinv tr (fst r) /\ v_size (fst r) = v_size v /\ v_shift (fst r) = v_shift v /\ (forall j, get_cell (fst r) j = get_cell v j) /\ ainv (t_strategy tr) (v_shift v) (v_bufs (fst r)) n.
Proof.
  intros F I Hn. unfold reserve, alloc_span.
  pose proof (vi_wf _ _ I) as W. pose proof (vi_size _ _ I) as Sz.
  rewrite !bsi_eta. replace (0 + n) with n by lia.
  pose proof (alloc_range_spec (t_strategy tr) (v_shift v) (v_bufs v) 0 n ltac:(apply W) ltac:(lia) ltac:(lia) (vi_base _ _ I)
                (ainv_zero _ _ _ ltac:(apply W) (vi_base _ _ I)) ltac:(replace (0 + n) with n by lia; eapply room; eauto)) as A1.
  replace (0 + n) with n in A1 by lia.
  destruct (alloc_range (t_strategy tr) (v_bufs v) (bkt (v_shift v) 0) (sub (v_shift v) 0) (capof (v_shift v) 0) n
              (bkt (v_shift v) n) (sub (v_shift v) n) (capof (v_shift v) n)) as [bs bad].
  destruct A1 as (G & Bad & AI). subst bad. cbn [fst snd].
  split; [apply cl_add_bad_0|]. split.
  - constructor; simpl.
    + apply (wfv_grows v bs W G).
    + exact Sz.
    + eapply base_grows; [exact G | apply (vi_base _ _ I)].
    + eapply ainv_grows; [exact G | apply (vi_ainv _ _ I)].
    + destruct G as [GL _]. rewrite GL. apply (vi_nb _ _ I).
  - split; [reflexivity|]. split; [reflexivity|]. split; [|exact AI].
    intros j. apply (get_cell_grows v bs j G).
Qed.

(* ------------------------------------------------------------------------------------------------ lifetimes *)
(* exactly the elements are alive; nothing else in the storage needs a destructor *)
Definition clean (v : cvec) : Prop :=
  (forall j, 0 <= j < v_size v -> st_at v j = Alive) /\ (forall j, v_size v <= j -> live_at v j = false).
Definition life_ok (v : cvec) (L : cled) (v' : cvec) (L' : cled) : Prop :=
  clean v -> clean v' /\ exists dc dd, ldelta L L' dc dd /\ dc - dd = v_size v' - v_size v.

Lemma clean_live v j : clean v -> 0 <= j < v_size v -> live_at v j = true.
Proof. intros [A _] H. unfold live_at. rewrite A by exact H. reflexivity. Qed.

Lemma same_store_vinv_wf tr v v' : same_store v v' -> vinv tr v -> wfv v'.
Proof. intros S I. apply (vi_wf tr). eapply vinv_same_store; eauto. Qed.

(* ------------------------------------------------------------------------------------------------ push_back / emplace_back *)
Lemma emplace_back_spec tr max_n k t v L : fits tr max_n -> vinv tr v -> v_size v + 1 <= max_n ->
  let r := emplace_back tr k t (v, L) in
  let v' := fst (fst r) in let L' := snd (fst r) in
  vinv tr v' /\ abs v' = abs v ++ [t] /\ snd r = v_size v /\ cl_bad L' = cl_bad L /\ v_shift v' = v_shift v /\ life_ok v L v' L'.
Proof.
  intros F I Hn. unfold emplace_back, vl_size, vl_with_size. cbn [fst snd].
  pose proof (alloc_at_spec tr max_n v L F I Hn) as A. cbv zeta in A.
  destruct (alloc_at tr (v_size v) (with_size v (v_size v + 1), L)) as [v1 L1]. cbn [fst snd] in A.
  destruct A as (EL & I1 & Sz1 & Sh1 & C1). subst L1.
  assert (V : valid_idx v1 (v_size v) = true) by (apply (vinv_valid tr); [exact I1 | pose proof (vi_size _ _ I); lia]).
  rewrite upd_cell_valid by exact V. cbn [fst snd]. rewrite c_construct_cell.
  set (v' := set_cell v1 (v_size v) (mkCell Alive t)).
  pose proof (vi_size _ _ I) as Sz. pose proof (vi_wf _ _ I1) as W1.
  assert (G : forall j, 0 <= j -> get_cell v' j = if v_size v =? j then mkCell Alive t else get_cell v j).
  { intros j Hj. unfold v'. rewrite get_set_cell by (auto; lia). rewrite C1. reflexivity. }
  assert (Sz' : v_size v' = v_size v + 1) by (unfold v'; rewrite set_cell_size; exact Sz1).
  split; [eapply vinv_same_store; [apply same_store_set_cell | exact I1]|].
  split.
  { apply abs_ext; [lia | rewrite zlen_app, zlen_abs by lia; unfold zlen; simpl; lia|].
    intros j Hj. unfold tag_at. rewrite G by lia. rewrite znth_app by lia. rewrite zlen_abs by lia.
    destruct (v_size v =? j) eqn:E.
    - replace (j <? v_size v) with false by lia. replace (j - v_size v) with 0 by lia. reflexivity.
    - replace (j <? v_size v) with true by lia. rewrite znth_abs by lia. reflexivity. }
  split; [reflexivity|]. split; [apply c_construct_bad|]. split; [unfold v'; rewrite set_cell_shift; exact Sh1|].
  intros [CA CB]. split.
  - split.
    + intros j Hj. unfold st_at. rewrite G by lia. destruct (v_size v =? j) eqn:E; [reflexivity|]. apply CA. lia.
    + intros j Hj. unfold live_at, st_at. rewrite G by lia. replace (v_size v =? j) with false by lia. apply (CB j). lia.
  - exists 1, 0. split; [|lia]. apply c_construct_delta. rewrite C1. apply (CB (v_size v)). lia.
Qed.

(* ------------------------------------------------------------------------------------------------ grow_by family *)
Lemma grow_by_list_spec tr max_n k tags v L : fits tr max_n -> vinv tr v -> v_size v + zlen tags <= max_n ->
  let r := grow_by_list tr k tags (v, L) in
  let v' := fst (fst r) in let L' := snd (fst r) in
  vinv tr v' /\ abs v' = abs v ++ tags /\ snd r = v_size v /\ cl_bad L' = cl_bad L /\ v_shift v' = v_shift v /\ life_ok v L v' L'.
Proof.
  intros F I Hn. unfold grow_by_list, grow_uninit, vl_size, vl_with_size. cbn [fst snd].
  pose proof (alloc_span_grow tr max_n v L (zlen tags) F I (zlen_nonneg tags) Hn) as A. cbv zeta in A. unfold zlen in A.
  destruct (alloc_span tr (v_size v) (Z.of_nat (length tags)) (with_size v (v_size v + Z.of_nat (length tags)), L)) as [v1 L1].
  cbn [fst snd] in A. destruct A as (EL & I1 & Sz1 & Sh1 & C1). subst L1. cbn [fst snd].
  pose proof (vi_size _ _ I) as Sz. pose proof (vi_wf _ _ I1) as W1.
  pose proof (construct_list_spec k tags (v_size v) v1 L W1 Sz
                ltac:(intros j Hj; apply (vinv_valid tr); [exact I1 | lia])) as [(S2 & B2 & C2) D2].
  set (r := construct_list k tags (v_size v) (v1, L)) in *. pose proof (zlen_nonneg tags) as ZN.
  assert (Sz' : v_size (fst r) = v_size v + zlen tags) by (destruct S2 as (_ & X & _); unfold zlen; lia).
  split; [eapply vinv_same_store; eauto|].
  split.
  { apply abs_ext; [unfold zlen in *; lia | rewrite zlen_app, zlen_abs by lia; lia|].
    intros j Hj. unfold tag_at. rewrite C2 by lia. rewrite znth_app by lia. rewrite zlen_abs by lia. fold (zlen tags).
    destruct (j <? v_size v) eqn:E.
    - replace ((v_size v <=? j) && (j <? v_size v + zlen tags)) with false by lia. rewrite C1, znth_abs by lia. reflexivity.
    - replace ((v_size v <=? j) && (j <? v_size v + zlen tags)) with true by lia. reflexivity. }
  split; [reflexivity|]. split; [exact B2|]. split; [destruct S2 as (X & _); lia|].
  intros [CA CB]. split.
  - split.
    + intros j Hj. unfold st_at. rewrite C2 by lia. fold (zlen tags). destruct ((v_size v <=? j) && (j <? v_size v + zlen tags)) eqn:E; [reflexivity|].
      rewrite C1. apply CA. lia.
    + intros j Hj. unfold live_at, st_at. rewrite C2 by (unfold zlen in *; lia). fold (zlen tags).
      replace ((v_size v <=? j) && (j <? v_size v + zlen tags)) with false by lia. rewrite C1. apply (CB j). lia.
  - exists (zlen tags), 0. split; [|lia]. apply D2. intros j Hj. rewrite C1. apply (CB j). lia.
Qed.

Lemma spec_resize_grow n t l : zlen l <= n -> spec_resize n t l = l ++ zrepeat t (n - zlen l).
Proof.
  intros H. unfold spec_resize. destruct (zlen l <? n) eqn:E; [reflexivity|].
  assert (n = zlen l) by lia. subst n. replace (zlen l - zlen l) with 0 by lia. unfold zrepeat, zfirstn, zlen. simpl.
  rewrite Nat2Z.id, firstn_all, app_nil_r. reflexivity.
Qed.

Lemma life_ok_refl v L : life_ok v L v L.
Proof. intros C. split; [exact C|]. exists 0, 0. split; [apply ldelta_refl | lia]. Qed.

Lemma grow_to_at_least_spec tr max_n k n t v L : fits tr max_n -> vinv tr v -> 1 <= n <= max_n ->
  let r := grow_to_at_least tr k n t (v, L) in
  let v' := fst (fst r) in let L' := snd (fst r) in
  vinv tr v' /\ abs v' = spec_resize (Z.max n (v_size v)) t (abs v) /\
  snd r = (if v_size v <? n then v_size v else n - 1) /\ cl_bad L' = cl_bad L /\ v_shift v' = v_shift v /\ life_ok v L v' L'.
Proof.
  intros F I Hn. unfold grow_to_at_least, vl_size. cbn [fst]. pose proof (vi_size _ _ I) as Sz.
  destruct (v_size v <? n) eqn:E.
  - pose proof (grow_by_list_spec tr max_n k (zrepeat t (n - v_size v)) v L F I ltac:(rewrite zlen_zrepeat by lia; lia)) as G.
    cbv zeta in G. destruct G as (G1 & G2 & G3 & G4 & G5 & G6).
    split; [exact G1|]. split; [|auto].
    rewrite G2. rewrite spec_resize_grow by (rewrite zlen_abs by lia; lia). rewrite zlen_abs by lia.
    replace (Z.max n (v_size v)) with n by lia. reflexivity.
  - cbn [fst snd]. split; [exact I|]. split.
    + replace (Z.max n (v_size v)) with (v_size v) by lia. rewrite spec_resize_grow by (rewrite zlen_abs by lia; lia).
      rewrite zlen_abs by lia. replace (v_size v - v_size v) with 0 by lia. unfold zrepeat. simpl. rewrite app_nil_r. reflexivity.
    + split; [reflexivity|]. split; [reflexivity|]. split; [reflexivity|]. apply life_ok_refl.
Qed.

(* ------------------------------------------------------------------------------------------------ shrinking the size *)
Lemma abs_prefix v v' n : 0 <= n <= v_size v -> v_size v' = n -> (forall j, 0 <= j < n -> tag_at v' j = tag_at v j) ->
  abs v' = zfirstn n (abs v).
Proof.
  intros Hn Sz H. apply abs_ext; [lia | rewrite zlen_firstn by (rewrite zlen_abs by lia; lia); lia|].
  intros j Hj. rewrite znth_firstn by lia. rewrite znth_abs by lia. apply H. lia.
Qed.

(* destroy [n, size) downwards and set the size to n *)
Lemma truncate_spec tr n v L : vinv tr v -> 0 <= n <= v_size v ->
  let r := destroy_down (Z.to_nat (v_size v - n)) (v_size v) (v, L) in
  let v' := with_size (fst r) n in let L' := snd r in
  vinv tr v' /\ abs v' = zfirstn n (abs v) /\ cl_bad L' = cl_bad L /\ v_shift v' = v_shift v /\ life_ok v L v' L'.
Proof.
  intros I Hn. pose proof (vi_wf _ _ I) as W.
  pose proof (destroy_down_spec (Z.to_nat (v_size v - n)) (v_size v) v L W ltac:(lia)
                ltac:(intros j Hj; apply (vinv_valid tr); [exact I | lia])) as [(S2 & B2 & C2) D2].
  set (r := destroy_down (Z.to_nat (v_size v - n)) (v_size v) (v, L)) in *. cbv zeta.
  assert (I2 : vinv tr (fst r)) by (eapply vinv_same_store; eauto).
  assert (Sz2 : v_size (fst r) = v_size v) by (destruct S2 as (_ & X & _); exact X).
  split; [apply vinv_smaller; [exact I2 | lia]|].
  split.
  { apply abs_prefix; [exact Hn | reflexivity|]. intros j Hj. unfold tag_at. rewrite get_cell_with_size, C2 by lia.
    replace ((v_size v - Z.of_nat (Z.to_nat (v_size v - n)) <=? j) && (j <? v_size v)) with false by lia. reflexivity. }
  split; [exact B2|]. split; [destruct S2 as (X & _); exact X|].
  intros [CA CB]. split.
  - split; simpl.
    + intros j Hj. unfold st_at. rewrite get_cell_with_size, C2 by lia.
      replace ((v_size v - Z.of_nat (Z.to_nat (v_size v - n)) <=? j) && (j <? v_size v)) with false by lia. apply CA. lia.
    + intros j Hj. unfold live_at, st_at. rewrite get_cell_with_size, C2 by lia.
      destruct ((v_size v - Z.of_nat (Z.to_nat (v_size v - n)) <=? j) && (j <? v_size v)) eqn:E.
      * unfold destroyed. simpl. destruct (c_st (get_cell v j)); reflexivity.
      * apply (CB j). lia.
  - exists 0, (v_size v - n). split; [|simpl; lia].
    eapply ldelta_eq; [apply D2 | reflexivity | lia]. intros j Hj. apply clean_live; [split; assumption | lia].
Qed.

Lemma pop_back_spec tr v L : vinv tr v -> 1 <= v_size v ->
  let r := pop_back (v, L) in
  vinv tr (fst r) /\ abs (fst r) = removelast (abs v) /\ cl_bad (snd r) = cl_bad L /\ v_shift (fst r) = v_shift v /\ life_ok v L (fst r) (snd r).
Proof.
  intros I Hn. unfold pop_back, vl_size, vl_with_size. cbn [fst snd].
  assert (V : valid_idx (with_size v (v_size v - 1)) (v_size v - 1) = true).
  { rewrite valid_idx_with_size. apply (vinv_valid tr); [exact I | lia]. }
  rewrite upd_cell_valid by exact V. cbn [fst snd]. rewrite c_destroy_cell, c_destroy_bad.
  set (v1 := with_size v (v_size v - 1)).
  assert (I1 : vinv tr v1) by (apply vinv_smaller; [exact I | lia]).
  set (v' := set_cell v1 (v_size v - 1) (destroyed (get_cell v1 (v_size v - 1)))).
  assert (G : forall j, 0 <= j -> get_cell v' j = if v_size v - 1 =? j then destroyed (get_cell v (v_size v - 1)) else get_cell v j).
  { intros j Hj. unfold v'. rewrite get_set_cell by (auto; try lia; apply (vi_wf _ _ I1)). reflexivity. }
  split; [eapply vinv_same_store; [apply same_store_set_cell | exact I1]|].
  split.
  { rewrite removelast_firstn_len. replace (Nat.pred (length (abs v))) with (Z.to_nat (v_size v - 1)).
    2:{ pose proof (zlen_abs v ltac:(lia)) as X. unfold zlen in X. lia. }
    apply (abs_prefix v v' (v_size v - 1)); [lia | unfold v'; rewrite set_cell_size; reflexivity|].
    intros j Hj. unfold tag_at. rewrite G by lia. replace (v_size v - 1 =? j) with false by lia. reflexivity. }
  split; [reflexivity|]. split; [unfold v'; rewrite set_cell_shift; reflexivity|].
  intros [CA CB]. split.
  - split; unfold v'; rewrite set_cell_size; simpl.
    + intros j Hj. unfold st_at. fold v'. rewrite G by lia. replace (v_size v - 1 =? j) with false by lia. apply CA. lia.
    + intros j Hj. unfold live_at, st_at. fold v'. rewrite G by lia. destruct (v_size v - 1 =? j) eqn:E.
      * unfold destroyed. simpl. destruct (c_st (get_cell v (v_size v - 1))); reflexivity.
      * apply (CB j). lia.
  - exists 0, 1. split; [|unfold v'; rewrite set_cell_size; simpl; lia].
    apply c_destroy_delta. unfold v1. rewrite get_cell_with_size. apply (clean_live v); [split; assumption | lia].
Qed.

Lemma spec_resize_shrink n t l : 0 <= n <= zlen l -> spec_resize n t l = zfirstn n l.
Proof.
  intros H. unfold spec_resize. destruct (zlen l <? n) eqn:E; [lia | reflexivity].
Qed.

Lemma resize_spec tr max_n k n t v L : fits tr max_n -> vinv tr v -> 0 <= n <= max_n ->
  let r := resize tr k n t (v, L) in
  vinv tr (fst r) /\ abs (fst r) = spec_resize n t (abs v) /\ cl_bad (snd r) = cl_bad L /\ v_shift (fst r) = v_shift v /\
  life_ok v L (fst r) (snd r).
Proof.
  intros F I Hn. unfold resize, vl_size. cbn [fst]. pose proof (vi_size _ _ I) as Sz.
  destruct (v_size v <? n) eqn:E1.
  - pose proof (grow_to_at_least_spec tr max_n k n t v L F I ltac:(lia)) as G. cbv zeta in G.
    destruct G as (G1 & G2 & G3 & G4 & G5 & G6). replace (Z.max n (v_size v)) with n in G2 by lia. auto.
  - destruct (n <? v_size v) eqn:E2.
    + pose proof (truncate_spec tr n v L I ltac:(lia)) as T. cbv zeta in T. destruct T as (T1 & T2 & T3 & T4 & T5).
      unfold vl_with_size. cbn [fst snd]. rewrite spec_resize_shrink by (rewrite zlen_abs by lia; lia). auto.
    + cbn [fst snd]. assert (n = v_size v) by lia. subst n. split; [exact I|]. split.
      * rewrite spec_resize_shrink by (rewrite zlen_abs by lia; lia). unfold zfirstn.
        replace (Z.to_nat (v_size v)) with (length (abs v)) by (pose proof (zlen_abs v Sz) as X; unfold zlen in X; lia).
        rewrite firstn_all. reflexivity.
      * split; [reflexivity|]. split; [reflexivity|]. apply life_ok_refl.
Qed.

(* ------------------------------------------------------------------------------------------------ clear *)
Lemma destroy_down_split n1 : forall n2 hi vl,
  destroy_down (n1 + n2) hi vl = destroy_down n2 (hi - Z.of_nat n1) (destroy_down n1 hi vl).
Proof.
  induction n1 as [|n1 IH]; intros n2 hi vl.
  - simpl. replace (hi - 0) with hi by lia. reflexivity.
  - cbn [Nat.add destroy_down]. rewrite IH. f_equal. lia.
Qed.

Lemma clear_loop_eq n : forall b len v L, wfv v -> 0 <= b -> Z.of_nat n = b + 1 -> 0 <= len <= bucket_cap (v_shift v) b ->
  (forall k, 0 <= k <= b -> is_alloc (v_bufs v) k = true) ->
  clear_loop n b len (bucket_cap (v_shift v) b) (v, L) =
  destroy_down (Z.to_nat (bucket_start (v_shift v) b + len)) (bucket_start (v_shift v) b + len) (v, L).
Proof.
  induction n as [|n IH]; intros b len v L W Hb0 Hn Hlen A; [lia|].
  cbn [clear_loop fst snd]. rewrite (A b) by lia.
  pose proof W as [Hs Wf].
  rewrite (destroy_down_bs_eq (Z.to_nat len) b len (v, L)) by (cbn [fst]; auto; lia). cbn [fst].
  destruct n as [|n].
  - assert (b = 0) by lia. subst b. cbn [clear_loop]. reflexivity.
  - assert (Hb : 1 <= b) by lia.
    set (cap' := if 1 <? b then Z.shiftr (bucket_cap (v_shift v) b) 1 else bucket_cap (v_shift v) b).
    assert (Ec : cap' = bucket_cap (v_shift v) (b - 1)).
    { unfold cap'. destruct (1 <? b) eqn:E.
      - rewrite Z.shiftr_div_pow2 by lia. replace b with ((b - 1) + 1) at 1 by lia. rewrite bucket_cap_next by lia.
        change (2 ^ 1) with 2. rewrite Z.mul_comm, Z.div_mul by lia. reflexivity.
      - assert (b = 1) by lia. subst b. reflexivity. }
    pose proof (bucket_cap_pos (v_shift v) (b - 1) Hs ltac:(lia)) as CP.
    pose proof (bucket_start_mono (v_shift v) 0 b Hs ltac:(lia)) as SM. change (bucket_start (v_shift v) 0) with 0 in SM.
    (* the first inner loop keeps the storage shape *)
    pose proof (destroy_down_spec (Z.to_nat len) (bucket_start (v_shift v) b + len) v L W ltac:(lia)) as DS.
    assert (VR : forall j, bucket_start (v_shift v) b + len - Z.of_nat (Z.to_nat len) <= j < bucket_start (v_shift v) b + len -> valid_idx v j = true).
    { intros j Hj. rewrite valid_idx_alloc by (auto; lia).
      pose proof (bkt_of_start (v_shift v) b (j - bucket_start (v_shift v) b) Hs ltac:(lia) ltac:(lia)) as (K1 & _).
      replace (bucket_start (v_shift v) b + (j - bucket_start (v_shift v) b)) with j in K1 by lia. rewrite K1. apply A. lia. }
    destruct (DS VR) as [(S2 & B2 & C2) _].
    destruct (destroy_down (Z.to_nat len) (bucket_start (v_shift v) b + len) (v, L)) as [v1 L1] eqn:ED. cbn [fst snd] in *.
    destruct S2 as (Sh & Sz & NB & AL & WW).
    rewrite Ec. rewrite <- Sh.
    rewrite (IH (b - 1) (bucket_cap (v_shift v1) (b - 1)) v1 L1 (WW W) ltac:(lia) ltac:(lia) ltac:(rewrite Sh; lia)
               ltac:(intros k Hk; rewrite AL; apply A; lia)).
    rewrite Sh.
    replace (bucket_start (v_shift v) (b - 1) + bucket_cap (v_shift v) (b - 1)) with (bucket_start (v_shift v) b)
      by (replace b with ((b - 1) + 1) at 1 by lia; rewrite bucket_start_next by lia; reflexivity).
    rewrite <- ED.
    replace (Z.to_nat (bucket_start (v_shift v) b + len)) with (Z.to_nat len + Z.to_nat (bucket_start (v_shift v) b))%nat by lia.
    rewrite destroy_down_split. f_equal. lia.
Qed.

Lemma clear_eq tr v L : vinv tr v ->
  clear (v, L) = vl_with_size 0 (destroy_down (Z.to_nat (v_size v)) (v_size v) (v, L)).
Proof.
  intros I. unfold clear, vl_size. cbn [fst]. rewrite bsi_eta.
  pose proof (vi_wf _ _ I) as W. pose proof (vi_size _ _ I) as Sz.
  pose proof (bsi_facts (v_shift v) (v_size v) ltac:(apply W) Sz) as (B & S & C & E).
  rewrite C. rewrite (clear_loop_eq (Z.to_nat (bkt (v_shift v) (v_size v) + 1)) (bkt (v_shift v) (v_size v)) (sub (v_shift v) (v_size v)) v L W
            ltac:(lia) ltac:(lia) ltac:(lia) ltac:(destruct (vi_ainv _ _ I) as [A _]; exact A)).
  rewrite E. reflexivity.
Qed.

Lemma clear_spec tr v L : vinv tr v ->
  let r := clear (v, L) in
  vinv tr (fst r) /\ abs (fst r) = [] /\ v_size (fst r) = 0 /\ cl_bad (snd r) = cl_bad L /\ v_shift (fst r) = v_shift v /\
  life_ok v L (fst r) (snd r).
Proof.
  intros I. rewrite (clear_eq tr) by exact I.
  pose proof (truncate_spec tr 0 v L I ltac:(pose proof (vi_size _ _ I); lia)) as T. cbv zeta in T.
  replace (v_size v - 0) with (v_size v) in T by lia.
  unfold vl_with_size. cbn [fst snd]. destruct T as (T1 & T2 & T3 & T4 & T5).
  split; [exact T1|]. split; [rewrite T2; reflexivity|]. split; [reflexivity|]. auto.
Qed.

(* ------------------------------------------------------------------------------------------------ releasing buffers *)
Lemma count_state_zero p l : (forall c, In c l -> p (c_st c) = false) -> count_state p l = 0.
Proof.
  unfold count_state. intros H.
  assert (G : forall a, fold_left (fun a c => a + (if p (c_st c) then 1 else 0)) l a = a); [|apply G].
  induction l as [|c r IH]; intros a; [reflexivity|]. simpl. rewrite (H c) by (left; reflexivity).
  rewrite IH; [lia|]. intros c' Hc. apply H. right. exact Hc.
Qed.

Lemma cl_grave_0 L : cl_grave 0 0 L = L.
Proof. destruct L; unfold cl_grave; simpl. f_equal; lia. Qed.

(* facts about the cells of one buffer *)
Lemma bucket_cells v b l : wfv v -> 0 <= b -> get_buf (v_bufs v) b = Some l ->
  forall c, In c l -> exists j, 0 <= j < bucket_cap (v_shift v) b /\ c = get_cell v (bucket_start (v_shift v) b + j).
Proof.
  intros W Hb G c Hc. destruct W as [Hs Wf]. apply (In_nth l c raw) in Hc. destruct Hc as (n & Hn & En).
  pose proof (Wf _ _ G) as Len. exists (Z.of_nat n). split; [lia|].
  rewrite <- (get_bs_as_cell v b (Z.of_nat n)) by (try split; auto; lia).
  unfold get_bs. rewrite G. replace (0 <=? Z.of_nat n) with true by lia. rewrite Nat2Z.id. symmetry. exact En.
Qed.

Lemma release_bucket_spec b v L : wfv v -> 0 <= b ->
  let r := release_bucket b (v, L) in
  wfv (fst r) /\ v_shift (fst r) = v_shift v /\ v_size (fst r) = v_size v /\ length (v_bufs (fst r)) = length (v_bufs v) /\
  (forall k, k <> b -> get_buf (v_bufs (fst r)) k = get_buf (v_bufs v) k) /\ get_buf (v_bufs (fst r)) b = None /\
  cl_bad (snd r) = cl_bad L /\ cl_cnt (snd r) = cl_cnt L /\ cl_errs (snd r) = cl_errs L /\
  ((forall j, bucket_start (v_shift v) b <= j -> live_at v j = false) -> snd r = L).
Proof.
  intros W Hb. unfold release_bucket. cbn [fst snd].
  destruct (get_buf (v_bufs v) b) as [l|] eqn:G; cbn [fst snd].
  - split.
    { destruct W as [Hs Wf]. split; [exact Hs|]. intros k l'. simpl. rewrite get_buf_set_buf.
      destruct ((b =? k) && (0 <=? b) && (b <? Z.of_nat (length (v_bufs v)))); [discriminate | apply Wf]. }
    split; [reflexivity|]. split; [reflexivity|]. split; [simpl; apply length_set_buf|].
    split.
    { intros k Hk. simpl. rewrite get_buf_set_buf. replace (b =? k) with false by lia. reflexivity. }
    split.
    { simpl. rewrite get_buf_set_buf. pose proof (get_buf_some_range _ _ _ G) as R. rewrite Z.eqb_refl.
      replace (0 <=? b) with true by lia. replace (b <? Z.of_nat (length (v_bufs v))) with true by lia. reflexivity. }
    split; [reflexivity|]. split; [reflexivity|]. split; [reflexivity|].
    intros NL.
    assert (Z1 : forall c, In c l -> is_live (c_st c) = false).
    { intros c Hc. destruct (bucket_cells v b l W Hb G c Hc) as (j & Hj & ->). apply (NL (bucket_start (v_shift v) b + j)). lia. }
    rewrite (count_state_zero is_live l Z1).
    rewrite (count_state_zero (lstate_eqb MovedFrom) l).
    + apply cl_grave_0.
    + intros c Hc. specialize (Z1 c Hc). destruct (c_st c); try reflexivity; discriminate.
  - split; [exact W|]. repeat split; auto.
Qed.

Lemma get_cell_same_buf v v' j : v_shift v' = v_shift v -> get_buf (v_bufs v') (bkt (v_shift v) j) = get_buf (v_bufs v) (bkt (v_shift v) j) ->
  get_cell v' j = get_cell v j.
Proof. intros Sh G. unfold get_cell, get_bs. rewrite Sh, bsi_eta, G. reflexivity. Qed.

Lemma shrink_loop_spec n : forall b v L, wfv v -> 2 <= b ->
  let r := shrink_loop n b (v, L) in
  wfv (fst r) /\ v_shift (fst r) = v_shift v /\ v_size (fst r) = v_size v /\ length (v_bufs (fst r)) = length (v_bufs v) /\
  (forall k, k < b -> get_buf (v_bufs (fst r)) k = get_buf (v_bufs v) k) /\
  (forall k, get_buf (v_bufs (fst r)) k = get_buf (v_bufs v) k \/ get_buf (v_bufs (fst r)) k = None) /\
  cl_bad (snd r) = cl_bad L /\ cl_cnt (snd r) = cl_cnt L /\ cl_errs (snd r) = cl_errs L /\
  ((forall j, bucket_start (v_shift v) b <= j -> live_at v j = false) -> snd r = L).
Proof.
  induction n as [|n IH]; intros b v L W Hb; cbn [shrink_loop fst snd].
  - split; [exact W|]. repeat split; auto.
  - destruct (is_alloc (v_bufs v) b) eqn:E; [|cbn [fst snd]; split; [exact W|]; repeat split; auto].
    pose proof (release_bucket_spec b v L W ltac:(lia)) as R. cbv zeta in R.
    destruct (release_bucket b (v, L)) as [v1 L1]. cbn [fst snd] in R.
    destruct R as (W1 & Sh1 & Sz1 & NB1 & G1 & GN & B1 & C1 & E1 & N1).
    specialize (IH (b + 1) v1 L1 W1 ltac:(lia)). cbv zeta in IH.
    destruct IH as (W2 & Sh2 & Sz2 & NB2 & G2 & O2 & B2 & C2 & E2 & N2).
    split; [exact W2|]. split; [congruence|]. split; [congruence|]. split; [congruence|].
    split; [intros k Hk; rewrite G2 by lia; apply G1; lia|].
    split.
    { intros k. destruct (O2 k) as [X|X]; [|right; exact X]. rewrite X.
      destruct (Z.eq_dec k b) as [->|Nk]; [right; exact GN | left; apply G1; exact Nk]. }
    split; [congruence|]. split; [congruence|]. split; [congruence|].
    intros NL. rewrite N2; [apply N1; exact NL|].
    intros j Hj. unfold live_at, st_at.
    destruct (Z.eq_dec (bkt (v_shift v) j) b) as [Eb|Nb].
    + (* the cell was in the released buffer: it reads as raw now *)
      unfold get_cell, get_bs. rewrite Sh1, bsi_eta, Eb.
      rewrite GN. reflexivity.
    + rewrite (get_cell_same_buf v v1 j Sh1 (G1 _ Nb)). apply (NL j).
      rewrite Sh1 in Hj. pose proof (bucket_start_mono (v_shift v) b (b + 1) ltac:(apply W) ltac:(lia)). lia.
Qed.

Lemma live_at_same_or_none v v' j : v_shift v' = v_shift v ->
  (forall k, get_buf (v_bufs v') k = get_buf (v_bufs v) k \/ get_buf (v_bufs v') k = None) ->
  live_at v j = false -> live_at v' j = false.
Proof.
  intros Sh O H. destruct (O (bkt (v_shift v) j)) as [X|X].
  - unfold live_at, st_at. rewrite (get_cell_same_buf v v' j Sh X). exact H.
  - unfold live_at, st_at, get_cell, get_bs. rewrite Sh, bsi_eta, X. reflexivity.
Qed.

Lemma shrink_to_fit_spec tr v L : vinv tr v ->
  let r := shrink_to_fit tr (v, L) in
  vinv tr (fst r) /\ abs (fst r) = abs v /\ v_size (fst r) = v_size v /\ v_shift (fst r) = v_shift v /\
  cl_bad (snd r) = cl_bad L /\ (clean v -> snd r = L /\ clean (fst r)).
Proof.
  intros I. unfold shrink_to_fit, vl_size. cbn [fst]. rewrite bsi_eta.
  pose proof (vi_wf _ _ I) as W. pose proof (vi_size _ _ I) as Sz.
  pose proof (bsi_facts (v_shift v) (v_size v) ltac:(apply W) Sz) as (B & S & C & E).
  set (start := Z.max 2 (bkt (v_shift v) (v_size v) + 2)).
  pose proof (shrink_loop_spec (Z.to_nat (max_buffers tr - start)) start v L W ltac:(lia)) as R. cbv zeta in R.
  destruct (shrink_loop (Z.to_nat (max_buffers tr - start)) start (v, L)) as [v1 L1]. cbn [fst snd] in *.
  destruct R as (W1 & Sh1 & Sz1 & NB1 & G1 & O1 & B1 & C1 & E1 & N1).
  assert (AL : forall k, k < start -> is_alloc (v_bufs v1) k = is_alloc (v_bufs v) k) by (intros k Hk; unfold is_alloc; rewrite G1 by exact Hk; reflexivity).
  assert (CS : forall j, 0 <= j <= v_size v -> get_cell v1 j = get_cell v j).
  { intros j Hj. apply get_cell_same_buf; [exact Sh1|]. apply G1.
    pose proof (bkt_mono (v_shift v) j (v_size v) ltac:(apply W) Hj). lia. }
  split.
  { destruct (vi_base _ _ I) as [B0 B1']. destruct (vi_ainv _ _ I) as [A A'].
    constructor; auto; try lia.
    - split; rewrite AL by lia; assumption.
    - rewrite Sh1, Sz1. split.
      + intros k Hk. rewrite AL by lia. apply A. exact Hk.
      + intros H. rewrite AL by lia. apply A'. exact H.
    - rewrite NB1. apply (vi_nb _ _ I). }
  split.
  { apply abs_ext; [lia | rewrite zlen_abs by lia; lia|]. intros j Hj. rewrite znth_abs by lia. unfold tag_at. rewrite CS by lia. reflexivity. }
  split; [exact Sz1|]. split; [exact Sh1|]. split; [exact B1|].
  intros [CA CB]. split.
  - apply N1. intros j Hj. apply CB.
    pose proof (bucket_start_mono (v_shift v) (bkt (v_shift v) (v_size v) + 1) start ltac:(apply W) ltac:(lia)) as M.
    rewrite bucket_start_next in M by (try apply W; lia). lia.
  - split.
    + intros j Hj. unfold st_at. rewrite CS by lia. apply CA. lia.
    + intros j Hj. apply (live_at_same_or_none v v1 j Sh1 O1). apply CB. lia.
Qed.

(* net effect on the ledger: no misuse, nothing lost, constructions - destructions changed by d *)
Definition lnet (L L' : cled) (d : Z) : Prop :=
  cl_errs L' = cl_errs L /\ cl_glive L' = cl_glive L /\ cl_gmoved L' = cl_gmoved L /\ cl_bad L' = cl_bad L /\
  n_ctor_c (cl_cnt L') - c_dtor (cl_cnt L') = n_ctor_c (cl_cnt L) - c_dtor (cl_cnt L) + d.
Lemma lnet_of_ldelta L L' dc dd : ldelta L L' dc dd -> lnet L L' (dc - dd).
Proof. unfold ldelta, lnet. intros (A & B & C & D & E & F). repeat split; auto. lia. Qed.
Lemma lnet_refl L : lnet L L 0.
Proof. unfold lnet; repeat split; lia. Qed.
Lemma lnet_trans L1 L2 L3 a b : lnet L1 L2 a -> lnet L2 L3 b -> lnet L1 L3 (a + b).
Proof. unfold lnet. intros (A1 & A2 & A3 & A4 & A5) (B1 & B2 & B3 & B4 & B5). repeat split; try congruence. lia. Qed.
Lemma life_ok_lnet v L v' L' : life_ok v L v' L' -> clean v -> clean v' /\ lnet L L' (v_size v' - v_size v).
Proof. intros H C. destruct (H C) as (C' & dc & dd & D & E). split; [exact C'|]. rewrite <- E. apply lnet_of_ldelta. exact D. Qed.

(* ~ConcurrentVector *)
Lemma destruct_vec_spec tr v L : vinv tr v ->
  cl_bad (destruct_vec tr (v, L)) = cl_bad L /\ (clean v -> lnet L (destruct_vec tr (v, L)) (- v_size v)).
Proof.
  intros I. unfold destruct_vec.
  pose proof (clear_spec tr v L I) as C. cbv zeta in C. destruct (clear (v, L)) as [v1 L1]. cbn [fst snd] in C.
  destruct C as (I1 & _ & Sz1 & B1 & Sh1 & LO1).
  pose proof (shrink_to_fit_spec tr v1 L1 I1) as S. cbv zeta in S. destruct (shrink_to_fit tr (v1, L1)) as [v2 L2]. cbn [fst snd] in S.
  destruct S as (I2 & _ & Sz2 & Sh2 & B2 & CL2).
  pose proof (release_bucket_spec 0 v2 L2 (vi_wf _ _ I2) ltac:(lia)) as R0. cbv zeta in R0.
  destruct (release_bucket 0 (v2, L2)) as [v3 L3]. cbn [fst snd] in R0.
  destruct R0 as (W3 & Sh3 & Sz3 & NB3 & G3 & GN3 & B3 & C3 & E3 & N3).
  pose proof (release_bucket_spec 1 v3 L3 W3 ltac:(lia)) as R1. cbv zeta in R1.
  destruct (release_bucket 1 (v3, L3)) as [v4 L4]. cbn [fst snd] in R1.
  destruct R1 as (W4 & Sh4 & Sz4 & NB4 & G4 & GN4 & B4 & C4 & E4 & N4).
  cbn [snd]. split; [congruence|].
  intros CV. destruct (life_ok_lnet _ _ _ _ LO1 CV) as (CV1 & LN1).
  destruct (CL2 CV1) as (EL2 & CV2). subst L2.
  assert (NL2 : forall j, 0 <= j -> live_at v2 j = false) by (intros j Hj; apply CV2; lia).
  assert (EL3 : L3 = L1). { apply N3. intros j Hj. apply NL2. unfold bucket_start in Hj. simpl in Hj. exact Hj. }
  subst L3.
  assert (EL4 : L4 = L1).
  { apply N4. intros j Hj. apply (live_at_same_or_none v2 v3 j Sh3).
    - intros k. destruct (Z.eq_dec k 0) as [->|Nk]; [right; exact GN3 | left; apply G3; exact Nk].
    - apply NL2. pose proof (bucket_start_mono (v_shift v3) 0 1 ltac:(apply W3) ltac:(lia)) as M. unfold bucket_start at 1 in M. simpl in M. lia. }
  subst L4. replace (- v_size v) with (v_size v1 - v_size v) by lia. exact LN1.
Qed.

(* ------------------------------------------------------------------------------------------------ erase *)
Lemma removelast_as_erase l : 1 <= zlen l -> removelast l = zfirstn (zlen l - 1) l ++ zskipn (zlen l - 1 + 1) l.
Proof.
  intros H. rewrite removelast_firstn_len. unfold zfirstn, zskipn, zlen in *.
  replace (Z.to_nat (Z.of_nat (length l) - 1 + 1)) with (length l) by lia. rewrite skipn_all, app_nil_r.
  f_equal. lia.
Qed.

(* erase(pos): contents, returned position and lifetimes as std::vector *)
Lemma erase_one_spec tr pos v L : vinv tr v -> 0 <= pos < v_size v ->
  let r := erase_one pos (v, L) in
  let v' := fst (fst r) in let L' := snd (fst r) in
  vinv tr v' /\ abs v' = zfirstn pos (abs v) ++ zskipn (pos + 1) (abs v) /\ snd r = pos /\ cl_bad L' = cl_bad L /\ v_shift v' = v_shift v /\
  life_ok v L v' L'.
Proof.
  intros I Hp. unfold erase_one, vl_size, vl_with_size. cbn [fst snd].
  replace (v_size v =? pos) with false by lia.
  destruct (v_size v - 1 =? pos) eqn:E.
  - (* last element: exactly pop_back *)
    pose proof (pop_back_spec tr v L I ltac:(lia)) as P. cbv zeta in P. unfold pop_back, vl_size, vl_with_size in P. cbn [fst snd] in P.
    cbn [fst snd]. destruct P as (P1 & P2 & P3 & P4 & P5).
    split; [exact P1|]. split.
    { rewrite P2. assert (pos = zlen (abs v) - 1) as -> by (rewrite zlen_abs by lia; lia).
      apply removelast_as_erase. rewrite zlen_abs by lia. lia. }
    split; [lia|]. split; [exact P3|]. split; [exact P4|]. exact P5.
  - cbn [fst snd].
    set (e := v_size v) in *. set (v1 := with_size v (e - 1)).
    pose proof (move_fwd_spec 1 (Z.to_nat (e - (pos + 1))) pos v1 L (vi_wf _ _ I) ltac:(lia) ltac:(lia)
                  ltac:(intros j Hj; unfold v1; rewrite valid_idx_with_size; apply (vinv_valid tr); [exact I | unfold e in *; lia])) as M.
    cbv zeta in M. set (r1 := move_fwd (Z.to_nat (e - (pos + 1))) (pos + 1) pos (v1, L)) in *.
    destruct M as (S2 & B2 & T2 & F2 & D2).
    assert (I1 : vinv tr v1) by (apply vinv_smaller; [exact I | unfold e; lia]).
    assert (I2 : vinv tr (fst r1)) by (eapply vinv_same_store; eauto).
    assert (Sz2 : v_size (fst r1) = e - 1) by (destruct S2 as (_ & X & _); exact X).
    assert (V2 : valid_idx (fst r1) (e - 1) = true).
    { rewrite (same_store_valid v1 (fst r1)) by (auto; try lia; apply (vi_wf _ _ I1)). unfold v1. rewrite valid_idx_with_size.
      apply (vinv_valid tr); [exact I | unfold e; lia]. }
    destruct r1 as [v2 L2] eqn:ER. cbn [fst snd] in *.
    rewrite upd_cell_valid by exact V2. cbn [fst snd]. rewrite c_destroy_cell, c_destroy_bad.
    set (v3 := set_cell v2 (e - 1) (destroyed (get_cell v2 (e - 1)))).
    assert (G3 : forall j, 0 <= j -> get_cell v3 j = if e - 1 =? j then destroyed (get_cell v2 (e - 1)) else get_cell v2 j).
    { intros j Hj. unfold v3. rewrite get_set_cell by (auto; try lia; apply (vi_wf _ _ I2)). reflexivity. }
    assert (Sz3 : v_size v3 = e - 1) by (unfold v3; rewrite set_cell_size; exact Sz2).
    split; [eapply vinv_same_store; [apply same_store_set_cell | exact I2]|].
    split.
    { apply abs_ext; [lia | rewrite zlen_app, zlen_firstn, zlen_skipn by (rewrite zlen_abs by (unfold e in *; lia); unfold e in *; lia);
                           rewrite zlen_abs by (unfold e in *; lia); unfold e in *; lia|].
      rewrite Sz3. intros j Hj. unfold tag_at. rewrite G3 by lia. replace (e - 1 =? j) with false by lia. fold (tag_at v2 j).
      rewrite T2 by lia. rewrite znth_app by lia. rewrite zlen_firstn by (rewrite zlen_abs by (unfold e in *; lia); unfold e in *; lia).
      replace (Z.max (pos + 1) (pos + Z.of_nat (Z.to_nat (e - (pos + 1)))) <=? j) with false by lia. rewrite andb_false_l.
      destruct (j <? pos) eqn:E1.
      - replace ((pos <=? j) && (j <? pos + Z.of_nat (Z.to_nat (e - (pos + 1))))) with false by lia.
        rewrite znth_firstn, znth_abs by (unfold e in *; lia). reflexivity.
      - replace ((pos <=? j) && (j <? pos + Z.of_nat (Z.to_nat (e - (pos + 1))))) with true by lia.
        rewrite znth_skipn, znth_abs by (unfold e in *; lia). unfold tag_at, v1. rewrite get_cell_with_size. f_equal. f_equal. lia. }
    split; [reflexivity|]. split; [exact B2|].
    split; [unfold v3; rewrite set_cell_shift; destruct S2 as (X & _); exact X|].
    intros [CA CB].
    assert (LV : forall j, pos <= j < pos + 1 + Z.of_nat (Z.to_nat (e - (pos + 1))) -> live_at v1 j = true).
    { intros j Hj. unfold live_at, st_at, v1. rewrite get_cell_with_size. fold (st_at v j). rewrite CA by (unfold e in *; lia). reflexivity. }
    destruct (D2 LV) as (DL & ST).
    assert (ST1 : st_at v2 (e - 1) = MovedFrom).
    { rewrite ST by lia. replace (e - 1 <? pos + Z.of_nat (Z.to_nat (e - (pos + 1)))) with false by lia.
      replace (Z.max (pos + 1) (pos + Z.of_nat (Z.to_nat (e - (pos + 1)))) <=? e - 1) with true by lia. reflexivity. }
    split.
    + split; rewrite Sz3.
      * intros j Hj. unfold st_at. rewrite G3 by lia. replace (e - 1 =? j) with false by lia. fold (st_at v2 j).
        destruct (Z_lt_ge_dec j pos) as [Lt|Ge].
        -- unfold st_at. rewrite F2 by lia. unfold v1. rewrite get_cell_with_size. apply CA. unfold e in *. lia.
        -- rewrite ST by lia. replace (j <? pos + Z.of_nat (Z.to_nat (e - (pos + 1)))) with true by lia. reflexivity.
      * intros j Hj. unfold live_at, st_at. rewrite G3 by lia. destruct (e - 1 =? j) eqn:E2.
        -- unfold destroyed. simpl. destruct (c_st (get_cell v2 (e - 1))); reflexivity.
        -- rewrite F2 by lia. unfold v1. rewrite get_cell_with_size. apply (CB j). unfold e in *. lia.
    + exists 0, 1. split; [|rewrite Sz3; unfold e; lia].
      eapply ldelta_eq; [eapply ldelta_trans; [exact DL | apply c_destroy_delta] | lia | lia].
      fold (st_at v2 (e - 1)). rewrite ST1. reflexivity.
Qed.

Lemma erase_range_spec tr first last v L : vinv tr v -> 0 <= first <= last -> last <= v_size v ->
  let r := erase_range first last (v, L) in
  let v' := fst (fst r) in let L' := snd (fst r) in
  vinv tr v' /\ abs v' = zfirstn first (abs v) ++ zskipn last (abs v) /\ snd r = first /\ cl_bad L' = cl_bad L /\ v_shift v' = v_shift v /\
  life_ok v L v' L'.
Proof.
  intros I Hf Hl. unfold erase_range, vl_size, vl_with_size. cbn [fst snd]. pose proof (vi_size _ _ I) as Sz.
  destruct (last - first =? 0) eqn:E.
  - assert (last = first) by lia. subst last. cbn [fst snd]. split; [exact I|]. split.
    { unfold zfirstn, zskipn. rewrite firstn_skipn. reflexivity. }
    split; [lia|]. split; [reflexivity|]. split; [reflexivity|]. apply life_ok_refl.
  - set (sz := v_size v) in *. set (n := Z.to_nat (sz - last)). set (d := last - first).
    pose proof (move_fwd_spec d n first v L (vi_wf _ _ I) ltac:(lia) ltac:(lia)
                  ltac:(intros j Hj; apply (vinv_valid tr); [exact I | unfold sz in *; lia])) as M.
    cbv zeta in M. replace (first + d) with last in M by lia.
    set (r1 := move_fwd n last first (v, L)) in *.
    destruct M as (S1 & B1 & T1 & F1 & D1).
    assert (I1 : vinv tr (fst r1)) by (eapply vinv_same_store; eauto).
    assert (Sz1 : v_size (fst r1) = sz) by (destruct S1 as (_ & X & _); exact X).
    replace (sz - (first + (sz - last))) with d by lia.
    pose proof (destroy_down_spec (Z.to_nat d) sz (fst r1) (snd r1) (vi_wf _ _ I1) ltac:(lia)
                  ltac:(intros j Hj; apply (vinv_valid tr); [exact I1 | lia])) as [(S2 & B2 & C2) D2].
    destruct r1 as [v1 L1] eqn:ER. cbn [fst snd] in *.
    destruct (destroy_down (Z.to_nat d) sz (v1, L1)) as [v2 L2] eqn:ED. cbn [fst snd] in *.
    replace (sz - Z.of_nat (Z.to_nat d)) with (sz - d) in * by lia.
    assert (I2 : vinv tr v2) by (eapply vinv_same_store; eauto).
    assert (Sz2 : v_size v2 = sz) by (destruct S2 as (_ & X & _); lia).
    split; [apply vinv_smaller; [exact I2 | lia]|].
    split.
    { apply abs_ext; [simpl; lia | rewrite zlen_app, zlen_firstn, zlen_skipn by (rewrite zlen_abs by lia; unfold sz in *; lia);
                                   rewrite zlen_abs by lia; simpl; unfold sz in *; lia|].
      simpl v_size. intros j Hj. unfold tag_at. rewrite get_cell_with_size, C2 by lia.
      replace ((sz - d <=? j) && (j <? sz)) with false by lia. fold (tag_at v1 j). rewrite T1 by lia.
      rewrite znth_app by lia. rewrite zlen_firstn by (rewrite zlen_abs by lia; unfold sz in *; lia).
      replace (Z.max last (first + Z.of_nat n) <=? j) with false by lia. rewrite andb_false_l.
      destruct (j <? first) eqn:E1.
      - replace ((first <=? j) && (j <? first + Z.of_nat n)) with false by lia. rewrite znth_firstn, znth_abs by (unfold sz in *; lia). reflexivity.
      - replace ((first <=? j) && (j <? first + Z.of_nat n)) with true by lia.
        rewrite znth_skipn, znth_abs by (unfold sz in *; lia). unfold tag_at. f_equal. f_equal. lia. }
    split; [reflexivity|]. split; [congruence|]. split; [simpl; destruct S2 as (X & _); destruct S1 as (Y & _); lia|].
    intros [CA CB].
    assert (LV : forall j, first <= j < last + Z.of_nat n -> live_at v j = true).
    { intros j Hj. unfold live_at. rewrite CA by (unfold sz in *; lia). reflexivity. }
    destruct (D1 LV) as (DL & ST).
    assert (LV1 : forall j, first <= j < sz -> live_at v1 j = true).
    { intros j Hj. unfold live_at. rewrite ST by lia. ifs; try reflexivity. fold (live_at v j). apply LV. lia. }
    split.
    + split; simpl v_size.
      * intros j Hj. unfold st_at. rewrite get_cell_with_size, C2 by lia. replace ((sz - d <=? j) && (j <? sz)) with false by lia.
        fold (st_at v1 j). destruct (Z_lt_ge_dec j first) as [Lt|Ge].
        -- unfold st_at. rewrite F1 by lia. apply CA. unfold sz in *. lia.
        -- rewrite ST by lia. replace (j <? first + Z.of_nat n) with true by lia. reflexivity.
      * intros j Hj. unfold live_at, st_at. rewrite get_cell_with_size, C2 by lia.
        destruct ((sz - d <=? j) && (j <? sz)) eqn:E3.
        -- unfold destroyed. simpl. destruct (c_st (get_cell v1 j)); reflexivity.
        -- rewrite F1 by lia. apply (CB j). unfold sz in *. lia.
    + exists 0, d. split; [|simpl; unfold sz; lia].
      eapply ldelta_eq; [eapply ldelta_trans; [exact DL | apply D2] | lia | lia].
      intros j Hj. apply LV1. lia.
Qed.

(* ------------------------------------------------------------------------------------------------ insert *)
Lemma loop_res_vinv tr v L r g : vinv tr v -> loop_res v L r g -> vinv tr (fst r).
Proof. intros I (S & _). eapply vinv_same_store; eauto. Qed.

(* insert(pos, value): contents, position and lifetimes as std::vector *)
Lemma insert_one_spec tr max_n k pos t v L : fits tr max_n -> vinv tr v -> 0 <= pos <= v_size v -> v_size v + 1 <= max_n ->
  let r := insert_one tr k pos t (v, L) in
  let v' := fst (fst r) in let L' := snd (fst r) in
  vinv tr v' /\ abs v' = zfirstn pos (abs v) ++ t :: zskipn pos (abs v) /\ snd r = pos /\ cl_bad L' = cl_bad L /\ v_shift v' = v_shift v /\
  life_ok v L v' L'.
Proof.
  intros F I Hp Hn. unfold insert_one, vl_size, vl_with_size. cbn [fst snd].
  pose proof (alloc_at_spec tr max_n v L F I Hn) as A. cbv zeta in A.
  destruct (alloc_at tr (v_size v) (with_size v (v_size v + 1), L)) as [v1 L1]. cbn [fst snd] in A.
  destruct A as (EL & I1 & Sz1 & Sh1 & C1). subst L1. pose proof (vi_size _ _ I) as Sz.
  assert (V1 : valid_idx v1 (v_size v) = true) by (apply (vinv_valid tr); [exact I1 | lia]).
  rewrite upd_cell_valid by exact V1. rewrite c_construct_cell.
  set (v2 := set_cell v1 (v_size v) (mkCell Alive 0)). set (L2 := snd (c_construct KValue 0 (get_cell v1 (v_size v)) L)).
  assert (I2 : vinv tr v2) by (eapply vinv_same_store; [apply same_store_set_cell | exact I1]).
  assert (Sz2 : v_size v2 = v_size v + 1) by (unfold v2; rewrite set_cell_size; exact Sz1).
  assert (G2 : forall j, 0 <= j -> get_cell v2 j = if v_size v =? j then mkCell Alive 0 else get_cell v j).
  { intros j Hj. unfold v2. rewrite get_set_cell by (auto; try lia; apply (vi_wf _ _ I1)). rewrite C1. reflexivity. }
  pose proof (move_bwd_spec 1 (Z.to_nat (v_size v - pos)) (v_size v) v2 L2 (vi_wf _ _ I2) ltac:(lia) ltac:(lia)
                ltac:(intros j Hj; apply (vinv_valid tr); [exact I2 | lia])) as M.
  cbv zeta in M. set (r3 := move_bwd (Z.to_nat (v_size v - pos)) (v_size v) (v_size v + 1) (v2, L2)) in *.
  destruct M as (S3 & B3 & T3 & F3 & D3).
  assert (I3 : vinv tr (fst r3)) by (eapply vinv_same_store; eauto).
  assert (Sz3 : v_size (fst r3) = v_size v + 1) by (destruct S3 as (_ & X & _); lia).
  destruct r3 as [v3 L3] eqn:E3. cbn [fst snd] in *.
  assert (V3 : valid_idx v3 pos = true) by (apply (vinv_valid tr); [exact I3 | lia]).
  rewrite upd_cell_valid by exact V3. cbn [fst snd]. rewrite c_assign_cell, c_assign_bad.
  set (v4 := set_cell v3 pos (assigned t (get_cell v3 pos))).
  assert (G4 : forall j, 0 <= j -> get_cell v4 j = if pos =? j then assigned t (get_cell v3 pos) else get_cell v3 j).
  { intros j Hj. unfold v4. rewrite get_set_cell by (auto; try lia; apply (vi_wf _ _ I3)). reflexivity. }
  assert (Sz4 : v_size v4 = v_size v + 1) by (unfold v4; rewrite set_cell_size; exact Sz3).
  split; [eapply vinv_same_store; [apply same_store_set_cell | exact I3]|].
  split.
  { apply abs_ext; [lia | |].
    - rewrite zlen_app, zlen_cons, zlen_firstn, zlen_skipn by (rewrite zlen_abs by lia; lia). rewrite zlen_abs by lia. lia.
    - rewrite Sz4. intros j Hj. unfold tag_at. rewrite G4 by lia.
      rewrite znth_app by lia. rewrite zlen_firstn by (rewrite zlen_abs by lia; lia).
      destruct (pos =? j) eqn:E1.
      + replace (j <? pos) with false by lia. rewrite znth_cons by lia. replace (j - pos =? 0) with true by lia. reflexivity.
      + fold (tag_at v3 j). rewrite T3 by lia.
        destruct (j <? pos) eqn:E2.
        * replace ((v_size v + 1 - Z.of_nat (Z.to_nat (v_size v - pos)) <=? j) && (j <? v_size v + 1)) with false by lia.
          replace ((v_size v - Z.of_nat (Z.to_nat (v_size v - pos)) <=? j)) with false by lia. rewrite andb_false_l.
          unfold tag_at. rewrite G2 by lia. replace (v_size v =? j) with false by lia. rewrite znth_firstn, znth_abs by lia. reflexivity.
        * replace ((v_size v + 1 - Z.of_nat (Z.to_nat (v_size v - pos)) <=? j) && (j <? v_size v + 1)) with true by lia.
          unfold tag_at. rewrite G2 by lia. replace (v_size v =? j - 1) with false by lia.
          rewrite znth_cons by lia. replace (j - pos =? 0) with false by lia. rewrite znth_skipn, znth_abs by lia.
          unfold tag_at. f_equal. f_equal. lia. }
  split; [reflexivity|]. split; [rewrite B3; unfold L2; apply c_construct_bad|].
  split; [unfold v4; rewrite set_cell_shift; destruct S3 as (X & _); rewrite X; unfold v2; rewrite set_cell_shift; exact Sh1|].
  intros [CA CB].
  assert (LV2 : forall j, v_size v - Z.of_nat (Z.to_nat (v_size v - pos)) <= j < v_size v + 1 -> live_at v2 j = true).
  { intros j Hj. unfold live_at, st_at. rewrite G2 by lia. destruct (v_size v =? j) eqn:E1; [reflexivity|].
    fold (st_at v j). rewrite CA by lia. reflexivity. }
  destruct (D3 LV2) as (DL3 & ST3).
  assert (LP : live_at v3 pos = true).
  { unfold live_at. rewrite ST3 by lia. ifs; try reflexivity. fold (live_at v2 pos). apply LV2. lia. }
  split.
  - split; rewrite Sz4.
    + intros j Hj. unfold st_at. rewrite G4 by lia. destruct (pos =? j) eqn:E1.
      * unfold assigned. simpl. unfold live_at, st_at in LP. rewrite LP. reflexivity.
      * fold (st_at v3 j). destruct (Z_lt_ge_dec j pos) as [Lt|Ge].
        -- unfold st_at. rewrite F3 by lia. rewrite G2 by lia. replace (v_size v =? j) with false by lia. apply CA. lia.
        -- rewrite ST3 by lia. replace (v_size v + 1 - Z.of_nat (Z.to_nat (v_size v - pos)) <=? j) with true by lia. reflexivity.
    + intros j Hj. unfold live_at, st_at. rewrite G4 by lia. replace (pos =? j) with false by lia.
      rewrite F3 by lia. rewrite G2 by lia. replace (v_size v =? j) with false by lia. apply (CB j). lia.
  - exists 1, 0. split; [|lia].
    eapply ldelta_eq; [eapply ldelta_trans; [apply (c_construct_delta KValue 0 (get_cell v1 (v_size v)) L) |
                                             eapply ldelta_trans; [exact DL3 | apply c_assign_delta]] | lia | lia].
    + rewrite C1. apply (CB (v_size v)). lia.
    + exact LP.
Qed.

Lemma insert_list_spec tr max_n pos tags v L : fits tr max_n -> vinv tr v -> 0 <= pos <= v_size v -> v_size v + zlen tags <= max_n ->
  let r := insert_list tr pos tags (v, L) in
  let v' := fst (fst r) in let L' := snd (fst r) in
  vinv tr v' /\ abs v' = zfirstn pos (abs v) ++ tags ++ zskipn pos (abs v) /\ snd r = pos /\ cl_bad L' = cl_bad L /\
  v_shift v' = v_shift v /\ life_ok v L v' L'.
Proof.
  intros F I Hp Hn. unfold insert_list, vl_size, vl_with_size. cbn [fst snd].
  pose proof (zlen_nonneg tags) as ZN. pose proof (vi_size _ _ I) as Sz.
  pose proof (alloc_span_grow tr max_n v L (zlen tags) F I ZN Hn) as A. cbv zeta in A. unfold zlen in A.
  destruct (alloc_span tr (v_size v) (Z.of_nat (length tags)) (with_size v (v_size v + Z.of_nat (length tags)), L)) as [v1 L1].
  cbn [fst snd] in A. destruct A as (EL & I1 & Sz1 & Sh1 & C1). subst L1.
  fold (zlen tags) in *. set (len := zlen tags) in *. set (e := v_size v) in *.
  (* default-construct [e, e + len) *)
  pose proof (construct_down_spec (length tags) (e + len) v1 L (vi_wf _ _ I1) ltac:(unfold len, zlen; lia)
                ltac:(intros j Hj; apply (vinv_valid tr); [exact I1 | unfold len, zlen in *; lia])) as [(S2 & B2 & C2) D2].
  set (r2 := construct_down (length tags) (e + len) (v1, L)) in *.
  assert (I2 : vinv tr (fst r2)) by (eapply vinv_same_store; eauto).
  assert (Sz2 : v_size (fst r2) = e + len) by (destruct S2 as (_ & X & _); lia).
  assert (Sh2 : v_shift (fst r2) = v_shift v) by (destruct S2 as (X & _); lia).
  assert (G2 : forall j, 0 <= j -> get_cell (fst r2) j = if (e <=? j) && (j <? e + len) then mkCell Alive 0 else get_cell v j).
  { intros j Hj. rewrite C2 by exact Hj. replace (e + len - Z.of_nat (length tags)) with e by (unfold len, zlen; lia). rewrite C1. reflexivity. }
  destruct r2 as [v2 L2] eqn:E2. cbn [fst snd] in *.
  (* move [pos, e) up by len *)
  assert (R3 : exists v3 L3, move_bwd (Z.to_nat (e - pos)) e (e + len) (v2, L2) = (v3, L3) /\ same_store v2 v3 /\ cl_bad L3 = cl_bad L /\
    (forall j, 0 <= j -> tag_at v3 j = if (pos + len <=? j) && (j <? e + len) then tag_at v (j - len)
                                        else if (pos <=? j) && (j <? Z.min e (pos + len)) then (if len =? 0 then tag_at v j else kMovedTag)
                                        else tag_at v2 j) /\
    (clean v -> ldelta L2 L3 0 0 /\ (forall j, pos <= j < e + len -> live_at v3 j = true) /\
                (forall j, pos + len <= j < e + len -> st_at v3 j = Alive) /\
                (forall j, 0 <= j -> j < pos \/ e + len <= j -> get_cell v3 j = get_cell v2 j))).
  { assert (LV2 : clean v -> forall j, pos <= j < e + len -> live_at v2 j = true).
    { intros [CA CB] j Hj. unfold live_at, st_at. rewrite G2 by lia. destruct ((e <=? j) && (j <? e + len)) eqn:E1; [reflexivity|].
      fold (st_at v j). rewrite CA by (unfold e in *; lia). reflexivity. }
    destruct (Z.eq_dec len 0) as [L0|LN].
    - rewrite L0. replace (e + 0) with e by lia.
      pose proof (move_bwd_self (Z.to_nat (e - pos)) e v2 L2 (vi_wf _ _ I2) ltac:(lia)
                    ltac:(intros j Hj; apply (vinv_valid tr); [exact I2 | lia])) as M. cbv zeta in M.
      destruct (move_bwd (Z.to_nat (e - pos)) e e (v2, L2)) as [v3 L3]. cbn [fst snd] in M.
      destruct M as (S3 & B3 & T3 & F3 & D3). exists v3, L3. split; [reflexivity|]. split; [exact S3|]. split; [congruence|]. split.
      + intros j Hj. rewrite T3 by exact Hj. unfold tag_at. rewrite G2 by lia.
        replace ((e <=? j) && (j <? e + len)) with false by lia.
        ifs; try lia; try reflexivity. replace (j - 0) with j by lia. reflexivity.
      + intros CV. destruct (D3 ltac:(intros j Hj; apply (LV2 CV); lia)) as (DL & ST).
        split; [exact DL|]. split; [|split].
        * intros j Hj. unfold live_at. rewrite ST by lia. reflexivity.
        * intros j Hj. apply ST. lia.
        * intros j Hj Hout. apply F3; lia.
    - pose proof (move_bwd_spec len (Z.to_nat (e - pos)) e v2 L2 (vi_wf _ _ I2) ltac:(lia) ltac:(lia)
                    ltac:(intros j Hj; apply (vinv_valid tr); [exact I2 | lia])) as M. cbv zeta in M.
      destruct (move_bwd (Z.to_nat (e - pos)) e (e + len) (v2, L2)) as [v3 L3]. cbn [fst snd] in M.
      destruct M as (S3 & B3 & T3 & F3 & D3). exists v3, L3. split; [reflexivity|]. split; [exact S3|]. split; [congruence|]. split.
      + intros j Hj. rewrite T3 by exact Hj. replace (len =? 0) with false by lia.
        replace (e + len - Z.of_nat (Z.to_nat (e - pos))) with (pos + len) by lia.
        replace (e - Z.of_nat (Z.to_nat (e - pos))) with pos by lia.
        destruct ((pos + len <=? j) && (j <? e + len)) eqn:E1; [|reflexivity].
        unfold tag_at. rewrite G2 by lia. replace ((e <=? j - len) && (j - len <? e + len)) with false by lia. reflexivity.
      + intros CV. destruct (D3 ltac:(intros j Hj; apply (LV2 CV); lia)) as (DL & ST).
        split; [exact DL|]. split; [|split].
        * intros j Hj. unfold live_at. rewrite ST by lia. ifs; try reflexivity.
          apply (LV2 CV). lia.
        * intros j Hj. rewrite ST by lia. replace (e + len - Z.of_nat (Z.to_nat (e - pos)) <=? j) with true by lia. reflexivity.
        * intros j Hj Hout. apply F3; lia. }
  destruct R3 as (v3 & L3 & ER & S3 & B3 & T3 & D3). rewrite ER.
  assert (I3 : vinv tr v3) by (eapply vinv_same_store; eauto).
  assert (Sz3 : v_size v3 = e + len) by (destruct S3 as (_ & X & _); lia).
  (* copy-assign the new values *)
  pose proof (assign_list_spec tags pos v3 L3 (vi_wf _ _ I3) ltac:(lia)
                ltac:(intros j Hj; apply (vinv_valid tr); [exact I3 | unfold len, zlen in *; lia])) as [(S4 & B4 & C4) D4].
  set (r4 := assign_list tags pos (v3, L3)) in *. cbn [fst snd].
  change (Z.of_nat (length tags)) with len in C4, D4.
  assert (Sz4 : v_size (fst r4) = e + len) by (destruct S4 as (_ & X & _); lia).
  split; [eapply vinv_same_store; eauto|].
  split.
  { apply abs_ext; [lia | |].
    - rewrite !zlen_app, zlen_firstn, zlen_skipn by (rewrite zlen_abs by lia; unfold e in *; lia). rewrite zlen_abs by lia. unfold len, e in *. lia.
    - rewrite Sz4. intros j Hj. unfold tag_at. rewrite C4 by lia. fold len.
      rewrite znth_app by lia. rewrite zlen_firstn by (rewrite zlen_abs by lia; unfold e in *; lia).
      destruct ((pos <=? j) && (j <? pos + len)) eqn:E1.
      + replace (j <? pos) with false by lia. rewrite znth_app by lia. fold len. replace (j - pos <? len) with true by lia. reflexivity.
      + fold (tag_at v3 j). rewrite T3 by lia.
        destruct (j <? pos) eqn:E4.
        * replace ((pos + len <=? j) && (j <? e + len)) with false by lia. replace ((pos <=? j) && (j <? Z.min e (pos + len))) with false by lia.
          unfold tag_at. rewrite G2 by lia. replace ((e <=? j) && (j <? e + len)) with false by lia.
          rewrite znth_firstn, znth_abs by (unfold e in *; lia). reflexivity.
        * replace ((pos + len <=? j) && (j <? e + len)) with true by lia.
          rewrite znth_app by lia. fold len. replace (j - pos <? len) with false by lia.
          rewrite znth_skipn, znth_abs by (unfold e in *; lia). f_equal. lia. }
  split; [reflexivity|]. split; [congruence|].
  split; [destruct S4 as (X & _); destruct S3 as (Y & _); lia|].
  intros CV. destruct (D3 CV) as (DL3 & LV3 & ST3 & F3). destruct CV as [CA CB].
  split.
  - split; rewrite Sz4.
    + intros j Hj. unfold st_at. rewrite C4 by lia. fold len.
      destruct ((pos <=? j) && (j <? pos + len)) eqn:E1.
      * unfold assigned. simpl. pose proof (LV3 j ltac:(lia)) as X. unfold live_at, st_at in X. rewrite X. reflexivity.
      * destruct (Z_lt_ge_dec j pos) as [Lt|Ge].
        -- rewrite F3 by lia. rewrite G2 by lia. replace ((e <=? j) && (j <? e + len)) with false by lia. apply CA. unfold e in *. lia.
        -- apply ST3. lia.
    + intros j Hj. unfold live_at, st_at. rewrite C4 by lia. fold len. replace ((pos <=? j) && (j <? pos + len)) with false by lia.
      rewrite F3 by lia. rewrite G2 by lia. replace ((e <=? j) && (j <? e + len)) with false by lia. apply (CB j). unfold e in *. lia.
  - exists len, 0. split; [|unfold e; lia].
    eapply ldelta_eq; [eapply ldelta_trans; [apply D2 | eapply ldelta_trans; [exact DL3 | apply D4]] | unfold len, zlen; lia | lia].
    + intros j Hj. rewrite C1. apply (CB j). unfold len, zlen, e in *. lia.
    + intros j Hj. apply LV3. unfold len, zlen in *. lia.
Qed.

(* ------------------------------------------------------------------------------------------------ assign *)
Lemma assign_tags_spec tr max_n tags v L : fits tr max_n -> vinv tr v -> zlen tags <= max_n ->
  let r := assign_tags tr tags (v, L) in
  vinv tr (fst r) /\ abs (fst r) = tags /\ cl_bad (snd r) = cl_bad L /\ v_shift (fst r) = v_shift v /\ life_ok v L (fst r) (snd r).
Proof.
  intros F I Hn. unfold assign_tags. pose proof (zlen_nonneg tags) as ZN. fold (zlen tags). set (n := zlen tags) in *.
  pose proof (clear_spec tr v L I) as C. cbv zeta in C. destruct (clear (v, L)) as [v1 L1]. cbn [fst snd] in C.
  destruct C as (I1 & _ & Sz1 & B1 & Sh1 & LO1).
  pose proof (reserve_spec tr max_n v1 L1 n F I1 ltac:(lia)) as R. cbv zeta in R.
  destruct (reserve tr n (v1, L1)) as [v2 L2]. cbn [fst snd] in R.
  destruct R as (EL & I2 & Sz2 & Sh2 & C2 & A2). subst L2. unfold vl_with_size. cbn [fst snd].
  set (v3 := with_size v2 n).
  assert (I3 : vinv tr v3).
  { destruct I2 as [W2 S2 Bs2 Ai2 NB2]. constructor; simpl; auto; try lia. rewrite Sh2. exact A2. }
  pose proof (construct_list_spec KCopy tags 0 v3 L1 (vi_wf _ _ I3) ltac:(lia)
                ltac:(intros j Hj; apply (vinv_valid tr); [exact I3 | simpl; unfold n, zlen; lia])) as [(S4 & B4 & C4) D4].
  set (r := construct_list KCopy tags 0 (v3, L1)) in *. change (Z.of_nat (length tags)) with n in *.
  assert (Sz4 : v_size (fst r) = n) by (destruct S4 as (_ & X & _); exact X).
  split; [eapply vinv_same_store; eauto|].
  split.
  { apply abs_ext; [lia | lia |]. rewrite Sz4. intros j Hj. unfold tag_at. rewrite C4 by lia.
    replace ((0 <=? j) && (j <? 0 + n)) with true by lia. simpl. f_equal. lia. }
  split; [congruence|]. split; [destruct S4 as (X & _); simpl in X; lia|].
  intros CV. destruct (life_ok_lnet _ _ _ _ LO1 CV) as ([CA1 CB1] & LN1).
  assert (NL3 : forall j, 0 <= j -> live_at v3 j = false).
  { intros j Hj. unfold live_at, st_at, v3. rewrite get_cell_with_size, C2. apply (CB1 j). lia. }
  split.
  - split; rewrite Sz4.
    + intros j Hj. unfold st_at. rewrite C4 by lia. replace ((0 <=? j) && (j <? 0 + n)) with true by lia. reflexivity.
    + intros j Hj. unfold live_at, st_at. rewrite C4 by lia. replace ((0 <=? j) && (j <? 0 + n)) with false by lia. apply NL3. lia.
  - destruct (LO1 CV) as (_ & dc & dd & DL1 & E1).
    exists (dc + n), (dd + 0). split; [|lia].
    eapply ldelta_trans; [exact DL1 | apply D4]. intros j Hj. apply NL3. lia.
Qed.

(* ------------------------------------------------------------------------------------------------ constructors *)
Lemma next_pow2_spec v : v <= next_pow2 v /\ 2 ^ Z.log2 (next_pow2 v) = next_pow2 v /\ 1 <= next_pow2 v.
Proof.
  unfold next_pow2. destruct (v <=? 1) eqn:E.
  - split; [lia|]. split; reflexivity || lia.
  - assert (H : 1 < v) by lia. pose proof (Z.log2_up_spec v H) as [_ U]. pose proof (Z.log2_up_nonneg v) as NN.
    split; [exact U|]. split; [rewrite Z.log2_pow2 by exact NN; reflexivity|]. pose proof (pow2_pos (Z.log2_up v) NN). lia.
Qed.

Lemma first_shift_spec tr c : 0 <= first_shift tr c /\ c <= 2 ^ first_shift tr c.
Proof.
  unfold first_shift. split; [apply Z.log2_nonneg|].
  destruct (next_pow2_spec (Z.max c (Z.quot (t_defcap tr) 2))) as (A & B & _). rewrite B. lia.
Qed.

Lemma get_buf_empty tr shift k : 3 <= max_buffers tr ->
  get_buf (empty_bufs tr shift) k = if (k =? 0) || (k =? 1) then Some (fresh_bucket (2 ^ shift)) else None.
Proof.
  intros H. unfold get_buf, empty_bufs. destruct (k <? 0) eqn:E; [replace (k =? 0) with false by lia; replace (k =? 1) with false by lia; reflexivity|].
  destruct (k =? 0) eqn:E0; [replace (Z.to_nat k) with 0%nat by lia; reflexivity|].
  destruct (k =? 1) eqn:E1; [replace (Z.to_nat k) with 1%nat by lia; reflexivity|]. simpl.
  replace (Z.to_nat k) with (S (S (Z.to_nat k - 2))) by lia. cbn [nth].
  destruct (Nat.lt_ge_cases (Z.to_nat k - 2) (Z.to_nat (max_buffers tr) - 2)) as [Lt|Ge].
  - apply nth_repeat.
  - apply nth_overflow. rewrite repeat_length. exact Ge.
Qed.

Lemma ainv_first strat shift bs n : 0 <= shift -> base bs -> 0 <= n <= 2 ^ shift -> ainv strat shift bs n.
Proof.
  intros Hs [B0 B1] Hn. pose proof (bsi_facts shift n Hs ltac:(lia)) as (Bn & Sn & Cn & En).
  assert (K : bkt shift n <= 1).
  { pose proof (bkt_mono shift n (2 ^ shift) Hs ltac:(lia)) as M.
    pose proof (bkt_of_start shift 1 0 Hs ltac:(lia) ltac:(pose proof (bucket_cap_pos shift 1 Hs); lia)) as (K1 & _).
    unfold bucket_start in K1. simpl in K1. replace (shift + 1 - 1) with shift in K1 by lia. replace (2 ^ shift + 0) with (2 ^ shift) in K1 by lia. lia. }
  split.
  - intros b Hb. assert (b = 0 \/ b = 1) as [->| ->] by lia; assumption.
  - intros H. destruct (Z.eq_dec (bkt shift n) 0) as [E0|E1]; [rewrite E0; exact B1|].
    (* bucket 1 holds only index 2^shift = bucket_start 1: sub-index 0, never past the check index *)
    exfalso. assert (E : bkt shift n = 1) by lia. rewrite E in En. unfold bucket_start in En. simpl in En.
    replace (shift + 1 - 1) with shift in En by lia.
    pose proof (check_index_range strat (capof shift n) ltac:(lia)). lia.
Qed.

Lemma ctor_reserve_spec tr max_n c : fits tr max_n ->
  let v := ctor_reserve tr c in
  vinv tr v /\ abs v = [] /\ v_size v = 0 /\ c <= 2 ^ v_shift v /\ (forall j, get_cell v j = raw) /\ clean v.
Proof.
  intros (F1 & F2 & F3). cbv zeta. unfold ctor_reserve.
  destruct (first_shift_spec tr c) as [S0 S1]. set (sh := first_shift tr c) in *.
  pose proof (Z.log2_nonneg max_n) as LN.
  assert (G : forall j, get_cell (mkV sh (empty_bufs tr sh) 0) j = raw).
  { intros j. unfold get_cell, get_bs. cbn [v_shift v_bufs]. rewrite bsi_eta, get_buf_empty by lia.
    destruct ((bkt sh j =? 0) || (bkt sh j =? 1)); [|reflexivity].
    destruct (0 <=? sub sh j); [|reflexivity]. unfold fresh_bucket. apply nth_repeat_raw. }
  assert (B : base (empty_bufs tr sh)) by (split; unfold is_alloc; rewrite get_buf_empty by lia; reflexivity).
  split.
  { constructor; cbn [v_shift v_bufs v_size].
    - split; [exact S0|]. intros b l. cbn [v_bufs v_shift]. rewrite get_buf_empty by lia.
      destruct ((b =? 0) || (b =? 1)) eqn:E; [|discriminate]. intros H; inversion H; subst l.
      rewrite fresh_bucket_length by (pose proof (pow2_pos sh S0); lia).
      assert (b = 0 \/ b = 1) as [->| ->] by lia; reflexivity.
    - lia.
    - exact B.
    - apply ainv_zero; assumption.
    - unfold empty_bufs. simpl length. rewrite repeat_length. lia. }
  split; [reflexivity|]. split; [reflexivity|]. split; [exact S1|]. split; [exact G|].
  split; cbn [v_size]; [intros; lia|]. intros j Hj. unfold live_at, st_at. rewrite G. reflexivity.
Qed.

(* the sizing and range constructors: n elements with the given tags *)
Lemma ctor_fill_spec tr max_n k tags L (viabs : bool) : fits tr max_n -> zlen tags <= max_n ->
  let r := (if viabs then construct_bs k tags 0 0 else construct_list k tags 0) (with_size (ctor_reserve tr (zlen tags)) (zlen tags), L) in
  vinv tr (fst r) /\ abs (fst r) = tags /\ cl_bad (snd r) = cl_bad L /\ clean (fst r) /\ ldelta L (snd r) (zlen tags) 0.
Proof.
  intros F Hn. pose proof (zlen_nonneg tags) as ZN. set (n := zlen tags) in *.
  pose proof (ctor_reserve_spec tr max_n n F) as C. cbv zeta in C. destruct C as (I0 & _ & Sz0 & Cap & G0 & _).
  set (v0 := ctor_reserve tr n) in *. set (v1 := with_size v0 n).
  assert (I1 : vinv tr v1).
  { destruct I0 as [W0 S0 Bs0 Ai0 NB0]. constructor.
    - exact W0.
    - unfold v1. cbn [v_size with_size]. lia.
    - exact Bs0.
    - unfold v1. cbn [v_shift v_bufs v_size with_size]. apply ainv_first; [apply W0 | exact Bs0 | lia].
    - exact NB0. }
  assert (E : (if viabs then construct_bs k tags 0 0 else construct_list k tags 0) (v1, L) = construct_list k tags 0 (v1, L)).
  { destruct viabs; [|reflexivity]. rewrite construct_bs_eq; cbn [fst]; try lia; [reflexivity | apply (vi_wf _ _ I1) |].
    change (bucket_cap (v_shift v1) 0) with (2 ^ v_shift v0). unfold n, zlen in *. lia. }
  cbv zeta. fold v0. fold v1. rewrite E.
  pose proof (construct_list_spec k tags 0 v1 L (vi_wf _ _ I1) ltac:(lia)
                ltac:(intros j Hj; apply (vinv_valid tr); [exact I1 | simpl; unfold n, zlen; lia])) as [(S4 & B4 & C4) D4].
  set (r := construct_list k tags 0 (v1, L)) in *. change (Z.of_nat (length tags)) with n in *.
  assert (Sz4 : v_size (fst r) = n) by (destruct S4 as (_ & X & _); exact X).
  split; [eapply vinv_same_store; eauto|].
  split.
  { apply abs_ext; [lia | lia |]. rewrite Sz4. intros j Hj. unfold tag_at. rewrite C4 by lia.
    replace ((0 <=? j) && (j <? 0 + n)) with true by lia. simpl. f_equal. lia. }
  split; [exact B4|]. split.
  - split; rewrite Sz4.
    + intros j Hj. unfold st_at. rewrite C4 by lia. replace ((0 <=? j) && (j <? 0 + n)) with true by lia. reflexivity.
    + intros j Hj. unfold live_at, st_at. rewrite C4 by lia. replace ((0 <=? j) && (j <? 0 + n)) with false by lia.
      unfold v1. rewrite get_cell_with_size, G0. reflexivity.
  - apply D4. intros j Hj. unfold v1. rewrite get_cell_with_size, G0. reflexivity.
Qed.

(* a moved-out vector: fresh first two buffers with the same shift *)
Lemma empty_vec_spec tr max_n sh : fits tr max_n -> 0 <= sh ->
  let v := mkV sh (empty_bufs tr sh) 0 in
  vinv tr v /\ abs v = [] /\ clean v.
Proof.
  intros (F1 & F2 & F3) S0. cbv zeta. pose proof (Z.log2_nonneg max_n) as LN.
  assert (G : forall j, get_cell (mkV sh (empty_bufs tr sh) 0) j = raw).
  { intros j. unfold get_cell, get_bs. cbn [v_shift v_bufs]. rewrite bsi_eta, get_buf_empty by lia.
    destruct ((bkt sh j =? 0) || (bkt sh j =? 1)); [|reflexivity].
    destruct (0 <=? sub sh j); [|reflexivity]. unfold fresh_bucket. apply nth_repeat_raw. }
  assert (B : base (empty_bufs tr sh)) by (split; unfold is_alloc; rewrite get_buf_empty by lia; reflexivity).
  split.
  { constructor; cbn [v_shift v_bufs v_size].
    - split; [exact S0|]. intros b l. cbn [v_bufs v_shift]. rewrite get_buf_empty by lia.
      destruct ((b =? 0) || (b =? 1)) eqn:E; [|discriminate]. intros H; inversion H; subst l.
      rewrite fresh_bucket_length by (pose proof (pow2_pos sh S0); lia).
      assert (b = 0 \/ b = 1) as [->| ->] by lia; reflexivity.
    - lia.
    - exact B.
    - apply ainv_zero; assumption.
    - unfold empty_bufs. simpl length. rewrite repeat_length. lia. }
  split; [reflexivity|].
  split; cbn [v_size]; [intros; lia|]. intros j Hj. unfold live_at, st_at. rewrite G. reflexivity.
Qed.

(* reading every element of a vector *)
Lemma use_all_spec v L : cl_bad (use_all v L) = cl_bad L /\ ((forall j, 0 <= j < v_size v -> live_at v j = true) -> use_all v L = L).
Proof.
  unfold use_all, cells.
  assert (G : forall (l : list Z) L0, cl_bad (fold_left (fun L c => c_use c L) (map (get_cell v) l) L0) = cl_bad L0 /\
              ((forall j, In j l -> live_at v j = true) -> fold_left (fun L c => c_use c L) (map (get_cell v) l) L0 = L0)).
  { induction l as [|x r IH]; intros L0; [split; reflexivity|]. simpl.
    destruct (IH (c_use (get_cell v x) L0)) as [A B]. split.
    - rewrite A. unfold c_use. destruct (c_st (get_cell v x)); reflexivity.
    - intros H. rewrite B by (intros j Hj; apply H; right; exact Hj).
      pose proof (H x ltac:(left; reflexivity)) as X. unfold live_at, st_at in X. unfold c_use. destruct (c_st (get_cell v x)); try discriminate; reflexivity. }
  destruct (G (zseq 0 (v_size v)) L) as [A B]. split; [exact A|].
  intros H. apply B. intros j Hj. apply H. unfold zseq in Hj. apply in_map_iff in Hj. destruct Hj as (k & <- & Hk).
  apply in_seq in Hk. lia.
Qed.

Lemma last_znth l : last l 0 = znth l (zlen l - 1).
Proof.
  unfold znth, zlen. induction l as [|x r IH]; [reflexivity|].
  destruct r as [|y r']; [reflexivity|].
  change (last (x :: y :: r') 0) with (last (y :: r') 0). rewrite IH.
  simpl length. replace (Z.to_nat (Z.of_nat (S (S (length r'))) - 1)) with (S (Z.to_nat (Z.of_nat (S (length r')) - 1))) by lia. reflexivity.
Qed.
