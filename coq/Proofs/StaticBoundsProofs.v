(* The per-chunk boundaries parallel_for derives from a StaticChunking are a contiguous partition. *)
From Coq Require Import ZArith List Bool Lia Zdiv Setoid Morphisms.
From DV Require Import Base.MachInt Model.ChunkModel Proofs.ChunkProofs.
Import ListNotations.
Local Open Scope Z_scope.


(* prefix offset of chunk i *)
Definition off (t c u i : Z) : Z := Z.min i t * c + (i - Z.min i t) * (c - u).

Lemma off_0 t c u : 0 <= t -> off t c u 0 = 0.
Proof. intros; unfold off; rewrite Z.min_l by lia; lia. Qed.
Lemma off_step t c u i : 0 <= i -> 0 <= t ->
  off t c u (i + 1) = off t c u i + (if i <? t then c else c - u).
Proof.
  intros Hi Ht; unfold off.
  destruct (i <? t) eqn:E; [apply Z.ltb_lt in E | apply Z.ltb_ge in E].
  - rewrite !Z.min_l by lia. ring.
  - rewrite !Z.min_r by lia. ring.
Qed.
Lemma off_mono t c u i : 0 <= i -> 0 <= t -> 0 <= c -> (i < t \/ u <= c) -> off t c u i <= off t c u (i + 1).
Proof. intros Hi Ht Hc H; rewrite off_step by lia. destruct (i <? t) eqn:E; [|apply Z.ltb_ge in E]; lia. Qed.

Lemma off_bounds t c u n i : 0 <= t <= n -> 0 <= c -> 0 <= u -> (t < n -> u <= c) -> 0 <= i <= n ->
  0 <= off t c u i <= off t c u n.
Proof.
  intros Ht Hc Hu Huc Hi. unfold off.
  destruct (Z.le_gt_cases i t) as [L|L].
  - rewrite (Z.min_l i t) by lia. rewrite (Z.min_r n t) by lia.
    replace (i - i) with 0 by lia.
    destruct (Z.eq_dec t n) as [->|N]; [nia|]. assert (u <= c) by lia. nia.
  - rewrite (Z.min_r i t), (Z.min_r n t) by lia. assert (u <= c) by lia. nia.
Qed.

Lemma gran_or_plain size n g :
  (if 1 <? g then static_chunk_gran size n g else static_chunk size n) = static_chunk_gran size n g.
Proof.
  destruct (1 <? g) eqn:G; [reflexivity|]. apply Z.ltb_ge in G.
  unfold static_chunk_gran. replace (g <=? 1) with true by (symmetry; apply Z.leb_le; lia). reflexivity.
Qed.

Section Bounds.
  Variable k : ikind.
  Hypothesis Hwf : wf_kind k.
  Hypothesis Hw64 : ik_w k <= 64.

  Variables s e n g : Z.
  Hypothesis Hs : in_kind k s.
  Hypothesis He : in_kind k e.
  Hypothesis Hse : s <= e.
  Hypothesis Hn : 1 <= n.
  Hypothesis Hg : 1 <= g.
  Hypothesis Hdiv : (g | e - s).
  Hypothesis Hfit : e - s + n < 2 ^ 63.     (* items + chunks - 1 fits ssize_t; size_type(end) - start does not wrap *)
  (* int32/int64: products i*chunkSize are computed in IntegerT itself; beyond kmax that is signed overflow *)
  Hypothesis Hub : ik_signed k = true -> 32 <= ik_w k -> e - s <= kmax k /\ n <= kmax k.

  Local Notation size := (e - s).
  Local Notation tc := (static_chunk_gran size n g).
  Local Notation t := (fst tc).
  Local Notation c := (snd tc).
  Local Notation u := (unit_of g).

  Lemma tc_spec : 0 <= t <= n /\ 0 <= c /\ (u | c) /\ (t < n -> u <= c) /\ (0 < size -> 0 < t) /\
                  t * c + (n - t) * (c - u) = size /\ c <= size.
  Proof.
    pose proof (static_chunk_gran_spec size n g ltac:(lia) ltac:(lia) Hg Hdiv) as S.
    destruct (static_chunk_gran size n g) as [t0 c0]. exact S.
  Qed.

  Lemma off_n : off t c u n = size.
  Proof. destruct tc_spec as (T1 & T2 & T3 & T4 & T5 & T6). unfold off. rewrite Z.min_r by lia. lia. Qed.

  Lemma u_pos : 1 <= u.
  Proof. unfold unit_of; destruct (1 <? g) eqn:E; [apply Z.ltb_lt in E|]; lia. Qed.

  Lemma pow_w_le : 2 ^ ik_w k <= 2 ^ 64.
  Proof. apply Z.pow_le_mono_r; unfold wf_kind in Hwf; lia. Qed.

  Lemma kind_span : kmax k - kmin k = 2 ^ ik_w k - 1.
  Proof.
    unfold kmax, kmin. destruct (ik_signed k); [|lia].
    assert (E : 2 ^ ik_w k = 2 * 2 ^ (ik_w k - 1)).
    { replace (ik_w k) with (Z.succ (ik_w k - 1)) at 1 by lia. rewrite Z.pow_succ_r by (unfold wf_kind in Hwf; lia). reflexivity. }
    lia.
  Qed.

  Lemma range_size_eq : range_size k s e = size.
  Proof.
    unfold range_size, wop, wide; simpl. destruct (ik_signed k); [reflexivity|].
    apply wrap_small. assert (2 ^ 63 < 2 ^ 64) by (apply Z.pow_lt_mono_r; lia). lia.
  Qed.

  Lemma wide_id z : - 2 ^ 63 <= z < 2 ^ 63 -> 0 <= z -> castk (wide k) z = z.
  Proof.
    intros H H0. unfold castk, wide; simpl. destruct (ik_signed k).
    - apply wrap_s_small; simpl; lia.
    - apply wrap_small. assert (2 ^ 63 < 2 ^ 64) by (apply Z.pow_lt_mono_r; lia). lia.
  Qed.

  Lemma wop_wide_id z : 0 <= z < 2 ^ 63 -> wop (wide k) z = z.
  Proof.
    intros H. unfold wop, wide; simpl. destruct (ik_signed k); [reflexivity|].
    apply wrap_small. assert (2 ^ 63 < 2 ^ 64) by (apply Z.pow_lt_mono_r; lia). lia.
  Qed.

  (* configuration computed by parallel_for_staticImpl *)
  Local Notation cfg := (static_mapper_cfg k size n g).
  Local Notation cs := (fst (fst cfg)).
  Local Notation sc := (snd (fst cfg)).
  Local Notation ti := (snd cfg).

  Lemma in_kind_between z : s <= z <= e -> in_kind k z.
  Proof. unfold in_kind in *; lia. Qed.

  Lemma acast_eqm z : eqk k (acast k z) z.
  Proof. unfold acast. destruct (ik_signed k && (32 <=? ik_w k)); [reflexivity | apply castk_eqm; assumption]. Qed.

  Lemma kmin_le_0 : kmin k <= 0.
  Proof. unfold kmin. destruct (ik_signed k); [|lia]. assert (0 < 2 ^ (ik_w k - 1)) by (apply pow2_pos; unfold wf_kind in Hwf; lia). lia. Qed.

  (* exact (non-modular) configuration when IntegerT arithmetic is not re-narrowed *)
  Lemma cfg_spec_exact : ik_signed k && (32 <=? ik_w k) = true ->
    cs = c /\ ti = t /\ (t < n -> sc = c - u).
  Proof.
    intros B. apply andb_true_iff in B. destruct B as [B1 B2]. apply Z.leb_le in B2.
    destruct (Hub B1 B2) as [Hu1 Hu2]. pose proof kmin_le_0 as K0.
    destruct tc_spec as (T1 & T2 & T3 & T4 & T5 & T6).
    assert (P63 : 0 < 2 ^ 63) by (apply pow2_pos; lia).
    unfold static_mapper_cfg. rewrite gran_or_plain. unfold acast. rewrite B1.
    replace (32 <=? ik_w k) with true by (symmetry; apply Z.leb_le; lia). cbn [andb].
    destruct tc as [t0 c0]. cbn [fst snd] in *.
    assert (W : castk (wide k) t0 = t0) by (apply wide_id; lia). rewrite W.
    assert (Cle : c0 <= e - s) by lia.
    assert (CC : castk k c0 = c0) by (apply castk_id; [assumption | unfold in_kind; lia]).
    rewrite CC.
    destruct (t0 =? n) eqn:P; [apply Z.eqb_eq in P | apply Z.eqb_neq in P]; cbn [fst snd].
    - split; [reflexivity|]. split; [lia|]. intros; lia.
    - split; [reflexivity|]. split; [reflexivity|]. intros _. unfold unit_of.
      destruct (1 <? g) eqn:G; [|reflexivity]. apply Z.ltb_lt in G.
      assert (g <= e - s).
      { assert (U' : unit_of g <= c0) by (apply T4; lia). unfold unit_of in U'.
        replace (1 <? g) with true in U' by (symmetry; apply Z.ltb_lt; lia). lia. }
      rewrite castk_id; [reflexivity | assumption | unfold in_kind; lia].
  Qed.

  Lemma cfg_spec :
    eqk k cs c /\ ti = t /\ (t < n -> eqk k sc (c - u)).
  Proof.
    destruct tc_spec as (T1 & T2 & T3 & T4 & T5 & T6).
    assert (P63 : 0 < 2 ^ 63) by (apply pow2_pos; lia).
    unfold static_mapper_cfg.
    rewrite gran_or_plain. destruct tc as [t0 c0]. cbn [fst snd] in *.
    assert (W : castk (wide k) t0 = t0) by (apply wide_id; lia).
    rewrite W.
    destruct (t0 =? n) eqn:P; [apply Z.eqb_eq in P | apply Z.eqb_neq in P]; simpl.
    - split; [apply castk_eqm; assumption|]. split; [lia|]. intros; lia.
    - split; [apply castk_eqm; assumption|]. split; [reflexivity|]. intros _.
      rewrite acast_eqm. rewrite castk_eqm by assumption.
      unfold unit_of. destruct (1 <? g); [rewrite castk_eqm by assumption|]; reflexivity.
  Qed.

  Theorem mapper_exact i : 0 <= i < n ->
    mapper k n cs sc ti s e i = (s + off t c u i, s + off t c u (i + 1)).
  Proof.
    intros Hi.
    destruct tc_spec as (T1 & T2 & T3 & T4 & T5 & T6).
    destruct cfg_spec as (C1 & C2 & C3).
    pose proof u_pos as U.
    pose proof (off_bounds t c u n i T1 T2 ltac:(lia) T4 ltac:(lia)) as B1.
    pose proof (off_bounds t c u n (i + 1) T1 T2 ltac:(lia) T4 ltac:(lia)) as B2.
    rewrite off_n in B1, B2.
    assert (P63 : 0 < 2 ^ 63) by (apply pow2_pos; lia).
    unfold mapper. rewrite C2.
    destruct (ik_signed k && (32 <=? ik_w k)) eqn:AB.
    { (* int32 / int64: exact arithmetic, every value in range *)
      destruct (cfg_spec_exact AB) as (X1 & _ & X3).
      pose proof AB as AB'. apply andb_true_iff in AB'. destruct AB' as [B1' B2']. apply Z.leb_le in B2'.
      destruct (Hub B1' B2') as [Hu1 Hu2]. pose proof kmin_le_0 as K0.
      unfold acast. rewrite AB. rewrite X1.
      rewrite (wop_wide_id (i + 1)) by lia.
      assert (CI : castk k i = i) by (apply castk_id; [assumption | unfold in_kind; lia]).
      assert (CT : castk k t = t) by (apply castk_id; [assumption | unfold in_kind; lia]).
      rewrite CI, CT.
      destruct (i <? t) eqn:E; [apply Z.ltb_lt in E | apply Z.ltb_ge in E].
      - f_equal; [unfold off; rewrite Z.min_l by lia; ring|].
        destruct (i + 1 =? n) eqn:L; [apply Z.eqb_eq in L | apply Z.eqb_neq in L].
        + rewrite L, off_n. lia.
        + rewrite off_step by lia. replace (i <? t) with true by (symmetry; apply Z.ltb_lt; lia).
          unfold off; rewrite Z.min_l by lia; ring.
      - rewrite (wop_wide_id (i - t)) by lia.
        assert (CIT : castk k (i - t) = i - t) by (apply castk_id; [assumption | unfold in_kind; lia]).
        rewrite CIT. rewrite X3 by lia.
        f_equal; [unfold off; rewrite Z.min_r by lia; ring|].
        destruct (i + 1 =? n) eqn:L; [apply Z.eqb_eq in L | apply Z.eqb_neq in L].
        + rewrite L, off_n. lia.
        + rewrite off_step by lia. replace (i <? t) with false by (symmetry; apply Z.ltb_ge; lia).
          unfold off; rewrite Z.min_r by lia; ring. }
    assert (AC : forall z, acast k z = castk k z) by (intros z; unfold acast; rewrite AB; reflexivity).
    rewrite !AC.
    assert (S1 : (if i <? t
                  then castk k (s + castk k (castk k i * cs))
                  else castk k (s + castk k (castk k t * cs) + castk k (castk k (wop (wide k) (i - t)) * sc)))
                 = s + off t c u i).
    { destruct (i <? t) eqn:E; [apply Z.ltb_lt in E | apply Z.ltb_ge in E].
      - apply castk_of_eqm; [assumption| |apply in_kind_between; lia].
        rewrite !castk_eqm by assumption. rewrite C1. unfold off. rewrite Z.min_l by lia.
        replace (i - i) with 0 by lia. apply eqk_refl2. ring.
      - apply castk_of_eqm; [assumption| |apply in_kind_between; lia].
        rewrite wop_wide_id by lia.
        rewrite !castk_eqm by assumption. rewrite C1, C3 by lia. unfold off. rewrite Z.min_r by lia.
        apply eqk_refl2. ring. }
    rewrite S1. f_equal.
    rewrite (wop_wide_id (i + 1)) by lia.
    destruct (i + 1 =? n) eqn:L; [apply Z.eqb_eq in L | apply Z.eqb_neq in L].
    - rewrite L, off_n. lia.
    - rewrite off_step by lia.
      destruct (i <? t) eqn:E; [apply Z.ltb_lt in E | apply Z.ltb_ge in E].
      + apply castk_of_eqm; [assumption| |apply in_kind_between; rewrite off_step in B2 by lia;
          replace (i <? t) with true in B2 by (symmetry; apply Z.ltb_lt; lia); lia].
        rewrite C1. apply eqk_refl2. ring.
      + apply castk_of_eqm; [assumption| |apply in_kind_between; rewrite off_step in B2 by lia;
          replace (i <? t) with false in B2 by (symmetry; apply Z.ltb_ge; lia); lia].
        rewrite C3 by lia. apply eqk_refl2. ring.
  Qed.
End Bounds.

(* ---------- contiguity of a list of prefix-offset intervals ---------- *)
Lemma contiguous_offsets (o : Z -> Z) (base : Z) (len a : nat) :
  (forall i, (a <= i < a + len)%nat -> o (Z.of_nat i) <= o (Z.of_nat i + 1)) ->
  contiguous (base + o (Z.of_nat a))
             (map (fun i => (base + o (Z.of_nat i), base + o (Z.of_nat i + 1))) (seq a len))
             (base + o (Z.of_nat (a + len))).
Proof.
  revert a. induction len as [|len IH]; intros a M.
  - simpl. rewrite Nat.add_0_r. reflexivity.
  - cbn [seq map contiguous]. split; [reflexivity|]. split; [specialize (M a ltac:(lia)); lia|].
    replace (Z.of_nat a + 1) with (Z.of_nat (S a)) by lia.
    replace (a + S len)%nat with (S a + len)%nat by lia.
    apply IH. intros i Hi. apply M. lia.
Qed.

Section BoundsList.
  Variable k : ikind.
  Hypothesis Hwf : wf_kind k.
  Hypothesis Hw64 : ik_w k <= 64.
  Variables s e n g : Z.
  Hypothesis Hs : in_kind k s.
  Hypothesis He : in_kind k e.
  Hypothesis Hse : s <= e.
  Hypothesis Hn : 1 <= n.
  Hypothesis Hg : 1 <= g.
  Hypothesis Hdiv : (g | e - s).
  Hypothesis Hfit : e - s + n < 2 ^ 63.
  Hypothesis Hub : ik_signed k = true -> 32 <= ik_w k -> e - s <= kmax k /\ n <= kmax k.

  Local Notation tc := (static_chunk_gran (e - s) n g).

  Theorem static_bounds_exact :
    static_bounds k s e n g =
    map (fun i => (s + off (fst tc) (snd tc) (unit_of g) (Z.of_nat i),
                   s + off (fst tc) (snd tc) (unit_of g) (Z.of_nat i + 1))) (seq 0 (Z.to_nat n)).
  Proof.
    unfold static_bounds. rewrite (range_size_eq k s e n) by assumption.
    assert (M : forall i, 0 <= i < n ->
      mapper k n (fst (fst (static_mapper_cfg k (e - s) n g))) (snd (fst (static_mapper_cfg k (e - s) n g)))
        (snd (static_mapper_cfg k (e - s) n g)) s e i =
      (s + off (fst tc) (snd tc) (unit_of g) i, s + off (fst tc) (snd tc) (unit_of g) (i + 1)))
      by (intros; apply mapper_exact; assumption).
    destruct (static_mapper_cfg k (e - s) n g) as [[cs sc] ti]. cbn [fst snd] in M.
    apply map_ext_in. intros i Hi. apply in_seq in Hi. apply M. lia.
  Qed.

  Theorem static_bounds_contiguous : contiguous s (static_bounds k s e n g) e.
  Proof.
    rewrite static_bounds_exact.
    assert (TS := tc_spec s e n g ltac:(assumption) ltac:(assumption) ltac:(assumption) ltac:(assumption)). destruct TS as (T1 & T2 & T3 & T4 & T5 & T6).
    pose proof (contiguous_offsets (off (fst tc) (snd tc) (unit_of g)) s (Z.to_nat n) 0) as C.
    rewrite off_0 in C by lia. rewrite Z.add_0_r in C.
    replace (Z.of_nat (0 + Z.to_nat n)) with n in C by lia.
    rewrite (off_n s e n g) in C by assumption.
    replace (s + (e - s)) with e in C by lia.
    apply C. intros i Hi. apply off_mono; try lia.
  Qed.

  Theorem static_bounds_lengths i : (i < Z.to_nat n)%nat ->
    let '(a, b) := nth i (static_bounds k s e n g) (0, 0) in
    b - a = chunk_len (e - s) n g (Z.of_nat i).
  Proof.
    intros Hi. rewrite static_bounds_exact.
    assert (TS := tc_spec s e n g ltac:(assumption) ltac:(assumption) ltac:(assumption) ltac:(assumption)). destruct TS as (T1 & T2 & T3 & T4 & T5 & T6).
    set (f := fun i0 : nat => _).
    rewrite (nth_indep _ (0, 0) (f 0%nat)) by (rewrite map_length, seq_length; exact Hi).
    rewrite map_nth. rewrite seq_nth by exact Hi. subst f. cbv beta.
    rewrite off_step by lia. unfold chunk_len. destruct tc as [t0 c0]. cbn [fst snd]. simpl (0 + i)%nat.
    destruct (Z.of_nat i <? t0); lia.
  Qed.
End BoundsList.

(* ---------- for_each_n offsets ---------- *)
Theorem foreach_bounds_exact n nt : 0 <= n -> 1 <= nt ->
  let tc := static_chunk n nt in
  foreach_bounds n nt =
  map (fun i => (off (fst tc) (snd tc) 1 (Z.of_nat i), off (fst tc) (snd tc) 1 (Z.of_nat i + 1))) (seq 0 (Z.to_nat nt)).
Proof.
  intros Hn Hnt tc. unfold foreach_bounds. subst tc.
  pose proof (static_chunk_spec n nt Hn ltac:(lia)) as S.
  destruct (static_chunk n nt) as [t c]. destruct S as (S1 & S2 & S3 & S4 & S5). cbn [fst snd].
  apply map_ext_in. intros i Hi. apply in_seq in Hi.
  rewrite off_step by lia. unfold off.
  destruct (Z.of_nat i <? t) eqn:E; [apply Z.ltb_lt in E | apply Z.ltb_ge in E].
  - rewrite Z.min_l by lia. f_equal; ring.
  - rewrite Z.min_r by lia. destruct (t =? nt) eqn:P; [apply Z.eqb_eq in P; lia|]. f_equal; ring.
Qed.

Theorem foreach_bounds_contiguous n nt : 0 <= n -> 1 <= nt -> contiguous 0 (foreach_bounds n nt) n.
Proof.
  intros Hn Hnt. rewrite foreach_bounds_exact by assumption. cbv zeta.
  pose proof (static_chunk_spec n nt Hn ltac:(lia)) as S.
  destruct (static_chunk n nt) as [t c]. destruct S as (S1 & S2 & S3 & S4 & S5). cbn [fst snd].
  pose proof (contiguous_offsets (off t c 1) 0 (Z.to_nat nt) 0) as C.
  rewrite off_0 in C by lia.
  replace (Z.of_nat (0 + Z.to_nat nt)) with nt in C by lia.
  assert (E : off t c 1 nt = n) by (unfold off; rewrite Z.min_r by lia; lia).
  rewrite E in C. simpl in C. apply C.
  intros i Hi. apply off_mono; try lia.
Qed.
