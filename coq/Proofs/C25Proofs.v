(* C25 -- proofs about Model/ResPoolModel.v (ResourcePool / Resource) over the blocking-queue specification. *)
From Coq Require Import List Bool Arith PeanoNat Lia Permutation.
From DV Require Import Model.ResPoolModel.
Import ListNotations.

(* ------------------------------------------------------------------------------------------------ lists *)
Lemma rp_upd_length {A} n (x : A) l : length (upd n x l) = length l.
Proof. revert n; induction l as [|y r IH]; intros [|n]; simpl; auto. Qed.

Lemma rp_nth_upd_eq {A} n (x : A) l : n < length l -> nth_error (upd n x l) n = Some x.
Proof. revert n; induction l as [|y r IH]; intros [|n] H; simpl in *; try lia; auto. apply IH; lia. Qed.

Lemma rp_nth_upd_neq {A} n m (x : A) l : n <> m -> nth_error (upd n x l) m = nth_error l m.
Proof.
  revert n m; induction l as [|y r IH]; intros [|n] [|m] H; simpl; auto; try congruence.
  all: try (apply IH; congruence).
Qed.

(* replacing entry h (which was y) by x: the flattened images differ by exactly f y / f x *)
Lemma flat_map_upd_perm {A B} (f : A -> list B) l : forall h x y, nth_error l h = Some y ->
  Permutation (f y ++ flat_map f (upd h x l)) (f x ++ flat_map f l).
Proof.
  induction l as [|a r IH]; intros [|h] x y H; simpl in *; try discriminate.
  - injection H as ->. rewrite !app_assoc. apply Permutation_app_tail, Permutation_app_comm.
  - specialize (IH h x y H).
    rewrite (app_assoc (f y) (f a)), (Permutation_app_comm (f y) (f a)), <- app_assoc.
    rewrite (app_assoc (f x) (f a)), (Permutation_app_comm (f x) (f a)), <- app_assoc.
    apply Permutation_app_head, IH.
Qed.

Lemma NoDup_app_disjoint {A} (l1 l2 : list A) x : NoDup (l1 ++ l2) -> In x l1 -> In x l2 -> False.
Proof.
  induction l1 as [|a r IH]; intros ND H1 H2; [destruct H1|].
  simpl in ND. inversion ND as [|? ? Hn ND']; subst. destruct H1 as [->|H1].
  - apply Hn. apply in_or_app. right; exact H2.
  - apply IH; assumption.
Qed.

Lemma nodup_app_r {A} (l1 l2 : list A) : NoDup (l1 ++ l2) -> NoDup l2.
Proof. induction l1 as [|a r IH]; simpl; intros H; [exact H|]. inversion H; subst. apply IH; assumption. Qed.
Lemma nodup_app_l {A} (l1 l2 : list A) : NoDup (l1 ++ l2) -> NoDup l1.
Proof.
  induction l1 as [|a r IH]; simpl; intros H; [constructor|]. inversion H as [|? ? Hn H']; subst. constructor.
  - intros Hin. apply Hn. apply in_or_app. left; exact Hin.
  - apply IH; exact H'.
Qed.

Lemma in_flat_map_nth {A B} (f : A -> list B) l k e x : nth_error l k = Some e -> In x (f e) -> In x (flat_map f l).
Proof. intros Hk Hx. apply in_flat_map. exists e. split; [eapply nth_error_In; eassumption|exact Hx]. Qed.

Lemma NoDup_flat_map_nth {A B} (f : A -> list B) l : NoDup (flat_map f l) ->
  forall i j a b x, i <> j -> nth_error l i = Some a -> nth_error l j = Some b -> In x (f a) -> In x (f b) -> False.
Proof.
  induction l as [|c r IH]; intros ND i j a b x Hne Hi Hj Ia Ib; [destruct i; discriminate|].
  simpl in ND. pose proof (nodup_app_r _ _ ND) as NDr.
  destruct i as [|i]; destruct j as [|j]; simpl in Hi, Hj.
  - congruence.
  - injection Hi as ->. eapply (NoDup_app_disjoint _ _ x ND); [exact Ia|]. eapply in_flat_map_nth; eassumption.
  - injection Hj as ->. eapply (NoDup_app_disjoint _ _ x ND); [exact Ib|]. eapply in_flat_map_nth; eassumption.
  - eapply (IH NDr i j a b x); try eassumption. congruence.
Qed.

(* ------------------------------------------------------------------------------------------------ the queue specification *)
Section Spec.
  Variable Q : Type.
  Variable q_empty : Q.
  Variable q_enq : Q -> nat -> Q.
  Variable q_deq : Q -> nat -> option (nat * Q).
  Variable q_items : Q -> list nat.
  Hypothesis H_empty : q_items q_empty = [].
  Hypothesis H_enq : forall q x, Permutation (q_items (q_enq q x)) (x :: q_items q).
  Hypothesis H_deq_some : forall q k x q', q_deq q k = Some (x, q') -> Permutation (q_items q) (x :: q_items q').
  Hypothesis H_deq_none : forall q k, q_deq q k = None <-> q_items q = [].

  Notation pstate := (pstate Q).
  Notation pinit := (pinit Q q_empty q_enq).
  Notation pstep := (pstep Q q_enq q_deq).
  Notation prun := (prun Q q_enq q_deq).
  Notation drain := (drain Q q_deq).
  Notation recycle := (recycle Q q_enq).
  Notation fill := (fill Q q_enq).

  Definition hl (r : option nat) : list nat := match r with Some x => [x] | None => [] end.

  Lemma recycle_items q r : Permutation (q_items (recycle q r)) (hl r ++ q_items q).
  Proof. destruct r; simpl; [apply H_enq|reflexivity]. Qed.

  Lemma fill_items n : forall q i, Permutation (q_items (fill q i n)) (q_items q ++ seq i n).
  Proof.
    induction n as [|n IH]; intros q i; simpl; [rewrite app_nil_r; reflexivity|].
    rewrite IH. rewrite (H_enq q i). simpl. apply Permutation_middle.
  Qed.

  (* every resource is in exactly one place: a live handle or the queue *)
  Definition PInv (s : pstate) : Prop :=
    p_alive s = true ->
    Permutation (held s ++ q_items (p_q s)) (seq 0 (p_size s)) /\ p_constructed s = seq 0 (p_size s) /\ p_destroyed s = [].

  Lemma held_repeat_dead n : flat_map held_of (repeat HDead n) = [].
  Proof. induction n; simpl; auto. Qed.

  Lemma PInv_init size nh : PInv (pinit size nh).
  Proof.
    intros _. unfold ResPoolModel.pinit, ResPoolModel.held; simpl. rewrite held_repeat_dead. simpl.
    split; [|split; reflexivity]. rewrite fill_items, H_empty. reflexivity.
  Qed.

  Lemma valid_alive (s : pstate) o : valid_op s o = true -> p_alive s = true.
  Proof. unfold ResPoolModel.valid_op. intros H. apply andb_prop in H. tauto. Qed.

  Lemma PInv_step (s : pstate) o s' : PInv s -> pstep s o = Some s' -> PInv s'.
  Proof.
    intros I H. unfold ResPoolModel.pstep in H.
    destruct (valid_op s o) eqn:V; simpl in H; [|discriminate].
    pose proof (valid_alive _ _ V) as AL. destruct (I AL) as (P & C & D).
    unfold ResPoolModel.valid_op in V. rewrite AL in V. simpl in V.
    unfold ResPoolModel.held in *.
    destruct o as [h k|h|d sr|d sr|].
    - (* acquire *)
      destruct (nth_error (p_handles s) h) as [[|r]|] eqn:Nh; try discriminate.
      destruct (q_deq (p_q s) k) as [[x q']|] eqn:Dq; [|discriminate]. injection H as <-. intros _; unfold ResPoolModel.held; simpl.
      split; [|auto]. pose proof (flat_map_upd_perm held_of (p_handles s) h (HLive (Some x)) HDead Nh) as U. simpl in U.
      rewrite U. rewrite <- P. rewrite (H_deq_some _ _ _ _ Dq). simpl. apply Permutation_middle.
    - (* release *)
      destruct (nth_error (p_handles s) h) as [[|r]|] eqn:Nh; try discriminate.
      injection H as <-. intros _; unfold ResPoolModel.held; simpl. split; [|auto].
      pose proof (flat_map_upd_perm held_of (p_handles s) h HDead (HLive r) Nh) as U. simpl in U.
      rewrite recycle_items. rewrite <- P. rewrite <- U. fold (hl r).
      rewrite !app_assoc. apply Permutation_app_tail. apply Permutation_app_comm.
    - (* move construct *)
      destruct (nth_error (p_handles s) d) as [[|rd]|] eqn:Nd; try discriminate.
      destruct (nth_error (p_handles s) sr) as [[|r]|] eqn:Ns; try discriminate.
      injection H as <-. intros _; unfold ResPoolModel.held; simpl. split; [|auto].
      assert (Hne : d <> sr) by (intros ->; congruence).
      pose proof (flat_map_upd_perm held_of (p_handles s) d (HLive r) HDead Nd) as U1. simpl in U1.
      assert (Ns' : nth_error (upd d (HLive r) (p_handles s)) sr = Some (HLive r)) by (rewrite rp_nth_upd_neq by exact Hne; exact Ns).
      pose proof (flat_map_upd_perm held_of _ sr (HLive None) (HLive r) Ns') as U2. simpl in U2.
      rewrite <- P. apply Permutation_app_tail. fold (hl r) in *.
      apply (Permutation_app_inv_l (hl r)). rewrite U2. exact U1.
    - (* move assign *)
      destruct (Nat.eqb d sr) eqn:E.
      + injection H as <-. exact I.
      + apply Nat.eqb_neq in E.
        destruct (nth_error (p_handles s) d) as [[|rd]|] eqn:Nd; try discriminate.
        destruct (nth_error (p_handles s) sr) as [[|rs]|] eqn:Ns; try discriminate.
        injection H as <-. intros _; unfold ResPoolModel.held; simpl. split; [|auto].
        pose proof (flat_map_upd_perm held_of (p_handles s) d (HLive rs) (HLive rd) Nd) as U1. simpl in U1.
        assert (Ns' : nth_error (upd d (HLive rs) (p_handles s)) sr = Some (HLive rs)) by (rewrite rp_nth_upd_neq by exact E; exact Ns).
        pose proof (flat_map_upd_perm held_of _ sr (HLive None) (HLive rs) Ns') as U2. simpl in U2.
        fold (hl rs) (hl rd) in *.
        rewrite recycle_items. rewrite <- P.
        set (H2 := flat_map held_of (upd sr (HLive None) (upd d (HLive rs) (p_handles s)))) in *.
        set (H1 := flat_map held_of (upd d (HLive rs) (p_handles s))) in *.
        set (H0 := flat_map held_of (p_handles s)) in *.
        (* U2 : hl rs ++ H2 ~ H1 ;  U1 : hl rd ++ H1 ~ hl rs ++ H0 *)
        apply (Permutation_app_inv_l (hl rs)).
        rewrite !app_assoc. rewrite U2.
        rewrite (Permutation_app_comm H1 (hl rd)). rewrite U1. rewrite <- !app_assoc. reflexivity.
    - (* destroy pool *)
      destruct (drain (p_q s) (p_size s)) as [[l q']|]; [|discriminate]. injection H as <-. intros X; simpl in X. discriminate.
  Qed.

  Lemma PInv_run ops : forall s, PInv s -> PInv (prun s ops).
  Proof.
    induction ops as [|o r IH]; intros s I; simpl; [exact I|].
    destruct (pstep s o) as [s'|] eqn:E; [apply IH; eapply PInv_step; eassumption|apply IH; exact I].
  Qed.

  Lemma size_step (s : pstate) o s' : pstep s o = Some s' -> p_size s' = p_size s.
  Proof.
    unfold ResPoolModel.pstep. destruct (negb (valid_op s o)); [discriminate|].
    destruct o as [h k|h|d sr|d sr|].
    - destruct (q_deq (p_q s) k) as [[x q']|]; [|discriminate]. intros H; injection H as <-; reflexivity.
    - destruct (nth_error (p_handles s) h) as [[|r]|]; try discriminate. intros H; injection H as <-; reflexivity.
    - destruct (nth_error (p_handles s) sr) as [[|r]|]; try discriminate. intros H; injection H as <-; reflexivity.
    - destruct (Nat.eqb d sr); [intros H; injection H as <-; reflexivity|].
      destruct (nth_error (p_handles s) d) as [[|rd]|]; try discriminate.
      destruct (nth_error (p_handles s) sr) as [[|rs]|]; try discriminate. intros H; injection H as <-; reflexivity.
    - destruct (drain (p_q s) (p_size s)) as [[l q']|]; [|discriminate]. intros H; injection H as <-; reflexivity.
  Qed.

  Lemma size_run ops : forall s, p_size (prun s ops) = p_size s.
  Proof.
    induction ops as [|o r IH]; intros s; simpl; [reflexivity|].
    destruct (pstep s o) as [s'|] eqn:E; [rewrite IH; eapply size_step; exact E|apply IH].
  Qed.

  (* ---- the four parts of the property, for every interleaving [ops] *)
  Theorem held_le_size_proof size nh ops : let s := prun (pinit size nh) ops in
    p_alive s = true -> length (held s) <= size /\ length (held s) + length (q_items (p_q s)) = size.
  Proof.
    cbv zeta. intros AL. destruct (PInv_run ops _ (PInv_init size nh) AL) as (P & _).
    rewrite size_run in P. simpl in P. apply Permutation_length in P. rewrite app_length, seq_length in P. lia.
  Qed.

  Theorem exclusive_holding_proof size nh ops : let s := prun (pinit size nh) ops in
    p_alive s = true ->
    NoDup (held s ++ q_items (p_q s)) /\
    (forall x, In x (held s ++ q_items (p_q s)) <-> x < size) /\
    (forall h1 h2 x, h1 <> h2 -> nth_error (p_handles s) h1 = Some (HLive (Some x)) -> nth_error (p_handles s) h2 = Some (HLive (Some x)) -> False) /\
    (forall h x, nth_error (p_handles s) h = Some (HLive (Some x)) -> ~ In x (q_items (p_q s))).
  Proof.
    cbv zeta. intros AL. destruct (PInv_run ops _ (PInv_init size nh) AL) as (P & _).
    rewrite size_run in P. simpl in P.
    assert (ND : NoDup (held (prun (pinit size nh) ops) ++ q_items (p_q (prun (pinit size nh) ops)))).
    { eapply Permutation_NoDup; [apply Permutation_sym; exact P|apply seq_NoDup]. }
    split; [exact ND|]. split; [|split].
    - intros x. split.
      + intros H. eapply Permutation_in in H; [|exact P]. apply in_seq in H. lia.
      + intros H. eapply Permutation_in; [apply Permutation_sym; exact P|]. apply in_seq. lia.
    - intros h1 h2 x Hne H1 H2. pose proof (nodup_app_l _ _ ND) as NDh.
      eapply (NoDup_flat_map_nth held_of _ NDh h1 h2 _ _ x Hne H1 H2); simpl; auto.
    - intros h x Hh Hin. eapply (NoDup_app_disjoint _ _ x ND); [|exact Hin].
      unfold ResPoolModel.held. eapply in_flat_map_nth; [exact Hh|]. simpl; auto.
  Qed.

  Theorem acquire_blocks_iff_proof size nh ops h k : let s := prun (pinit size nh) ops in
    valid_op s (PAcquire h k) = true ->
    (pstep s (PAcquire h k) = None <-> length (held s) = size).
  Proof.
    cbv zeta. intros V. pose proof (valid_alive _ _ V) as AL.
    destruct (held_le_size_proof size nh ops AL) as (_ & Sum).
    unfold ResPoolModel.pstep. rewrite V. simpl.
    destruct (q_deq (p_q (prun (pinit size nh) ops)) k) as [[x q']|] eqn:Dq.
    - split; [discriminate|]. intros L. exfalso.
      assert (E : q_items (p_q (prun (pinit size nh) ops)) = []) by (apply length_zero_iff_nil; lia).
      apply (H_deq_none _ k) in E. congruence.
    - split; [|reflexivity]. intros _. apply H_deq_none in Dq. rewrite Dq in Sum. simpl in Sum. lia.
  Qed.

  Lemma drain_all n : forall q, length (q_items q) = n ->
    exists l q', drain q n = Some (l, q') /\ Permutation (q_items q) l /\ q_items q' = [].
  Proof.
    induction n as [|n IH]; intros q L; simpl.
    - exists [], q. apply length_zero_iff_nil in L. rewrite L. auto.
    - destruct (q_deq q 0) as [[x q1]|] eqn:Dq.
      + pose proof (H_deq_some _ _ _ _ Dq) as P. assert (L1 : length (q_items q1) = n).
        { apply Permutation_length in P. simpl in P. lia. }
        destruct (IH q1 L1) as (l & q' & E & P' & Em). rewrite E. exists (x :: l), q'.
        split; [reflexivity|]. split; [rewrite P; apply perm_skip, P'|exact Em].
      + apply H_deq_none in Dq. rewrite Dq in L. discriminate.
  Qed.

  Lemma drain_short n : forall q, length (q_items q) < n -> drain q n = None.
  Proof.
    induction n as [|n IH]; intros q L; simpl; [lia|].
    destruct (q_deq q 0) as [[x q1]|] eqn:Dq; [|reflexivity].
    pose proof (H_deq_some _ _ _ _ Dq) as P. apply Permutation_length in P. simpl in P. rewrite IH by lia. reflexivity.
  Qed.

  Theorem dtor_destroys_each_once_proof size nh ops : let s := prun (pinit size nh) ops in
    p_alive s = true -> held s = [] ->
    exists s', pstep s PDestroyPool = Some s' /\
      Permutation (p_destroyed s') (seq 0 size) /\ NoDup (p_destroyed s') /\
      p_constructed s' = seq 0 size /\ q_items (p_q s') = [] /\ p_alive s' = false.
  Proof.
    cbv zeta. intros AL Hh. destruct (PInv_run ops _ (PInv_init size nh) AL) as (P & C & D).
    rewrite size_run in P, C. simpl in P, C. rewrite Hh in P. simpl in P.
    set (s := prun (pinit size nh) ops) in *.
    assert (L : length (q_items (p_q s)) = p_size s).
    { unfold s at 2. rewrite size_run. simpl. apply Permutation_length in P. rewrite seq_length in P. exact P. }
    destruct (drain_all _ _ L) as (l & q' & E & Pl & Em).
    unfold ResPoolModel.pstep, ResPoolModel.valid_op. rewrite AL. simpl. rewrite E.
    eexists. split; [reflexivity|]. simpl. rewrite D. simpl.
    assert (Pd : Permutation l (seq 0 size)) by (rewrite <- Pl; exact P).
    split; [exact Pd|]. split; [eapply Permutation_NoDup; [apply Permutation_sym; exact Pd|apply seq_NoDup]|]. auto.
  Qed.

  Theorem dtor_blocks_if_outstanding_proof size nh ops : let s := prun (pinit size nh) ops in
    p_alive s = true -> held s <> [] -> pstep s PDestroyPool = None.
  Proof.
    cbv zeta. intros AL Hh. destruct (held_le_size_proof size nh ops AL) as (_ & Sum).
    set (s := prun (pinit size nh) ops) in *.
    unfold ResPoolModel.pstep, ResPoolModel.valid_op. rewrite AL. simpl.
    rewrite drain_short; [reflexivity|]. unfold s at 2. rewrite size_run. simpl.
    destruct (held s); [congruence|]. simpl in Sum. lia.
  Qed.
End Spec.

(* ------------------------------------------------------------------------------------------------ the reference queue meets the specification *)
Lemma remove_nth_perm l : forall i d, i < length l -> Permutation l (nth i l d :: remove_nth i l).
Proof.
  induction l as [|x r IH]; intros [|i] d H; simpl in *; try lia; [reflexivity|].
  rewrite (IH i d) at 1 by lia. apply perm_swap.
Qed.

Lemma lq_spec_empty : lq_items lq_empty = [].
Proof. reflexivity. Qed.
Lemma lq_spec_enq q x : Permutation (lq_items (lq_enq q x)) (x :: lq_items q).
Proof. unfold lq_items, lq_enq. apply Permutation_sym, Permutation_cons_append. Qed.
Lemma lq_spec_deq_some q k x q' : lq_deq q k = Some (x, q') -> Permutation (lq_items q) (x :: lq_items q').
Proof.
  unfold lq_deq, lq_items. destruct q as [|y r]; [discriminate|].
  assert (Hi : Nat.modulo k (length (y :: r)) < length (y :: r)) by (apply Nat.mod_upper_bound; simpl; lia).
  set (i := Nat.modulo k (length (y :: r))) in *. clearbody i. intros H. injection H as <- <-.
  exact (remove_nth_perm (y :: r) i y Hi).
Qed.
Lemma lq_spec_deq_none q k : lq_deq q k = None <-> lq_items q = [].
Proof. unfold lq_deq, lq_items. destruct q; split; intros H; try reflexivity; discriminate. Qed.
