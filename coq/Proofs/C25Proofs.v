(* C25 -- proofs about Model/ResPoolModel.v (ResourcePool / Resource) over the blocking-queue specification. *)
From Coq Require Import List Bool Arith PeanoNat Lia Permutation.
From DV Require Import Model.ResPoolModel.
Import ListNotations.

(* ------------------------------------------------------------------------------------------------ lists *)
Lemma rp_upd_length {A} n (x : A) l : length (upd n x l) = length l.
Proof. revert n; induction l as [|y r IH]; intros [|n]; simpl; auto. Qed.

Lemma rp_nth_upd_eq {A} n (x : A) l : n < length l -> nth_error (upd n x l) n = Some x.
Proof. revert n; induction l as [|y r IH]; intros [|n] H; simpl in *; try lia; auto. apply IH; lia. Qed.

Lemma rp_nth_upd_neq {A} n m (x : A) l : n <> m -> nth_error (upd n x l) m = nth_error l m.
Proof.
  revert n m; induction l as [|y r IH]; intros [|n] [|m] H; simpl; auto; try congruence.
  all: try (apply IH; congruence).
Qed.

(* replacing entry h (which was y) by x: the flattened images differ by exactly f y / f x *)
Lemma flat_map_upd_perm {A B} (f : A -> list B) l : forall h x y, nth_error l h = Some y ->
  Permutation (f y ++ flat_map f (upd h x l)) (f x ++ flat_map f l).
Proof.
  induction l as [|a r IH]; intros [|h] x y H; simpl in *; try discriminate.
  - injection H as ->. rewrite !app_assoc. apply Permutation_app_tail, Permutation_app_comm.
  - specialize (IH h x y H).
    rewrite (app_assoc (f y) (f a)), (Permutation_app_comm (f y) (f a)), <- app_assoc.
    rewrite (app_assoc (f x) (f a)), (Permutation_app_comm (f x) (f a)), <- app_assoc.
    apply Permutation_app_head, IH.
Qed.

Lemma NoDup_flat_map_nth {A B} (f : A -> list B) l : NoDup (flat_map f l) ->
  forall i j a b x, i <> j -> nth_error l i = Some a -> nth_error l j = Some b -> In x (f a) -> In x (f b) -> False.
Proof.
  induction l as [|c r IH]; intros ND i j a b x Hne Hi Hj Ia Ib; [destruct i; discriminate|].
  simpl in ND. assert (NDr : NoDup (flat_map f r)) by (apply NoDup_app_remove_l in ND; exact ND).
  assert (Cross : forall k e, nth_error r k = Some e -> In x (f c) -> In x (f e) -> False).
  { intros k e Hk Ic Ie. revert ND. clear - Hk Ic Ie.
    intros ND. apply (proj1 (NoDup_app_iff' _ _)) in ND || idtac.
    fail. }
  fail.
Abort.
