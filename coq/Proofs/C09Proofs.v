(* C09: pool shutdown reaches every worker -- invariant over all interleavings of Model/WakeModel.v, on the domain without
   claimAndWakeOne (where the sleepMask bits are written by their owners only). *)
From Coq Require Import ZArith List Bool Arith Lia.
From DV Require Import Base.MachInt Base.Sched Model.WakeModel Proofs.WakeLemmas.
Import ListNotations.
Local Open Scope Z_scope.

(* inside the sleep section: after the fetch_or of enterSleep, before the fetch_and of exitSleep *)
Definition inS (p : pc) : bool :=
  match p with
  | PEnter2 _ _ | PRecheck _ _ | PWf0 _ _ | PWf1 _ _ | PFutex _ _ | PBlocked _ _ | PWoken _ _ | PWf2 _ _ | PExit1 _ _ => true
  | _ => false
  end.

(* past the running() re-check and still able to block in the futex *)
Definition committed (p : pc) : bool :=
  match p with PWf0 _ _ | PWf1 _ _ | PFutex _ _ | PBlocked _ _ => true | _ => false end.

(* program counters of worker i's thread (threadLoopImpl for ring index i) *)
Definition wpc (i : nat) (p : pc) : Prop :=
  match p with
  | PDone => True
  | PCurrent j WLoop | PTop j | PRing j | PHint j | PDeq j | PHintClr j | PSteal j | PCross j | PCrossPop j _ | PCrossClr j _
  | PMarkWork j | PWorkSub j | PFlush j | PMarkIdle j _ | PFin j | PProbe j
  | PEnter1 j WLoop | PEnter2 j WLoop | PRecheck j WLoop | PWf0 j WLoop | PWf1 j WLoop | PFutex j WLoop
  | PBlocked j WLoop | PWoken j WLoop | PWf2 j WLoop | PExit1 j WLoop | PExit2 j WLoop | PExit1 j WAbortL | PExit2 j WAbortL
  | PCaLoad _ (Some j) | PCaBump _ _ (Some j) | PCaWake _ _ (Some j) => j = i
  | _ => False
  end.

Definition wthread (i : nat) (th : thread) : Prop :=
  match tpc th with PStart => prog th = [OWorker i] | p => wpc i p /\ prog th = [] end.

(* claim-free producer operations and their program counters *)
Definition cf_op (o : op) : Prop :=
  match o with
  | ORunLoad _ | OCurrent _ | OStop _ | OSeed _ | ORange _ | OWakeAll | OCascade _ | OTotal
  | OPushRing _ | OPushCentral | OPushSteal _ | OPoll _ | ORings _ | OJoin _ => True
  | _ => False
  end.

Definition ppc (p : pc) : Prop :=
  match p with
  | PStart | PDone | PRunLoad _ | PCurrent _ WRaw | PStop _ | PTotal | PSeedTotal _ _ | PSeedFast _ _ _
  | PRgLoad _ _ _ _ _ | PRgBump _ _ _ _ _ _ | PRgWake _ _ _ _ _ _
  | PWaLoad _ false | PWaBump _ _ false | PWaWake _ false | PCaLoad _ None | PCaBump _ _ None | PCaWake _ _ None
  | PPushRing _ | PPushCentral | PPushSteal _ | PPoll _ | PRiAdd _ | PRiTotal _ | PRiPush _ _ _ | PJoin _ => True
  | _ => False
  end.

Definition pthread (th : thread) : Prop := ppc (tpc th) /\ Forall cf_op (prog th).

Section C09.
  Variable c : cfg.
  Hypothesis gs_pos : (0 < c_gs c)%nat.
  Hypothesis n_pos : (0 < c_n c)%nat.
  Hypothesis wake_mode : c_wake c = true.

  (* the thread that runs ~ThreadPool / resizeLocked: stop all; wakeAll; join all *)
  Definition spc (p : pc) : Prop :=
    match p with
    | PStopAll k => (k < c_n c)%nat
    | PWaLoad g true | PWaBump g _ true | PWaWake g true => (g < ngroups c)%nat
    | PJoinAll k => (k < c_n c)%nat
    | PDone => True
    | _ => False
    end.
  Definition sthread (th : thread) : Prop :=
    match tpc th with PStart => prog th = [OShutdown] | p => spc p /\ prog th = [] end.

  (* running flags known to be false / workers known to have returned / groups whose wakeAll pass is complete, by stopper pc *)
  Definition flags_below (sp : pc) : nat :=
    match sp with PStart => O | PStopAll k => k | _ => c_n c end.
  Definition joined_below (sp : pc) : nat :=
    match sp with PJoinAll k => k | PDone => c_n c | _ => O end.
  Definition gdone (sp : pc) (g : nat) : bool :=
    match sp with
    | PWaLoad g' true | PWaBump g' _ true | PWaWake g' true => (g <? g')%nat
    | PJoinAll _ | PDone => true
    | _ => false
    end.

  (* per-worker clause; bit = its sleepMask bit, e = its group's epoch, fb = its "returned" flag *)
  Definition Wc (sp : pc) (bit : bool) (e : Z) (fb : bool) (i : nat) (th : thread) : Prop :=
    wthread i th /\ bit = inS (tpc th) /\ lep th <= e /\ (fb = true -> tpc th = PDone) /\
    (gdone sp (grp c i) = true -> (forall j w, tpc th <> PBlocked j w) /\ (committed (tpc th) = true -> lep th < e)) /\
    (sp = PWaBump (grp c i) false true -> committed (tpc th) = false) /\
    (sp = PWaWake (grp c i) true -> committed (tpc th) = true -> lep th < e).

  Definition spc_of (s : state) : pc := match nth_error (threads s) (c_n c) with Some th => tpc th | None => PDone end.

  Definition Inv (s : state) : Prop :=
    cf s = c /\
    (wrapped (wks s) = false ->
     length (bits (wks s)) = c_n c /\ length (epochs (wks s)) = ngroups c /\ length (runflags (pl s)) = c_n c /\
     length (fin (pl s)) = c_n c /\ epochs_ok (wks s) /\
     (forall j, (j < flags_below (spc_of s))%nat -> nth j (runflags (pl s)) true = false) /\
     (forall j, (j < joined_below (spc_of s))%nat -> nth j (fin (pl s)) false = true) /\
     (forall i, (i < c_n c)%nat -> exists th, nth_error (threads s) i = Some th /\
          Wc (spc_of s) (nth i (bits (wks s)) false) (nth (grp c i) (epochs (wks s)) 0) (nth i (fin (pl s)) false) i th) /\
     (exists th, nth_error (threads s) (c_n c) = Some th /\ sthread th) /\
     (forall u th, (c_n c < u)%nat -> nth_error (threads s) u = Some th -> pthread th)).

  (* ---------- small facts ---------- *)
  Lemma committed_inS p : committed p = true -> inS p = true.
  Proof. destruct p; cbn; auto; discriminate. Qed.

  Lemma wpc_after_task i th : wpc i (tpc (after_task i th)) /\ prog (after_task i th) = prog th /\ lep (after_task i th) = lep th.
  Proof. unfold after_task. destruct (8 <=? _)%nat; cbn; auto. Qed.

  Lemma wpc_park_start i th : wpc i (tpc (park_start c i th)) /\ prog (park_start c i th) = prog th /\ lep (park_start c i th) = lep th
     /\ inS (tpc (park_start c i th)) = false.
  Proof. unfold park_start. rewrite wake_mode. destruct (lwork th); cbn; auto. Qed.

  Lemma wpc_round_fail i th : wpc i (tpc (round_fail c i th)) /\ prog (round_fail c i th) = prog th /\ lep (round_fail c i th) = lep th
     /\ inS (tpc (round_fail c i th)) = false.
  Proof.
    unfold round_fail. destruct (0 <? ldone th)%nat; [destruct (lwork th); cbn; auto|].
    destruct (_ <? c_spins c)%nat; [cbn; auto|]. apply (wpc_park_start i (set_lfail th (S (lfail th)))).
  Qed.

  (* how a step may change the epoch words *)
  Definition estep (w w' : wakest) : Prop :=
    (epochs w' = epochs w /\ wrapped w' = wrapped w) \/
    (exists g, epochs w' = epochs (bump_epoch w g) /\ wrapped w' = wrapped (bump_epoch w g)).

  Lemma estep_refl_like w w' : epochs w' = epochs w -> wrapped w' = wrapped w -> estep w w'.
  Proof. left; auto. Qed.

  Lemma estep_facts w w' :
    estep w w' -> epochs_ok w -> wrapped w' = false ->
    wrapped w = false /\ epochs_ok w' /\ length (epochs w') = length (epochs w) /\
    (forall g, nth g (epochs w) 0 <= nth g (epochs w') 0).
  Proof.
    intros [[E W]|[g [E W]]] OK Wr.
    - rewrite E. unfold epochs_ok. rewrite E. repeat split; auto; try congruence. intros; lia.
    - rewrite W in Wr. pose proof (bump_epoch_ok w g OK) as OK'. unfold epochs_ok in *. rewrite E.
      repeat split; auto.
      + eapply bump_epoch_wrapped; eauto.
      + apply bump_epoch_length.
      + intros g'. apply bump_epoch_mono; auto.
  Qed.

  (* every step leaves the epoch words alone or bumps exactly one of them *)
  Lemma tstep_estep cc th w p N o : tstep cc w p N th = Some o -> estep w (o_w o).
  Proof.
    intros T. unfold tstep in T.
    destruct (tpc th); cbn in T.
    all: repeat match type of T with
         | (if ?b then _ else _) = _ => destruct b
         | (match ?x with _ => _ end) = _ => destruct x
         end.
    all: try discriminate T.
    all: injection T as <-; cbn.
    all: try solve [left; split; reflexivity | right; eexists; split; reflexivity].
  Qed.

  Ltac wkd := repeat match goal with k : wk |- _ => destruct k end.

  (* pcs outside the sleep section, not finished *)
  Definition neutral (i : nat) (p : pc) : Prop := wpc i p /\ inS p = false /\ p <> PDone /\ p <> PStart.

  Lemma neutral_after_task i th : neutral i (tpc (after_task i th)) /\ prog (after_task i th) = prog th /\ lep (after_task i th) = lep th.
  Proof. unfold after_task, neutral. destruct (8 <=? _)%nat; cbn; repeat split; auto; discriminate. Qed.

  Lemma neutral_park_start i th : neutral i (tpc (park_start c i th)) /\ prog (park_start c i th) = prog th /\ lep (park_start c i th) = lep th.
  Proof. unfold park_start, neutral. rewrite wake_mode. destruct (lwork th); cbn; repeat split; auto; discriminate. Qed.

  Lemma neutral_round_fail i th : neutral i (tpc (round_fail c i th)) /\ prog (round_fail c i th) = prog th /\ lep (round_fail c i th) = lep th.
  Proof.
    unfold round_fail. destruct (0 <? ldone th)%nat; [destruct (lwork th); unfold neutral; cbn; repeat split; auto; discriminate|].
    destruct (_ <? c_spins c)%nat; [unfold neutral; cbn; repeat split; auto; discriminate|].
    apply (neutral_park_start i (set_lfail th (S (lfail th)))).
  Qed.

  Ltac wc_split := unfold Wc, wthread; (split; [|split; [|split; [|split; [|split; [|split]]]]]).
  Ltac wth := match goal with |- match tpc ?t with _ => _ end => destruct (tpc t); auto; try discriminate; try congruence end.

  Lemma Wc_neutral sp e i th' : neutral i (tpc th') -> prog th' = [] -> lep th' <= e -> Wc sp false e false i th'.
  Proof.
    intros (W & S & ND & NS) Pg L.
    assert (C : committed (tpc th') = false) by (destruct (committed (tpc th')) eqn:C; auto; apply committed_inS in C; congruence).
    assert (NB : forall j w, tpc th' <> PBlocked j w) by (intros j w E; rewrite E in S; discriminate).
    wc_split.
    - wth.
    - auto.
    - exact L.
    - discriminate.
    - intros G. split; [exact NB | congruence].
    - intros; exact C.
    - congruence.
  Qed.

  (* inside the sleep section but not (or no longer) able to block *)
  Lemma Wc_sleep sp e i th' :
    wpc i (tpc th') -> inS (tpc th') = true -> committed (tpc th') = false -> prog th' = [] -> lep th' <= e -> Wc sp true e false i th'.
  Proof.
    intros W S C Pg L.
    assert (NB : forall j w, tpc th' <> PBlocked j w) by (intros j w E; rewrite E in C; discriminate).
    wc_split.
    - wth.
    - auto.
    - exact L.
    - discriminate.
    - intros G. split; [exact NB | congruence].
    - intros; exact C.
    - congruence.
  Qed.

  (* a committed worker stays committed (same local epoch, same group epoch) *)
  Lemma Wc_committed sp e i th th' :
    Wc sp true e false i th -> committed (tpc th) = true ->
    wpc i (tpc th') -> committed (tpc th') = true -> (forall j w, tpc th' <> PBlocked j w) -> prog th' = [] -> lep th' = lep th ->
    Wc sp true e false i th'.
  Proof.
    intros (HW & Hbit & Hle & Hfin & Ha & Hb & Hc) C W C' NB Pg L. wc_split; rewrite ?L.
    - wth.
    - symmetry. apply committed_inS. exact C'.
    - exact Hle.
    - discriminate.
    - intros G. split; [exact NB | intros _; apply (proj2 (Ha G) C)].
    - intros G. specialize (Hb G). congruence.
    - intros G _. apply (Hc G C).
  Qed.

  (* the futex wait blocks only when the group epoch still equals the local epoch: impossible once the stopper has bumped it *)
  Lemma Wc_block sp e i th th' :
    Wc sp true e false i th -> committed (tpc th) = true -> lep th = e ->
    wpc i (tpc th') -> committed (tpc th') = true -> prog th' = [] -> lep th' = lep th ->
    Wc sp true e false i th'.
  Proof.
    intros (HW & Hbit & Hle & Hfin & Ha & Hb & Hc) C E W C' Pg L. wc_split; rewrite ?L.
    - wth.
    - symmetry. apply committed_inS. exact C'.
    - exact Hle.
    - discriminate.
    - intros G. exfalso. pose proof (proj2 (Ha G) C). lia.
    - intros G. specialize (Hb G). congruence.
    - intros G _. pose proof (Hc G C). lia.
  Qed.

  (* passing the re-check with running() = true excludes every stage in which the flag is known to be false *)
  Lemma Wc_commit sp e i th' :
    (gdone sp (grp c i) = true \/ sp = PWaBump (grp c i) false true \/ sp = PWaWake (grp c i) true -> False) ->
    wpc i (tpc th') -> committed (tpc th') = true -> prog th' = [] -> lep th' <= e -> Wc sp true e false i th'.
  Proof.
    intros NS W C' Pg L. wc_split.
    - wth.
    - symmetry. apply committed_inS. exact C'.
    - exact L.
    - discriminate.
    - intros G. exfalso; apply NS; auto.
    - intros G. exfalso; apply NS; auto.
    - intros G. exfalso; apply NS; auto.
  Qed.

  Lemma worker_step i th w p N o sp :
    (i < c_n c)%nat -> epochs_ok w -> length (bits w) = c_n c -> length (fin p) = c_n c ->
    tstep c w p N th = Some o -> wrapped (o_w o) = false ->
    Wc sp (nth i (bits w) false) (nth (grp c i) (epochs w) 0) (nth i (fin p) false) i th ->
    ((gdone sp (grp c i) = true \/ sp = PWaBump (grp c i) false true \/ sp = PWaWake (grp c i) true) -> nth i (runflags p) true = false) ->
    Wc sp (nth i (bits (o_w o)) false) (nth (grp c i) (epochs (o_w o)) 0) (nth i (fin (o_p o)) false) i (o_th o) /\
    runflags (o_p o) = runflags p /\
    (forall j, j <> i -> nth j (bits (o_w o)) false = nth j (bits w) false) /\
    (forall j, j <> i -> nth j (fin (o_p o)) false = nth j (fin p) false) /\
    length (bits (o_w o)) = c_n c /\ length (fin (o_p o)) = c_n c /\ estep w (o_w o).
  Proof.
    intros Hi OK Lb Lf T Wr HWc Hfl. pose proof HWc as (HW & Hbit & Hle & Hfin & Ha & Hb & Hc).
    assert (Hfb : nth i (fin p) false = false).
    { destruct (nth i (fin p) false); auto. specialize (Hfin eq_refl). unfold tstep in T. rewrite Hfin in T. discriminate. }
    clear Hfin.
    unfold wthread in HW. unfold tstep in T.
    destruct (tpc th) eqn:P; cbn in HW; try (exfalso; tauto).
    { (* PStart *) cbn in T. unfold next in T. rewrite HW in T. cbn in T. injection T as <-. cbn.
      split; [|repeat split; auto; left; split; reflexivity].
      cbn in Hbit. rewrite Hfb, Hbit. apply Wc_neutral; cbn; auto. unfold neutral; cbn. repeat split; auto; discriminate. }
    all: wkd; cbn in HW; try (exfalso; tauto).
    all: try (match goal with kc : option nat |- _ => destruct kc; cbn in HW; try (exfalso; tauto) end).
    all: destruct HW as [Hj Hprog]; try subst i.
    all: cbn in T; try rewrite Hprog in T; rewrite ?wake_mode in T; cbn in T.
    all: repeat match type of T with
         | context [if ?b then _ else _] => destruct b eqn:?
         | context [match nth ?a ?b ?d with _ => _ end] => destruct (nth a b d) eqn:?
         | context [match central ?x with _ => _ end] => destruct (central x) eqn:?
         | context [match lowest_set ?x with _ => _ end] => destruct (lowest_set x) eqn:?
         | context [match ?t with TPlain => _ | TCasc _ => _ end] => destruct t eqn:?
         end.
    all: try discriminate T.
    all: injection T as <-; cbn in *.
    all: repeat match goal with H : (_ =? _) = true |- _ => apply Z.eqb_eq in H | H : (_ =? _) = false |- _ => apply Z.eqb_neq in H end.
    all: (split; [|repeat match goal with |- _ /\ _ => split end]).
    all: try solve [ auto | rewrite nth_upd_neq by auto; auto | rewrite length_upd; auto | left; split; reflexivity
                   | right; eexists; split; reflexivity ].
    all: rewrite ?Hfb.
    all: try solve [ rewrite ?Hbit; apply Wc_neutral; cbn; auto; unfold neutral; cbn; repeat split; auto; discriminate ].
    all: try solve [ intros; rewrite nth_upd_neq by auto; auto ].
    all: try match goal with |- context [after_task ?i ?t] =>
           destruct (neutral_after_task i t) as (Nn & Np & Nl); rewrite ?Hbit; apply Wc_neutral; [exact Nn | rewrite Np; cbn; auto | rewrite Nl; cbn] end.
    all: try match goal with |- context [round_fail c ?i ?t] =>
           destruct (neutral_round_fail i t) as (Nn & Np & Nl); rewrite ?Hbit; apply Wc_neutral; [exact Nn | rewrite Np; cbn; auto | rewrite Nl; cbn; auto] end.
    all: try lia.
    all: try (pose proof (bump_epoch_mono w g (grp c n0) OK Wr) as BM; cbn in BM; lia).
    all: rewrite ?(nth_upd_eq (bits w)) by lia; rewrite ?(nth_upd_eq (fin p)) by lia.
    all: try solve [ rewrite ?Hbit; apply Wc_neutral; cbn; auto; try lia; unfold neutral; cbn; repeat split; auto; discriminate ].
    all: try solve [ rewrite ?Hbit; apply Wc_sleep; cbn; auto; lia ].
    all: rewrite Hbit, Hfb in HWc.
    - (* PRecheck -> PWf0 *) rewrite Hbit. apply Wc_commit; cbn; auto. intros S. specialize (Hfl S). discriminate.
    - (* PWf0 -> PWf1 *) rewrite Hbit. eapply Wc_committed; [exact HWc | rewrite P; reflexivity | cbn; auto .. ]. intros; discriminate.
    - (* PWf1 -> PFutex *) rewrite Hbit. eapply Wc_committed; [exact HWc | rewrite P; reflexivity | cbn; auto .. ]. intros; discriminate.
    - (* PFutex -> PBlocked *) rewrite Hbit. eapply Wc_block; [exact HWc | rewrite P; reflexivity | | cbn; auto .. ]. lia.
    - (* PCaBump -> PCaWake *) rewrite Hbit. apply Wc_neutral; [unfold neutral; cbn; repeat split; auto; discriminate | cbn; auto |].
      cbn. pose proof (bump_epoch_mono w g (grp c n0) OK Wr) as BM. cbn in BM. lia.
    - (* PFin -> PDone *) rewrite Hbit. wc_split; cbn; auto; try discriminate.
      intros G. split; [intros; discriminate | intros; discriminate].
  Qed.

  Lemma ppc_entry o : cf_op o -> ppc (entry c o).
  Proof. destruct o; cbn; auto. Qed.

  Lemma pthread_next th : Forall cf_op (prog th) -> pthread (next c th).
  Proof.
    intros F. unfold next, pthread. destruct (prog th) as [|o r] eqn:E; cbn; [split; auto|].
    inversion F; subst. split; [apply ppc_entry; auto | auto].
  Qed.

  Definition flags_mono (f f' : list bool) : Prop :=
    length f' = length f /\ forall j, nth j f true = false -> nth j f' true = false.

  Lemma flags_mono_refl f : flags_mono f f.
  Proof. split; auto. Qed.

  Lemma flags_mono_upd f k : flags_mono f (upd f k false).
  Proof.
    split; [apply length_upd|]. intros j H. destruct (Nat.eq_dec k j) as [->|D].
    - destruct (Nat.lt_ge_cases j (length f)) as [L|L]; [rewrite nth_upd_eq; auto|].
      rewrite nth_overflow in H by exact L. discriminate.
    - rewrite nth_upd_neq by exact D. exact H.
  Qed.

  Lemma producer_step th w p N o :
    pthread th -> tstep c w p N th = Some o ->
    pthread (o_th o) /\ bits (o_w o) = bits w /\ fin (o_p o) = fin p /\ flags_mono (runflags p) (runflags (o_p o)) /\ estep w (o_w o).
  Proof.
    intros [HP HF] T. unfold tstep in T.
    destruct (tpc th) eqn:P; cbn in HP; try (exfalso; exact HP).
    all: try (match goal with k : wk |- _ => destruct k; try (exfalso; exact HP) end).
    all: try (match goal with k : bool |- _ => match type of HP with context [k] => destruct k; try (exfalso; exact HP) end end).
    all: try (match goal with kc : option nat |- _ => destruct kc; try (exfalso; exact HP) end).
    all: cbn in T.
    all: repeat match type of T with
         | context [if ?b then _ else _] => destruct b eqn:?
         | context [match nth ?a ?b ?d with _ => _ end] => destruct (nth a b d) eqn:?
         | context [match central ?x with _ => _ end] => destruct (central x) eqn:?
         | context [match ?n with O => _ | S _ => _ end] => destruct n eqn:?
         end.
    all: try discriminate T.
    all: injection T as <-; cbn.
    all: (split; [|split; [|split; [|split]]]); auto using flags_mono_refl, flags_mono_upd.
    all: try solve [left; split; reflexivity | right; eexists; split; reflexivity].
    all: try solve [apply pthread_next; auto | split; cbn; auto].
    all: unfold after_wakeall; destruct (S g <? ngroups c)%nat; [split; cbn; auto | apply pthread_next; auto].
  Qed.

  (* ---------- frames ---------- *)
  Lemma Wc_frame sp bit e fb i th e' th' :
    Wc sp bit e fb i th -> e <= e' -> (th' = th \/ th' = wake_thread th) -> Wc sp bit e' fb i th'.
  Proof.
    intros (HW & Hbit & Hle & Hfin & Ha & Hb & Hc) L [->| ->].
    - wc_split; auto; try lia.
      + intros G. destruct (Ha G) as [A1 A2]. split; auto. intros C. specialize (A2 C). lia.
      + intros G C. specialize (Hc G C). lia.
    - destruct (tpc th) eqn:P; try (rewrite wake_thread_id by (intros; congruence);
        wc_split; rewrite ?P; auto; try lia;
        [ unfold wthread in HW; rewrite P in HW; exact HW
        | intros G; destruct (Ha G) as [A1 A2]; split; auto; intros C; specialize (A2 C); lia
        | intros G C; specialize (Hc G C); lia ]; fail).
      unfold wake_thread. rewrite P. unfold wthread in HW. rewrite P in HW.
      wc_split; cbn; auto; try lia; try discriminate.
      + intros F. specialize (Hfin F). discriminate.
      + intros G. split; [intros; discriminate | intros; discriminate].
  Qed.

  Lemma Wc_stopper sp sp' bit e e' fb i th th' :
    Wc sp bit e fb i th -> e <= e' -> (th' = th \/ th' = wake_thread th) ->
    (gdone sp' (grp c i) = true ->
       gdone sp (grp c i) = true \/ sp = PWaBump (grp c i) false true \/
       (sp = PWaWake (grp c i) true /\ forall j w, tpc th' <> PBlocked j w)) ->
    (sp' = PWaBump (grp c i) false true -> bit = false) ->
    (sp' = PWaWake (grp c i) true -> e < e') ->
    Wc sp' bit e' fb i th'.
  Proof.
    intros W L T A B C.
    pose proof (Wc_frame _ _ _ _ _ _ e _ W ltac:(lia) T) as (HW0 & Hbit0 & Hle0 & _).
    pose proof (Wc_frame _ _ _ _ _ _ e' _ W L T) as (HW & Hbit & Hle & Hfin & Ha & Hb & Hc).
    assert (CB : forall j w, tpc th' = PBlocked j w -> committed (tpc th') = true) by (intros j w ->; reflexivity).
    wc_split; auto.
    - intros G. destruct (A G) as [G1|[G2|[G3 NB]]].
      + apply Ha; auto.
      + specialize (Hb G2). split; [intros j w E; specialize (CB _ _ E); congruence | congruence].
      + split; [exact NB | intros Cm; apply (Hc G3 Cm)].
    - intros G. specialize (B G). destruct (committed (tpc th')) eqn:Cm; auto. apply committed_inS in Cm. congruence.
    - intros G _. specialize (C G). lia.
  Qed.

  Lemma pthread_wake th : pthread th -> wake_thread th = th.
  Proof. intros [P _]. apply wake_thread_id. intros i w E. rewrite E in P. exact P. Qed.

  Lemma sthread_wake th : sthread th -> wake_thread th = th.
  Proof. intros S. apply wake_thread_id. intros i w E. unfold sthread in S. rewrite E in S. cbn in S. tauto. Qed.

  Lemma length_tids_where f l k : (length (tids_where f l k) <= length l)%nat.
  Proof. revert k; induction l as [|a l IH]; intros k; cbn; [lia|]. destruct (f a); cbn; specialize (IH (S k)); lia. Qed.

  Lemma others_thread s woken t x u :
    u <> t -> forall th, nth_error (threads s) u = Some th ->
    exists th', nth_error (upd (wake_tids (threads s) O woken) t x) u = Some th' /\ (th' = th \/ th' = wake_thread th) /\
                (In u woken -> th' = wake_thread th).
  Proof.
    intros D th N. rewrite nth_error_upd_neq by auto. rewrite nth_error_wake_tids, N. cbn.
    destruct (existsb (Nat.eqb u) woken) eqn:X.
    - eexists; split; [reflexivity|]. split; auto.
    - eexists; split; [reflexivity|]. split; auto. intros I. exfalso.
      assert (existsb (Nat.eqb u) woken = true) by (apply existsb_exists; exists u; split; auto; apply Nat.eqb_refl). congruence.
  Qed.

  Lemma stage_flags sp g :
    gdone sp g = true \/ sp = PWaBump g false true \/ sp = PWaWake g true -> flags_below sp = c_n c.
  Proof. intros [G|[->| ->]]; auto. destruct sp; cbn in *; auto; discriminate. Qed.

  (* one step of the shutdown thread *)
  Opaque Nat.ltb.
  Lemma stopper_step th w p N o :
    sthread th -> tstep c w p N th = Some o ->
    epochs_ok w -> length (epochs w) = ngroups c -> length (runflags p) = c_n c -> wrapped (o_w o) = false ->
    (forall j, (j < flags_below (tpc th))%nat -> nth j (runflags p) true = false) ->
    (forall j, (j < joined_below (tpc th))%nat -> nth j (fin p) false = true) ->
    sthread (o_th o) /\ bits (o_w o) = bits w /\ fin (o_p o) = fin p /\ length (runflags (o_p o)) = c_n c /\
    (forall j, (j < flags_below (tpc (o_th o)))%nat -> nth j (runflags (o_p o)) true = false) /\
    (forall j, (j < joined_below (tpc (o_th o)))%nat -> nth j (fin p) false = true) /\
    (forall g, (g < ngroups c)%nat ->
       (gdone (tpc (o_th o)) g = true ->
          gdone (tpc th) g = true \/ tpc th = PWaBump g false true \/ (tpc th = PWaWake g true /\ o_wake o = Some (g, N))) /\
       (tpc (o_th o) = PWaBump g false true -> existsb (fun b => b) (grp_bits c (bits w) g) = false) /\
       (tpc (o_th o) = PWaWake g true -> nth g (epochs (o_w o)) 0 = nth g (epochs w) 0 + 1)).
  Proof.
    intros S T OK Le Lr Wr Fl Jn. unfold sthread in S. unfold tstep in T.
    destruct (tpc th) eqn:P; cbn in S; try (exfalso; tauto).
    - (* PStart *) cbn in T. unfold next in T. rewrite S in T. cbn in T. injection T as <-. cbn.
      split; [unfold sthread; cbn; auto|]. do 3 (split; [auto|]). split; [intros; lia|]. split; [intros; lia|].
      intros g Hg. split; [discriminate|]. split; discriminate.
    - (* PDone *) discriminate.
    - (* PWaLoad g sh *) destruct sh; [|exfalso; tauto]. destruct S as [Sg Sp]. cbn in T. injection T as <-. cbn.
      split; [unfold sthread; cbn; auto|]. do 3 (split; [auto|]). split; [exact Fl|]. split; [exact Jn|].
      intros g0 Hg. split; [intros G; left; exact G|]. split; [|discriminate].
      intros E. injection E as <- E2. exact E2.
    - (* PWaBump g any sh *) destruct sh; [|exfalso; tauto]. destruct S as [Sg Sp]. cbn in T.
      destruct w0; injection T as <-; cbn.
      + (* mask nonzero: bumpAndWakeAll *)
        split; [unfold sthread; cbn; auto|]. do 3 (split; [auto|]). split; [exact Fl|]. split; [exact Jn|].
        intros g0 Hg. split; [intros G; left; exact G|]. split; [discriminate|].
        intros E. injection E as <-. apply (bump_epoch_strict w g OK Wr). lia.
      + (* mask zero: bump only *)
        unfold after_wakeall. destruct (S g <? ngroups c)%nat eqn:Q; cbn.
        * apply Nat.ltb_lt in Q.
          split; [unfold sthread; cbn; auto|]. do 3 (split; [auto|]). split; [exact Fl|]. split; [exact Jn|].
          intros g0 Hg. split; [|split; discriminate].
          intros G. assert (g0 <= g)%nat by (apply Nat.ltb_lt in G; lia). destruct (Nat.eq_dec g0 g) as [->|D]; [right; left; reflexivity|].
          left. apply Nat.ltb_lt. lia.
        * apply Nat.ltb_ge in Q.
          split; [unfold sthread; cbn; auto|]. do 3 (split; [auto|]). split; [exact Fl|]. split; [intros; lia|].
          intros g0 Hg. split; [|split; discriminate].
          intros _. destruct (Nat.eq_dec g0 g) as [->|D]; [right; left; reflexivity|].
          left. apply Nat.ltb_lt. lia.
    - (* PWaWake g sh *) destruct sh; [|exfalso; tauto]. destruct S as [Sg Sp]. cbn in T. injection T as <-. cbn.
      unfold after_wakeall. destruct (S g <? ngroups c)%nat eqn:Q; cbn.
      + apply Nat.ltb_lt in Q.
        split; [unfold sthread; cbn; auto|]. do 3 (split; [auto|]). split; [exact Fl|]. split; [exact Jn|].
        intros g0 Hg. split; [|split; discriminate].
        intros G. assert (g0 <= g)%nat by (apply Nat.ltb_lt in G; lia). destruct (Nat.eq_dec g0 g) as [->|D]; [right; right; auto|].
        left. apply Nat.ltb_lt. lia.
      + apply Nat.ltb_ge in Q.
        split; [unfold sthread; cbn; auto|]. do 3 (split; [auto|]). split; [exact Fl|]. split; [intros; lia|].
        intros g0 Hg. split; [|split; discriminate].
        intros _. destruct (Nat.eq_dec g0 g) as [->|D]; [right; right; auto|].
        left. apply Nat.ltb_lt. lia.
    - (* PStopAll k *) destruct S as [Sk Sp]. cbn in T. injection T as <-. cbn.
      assert (FU : forall j, (j < S k)%nat -> nth j (upd (runflags p) k false) true = false).
      { intros j Hj. destruct (Nat.eq_dec k j) as [->|D]; [apply nth_upd_eq; lia|]. rewrite nth_upd_neq by exact D. apply Fl. cbn. lia. }
      destruct (S k <? c_n c)%nat eqn:Q; cbn.
      + apply Nat.ltb_lt in Q.
        split; [unfold sthread; cbn; auto|]. do 2 (split; [auto|]). split; [rewrite length_upd; auto|]. split; [exact FU|].
        split; [intros; lia|]. intros g0 Hg. split; [discriminate|]. split; discriminate.
      + apply Nat.ltb_ge in Q.
        split; [unfold sthread; cbn; split; auto; unfold ngroups; apply Nat.div_str_pos; lia|].
        do 2 (split; [auto|]). split; [rewrite length_upd; auto|]. split; [intros j Hj; apply FU; lia|].
        split; [intros; lia|]. intros g0 Hg. split; [discriminate|]. split; discriminate.
    - (* PJoinAll k *) destruct S as [Sk Sp]. cbn in T. destruct (nth k (fin p) false) eqn:Fk; [|discriminate].
      injection T as <-. cbn.
      assert (JU : forall j, (j < S k)%nat -> nth j (fin p) false = true).
      { intros j Hj. destruct (Nat.eq_dec k j) as [->|D]; [exact Fk|]. apply Jn. cbn. lia. }
      destruct (S k <? c_n c)%nat eqn:Q; cbn.
      + apply Nat.ltb_lt in Q.
        split; [unfold sthread; cbn; auto|]. do 3 (split; [auto|]). split; [exact Fl|]. split; [exact JU|].
        intros g0 Hg. split; [intros _; left; reflexivity|]. split; discriminate.
      + apply Nat.ltb_ge in Q. unfold next. rewrite Sp. cbn.
        split; [unfold sthread; cbn; auto|]. do 3 (split; [auto|]). split; [exact Fl|]. split; [intros j Hj; apply JU; lia|].
        intros g0 Hg. split; [intros _; left; reflexivity|]. split; discriminate.
  Qed.
  Transparent Nat.ltb.

  Lemma spc_of_eq s th : nth_error (threads s) (c_n c) = Some th -> spc_of s = tpc th.
  Proof. unfold spc_of. intros ->. reflexivity. Qed.

  (* ---------- the inductive step ---------- *)
  Lemma step_inv s t ch s' ch' site : Inv s -> step s t ch = Some (s', ch', site) -> Inv s'.
  Proof.
    intros [Hcf I] E.
    destruct (step_decomp _ _ _ _ _ _ E) as (th & o & woken & N & T & Ec & Ew & Ep & Et & Ewk).
    rewrite Hcf in T.
    split; [congruence|]. intros Wr'. rewrite Ew in Wr'.
    pose proof (tstep_estep _ _ _ _ _ _ T) as ES.
    assert (Wr : wrapped (wks s) = false).
    { destruct ES as [[_ W]|[g [_ W]]]; rewrite W in Wr'; auto. eapply bump_epoch_wrapped; eauto. }
    destruct (I Wr) as (Lb & Le & Lr & Lf & OK & Fl & Jn & Wk & (ths & Ns & Ss) & Pr).
    destruct (estep_facts _ _ ES OK Wr') as (_ & OK' & Le' & Mono).
    assert (Lt : (c_n c < length (threads s))%nat) by (apply nth_error_Some; congruence).
    assert (Ltt : (t < length (threads s))%nat) by (apply nth_error_Some; congruence).
    assert (Nt' : nth_error (threads s') t = Some (o_th o)).
    { rewrite Et. apply nth_error_upd_eq. rewrite length_wake_tids. exact Ltt. }
    pose proof (spc_of_eq _ _ Ns) as SP.
    destruct (lt_eq_lt_dec t (c_n c)) as [[Lt1|Eq]|Gt].
    - (* a worker steps *)
      destruct (Wk t Lt1) as (th0 & N0 & W0). rewrite N in N0. injection N0 as <-.
      assert (Hfl : gdone (spc_of s) (grp c t) = true \/ spc_of s = PWaBump (grp c t) false true \/ spc_of s = PWaWake (grp c t) true ->
                    nth t (runflags (pl s)) true = false).
      { intros G. apply Fl. rewrite (stage_flags _ _ G). exact Lt1. }
      destruct (worker_step t th _ _ _ o (spc_of s) Lt1 OK Lb Lf T Wr' W0 Hfl) as (W' & Rf & Bo & Fo & Lb' & Lf' & _).
      assert (Ns' : nth_error (threads s') (c_n c) = Some ths).
      { destruct (others_thread s woken t (o_th o) (c_n c) ltac:(lia) ths Ns) as (x & Hx & [->| ->] & _); rewrite Et; rewrite Hx; auto.
        rewrite (sthread_wake _ Ss). reflexivity. }
      assert (SP' : spc_of s' = spc_of s) by (rewrite (spc_of_eq _ _ Ns'); auto).
      assert (Ft : nth t (fin (pl s)) false = false).
      { destruct W0 as (_ & _ & _ & Hfin & _). destruct (nth t (fin (pl s)) false); auto. specialize (Hfin eq_refl).
        unfold tstep in T. rewrite Hfin in T. discriminate. }
      rewrite Ew, Ep, SP'.
      split; [exact Lb'|]. split; [congruence|]. split; [congruence|]. split; [exact Lf'|]. split; [exact OK'|].
      split; [intros j Hj; rewrite Rf; apply Fl; exact Hj|].
      split. { intros j Hj. destruct (Nat.eq_dec j t) as [->|D]; [specialize (Jn t Hj); congruence|]. rewrite Fo by exact D. apply Jn; exact Hj. }
      split.
      { intros i Hi. destruct (Nat.eq_dec i t) as [->|D].
        - exists (o_th o). split; [exact Nt'|exact W'].
        - destruct (Wk i Hi) as (thi & Ni & Wi).
          destruct (others_thread s woken t (o_th o) i D thi Ni) as (x & Hx & Hor & _).
          exists x. split; [rewrite Et; exact Hx|]. rewrite Bo, Fo by exact D.
          eapply Wc_frame; [exact Wi | apply Mono | exact Hor]. }
      split; [exists ths; split; auto|].
      intros u thu Hu Nu. rewrite Et in Nu. rewrite nth_error_upd_neq in Nu by lia.
      rewrite nth_error_wake_tids in Nu. destruct (nth_error (threads s) u) as [x|] eqn:Nx; [|discriminate].
      cbn in Nu. pose proof (Pr u x Hu Nx) as Px. rewrite (pthread_wake _ Px) in Nu.
      destruct (existsb _ woken); injection Nu as <-; exact Px.
    - (* the shutdown thread steps *)
      subst t. rewrite N in Ns. injection Ns as <-.
      rewrite SP in Fl, Jn.
      destruct (stopper_step th _ _ _ o Ss T OK Le Lr Wr' Fl Jn) as (Ss' & Bs & Fs & Lr' & Fl' & Jn' & St).
      assert (SP' : spc_of s' = tpc (o_th o)) by (apply spc_of_eq; exact Nt').
      rewrite Ew, Ep, SP', Bs, Fs.
      split; [exact Lb|]. split; [congruence|]. split; [exact Lr'|]. split; [exact Lf|]. split; [exact OK'|].
      split; [exact Fl'|]. split; [exact Jn'|].
      split.
      { intros i Hi. destruct (Wk i Hi) as (thi & Ni & Wi). rewrite SP in Wi.
        destruct (others_thread s woken (c_n c) (o_th o) i ltac:(lia) thi Ni) as (x & Hx & Hor & Hin).
        exists x. split; [rewrite Et; exact Hx|].
        destruct (St (grp c i) (grp_lt c i gs_pos Hi)) as (StA & StB & StC).
        eapply Wc_stopper; [exact Wi | apply Mono | exact Hor | | | ].
        - intros G. destruct (StA G) as [G1|[G2|[G3 G4]]]; auto.
          right; right. split; [exact G3|].
          (* every blocked worker of the group was woken *)
          intros j wj Ej. rewrite G4 in Ewk.
          destruct Hor as [->| ->].
          + (* x = thi is Blocked: then i is a waiter, hence woken *)
            assert (Iw : In i woken).
            { rewrite Ewk. apply wake_pick_all_in; [unfold waiters; apply length_tids_where|].
              apply in_waiters. exists thi. split; [exact Ni|]. unfold blocked_on. rewrite Ej, Hcf.
              destruct Wi as (HWi & _). unfold wthread in HWi. rewrite Ej in HWi. cbn in HWi.
              destruct wj; try tauto. destruct HWi as [-> _]. apply Nat.eqb_refl. }
            specialize (Hin Iw). pose proof (wake_thread_pc thi) as Q. rewrite Ej in Q. rewrite <- Hin in Q. congruence.
          + rewrite wake_thread_pc in Ej. destruct (tpc thi); discriminate.
        - intros G. specialize (StB G). destruct Wi as (_ & Hbit & _). 
          apply (grp_bits_none c (bits (wks s)) (grp c i) i gs_pos eq_refl StB).
        - intros G. rewrite (StC G). lia. }
      split; [exists (o_th o); split; auto|].
      intros u thu Hu Nu. rewrite Et in Nu. rewrite nth_error_upd_neq in Nu by lia.
      rewrite nth_error_wake_tids in Nu. destruct (nth_error (threads s) u) as [x|] eqn:Nx; [|discriminate].
      cbn in Nu. pose proof (Pr u x Hu Nx) as Px. rewrite (pthread_wake _ Px) in Nu.
      destruct (existsb _ woken); injection Nu as <-; exact Px.
    - (* a producer steps *)
      pose proof (Pr t th Gt N) as Pt.
      destruct (producer_step th _ _ _ o Pt T) as (Pt' & Bs & Fs & (FmL & Fm) & _).
      assert (Ns' : nth_error (threads s') (c_n c) = Some ths).
      { destruct (others_thread s woken t (o_th o) (c_n c) ltac:(lia) ths Ns) as (x & Hx & [->| ->] & _); rewrite Et; rewrite Hx; auto.
        rewrite (sthread_wake _ Ss). reflexivity. }
      assert (SP' : spc_of s' = spc_of s) by (rewrite (spc_of_eq _ _ Ns'); auto).
      rewrite Ew, Ep, SP', Bs, Fs.
      split; [exact Lb|]. split; [congruence|]. split; [congruence|]. split; [exact Lf|]. split; [exact OK'|].
      split; [intros j Hj; apply Fm; apply Fl; exact Hj|]. split; [exact Jn|].
      split.
      { intros i Hi. destruct (Wk i Hi) as (thi & Ni & Wi).
        destruct (others_thread s woken t (o_th o) i ltac:(lia) thi Ni) as (x & Hx & Hor & _).
        exists x. split; [rewrite Et; exact Hx|].
        eapply Wc_frame; [exact Wi | apply Mono | exact Hor]. }
      split; [exists ths; split; auto|].
      intros u thu Hu Nu. destruct (Nat.eq_dec u t) as [->|D]; [rewrite Nt' in Nu; injection Nu as <-; exact Pt'|].
      rewrite Et in Nu. rewrite nth_error_upd_neq in Nu by lia.
      rewrite nth_error_wake_tids in Nu. destruct (nth_error (threads s) u) as [x|] eqn:Nx; [|discriminate].
      cbn in Nu. pose proof (Pr u x Hu Nx) as Px. rewrite (pthread_wake _ Px) in Nu.
      destruct (existsb _ woken); injection Nu as <-; exact Px.
  Qed.

  (* ---------- initial states ---------- *)
  Definition cf_opb (o : op) : bool :=
    match o with
    | ORunLoad _ | OCurrent _ | OStop _ | OSeed _ | ORange _ | OWakeAll | OCascade _ | OTotal
    | OPushRing _ | OPushCentral | OPushSteal _ | OPoll _ | ORings _ | OJoin _ => true
    | _ => false
    end.
  Definition claim_free (progs : list (list op)) : bool := forallb (forallb cf_opb) progs.

  Lemma cf_opb_ok o : cf_opb o = true -> cf_op o.
  Proof. destruct o; cbn; auto; discriminate. Qed.

  (* worker i = thread i runs threadLoopImpl; thread n runs the shutdown sequence; then any claim-free producers *)
  Definition pool_progs (producers : list (list op)) : list (list op) :=
    map (fun i => [OWorker i]) (seq O (c_n c)) ++ [[OShutdown]] ++ producers.

  Lemma nth_error_pool_progs_worker producers i :
    (i < c_n c)%nat -> nth_error (pool_progs producers) i = Some [OWorker i].
  Proof.
    intros H. unfold pool_progs. rewrite nth_error_app1 by (rewrite map_length, seq_length; exact H).
    rewrite nth_error_map. rewrite (nth_error_nth' (seq 0 (c_n c)) O) by (rewrite seq_length; exact H).
    rewrite seq_nth by exact H. reflexivity.
  Qed.

  Lemma nth_error_pool_progs_stopper producers : nth_error (pool_progs producers) (c_n c) = Some [OShutdown].
  Proof.
    unfold pool_progs. rewrite nth_error_app2 by (rewrite map_length, seq_length; lia).
    rewrite map_length, seq_length, Nat.sub_diag. reflexivity.
  Qed.

  Lemma nth_error_pool_progs_producer producers u pr :
    (c_n c < u)%nat -> nth_error (pool_progs producers) u = Some pr -> In pr producers.
  Proof.
    intros H N. unfold pool_progs in N. rewrite nth_error_app2 in N by (rewrite map_length, seq_length; lia).
    rewrite map_length, seq_length in N. destruct (u - c_n c)%nat as [|k] eqn:K; [lia|]. cbn in N.
    eapply nth_error_In; eauto.
  Qed.

  Lemma init_inv producers : claim_free producers = true -> Inv (init c (pool_progs producers)).
  Proof.
    intros CF. split; [reflexivity|]. intros _. unfold init; cbn.
    assert (SPC : spc_of (init c (pool_progs producers)) = PStart).
    { unfold spc_of, init; cbn. rewrite nth_error_map, nth_error_pool_progs_stopper. reflexivity. }
    unfold init in SPC; cbn in SPC. rewrite SPC.
    rewrite !repeat_length.
    split; [reflexivity|]. split; [reflexivity|]. split; [reflexivity|]. split; [reflexivity|].
    split. { unfold epochs_ok; cbn. apply Forall_forall. intros e He. apply repeat_spec in He. subst. split; [lia | reflexivity]. }
    split; [cbn; intros; lia|]. split; [cbn; intros; lia|].
    split.
    { intros i Hi. exists (mk_thread PStart [OWorker i]). split.
      - rewrite nth_error_map, nth_error_pool_progs_worker by exact Hi. reflexivity.
      - assert (R : forall (A : Type) (x d : A) k m, nth k (repeat x m) d = x \/ nth k (repeat x m) d = d).
        { intros A x d k m. revert k; induction m as [|m IH]; intros [|k]; cbn; auto. }
        assert (Rb : nth i (repeat false (c_n c)) false = false) by (destruct (R bool false false i (c_n c)); auto).
        assert (Re : nth (grp c i) (repeat 0 (ngroups c)) 0 = 0) by (destruct (R Z 0 0 (grp c i) (ngroups c)); auto).
        rewrite Rb, Re. wc_split; cbn; auto; try lia; try discriminate. }
    split.
    { exists (mk_thread PStart [OShutdown]). split; [rewrite nth_error_map, nth_error_pool_progs_stopper; reflexivity|].
      unfold sthread; cbn. reflexivity. }
    intros u thu Hu Nu. rewrite nth_error_map in Nu.
    destruct (nth_error (pool_progs producers) u) as [pr|] eqn:Np; [|discriminate]. injection Nu as <-.
    apply nth_error_pool_progs_producer in Np; [|exact Hu].
    unfold pthread; cbn. split; [exact I|].
    unfold claim_free in CF. rewrite forallb_forall in CF. specialize (CF _ Np). rewrite forallb_forall in CF.
    apply Forall_forall. intros o Ho. apply cf_opb_ok. apply CF. exact Ho.
  Qed.

  Theorem shutdown_invariant producers s :
    claim_free producers = true -> reach step (init c (pool_progs producers)) s -> Inv s.
  Proof.
    intros CF R. apply (reach_inv step Inv (init c (pool_progs producers))); [apply init_inv; exact CF | | exact R].
    intros s1 t ch s1' ch' site I E. eapply step_inv; eauto.
  Qed.

  (* ---------- corollaries ---------- *)
  (* the wakeAll pass of the shutdown sequence is complete *)
  Definition wakeall_complete (s : state) : Prop :=
    match spc_of s with PJoinAll _ | PDone => True | _ => False end.

  (* after stop-all; wakeAll no worker is (or can again become) blocked in the futex, in any state of any schedule:
     in particular no timeout-free state is stuck with a live worker parked *)
  Theorem stop_reaches_all producers s :
    claim_free producers = true -> reach step (init c (pool_progs producers)) s -> wrapped (wks s) = false ->
    wakeall_complete s ->
    forall i, (i < c_n c)%nat -> exists th, nth_error (threads s) i = Some th /\
      (forall j w, tpc th <> PBlocked j w) /\                          (* not parked *)
      (committed (tpc th) = true -> lep th < nth (grp c i) (epochs (wks s)) 0) /\   (* and cannot park: the futex wait will fail *)
      nth i (runflags (pl s)) true = false /\                          (* its running flag is false *)
      (tpc th = PDone \/ In i (cands s)).                              (* it has returned or it is enabled *)
  Proof.
    intros CF R Wr WC i Hi.
    destruct (shutdown_invariant _ _ CF R) as [Hcf I]. destruct (I Wr) as (Lb & Le & Lr & Lf & OK & Fl & Jn & Wk & _ & _).
    destruct (Wk i Hi) as (th & Ni & W). exists th. split; [exact Ni|].
    destruct W as (HW & Hbit & Hle & Hfin & Ha & _ & _).
    assert (G : gdone (spc_of s) (grp c i) = true) by (unfold wakeall_complete in WC; destruct (spc_of s); try contradiction; reflexivity).
    destruct (Ha G) as [NB CL]. split; [exact NB|]. split; [exact CL|].
    split. { apply Fl. unfold wakeall_complete in WC. destruct (spc_of s); try contradiction; cbn; exact Hi. }
    destruct (tpc th) eqn:P; auto; right; unfold cands; apply in_or_app; left; apply in_tids_where; (split; [lia|]);
      rewrite Nat.sub_0_r; exists th; (split; [exact Ni|]); unfold runnable_in; rewrite P; auto.
    - exfalso. eapply NB; eauto.
    - exfalso. unfold wthread in HW. rewrite P in HW. cbn in HW. tauto.
    - exfalso. unfold wthread in HW. rewrite P in HW. cbn in HW. tauto.
  Qed.

  (* once the joins of the shutdown sequence have returned, every worker thread of the old configuration has returned *)
  Theorem join_then_no_old_worker producers s :
    claim_free producers = true -> reach step (init c (pool_progs producers)) s -> wrapped (wks s) = false ->
    spc_of s = PDone ->
    forall i, (i < c_n c)%nat -> exists th, nth_error (threads s) i = Some th /\ tpc th = PDone.
  Proof.
    intros CF R Wr SD i Hi.
    destruct (shutdown_invariant _ _ CF R) as [Hcf I]. destruct (I Wr) as (Lb & Le & Lr & Lf & OK & Fl & Jn & Wk & _ & _).
    destruct (Wk i Hi) as (th & Ni & W). exists th. split; [exact Ni|].
    destruct W as (_ & _ & _ & Hfin & _). apply Hfin. apply Jn. rewrite SD. cbn. exact Hi.
  Qed.

  (* the key invariant, per group and at every moment: once the shutdown's wakeAll has passed group g, a worker of g that is past
     its running() re-check holds a local epoch strictly below the group epoch *)
  Theorem bumped_epoch_not_yet_rechecked producers s i :
    claim_free producers = true -> reach step (init c (pool_progs producers)) s -> wrapped (wks s) = false ->
    (i < c_n c)%nat -> gdone (spc_of s) (grp c i) = true ->
    exists th, nth_error (threads s) i = Some th /\ (forall j w, tpc th <> PBlocked j w) /\
               (committed (tpc th) = true -> lep th < nth (grp c i) (epochs (wks s)) 0).
  Proof.
    intros CF R Wr Hi G.
    destruct (shutdown_invariant _ _ CF R) as [Hcf I]. destruct (I Wr) as (_ & _ & _ & _ & _ & _ & _ & Wk & _ & _).
    destruct (Wk i Hi) as (th & Ni & W). exists th. split; [exact Ni|].
    destruct W as (_ & _ & _ & _ & Ha & _ & _). exact (Ha G).
  Qed.
End C09.

(* ---------- poll mode: the poll period is the mechanism ---------- *)
(* with timed waits allowed to time out (ordinary steps in poll mode), a worker blocked in the futex is always a candidate *)
Lemma blocked_is_candidate_with_timeouts s t th i w :
  c_tmo (cf s) = true -> nth_error (threads s) t = Some th -> tpc th = PBlocked i w -> In t (cands s).
Proof.
  intros Tm N P. unfold cands. rewrite Tm. apply in_or_app. right. apply in_tids_where. split; [lia|].
  rewrite Nat.sub_0_r. exists th. split; [exact N|]. unfold timed_blocked. rewrite P. reflexivity.
Qed.

Lemma blocked_step_with_timeouts c w p N th i k :
  c_tmo c = true -> tpc th = PBlocked i k -> exists o, tstep c w p N th = Some o /\ tpc (o_th o) = PWf2 i k.
Proof. intros Tm P. unfold tstep. rewrite P, Tm. eexists; split; reflexivity. Qed.

(* ---------- the refutation: claimAndWakeOne + arbitrary futex waiter + wakeAll's mask test ---------- *)
Definition refute_cfg : cfg := CFG 2 8 4 true 1 false.
Definition refute_progs : list (list op) := pool_progs refute_cfg [[OSchedule]].
Definition refute_sched : list Z := repeat 0 24 ++ repeat 1 11 ++ [1; 1] ++ [2] ++ repeat 0 4 ++ repeat 1 5 ++ repeat 0 10.

Lemma run_wake_reach fuel c progs sched : reach step (init c progs) (fst (fst (run_wake fuel c progs sched))).
Proof. unfold run_wake. apply run_reach. apply reach_refl. Qed.

Notation refuted_state := (fst (fst (run_wake 100 refute_cfg refute_progs refute_sched))) (only parsing).

(* evaluated by the VM (the proof term is a vm cast) *)
Lemma refuted_props :
  snd (run_wake 100 refute_cfg refute_progs refute_sched) = SDeadlock /\
  map tpc (threads refuted_state) = [PBlocked 0 WLoop; PDone; PJoinAll 0; PDone] /\
  option_map tpc (nth_error (threads refuted_state) 0) = Some (PBlocked 0 WLoop) /\
  spc_of refute_cfg refuted_state = PJoinAll 0 /\
  runflags (pl refuted_state) = [false; false] /\ bits (wks refuted_state) = [false; false] /\
  wrapped (wks refuted_state) = false /\ cands refuted_state = [].
Proof. vm_compute. repeat split; reflexivity. Qed.

Lemma refuted_reach :
  exists s, reach step (init refute_cfg refute_progs) s /\ wrapped (wks s) = false /\
            wakeall_complete refute_cfg s /\
            (exists th, nth_error (threads s) 0 = Some th /\ tpc th = PBlocked 0 WLoop) /\
            nth 0 (runflags (pl s)) true = false /\
            cands s = [].
Proof.
  destruct refuted_props as (_ & _ & Hp & Hs & Hf & _ & Hw & Hc).
  exists refuted_state. split; [exact (run_wake_reach 100 refute_cfg refute_progs refute_sched)|].
  revert Hp Hs Hf Hw Hc. generalize refuted_state as s. intros s Hp Hs Hf Hw Hc.
  split; [exact Hw|].
  split. { unfold wakeall_complete. rewrite Hs. exact I. }
  split. { destruct (nth_error (threads s) 0) as [th|]; [|discriminate]. exists th. split; [reflexivity|].
           cbn in Hp. congruence. }
  split; [rewrite Hf; reflexivity | exact Hc].
Qed.
