(* C24: AsyncRequest -- invariants over ALL interleavings of Model/AsyncReqModel.v (any number of threads: requesters,
   producers AND consumers; the model is the code after "fix: AsyncRequest::getUpdate must claim the update before moving it").
   Part 1: counting invariants (results <-> ghost log, tags).
   Part 2: the state-machine invariant None -> NeedsUpdate -> Updating -> Ready -> Updating(consumer) -> None.
   Part 3: the former two-consumer witness as a regression run. *)
From Coq Require Import ZArith List Bool Lia.
From DV Require Import Base.MachInt Base.Sched Model.AsyncReqModel.
Import ListNotations.
Local Open Scope Z_scope.

(* ---------- totals over the thread list ---------- *)
Lemma total_set_nth {A} (f : A -> Z) l t x old :
  nth_error l t = Some old -> total f (set_nth l t x) = total f l - f old + f x.
Proof.
  revert t; induction l as [|a l IH]; intros t N; [destruct t; discriminate|].
  destruct t as [|t]; cbn in *.
  - injection N as ->. lia.
  - rewrite (IH _ N). lia.
Qed.

Lemma total_nonneg {A} (f : A -> Z) l : (forall x, 0 <= f x) -> 0 <= total f l.
Proof. intros H. induction l as [|a l IH]; cbn; [lia|]. specialize (H a). lia. Qed.

Lemma total_le {A} (f g : A -> Z) l : (forall x, f x <= g x) -> total f l <= total g l.
Proof. intros H. induction l as [|a l IH]; cbn; [lia|]. specialize (H a). lia. Qed.

Lemma total_ge_nth {A} (f : A -> Z) l t x : (forall y, 0 <= f y) -> nth_error l t = Some x -> f x <= total f l.
Proof.
  intros H. revert t; induction l as [|a l IH]; intros t N; [destruct t; discriminate|].
  destruct t as [|t]; cbn in *.
  - injection N as ->. pose proof (total_nonneg f l H). lia.
  - specialize (IH _ N). specialize (H a). lia.
Qed.

Lemma total_plus {A} (f g : A -> Z) l : total (fun x => f x + g x) l = total f l + total g l.
Proof. induction l as [|a l IH]; cbn; lia. Qed.

Lemma total_map {A B} (f : B -> Z) (g : A -> B) l : total f (map g l) = total (fun x => f (g x)) l.
Proof. induction l as [|a l IH]; cbn; [reflexivity|]. rewrite IH. reflexivity. Qed.

Lemma total_ext {A} (f g : A -> Z) l : (forall x, f x = g x) -> total f l = total g l.
Proof. intros H. induction l as [|a l IH]; cbn; [reflexivity|]. rewrite IH, H. reflexivity. Qed.

(* ---------- event counters ---------- *)
Definition isGet (v : Z) (e : ev) : Z := match e with EvGet x => if x =? v then 1 else 0 | _ => 0 end.
Definition isEmp (v : Z) (e : ev) : Z := match e with EvEmplace x => if x =? v then 1 else 0 | _ => 0 end.
Definition isReqE (e : ev) : Z := match e with EvReq => 1 | _ => 0 end.
Definition isEmpE (e : ev) : Z := match e with EvEmplace _ => 1 | _ => 0 end.
Definition cntGet (v : Z) (h : list ev) : Z := total (isGet v) h.
Definition cntEmp (v : Z) (h : list ev) : Z := total (isEmp v) h.
Definition cntReq (h : list ev) : Z := total isReqE h.
Definition cntEmpAll (h : list ev) : Z := total isEmpE h.

Lemma cntGet_nonneg v h : 0 <= cntGet v h.
Proof. apply total_nonneg. intros [| |x]; cbn; try lia. destruct (x =? v); lia. Qed.
Lemma cntEmp_nonneg v h : 0 <= cntEmp v h.
Proof. apply total_nonneg. intros [|x|]; cbn; try lia. destruct (x =? v); lia. Qed.

(* ---------- per-thread indicators ---------- *)
Definition iE (p : pc) : Z := match p with PEmplace _ => 1 | _ => 0 end.
Definition iSR (p : pc) : Z := match p with PStoreReady => 1 | _ => 0 end.
Definition iMV (p : pc) : Z := match p with PMove => 1 | _ => 0 end.
Definition iSN (p : pc) : Z := match p with PMoveT _ | PStoreNone _ => 1 | _ => 0 end.

Definition nE (l : list thread) : Z := total (fun th => iE (tpc th)) l.
Definition nSR (l : list thread) : Z := total (fun th => iSR (tpc th)) l.
Definition nMV (l : list thread) : Z := total (fun th => iMV (tpc th)) l.
Definition nSN (l : list thread) : Z := total (fun th => iSN (tpc th)) l.

Lemma iE_range p : 0 <= iE p <= 1. Proof. destruct p; cbn; lia. Qed.
Lemma iSR_range p : 0 <= iSR p <= 1. Proof. destruct p; cbn; lia. Qed.
Lemma iMV_range p : 0 <= iMV p <= 1. Proof. destruct p; cbn; lia. Qed.
Lemma iSN_range p : 0 <= iSN p <= 1. Proof. destruct p; cbn; lia. Qed.

Lemma nE_nonneg l : 0 <= nE l. Proof. apply total_nonneg. intros; apply iE_range. Qed.
Lemma nSR_nonneg l : 0 <= nSR l. Proof. apply total_nonneg. intros; apply iSR_range. Qed.
Lemma nMV_nonneg l : 0 <= nMV l. Proof. apply total_nonneg. intros; apply iMV_range. Qed.
Lemma nSN_nonneg l : 0 <= nSN l. Proof. apply total_nonneg. intros; apply iSN_range. Qed.

(* the effect of replacing thread t on all counters *)
Lemma counters_change l t th th' :
  nth_error l t = Some th ->
  nE (set_nth l t th') = nE l - iE (tpc th) + iE (tpc th') /\
  nSR (set_nth l t th') = nSR l - iSR (tpc th) + iSR (tpc th') /\
  nMV (set_nth l t th') = nMV l - iMV (tpc th) + iMV (tpc th') /\
  nSN (set_nth l t th') = nSN l - iSN (tpc th) + iSN (tpc th').
Proof.
  intros N. unfold nE, nSR, nMV, nSN.
  rewrite !(total_set_nth _ _ _ _ _ N). repeat split; reflexivity.
Qed.

Lemma in_counters l t th :
  nth_error l t = Some th ->
  iE (tpc th) <= nE l /\ iSR (tpc th) <= nSR l /\ iMV (tpc th) <= nMV l /\ iSN (tpc th) <= nSN l.
Proof.
  intros N. unfold nE, nSR, nMV, nSN. repeat split.
  - apply (total_ge_nth (fun th => iE (tpc th)) l t th); [intros; apply iE_range | exact N].
  - apply (total_ge_nth (fun th => iSR (tpc th)) l t th); [intros; apply iSR_range | exact N].
  - apply (total_ge_nth (fun th => iMV (tpc th)) l t th); [intros; apply iMV_range | exact N].
  - apply (total_ge_nth (fun th => iSN (tpc th)) l t th); [intros; apply iSN_range | exact N].
Qed.

(* threads produced by [next]: outside every section *)
Lemma next_sec th : iE (tpc (next th)) = 0 /\ iSR (tpc (next th)) = 0 /\ iMV (tpc (next th)) = 0 /\ iSN (tpc (next th)) = 0.
Proof. unfold next. destruct (prog th) as [|o r]; cbn; [auto|]. destruct o; cbn; auto. Qed.

Lemma next_logr th a b : tpc (next (logr th a b)) = tpc (next th) /\ prog (next (logr th a b)) = prog (next th).
Proof. unfold next, logr; cbn. destruct (prog th); cbn; auto. Qed.

Lemma next_log_get th r : tpc (next (log_get th r)) = tpc (next th) /\ prog (next (log_get th r)) = prog (next th).
Proof. destruct r; cbn; apply next_logr. Qed.

(* ====================================================================================================
   Part 1: counting invariants
   ==================================================================================================== *)
Definition pend (v : Z) (p : pc) : Z :=
  match p with PMoveT (Some x) | PStoreNone (Some x) => if x =? v then 1 else 0 | _ => 0 end.
Definition gcount (v : Z) (th : thread) : Z := got_count v (res th) + pend v (tpc th).

Definition tag_count (v : Z) (l : list Z) : Z := total (fun x => if x =? v then 1 else 0) l.
Definition pcrem (v : Z) (p : pc) : Z :=
  match p with PEmpCas x | PEmplace x => if x =? v then 1 else 0 | _ => 0 end.
Definition remaining (v : Z) (th : thread) : Z := tag_count v (flat_map op_tags (prog th)) + pcrem v (tpc th).

Lemma tag_count_app v a b : tag_count v (a ++ b) = tag_count v a + tag_count v b.
Proof. unfold tag_count. induction a as [|x a IH]; cbn; [lia|]. rewrite IH. lia. Qed.

Lemma tag_count_nonneg v l : 0 <= tag_count v l.
Proof. apply total_nonneg. intros x. destruct (x =? v); lia. Qed.

Lemma got_count_cons v a b l :
  got_count v ((a, b) :: l) = got_count v l + (if (a =? r_get) && (b =? v) then 1 else 0).
Proof.
  unfold got_count. cbn [filter fst snd]. destruct ((a =? r_get) && (b =? v)); cbn [length]; lia.
Qed.

Lemma got_count_other v a b l : a <> r_get -> got_count v ((a, b) :: l) = got_count v l.
Proof. intros H. rewrite got_count_cons. apply Z.eqb_neq in H. rewrite H. cbn. lia. Qed.
Lemma got_count_get v b l : got_count v ((r_get, b) :: l) = got_count v l + (if b =? v then 1 else 0).
Proof. rewrite got_count_cons. rewrite Z.eqb_refl. reflexivity. Qed.

Lemma got_count_nonneg v l : 0 <= got_count v l.
Proof. unfold got_count. lia. Qed.

Lemma remaining_next v th : remaining v (next th) = tag_count v (flat_map op_tags (prog th)).
Proof.
  unfold remaining, next. destruct (prog th) as [|o r]; cbn [prog tpc flat_map]; [cbn; lia|].
  rewrite tag_count_app. destruct o; cbn; lia.
Qed.
Lemma remaining_goto v th p : remaining v (goto th p) = tag_count v (flat_map op_tags (prog th)) + pcrem v p.
Proof. reflexivity. Qed.
Lemma remaining_next_logr v th a b : remaining v (next (logr th a b)) = remaining v (next th).
Proof. unfold remaining. destruct (next_logr th a b) as [-> ->]. reflexivity. Qed.
Lemma remaining_next_log_get v th r : remaining v (next (log_get th r)) = remaining v (next th).
Proof. unfold remaining. destruct (next_log_get th r) as [-> ->]. reflexivity. Qed.

Lemma gcount_next v th : gcount v (next th) = got_count v (res th).
Proof. unfold gcount, next. destruct (prog th) as [|o r]; cbn; [lia|]. destruct o; cbn; lia. Qed.
Lemma gcount_goto v th p : gcount v (goto th p) = got_count v (res th) + pend v p.
Proof. reflexivity. Qed.

Record CInv (R0 : Z -> Z) (s : state) : Prop := {
  c_get : forall v, total (gcount v) (threads s) = cntGet v (hist s);
  c_rem : forall v, cntEmp v (hist s) + total (remaining v) (threads s) <= R0 v;
  c_req : cntEmpAll (hist s) + nE (threads s) + (if word s =? kNeedsUpdate then 1 else 0) <= cntReq (hist s);
  c_obj : forall v, obj s = Some v -> 0 < cntEmp v (hist s);
  c_thin : forall v, 0 < cntGet v (hist s) -> 0 < cntEmp v (hist s)
}.

Ltac g1 P TG :=
  let v := fresh "v" in
  intros v; rewrite TG; rewrite ?gcount_next, ?gcount_goto; unfold gcount; rewrite ?P;
  cbn [pend total isGet res logr log_get];
  rewrite ?got_count_other by (unfold r_get, r_updreq, r_emplace, r_getnone; lia); rewrite ?got_count_get;
  try lia.
Ltac g2 P TR R TN :=
  let v := fresh "v" in
  intros v; rewrite TR; rewrite ?remaining_next_logr, ?remaining_next_log_get, ?remaining_next, ?remaining_goto;
  specialize (R v); specialize (TN v); unfold remaining in *; rewrite ?P in *; cbn [pcrem total isEmp] in *; try lia.
Ltac g3 P CE :=
  rewrite CE; cbn [tpc goto];
  try (match goal with |- context [next ?x] => destruct (next_sec x) as (-> & _) end);
  rewrite ?P; cbn [iE total isEmpE isReqE] in *; try lia.

Ltac kfin := unfold kNone, kNeedsUpdate, kUpdating, kReady in *; cbn [Z.eqb Pos.eqb] in *; lia.

Lemma cstep_inv R0 s t ch s' ch' site : CInv R0 s -> step s t ch = Some (s', ch', site) -> CInv R0 s'.
Proof.
  intros I E. unfold step in E.
  destruct (nth_error (threads s) t) as [th|] eqn:N; [|discriminate].
  pose proof (c_get _ _ I) as G. pose proof (c_rem _ _ I) as R. pose proof (c_req _ _ I) as Q.
  pose proof (c_obj _ _ I) as O. pose proof (c_thin _ _ I) as T.
  assert (CE : forall th', nE (set_nth (threads s) t th') = nE (threads s) - iE (tpc th) + iE (tpc th'))
    by (intros th'; apply (counters_change _ _ _ th' N)).
  assert (TG : forall v th', total (gcount v) (set_nth (threads s) t th') = cntGet v (hist s) - gcount v th + gcount v th')
    by (intros v th'; rewrite (total_set_nth _ _ _ _ _ N), G; reflexivity).
  assert (TR : forall v th', total (remaining v) (set_nth (threads s) t th') = total (remaining v) (threads s) - remaining v th + remaining v th')
    by (intros v th'; apply (total_set_nth _ _ _ _ _ N)).
  assert (GN : forall v, 0 <= got_count v (res th)) by (intros; apply got_count_nonneg).
  assert (TN : forall v, 0 <= tag_count v (flat_map op_tags (prog th))) by (intros; apply tag_count_nonneg).
  unfold cntGet, cntEmp, cntEmpAll, cntReq in *.
  destruct (tpc th) eqn:P.
  - (* PStart *) injection E as <- _ _. constructor; cbn [word obj hist threads keep]; unfold cntGet, cntEmp, cntEmpAll, cntReq.
    + g1 P TG.
    + g2 P TR R TN.
    + g3 P CE.
    + auto.
    + auto.
  - (* PReqCas *) destruct (word s =? kNone) eqn:W; injection E as <- _ _; constructor; cbn [word obj hist threads keep]; unfold cntGet, cntEmp, cntEmpAll, cntReq.
    + g1 P TG.
    + g2 P TR R TN.
    + g3 P CE. apply Z.eqb_eq in W. rewrite W in Q. kfin.
    + intros v Hv. specialize (O v Hv). cbn. lia.
    + intros v Hv. cbn in *. auto.
    + g1 P TG.
    + g2 P TR R TN.
    + g3 P CE.
    + auto.
    + auto.
  - (* PUpdLoad *) injection E as <- _ _. constructor; cbn [word obj hist threads keep]; unfold cntGet, cntEmp, cntEmpAll, cntReq.
    + g1 P TG.
    + g2 P TR R TN.
    + g3 P CE.
    + auto.
    + auto.
  - (* PEmpCas *) destruct (word s =? kNeedsUpdate) eqn:W; injection E as <- _ _; constructor; cbn [word obj hist threads keep]; unfold cntGet, cntEmp, cntEmpAll, cntReq.
    + g1 P TG.
    + g2 P TR R TN.
    + g3 P CE. kfin.
    + auto.
    + auto.
    + g1 P TG.
    + g2 P TR R TN. destruct (v =? v0); lia.
    + g3 P CE. rewrite W. lia.
    + auto.
    + auto.
  - (* PEmplace *) injection E as <- _ _. constructor; cbn [word obj hist threads keep]; unfold cntGet, cntEmp, cntEmpAll, cntReq.
    + g1 P TG.
    + g2 P TR R TN.
    + g3 P CE.
    + intros v0 Hv. injection Hv as ->. cbn [total isEmp]. rewrite Z.eqb_refl. pose proof (cntEmp_nonneg v0 (hist s)). unfold cntEmp in *. lia.
    + intros v0 Hv. cbn [total isEmp isGet] in *. specialize (T v0). destruct (v =? v0); lia.
  - (* PStoreReady *) injection E as <- _ _. constructor; cbn [word obj hist threads keep]; unfold cntGet, cntEmp, cntEmpAll, cntReq.
    + g1 P TG.
    + g2 P TR R TN.
    + g3 P CE. destruct (word s =? kNeedsUpdate); kfin.
    + auto.
    + auto.
  - (* PGetCas *) destruct (word s =? kReady) eqn:W; injection E as <- _ _; constructor; cbn [word obj hist threads keep]; unfold cntGet, cntEmp, cntEmpAll, cntReq.
    + g1 P TG.
    + g2 P TR R TN.
    + g3 P CE. apply Z.eqb_eq in W. rewrite W in Q. kfin.
    + auto.
    + auto.
    + g1 P TG.
    + g2 P TR R TN.
    + g3 P CE.
    + auto.
    + auto.
  - (* PMove *) destruct (obj s) as [x|] eqn:Ob; injection E as <- _ _; constructor; cbn [word obj hist threads keep]; unfold cntGet, cntEmp, cntEmpAll, cntReq.
    + g1 P TG.
    + g2 P TR R TN.
    + g3 P CE.
    + intros v0 Hv. cbn [total isEmp]. apply O. exact Hv.
    + intros v0 Hv. cbn [total isEmp isGet] in *. destruct (x =? v0) eqn:Ex.
      * apply Z.eqb_eq in Ex. subst v0. apply O. reflexivity.
      * apply T. lia.
    + g1 P TG.
    + g2 P TR R TN.
    + g3 P CE.
    + intros v0 Hv. discriminate.
    + auto.
  - (* PMoveT *) injection E as <- _ _. constructor; cbn [word obj hist threads keep]; unfold cntGet, cntEmp, cntEmpAll, cntReq.
    + g1 P TG.
    + g2 P TR R TN.
    + g3 P CE.
    + intros v0 Hv. destruct (keep s); [auto | discriminate].
    + auto.
  - (* PStoreNone *) injection E as <- _ _. constructor; cbn [word obj hist threads keep]; unfold cntGet, cntEmp, cntEmpAll, cntReq.
    + destruct r as [x|]; g1 P TG.
    + g2 P TR R TN.
    + g3 P CE. destruct (word s =? kNeedsUpdate); kfin.
    + auto.
    + auto.
  - discriminate.
Qed.

Lemma total_gcount_init v progs : total (gcount v) (map (fun p => TH PStart p []) progs) = 0.
Proof. induction progs as [|p r IH]; cbn; [reflexivity|]. rewrite IH. reflexivity. Qed.

Lemma total_remaining_init v progs :
  total (remaining v) (map (fun p => TH PStart p []) progs) = tag_count v (all_tags progs).
Proof.
  unfold all_tags. induction progs as [|p r IH]; cbn [map total flat_map]; [reflexivity|].
  rewrite tag_count_app, IH. unfold remaining. cbn [prog tpc pcrem]. lia.
Qed.

Lemma nE_init progs : nE (map (fun p => TH PStart p []) progs) = 0.
Proof. unfold nE. induction progs as [|p r IH]; cbn; [reflexivity|]. rewrite IH. reflexivity. Qed.

Lemma cinit_inv kp progs : CInv (fun v => tag_count v (all_tags progs)) (init kp progs).
Proof.
  constructor; unfold init; cbn [word obj hist threads keep].
  - intros v. rewrite total_gcount_init. reflexivity.
  - intros v. rewrite total_remaining_init. cbn. lia.
  - rewrite nE_init. cbn. lia.
  - intros v H; discriminate.
  - intros v H; cbn in H; lia.
Qed.

Theorem counting_invariant kp progs s :
  reach step (init kp progs) s -> CInv (fun v => tag_count v (all_tags progs)) s.
Proof.
  intros Re. apply (reach_inv step (CInv _) (init kp progs)); [apply cinit_inv | | exact Re].
  intros s1 t ch s1' ch' site I E. eapply cstep_inv; eauto.
Qed.

(* delivered values are bounded by the ghost log, for every program *)
Lemma delivered_le_gets kp progs s v : reach step (init kp progs) s -> delivered v s <= cntGet v (hist s).
Proof.
  intros Re. rewrite <- (c_get _ _ (counting_invariant _ _ _ Re) v). unfold delivered. apply total_le.
  intros th. unfold gcount. assert (0 <= pend v (tpc th)); [|lia].
  unfold pend. destruct (tpc th) as [| | | | | | | |[x|]|[x|]|]; try lia; destruct (x =? v); lia.
Qed.

(* ====================================================================================================
   Part 2: the state machine.  kUpdating is held by exactly one thread: a producer between its CAS and its store of
   kReady, or a consumer between its CAS and its store of kNone.
   ==================================================================================================== *)
Definition hdk (h : list ev) : Z :=
  match h with [] => 0 | EvGet _ :: _ => 0 | EvReq :: _ => 1 | EvEmplace _ :: _ => 2 end.
Definition fresh (o : option Z) (h : list ev) : Prop :=
  match h with EvEmplace v :: _ => o = Some v | _ => False end.
(* the ghost log (newest first) is a prefix of (request, emplace v, get v)* *)
Fixpoint cyc (h : list ev) : Prop :=
  match h with
  | [] => True
  | EvReq :: r => hdk r = 0 /\ cyc r
  | EvEmplace _ :: r => hdk r = 1 /\ cyc r
  | EvGet v :: r => fresh (Some v) r /\ cyc r
  end.

Definition nSec (l : list thread) : Z := nE l + nSR l + nMV l + nSN l.

Record Inv (s : state) : Prop := {
  i_w : 0 <= word s <= 3;
  i_p2 : word s = 2 -> nSec (threads s) = 1;
  i_pn : word s <> 2 -> nSec (threads s) = 0;
  i_h0 : word s = 0 -> hdk (hist s) = 0;
  i_h1 : word s = 1 -> hdk (hist s) = 1;
  i_hE : nE (threads s) = 1 -> hdk (hist s) = 1;
  i_fSR : nSR (threads s) = 1 -> fresh (obj s) (hist s);
  i_fR : word s = 3 -> fresh (obj s) (hist s);
  i_fMV : nMV (threads s) = 1 -> fresh (obj s) (hist s);
  i_hSN : nSN (threads s) = 1 -> hdk (hist s) = 0;
  i_cyc : cyc (hist s)
}.

Ltac close1 I :=
  first [ lia
        | apply (i_fSR _ I); lia | apply (i_fR _ I); lia | apply (i_fMV _ I); lia | apply (i_hSN _ I); lia | apply (i_hE _ I); lia
        | apply (i_h0 _ I); lia | apply (i_h1 _ I); lia | exact (i_cyc _ I) | exfalso; lia ].
Ltac close I := intros; first [ close1 I | split; close1 I ].

Lemma step_inv s t ch s' ch' site : Inv s -> step s t ch = Some (s', ch', site) -> Inv s'.
Proof.
  intros I E. unfold step in E.
  destruct (nth_error (threads s) t) as [th|] eqn:N; [|discriminate].
  pose proof (i_w _ I) as Iw. pose proof (i_p2 _ I) as Ip2. pose proof (i_pn _ I) as Ipn.
  pose proof (nE_nonneg (threads s)). pose proof (nSR_nonneg (threads s)).
  pose proof (nMV_nonneg (threads s)). pose proof (nSN_nonneg (threads s)).
  destruct (in_counters _ _ _ N) as (inE & inSR & inMV & inSN).
  assert (S1 : nSec (threads s) <= 1) by (destruct (Z.eq_dec (word s) 2) as [e|e]; [rewrite (Ip2 e) | rewrite (Ipn e)]; lia).
  unfold nSec in *.
  unfold kNone, kNeedsUpdate, kUpdating, kReady in *.
  destruct (tpc th) eqn:P; cbn [iE iSR iMV iSN] in *.
  - (* PStart *) injection E as <- _ _.
    destruct (counters_change _ _ _ (next th) N) as (cE & cSR & cMV & cSN).
    destruct (next_sec th) as (e1 & e2 & e3 & e4). rewrite ?P, ?e1, ?e2, ?e3, ?e4 in *. cbn [iE iSR iMV iSN] in *.
    constructor; unfold nSec; cbn [word obj hist threads keep hdk fresh cyc]; rewrite ?cE, ?cSR, ?cMV, ?cSN; close I.
  - (* PReqCas *) destruct (word s =? 0) eqn:W; [apply Z.eqb_eq in W | apply Z.eqb_neq in W]; injection E as <- _ _.
    + destruct (counters_change _ _ _ (next th) N) as (cE & cSR & cMV & cSN).
      destruct (next_sec th) as (e1 & e2 & e3 & e4). rewrite ?P, ?e1, ?e2, ?e3, ?e4 in *. cbn [iE iSR iMV iSN] in *.
      constructor; unfold nSec; cbn [word obj hist threads keep hdk fresh cyc]; rewrite ?cE, ?cSR, ?cMV, ?cSN; close I.
    + destruct (counters_change _ _ _ (next th) N) as (cE & cSR & cMV & cSN).
      destruct (next_sec th) as (e1 & e2 & e3 & e4). rewrite ?P, ?e1, ?e2, ?e3, ?e4 in *. cbn [iE iSR iMV iSN] in *.
      constructor; unfold nSec; cbn [word obj hist threads keep hdk fresh cyc]; rewrite ?cE, ?cSR, ?cMV, ?cSN; close I.
  - (* PUpdLoad *) injection E as <- _ _.
    destruct (counters_change _ _ _ (next (logr th r_updreq (b2z (word s =? 1)))) N) as (cE & cSR & cMV & cSN).
    destruct (next_logr th r_updreq (b2z (word s =? 1))) as [q1 q2]. rewrite q1 in *.
    destruct (next_sec th) as (e1 & e2 & e3 & e4). rewrite ?P, ?e1, ?e2, ?e3, ?e4 in *. cbn [iE iSR iMV iSN] in *.
    constructor; unfold nSec; cbn [word obj hist threads keep hdk fresh cyc]; rewrite ?cE, ?cSR, ?cMV, ?cSN; close I.
  - (* PEmpCas *) destruct (word s =? 1) eqn:W; [apply Z.eqb_eq in W | apply Z.eqb_neq in W]; injection E as <- _ _.
    + destruct (counters_change _ _ _ (goto th (PEmplace v)) N) as (cE & cSR & cMV & cSN).
      rewrite ?P in *. cbn [tpc goto iE iSR iMV iSN] in *.
      constructor; unfold nSec; cbn [word obj hist threads keep hdk fresh cyc]; rewrite ?cE, ?cSR, ?cMV, ?cSN; close I.
    + destruct (counters_change _ _ _ (next (logr th r_emplace 0)) N) as (cE & cSR & cMV & cSN).
      destruct (next_logr th r_emplace 0) as [q1 q2]. rewrite q1 in *.
      destruct (next_sec th) as (e1 & e2 & e3 & e4). rewrite ?P, ?e1, ?e2, ?e3, ?e4 in *. cbn [iE iSR iMV iSN] in *.
      constructor; unfold nSec; cbn [word obj hist threads keep hdk fresh cyc]; rewrite ?cE, ?cSR, ?cMV, ?cSN; close I.
  - (* PEmplace *) injection E as <- _ _.
    destruct (counters_change _ _ _ (goto th (PStoreReady)) N) as (cE & cSR & cMV & cSN).
    rewrite ?P in *. cbn [tpc goto iE iSR iMV iSN] in *.
    constructor; unfold nSec; cbn [word obj hist threads keep hdk fresh cyc]; rewrite ?cE, ?cSR, ?cMV, ?cSN; close I.
  - (* PStoreReady *) injection E as <- _ _.
    destruct (counters_change _ _ _ (next (logr th r_emplace 1)) N) as (cE & cSR & cMV & cSN).
    destruct (next_logr th r_emplace 1) as [q1 q2]. rewrite q1 in *.
    destruct (next_sec th) as (e1 & e2 & e3 & e4). rewrite ?P, ?e1, ?e2, ?e3, ?e4 in *. cbn [iE iSR iMV iSN] in *.
    constructor; unfold nSec; cbn [word obj hist threads keep hdk fresh cyc]; rewrite ?cE, ?cSR, ?cMV, ?cSN; close I.
  - (* PGetCas *) destruct (word s =? 3) eqn:W; [apply Z.eqb_eq in W | apply Z.eqb_neq in W]; injection E as <- _ _.
    + destruct (counters_change _ _ _ (goto th (PMove)) N) as (cE & cSR & cMV & cSN).
      rewrite ?P in *. cbn [tpc goto iE iSR iMV iSN] in *.
      constructor; unfold nSec; cbn [word obj hist threads keep hdk fresh cyc]; rewrite ?cE, ?cSR, ?cMV, ?cSN; close I.
    + destruct (counters_change _ _ _ (next (logr th r_getnone 0)) N) as (cE & cSR & cMV & cSN).
      destruct (next_logr th r_getnone 0) as [q1 q2]. rewrite q1 in *.
      destruct (next_sec th) as (e1 & e2 & e3 & e4). rewrite ?P, ?e1, ?e2, ?e3, ?e4 in *. cbn [iE iSR iMV iSN] in *.
      constructor; unfold nSec; cbn [word obj hist threads keep hdk fresh cyc]; rewrite ?cE, ?cSR, ?cMV, ?cSN; close I.
  - (* PMove *) destruct (obj s) as [x|] eqn:Ob; injection E as <- _ _.
    + destruct (counters_change _ _ _ (goto th (PMoveT (Some x))) N) as (cE & cSR & cMV & cSN).
      rewrite ?P in *. cbn [tpc goto iE iSR iMV iSN] in *.
      constructor; unfold nSec; cbn [word obj hist threads keep hdk fresh cyc]; rewrite ?cE, ?cSR, ?cMV, ?cSN; try (close I).
      split; [rewrite <- Ob; apply (i_fMV _ I); lia | exact (i_cyc _ I)].
    + exfalso. assert (F : fresh (obj s) (hist s)) by (apply (i_fMV _ I); lia).
      rewrite Ob in F. unfold fresh in F. destruct (hist s) as [|[| |] ?]; try contradiction; discriminate.
  - (* PMoveT *) injection E as <- _ _.
    destruct (counters_change _ _ _ (goto th (PStoreNone r)) N) as (cE & cSR & cMV & cSN).
    rewrite ?P in *. cbn [tpc goto iE iSR iMV iSN] in *.
    constructor; unfold nSec; cbn [word obj hist threads keep hdk fresh cyc]; rewrite ?cE, ?cSR, ?cMV, ?cSN; close I.
  - (* PStoreNone *) injection E as <- _ _.
    destruct (counters_change _ _ _ (next (log_get th r)) N) as (cE & cSR & cMV & cSN).
    destruct (next_log_get th r) as [q1 q2]. rewrite q1 in *.
    destruct (next_sec th) as (e1 & e2 & e3 & e4). rewrite ?P, ?e1, ?e2, ?e3, ?e4 in *. cbn [iE iSR iMV iSN] in *.
    constructor; unfold nSec; cbn [word obj hist threads keep hdk fresh cyc]; rewrite ?cE, ?cSR, ?cMV, ?cSN; close I.
  - discriminate.
Qed.

Lemma counters_init progs :
  let l := map (fun p => TH PStart p []) progs in
  nE l = 0 /\ nSR l = 0 /\ nMV l = 0 /\ nSN l = 0.
Proof.
  unfold nE, nSR, nMV, nSN. induction progs as [|p r IH]; cbn [map total]; [repeat split; reflexivity|].
  destruct IH as (a & b & c & d). cbn [tpc iE iSR iMV iSN]. rewrite a, b, c, d. repeat split; reflexivity.
Qed.

Lemma init_inv kp progs : Inv (init kp progs).
Proof.
  destruct (counters_init progs) as (a & b & c & d).
  constructor; unfold init, nSec; cbn [word obj hist threads keep hdk cyc]; unfold kNone; rewrite ?a, ?b, ?c, ?d; intros; try lia; auto.
Qed.

Theorem state_machine_invariant kp progs s : reach step (init kp progs) s -> Inv s.
Proof.
  intros Re. apply (reach_inv step Inv (init kp progs)); [apply init_inv | | exact Re].
  intros s1 t ch s1' ch' site I E. eapply step_inv; eauto.
Qed.

(* ---------- consequences of the cyclic shape of the log ---------- *)
Lemma cyc_suffix h1 h2 : cyc (h1 ++ h2) -> cyc h2.
Proof.
  induction h1 as [|e h1 IH]; cbn [app]; [auto|]. intros C. apply IH. destruct e; cbn in C; tauto.
Qed.

Lemma cyc_get_shape v h : cyc (EvGet v :: h) -> exists h3, h = EvEmplace v :: EvReq :: h3.
Proof.
  cbn. intros [F C]. destruct h as [|[| x |y] r]; cbn in F; try contradiction.
  injection F as ->. cbn in C. destruct C as [K _]. destruct r as [|[| |] r']; cbn in K; try discriminate.
  exists r'. reflexivity.
Qed.

Lemma cyc_emplace_shape v h : cyc (EvEmplace v :: h) -> exists h3, h = EvReq :: h3.
Proof.
  cbn. intros [K _]. destruct h as [|[| |] r']; cbn in K; try discriminate. exists r'. reflexivity.
Qed.

Lemma cyc_req_shape h : cyc (EvReq :: h) -> h = [] \/ exists v h3, h = EvGet v :: h3.
Proof.
  cbn. intros [K _]. destruct h as [|[| x |y] r']; cbn in K; try discriminate; [left; reflexivity | right; eauto].
Qed.

Definition bonus (v : Z) (h : list ev) : Z :=
  match h with EvEmplace x :: _ => if x =? v then 1 else 0 | _ => 0 end.

Lemma cyc_gets_le_emplaces v h : cyc h -> cntGet v h + bonus v h <= cntEmp v h.
Proof.
  unfold cntGet, cntEmp. induction h as [|e r IH]; [cbn; lia|].
  intros C. destruct e as [|x|x]; cbn [cyc] in C; destruct C as [K C]; specialize (IH C); cbn [total isGet isEmp bonus].
  - assert (0 <= bonus v r) by (unfold bonus; destruct r as [|[|y|y] ?]; try lia; destruct (y =? v); lia). lia.
  - assert (0 <= bonus v r) by (unfold bonus; destruct r as [|[|y|y] ?]; try lia; destruct (y =? v); lia).
    destruct (x =? v); lia.
  - destruct r as [|[|y|y] r']; cbn in K; try contradiction. injection K as ->. cbn [bonus] in IH. destruct (y =? v); lia.
Qed.

Lemma tag_count_nodup v l : NoDup l -> tag_count v l <= 1.
Proof.
  unfold tag_count. induction 1 as [|x l Hn Hd IH]; cbn [total]; [lia|].
  destruct (x =? v) eqn:Ex; [|lia]. apply Z.eqb_eq in Ex. subst x.
  assert (Z0 : total (fun x => if x =? v then 1 else 0) l = 0); [|lia].
  clear IH Hd. induction l as [|y l IH]; cbn [total]; [reflexivity|].
  destruct (y =? v) eqn:Ey.
  - apply Z.eqb_eq in Ey. subst y. exfalso. apply Hn. left. reflexivity.
  - rewrite IH; [reflexivity|]. intros Hin. apply Hn. right. exact Hin.
Qed.

Lemma tag_count_pos_in v l : 0 < tag_count v l -> In v l.
Proof.
  unfold tag_count. induction l as [|y l IH]; cbn [total]; [lia|].
  destruct (y =? v) eqn:Ey; [apply Z.eqb_eq in Ey; left; exact Ey | intros H; right; apply IH; lia].
Qed.

Lemma remaining_nonneg v th : 0 <= remaining v th.
Proof.
  unfold remaining. pose proof (tag_count_nonneg v (flat_map op_tags (prog th))).
  assert (0 <= pcrem v (tpc th)); [|lia]. unfold pcrem. destruct (tpc th) as [| | |x|x| | | | | |]; try lia; destruct (x =? v); lia.
Qed.

Lemma emplaces_le_tags kp progs s v : reach step (init kp progs) s -> cntEmp v (hist s) <= tag_count v (all_tags progs).
Proof.
  intros Re. pose proof (c_rem _ _ (counting_invariant _ _ _ Re) v) as R. cbn beta in R.
  pose proof (total_nonneg (remaining v) (threads s) (remaining_nonneg v)). lia.
Qed.

(* ---------- the three named properties ---------- *)

(* successful emplacements never outnumber successful requests *)
Theorem emplace_count_le_requests kp progs s :
  reach step (init kp progs) s -> cntEmpAll (hist s) <= cntReq (hist s).
Proof.
  intros Re. pose proof (c_req _ _ (counting_invariant _ _ _ Re)) as Q. pose proof (nE_nonneg (threads s)).
  destruct (word s =? kNeedsUpdate); lia.
Qed.

(* a delivered value was emplaced (it is one of the programs' tags, and its emplacement is in the log) *)
Theorem delivered_was_emplaced kp progs s v :
  reach step (init kp progs) s -> 0 < delivered v s -> 0 < cntEmp v (hist s) /\ In v (all_tags progs).
Proof.
  intros Re D. pose proof (delivered_le_gets _ _ _ v Re) as L.
  assert (E : 0 < cntEmp v (hist s)) by (apply (c_thin _ _ (counting_invariant _ _ _ Re)); lia).
  split; [exact E|]. apply tag_count_pos_in. pose proof (emplaces_le_tags _ _ _ v Re). lia.
Qed.

(* an emplacement directly follows a successful request (one emplacement per request) *)
Theorem emplace_only_when_requested kp progs s h1 v h2 :
  reach step (init kp progs) s ->
  hist s = h1 ++ EvEmplace v :: h2 -> exists h3, h2 = EvReq :: h3.
Proof.
  intros Re Hh. pose proof (i_cyc _ (state_machine_invariant _ _ _ Re)) as C. rewrite Hh in C.
  apply cyc_suffix in C. apply cyc_emplace_shape in C. exact C.
Qed.

(* a value-returning getUpdate directly follows the emplacement of that value, which directly follows
   the latest successful request: no request, emplacement or other delivery in between *)
Theorem get_only_after_emplace_since_request kp progs s h1 v h2 :
  reach step (init kp progs) s ->
  hist s = h1 ++ EvGet v :: h2 -> exists h3, h2 = EvEmplace v :: EvReq :: h3.
Proof.
  intros Re Hh. pose proof (i_cyc _ (state_machine_invariant _ _ _ Re)) as C. rewrite Hh in C.
  apply cyc_suffix in C. apply cyc_get_shape in C. exact C.
Qed.

(* unique tags: no value is returned twice (counted over the results of all threads) *)
Theorem each_value_delivered_at_most_once kp progs s v :
  NoDup (all_tags progs) -> reach step (init kp progs) s -> delivered v s <= 1.
Proof.
  intros ND Re.
  pose proof (delivered_le_gets _ _ _ v Re) as L1.
  pose proof (cyc_gets_le_emplaces v _ (i_cyc _ (state_machine_invariant _ _ _ Re))) as L2.
  assert (0 <= bonus v (hist s)) by (unfold bonus; destruct (hist s) as [|[|y|y] ?]; try lia; destruct (y =? v); lia).
  pose proof (emplaces_le_tags _ _ _ v Re) as L3.
  pose proof (tag_count_nodup v _ ND). lia.
Qed.

(* mutual exclusion: at most one thread -- producer or consumer -- is between its CAS and its store, exactly when the
   state word is kUpdating *)
Theorem sections_exclusive kp progs s :
  reach step (init kp progs) s ->
  nSec (threads s) <= 1 /\ (0 < nSec (threads s) <-> word s = kUpdating).
Proof.
  intros Re. pose proof (state_machine_invariant _ _ _ Re) as I.
  pose proof (i_w _ I). pose proof (i_p2 _ I) as A. pose proof (i_pn _ I) as B.
  unfold kUpdating. destruct (Z.eq_dec (word s) 2) as [e|e]; [rewrite (A e) | rewrite (B e)]; repeat split; intros; lia.
Qed.

(* ====================================================================================================
   Part 3: the former witness of the two-consumer double delivery, as a regression run: one consumer wins the CAS
   ==================================================================================================== *)
Definition regr_progs : list (list op) := [[OReq; OEmplace 7]; [OGet]; [OGet]].
Definition regr_sched : list Z := [0; 0; 0; 0; 0; 0; 1; 0; 1; 0; 1; 0; 1; 0; 0].
Definition regr_state (kp : bool) : state := fst (fst (run_ar 20 kp regr_progs regr_sched)).

Lemma regression_run kp :
  delivered 7 (regr_state kp) = 1 /\
  map (fun th => rev (res th)) (threads (regr_state kp)) = [[(r_emplace, 1)]; [(r_get, 7)]; [(r_getnone, 0)]] /\
  snd (run_ar 20 kp regr_progs regr_sched) = SDone.
Proof. destruct kp; vm_compute; repeat split; reflexivity. Qed.
