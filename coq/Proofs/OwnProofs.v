(* Generic theorem of the ownership discipline (Base/Own.v): a disciplined trace has no data race.  Proved once, for all
   traces, any number of threads, locations, tokens and transfers. *)
From Coq Require Import ZArith List Bool Arith Lia.
From DV Require Import Gen.GenOrders Base.Own.
Import ListNotations.

Section Generic.
  Variable tr : trace.
  Variable init : gstate.
  Variable N : nat.
  Notation gs := (gs tr init).
  Notation hb := (hb tr).
  Notation thr := (thr tr).

  Lemma thr_some i t e : nth_error tr i = Some (t, e) -> thr i = Some t.
  Proof. unfold Own.thr. intros ->. reflexivity. Qed.

  Lemma evt_some i t e : nth_error tr i = Some (t, e) -> evt tr i = Some e.
  Proof. unfold evt. intros ->. reflexivity. Qed.

  Lemma po_lt i j : po tr i j -> i < j.
  Proof. intros [H _]. exact H. Qed.

  Lemma rel_src_le r x : rel_src tr r x -> r <= x.
  Proof. intros [[-> _]|[H _]]; [lia | apply po_lt in H; lia]. Qed.

  Lemma acq_dst_le y k : acq_dst tr y k -> y <= k.
  Proof. intros [[-> _]|[H _]]; [lia | apply po_lt in H; lia]. Qed.

  Lemma sw_lt r k : sw tr r k -> r < k.
  Proof.
    intros (a & x & y & ex & ey & Hr & Ha & Hxy & _).
    apply rel_src_le in Hr. apply acq_dst_le in Ha. lia.
  Qed.

  (* happens-before is included in the trace order *)
  Lemma hb_lt i j : hb i j -> i < j.
  Proof.
    induction 1 as [i j H|i j H|i j k _ IH1 _ IH2]; [apply po_lt; exact H | apply sw_lt; exact H | lia].
  Qed.

  Lemma hb_irrefl i : ~ hb i i.
  Proof. intros H. apply hb_lt in H. lia. Qed.

  Lemma hb_same_thread i j t : i < j -> thr i = Some t -> thr j = Some t -> hb i j.
  Proof. intros H Hi Hj. apply hb_po. split; [exact H | exists t; split; assumption]. Qed.

  Lemma xfer_hb o k : xfer_ok tr o k -> hb o k.
  Proof.
    intros (r & a & H1 & H2 & H3).
    eapply hb_trans; [apply hb_po; exact H1 |]. eapply hb_trans; [apply hb_sw; exact H2 | apply hb_po; exact H3].
  Qed.

  Definition hbr (i j : nat) : Prop := i = j \/ hb i j.

  (* where a token that thread(i) held at time i can be at time n: with a thread all of whose later events i happens
     before, or in transit from an offer that i happens before (or is) *)
  Definition follows (i n : nat) (h : hstate) : Prop :=
    match h with
    | Held u => forall j, n <= j -> thr j = Some u -> hb i j
    | Transit o => hbr i o
    end.

  Hypothesis D : disciplined tr init N.

  Lemma upd_same g l tok h : upd g l tok h l tok = h.
  Proof. unfold upd. rewrite !Nat.eqb_refl. reflexivity. Qed.

  Lemma upd_other g l tok h l' tok' : (l, tok) <> (l', tok') -> upd g l tok h l' tok' = g l' tok'.
  Proof.
    intros H. unfold upd. destruct (Nat.eqb l l') eqn:E1; [|reflexivity].
    destruct (Nat.eqb tok tok') eqn:E2; [|reflexivity].
    apply Nat.eqb_eq in E1. apply Nat.eqb_eq in E2. subst. exfalso. apply H. reflexivity.
  Qed.

  Lemma pair_dec (l tok l' tok' : nat) : {(l, tok) = (l', tok')} + {(l, tok) <> (l', tok')}.
  Proof. decide equality; apply Nat.eq_dec. Qed.

  Lemma chain n : n <= length tr ->
    forall l tok i t, i < n -> thr i = Some t -> gs i l tok = Held t -> follows i n (gs n l tok).
  Proof.
    induction n as [|n IH]; intros Hn l tok i t Hi Ht Hheld; [lia|].
    assert (Hn' : n <= length tr) by lia.
    destruct (nth_error tr n) as [[tn en]|] eqn:En; [|apply nth_error_None in En; lia].
    pose proof (thr_some _ _ _ En) as Htn.
    destruct D as [_ Dall]. pose proof (Dall _ _ _ En) as Hok.
    (* the step leaves (l,tok) alone: carry the invariant, or start it when i = n *)
    assert (Keep : gs (S n) l tok = gs n l tok -> follows i (S n) (gs (S n) l tok)).
    { intros Heq. rewrite Heq.
      destruct (Nat.eq_dec i n) as [->|Hne].
      - rewrite Hheld. cbn. intros j Hj Hjt. rewrite Htn in Ht. inversion Ht; subst t.
        apply hb_same_thread with tn; [lia | exact Htn | exact Hjt].
      - assert (Hin : i < n) by lia. specialize (IH Hn' l tok i t Hin Ht Hheld).
        destruct (gs n l tok) as [u|o]; cbn in *; [intros j Hj; apply IH; lia | exact IH]. }
    cbn [Own.gs]. cbn [Own.gs] in Keep. rewrite En in *. unfold gstep in *. cbn [fst snd] in *.
    destruct en as [l0|l0|a k m vr vw|m|l0 tok0|l0 tok0]; try (apply Keep; reflexivity).
    - (* Offer *)
      destruct (pair_dec l0 tok0 l tok) as [E|NE].
      + inversion E; subst l0 tok0. rewrite upd_same. cbn.
        destruct (Nat.eq_dec i n) as [->|Hne]; [left; reflexivity|].
        right. assert (Hin : i < n) by lia. specialize (IH Hn' l tok i t Hin Ht Hheld).
        cbn in Hok. rewrite Hok in IH. cbn in IH. apply IH; [lia | exact Htn].
      + apply Keep. apply upd_other. exact NE.
    - (* Take *)
      destruct (pair_dec l0 tok0 l tok) as [E|NE].
      + inversion E; subst l0 tok0. rewrite upd_same. cbn. intros j Hj Hjt.
        cbn in Hok. destruct Hok as (o & Hst & Hx). apply xfer_hb in Hx.
        destruct (Nat.eq_dec i n) as [->|Hne].
        * rewrite Htn in Ht. inversion Ht; subst t. rewrite Hheld in Hst. discriminate.
        * assert (Hin : i < n) by lia. specialize (IH Hn' l tok i t Hin Ht Hheld).
          rewrite Hst in IH. cbn in IH.
          assert (Hi_n : hb i n) by (destruct IH as [->|IH]; [exact Hx | eapply hb_trans; eassumption]).
          eapply hb_trans; [exact Hi_n |]. apply hb_same_thread with tn; [lia | exact Htn | exact Hjt].
      + apply Keep. apply upd_other. exact NE.
  Qed.

  Theorem discipline_drf : drf tr.
  Proof.
    intros i j Hlt (ti & tj & ei & ej & l & wi & wj & Hi & Hj & Hne & Ai & Aj & Hw).
    destruct D as [HN Dall].
    pose proof (Dall _ _ _ Hi) as Oi. pose proof (Dall _ _ _ Hj) as Oj.
    assert (Hjlen : j <= length tr).
    { apply Nat.lt_le_incl. apply nth_error_Some. rewrite Hj. discriminate. }
    assert (Tok : exists tok, gs i l tok = Held ti /\ gs j l tok = Held tj).
    { destruct ei; cbn in Ai; inversion Ai; subst; destruct ej; cbn in Aj; inversion Aj; subst; cbn in Hw; try discriminate; cbn in Oi, Oj.
      - destruct Oi as (tok & Ht & Hg). exists tok. split; [exact Hg | apply Oj; exact Ht].
      - destruct Oj as (tok & Ht & Hg). exists tok. split; [apply Oi; exact Ht | exact Hg].
      - exists 0. split; [apply Oi | apply Oj]; lia. }
    destruct Tok as (tok & Gi & Gj).
    pose proof (chain j Hjlen l tok i ti Hlt (thr_some _ _ _ Hi) Gi) as F.
    rewrite Gj in F. cbn in F. apply F; [lia | exact (thr_some _ _ _ Hj)].
  Qed.
End Generic.

(* the theorem in closed form *)
Theorem own_discipline_implies_drf : forall (tr : trace) (init : gstate) (N : nat),
  disciplined tr init N -> drf tr.
Proof. intros tr init N D. exact (discipline_drf tr init N D). Qed.

(* a race-free trace has, in particular, no two conflicting accesses unordered by happens-before in either direction *)
Corollary drf_no_unordered_conflict : forall (tr : trace) (init : gstate) (N : nat),
  disciplined tr init N ->
  forall i j, i <> j -> (conflict tr i j \/ conflict tr j i) -> hb tr i j \/ hb tr j i.
Proof.
  intros tr init N D i j Hne [C|C].
  - destruct (Nat.lt_total i j) as [H|[H|H]]; [left; apply (discipline_drf tr init N D); assumption | contradiction |].
    right. apply (discipline_drf tr init N D); [exact H|].
    destruct C as (ti & tj & ei & ej & l & wi & wj & Hi & Hj & Hn & Ai & Aj & Hw).
    exists tj, ti, ej, ei, l, wj, wi. repeat split; try assumption; [congruence | rewrite orb_comm; exact Hw].
  - destruct (Nat.lt_total j i) as [H|[H|H]]; [right; apply (discipline_drf tr init N D); assumption | congruence |].
    left. apply (discipline_drf tr init N D); [exact H|].
    destruct C as (ti & tj & ei & ej & l & wi & wj & Hi & Hj & Hn & Ai & Aj & Hw).
    exists tj, ti, ej, ei, l, wj, wi. repeat split; try assumption; [congruence | rewrite orb_comm; exact Hw].
Qed.
