(* C06, part 3: the invariant is preserved by a submission (OSpawn), for each of the three placements. *)
From Coq Require Import ZArith List Bool Arith Lia.
From DV Require Import Base.Sched Model.NestedWaitModel Proofs.C06Measure Proofs.C06Inv.
Import ListNotations.

Lemma assoc_in j l v : assoc j l = Some v -> In (j, v) l.
Proof.
  induction l as [|[n w] r IH]; cbn; [discriminate|]. destruct (Nat.eqb n j) eqn:E.
  - intros H. inversion H; subst. apply Nat.eqb_eq in E. subst. left. reflexivity.
  - intros H. right. apply IH. exact H.
Qed.

Lemma nth_app_old {A} (l e : list A) n d : n < length l -> nth n (l ++ e) d = nth n l d.
Proof. intros H. apply app_nth1. exact H. Qed.

Lemma nth_app_new {A} (l : list A) x d : nth (length l) (l ++ [x]) d = x.
Proof. rewrite app_nth2 by lia. rewrite Nat.sub_diag. reflexivity. Qed.

(* the state after a submission: one task and possibly one join appended, the submitting activation advanced, the new task
   either started on top of it (pre = [its activation]) or queued *)
Lemma inv_spawn_gen s a x r below body cap' gj js own' st0 c' st' clk' pre :
  Inv s -> a < length (agents s) -> stack (agent_of s a) = x :: below -> noup body = true -> noup r = true ->
  (exists extra, js = joins s ++ extra) -> gj < length js -> j_ostart (nth gj js djoin) = a_start x ->
  (forall jr, In jr js -> j_ostart jr <= clock s) ->
  (forall n g, In (n, g) own' -> g < length js /\ j_ostart (nth g js djoin) = a_start x) ->
  (forall g, g < length js -> is_set (j_kind (nth g js djoin)) = false ->
     j_ftask (nth g js djoin) < S (length (tasks s)) /\
     t_join (nth (j_ftask (nth g js djoin)) (tasks s ++ [TR body cap' gj st0]) dtask) = g) ->
  ((pre = [] /\ st0 = TQueued /\ clk' = clock s /\
    ((c' = cq s ++ [length (tasks s)] /\ st' = steal s) \/
     (c' = cq s /\ st' = steal s ++ [length (tasks s)] /\
      exists w, In w (agents s) /\ worker w = true /\ parked w = false /\ stack w = [])))
   \/ (pre = [ACT (length (tasks s)) body [] cap' MRun (S (clock s))] /\ st0 = TActive /\ clk' = S (clock s) /\ c' = cq s /\ st' = steal s)) ->
  Inv (with_stack (ST (tasks s ++ [TR body cap' gj st0]) js c' st' (agents s) clk') a
                  (pre ++ ACT (a_task x) r own' (a_cap x) MRun (a_start x) :: below)).
Proof.
  intros I Ha Hst Hnb Hnr [extra Hjs] Hgj Hgo Hjc Hown Hfut Hpl.
  set (t := length (tasks s)) in *.
  set (nw := TR body cap' gj st0) in *.
  set (x' := ACT (a_task x) r own' (a_cap x) MRun (a_start x)).
  set (s1 := ST (tasks s ++ [nw]) js c' st' (agents s) clk').
  set (s' := with_stack s1 a (pre ++ x' :: below)).
  assert (Hx : In x (acts s)) by (apply in_acts; exists (agent_of s a); split; [apply agent_in; exact Ha | rewrite Hst; left; reflexivity]).
  assert (Hclk : clock s <= clk') by (destruct Hpl as [(_ & _ & -> & _)|(_ & _ & -> & _)]; lia).
  assert (Hpre : forall y, In y pre -> y = ACT t body [] cap' MRun (S (clock s)) /\ st0 = TActive /\ clk' = S (clock s)).
  { intros y Hy. destruct Hpl as [(-> & _)|(-> & -> & -> & _)]; [contradiction|]. destruct Hy as [<-|[]]. auto. }
  (* old tasks and joins are untouched *)
  assert (Told : forall u, u < t -> task_of s' u = task_of s u) by (intros u Hu; unfold task_of; cbn [tasks s' with_stack with_agent s1]; apply nth_app_old; exact Hu).
  assert (Tnew : task_of s' t = nw) by (unfold task_of; cbn [tasks s' with_stack with_agent s1]; apply nth_app_new).
  assert (Tlen : length (tasks s') = S t) by (cbn [tasks s' with_stack with_agent s1]; rewrite app_length; cbn; lia).
  assert (Jold : forall g, g < length (joins s) -> join_of s' g = join_of s g).
  { intros g Hg. unfold join_of. cbn [joins s' with_stack with_agent s1]. rewrite Hjs. apply nth_app_old. exact Hg. }
  assert (Jlen : length (joins s) <= length (joins s')) by (cbn [joins s' with_stack with_agent s1]; rewrite Hjs, app_length; lia).
  assert (Oold : forall u, u < t -> ostart_of s' u = ostart_of s u).
  { intros u Hu. unfold ostart_of. rewrite Told by exact Hu. apply f_equal. apply Jold. apply (i_tjoin s I u Hu). }
  assert (Onew : ostart_of s' t = a_start x) by (unfold ostart_of; rewrite Tnew; exact Hgo).
  assert (Ojle : forall g, j_ostart (join_of s' g) <= clock s).
  { intros g. unfold join_of. cbn [joins s' with_stack with_agent s1]. destruct (Nat.lt_ge_cases g (length js)) as [Hl|Hl].
    - apply Hjc. apply nth_In. exact Hl.
    - rewrite nth_overflow by exact Hl. cbn. lia. }
  (* activations *)
  assert (Hin : forall y, In y (acts s') -> In y pre \/ y = x' \/ In y (acts s)).
  { intros y Hy. apply acts_with_stack_in in Hy. destruct Hy as [Hy|Hy]; [|auto].
    apply in_app_or in Hy. destruct Hy as [Hy|[<-|Hy]]; auto.
    right. right. apply in_acts. exists (agent_of s a). split; [apply agent_in; exact Ha | rewrite Hst; right; exact Hy]. }
  assert (Hkeep : forall y, In y (acts s) -> y = x \/ In y (acts s')).
  { intros y Hy. destruct (acts_with_stack_keep s1 a (pre ++ x' :: below) y Hy) as [H|H]; [|right; exact H].
    change (agent_of s1 a) with (agent_of s a) in H. rewrite Hst in H. destruct H as [<-|H]; [left; reflexivity|].
    right. apply acts_with_stack_new; [exact Ha | apply in_or_app; right; right; exact H]. }
  assert (Hx' : In x' (acts s')) by (apply acts_with_stack_new; [exact Ha | apply in_or_app; right; left; reflexivity]).
  assert (Hprein : forall y, In y pre -> In y (acts s')) by (intros y Hy; apply acts_with_stack_new; [exact Ha | apply in_or_app; left; exact Hy]).
  assert (Pf : parked (agent_of s a) = false).
  { destruct (parked (agent_of s a)) eqn:E; [|reflexivity]. pose proof (i_parked s I _ (agent_in s a Ha) E) as C. rewrite Hst in C. discriminate. }
  assert (Hxc : a_start x <= clock s) by (apply (i_clock s I x Hx)).
  (* queues *)
  assert (Hq : forall u, In u (c' ++ st') -> In u (cq s ++ steal s) \/ (u = t /\ st0 = TQueued)).
  { intros u Hu. destruct Hpl as [(_ & -> & _ & [(-> & ->)|(-> & -> & _)])|(_ & _ & _ & -> & ->)]; [| |auto].
    - rewrite <- app_assoc in Hu. apply in_app_or in Hu. destruct Hu as [Hu|Hu]; [left; apply in_or_app; auto|].
      cbn in Hu. destruct Hu as [<-|Hu]; [auto | left; apply in_or_app; auto].
    - rewrite app_assoc in Hu. apply in_app_or in Hu. destruct Hu as [Hu|[<-|[]]]; auto. }
  assert (Hq2 : forall u, In u (cq s ++ steal s) -> In u (c' ++ st')).
  { intros u Hu. destruct Hpl as [(_ & _ & _ & [(-> & ->)|(-> & -> & _)])|(_ & _ & _ & -> & ->)]; [| |exact Hu];
      apply in_app_or in Hu; destruct Hu as [Hu|Hu]; apply in_or_app; [left; apply in_or_app; auto | auto | auto | right; apply in_or_app; auto]. }
  assert (Hq3 : st0 = TQueued -> In t (c' ++ st')).
  { intros E. destruct Hpl as [(_ & _ & _ & [(-> & ->)|(-> & -> & _)])|(_ & E2 & _)]; [| |rewrite E2 in E; discriminate];
      apply in_or_app; [left | right]; apply in_or_app; right; left; reflexivity. }
  constructor.
  - intros u Hu. rewrite Tlen. destruct (Hq u Hu) as [H|[-> _]]; [pose proof (i_range s I u H); unfold t; lia | lia].
  - intros g Hg. apply in_agents_with_stack in Hg. destruct Hg as [->|Hg]; [|apply (i_sorted s I g Hg)].
    cbn [stack]. pose proof (i_sorted s I _ (agent_in s a Ha)) as S. rewrite Hst in S.
    destruct Hpl as [(-> & _)|(-> & _)]; [exact S|]. cbn [app map sorted_desc]. split; [|exact S].
    intros z Hz. destruct Hz as [<-|Hz]; [cbn; lia|]. apply in_map_iff in Hz. destruct Hz as (y & <- & Hy).
    assert (Hy' : In y (acts s)) by (apply in_acts; exists (agent_of s a); split; [apply agent_in; exact Ha | rewrite Hst; right; exact Hy]).
    pose proof (i_clock s I y Hy'). cbn. lia.
  - intros y Hy. change (clock s') with clk'. destruct (Hin y Hy) as [H|[->|H]].
    + destruct (Hpre y H) as (-> & _ & ->). cbn. lia.
    + cbn. lia.
    + pose proof (i_clock s I y H). lia.
  - intros jr Hjr. change (clock s') with clk'. pose proof (Hjc jr Hjr). lia.
  - intros y n g Hy Hn. destruct (Hin y Hy) as [H|[->|H]].
    + destruct (Hpre y H) as (-> & _). cbn in Hn. contradiction.
    + apply (Hown n g Hn).
    + destruct (i_own s I y n g H Hn) as [R O]. split; [lia | rewrite Jold by exact R; exact O].
  - intros y g Hy Hm. destruct (Hin y Hy) as [H|[->|H]].
    + destruct (Hpre y H) as (-> & _). cbn in Hm. destruct Hm; discriminate.
    + cbn in Hm. destruct Hm; discriminate.
    + destruct (i_mode s I y g H Hm) as [R O]. split; [lia | rewrite Jold by exact R; exact O].
  - intros y Hy. destruct (Hin y Hy) as [H|[->|H]]; [destruct (Hpre y H) as (-> & _); exact Hnb | exact Hnr | apply (i_noup_a s I y H)].
  - intros tr Htr. cbn [tasks s' with_stack with_agent s1] in Htr. apply in_app_or in Htr. destruct Htr as [H|[<-|[]]]; [apply (i_noup_t s I tr H) | exact Hnb].
  - intros u Hu Hs. rewrite Tlen in Hu. destruct (Nat.eq_dec u t) as [->|Hne].
    + rewrite Tnew in Hs. cbn [t_st nw] in Hs.
      destruct Hpl as [(_ & E & _)|(Ep & _ & _)]; [rewrite E in Hs; discriminate|].
      exists (ACT t body [] cap' MRun (S (clock s))). split; [apply Hprein; rewrite Ep; left; reflexivity|]. split; [reflexivity|].
      rewrite Onew. cbn. lia.
    + assert (Hu' : u < t) by lia. rewrite Told in Hs by exact Hu'. destruct (i_active s I u Hu' Hs) as (y & Hy & Ey & Ly).
      rewrite Oold by exact Hu'. destruct (Hkeep y Hy) as [->|H]; [exists x'; auto | exists y; auto].
  - intros u Hu Hs. rewrite Tlen in Hu. change (cq s' ++ steal s') with (c' ++ st'). destruct (Nat.eq_dec u t) as [->|Hne].
    + rewrite Tnew in Hs. apply Hq3. exact Hs.
    + assert (Hu' : u < t) by lia. rewrite Told in Hs by exact Hu'. apply Hq2. apply (i_queued s I u Hu' Hs).
  - intros g Hg Hk. rewrite Tlen. exact (Hfut g Hg Hk).
  - intros y g Hy Hm. destruct (Hin y Hy) as [H|[->|H]].
    + destruct (Hpre y H) as (-> & _). cbn in Hm. discriminate.
    + cbn in Hm. discriminate.
    + destruct (i_waitfut s I y g H Hm) as (R & K & Q). split; [lia|]. rewrite Jold by exact R. split; [exact K|].
      destruct (i_fut s I g R K) as [F1 _]. rewrite Told by exact F1. exact Q.
  - intros g Hg Hp. apply in_agents_with_stack in Hg. destruct Hg as [->|Hg]; [cbn [parked] in Hp; change (agent_of s1 a) with (agent_of s a) in Hp; rewrite Pf in Hp; discriminate | apply (i_parked s I g Hg Hp)].
  - intros Hne. change (steal s') with st' in *.
    assert (Hcase : (st' = steal s) \/ (st' = steal s ++ [t] /\ exists w, In w (agents s) /\ worker w = true /\ parked w = false /\ stack w = [])).
    { destruct Hpl as [(_ & _ & _ & [(_ & ->)|(_ & -> & Hw)])|(_ & _ & _ & _ & ->)]; auto. }
    destruct Hcase as [->|(-> & w & Hw & Ww & Pw & Sw)].
    + destruct (i_steal s I Hne) as (w & Hw & Ww & Pw & Hall).
      destruct (in_nth_ex _ _ dagent Hw) as (b & Hb & Eb). destruct (Nat.eq_dec b a) as [->|Hneq].
      * assert (Ew : w = agent_of s a) by (unfold agent_of; rewrite Eb; reflexivity). rewrite Ew in Hall, Ww, Pw.
        exists (AG (pre ++ x' :: below) (parked (agent_of s a)) (worker (agent_of s a))).
        split; [unfold s', with_stack; rewrite agents_with_agent; apply set_nth_in_new; exact Ha|].
        split; [exact Ww|]. split; [exact Pw|].
        intros u y Hu Hy. assert (Hut : u < t) by (apply (i_range s I); apply in_or_app; right; exact Hu).
        rewrite Oold by exact Hut. cbn [stack] in Hy. apply in_app_or in Hy. destruct Hy as [Hy|[<-|Hy]].
        -- destruct (Hpre y Hy) as (-> & _). pose proof (join_ostart_le s (t_join (task_of s u)) (i_jclock s I)). unfold ostart_of. cbn. lia.
        -- cbn [a_start x']. apply (Hall u x Hu). rewrite Hst. left. reflexivity.
        -- apply (Hall u y Hu). rewrite Hst. right. exact Hy.
      * exists w. split; [unfold s', with_stack; rewrite agents_with_agent; rewrite <- Eb; apply set_nth_in_other; assumption|].
        split; [exact Ww|]. split; [exact Pw|]. intros u y Hu Hy.
        assert (Hut : u < t) by (apply (i_range s I); apply in_or_app; right; exact Hu). rewrite Oold by exact Hut. apply (Hall u y Hu Hy).
    + destruct (in_nth_ex _ _ dagent Hw) as (b & Hb & Eb). destruct (Nat.eq_dec b a) as [->|Hneq].
      * exfalso. assert (Ew : w = agent_of s a) by (unfold agent_of; rewrite Eb; reflexivity). rewrite Ew, Hst in Sw. discriminate.
      * exists w. split; [unfold s', with_stack; rewrite agents_with_agent; rewrite <- Eb; apply set_nth_in_other; assumption|].
        split; [exact Ww|]. split; [exact Pw|]. intros u y _ Hy. rewrite Sw in Hy. contradiction.
  - destruct (i_root s I) as [H0 Hw]. split; [unfold s', with_stack; rewrite agents_with_agent, set_nth_length; exact H0|].
    unfold s', with_stack, agent_of. rewrite agents_with_agent. destruct (Nat.eq_dec a 0) as [->|Hne].
    + rewrite nth_set_nth_same by exact H0. exact Hw.
    + rewrite nth_set_nth_other by exact Hne. exact Hw.
  - intros u Hu. rewrite Tlen in Hu. change (length (joins s')) with (length js). destruct (Nat.eq_dec u t) as [->|Hne].
    + rewrite Tnew. exact Hgj.
    + assert (Hu' : u < t) by lia. rewrite Told by exact Hu'. pose proof (i_tjoin s I u Hu'). change (length js) with (length (joins s')). lia.
Qed.

Lemma first_parked_spec l : forall i w, first_parked l i = Some w ->
  i <= w /\ w - i < length l /\ worker (nth (w - i) l dagent) = true /\ parked (nth (w - i) l dagent) = true.
Proof.
  induction l as [|g r IH]; intros i w H; cbn in H; [discriminate|].
  destruct (worker g && parked g) eqn:E.
  - inversion H; subst. rewrite Nat.sub_diag. cbn. apply andb_prop in E. destruct E. repeat split; auto; lia.
  - apply IH in H. destruct H as (H1 & H2 & H3 & H4). replace (w - i) with (S (w - S i)) by lia. cbn. repeat split; auto; lia.
Qed.

Lemma set_nth_comm {A} (l : list A) a w x y : a <> w -> set_nth (set_nth l a x) w y = set_nth (set_nth l w y) a x.
Proof.
  revert a w; induction l as [|z r IH]; intros [|a] [|w] H; cbn; auto; try lia. f_equal. apply IH. lia.
Qed.

Lemma noup_cons o r : noup (o :: r) = true -> noup_op o = true /\ noup r = true.
Proof. unfold noup. cbn. intros H. apply andb_prop in H. exact H. Qed.

Lemma steal_order T J C SL ags clk a w stk : a <> w ->
  with_agent (with_stack (ST T J C SL ags clk) a stk) w (AG (stack (agent_of (with_stack (ST T J C SL ags clk) a stk) w)) false true) =
  with_stack (ST T J C SL (set_nth ags w (AG (stack (nth w ags dagent)) false true)) clk) a stk.
Proof.
  intros H. unfold with_stack, with_agent, agent_of. cbn [tasks joins cq steal agents clock].
  rewrite (nth_set_nth_other ags a w _ dagent H).
  rewrite (nth_set_nth_other ags w a _ dagent (not_eq_sym H)).
  rewrite (set_nth_comm ags a w _ _ H). reflexivity.
Qed.

Lemma inv_spawn s a x r below j k body c : Inv s -> a < length (agents s) -> stack (agent_of s a) = x :: below ->
  a_ops x = OSpawn j k body :: r -> a_mode x = MRun -> Inv (spawn s a x r below j k body c).
Proof.
  intros I Ha Hst Hops Hm.
  assert (Hx : In x (acts s)) by (apply in_acts; exists (agent_of s a); split; [apply agent_in; exact Ha | rewrite Hst; left; reflexivity]).
  pose proof (i_noup_a s I x Hx) as Hn. rewrite Hops in Hn. apply noup_cons in Hn. destruct Hn as [Hnb Hnr]. cbn [noup_op] in Hnb. fold (noup body) in Hnb.
  assert (Hxc : a_start x <= clock s) by (apply (i_clock s I x Hx)).
  unfold spawn.
  set (t := length (tasks s)).
  set (reuse := match assoc j (a_own x) with Some gj => if is_set k && is_set (j_kind (join_of s gj)) then Some gj else None | None => None end).
  set (gj := match reuse with Some g0 => g0 | None => length (joins s) end).
  set (js := match reuse with Some _ => joins s | None => joins s ++ [JR k t (a_start x)] end).
  set (own' := match reuse with Some _ => a_own x | None => (j, gj) :: a_own x end).
  set (cap' := filter (fun nv => negb (Nat.eqb (fst nv) j)) (a_own x) ++ a_cap x).
  (* facts about the join of the new task *)
  assert (Hre : forall g0, reuse = Some g0 -> In (j, g0) (a_own x) /\ j_kind (join_of s g0) = JSet).
  { intros g0 E. unfold reuse in E. destruct (assoc j (a_own x)) as [g1|] eqn:Ea; [|discriminate].
    destruct (is_set k && is_set (j_kind (join_of s g1))) eqn:Eb; [|discriminate]. inversion E; subst.
    split; [apply assoc_in; exact Ea|]. apply andb_prop in Eb. destruct Eb as [_ Eb]. destruct (j_kind (join_of s g0)); [reflexivity | discriminate]. }
  assert (F0 : exists extra, js = joins s ++ extra).
  { unfold js. destruct reuse; [exists []; rewrite app_nil_r; reflexivity | eexists; reflexivity]. }
  assert (F1 : gj < length js /\ j_ostart (nth gj js djoin) = a_start x).
  { unfold gj, js. destruct reuse as [g0|] eqn:E.
    - destruct (Hre g0 eq_refl) as [Hin _]. apply (i_own s I x j g0 Hx Hin).
    - rewrite app_length. cbn. split; [lia|]. rewrite nth_app_new. reflexivity. }
  assert (F2 : forall jr, In jr js -> j_ostart jr <= clock s).
  { intros jr Hjr. unfold js in Hjr. destruct reuse; [apply (i_jclock s I jr Hjr)|].
    apply in_app_or in Hjr. destruct Hjr as [H|[<-|[]]]; [apply (i_jclock s I jr H) | cbn; exact Hxc]. }
  assert (F3 : forall n g, In (n, g) own' -> g < length js /\ j_ostart (nth g js djoin) = a_start x).
  { intros n g Hng. assert (Hold : In (n, g) (a_own x) -> g < length js /\ j_ostart (nth g js djoin) = a_start x).
    { intros H. destruct (i_own s I x n g Hx H) as [R O]. destruct F0 as [extra ->]. rewrite app_length. split; [lia|].
      rewrite nth_app_old by exact R. exact O. }
    unfold own' in Hng. destruct reuse as [g0|] eqn:E; [apply Hold; exact Hng|].
    destruct Hng as [Heq|H]; [inversion Heq; subst; exact F1 | apply Hold; exact H]. }
  assert (F4 : forall st0 g, g < length js -> is_set (j_kind (nth g js djoin)) = false ->
               j_ftask (nth g js djoin) < S (length (tasks s)) /\
               t_join (nth (j_ftask (nth g js djoin)) (tasks s ++ [TR body cap' gj st0]) dtask) = g).
  { intros st0 g Hg Hk.
    assert (Hold : g < length (joins s) -> is_set (j_kind (nth g (joins s) djoin)) = false ->
                   j_ftask (nth g (joins s) djoin) < S (length (tasks s)) /\
                   t_join (nth (j_ftask (nth g (joins s) djoin)) (tasks s ++ [TR body cap' gj st0]) dtask) = g).
    { intros R K. destruct (i_fut s I g R K) as [A B]. split; [unfold join_of in A; lia|]. unfold join_of in A. rewrite nth_app_old by exact A. exact B. }
    unfold js in *. destruct reuse as [g0|] eqn:E; [apply Hold; assumption|].
    rewrite app_length in Hg. cbn in Hg. destruct (Nat.eq_dec g (length (joins s))) as [->|Hne].
    - rewrite nth_app_new. cbn [j_ftask]. split; [unfold t; lia|]. unfold t. rewrite nth_app_new. cbn [t_join]. unfold gj. reflexivity.
    - assert (R : g < length (joins s)) by lia. rewrite nth_app_old in Hk |- * by exact R. apply Hold; assumption. }
  destruct (Nat.modulo c 3) as [|[|m]] eqn:Ec.
  - (* inline *)
    assert (G : Inv (with_stack (ST (tasks s ++ [TR body cap' gj TActive]) js (cq s) (steal s) (agents s) (S (clock s))) a
                       ([ACT t body [] cap' MRun (S (clock s))] ++ ACT (a_task x) r own' (a_cap x) MRun (a_start x) :: below))).
    { apply inv_spawn_gen; try assumption; try (apply F1); try (apply F4). right. repeat split; reflexivity. }
    destruct (first_parked (agents s) 0); exact G.
  - (* central queue *)
    assert (G : Inv (with_stack (ST (tasks s ++ [TR body cap' gj TQueued]) js (cq s ++ [t]) (steal s) (agents s) (clock s)) a
                       ([] ++ ACT (a_task x) r own' (a_cap x) MRun (a_start x) :: below))).
    { apply inv_spawn_gen; try assumption; try (apply F1); try (apply F4). left. repeat split; try reflexivity. left. split; reflexivity. }
    destruct (first_parked (agents s) 0); exact G.
  - destruct m as [|m'].
    + destruct (first_parked (agents s) 0) as [w|] eqn:Ep.
      * (* steal ring: claim the parked worker w first (it is idle), then push *)
        apply first_parked_spec in Ep. rewrite Nat.sub_0_r in Ep. destruct Ep as (_ & Hw & Ww & Pw).
        change (nth w (agents s) dagent) with (agent_of s w) in Ww, Pw.
        assert (Sw : stack (agent_of s w) = []) by (apply (i_parked s I _ (agent_in s w Hw) Pw)).
        assert (Hwa : w <> a) by (intros ->; rewrite Hst in Sw; discriminate).
        set (su := with_agent s w (AG (stack (agent_of s w)) false true)).
        assert (Iu : Inv su) by (apply inv_flags; [exact I | exact Hw | reflexivity | cbn; rewrite Ww; reflexivity | cbn; discriminate]).
        assert (Hau : agent_of su a = agent_of s a) by (unfold su, agent_of; rewrite agents_with_agent; apply nth_set_nth_other; exact Hwa).
        assert (G : Inv (with_stack (ST (tasks su ++ [TR body cap' gj TQueued]) js (cq su) (steal su ++ [length (tasks su)]) (agents su) (clock su)) a
                           ([] ++ ACT (a_task x) r own' (a_cap x) MRun (a_start x) :: below))).
        { apply inv_spawn_gen; try assumption; try (apply F1); try (apply F4).
          - unfold su. rewrite agents_with_agent, set_nth_length. exact Ha.
          - rewrite Hau. exact Hst.
          - left. repeat split; try reflexivity. right. split; [reflexivity|]. split; [reflexivity|].
            exists (AG (stack (agent_of s w)) false true). split; [unfold su; rewrite agents_with_agent; apply set_nth_in_new; exact Hw|].
            repeat split; try reflexivity. exact Sw. }
        (* the two orders give the same state *)
        cbv zeta. rewrite steal_order by (apply not_eq_sym; exact Hwa). exact G.
      * assert (G : Inv (with_stack (ST (tasks s ++ [TR body cap' gj TQueued]) js (cq s ++ [t]) (steal s) (agents s) (clock s)) a
                           ([] ++ ACT (a_task x) r own' (a_cap x) MRun (a_start x) :: below))).
        { apply inv_spawn_gen; try assumption; try (apply F1); try (apply F4). left. repeat split; try reflexivity. left. split; reflexivity. }
        exact G.
    + exfalso. pose proof (Nat.mod_upper_bound c 3 ltac:(lia)). lia.
Qed.
